package p2p

// Message-builder and framing harness for C31 (spec/Proposal/Transport.tla).
//  * Builders: the batches the real batcher admitted (files written by the kernel harness) are fed
//    to the real bundle / challenge / relay builders; lengths and panics are recorded.
//  * Framing: a real loopback QUIC pair; frames of seeded sizes (boundaries included) go through
//    the real Send / Receive; oversized headers are written raw to the stream and the real
//    receiveWithLimit must refuse them without allocating the announced size.
// TLC (Trace_Transport.tla) is the judge.

import (
	"context"
	"encoding/binary"
	"math/rand"
	"os"
	"runtime"
	"testing"
	"time"

	"github.com/MixinNetwork/mixin/common"
	"github.com/MixinNetwork/mixin/crypto"
)

type vtpCases struct {
	Batches []string `json:"batches"` // files written by the kernel harness
	Frames  []int    `json:"frames"`  // frame sizes to round-trip (0 and > max included)
	Over    []int64  `json:"over"`    // announced sizes of raw headers (> limit)
	Limits  []int    `json:"limits"`  // receive limits to test with frames around them
	BigSend bool     `json:"big_send"`
}

func vtpLoadBatch(t testing.TB, file string) []*common.VersionedTransaction {
	b, err := os.ReadFile(file)
	if err != nil {
		t.Fatal(err)
	}
	n := int(binary.BigEndian.Uint32(b[:4]))
	b = b[4:]
	txs := make([]*common.VersionedTransaction, n)
	for i := range txs {
		l := int(binary.BigEndian.Uint32(b[:4]))
		tx, err := common.UnmarshalVersionedTransaction(b[4 : 4+l])
		if err != nil {
			t.Fatalf("batch file: %v", err)
		}
		txs[i] = tx
		b = b[4+l:]
	}
	return txs
}

type vtpPair struct {
	relayer *QuicRelayer
	client  *QuicClient
	server  *QuicClient
}

func vtpNewPair(t testing.TB) *vtpPair {
	rel, err := NewQuicRelayer("127.0.0.1:0")
	if err != nil {
		t.Fatal(err)
	}
	acc := make(chan Client, 1)
	go func() {
		s, err := rel.Accept(context.Background())
		if err != nil {
			acc <- nil
			return
		}
		acc <- s
	}()
	cl, err := NewQuicConsumer(context.Background(), rel.listener.Addr().String())
	if err != nil {
		t.Fatal(err)
	}
	// the stream becomes visible to the acceptor with the first frame
	if err := cl.Send([]byte("open")); err != nil {
		t.Fatal(err)
	}
	s := <-acc
	if s == nil {
		t.Fatal("accept failed")
	}
	srv := s.(*QuicClient)
	if m, err := srv.Receive(); err != nil || string(m.Data) != "open" {
		t.Fatalf("open frame: %v", err)
	}
	return &vtpPair{relayer: rel, client: cl, server: srv}
}

func (p *vtpPair) close() {
	p.client.Close("done")
	p.server.Close("done")
	p.relayer.Close()
}

func vtpFill(n int, seed int64) []byte {
	b := make([]byte, n)
	r := rand.New(rand.NewSource(seed))
	// cheap but position dependent content
	for i := 0; i+8 <= n; i += 8 {
		binary.LittleEndian.PutUint64(b[i:], r.Uint64())
	}
	for i := n - n%8; i < n; i++ {
		b[i] = byte(r.Intn(256))
	}
	return b
}

// one frame through the real Send / receiveWithLimit
func vtpRoundTrip(tr *vTrace, p *vtpPair, data []byte, limit uint32, kind string) (usable bool) {
	type rcv struct {
		m   *TransportMessage
		res string
	}
	ch := make(chan rcv, 1)
	// the receiver runs while the sender writes (a large frame needs the peer to read)
	go func() {
		var got *TransportMessage
		res, _ := vCall(func() error {
			var err error
			got, err = p.server.receiveWithLimit(limit)
			return err
		})
		ch <- rcv{got, res}
	}()
	sendStart := time.Now()
	sendRes, _ := vCall(func() error { return p.client.Send(data) })
	if sendRes == "err" && time.Since(sendStart) > WriteDeadline*9/10 {
		sendRes = "timeout" // the write deadline passed (overloaded machine): not a verdict, the driver stops
	}
	m := vM{"ev": "Frame", "kind": kind, "size": len(data), "limit": int(limit), "send": sendRes,
		"recv": "none", "recv_size": -1, "same": false}
	if sendRes != "ok" {
		// nothing usable was sent: the pending receive is abandoned together with the pair
		tr.Emit(m)
		return false
	}
	select {
	case r := <-ch:
		m["recv"] = r.res
		if r.res == "ok" && r.m != nil {
			m["recv_size"] = len(r.m.Data)
			m["same"] = len(r.m.Data) == len(data) && crypto.Blake3Hash(r.m.Data) == crypto.Blake3Hash(data) &&
				int(r.m.Size) == len(data) && r.m.Version == TransportMessageVersion
		}
		tr.Emit(m)
		return r.res == "ok"
	case <-time.After(60 * time.Second):
		m["recv"] = "timeout"
		tr.Emit(m)
		return false
	}
}

func TestVerifTransportP2P(t *testing.T) {
	tr := vOpenTrace(t)
	defer tr.Close()
	var cases vtpCases
	vLoadCases(t, &cases)
	seed := vSeed()
	tr.Emit(vM{"ev": "Limits", "max": TransportMessageMaxSize, "header": TransportMessageHeaderSize,
		"countmax": common.SnapshotTransactionsMaximum})

	// ---- builders on the batches the real batcher admitted
	me := NewPeer(nil, crypto.Blake3Hash([]byte("vtp-me")), "127.0.0.1:0", false)
	other := crypto.Blake3Hash([]byte("vtp-other"))
	var pair *vtpPair
	for bi, file := range cases.Batches {
		txs := vtpLoadBatch(t, file)
		signed := make([]int, len(txs))
		payload := make([]int, len(txs))
		for i, tx := range txs {
			signed[i] = len(tx.Marshal())
			payload[i] = len(tx.PayloadMarshal())
		}
		emit := func(kind string, build func() []byte, relay bool) {
			var msg []byte
			res, detail := vCall(func() error { msg = build(); return nil })
			m := vM{"ev": "Built", "batch": bi, "kind": kind, "n": len(txs), "signed": signed, "payload": payload, "res": res, "len": len(msg)}
			if res != "ok" {
				if len(detail) > 80 {
					detail = detail[:80]
				}
				m["detail"] = detail
				m["len"] = -1
			}
			tr.Emit(m)
			if res != "ok" || !relay {
				return
			}
			// the same message wrapped for relaying, as sendToPeer does for a non-neighbour
			var wrapped []byte
			res, detail = vCall(func() error { wrapped = me.buildRelayMessage(other, msg); return nil })
			m = vM{"ev": "Built", "batch": bi, "kind": kind + "+relay", "n": len(txs), "signed": signed, "payload": payload, "res": res, "len": len(wrapped), "inner": len(msg)}
			if res != "ok" {
				if len(detail) > 80 {
					detail = detail[:80]
				}
				m["detail"] = detail
				m["len"] = -1
			}
			tr.Emit(m)
			// and handed to the real transport
			if cases.BigSend || len(msg) <= 4<<20 {
				if pair == nil {
					pair = vtpNewPair(t)
				}
				if !vtpRoundTrip(tr, pair, msg, TransportMessageMaxSize, "built:"+kind) {
					pair.close()
					pair = nil
				}
			}
		}
		if len(txs) == 0 {
			continue
		}
		emit("bundle", func() []byte { return buildTransactionsMessage(txs, PeerMessageTypeTransactionBundle) }, true)
		snap := &common.Snapshot{Version: common.SnapshotVersionCommonEncoding, NodeId: me.IdForNetwork, RoundNumber: 1,
			References: &common.RoundLink{Self: crypto.Blake3Hash([]byte("vtp-self")), External: crypto.Blake3Hash([]byte("vtp-ext"))}, Timestamp: 1}
		for _, tx := range txs {
			snap.AddTransaction(tx.PayloadHash())
		}
		snap.Hash = snap.PayloadHash()
		cosi := &crypto.CosiSignature{Mask: 1}
		var c1, c2 crypto.Key
		emit("challenge", func() []byte { return buildBatchTransactionChallengeMessage(snap.Hash, cosi, txs) }, false)
		emit("fullchallenge", func() []byte { return buildBatchFullChallengeMessage(snap, &c1, &c2, txs) }, false)
	}

	// ---- framing round trips
	for i, n := range cases.Frames {
		if pair == nil {
			pair = vtpNewPair(t)
		}
		if !vtpRoundTrip(tr, pair, vtpFill(n, seed*1000+int64(i)), TransportMessageMaxSize, "frame") {
			pair.close()
			pair = nil
		}
	}
	// smaller receive limits: frames just below / at / above the limit
	for i, lim := range cases.Limits {
		for _, n := range []int{lim - 1, lim, lim + 1} {
			if n < 1 {
				continue
			}
			if pair == nil {
				pair = vtpNewPair(t)
			}
			if !vtpRoundTrip(tr, pair, vtpFill(n, seed*77+int64(i)), uint32(lim), "limit") {
				pair.close()
				pair = nil
			}
		}
	}
	if pair != nil {
		pair.close()
		pair = nil
	}
	// invalid limits
	for _, lim := range []uint32{0, TransportMessageMaxSize + 1} {
		res, _ := vCall(func() error { _, err := (&QuicClient{}).receiveWithLimit(lim); return err })
		tr.Emit(vM{"ev": "BadLimit", "limit": int64(lim), "res": res})
	}

	// ---- oversized headers written raw: refused before the announced size is allocated
	for _, size := range cases.Over {
		p := vtpNewPair(t)
		header := []byte{TransportMessageVersion, 0, 0, 0, 0, 0}
		binary.BigEndian.PutUint32(header[2:], uint32(size))
		runtime.GC()
		var before, after runtime.MemStats
		runtime.ReadMemStats(&before)
		if _, err := p.client.stream.Write(header); err != nil {
			t.Fatalf("raw header: %v", err)
		}
		type out struct {
			res string
			got bool
		}
		ch := make(chan out, 1)
		start := time.Now()
		go func() {
			var m *TransportMessage
			res, _ := vCall(func() error {
				var err error
				m, err = p.server.Receive()
				return err
			})
			ch <- out{res, m != nil && res == "ok"}
		}()
		ev := vM{"ev": "Oversize", "announced_kib": size >> 10, "announced_over_max": size > TransportMessageMaxSize}
		select {
		case o := <-ch:
			ev["res"] = o.res
			ev["ms"] = int(time.Since(start).Milliseconds())
		case <-time.After(5 * time.Second):
			// still waiting for a body that will never come: the size was accepted
			ev["res"] = "waiting"
			ev["ms"] = 5000
		}
		runtime.ReadMemStats(&after)
		ev["alloc_kib"] = int64(after.TotalAlloc-before.TotalAlloc) >> 10
		tr.Emit(ev)
		p.close()
	}
}
