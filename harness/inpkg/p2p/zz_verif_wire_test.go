package p2p

// Case executor for the peer message grammar of spec/Wire/WireP2P.tla (property C08).
// A shape names a builder and its input classes. The real build*Message function produces the
// bytes, the tokens are located with the lengths computed by the specification, one structured
// mutation is applied to the bytes and parseNetworkMessage runs under recover. Only observations
// are recorded; TLC judges them (spec/Wire/Trace_WireP2P.tla).

import (
	"bytes"
	"encoding/json"
	"fmt"
	"math/rand"
	"testing"

	"filippo.io/edwards25519"
	"github.com/MixinNetwork/mixin/common"
	"github.com/MixinNetwork/mixin/crypto"
	"github.com/dgraph-io/ristretto/v2"
)

type vpMut struct {
	Op  string  `json:"op"`
	I   int     `json:"i"`
	J   int     `json:"j"`
	K   int     `json:"k"`
	Val int     `json:"val"`
	New [][]int `json:"new"`
}

func (m vpMut) MarshalJSON() ([]byte, error) {
	type plain vpMut
	p := plain(m)
	if p.New == nil {
		p.New = [][]int{}
	}
	if p.Op == "" {
		p.Op = "None"
	}
	return json.Marshal(p)
}

type vpSnapShape struct {
	Round int  `json:"round"`
	Refs  bool `json:"refs"`
	Cnt   int  `json:"cnt"`
	Sig   bool `json:"sig"`
	Topo  int  `json:"topo"`
	Ts    int  `json:"ts"`
}

type vpShape struct {
	Typ  string      `json:"typ"`
	N    int         `json:"n"`
	M    int         `json:"m"`
	Snap vpSnapShape `json:"snap"`
}

type vpShapeRec struct {
	Shape vpShape `json:"shape"`
	Lens  []int   `json:"lens"`
}

type vpCase struct {
	Sid int   `json:"sid"`
	Mut vpMut `json:"mut"`
}

type vpCases struct {
	Shapes []vpShapeRec `json:"shapes"`
	Cases  []vpCase     `json:"cases"`
	Blind  int          `json:"blind"`
	Reps   int          `json:"reps"`
	Only   int          `json:"only"`
}

// ---- a SyncHandle that signs with a fixed key and serves a prepared graph
type vpHandle struct {
	key   crypto.Key
	graph []*SyncPoint
	cache *ristretto.Cache[[]byte, any]
}

func (h *vpHandle) GetCacheStore() *ristretto.Cache[[]byte, any] { return h.cache }
func (h *vpHandle) SignData(data []byte) crypto.Signature        { return h.key.Sign(crypto.Blake3Hash(data)) }
func (h *vpHandle) BuildAuthenticationMessage(crypto.Hash) []byte { panic("unused") }
func (h *vpHandle) AuthenticateAs(crypto.Hash, []byte, int64) (*AuthToken, error) {
	panic("unused")
}
func (h *vpHandle) BuildGraph() []*SyncPoint { return h.graph }
func (h *vpHandle) UpdateSyncPoint(crypto.Hash, []*SyncPoint, []byte, *crypto.Signature) error {
	panic("unused")
}
func (h *vpHandle) ReadAllNodesWithoutState() []crypto.Hash { panic("unused") }
func (h *vpHandle) ReadSnapshotsSinceTopology(uint64, uint64) ([]*common.SnapshotWithTopologicalOrder, error) {
	panic("unused")
}
func (h *vpHandle) ReadSnapshotsForNodeRound(crypto.Hash, uint64) ([]*common.SnapshotWithTopologicalOrder, error) {
	panic("unused")
}
func (h *vpHandle) SendTransactionToPeer(crypto.Hash, crypto.Hash) error { panic("unused") }
func (h *vpHandle) SendTransactionsToPeer(crypto.Hash, []crypto.Hash, bool) error {
	panic("unused")
}
func (h *vpHandle) CacheQueueTransactions(crypto.Hash, []*common.VersionedTransaction) error {
	panic("unused")
}
func (h *vpHandle) CacheStoreTransactions(crypto.Hash, []*common.VersionedTransaction) error {
	panic("unused")
}
func (h *vpHandle) CosiQueueExternalAnnouncement(crypto.Hash, *common.Snapshot, *crypto.Key, *crypto.Signature) error {
	panic("unused")
}
func (h *vpHandle) CosiAggregateSelfCommitments(crypto.Hash, crypto.Hash, *crypto.Key, []crypto.Hash, []byte, *crypto.Signature) error {
	panic("unused")
}
func (h *vpHandle) CosiQueueExternalChallenge(crypto.Hash, crypto.Hash, *crypto.CosiSignature, []*common.VersionedTransaction) error {
	panic("unused")
}
func (h *vpHandle) CosiQueueExternalFullChallenge(crypto.Hash, *common.Snapshot, *crypto.Key, *crypto.Key, *crypto.CosiSignature, []*common.VersionedTransaction) error {
	panic("unused")
}
func (h *vpHandle) CosiAggregateSelfResponses(crypto.Hash, crypto.Hash, *[32]byte) error {
	panic("unused")
}
func (h *vpHandle) VerifyAndQueueAppendSnapshotFinalization(crypto.Hash, *common.Snapshot) error {
	panic("unused")
}
func (h *vpHandle) CosiQueueExternalPreCommitments(crypto.Hash, []*crypto.Key, []byte, *crypto.Signature) error {
	panic("unused")
}

// ---- token tools (the same operators as spec/Wire/Wire.tla Mutate; see harness/inpkg/common)
func vpSplit(b []byte, lens []int) ([][]byte, bool) {
	toks := make([][]byte, 0, len(lens))
	off := 0
	for _, n := range lens {
		if off+n > len(b) {
			return nil, false
		}
		toks = append(toks, append([]byte{}, b[off:off+n]...))
		off += n
	}
	return toks, off == len(b)
}

func vpJoin(toks [][]byte) []byte {
	var out []byte
	for _, t := range toks {
		out = append(out, t...)
	}
	return out
}

func vpSetBE(tok []byte, val uint64) {
	for i := len(tok) - 1; i >= 0; i-- {
		tok[i] = byte(val)
		val >>= 8
	}
}

// an encoding that is not a valid prime-order point: class 10 no point of the curve at all,
// class 11 a point of small order (here: the identity)
func vpInvalidPoint(cls int, rng *rand.Rand) []byte {
	if cls == 11 {
		id := edwards25519.NewIdentityPoint().Bytes()
		return id
	}
	for {
		b := make([]byte, 32)
		rng.Read(b)
		if _, err := edwards25519.NewIdentityPoint().SetBytes(b); err != nil {
			return b
		}
	}
}

func vpApply(toks [][]byte, m vpMut, rng *rand.Rand) []byte {
	cp := make([][]byte, len(toks))
	for i := range toks {
		cp[i] = append([]byte{}, toks[i]...)
	}
	switch m.Op {
	case "None", "":
	case "Trunc":
		b := vpJoin(cp)
		if m.K >= len(b) {
			return []byte{}
		}
		return b[:len(b)-m.K]
	case "Ext":
		return append(vpJoin(cp), bytes.Repeat([]byte{byte(m.Val)}, m.K)...)
	case "Set":
		vpSetBE(cp[m.I-1], uint64(m.Val))
	case "Flip":
		t := cp[m.I-1]
		if len(t) > 0 {
			bit := rng.Intn(len(t) * 8)
			t[bit/8] ^= 1 << (bit % 8)
		}
	case "Point":
		cp[m.I-1] = vpInvalidPoint(m.Val, rng)
	default:
		panic("unknown mutation " + m.Op)
	}
	return vpJoin(cp)
}

func vpRng(idx int) *rand.Rand {
	return rand.New(rand.NewSource(vSeed()*1000003 + int64(idx)*7919 + 29))
}

func vpHash(rng *rand.Rand) (h crypto.Hash) {
	rng.Read(h[:])
	return
}

func vpPoint(rng *rand.Rand) crypto.Key {
	seed := make([]byte, 64)
	rng.Read(seed)
	return crypto.NewKeyFromSeed(seed).Public()
}

func vpTx(m int, rng *rand.Rand) *common.VersionedTransaction {
	tx := common.NewTransactionV5(vpHash(rng))
	if m == 1 {
		tx.Extra = make([]byte, 220)
		rng.Read(tx.Extra)
	}
	return tx.AsVersioned()
}

func vpSnapshot(sh vpSnapShape, rng *rand.Rand) *common.Snapshot {
	s := &common.Snapshot{Version: common.SnapshotVersionCommonEncoding, NodeId: vpHash(rng)}
	if sh.Round != 0 {
		s.RoundNumber = uint64(1 + rng.Intn(1000))
	}
	if sh.Refs {
		s.References = &common.RoundLink{Self: vpHash(rng), External: vpHash(rng)}
	}
	for i := 0; i < sh.Cnt; i++ {
		s.Transactions = append(s.Transactions, vpHash(rng))
	}
	if sh.Ts != 0 {
		s.Timestamp = 1700000000000000000 + uint64(rng.Int63n(1e15))
	}
	if sh.Sig {
		cs := &crypto.CosiSignature{Mask: uint64(rng.Int63()) | 1}
		rng.Read(cs.Signature[:])
		s.Signature = cs
	}
	return s
}

// what the builder was given, to be compared with what the parser returns
type vpBuilt struct {
	typ         uint8
	data        []byte
	hash        crypto.Hash
	txs         []*common.VersionedTransaction
	snap        *common.Snapshot
	commitment  crypto.Key
	challenge   crypto.Key
	response    [32]byte
	cosi        crypto.CosiSignature
	want        []crypto.Hash
	commitments []*crypto.Key
	graph       []*SyncPoint
	payload     []byte // expected msg.Data
}

func vpBuild(sh vpShape, rng *rand.Rand, h *vpHandle) ([]byte, *vpBuilt) {
	b := &vpBuilt{}
	txs := func(n int) []*common.VersionedTransaction {
		var out []*common.VersionedTransaction
		for i := 0; i < n; i++ {
			out = append(out, vpTx(sh.M, rng))
		}
		return out
	}
	switch sh.Typ {
	case "ping":
		b.typ = PeerMessageTypePing
		return []byte{PeerMessageTypePing}, b
	case "unknown":
		b.typ = 99
		return []byte{99, 1, 2, 3, 4, 5}, b
	case "auth":
		b.typ = PeerMessageTypeAuthentication
		b.payload = make([]byte, authenticationPayloadSize)
		rng.Read(b.payload)
		return buildAuthenticationMessage(b.payload), b
	case "graph":
		b.typ = PeerMessageTypeGraph
		h.graph = nil
		for i := 0; i < sh.N; i++ {
			h.graph = append(h.graph, &SyncPoint{NodeId: vpHash(rng), Number: uint64(rng.Int63()), Hash: vpHash(rng)})
		}
		b.graph = h.graph
		return buildGraphMessage(h), b
	case "confirm":
		b.typ, b.hash = PeerMessageTypeSnapshotConfirm, vpHash(rng)
		return buildSnapshotConfirmMessage(b.hash), b
	case "txreq":
		b.typ, b.hash = PeerMessageTypeTransactionRequest, vpHash(rng)
		return buildTransactionRequestMessage(b.hash), b
	case "tx":
		b.typ, b.txs = PeerMessageTypeTransaction, txs(1)
		return buildTransactionMessage(b.txs[0]), b
	case "bundle", "fbundle":
		b.typ = PeerMessageTypeTransactionBundle
		if sh.Typ == "fbundle" {
			b.typ = PeerMessageTypeFinalizedTransactionBundle
		}
		b.txs = txs(sh.N)
		return buildTransactionsMessage(b.txs, b.typ), b
	case "commitments":
		b.typ = PeerMessageTypePreCommitments
		for i := 0; i < sh.N; i++ {
			k := vpPoint(rng)
			b.commitments = append(b.commitments, &k)
		}
		return buildCommitmentsMessage(h, b.commitments), b
	case "announce":
		b.typ, b.snap, b.commitment = PeerMessageTypeBatchSnapshotAnnouncement, vpSnapshot(sh.Snap, rng), vpPoint(rng)
		seed := make([]byte, 64)
		rng.Read(seed)
		return buildBatchSnapshotAnnouncementMessage(b.snap, b.commitment, crypto.NewKeyFromSeed(seed)), b
	case "commitment":
		b.typ, b.hash, b.commitment = PeerMessageTypeBatchSnapshotCommitment, vpHash(rng), vpPoint(rng)
		for i := 0; i < sh.N; i++ {
			b.want = append(b.want, vpHash(rng))
		}
		return buildBatchSnapshotCommitmentMessage(h, b.hash, b.commitment, b.want), b
	case "txchallenge":
		b.typ, b.hash, b.txs = PeerMessageTypeBatchTransactionChallenge, vpHash(rng), txs(sh.N)
		b.cosi.Mask = uint64(rng.Int63())
		rng.Read(b.cosi.Signature[:])
		return buildBatchTransactionChallengeMessage(b.hash, &b.cosi, b.txs), b
	case "response":
		b.typ, b.hash = PeerMessageTypeBatchSnapshotResponse, vpHash(rng)
		rng.Read(b.response[:])
		return buildSnapshotResponseMessage(b.hash, &b.response), b
	case "fullchallenge":
		b.typ, b.snap = PeerMessageTypeBatchFullChallenge, vpSnapshot(sh.Snap, rng)
		b.commitment, b.challenge, b.txs = vpPoint(rng), vpPoint(rng), txs(sh.N)
		return buildBatchFullChallengeMessage(b.snap, &b.commitment, &b.challenge, b.txs), b
	case "final":
		b.typ, b.snap = PeerMessageTypeBatchSnapshotFinalization, vpSnapshot(sh.Snap, rng)
		return buildBatchSnapshotFinalizationMessage(b.snap), b
	case "relay":
		b.typ = PeerMessageTypeRelay
		me := NewPeer(h, vpHash(rng), "127.0.0.1:9001", true)
		inner := make([]byte, sh.N)
		rng.Read(inner)
		data := me.buildRelayMessage(vpHash(rng), inner)
		b.payload = data
		return data, b
	case "consumers":
		b.typ = PeerMessageTypeConsumers
		me := NewPeer(h, vpHash(rng), "127.0.0.1:9001", true)
		for i := 0; i < sh.N; i++ {
			id := vpHash(rng)
			c := NewPeer(nil, id, "127.0.0.1:9002", false)
			c.consumerAuth = &AuthToken{Data: make([]byte, authenticationPayloadSize)}
			rng.Read(c.consumerAuth.Data)
			me.consumers.Set(id, c)
		}
		data := me.buildConsumersMessage()
		b.payload = data[1:]
		return data, b
	}
	panic("unknown shape " + sh.Typ)
}

func vpTxsEqual(a, b []*common.VersionedTransaction) bool {
	if len(a) != len(b) {
		return false
	}
	for i := range a {
		if a[i] == nil || b[i] == nil || !bytes.Equal(a[i].Marshal(), b[i].Marshal()) {
			return false
		}
	}
	return true
}

func vpSnapEqual(a, b *common.Snapshot, withSig bool) bool {
	if a == nil || b == nil {
		return false
	}
	x, y := *a, *b
	if !withSig {
		x.Signature, y.Signature = nil, nil
	}
	return bytes.Equal(x.VersionedMarshal(), y.VersionedMarshal())
}

// fields of the parsed message against the builder's inputs (per message type)
func vpFieldsEqual(b *vpBuilt, in []byte, msg *PeerMessage) bool {
	switch b.typ {
	case PeerMessageTypePing, 99:
		return true
	case PeerMessageTypeAuthentication, PeerMessageTypeRelay, PeerMessageTypeConsumers:
		return bytes.Equal(msg.Data, b.payload)
	case PeerMessageTypeGraph:
		if len(msg.Graph) != len(b.graph) || msg.signature == nil || !bytes.Equal(msg.signature[:], in[1:65]) || !bytes.Equal(msg.unsigned, in[65:]) {
			return false
		}
		for i := range b.graph {
			if msg.Graph[i].NodeId != b.graph[i].NodeId || msg.Graph[i].Number != b.graph[i].Number || msg.Graph[i].Hash != b.graph[i].Hash {
				return false
			}
		}
		return true
	case PeerMessageTypeSnapshotConfirm:
		return msg.SnapshotHash == b.hash
	case PeerMessageTypeTransactionRequest:
		return msg.TransactionHash == b.hash
	case PeerMessageTypeTransaction, PeerMessageTypeTransactionBundle, PeerMessageTypeFinalizedTransactionBundle:
		return vpTxsEqual(msg.Transactions, b.txs)
	case PeerMessageTypePreCommitments:
		if len(msg.Commitments) != len(b.commitments) || msg.signature == nil || !bytes.Equal(msg.signature[:], in[1:65]) || !bytes.Equal(msg.unsigned, in[65:]) {
			return false
		}
		for i := range b.commitments {
			if *msg.Commitments[i] != *b.commitments[i] {
				return false
			}
		}
		return true
	case PeerMessageTypeBatchSnapshotAnnouncement:
		return vpSnapEqual(msg.Snapshot, b.snap, true) && msg.Commitment == b.commitment && msg.signature != nil && bytes.Equal(msg.signature[:], in[1:65])
	case PeerMessageTypeBatchSnapshotCommitment:
		if msg.SnapshotHash != b.hash || msg.Commitment != b.commitment || len(msg.WantTxs) != len(b.want) ||
			msg.signature == nil || !bytes.Equal(msg.signature[:], in[1:65]) || !bytes.Equal(msg.unsigned, in[65:]) {
			return false
		}
		for i := range b.want {
			if msg.WantTxs[i] != b.want[i] {
				return false
			}
		}
		return true
	case PeerMessageTypeBatchTransactionChallenge:
		return msg.SnapshotHash == b.hash && msg.Cosi.Signature == b.cosi.Signature && msg.Cosi.Mask == b.cosi.Mask && vpTxsEqual(msg.Transactions, b.txs)
	case PeerMessageTypeBatchSnapshotResponse:
		return msg.SnapshotHash == b.hash && msg.Response == b.response
	case PeerMessageTypeBatchFullChallenge:
		return vpSnapEqual(msg.Snapshot, b.snap, false) && msg.Snapshot.Signature == nil && b.snap.Signature != nil &&
			msg.Cosi.Mask == b.snap.Signature.Mask && msg.Cosi.Signature == b.snap.Signature.Signature &&
			msg.Commitment == b.commitment && msg.Challenge == b.challenge && vpTxsEqual(msg.Transactions, b.txs)
	case PeerMessageTypeBatchSnapshotFinalization:
		return vpSnapEqual(msg.Snapshot, b.snap, true)
	}
	return false
}

func vpPointsValid(msg *PeerMessage) bool {
	switch msg.Type {
	case PeerMessageTypePreCommitments:
		for _, k := range msg.Commitments {
			if k == nil || !k.CheckKey() {
				return false
			}
		}
	case PeerMessageTypeBatchSnapshotAnnouncement, PeerMessageTypeBatchSnapshotCommitment:
		return msg.Commitment.CheckKey()
	case PeerMessageTypeBatchFullChallenge:
		return msg.Commitment.CheckKey() && msg.Challenge.CheckKey()
	}
	return true
}

func vpParse(in []byte, b *vpBuilt) vM {
	ev := vM{"in_len": len(in), "ptype": 0, "type_eq": false, "fields_eq": false, "points_valid": false}
	var msg *PeerMessage
	res, _ := vCall(func() error {
		var err error
		msg, err = parseNetworkMessage(2, append([]byte{}, in...))
		return err
	})
	ev["res"] = res
	if res != "ok" || msg == nil {
		return ev
	}
	ev["ptype"] = int(msg.Type)
	cmp, _ := vCall(func() error {
		ev["points_valid"] = vpPointsValid(msg)
		if b != nil {
			ev["type_eq"] = msg.Type == b.typ
			ev["fields_eq"] = msg.Type == b.typ && vpFieldsEqual(b, in, msg)
		}
		return nil
	})
	if cmp != "ok" {
		ev["fields_eq"] = false
	}
	return ev
}

func TestVerifWireP2P(t *testing.T) {
	tr := vOpenTrace(t)
	defer tr.Close()
	var cs vpCases
	vLoadCases(t, &cs)
	cache, err := ristretto.NewCache(&ristretto.Config[[]byte, any]{NumCounters: 1e4, MaxCost: 1 << 20, BufferItems: 64})
	if err != nil {
		t.Fatal(err)
	}
	seed := make([]byte, 64)
	seed[0] = 7
	h := &vpHandle{key: crypto.NewKeyFromSeed(seed), cache: cache}
	for i := range cs.Shapes {
		tr.Emit(vM{"ev": "Shape", "shape": cs.Shapes[i].Shape})
	}
	reps := cs.Reps
	if reps < 1 {
		reps = 1
	}
	idx := 0
	for _, c := range cs.Cases {
		for rep := 0; rep < reps; rep++ {
			idx++
			if cs.Only != 0 && cs.Only != idx {
				continue
			}
			rng := vpRng(idx)
			sh := &cs.Shapes[c.Sid]
			var base []byte
			var built *vpBuilt
			br, _ := vCall(func() error { base, built = vpBuild(sh.Shape, rng, h); return nil })
			var ev vM
			if br != "ok" {
				ev = vpParse(nil, nil)
				ev["res"] = "err"
				ev["layout_ok"], ev["base_len"] = false, 0
			} else {
				toks, ok := vpSplit(base, sh.Lens)
				in := base
				if ok {
					in = vpApply(toks, c.Mut, rng)
				}
				var orig *vpBuilt
				if c.Mut.Op == "None" || c.Mut.Op == "" {
					orig = built
				}
				ev = vpParse(in, orig)
				ev["layout_ok"], ev["base_len"] = ok, len(base)
			}
			ev["ev"], ev["src"], ev["idx"], ev["sline"], ev["built"], ev["mut"] = "Msg", "case", idx, c.Sid+1, br, c.Mut
			tr.Emit(ev)
		}
	}
	// seeded byte strings: every type byte with random bodies of every small length, random bytes,
	// byte changes / truncations / extensions of built messages
	for n := 0; n < cs.Blind; n++ {
		idx++
		if cs.Only != 0 && cs.Only != idx {
			continue
		}
		rng := vpRng(idx)
		in := vpBlind(rng, cs.Shapes, h, n)
		ev := vpParse(in, nil)
		ev["ev"], ev["src"], ev["idx"], ev["sline"], ev["built"], ev["mut"] = "Msg", "blind", idx, 0, "-", vpMut{Op: "None"}
		ev["layout_ok"], ev["base_len"] = true, 0
		tr.Emit(ev)
	}
}

var vpTypes = []byte{1, 3, 4, 5, 6, 7, 8, 9, 15, 20, 21, 22, 23, 24, 25, 200, 201}

func vpBlind(rng *rand.Rand, shapes []vpShapeRec, h *vpHandle, n int) []byte {
	valid := func() []byte {
		var b []byte
		for try := 0; try < 5; try++ {
			sh := shapes[rng.Intn(len(shapes))].Shape
			if r, _ := vCall(func() error { b, _ = vpBuild(sh, rng, h); return nil }); r == "ok" {
				return b
			}
		}
		return []byte{1}
	}
	switch rng.Intn(7) {
	case 0: // a known type with a random body of a length around the parser's size guards
		l := []int{0, 1, 2, 31, 32, 33, 63, 64, 65, 66, 67, 70, 71, 79, 80, 96, 99, 100, 101, 104, 105, 106, 127, 128, 129, 136, 137, 138, 255, 256, 257, 300}[rng.Intn(32)]
		b := make([]byte, 1+l)
		rng.Read(b)
		b[0] = vpTypes[n%len(vpTypes)]
		return b
	case 1: // any bytes
		b := make([]byte, rng.Intn(400))
		rng.Read(b)
		return b
	case 2, 3: // one or a few bytes of a built message changed
		b := valid()
		for k := 1 + rng.Intn(3); k > 0 && len(b) > 0; k-- {
			i := rng.Intn(len(b))
			if rng.Intn(2) == 0 {
				b[i] = byte(rng.Intn(256))
			} else {
				b[i] ^= 1 << uint(rng.Intn(8))
			}
		}
		return b
	case 4: // truncated / extended
		b := valid()
		if rng.Intn(2) == 0 && len(b) > 1 {
			return b[:1+rng.Intn(len(b)-1)]
		}
		ext := make([]byte, 1+rng.Intn(40))
		rng.Read(ext)
		return append(b, ext...)
	case 5: // the body of one message under the type byte of another
		b := valid()
		b[0] = vpTypes[rng.Intn(len(vpTypes))]
		return b
	default: // length fields set to extreme values
		b := valid()
		if len(b) > 8 {
			i := 1 + rng.Intn(len(b)-5)
			copy(b[i:], []byte{0xff, 0xff, 0xff, 0xff}[:1+rng.Intn(4)])
		}
		return b
	}
}

var _ = fmt.Sprint
