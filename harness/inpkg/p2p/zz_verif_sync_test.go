package p2p

// Harness of spec/Sync (graph synchronisation, growth of the specification; invoked from the thorough
// tier of C35). It drives the REAL functions of p2p/sync.go
//
//	compareRoundGraphAndGetTopologicalOffset, syncHeadRoundToRemote, syncToNeighborSince
//
// on a real Peer whose SyncHandle reads a real storage.BadgerStore (ReadSnapshotsSinceTopology,
// ReadSnapshotsForNodeRound, ReadRound for the sync points) that the harness fills with rounds and
// snapshots as the TLC-generated behaviour prescribes. The neighbour's graphs go through the real
// p.syncRing; what the code sends is read back from the neighbour's real rings (finalization messages
// from normalRing, transaction bundles from highRing) and from the SendTransactionsToPeer calls seen by
// the handle. The loop functions (getSyncPointOffset, syncToNeighborLoop) sleep; their glue (last graph,
// last non-zero offset, head push per node, stream while offset > 0) is replayed here step by step and
// recorded, so that Trace_Sync.tla judges it as well. Nothing is asserted in Go.

import (
	"fmt"
	"os"
	"sort"
	"strings"
	"sync"
	"testing"
	"time"

	"github.com/MixinNetwork/mixin/common"
	"github.com/MixinNetwork/mixin/config"
	"github.com/MixinNetwork/mixin/crypto"
	"github.com/MixinNetwork/mixin/storage"
	"github.com/dgraph-io/ristretto/v2"
)

type vsyStep struct {
	Op     string  `json:"op"`
	C      int     `json:"c"`
	N      uint64  `json:"n"`
	T      int64   `json:"t"`
	New    bool    `json:"new"`
	E      int     `json:"e"`
	M      uint64  `json:"m"`
	G      []int64 `json:"g"`
	Fails  []int   `json:"fails"`
	Fail   int     `json:"fail"`
	I      int     `json:"i"`
	Rfin   []int64 `json:"rfin"`
	Rcache []int   `json:"rcache"`
	Max    int     `json:"max"`
}

type vsyWalk struct {
	Id    string    `json:"id"`
	NC    int       `json:"nc"`
	Late  []int     `json:"late"`
	Steps []vsyStep `json:"steps"`
}

type vsyCases struct {
	Walks   []vsyWalk `json:"walks"`
	Workers int       `json:"workers"`
}

type vsySnap struct {
	c    int
	n    uint64
	t    int64
	hash crypto.Hash
	txs  []crypto.Hash
}

type vsyTxCall struct {
	ring   int
	txs    []crypto.Hash
	failed bool
}

type vsyRead struct {
	kind  string // "since" | "round"
	off   uint64
	count uint64
	c     int
	n     uint64
	rt    []int // positions as returned
	rw    []int // positions under which the harness stored the snapshot with that hash (-1 unknown)
	err   bool
}

type vsyHandle struct {
	w     *vsyWorld
	cache *ristretto.Cache[[]byte, any]
	key   crypto.Key
	fail  map[crypto.Hash]bool // snapshot hashes whose transaction send fails
	calls []vsyTxCall
	reads []vsyRead
}

type vsyWorld struct {
	id     string
	store  *storage.BadgerStore
	ids    []crypto.Hash
	cidx   map[crypto.Hash]int
	me, p  *Peer
	h      *vsyHandle
	snaps  []*vsySnap
	byHash map[crypto.Hash]int
	refs   map[int]*common.RoundLink
	head   map[int]int64
	asset  crypto.Hash
	ntx    int
	// glue of getSyncPointOffset / syncToNeighborLoop
	pc     string // "poll" | "head" | "since": where the loop of syncToNeighborLoop stands
	hc     int
	graph  map[crypto.Hash]*SyncPoint
	have   bool
	offset uint64
	local  map[crypto.Hash]*SyncPoint
	out    []vM
}

func vsyHash(parts ...any) crypto.Hash { return crypto.Blake3Hash([]byte(fmt.Sprint(parts...))) }

func (h *vsyHandle) GetCacheStore() *ristretto.Cache[[]byte, any] { return h.cache }
func (h *vsyHandle) SignData(data []byte) crypto.Signature {
	return h.key.Sign(crypto.Blake3Hash(data))
}
func (h *vsyHandle) BuildAuthenticationMessage(crypto.Hash) []byte { return nil }
func (h *vsyHandle) AuthenticateAs(crypto.Hash, []byte, int64) (*AuthToken, error) {
	return nil, fmt.Errorf("unused")
}

// kernel/node.go BuildGraph: one point per chain with a state, Number = final round = head round - 1
func (h *vsyHandle) BuildGraph() []*SyncPoint {
	var points []*SyncPoint
	for _, id := range h.w.ids {
		r, err := h.w.store.ReadRound(id)
		if err != nil || r == nil || r.Number == 0 {
			continue
		}
		sp := &SyncPoint{NodeId: id, Number: r.Number - 1}
		if r.References != nil {
			sp.Hash = r.References.Self
		}
		points = append(points, sp)
	}
	return points
}
func (h *vsyHandle) UpdateSyncPoint(crypto.Hash, []*SyncPoint, []byte, *crypto.Signature) error {
	return nil
}
func (h *vsyHandle) ReadAllNodesWithoutState() []crypto.Hash {
	return append([]crypto.Hash{}, h.w.ids...)
}

func (h *vsyHandle) note(kind string, ss []*common.SnapshotWithTopologicalOrder, err error) *vsyRead {
	r := vsyRead{kind: kind, err: err != nil, rt: []int{}, rw: []int{}}
	for _, s := range ss {
		r.rt = append(r.rt, int(s.TopologicalOrder))
		w := -1
		if i, ok := h.w.byHash[s.PayloadHash()]; ok {
			w = i
		}
		r.rw = append(r.rw, w)
	}
	h.reads = append(h.reads, r)
	return &h.reads[len(h.reads)-1]
}

func (h *vsyHandle) ReadSnapshotsSinceTopology(offset, count uint64) ([]*common.SnapshotWithTopologicalOrder, error) {
	ss, err := h.w.store.ReadSnapshotsSinceTopology(offset, count)
	r := h.note("since", ss, err)
	r.off, r.count = offset, count
	return ss, err
}

func (h *vsyHandle) ReadSnapshotsForNodeRound(id crypto.Hash, round uint64) ([]*common.SnapshotWithTopologicalOrder, error) {
	ss, err := h.w.store.ReadSnapshotsForNodeRound(id, round)
	r := h.note("round", ss, err)
	r.c, r.n = h.w.cidx[id], round
	return ss, err
}
func (h *vsyHandle) SendTransactionToPeer(peerId, tx crypto.Hash) error { return nil }

// kernel/node.go SendTransactionsToPeer: the stored transactions as one finalized bundle
func (h *vsyHandle) SendTransactionsToPeer(peerId crypto.Hash, hashes []crypto.Hash, finalized bool) error {
	call := vsyTxCall{ring: len(h.w.p.normalRing), txs: append([]crypto.Hash{}, hashes...)}
	for sh := range h.fail {
		i := h.w.byHash[sh]
		if len(hashes) == len(h.w.snaps[i].txs) && len(hashes) > 0 && hashes[0] == h.w.snaps[i].txs[0] {
			call.failed = true
		}
	}
	h.calls = append(h.calls, call)
	if call.failed {
		return fmt.Errorf("verif: injected transaction send failure")
	}
	if !finalized {
		return nil
	}
	txs := make([]*common.VersionedTransaction, 0, len(hashes))
	for _, th := range hashes {
		tx, _, err := h.w.store.ReadTransaction(th)
		if err != nil {
			return err
		}
		if tx != nil {
			txs = append(txs, tx)
		}
	}
	return h.w.me.SendTransactionsMessage(peerId, txs, true)
}
func (h *vsyHandle) CacheQueueTransactions(crypto.Hash, []*common.VersionedTransaction) error {
	return nil
}
func (h *vsyHandle) CacheStoreTransactions(crypto.Hash, []*common.VersionedTransaction) error {
	return nil
}
func (h *vsyHandle) CosiQueueExternalAnnouncement(crypto.Hash, *common.Snapshot, *crypto.Key, *crypto.Signature) error {
	return nil
}
func (h *vsyHandle) CosiAggregateSelfCommitments(crypto.Hash, crypto.Hash, *crypto.Key, []crypto.Hash, []byte, *crypto.Signature) error {
	return nil
}
func (h *vsyHandle) CosiQueueExternalChallenge(crypto.Hash, crypto.Hash, *crypto.CosiSignature, []*common.VersionedTransaction) error {
	return nil
}
func (h *vsyHandle) CosiQueueExternalFullChallenge(crypto.Hash, *common.Snapshot, *crypto.Key, *crypto.Key, *crypto.CosiSignature, []*common.VersionedTransaction) error {
	return nil
}
func (h *vsyHandle) CosiAggregateSelfResponses(crypto.Hash, crypto.Hash, *[32]byte) error { return nil }
func (h *vsyHandle) VerifyAndQueueAppendSnapshotFinalization(crypto.Hash, *common.Snapshot) error {
	return nil
}
func (h *vsyHandle) CosiQueueExternalPreCommitments(crypto.Hash, []*crypto.Key, []byte, *crypto.Signature) error {
	return nil
}

func vsyMust(err error) {
	if err != nil {
		panic(fmt.Errorf("sync world: %v", err))
	}
}

func vsyNewWorld(dir string, wk *vsyWalk) *vsyWorld {
	store, err := storage.NewBadgerStore(nil, dir)
	vsyMust(err)
	cache, err := ristretto.NewCache(&ristretto.Config[[]byte, any]{NumCounters: 1e4, MaxCost: 1 << 20, BufferItems: 64})
	vsyMust(err)
	w := &vsyWorld{id: wk.Id, store: store, cidx: map[crypto.Hash]int{}, byHash: map[crypto.Hash]int{},
		refs: map[int]*common.RoundLink{}, head: map[int]int64{}, asset: vsyHash("vsy-asset", wk.Id)}
	for c := 1; c <= wk.NC; c++ {
		id := vsyHash("vsy-node", wk.Id, c)
		w.ids = append(w.ids, id)
		w.cidx[id] = c
		w.head[c] = -1
	}
	seed := vsyHash("vsy-key", wk.Id)
	w.h = &vsyHandle{w: w, cache: cache, key: crypto.NewKeyFromSeed(append(seed[:], seed[:]...)), fail: map[crypto.Hash]bool{}}
	w.me = NewPeer(w.h, vsyHash("vsy-me", wk.Id), "127.0.0.1:7001", false)
	w.p = NewPeer(nil, vsyHash("vsy-remote", wk.Id), "127.0.0.1:7002", false)
	if !w.me.consumers.Put(w.p.IdForNetwork, w.p) {
		panic("neighbour not registered")
	}
	late := map[int]bool{}
	for _, c := range wk.Late {
		late[c] = true
	}
	var gen []int
	for c := 1; c <= wk.NC; c++ {
		if !late[c] {
			gen = append(gen, c)
		}
	}
	// genesis: round 0 with one snapshot per chain, then head round 1 (kernel genesis load). The first
	// chains reference the next chain's head record (its round 0 is not closed yet), the last one the
	// closed round 0 of the first: every link starts at 0.
	for _, c := range gen {
		vsyMust(store.StartNewRound(w.ids[c-1], 0, nil, 0))
		w.head[c] = 0
		w.write(c, 0, 0)
	}
	for k, c := range gen {
		var ext crypto.Hash
		if k+1 < len(gen) {
			ext = w.ids[gen[k+1]-1]
		} else {
			ext = w.final(gen[0], 0)
		}
		w.start(c, 1, ext)
	}
	return w
}

func (w *vsyWorld) final(c int, n uint64) crypto.Hash { return vsyHash("vsy-final", w.id, c, n) }

func (w *vsyWorld) start(c int, n uint64, ext crypto.Hash) {
	link := &common.RoundLink{Self: w.final(c, n-1), External: ext}
	vsyMust(w.store.StartNewRound(w.ids[c-1], n, link, vsyTime(n-1, 0)))
	w.refs[c] = link
	w.head[c] = int64(n)
}

const vsyBase = uint64(1700000000) * 1000000000

func vsyTime(n uint64, t int64) uint64 {
	return vsyBase + n*3600*1000000000 + uint64((t+500000)*1000)
}

// one stored snapshot of (c, n) with timestamp rank t at the next position, holding one fresh deposit
func (w *vsyWorld) write(c int, n uint64, t int64) int {
	w.ntx++
	tx := common.NewTransactionV5(w.asset)
	dd := &common.DepositData{Chain: common.EthereumAssetId, AssetKey: "0xa" + w.id, Transaction: fmt.Sprintf("vsy-%s-%d", w.id, w.ntx), Index: 0, Amount: common.NewInteger(1)}
	tx.AddDepositInput(dd)
	seed := vsyHash("vsy-out", w.id, w.ntx)
	k := crypto.NewKeyFromSeed(append(seed[:], seed[:]...)).Public()
	seed2 := vsyHash("vsy-mask", w.id, w.ntx)
	m := crypto.NewKeyFromSeed(append(seed2[:], seed2[:]...)).Public()
	tx.Outputs = append(tx.Outputs, &common.Output{Type: common.OutputTypeScript, Amount: common.NewInteger(1),
		Keys: []*crypto.Key{&k}, Mask: m, Script: common.NewThresholdScript(1)})
	ver := tx.AsVersioned()
	vsyMust(w.store.LockDepositInput(dd, ver.PayloadHash(), false))
	vsyMust(w.store.WriteTransaction(ver))
	s := &common.Snapshot{Version: common.SnapshotVersionCommonEncoding, NodeId: w.ids[c-1], RoundNumber: n,
		Timestamp: vsyTime(n, t), Transactions: []crypto.Hash{ver.PayloadHash()}}
	if n > 0 {
		s.References = w.refs[c]
	}
	s.Hash = s.PayloadHash()
	pos := len(w.snaps)
	vsyMust(w.store.WriteSnapshot(&common.SnapshotWithTopologicalOrder{Snapshot: s, TopologicalOrder: uint64(pos)}, []crypto.Hash{w.ids[c-1]}))
	w.snaps = append(w.snaps, &vsySnap{c: c, n: n, t: t, hash: s.Hash, txs: s.Transactions})
	w.byHash[s.Hash] = pos
	return pos
}

func (w *vsyWorld) emit(m vM) { w.out = append(w.out, m) }

func (w *vsyWorld) points(ps []*SyncPoint) []int64 {
	a := make([]int64, len(w.ids))
	for i := range a {
		a[i] = -1
	}
	for _, sp := range ps {
		if c, ok := w.cidx[sp.NodeId]; ok {
			a[c-1] = int64(sp.Number)
		}
	}
	return a
}

func (w *vsyWorld) pointsOfMap(m map[crypto.Hash]*SyncPoint) []int64 {
	var ps []*SyncPoint
	for _, sp := range m {
		ps = append(ps, sp)
	}
	return w.points(ps)
}

func (w *vsyWorld) toPoints(g []int64) []*SyncPoint {
	var ps []*SyncPoint
	for i, n := range g {
		if n >= 0 {
			ps = append(ps, &SyncPoint{NodeId: w.ids[i], Number: uint64(n)})
		}
	}
	return ps
}

// the store reads a call made: every cursor listing, every non-empty round listing (rt = positions as
// returned, rw = positions under which the harness stored the snapshots with those hashes), nr = number
// of round listings
func vsyReads(rs []vsyRead) ([]vM, int) {
	out := []vM{}
	nr := 0
	for _, r := range rs {
		if r.kind == "round" {
			nr++
			if len(r.rt) == 0 && !r.err {
				continue
			}
			out = append(out, vM{"k": r.kind, "c": r.c, "n": r.n, "rt": r.rt, "rw": r.rw, "err": r.err})
		} else {
			out = append(out, vM{"k": r.kind, "off": r.off, "count": r.count, "rt": r.rt, "rw": r.rw, "err": r.err})
		}
	}
	return out, nr
}

// what the call put on the neighbour's rings: finalization messages in order, each with the position
// under which the snapshot is stored (-1: not a stored snapshot), its chain and round as carried by the
// message, and whether its transactions went first (handle call right before it + bundle on the high ring)
func (w *vsyWorld) drain() []vM {
	bundles := map[crypto.Hash]bool{}
	for {
		var m *ChanMsg
		select {
		case m = <-w.p.highRing:
		default:
		}
		if m == nil {
			break
		}
		if len(m.data) > 0 && m.data[0] == PeerMessageTypeFinalizedTransactionBundle {
			if txs, err := parseTransactionsPayload(m.data[1:]); err == nil {
				for _, tx := range txs {
					bundles[tx.PayloadHash()] = true
				}
			}
		}
	}
	sent := []vM{}
	for i := 0; ; i++ {
		var m *ChanMsg
		select {
		case m = <-w.p.normalRing:
		default:
		}
		if m == nil {
			break
		}
		e := vM{"p": -1, "c": 0, "n": 0, "tx": false, "kind": int(m.data[0])}
		if m.data[0] == PeerMessageTypeBatchSnapshotFinalization {
			if s, err := common.UnmarshalVersionedSnapshot(m.data[1:]); err == nil {
				e["c"], e["n"] = w.cidx[s.NodeId], s.RoundNumber
				if pos, ok := w.byHash[s.PayloadHash()]; ok {
					e["p"] = pos
				}
				first := false
				for _, call := range w.h.calls {
					if call.ring == i && !call.failed && len(call.txs) == len(s.Transactions) {
						same := true
						for k := range call.txs {
							same = same && call.txs[k] == s.Transactions[k] && bundles[call.txs[k]]
						}
						first = first || same
					}
				}
				e["tx"] = first
			}
		}
		sent = append(sent, e)
	}
	w.h.calls = nil
	return sent
}

func vsyClass(err error) string {
	switch {
	case err == nil:
		return "OK"
	case err.Error() == "EOF":
		return "EOF"
	case strings.HasPrefix(err.Error(), "FUTURE"):
		return "FUTURE"
	}
	return "ERR"
}

func (w *vsyWorld) setFails(idx []int) {
	w.h.fail = map[crypto.Hash]bool{}
	for _, i := range idx {
		if i >= 1 && i <= len(w.snaps) {
			w.h.fail[w.snaps[i-1].hash] = true
		}
	}
}

func (w *vsyWorld) backToPoll() {
	w.pc, w.hc = "poll", 0
	w.graph, w.have, w.offset = nil, false, 0
}

// syncToNeighborLoop after getSyncPointOffset returned a graph
func (w *vsyWorld) endPoll() {
	points := w.h.BuildGraph()
	w.local = make(map[crypto.Hash]*SyncPoint)
	for _, n := range points {
		w.local[n.NodeId] = n
	}
	w.pc, w.hc = "head", 1
	w.emit(vM{"ev": "EndPoll", "hl": w.points(points), "nodes": len(w.h.ReadAllNodesWithoutState())})
}

func (w *vsyWorld) afterHead(c int) {
	switch {
	case c < len(w.ids):
		w.hc = c + 1
	case w.offset > 0:
		w.pc, w.hc = "since", 0
	default:
		w.backToPoll()
	}
}

func (w *vsyWorld) doHead(c int, fails []int) {
	w.setFails(fails)
	w.h.reads = nil
	res, _ := vCall(func() error {
		w.me.syncHeadRoundToRemote(w.local, w.graph, w.p, w.ids[c-1])
		return nil
	})
	reads, nr := vsyReads(w.h.reads)
	w.emit(vM{"ev": "Head", "c": c, "fails": append([]int{}, fails...), "g": w.pointsOfMap(w.graph), "hl": w.pointsOfMap(w.local),
		"res": res, "sent": w.drain(), "reads": reads, "nr": nr})
	w.setFails(nil)
}

func (w *vsyWorld) doSince(fail int) string {
	if fail > 0 {
		w.setFails([]int{fail})
	}
	w.h.reads = nil
	var off uint64
	var err error
	in := w.offset
	res, _ := vCall(func() error {
		off, err = w.me.syncToNeighborSince(w.graph, w.p, in)
		return nil
	})
	cls := vsyClass(err)
	reads, _ := vsyReads(w.h.reads)
	w.emit(vM{"ev": "Since", "in": in, "fail": fail, "g": w.pointsOfMap(w.graph), "res": res, "off": off, "cls": cls,
		"sent": w.drain(), "reads": reads})
	w.setFails(nil)
	if res != "ok" || err != nil {
		w.backToPoll()
	} else {
		w.offset = off
	}
	return cls
}

func (w *vsyWorld) step(st vsyStep) {
	switch st.Op {
	case "Grow":
		c := st.C
		if w.head[c] < 0 {
			vsyMust(w.store.StartNewRound(w.ids[c-1], 0, nil, 0))
			w.head[c] = 0
			pos := w.write(c, 0, 0)
			w.start(c, 1, w.final(st.E, st.M))
			w.emit(vM{"ev": "Grow", "c": c, "n": 0, "t": 0, "new": true, "e": st.E, "m": st.M, "p": pos, "lp": w.points(w.h.BuildGraph())})
			return
		}
		if st.New {
			w.start(c, st.N, w.final(st.E, st.M))
		}
		pos := w.write(c, st.N, st.T)
		w.emit(vM{"ev": "Grow", "c": c, "n": st.N, "t": st.T, "new": st.New, "e": st.E, "m": st.M, "p": pos, "lp": w.points(w.h.BuildGraph())})
	case "Publish":
		// p2p/peer_message.go handlePeerMessage, PeerMessageTypeGraph: the points go into the peer's ring
		w.p.syncRing <- w.toPoints(st.G)
		w.emit(vM{"ev": "Publish", "g": st.G})
	case "Poll":
		// getSyncPointOffset, one iteration that finds a graph in the ring
		// (the generated behaviours use scaled constants: a step the real loop is not at is left out)
		if w.pc != "poll" {
			return
		}
		var g []*SyncPoint
		select {
		case g = <-w.p.syncRing:
		default:
			return
		}
		graph := make(map[crypto.Hash]*SyncPoint)
		for _, r := range g {
			graph[r.NodeId] = r
		}
		w.h.reads = nil
		local := w.h.BuildGraph()
		var off uint64
		var err error
		res, _ := vCall(func() error {
			off, err = w.me.compareRoundGraphAndGetTopologicalOffset(w.p, local, g)
			return nil
		})
		w.graph, w.have = graph, true
		if off > 0 {
			w.offset = off
		}
		reads, nr := vsyReads(w.h.reads)
		w.emit(vM{"ev": "Poll", "empty": false, "g": w.points(g), "lp": w.points(local), "off": off, "err": err != nil, "res": res,
			"offset": w.offset, "reads": reads, "nr": nr})
	case "PollLoop":
		// the REAL getSyncPointOffset: it reads what the ring holds, sleeps, and returns with the first
		// graph it reads after one second - a late copy of the neighbour's current graph (st.G)
		if w.pc != "poll" || w.have || len(w.p.syncRing) == 0 {
			return
		}
		before := len(w.p.syncRing)
		late := w.toPoints(st.G)
		go func() {
			time.Sleep(1200 * time.Millisecond)
			w.p.syncRing <- late
		}()
		w.h.reads = nil
		var graph map[crypto.Hash]*SyncPoint
		var off uint64
		res, _ := vCall(func() error {
			graph, off = w.me.getSyncPointOffset(w.p)
			return nil
		})
		time.Sleep(10 * time.Millisecond)
		w.emit(vM{"ev": "Publish", "g": st.G})
		consumed := before + 1 - len(w.p.syncRing)
		w.graph, w.have, w.offset = graph, graph != nil, off
		reads, nr := vsyReads(w.h.reads)
		w.emit(vM{"ev": "PollLoop", "consumed": consumed, "graph": w.pointsOfMap(graph), "isnil": graph == nil, "offset": off, "res": res,
			"reads": reads, "nr": nr})
	case "EndPoll":
		if w.pc != "poll" || !w.have {
			return
		}
		w.endPoll()
	case "Head":
		if w.pc != "head" || w.hc != st.C {
			return
		}
		w.doHead(st.C, st.Fails)
		w.afterHead(st.C)
	case "Since":
		if w.pc != "since" {
			return
		}
		w.doSince(st.Fail)
	case "Pass":
		// a whole pass of syncToNeighborLoop: head push for every node, then the stream until an error class
		if w.pc != "poll" || !w.have {
			return
		}
		w.endPoll()
		for c := 1; c <= len(w.ids); c++ {
			w.doHead(c, st.Fails)
			w.afterHead(c)
		}
		if w.pc != "since" {
			return
		}
		for k := 0; k < st.Max; k++ {
			fail := 0
			if k == 0 {
				fail = st.Fail
			}
			if w.doSince(fail) != "OK" {
				return
			}
		}
		w.emit(vM{"ev": "Stop"})
		w.backToPoll()
	case "RemoteSet":
		w.emit(vM{"ev": "RemoteSet", "rfin": st.Rfin, "rcache": append([]int{}, st.Rcache...)})
	case "Elsewhere", "Admit":
		w.emit(vM{"ev": st.Op, "i": st.I})
	case "Ahead", "Close":
		w.emit(vM{"ev": st.Op, "c": st.C})
	case "Settle", "Freeze", "Start":
		w.emit(vM{"ev": st.Op})
	default:
		panic("unknown step " + st.Op)
	}
}

func vsyRun(dir string, wk *vsyWalk) (out []vM) {
	w := vsyNewWorld(dir, wk)
	defer w.store.Close()
	w.pc = "poll"
	gen := []vM{}
	for i, s := range w.snaps {
		gen = append(gen, vM{"c": s.c, "n": s.n, "t": s.t, "p": i})
	}
	w.emit(vM{"ev": "Reset", "walk": wk.Id, "nc": wk.NC, "gen": gen, "lp": w.points(w.h.BuildGraph()),
		"threshold": config.SnapshotReferenceThreshold})
	defer func() {
		if r := recover(); r != nil {
			w.emit(vM{"ev": "Abort", "detail": fmt.Sprint(r)})
			out = w.out
		}
	}()
	for _, st := range wk.Steps {
		w.step(st)
	}
	return w.out
}

func TestVerifSync(t *testing.T) {
	tr := vOpenTrace(t)
	defer tr.Close()
	var cases vsyCases
	vLoadCases(t, &cases)
	shard, shards := vEnvInt("VERIF_SHARD", 0), vEnvInt("VERIF_SHARDS", 1)
	var mine []int
	for i := range cases.Walks {
		if i%shards == shard {
			mine = append(mine, i)
		}
	}
	workers := cases.Workers
	if workers <= 0 {
		workers = 32
	}
	root, err := os.MkdirTemp("", "vsy-")
	if err != nil {
		t.Fatal(err)
	}
	defer os.RemoveAll(root)
	outs := make([][]vM, len(mine))
	var wg sync.WaitGroup
	next := make(chan int, len(mine))
	for k := range mine {
		next <- k
	}
	close(next)
	for g := 0; g < workers; g++ {
		wg.Add(1)
		go func() {
			defer wg.Done()
			for k := range next {
				dir := fmt.Sprintf("%s/w%d", root, k)
				if err := os.MkdirAll(dir, 0o755); err != nil {
					panic(err)
				}
				outs[k] = vsyRun(dir, &cases.Walks[mine[k]])
				os.RemoveAll(dir)
			}
		}()
	}
	wg.Wait()
	order := make([]int, len(mine))
	for k := range order {
		order[k] = k
	}
	sort.Ints(order)
	for _, k := range order {
		for _, e := range outs[k] {
			tr.Emit(e)
		}
	}
}
