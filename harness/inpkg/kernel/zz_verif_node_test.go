package kernel

// Real-node world shared by the node-pipeline harnesses (spec/Node; properties C16 C21 C22):
// a generated N-node genesis with known keys, a real BadgerStore behind a call-counting proxy, a
// real kernel.Node built by SetupNode, snapshots CoSi-signed with the genesis keys and applied
// through the real cosiHandleFinalization.

import (
	"encoding/json"
	"fmt"
	"os"
	"sort"
	"sync"
	"testing"
	"time"

	"github.com/MixinNetwork/mixin/common"
	"github.com/MixinNetwork/mixin/config"
	"github.com/MixinNetwork/mixin/crypto"
	"github.com/MixinNetwork/mixin/kernel/internal"
	"github.com/MixinNetwork/mixin/logger"
	"github.com/MixinNetwork/mixin/storage"
	"github.com/dgraph-io/ristretto/v2"
)

const vnEpoch = 1551312000

type vnWorld struct {
	t         testing.TB
	dir       string
	gns       *common.Genesis
	custom    *config.Custom
	signers   []common.Address
	payees    []common.Address
	custodian common.Address
	privs     map[crypto.Hash]*crypto.Key
	ids       []crypto.Hash
	netId     crypto.Hash

	store *storage.BadgerStore
	proxy *vnProxy
	node  *Node
	cache *ristretto.Cache[[]byte, any]

	user common.Address
	seq  int
}

func vnAddr(tag string, i int) common.Address {
	h := crypto.Blake3Hash([]byte(fmt.Sprintf("verif-%s-%d", tag, i)))
	h2 := crypto.Blake3Hash(h[:])
	a := common.NewAddressFromSeed(append(h[:], h2[:]...))
	a.PrivateViewKey = a.PublicSpendKey.DeterministicHashDerive()
	a.PublicViewKey = a.PrivateViewKey.Public()
	return a
}

func vnNewWorld(t testing.TB, dir string, n int, tag string) *vnWorld {
	internal.ToggleMockRunAggregators(true)
	w := &vnWorld{t: t, dir: dir, privs: map[crypto.Hash]*crypto.Key{}}
	inputs := make([]map[string]string, 0)
	for i := 0; i < n; i++ {
		w.signers = append(w.signers, vnAddr(tag+"SIGNER", i))
		w.payees = append(w.payees, vnAddr(tag+"PAYEE", i))
		c := vnAddr(tag+"CUSTODIAN", i)
		inputs = append(inputs, map[string]string{
			"signer": w.signers[i].String(), "payee": w.payees[i].String(),
			"custodian": c.String(), "balance": "13439",
		})
	}
	w.custodian = w.signers[0]
	w.user = vnAddr(tag+"USER", 0)
	genesis := map[string]any{"epoch": vnEpoch, "nodes": inputs, "custodian": w.custodian.String()}
	data, err := json.MarshalIndent(genesis, "", "  ")
	if err != nil {
		t.Fatal(err)
	}
	var gns common.Genesis
	if err := json.Unmarshal(data, &gns); err != nil {
		t.Fatal(err)
	}
	w.gns = &gns
	w.netId = gns.NetworkId()
	for i := range w.signers {
		id := w.signers[i].Hash().ForNetwork(w.netId)
		w.ids = append(w.ids, id)
		k := w.signers[i].PrivateSpendKey
		w.privs[id] = &k
	}
	conf := fmt.Sprintf(`[node]
signer-key = "%s"
consensus-only = true
memory-cache-size = 16
cache-ttl = 7200
ring-cache-size = 4096
ring-final-size = 16384
[network]
listener = "127.0.0.1:7239"
`, w.signers[0].PrivateSpendKey.String())
	if err := os.WriteFile(dir+"/config.toml", []byte(conf), 0644); err != nil {
		t.Fatal(err)
	}
	custom, err := config.Initialize(dir + "/config.toml")
	if err != nil {
		t.Fatal(err)
	}
	w.custom = custom
	return w
}

// open (or re-open after a stop) the store and build the node with the real SetupNode.
// Returns "ok", "err" or "panic" plus detail: a node that cannot start is an observation.
func (w *vnWorld) open() (res string, detail string) {
	cache, err := ristretto.NewCache(&ristretto.Config[[]byte, any]{NumCounters: 1e5, MaxCost: 1 << 26, BufferItems: 64})
	if err != nil {
		w.t.Fatal(err)
	}
	w.cache = cache
	store, err := storage.NewBadgerStore(w.custom, w.dir)
	if err != nil {
		w.t.Fatalf("open store: %v", err)
	}
	w.store = store
	w.proxy = &vnProxy{BadgerStore: store, cut: -1}
	return vCall(func() error {
		node, err := SetupNode(w.custom, w.proxy, cache, w.gns)
		if err != nil {
			return err
		}
		w.node = node
		return nil
	})
}

func (w *vnWorld) close() {
	if w.node != nil {
		close(w.node.done) // stops the TopoStats ticker goroutine
		w.node = nil
	}
	if w.store != nil {
		w.store.Close()
		w.store = nil
	}
	if w.cache != nil {
		w.cache.Close()
		w.cache = nil
	}
}

func (w *vnWorld) chain(i int) *Chain { return w.node.getOrCreateChain(w.ids[i]) }

// --------------------------------------------------------------------------------------------
// transactions

func (w *vnWorld) depositTx(asset crypto.Hash, chainId crypto.Hash, assetKey, txid string, index uint64, amount common.Integer) *common.VersionedTransaction {
	tx := common.NewTransactionV5(asset)
	tx.AddDepositInput(&common.DepositData{Chain: chainId, AssetKey: assetKey, Transaction: txid, Index: index, Amount: amount})
	w.seq++
	s := crypto.Blake3Hash([]byte(fmt.Sprintf("seed-%s-%d", txid, w.seq)))
	tx.AddScriptOutput([]*common.Address{&w.user}, common.NewThresholdScript(1), amount, append(s[:], s[:]...))
	ver := tx.AsVersioned()
	if err := ver.SignRaw(w.custodian.PrivateSpendKey); err != nil {
		w.t.Fatal(err)
	}
	return ver
}

type vnUTXOReader struct{ w *vnWorld }

func (r vnUTXOReader) ReadUTXOKeys(hash crypto.Hash, index uint) (*common.UTXOKeys, error) {
	return r.w.store.ReadUTXOKeys(hash, index)
}

// spend the given outputs (all owned by w.user) into script outputs of the given amounts
func (w *vnWorld) transferTx(asset crypto.Hash, ins []*common.Input, amounts []common.Integer, extra string) *common.VersionedTransaction {
	tx := common.NewTransactionV5(asset)
	for _, in := range ins {
		tx.AddInput(in.Hash, in.Index)
	}
	for i, a := range amounts {
		w.seq++
		s := crypto.Blake3Hash([]byte(fmt.Sprintf("tseed-%s-%d-%d", extra, w.seq, i)))
		tx.AddScriptOutput([]*common.Address{&w.user}, common.NewThresholdScript(1), a, append(s[:], s[:]...))
	}
	tx.Extra = []byte(extra)
	return w.signUser(tx)
}

func (w *vnWorld) signUser(tx *common.Transaction) *common.VersionedTransaction {
	ver := tx.AsVersioned()
	for i := range tx.Inputs {
		if err := ver.SignInput(vnUTXOReader{w}, i, []*common.Address{&w.user}); err != nil {
			w.t.Fatalf("sign input: %v", err)
		}
	}
	return ver
}

func (w *vnWorld) xinDepositTx(txid string, amount common.Integer) *common.VersionedTransaction {
	return w.depositTx(common.XINAssetId, common.XINAsset.Chain, common.XINAsset.AssetKey, txid, 0, amount)
}

// pledge of a new node (signer/payee derived from tag) spending a 13439 XIN output of w.user
func (w *vnWorld) pledgeTx(in *common.Input, tag string) (*common.VersionedTransaction, common.Address) {
	signer, payee := vnAddr(tag+"NEWSIGNER", 0), vnAddr(tag+"NEWPAYEE", 0)
	tx := common.NewTransactionV5(common.XINAssetId)
	tx.AddInput(in.Hash, in.Index)
	tx.AddOutputWithType(common.OutputTypeNodePledge, nil, common.Script{}, common.KernelNodePledgeAmount, []byte{})
	tx.Extra = append(signer.PublicSpendKey[:], payee.PublicSpendKey[:]...)
	last, _ := w.node.ReadLastConsensusSnapshotWithHack()
	tx.References = last.Transactions
	id := signer.Hash().ForNetwork(w.netId)
	k := signer.PrivateSpendKey
	w.privs[id] = &k
	return w.signUser(tx), signer
}

// the accept transaction exactly as the pledging node itself builds it
func (w *vnWorld) acceptTx(signer common.Address, ts uint64) (*common.VersionedTransaction, *Chain, error) {
	id := signer.Hash().ForNetwork(w.netId)
	chain := w.node.getOrCreateChain(id)
	if chain == nil {
		return nil, nil, fmt.Errorf("no chain for pledging node")
	}
	ver, err := chain.buildNodeAcceptTransaction(ts, true)
	if err != nil {
		return nil, chain, err
	}
	sig := signer.PrivateSpendKey.Sign(ver.PayloadHash())
	ver.SignaturesMap = []map[uint16]*crypto.Signature{{0: &sig}}
	return ver, chain, nil
}

// round-0 snapshot of a pledging chain
func (w *vnWorld) snapshotRound0(chain *Chain, tx *common.VersionedTransaction, ts uint64) *common.Snapshot {
	s := &common.Snapshot{Version: common.SnapshotVersionCommonEncoding, NodeId: chain.ChainId, RoundNumber: 0, Timestamp: ts}
	s.AddTransaction(tx.PayloadHash())
	w.sign(chain, s)
	return s
}

func (w *vnWorld) chainIndexOf(id crypto.Hash) int {
	for i, x := range w.ids {
		if x == id {
			return i
		}
	}
	return -1
}

// --------------------------------------------------------------------------------------------
// snapshots

// CoSi-sign s with the first threshold keys of the chain's consensus key set.
func (w *vnWorld) sign(chain *Chain, s *common.Snapshot) {
	s.Hash = s.PayloadHash()
	ids, publics := chain.ConsensusKeys(s.RoundNumber, s.Timestamp)
	threshold := chain.node.ConsensusThreshold(s.Timestamp, true)
	if threshold > len(ids) {
		w.t.Fatalf("threshold %d > keys %d", threshold, len(ids))
	}
	type pair struct {
		i int
		k *crypto.Key
	}
	var who []pair
	for i, id := range ids {
		if k := w.privs[id]; k != nil && len(who) < threshold {
			who = append(who, pair{i, k})
		}
	}
	if len(who) < threshold {
		w.t.Fatalf("not enough known keys %d/%d", len(who), threshold)
	}
	nonces := map[int]*crypto.CosiNonce{}
	commitments := map[int]*crypto.Key{}
	for _, p := range who {
		nonce := crypto.CosiCommitNonce(crypto.RandReader())
		c := nonce.Public()
		nonces[p.i], commitments[p.i] = nonce, &c
	}
	sig, err := crypto.CosiAggregateCommitment(commitments)
	if err != nil {
		w.t.Fatal(err)
	}
	responses := map[int]*[32]byte{}
	for _, p := range who {
		r, err := nonces[p.i].Response(sig, p.k, publics, s.Hash)
		if err != nil {
			w.t.Fatal(err)
		}
		responses[p.i] = r
	}
	if err := sig.AggregateResponse(publics, responses, s.Hash, true); err != nil {
		w.t.Fatal(err)
	}
	s.Signature = sig
}

// a snapshot for the chain's current round holding txs at timestamp ts
func (w *vnWorld) snapshot(ci int, txs []*common.VersionedTransaction, ts uint64) *common.Snapshot {
	chain := w.chain(ci)
	cache := chain.State.CacheRound
	s := &common.Snapshot{Version: common.SnapshotVersionCommonEncoding, NodeId: chain.ChainId,
		RoundNumber: cache.Number, References: cache.References.Copy(), Timestamp: ts}
	hs := make([]crypto.Hash, 0, len(txs))
	for _, tx := range txs {
		hs = append(hs, tx.PayloadHash())
	}
	sort.Slice(hs, func(i, j int) bool { return string(hs[i][:]) < string(hs[j][:]) })
	for _, h := range hs {
		s.AddTransaction(h)
	}
	w.sign(chain, s)
	return s
}

// a snapshot opening the next round of chain ci, referencing the final round of chain ei
func (w *vnWorld) snapshotNextRound(ci, ei int, txs []*common.VersionedTransaction, ts uint64) *common.Snapshot {
	chain := w.chain(ci)
	cache := chain.State.CacheRound
	final := cache.asFinal()
	ext := w.chain(ei).State.FinalRound
	s := &common.Snapshot{Version: common.SnapshotVersionCommonEncoding, NodeId: chain.ChainId,
		RoundNumber: cache.Number + 1, References: &common.RoundLink{Self: final.Hash, External: ext.Hash}, Timestamp: ts}
	hs := make([]crypto.Hash, 0, len(txs))
	for _, tx := range txs {
		hs = append(hs, tx.PayloadHash())
	}
	sort.Slice(hs, func(i, j int) bool { return string(hs[i][:]) < string(hs[j][:]) })
	for _, h := range hs {
		s.AddTransaction(h)
	}
	w.sign(chain, s)
	return s
}

// current round when it is empty or ts falls within its gap, otherwise the next round
func (w *vnWorld) snapshotAuto(ci int, txs []*common.VersionedTransaction, ts uint64) *common.Snapshot {
	cache := w.chain(ci).State.CacheRound
	if len(cache.Snapshots) == 0 {
		return w.snapshot(ci, txs, ts)
	}
	start, _ := cache.Gap()
	if ts > start && ts < start+config.SnapshotRoundGap {
		return w.snapshot(ci, txs, ts)
	}
	return w.snapshotNextRound(ci, (ci+1)%len(w.ids), txs, ts)
}

// deliver a finalized snapshot exactly as the node does for a certificate received from a peer
func (w *vnWorld) finalize(s *common.Snapshot) (res string, detail string, finalized bool) {
	chain := w.node.getOrCreateChain(s.NodeId)
	m := &CosiAction{Action: CosiActionFinalization, PeerId: s.NodeId, SnapshotHash: s.Hash, Snapshot: s}
	res, detail = vCall(func() error { return chain.cosiHandleFinalization(m) })
	return res, detail, m.finalized
}

func (w *vnWorld) cacheTxs(txs ...*common.VersionedTransaction) {
	for _, tx := range txs {
		if err := w.store.CacheStoreTransaction(tx); err != nil {
			w.t.Fatalf("cache store: %v", err)
		}
	}
}

func vnTime(hour int, sec int, ns int) uint64 {
	return uint64(time.Unix(vnEpoch, 0).UnixNano()) + uint64(24*time.Hour) + uint64(hour)*uint64(time.Hour) + uint64(sec)*uint64(time.Second) + uint64(ns)
}

// --------------------------------------------------------------------------------------------
// storage proxy: numbers every durable write; can stop the "process" before or after call k

type vnStop struct{ at int }

type vnProxy struct {
	*storage.BadgerStore
	calls  int
	cut    int  // -1 = never
	after  bool // stop after executing call cut (else before)
	log    []string
	record bool
	sched  *vnSched
	last   string

	// free-running race support: commit order, one slow snapshot write, stop right after it
	mu            sync.Mutex
	commits       []vnCommit
	slowHash      crypto.Hash
	slowEntered   chan struct{}
	stopAfterSlow bool
	stopped       bool
	raceCalls     []vnRaceCall
	racing        bool
	lastPos       uint64
}

type vnCommit struct {
	hash crypto.Hash
	pos  uint64
}

// race mode: every completed call is recorded in real-time order with the handler it belongs to
type vnRaceCall struct {
	goid int64
	call string
	pos  uint64
}

func (p *vnProxy) step(name string) {
	p.mu.Lock()
	st := p.stopped
	p.mu.Unlock()
	if st {
		panic(vnStop{})
	}
	p.schedBefore(name)
	p.calls++
	if p.record {
		p.log = append(p.log, name)
	}
	if p.cut >= 0 && !p.after && p.calls == p.cut {
		panic(vnStop{p.calls})
	}
}

func (p *vnProxy) done(name string) {
	if p.racing && name != "WriteSnapshot" {
		p.mu.Lock()
		p.raceCalls = append(p.raceCalls, vnRaceCall{vnGoid(), name, 0})
		p.mu.Unlock()
	}
	p.schedAfter(name)
	if p.cut >= 0 && p.after && p.calls == p.cut {
		panic(vnStop{p.calls})
	}
}

func (p *vnProxy) WriteTransaction(tx *common.VersionedTransaction) error {
	p.step("WriteTransaction")
	err := p.BadgerStore.WriteTransaction(tx)
	p.done("WriteTransaction")
	return err
}
func (p *vnProxy) LockUTXOs(inputs []*common.Input, tx crypto.Hash, fork bool) error {
	p.step("LockUTXOs")
	err := p.BadgerStore.LockUTXOs(inputs, tx, fork)
	p.done("LockUTXOs")
	return err
}
func (p *vnProxy) LockDepositInput(d *common.DepositData, tx crypto.Hash, fork bool) error {
	p.step("LockDepositInput")
	err := p.BadgerStore.LockDepositInput(d, tx, fork)
	p.done("LockDepositInput")
	return err
}
func (p *vnProxy) LockMintInput(m *common.MintData, tx crypto.Hash, fork bool) error {
	p.step("LockMintInput")
	err := p.BadgerStore.LockMintInput(m, tx, fork)
	p.done("LockMintInput")
	return err
}
func (p *vnProxy) LockGhostKeys(keys []*crypto.Key, tx crypto.Hash, fork bool) error {
	p.step("LockGhostKeys")
	err := p.BadgerStore.LockGhostKeys(keys, tx, fork)
	p.done("LockGhostKeys")
	return err
}
func (p *vnProxy) StartNewRound(node crypto.Hash, number uint64, references *common.RoundLink, finalStart uint64) error {
	p.step("StartNewRound")
	err := p.BadgerStore.StartNewRound(node, number, references, finalStart)
	p.done("StartNewRound")
	return err
}
func (p *vnProxy) UpdateEmptyHeadRound(node crypto.Hash, number uint64, references *common.RoundLink) error {
	p.step("UpdateEmptyHeadRound")
	err := p.BadgerStore.UpdateEmptyHeadRound(node, number, references)
	p.done("UpdateEmptyHeadRound")
	return err
}
func (p *vnProxy) WriteSnapshot(s *common.SnapshotWithTopologicalOrder, signers []crypto.Hash) error {
	p.step("WriteSnapshot")
	slow := p.stopAfterSlow && s.Hash == p.slowHash
	if slow {
		close(p.slowEntered) // the other handler starts now, while this write is in progress
		time.Sleep(80 * time.Millisecond)
	}
	err := p.BadgerStore.WriteSnapshot(s, signers)
	p.mu.Lock()
	p.commits = append(p.commits, vnCommit{s.Hash, s.TopologicalOrder})
	p.lastPos = s.TopologicalOrder
	if p.racing {
		p.raceCalls = append(p.raceCalls, vnRaceCall{vnGoid(), "WriteSnapshot", s.TopologicalOrder})
	}
	if slow {
		p.stopped = true
	}
	p.mu.Unlock()
	p.done("WriteSnapshot")
	return err
}
func (p *vnProxy) WriteConsensusSnapshot(snap *common.Snapshot, tx *common.VersionedTransaction, hack *common.Snapshot) error {
	p.step("WriteConsensusSnapshot")
	err := p.BadgerStore.WriteConsensusSnapshot(snap, tx, hack)
	p.done("WriteConsensusSnapshot")
	return err
}
func (p *vnProxy) AddNodeOperation(tx *common.VersionedTransaction, timestamp, threshold uint64, finalized bool) error {
	p.step("AddNodeOperation")
	err := p.BadgerStore.AddNodeOperation(tx, timestamp, threshold, finalized)
	p.done("AddNodeOperation")
	return err
}
func (p *vnProxy) CacheStoreTransaction(tx *common.VersionedTransaction) error {
	p.step("CacheStoreTransaction")
	err := p.BadgerStore.CacheStoreTransaction(tx)
	p.done("CacheStoreTransaction")
	return err
}
func (p *vnProxy) CacheQueueTransaction(tx *common.VersionedTransaction) error {
	p.step("CacheQueueTransaction")
	err := p.BadgerStore.CacheQueueTransaction(tx)
	p.done("CacheQueueTransaction")
	return err
}
func (p *vnProxy) CacheRemoveTransactions(hs []crypto.Hash) error {
	p.step("CacheRemoveTransactions")
	err := p.BadgerStore.CacheRemoveTransactions(hs)
	p.done("CacheRemoveTransactions")
	return err
}
func (p *vnProxy) WriteRoundWork(nodeId crypto.Hash, round uint64, snapshots []*common.SnapshotWork, credit bool) error {
	p.step("WriteRoundWork")
	err := p.BadgerStore.WriteRoundWork(nodeId, round, snapshots, credit)
	p.done("WriteRoundWork")
	return err
}
func (p *vnProxy) WriteRoundSpaceAndState(space *common.RoundSpace) error {
	p.step("WriteRoundSpaceAndState")
	err := p.BadgerStore.WriteRoundSpaceAndState(space)
	p.done("WriteRoundSpaceAndState")
	return err
}

// run f; a vnStop panic means the simulated process stop was reached
func vnRunUntilStop(f func()) (stopped bool, other any) {
	defer func() {
		if r := recover(); r != nil {
			if _, ok := r.(vnStop); ok {
				stopped = true
				return
			}
			other = r
		}
	}()
	f()
	return false, nil
}

func TestVerifNodeSmoke(t *testing.T) {
	if os.Getenv("VERIF_SMOKE") == "" {
		t.Skip()
	}
	if os.Getenv("VERIF_LOG") != "" {
		logger.SetLevel(logger.VERBOSE)
	}
	w := vnNewWorld(t, t.TempDir(), 7, "smoke")
	res, detail := w.open()
	t.Logf("open %s %s topo=%d", res, detail, w.node.TopologicalOrder())
	w.proxy.record = true
	btc := common.BitcoinAssetId
	d1 := w.depositTx(btc, btc, "c6d0c728-2624-429b-8e0d-d9d19b6592fa", "txa", 0, common.NewInteger(10))
	w.cacheTxs(d1)
	s := w.snapshot(1, []*common.VersionedTransaction{d1}, vnTime(1, 0, 0))
	r, dt, fin := w.finalize(s)
	t.Logf("finalize deposit: %s %s %v topo=%d calls=%v", r, dt, fin, w.node.TopologicalOrder(), w.proxy.log)
	w.proxy.log = nil
	tr := w.transferTx(btc, []*common.Input{{Hash: d1.PayloadHash(), Index: 0}}, []common.Integer{common.NewInteger(4), common.NewInteger(6)}, "x")
	w.cacheTxs(tr)
	s2 := w.snapshotNextRound(1, 2, []*common.VersionedTransaction{tr}, vnTime(1, 10, 0))
	r, dt, fin = w.finalize(s2)
	t.Logf("finalize transfer next round: %s %s %v topo=%d round=%d calls=%v", r, dt, fin, w.node.TopologicalOrder(), w.chain(1).State.CacheRound.Number, w.proxy.log)
	w.proxy.log = nil
	xd := w.xinDepositTx("xin1", common.KernelNodePledgeAmount)
	w.cacheTxs(xd)
	r, dt, fin = w.finalize(w.snapshot(2, []*common.VersionedTransaction{xd}, vnTime(1, 20, 0)))
	t.Logf("finalize xin deposit: %s %s %v calls=%v", r, dt, fin, w.proxy.log)
	w.proxy.log = nil
	pts := vnTime(1, 30, 0)
	pl, newSigner := w.pledgeTx(&common.Input{Hash: xd.PayloadHash(), Index: 0}, "smoke")
	w.cacheTxs(pl)
	elected := w.node.electSnapshotNode(common.TransactionTypeNodePledge, pts)
	ei := w.chainIndexOf(elected)
	r, dt, fin = w.finalize(w.snapshotAuto(ei, []*common.VersionedTransaction{pl}, pts))
	t.Logf("finalize pledge on %d: %s %s %v calls=%v", ei, r, dt, fin, w.proxy.log)
	w.proxy.log = nil
	last, _ := w.store.ReadLastConsensusSnapshot()
	t.Logf("last consensus is pledge: %v", last.Transactions[0] == pl.PayloadHash())
	ats := vnTime(14, 0, 0)
	ac, nchain, err := w.acceptTx(newSigner, ats)
	if err != nil {
		t.Fatalf("accept tx: %v", err)
	}
	w.cacheTxs(ac)
	r, dt, fin = w.finalize(w.snapshotRound0(nchain, ac, ats))
	t.Logf("finalize accept: %s %s %v calls=%v", r, dt, fin, w.proxy.log)
	last, _ = w.store.ReadLastConsensusSnapshot()
	t.Logf("last consensus is accept: %v; nodes=%d", last.Transactions[0] == ac.PayloadHash(), len(w.node.NodesListWithoutState(vnTime(30, 0, 0), true)))
	w.close()
	res, detail = w.open()
	t.Logf("reopen %s %s topo=%d", res, detail, w.node.TopologicalOrder())
	w.close()
}
