package kernel

// Replayer of spec/Ledger behaviours (properties C16, C17, C35) on a real node: batches are
// validated through the node's own signer-side snapshot validation and later applied through the
// real finalization path; after every step the ledger is read back through the store's readers.
// The transaction templates below must stay in step with spec/Ledger/LedgerTable.tla.

import (
	"fmt"
	"sort"
	"strconv"
	"strings"
	"testing"

	"github.com/MixinNetwork/mixin/common"
	"github.com/MixinNetwork/mixin/crypto"
)

type vgTemplate struct {
	name  string
	kind  string
	asset string
	amt   uint64
	ins   [][2]any // {producer name, 1-based output index}
	outs  []uint64
	ref   string
	alt   bool  // deposit whose asset record differs from the standard one in letter case only
	xtype uint8 // submit only: type of the LAST output when not a plain script output (malformed on purpose)
}

var vgTemplates = []vgTemplate{
	{name: "D1", kind: "deposit", asset: "BTC", amt: 2000, outs: []uint64{2000}},
	{name: "D2", kind: "deposit", asset: "BTC", amt: 1000, outs: []uint64{1000}},
	{name: "D3", kind: "deposit", asset: "BTC", amt: 400, outs: []uint64{400}},
	{name: "D4", kind: "deposit", asset: "DOGE", amt: 7, outs: []uint64{7}},
	{name: "D5", kind: "deposit", asset: "BTC", amt: 499, outs: []uint64{499}},
	{name: "D6", kind: "deposit", asset: "BTC", amt: 3, outs: []uint64{3}, alt: true},
	{name: "T1", kind: "transfer", asset: "BTC", ins: [][2]any{{"D1", 1}}, outs: []uint64{1500, 500}},
	{name: "T2", kind: "transfer", asset: "BTC", ins: [][2]any{{"T1", 1}, {"D3", 1}}, outs: []uint64{1900}},
	{name: "T3", kind: "transfer", asset: "BTC", ins: [][2]any{{"T1", 1}}, outs: []uint64{1500}},
	// outputs that do not add up to the inputs (TI creates 100, TD destroys 100): never valid
	{name: "TI", kind: "transfer", asset: "BTC", ins: [][2]any{{"D3", 1}}, outs: []uint64{500}},
	{name: "TD", kind: "transfer", asset: "BTC", ins: [][2]any{{"D3", 1}}, outs: []uint64{300}},
	{name: "W1", kind: "submit", asset: "BTC", ins: [][2]any{{"T1", 2}}, outs: []uint64{300, 200}},
	// malformed submissions (never valid): a third output that is not a plain change output
	{name: "WX", kind: "submit", asset: "BTC", ins: [][2]any{{"T1", 2}}, outs: []uint64{300, 100, 100}, xtype: common.OutputTypeWithdrawalClaim},
	{name: "WY", kind: "submit", asset: "BTC", ins: [][2]any{{"T1", 2}}, outs: []uint64{300, 100, 100}, xtype: common.OutputTypeCustodianSlashNodes},
	{name: "X1", kind: "deposit", asset: "XIN", amt: 10, outs: []uint64{10}},
	{name: "K1", kind: "claim", asset: "XIN", ins: [][2]any{{"X1", 1}}, outs: []uint64{1, 9}, ref: "W1"},
	{name: "K2", kind: "claim", asset: "XIN", ins: [][2]any{{"K1", 2}}, outs: []uint64{1, 8}, ref: "W1"},
}

type vgAsset struct {
	id    crypto.Hash
	chain crypto.Hash
	key   string
}

func vgAssets() map[string]vgAsset {
	return map[string]vgAsset{
		"BTC":  {common.BitcoinAssetId, common.BitcoinAssetId, "c6d0c728-2624-429b-8e0d-d9d19b6592fa"},
		"DOGE": {common.DOGEAssetId, common.DOGEAssetId, "6770a1e5-6086-44d5-b60f-545f9d9e8ffd"},
		"XIN":  {common.XINAssetId, common.XINAsset.Chain, common.XINAsset.AssetKey},
	}
}

type vgLedger struct {
	w      *vnWorld
	txs    map[string]*common.VersionedTransaction
	names  map[crypto.Hash]string
	snaps  map[string]*common.Snapshot // by batch key
	bnames map[crypto.Hash]string      // snapshot hash -> batch key
	chains map[string]int
	opn    int
	gcount uint64
}

// build every template with real keys and signatures; the payload hashes are ground into the
// template order so that a batch is processed in the order the specification assumes
func vgBuild(w *vnWorld, tag string) *vgLedger {
	g := &vgLedger{w: w, txs: map[string]*common.VersionedTransaction{}, names: map[crypto.Hash]string{},
		snaps: map[string]*common.Snapshot{}, bnames: map[crypto.Hash]string{}, chains: map[string]int{}}
	assets := vgAssets()
	for k, tp := range vgTemplates {
		as := assets[tp.asset]
		for nonce := 0; ; nonce++ {
			tx := common.NewTransactionV5(as.id)
			switch tp.kind {
			case "deposit":
				key := as.key
				if tp.alt {
					key = strings.ToUpper(key)
				}
				tx.AddDepositInput(&common.DepositData{Chain: as.chain, AssetKey: key,
					Transaction: fmt.Sprintf("ext-%s-%s-%d", tag, tp.name, nonce), Index: 0, Amount: common.NewInteger(tp.amt)})
			default:
				for _, in := range tp.ins {
					p := g.txs[in[0].(string)]
					tx.AddInput(p.PayloadHash(), uint(in[1].(int)-1))
				}
			}
			for i, a := range tp.outs {
				s := crypto.Blake3Hash([]byte(fmt.Sprintf("oseed-%s-%s-%d-%d", tag, tp.name, i, nonce)))
				seed := append(s[:], s[:]...)
				if tp.kind == "submit" && i == 0 {
					tx.Outputs = append(tx.Outputs, &common.Output{Type: common.OutputTypeWithdrawalSubmit, Amount: common.NewInteger(a),
						Withdrawal: &common.WithdrawalData{Address: "ext-address-" + tag, Tag: ""}})
				} else if tp.xtype != 0 && i == len(tp.outs)-1 {
					tx.AddScriptOutput([]*common.Address{&w.user}, common.NewThresholdScript(1), common.NewInteger(a), seed)
					tx.Outputs[len(tx.Outputs)-1].Type = tp.xtype
				} else if tp.kind == "claim" && i == 0 {
					tx.Outputs = append(tx.Outputs, &common.Output{Type: common.OutputTypeWithdrawalClaim, Amount: common.NewInteger(a)})
				} else {
					tx.AddScriptOutput([]*common.Address{&w.user}, common.NewThresholdScript(1), common.NewInteger(a), seed)
				}
			}
			if tp.kind == "claim" {
				tx.References = []crypto.Hash{g.txs[tp.ref].PayloadHash()}
				data := []byte(fmt.Sprintf("claim-%s-%d", tag, nonce))
				sig := w.custodian.PrivateSpendKey.Sign(crypto.Blake3Hash(data))
				tx.Extra = append(sig[:], data...)
			} else {
				tx.Extra = []byte(fmt.Sprintf("%s-%d", tp.name, nonce))
			}
			h := tx.AsVersioned().PayloadHash()
			if int(h[0])/12 != k {
				// up to 21 templates: bands of 12 of the first hash byte
				continue
			}
			ver := tx.AsVersioned()
			if tp.kind == "deposit" {
				if err := ver.SignRaw(w.custodian.PrivateSpendKey); err != nil {
					w.t.Fatal(err)
				}
			} else {
				for _, in := range tp.ins {
					p := g.txs[in[0].(string)]
					idx := in[1].(int) - 1
					o := p.Outputs[idx]
					utxo := &common.UTXO{Input: common.Input{Hash: p.PayloadHash(), Index: uint(idx)},
						Output: common.Output{Type: o.Type, Amount: o.Amount, Keys: o.Keys, Mask: o.Mask, Script: o.Script}}
					if err := ver.SignUTXO(utxo, []*common.Address{&w.user}); err != nil {
						w.t.Fatalf("sign %s: %v", tp.name, err)
					}
				}
			}
			g.txs[tp.name] = ver
			g.names[ver.PayloadHash()] = tp.name
			break
		}
	}
	for _, tx := range g.txs {
		w.cacheTxs(tx)
	}
	last, _ := w.store.LastSnapshot()
	g.gcount = last.TopologicalOrder
	return g
}

func vgKey(b []string) string { return strings.Join(b, "+") }

// Every batch is proposed on a chain of its own while it is pending (validated, not applied yet), so that
// certificates may arrive in any order; a chain is free again once its batch was applied or given up.
func (g *vgLedger) snapshotFor(b []string) *common.Snapshot {
	k := vgKey(b)
	if s := g.snaps[k]; s != nil {
		return s
	}
	busy := map[int]bool{}
	for _, ci := range g.chains {
		busy[ci] = true
	}
	ci := -1
	for i := range g.w.ids {
		if !busy[i] {
			ci = i
			break
		}
	}
	if ci < 0 {
		g.w.t.Fatalf("verif harness: more pending batches than chains")
	}
	g.chains[k] = ci
	g.opn++
	var txs []*common.VersionedTransaction
	for _, n := range b {
		txs = append(txs, g.txs[n])
	}
	s := g.w.snapshotAuto(ci, txs, vnTime(1, 0, 0)+uint64(g.opn)*uint64(20_000_000_000))
	g.snaps[k] = s
	g.bnames[s.Hash] = k
	return s
}

// the batch is no longer pending: its snapshot was applied, refused, or its validation failed
func (g *vgLedger) release(b []string) {
	k := vgKey(b)
	delete(g.chains, k)
	delete(g.snaps, k)
}

func vgUnits(x common.Integer) int {
	s := x.String()
	if i := strings.Index(s, "."); i >= 0 {
		s = s[:i]
	}
	n, _ := strconv.Atoi(s)
	return n
}

func (g *vgLedger) observe() vM {
	w := g.w
	body, final := []string{}, []string{}
	lock := [][]any{}
	dlock := vM{}
	for _, tp := range vgTemplates {
		tx := g.txs[tp.name]
		ver, fin, err := w.store.ReadTransaction(tx.PayloadHash())
		if err != nil {
			w.t.Fatalf("observe: %v", err)
		}
		if ver != nil {
			body = append(body, tp.name)
		}
		if fin != "" {
			final = append(final, tp.name)
		}
		for i := range tx.Outputs {
			u, err := w.store.ReadUTXOLock(tx.PayloadHash(), uint(i))
			if err != nil {
				w.t.Fatalf("observe: %v", err)
			}
			if u == nil {
				continue
			}
			if u.LockHash.HasValue() {
				n := g.names[u.LockHash]
				if n == "" {
					n = "UNKNOWN"
				}
				lock = append(lock, []any{tp.name, i + 1, n, vgUnits(u.Amount)})
			} else {
				lock = append(lock, []any{tp.name, i + 1, "None", vgUnits(u.Amount)})
			}
		}
		if tp.kind == "deposit" {
			h, err := w.store.ReadDepositLock(tx.Inputs[0].Deposit)
			if err != nil {
				w.t.Fatalf("observe: %v", err)
			}
			if !h.HasValue() {
				dlock[tp.name] = "None"
			} else if n := g.names[h]; n != "" {
				dlock[tp.name] = n
			} else {
				dlock[tp.name] = "UNKNOWN"
			}
		}
	}
	total, ainfo := vM{}, vM{}
	for n, as := range vgAssets() {
		rec, bal, err := w.store.ReadAssetWithBalance(as.id)
		if err != nil {
			w.t.Fatalf("observe: %v", err)
		}
		total[n] = vgUnits(bal)
		switch {
		case rec == nil:
			ainfo[n] = "none"
		case rec.AssetKey == as.key && rec.Chain == as.chain:
			ainfo[n] = "std"
		case strings.EqualFold(rec.AssetKey, as.key):
			ainfo[n] = "alt"
		default:
			ainfo[n] = "other"
		}
	}
	// topology: every stored snapshot in cursor order
	topo := [][]string{}
	pos := []int{}
	hashok := true
	snaps, err := w.store.ReadSnapshotsSinceTopology(0, 500)
	if err != nil {
		w.t.Fatalf("observe: %v", err)
	}
	for _, sn := range snaps {
		pos = append(pos, int(sn.TopologicalOrder))
		if sn.Hash != sn.PayloadHash() {
			hashok = false
		}
		if k, ok := g.bnames[sn.Hash]; ok {
			topo = append(topo, strings.Split(k, "+"))
		}
	}
	return vM{"body": body, "final": final, "lock": lock, "dlock": dlock, "total": total, "ainfo": ainfo,
		"topo": topo, "pos": pos, "hashok": hashok, "genesis": int(g.gcount) + 1}
}

// listing queries for the topology cursor (C35)
func (g *vgLedger) queries(seed int) []vM {
	w := g.w
	out := []vM{}
	last, _ := w.store.LastSnapshot()
	n := int(last.TopologicalOrder)
	for _, q := range [][2]int{{0, 500}, {n, 3}, {n + 1, 2}, {(seed*7 + 3) % (n + 2), 1 + seed%4}, {n / 2, 2}, {1, 0}} {
		snaps, err := w.store.ReadSnapshotsSinceTopology(uint64(q[0]), uint64(q[1]))
		m := vM{"offset": q[0], "count": q[1], "err": err != nil}
		pos, look, hok := []int{}, true, true
		for _, sn := range snaps {
			pos = append(pos, int(sn.TopologicalOrder))
			if sn.Hash != sn.PayloadHash() {
				hok = false
			}
			byh, err := w.store.ReadSnapshot(sn.Hash)
			if err != nil || byh == nil || byh.TopologicalOrder != sn.TopologicalOrder || byh.PayloadHash() != sn.Hash {
				look = false
			}
		}
		m["pos"], m["lookup"], m["hashok"] = pos, look, hok
		out = append(out, m)
	}
	_, err := w.store.ReadSnapshotsSinceTopology(0, 501)
	out = append(out, vM{"offset": 0, "count": 501, "err": err != nil, "pos": []int{}, "lookup": true, "hashok": true})
	return out
}

type vgWalk struct {
	Fam   string `json:"fam"`
	Steps []struct {
		Op string   `json:"op"`
		B  []string `json:"b"`
	} `json:"steps"`
}

func TestVerifLedgerReplay(t *testing.T) {
	tr := vOpenTrace(t)
	defer tr.Close()
	var cases struct {
		Walks []vgWalk `json:"walks"`
	}
	vLoadCases(t, &cases)
	shard, shards := vEnvInt("VERIF_SHARD", 0), vEnvInt("VERIF_SHARDS", 1)
	for wi, wk := range cases.Walks {
		if wi%shards != shard {
			continue
		}
		w := vnNewWorld(t, t.TempDir(), 7, "ledger")
		if res, detail := w.open(); res != "ok" {
			t.Fatalf("open: %s %s", res, detail)
		}
		g := vgBuild(w, fmt.Sprintf("w%d", wi))
		tr.Emit(vM{"ev": "Reset", "walk": wi, "fam": wk.Fam, "obs": g.observe()})
		// batches the REAL node validated and that were not applied yet: whatever the behaviour did with
		// them, they are applied at the end (a certified batch this node signed must be applicable)
		pending := [][]string{}
		stopped := false
		doStep := func(si int, op string, sb []string) {
			b := append([]string{}, sb...)
			sort.Slice(b, func(i, j int) bool { return vgOrd(b[i]) < vgOrd(b[j]) })
			key := strings.Join(b, ",")
			s := g.snapshotFor(b)
			m := vM{"ev": op, "b": b}
			switch op {
			case "Validate":
				res, detail := vCall(func() error {
					_, missing, err := w.node.validateSnapshotTransaction(s, false)
					if err != nil {
						return err
					}
					if len(missing) > 0 {
						return fmt.Errorf("missing %d", len(missing))
					}
					return nil
				})
				m["res"] = res
				if res == "panic" {
					m["detail"] = detail
				}
				if res == "ok" {
					pending = append(pending, b)
				} else {
					g.release(b)
				}
			case "Apply", "ApplyF":
				// Apply: the certificate of a batch this node validated arrives. ApplyF: a batch certified
				// by the other nodes arrives without this node having validated it.
				rest := pending[:0]
				for _, pb := range pending {
					if strings.Join(pb, ",") != key {
						rest = append(rest, pb)
					}
				}
				pending = rest
				res, detail, _ := w.finalize(s)
				g.release(b)
				if op == "ApplyF" {
					// batches of this node that lost a transaction to the foreign batch (deleted from the
					// store) or share one with it can never be certified any more
					keep := pending[:0]
					for _, pb := range pending {
						ok := true
						for _, n := range pb {
							if ver, _, _ := w.store.ReadTransaction(g.txs[n].PayloadHash()); ver == nil {
								ok = false
							}
							for _, m := range b {
								if m == n {
									ok = false
								}
							}
						}
						if ok {
							keep = append(keep, pb)
						} else {
							g.release(pb)
						}
					}
					pending = keep
				}
				applied := false
				if res != "panic" {
					if sn, err := w.store.ReadSnapshot(s.Hash); err == nil && sn != nil {
						applied = true
					}
				}
				switch {
				case res == "panic":
					m["res"], m["detail"] = "panic", detail
				case applied:
					m["res"] = "applied"
				default:
					m["res"] = "rejected"
				}
			}
			m["obs"] = g.observe()
			m["queries"] = g.queries(int(vSeed()) + wi + si)
			tr.Emit(m)
			if m["res"] == "panic" {
				stopped = true // the process would have stopped here
			}
		}
		for si, st := range wk.Steps {
			doStep(si, st.Op, st.B)
			if stopped {
				break
			}
		}
		// newest first: a batch validated later must not depend on an earlier one being applied before it
		for k := 0; !stopped && len(pending) > 0 && k < 8; k++ {
			doStep(len(wk.Steps)+k, "Apply", pending[len(pending)-1])
		}
		// C35: a different snapshot written at an already occupied topology position must be refused
		// and must leave the stored order untouched (storage-level probe on a fabricated chain)
		{
			before := g.observe()
			last, _ := w.store.LastSnapshot()
			node := crypto.Blake3Hash([]byte(fmt.Sprintf("reuse-%d", wi)))
			res, detail := vCall(func() error {
				if err := w.store.StartNewRound(node, 0, nil, 0); err != nil {
					return err
				}
				probe := &common.Snapshot{Version: common.SnapshotVersionCommonEncoding, NodeId: node, RoundNumber: 0,
					Timestamp: last.Timestamp + 1, Transactions: []crypto.Hash{g.txs["D4"].PayloadHash()}}
				if b, _, _ := w.store.ReadTransaction(g.txs["D4"].PayloadHash()); b == nil {
					tx := g.txs["D4"]
					if err := tx.LockInputs(w.store, false); err != nil {
						return err
					}
					if err := w.store.WriteTransaction(tx); err != nil {
						return err
					}
				}
				return w.store.WriteSnapshot(&common.SnapshotWithTopologicalOrder{Snapshot: probe, TopologicalOrder: last.TopologicalOrder}, []crypto.Hash{node})
			})
			after := g.observe()
			byHash, _ := w.store.ReadSnapshot(last.Hash)
			same := byHash != nil && byHash.TopologicalOrder == last.TopologicalOrder && byHash.PayloadHash() == last.Hash
			m := vM{"ev": "Reuse", "res": res, "pos": int(last.TopologicalOrder), "posbefore": before["pos"], "posafter": after["pos"],
				"lookupsame": same, "hashok": after["hashok"]}
			if res != "ok" {
				m["detail"] = detail
			}
			tr.Emit(m)
		}
		w.close()
	}
}

func vgOrd(n string) int {
	for i, tp := range vgTemplates {
		if tp.name == n {
			return i
		}
	}
	return -1
}
