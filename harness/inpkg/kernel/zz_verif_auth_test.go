package kernel

// Case executor for the peer authentication decision table of spec/Wire/WireAuth.tla (property C30).
// A case is a symbolic message [len, skew, rcpt, key, flag, sig=[by, over]]; it is concretized with
// real Ed25519 keys (a signature "over" other fields than the ones on the wire is a real signature
// of the message as it was before the field was changed). "builder" cases use the real
// BuildAuthenticationMessage and move the mock clock. AuthenticateAs runs on the receiver; only
// observations are recorded, TLC judges them (spec/Wire/Trace_WireAuth.tla).

import (
	"bytes"
	"encoding/binary"
	"math/rand"
	"testing"
	"time"

	"filippo.io/edwards25519"
	"github.com/MixinNetwork/mixin/common"
	"github.com/MixinNetwork/mixin/crypto"
	"github.com/MixinNetwork/mixin/kernel/internal/clock"
	"github.com/MixinNetwork/mixin/p2p"
)

type vaSig struct {
	By   string `json:"by"`
	Over []any  `json:"over"`
}

type vaMsg struct {
	Len  int    `json:"len"`
	Skew int    `json:"skew"`
	Rcpt string `json:"rcpt"`
	Key  string `json:"key"`
	Flag int    `json:"flag"`
	Sig  vaSig  `json:"sig"`
}

type vaCase struct {
	Dev     string `json:"dev"`
	M       vaMsg  `json:"m"`
	Timeout int    `json:"timeout"`
}

type vaCases struct {
	Cases []vaCase `json:"cases"`
	Blind int      `json:"blind"`
	Reps  int      `json:"reps"`
	Only  int      `json:"only"`
}

type vaWorld struct {
	network crypto.Hash
	addr    map[string]common.Address // K1 K2 KR with private spend keys
	recv    *Node
	recvId  crypto.Hash
	otherId crypto.Hash
	badKey  crypto.Key
}

func vaAddress(seed byte) common.Address {
	s := bytes.Repeat([]byte{seed}, 64)
	s[1] = byte(vSeed())
	priv := crypto.NewKeyFromSeed(s)
	a := common.Address{PrivateSpendKey: priv, PublicSpendKey: priv.Public()}
	a.PrivateViewKey = a.PublicSpendKey.DeterministicHashDerive()
	a.PublicViewKey = a.PrivateViewKey.Public()
	return a
}

func vaNewWorld() *vaWorld {
	w := &vaWorld{network: crypto.Blake3Hash([]byte("verif-auth-network")), addr: map[string]common.Address{}}
	w.addr["K1"], w.addr["K2"], w.addr["KR"] = vaAddress(11), vaAddress(12), vaAddress(13)
	w.recv = &Node{networkId: w.network, Signer: w.addr["KR"], isRelayer: true}
	w.recvId = w.addr["KR"].Hash().ForNetwork(w.network)
	w.recv.IdForNetwork = w.recvId
	w.otherId = crypto.Blake3Hash([]byte("verif-auth-other-recipient"))
	rng := rand.New(rand.NewSource(99))
	for {
		rng.Read(w.badKey[:])
		if _, err := edwards25519.NewIdentityPoint().SetBytes(w.badKey[:]); err != nil {
			break
		}
	}
	return w
}

func (w *vaWorld) keyBytes(name string) crypto.Key {
	if name == "KBAD" {
		return w.badKey
	}
	return w.addr[name].PublicSpendKey
}

func (w *vaWorld) rcptBytes(name string) crypto.Hash {
	if name == "R" {
		return w.recvId
	}
	return w.otherId
}

// the first 73 bytes for the given fields at receiver time now
func (w *vaWorld) signedPart(now int64, skew int, rcpt, key string, flag int) []byte {
	data := make([]byte, 8)
	binary.BigEndian.PutUint64(data, uint64(now-int64(skew)))
	r, k := w.rcptBytes(rcpt), w.keyBytes(key)
	data = append(data, r[:]...)
	data = append(data, k[:]...)
	return append(data, byte(flag))
}

func vaInt(x any) int {
	switch v := x.(type) {
	case float64:
		return int(v)
	case int:
		return v
	}
	return 0
}

// concretization of a symbolic message at receiver time now
func (w *vaWorld) assemble(m vaMsg, now int64, rng *rand.Rand) []byte {
	data := w.signedPart(now, m.Skew, m.Rcpt, m.Key, m.Flag)
	var sig crypto.Signature
	signer, ok := w.addr[m.Sig.By]
	if ok && len(m.Sig.Over) == 4 {
		over := w.signedPart(now, vaInt(m.Sig.Over[0]), m.Sig.Over[1].(string), m.Sig.Over[2].(string), vaInt(m.Sig.Over[3]))
		sig = signer.PrivateSpendKey.Sign(crypto.Blake3Hash(over))
	} else if m.Sig.By == "flipped" {
		good := w.addr[m.Key]
		sig = good.PrivateSpendKey.Sign(crypto.Blake3Hash(data))
		bit := rng.Intn(512)
		sig[bit/8] ^= 1 << (bit % 8)
	} else {
		rng.Read(sig[:])
	}
	data = append(data, sig[:]...)
	switch {
	case m.Len < 137:
		return data[:m.Len]
	case m.Len > 137:
		return append(data, make([]byte, m.Len-137)...)
	}
	return data
}

func (w *vaWorld) derivedId(key []byte) crypto.Hash {
	var a common.Address
	copy(a.PublicSpendKey[:], key)
	a.PublicViewKey = a.PublicSpendKey.DeterministicHashDerive().Public()
	return a.Hash().ForNetwork(w.network)
}

// one AuthenticateAs call with the observations of one "Auth" event
func (w *vaWorld) authenticate(msg []byte, recipient crypto.Hash, timeout int) (vM, int64, int64) {
	ev := vM{"len": len(msg), "timeout": timeout, "skew": 0, "rcpt_match": false, "sig_valid": false, "from_self": false,
		"msg_flag": 0, "tok_id_ok": false, "tok_relayer": false, "tok_ts_ok": false, "tok_data_ok": false}
	var token *p2p.AuthToken
	before := clock.Now().Unix()
	res, _ := vCall(func() error {
		var err error
		token, err = w.recv.AuthenticateAs(recipient, append([]byte{}, msg...), int64(timeout))
		return err
	})
	after := clock.Now().Unix()
	ev["res"] = res
	if len(msg) >= 8 {
		ts := binary.BigEndian.Uint64(msg[:8])
		d := before - int64(ts)
		if ts > 1<<62 || d > 1000000 {
			d = 1000000
		} else if d < -1000000 {
			d = -1000000
		}
		ev["skew"] = d
	}
	if len(msg) == 137 {
		ev["rcpt_match"] = bytes.Equal(msg[8:40], recipient[:])
		ev["msg_flag"] = int(msg[72])
		id := w.derivedId(msg[40:72])
		ev["from_self"] = id == recipient
		vCall(func() error {
			var k crypto.Key
			var s crypto.Signature
			copy(k[:], msg[40:72])
			copy(s[:], msg[73:137])
			ev["sig_valid"] = k.Verify(crypto.Blake3Hash(msg[:73]), s)
			return nil
		})
		if res == "ok" && token != nil {
			ev["tok_id_ok"] = token.PeerId == id
			ev["tok_relayer"] = token.IsRelayer
			ev["tok_ts_ok"] = token.Timestamp == binary.BigEndian.Uint64(msg[:8])
			ev["tok_data_ok"] = bytes.Equal(token.Data, msg)
		}
	}
	return ev, before, after
}

func TestVerifWireAuth(t *testing.T) {
	tr := vOpenTrace(t)
	defer tr.Close()
	var cs vaCases
	vLoadCases(t, &cs)
	w := vaNewWorld()
	clock.Reset()
	defer clock.Reset()
	reps := cs.Reps
	if reps < 1 {
		reps = 1
	}
	idx := 0
	for _, c := range cs.Cases {
		for rep := 0; rep < reps; rep++ {
			idx++
			if cs.Only != 0 && cs.Only != idx {
				continue
			}
			rng := rand.New(rand.NewSource(vSeed()*1000003 + int64(idx)*7919 + 31))
			var ev vM
			built := "hand"
			// repeat when the wall-clock second changed between reading it and the call
			for try := 0; try < 50; try++ {
				var msg []byte
				if c.Dev == "builder" {
					built = "real"
					sender := &Node{networkId: w.network, Signer: w.addr[c.M.Key], isRelayer: c.M.Flag == 1}
					clock.Reset()
					msg = sender.BuildAuthenticationMessage(w.rcptBytes(c.M.Rcpt))
					clock.MockDiff(time.Duration(c.M.Skew) * time.Second)
				} else {
					msg = w.assemble(c.M, clock.Now().Unix(), rng)
				}
				var before, after int64
				ev, before, after = w.authenticate(msg, w.recvId, c.Timeout)
				clock.Reset()
				if before == after && (c.M.Len != 137 || ev["skew"] == int64(c.M.Skew) || c.M.Skew > 1000000 || c.M.Skew < -1000000) {
					break
				}
			}
			ev["ev"], ev["src"], ev["idx"], ev["case"], ev["built"] = "Auth", "case", idx, c, built
			tr.Emit(ev)
		}
	}
	// seeded single-byte and single-bit changes of valid messages, replays to another recipient,
	// random strings; random timeouts and clock differences
	dummy := vaCase{Dev: "-", M: vaMsg{Rcpt: "R", Key: "K1", Sig: vaSig{By: "-", Over: []any{}}}}
	for n := 0; n < cs.Blind; n++ {
		idx++
		if cs.Only != 0 && cs.Only != idx {
			continue
		}
		rng := rand.New(rand.NewSource(vSeed()*1000003 + int64(idx)*7919 + 31))
		timeout := []int{0, 1, 10, 10, 10, 60}[rng.Intn(6)]
		skew := rng.Intn(31) - 15
		key := []string{"K1", "K2"}[rng.Intn(2)]
		flag := rng.Intn(2)
		m := vaMsg{Len: 137, Skew: skew, Rcpt: "R", Key: key, Flag: flag, Sig: vaSig{By: key, Over: []any{skew, "R", key, flag}}}
		recipient := w.recvId
		var ev vM
		for try := 0; try < 50; try++ {
			r2 := rand.New(rand.NewSource(vSeed()*1000003 + int64(idx)*7919 + 37))
			msg := w.assemble(m, clock.Now().Unix(), r2)
			switch n % 5 {
			case 0:
				msg[r2.Intn(137)] = byte(r2.Intn(256))
			case 1:
				bit := r2.Intn(137 * 8)
				msg[bit/8] ^= 1 << (bit % 8)
			case 2:
				r2.Read(msg)
			case 3:
				recipient = w.otherId // a valid message replayed to a node it was not addressed to
			default: // untouched valid message at a random clock difference
			}
			var before, after int64
			ev, before, after = w.authenticate(msg, recipient, timeout)
			if before == after {
				break
			}
		}
		ev["ev"], ev["src"], ev["idx"], ev["case"], ev["built"] = "Auth", "blind", idx, dummy, "hand"
		tr.Emit(ev)
	}
}
