package kernel

// Batcher harness for C31 (spec/Proposal/Transport.tla). A real node (SetupNode over a real
// BadgerStore) gets funded outputs with many keys; transactions spending them with many
// signatures (signed envelope >> unsigned payload) are queued through the real
// CacheQueueTransaction, and the real popAndProcessCacheQueue forms its batch. The harness
// records, per run, the unsigned payload length and the signed size (len(Marshal()), what the
// batcher accounts) of every queued transaction, which of them the batcher admitted (the self snapshot it appended
// to the chain's cache pool), and writes the admitted envelopes to a file for the p2p harness,
// which feeds them to the real message builders. TLC (Trace_Transport.tla) is the judge.

import (
	"encoding/binary"
	"encoding/json"
	"fmt"
	"os"
	"runtime"
	"sync"
	"testing"
	"time"

	"github.com/MixinNetwork/mixin/common"
	"github.com/MixinNetwork/mixin/config"
	"github.com/MixinNetwork/mixin/crypto"
	"github.com/MixinNetwork/mixin/kernel/internal"
	"github.com/MixinNetwork/mixin/kernel/internal/clock"
	"github.com/MixinNetwork/mixin/p2p"
	"github.com/MixinNetwork/mixin/storage"
	"github.com/dgraph-io/ristretto/v2"
)

const vtrConfigTmpl = `[node]
signer-key = "%s"
consensus-only = true
memory-cache-size = 16
cache-ttl = 7200
ring-cache-size = 4096
ring-final-size = 16384
[network]
listener = "mixin-node.example.com:7239"`

type vtrTx struct {
	Inputs int `json:"inputs"` // inputs (<= 256)
	Sigs   int `json:"sigs"`   // signatures per input (<= keys per funded output)
	Extra  int `json:"extra"`  // extra bytes (storage transaction: up to 4 MiB)
}

type vtrCase struct {
	Name string  `json:"name"`
	Txs  []vtrTx `json:"txs"` // the queue, in queueing order
}

type vtrCases struct {
	Cases []vtrCase `json:"cases"`
	Out   string    `json:"out"` // directory for the batch files
}

func vtrAccount(i int, role string) common.Address {
	seed := make([]byte, 64)
	copy(seed, []byte("VERIFNODE#"+role+"#"))
	seed[63] = byte(i)
	a := common.NewAddressFromSeed(seed)
	a.PrivateViewKey = a.PublicSpendKey.DeterministicHashDerive()
	a.PublicViewKey = a.PrivateViewKey.Public()
	return a
}

// a node that is itself one of the 7 genesis nodes (so that its own chain has a state)
func vtrSetupNode(t testing.TB) *Node {
	dir := t.TempDir()
	var nodes []map[string]string
	for i := 0; i < 7; i++ {
		nodes = append(nodes, map[string]string{"signer": vtrAccount(i, "SIGNER").String(), "payee": vtrAccount(i, "PAYEE").String(),
			"custodian": vtrAccount(i, "CUSTODIAN").String(), "balance": "13439"})
	}
	me := vtrAccount(0, "SIGNER")
	gdata, err := json.Marshal(map[string]any{"epoch": 1551312000, "nodes": nodes, "custodian": me.String()})
	if err != nil {
		t.Fatal(err)
	}
	if err := os.WriteFile(dir+"/genesis.json", gdata, 0644); err != nil {
		t.Fatal(err)
	}
	if err := os.WriteFile(dir+"/config.toml", fmt.Appendf(nil, vtrConfigTmpl, me.PrivateSpendKey.String()), 0644); err != nil {
		t.Fatal(err)
	}
	custom, err := config.Initialize(dir + "/config.toml")
	if err != nil {
		t.Fatal(err)
	}
	gns, err := common.ReadGenesis(dir + "/genesis.json")
	if err != nil {
		t.Fatal(err)
	}
	cache, err := ristretto.NewCache(&ristretto.Config[[]byte, any]{NumCounters: 1e5, MaxCost: 1 << 26, BufferItems: 64})
	if err != nil {
		t.Fatal(err)
	}
	store, err := storage.NewBadgerStore(custom, dir)
	if err != nil {
		t.Fatal(err)
	}
	node, err := SetupNode(custom, store, cache, gns)
	if err != nil {
		t.Fatal(err)
	}
	// transactions the batcher does not keep are sent to a neighbour through the real peer (no
	// connections: the message is built, wrapped for relaying, and dropped)
	node.Peer = p2p.NewPeer(node, node.IdForNetwork, "127.0.0.1:0", false)
	return node
}

func vtrHash(parts ...any) crypto.Hash {
	return crypto.Blake3Hash([]byte(fmt.Sprint(parts...)))
}

func vtrPriv(parts ...any) crypto.Key {
	seed := vtrHash(parts...)
	s2 := vtrHash("x", seed.String())
	return crypto.NewKeyFromSeed(append(seed[:], s2[:]...))
}

type vtrFunds struct {
	asset  crypto.Hash
	inputs []*common.Input // funded outputs
	privs  [][]crypto.Key  // private keys of each funded output
}

// fund writes finalized deposit transactions whose outputs carry `keys` keys each (16 outputs per
// deposit so that one finalization stays a small Badger transaction).
func vtrFund(t testing.TB, node *Node, outputs, keys int) *vtrFunds {
	store := node.persistStore
	f := &vtrFunds{asset: common.XINAssetId} // XIN: a spend may carry a large extra (storage transaction)
	must := func(err error) {
		if err != nil {
			t.Fatalf("fund: %v", err)
		}
	}
	per := 16
	var topo uint64
	for base := 0; base < outputs; base += per {
		n := min(per, outputs-base)
		tx := common.NewTransactionV5(f.asset)
		dd := &common.DepositData{Chain: common.XINAsset.Chain, AssetKey: common.XINAsset.AssetKey, Transaction: fmt.Sprint("vtr:", base), Index: 0, Amount: common.NewInteger(uint64(n))}
		tx.AddDepositInput(dd)
		privs := make([][]crypto.Key, n)
		pubs := make([][]*crypto.Key, n)
		var wg sync.WaitGroup
		for o := 0; o < n; o++ {
			privs[o] = make([]crypto.Key, keys)
			pubs[o] = make([]*crypto.Key, keys)
			wg.Add(1)
			go func(o int) {
				defer wg.Done()
				for k := 0; k < keys; k++ {
					p := vtrPriv("vtr-key", base+o, k)
					pub := p.Public()
					privs[o][k] = p
					pubs[o][k] = &pub
				}
			}(o)
		}
		wg.Wait()
		for o := 0; o < n; o++ {
			tx.Outputs = append(tx.Outputs, &common.Output{Type: common.OutputTypeScript, Amount: common.NewInteger(1),
				Keys: pubs[o], Mask: vtrPriv("vtr-mask", base+o).Public(), Script: common.NewThresholdScript(1)})
		}
		ver := tx.AsVersioned()
		must(store.LockDepositInput(dd, ver.PayloadHash(), false))
		must(store.WriteTransaction(ver))
		fn := vtrHash("vtr-node", base)
		must(store.StartNewRound(fn, 0, nil, 0))
		topo++
		snap := &common.Snapshot{Version: common.SnapshotVersionCommonEncoding, NodeId: fn, RoundNumber: 0,
			Timestamp: node.Epoch + uint64(time.Hour) + topo, Transactions: []crypto.Hash{ver.PayloadHash()}}
		must(store.WriteSnapshot(&common.SnapshotWithTopologicalOrder{Snapshot: snap, TopologicalOrder: (1 << 41) + topo}, []crypto.Hash{fn}))
		for o := 0; o < n; o++ {
			f.inputs = append(f.inputs, &common.Input{Hash: ver.PayloadHash(), Index: uint(o)})
			f.privs = append(f.privs, privs[o])
		}
	}
	return f
}

// spend builds one admissible transaction: `inputs` funded outputs, `sigs` real signatures each.
// Several transactions may name the same outputs: the batcher validates, it does not lock inputs.
func vtrSpend(f *vtrFunds, tag string, inputs, sigs, extra int) *common.VersionedTransaction {
	tx := common.NewTransactionV5(f.asset)
	for i := 0; i < inputs; i++ {
		tx.AddInput(f.inputs[i].Hash, f.inputs[i].Index)
	}
	out := vtrPriv("vtr-out", tag).Public()
	// one key, script fffe40, amount >= 0.4096 XIN: a storage output, the extra may be up to 4 MiB
	tx.Outputs = append(tx.Outputs, &common.Output{Type: common.OutputTypeScript, Amount: common.NewInteger(uint64(inputs)),
		Keys: []*crypto.Key{&out}, Mask: vtrPriv("vtr-outmask", tag).Public(), Script: common.NewThresholdScript(64)})
	ex := make([]byte, extra)
	copy(ex, []byte(tag))
	tx.Extra = ex
	ver := tx.AsVersioned()
	msg := ver.PayloadHash()
	ver.SignaturesMap = make([]map[uint16]*crypto.Signature, inputs)
	var wg sync.WaitGroup
	sem := make(chan struct{}, runtime.NumCPU())
	for i := 0; i < inputs; i++ {
		m := make(map[uint16]*crypto.Signature, sigs)
		ver.SignaturesMap[i] = m
		var mu sync.Mutex
		wg.Add(1)
		sem <- struct{}{}
		go func(i int) {
			defer wg.Done()
			defer func() { <-sem }()
			local := make([]*crypto.Signature, sigs)
			for k := 0; k < sigs; k++ {
				s := f.privs[i][k].Sign(msg)
				local[k] = &s
			}
			mu.Lock()
			for k := 0; k < sigs; k++ {
				m[uint16(k)] = local[k]
			}
			mu.Unlock()
		}(i)
	}
	wg.Wait()
	return ver
}

// canPropose makes the node believe its peers are in step so that the batcher proposes itself
// (the batch then appears as a self snapshot in the chain's cache pool).
func vtrCanPropose(t testing.TB, node *Node) {
	if node.chain == nil || node.chain.State == nil {
		t.Fatalf("set-up: the node's own chain has no state")
	}
	final := node.chain.State.FinalRound.Number
	spm := map[crypto.Hash]*p2p.SyncPoint{}
	for _, cn := range node.NodesListWithoutState(clock.NowUnixNano(), true) {
		spm[cn.IdForNetwork] = &p2p.SyncPoint{NodeId: cn.IdForNetwork, Number: final}
	}
	node.SyncPointsMap = spm
	all := node.ListWorkingAcceptedNodes(clock.NowUnixNano())
	if !node.chainCanProposeSnapshot(all, node.chain, clock.NowUnixNano()) {
		t.Fatalf("set-up: node cannot propose (final %d, cache %v)", final, node.chain.State.CacheRound)
	}
}

func TestVerifTransportBatcher(t *testing.T) {
	tr := vOpenTrace(t)
	defer tr.Close()
	var cases vtrCases
	vLoadCases(t, &cases)
	wasMocked := internal.MockRunAggregators()
	internal.ToggleMockRunAggregators(true)
	defer internal.ToggleMockRunAggregators(wasMocked)
	node := vtrSetupNode(t)
	defer func() {
		node.cacheStore.Clear()
		node.persistStore.Close()
	}()
	maxIn, maxSig := 1, 1
	for _, c := range cases.Cases {
		for _, x := range c.Txs {
			maxIn, maxSig = max(maxIn, x.Inputs), max(maxSig, x.Sigs)
		}
	}
	t0 := time.Now()
	funds := vtrFund(t, node, maxIn, maxSig)
	vtrCanPropose(t, node)
	tr.Emit(vM{"ev": "Limits", "max": p2p.TransportMessageMaxSize, "txmax": config.TransactionMaximumSize,
		"countmax": common.SnapshotTransactionsMaximum, "fund_s": time.Since(t0).Seconds()})
	for ci, c := range cases.Cases {
		t1 := time.Now()
		// drain whatever is queued
		for {
			txs, err := node.persistStore.CacheRetrieveTransactions(255)
			if err != nil {
				t.Fatal(err)
			}
			if len(txs) == 0 {
				break
			}
		}
		for len(node.chain.CachePool) > 0 {
			<-node.chain.CachePool
		}
		N := len(c.Txs)
		txs := make([]*common.VersionedTransaction, N)
		index := map[crypto.Hash]int{}
		signed := make([]int, N)
		for i := range txs {
			txs[i] = vtrSpend(funds, fmt.Sprintf("%s-%d-%d", c.Name, ci, i), c.Txs[i].Inputs, c.Txs[i].Sigs, c.Txs[i].Extra)
			index[txs[i].PayloadHash()] = i
			signed[i] = len(txs[i].Marshal())
			if err := node.persistStore.CacheQueueTransaction(txs[i]); err != nil {
				t.Fatalf("queue: %v", err)
			}
		}
		t2 := time.Now()
		var popped int
		res, detail := vCall(func() error {
			popped = node.popAndProcessCacheQueue()
			return nil
		})
		t3 := time.Now()
		// the batch the node decided to propose itself
		batch := []int{}
		var others [][]int
		for len(node.chain.CachePool) > 0 {
			a := <-node.chain.CachePool
			if a.Action != CosiActionSelfEmpty || a.Snapshot == nil {
				continue
			}
			var b []int
			for _, h := range a.Snapshot.Transactions {
				if i, ok := index[h]; ok {
					b = append(b, i)
				}
			}
			// transactions the batcher does not keep may be proposed one by one before the batch is
			// appended: the batch is the LAST self snapshot (the first transaction of a queue is always kept)
			if len(batch) > 0 {
				others = append(others, batch)
			}
			batch = b
		}
		// what the batcher accounts per transaction is ValidatedSize(), set by the Validate call it
		// makes on its own copy; the harness validates its copy of the first transaction with the
		// same real function and reads the real ValidatedSize(), and records the unsigned payload
		// length of every transaction (the trace specification relates the two)
		payload := make([]int, N)
		for i, tx := range txs {
			payload[i] = len(tx.PayloadMarshal())
		}
		validated0 := -1
		vres, _ := vCall(func() error {
			if err := txs[0].Validate(node.persistStore, uint64(time.Now().UnixNano()), false); err != nil {
				return err
			}
			validated0 = txs[0].ValidatedSize()
			return nil
		})
		file := ""
		if cases.Out != "" {
			file = fmt.Sprintf("%s/batch-%d.bin", cases.Out, ci)
			var buf []byte
			buf = binary.BigEndian.AppendUint32(buf, uint32(len(batch)))
			for _, i := range batch {
				b := txs[i].Marshal()
				buf = binary.BigEndian.AppendUint32(buf, uint32(len(b)))
				buf = append(buf, b...)
			}
			if err := os.WriteFile(file, buf, 0644); err != nil {
				t.Fatal(err)
			}
		}
		m := vM{"ev": "Batch", "case": c.Name, "i": ci, "res": res, "popped": popped, "n": N,
			"payload": payload, "validated0": validated0, "validate0": vres, "signed": signed, "batch": batch, "extra_snapshots": len(others), "file": file,
			"build_s": t2.Sub(t1).Seconds(), "batcher_s": t3.Sub(t2).Seconds()}
		if res != "ok" {
			m["detail"] = detail
		}
		tr.Emit(m)
	}
}
