package kernel

// Harness for proposal retirement (spec/Proposal, property C24). Each TLC-generated case is a
// pre-state (installed proposals with timestamps / commitment and response counts, the verifier
// map, per-transaction body/finalization/cache class) and one retirement step. The harness builds
// the pre-state on a real node (SetupNode over a real BadgerStore, Chain maps built the way
// TestCosiAggregatorExpiryRequeuesTransactions does), calls the real function, and records the
// maps and, as the last step, what one real CacheRetrieveTransactions(255) returns. TLC
// (Trace_Proposal.tla) is the judge.

import (
	"fmt"
	"os"
	"sync"
	"testing"
	"time"

	"github.com/MixinNetwork/mixin/common"
	"github.com/MixinNetwork/mixin/config"
	"github.com/MixinNetwork/mixin/crypto"
	"github.com/MixinNetwork/mixin/kernel/internal"
	"github.com/MixinNetwork/mixin/storage"
	"github.com/dgraph-io/ristretto/v2"
)

var vprTx = []string{"t1", "t2", "t3"}
var vprAgg = []string{"a1", "a2", "a3"}
var vprAggTxs = map[string][]string{"a1": {"t1", "t2"}, "a2": {"t2", "t3"}, "a3": {"t3", "t1"}}

const vprModelBase = 2 // commitment threshold of the model (MC_Proposal!Base)
const vprModelGap = 2  // SnapshotRoundGap in model time units (Proposal!Gap)

type vprAggCase struct {
	On bool `json:"on"`
	Ts int  `json:"ts"`
	Nc int  `json:"nc"`
	Nr int  `json:"nr"`
}

type vprCase struct {
	M map[string]vprAggCase `json:"m"`
	W map[string]string     `json:"w"`
	K map[string]string     `json:"k"`
	O vM                    `json:"o"`
}

type vprWorld struct {
	t     testing.TB
	node  *Node
	t0    uint64
	unit  uint64
	pool  map[string]map[string]*common.VersionedTransaction // class group ("cache","p","pf") -> tx id -> tx
	topo  uint64
	fnode int
}

const vprConfig = `[node]
signer-key = "56a7904a2dfd71c397bb48584033d8cb6ddcde9b46b7d91f07d2ede061723a0b"
consensus-only = true
memory-cache-size = 16
cache-ttl = 7200
ring-cache-size = 4096
ring-final-size = 16384
[network]
listener = "mixin-node.example.com:7239"`

func vprSetupNode(t testing.TB) *Node {
	dir := t.TempDir()
	if err := os.WriteFile(dir+"/config.toml", []byte(vprConfig), 0644); err != nil {
		t.Fatal(err)
	}
	data, err := os.ReadFile("../config/genesis.json")
	if err != nil {
		t.Fatal(err)
	}
	if err := os.WriteFile(dir+"/genesis.json", data, 0644); err != nil {
		t.Fatal(err)
	}
	custom, err := config.Initialize(dir + "/config.toml")
	if err != nil {
		t.Fatal(err)
	}
	gns, err := common.ReadGenesis(dir + "/genesis.json")
	if err != nil {
		t.Fatal(err)
	}
	cache, err := ristretto.NewCache(&ristretto.Config[[]byte, any]{NumCounters: 1e5, MaxCost: 1 << 26, BufferItems: 64})
	if err != nil {
		t.Fatal(err)
	}
	store, err := storage.NewBadgerStore(custom, dir)
	if err != nil {
		t.Fatal(err)
	}
	node, err := SetupNode(custom, store, cache, gns)
	if err != nil {
		t.Fatal(err)
	}
	return node
}

func vprHash(parts ...any) crypto.Hash {
	return crypto.Blake3Hash([]byte(fmt.Sprint(parts...)))
}

func vprKey(parts ...any) crypto.Key {
	seed := vprHash(parts...)
	s2 := vprHash("x", seed.String())
	return crypto.NewKeyFromSeed(append(seed[:], s2[:]...)).Public()
}

// a deposit transaction: can be written to the persistent store without any prior ledger state
func (w *vprWorld) depositTx(tag string) (*common.VersionedTransaction, *common.DepositData) {
	asset := vprHash("vpr-asset")
	tx := common.NewTransactionV5(asset)
	dd := &common.DepositData{Chain: common.EthereumAssetId, AssetKey: "0xvprverif", Transaction: "vpr:" + tag, Index: 0, Amount: common.NewInteger(1)}
	tx.AddDepositInput(dd)
	k := vprKey("vpr-out", tag)
	tx.Outputs = append(tx.Outputs, &common.Output{Type: common.OutputTypeScript, Amount: common.NewInteger(1),
		Keys: []*crypto.Key{&k}, Mask: vprKey("vpr-mask", tag), Script: common.NewThresholdScript(1)})
	tx.Extra = []byte("vpr" + tag)
	return tx.AsVersioned(), dd
}

func (w *vprWorld) persist(ver *common.VersionedTransaction, dd *common.DepositData, finalize bool) {
	store := w.node.persistStore
	must := func(err error) {
		if err != nil {
			w.t.Fatalf("pool setup: %v", err)
		}
	}
	must(store.LockDepositInput(dd, ver.PayloadHash(), false))
	must(store.WriteTransaction(ver))
	if !finalize {
		return
	}
	w.fnode++
	fn := vprHash("vpr-node", w.fnode)
	must(store.StartNewRound(fn, 0, nil, 0))
	w.topo++
	snap := &common.Snapshot{Version: common.SnapshotVersionCommonEncoding, NodeId: fn, RoundNumber: 0,
		Timestamp: w.t0 + w.topo, Transactions: []crypto.Hash{ver.PayloadHash()}}
	must(store.WriteSnapshot(&common.SnapshotWithTopologicalOrder{Snapshot: snap, TopologicalOrder: (1 << 40) + w.topo}, []crypto.Hash{fn}))
}

func vprNewWorld(t testing.TB) *vprWorld {
	node := vprSetupNode(t)
	if config.SnapshotRoundGap%vprModelGap != 0 {
		t.Fatalf("SnapshotRoundGap %d not divisible by %d", config.SnapshotRoundGap, vprModelGap)
	}
	w := &vprWorld{t: t, node: node, unit: config.SnapshotRoundGap / vprModelGap,
		t0:   node.Epoch + uint64(24*time.Hour),
		pool: map[string]map[string]*common.VersionedTransaction{"cache": {}, "p": {}, "pf": {}}}
	for _, id := range vprTx {
		c, _ := w.depositTx("cache-" + id)
		w.pool["cache"][id] = c
		p, dp := w.depositTx("p-" + id)
		w.persist(p, dp, false)
		w.pool["p"][id] = p
		f, df := w.depositTx("pf-" + id)
		w.persist(f, df, true)
		w.pool["pf"][id] = f
	}
	return w
}

func (w *vprWorld) allHashes() []crypto.Hash {
	var hs []crypto.Hash
	for _, g := range w.pool {
		for _, tx := range g {
			hs = append(hs, tx.PayloadHash())
		}
	}
	return hs
}

// cleanCache removes what a case left in the cache DB: bodies and order records of the pool
// (the queue records were all consumed by the retrieval that ends every case)
func (w *vprWorld) cleanCache() {
	if err := w.node.persistStore.CacheRemoveTransactions(w.allHashes()); err != nil {
		w.t.Fatalf("clean: %v", err)
	}
}

type vprBuilt struct {
	chain *Chain
	tx    map[string]*common.VersionedTransaction
	name  map[crypto.Hash]string
	snap  map[string]*common.Snapshot
	ver   map[string]*CosiVerifier
	base  int
}

func (w *vprWorld) build(c *vprCase) *vprBuilt {
	store := w.node.persistStore
	b := &vprBuilt{tx: map[string]*common.VersionedTransaction{}, name: map[crypto.Hash]string{},
		snap: map[string]*common.Snapshot{}, ver: map[string]*CosiVerifier{}}
	for _, id := range vprTx {
		var tx *common.VersionedTransaction
		var err error
		switch c.K[id] {
		case "none":
			tx = w.pool["cache"][id]
		case "c":
			tx = w.pool["cache"][id]
			err = store.CacheStoreTransaction(tx)
		case "cq":
			tx = w.pool["cache"][id]
			err = store.CacheQueueTransaction(tx)
		case "p":
			tx = w.pool["p"][id]
		case "pf":
			tx = w.pool["pf"][id]
		default:
			w.t.Fatalf("class %q", c.K[id])
		}
		if err != nil {
			w.t.Fatalf("build: %v", err)
		}
		b.tx[id] = tx
		b.name[tx.PayloadHash()] = id
	}
	chain := &Chain{node: w.node, ChainId: w.node.IdForNetwork,
		CosiAggregators: map[crypto.Hash]*CosiAggregator{}, CosiVerifiers: map[crypto.Hash]*CosiVerifier{}}
	b.base = w.node.ConsensusThreshold(w.t0, false)
	for _, a := range vprAgg {
		ac := c.M[a]
		s := &common.Snapshot{Version: common.SnapshotVersionCommonEncoding, NodeId: w.node.IdForNetwork,
			RoundNumber: 1, Timestamp: w.t0 + uint64(ac.Ts)*w.unit}
		for _, id := range vprAggTxs[a] {
			s.Transactions = append(s.Transactions, b.tx[id].PayloadHash())
		}
		s.Hash = s.PayloadHash()
		b.snap[a] = s
		if !ac.On {
			continue
		}
		// commitment / response counts are mapped around the REAL threshold of the node:
		// commitments: model 1 -> threshold - 1, 2 -> threshold; responses: 0 -> none,
		// = commitments -> every commitment answered, otherwise -> all but one
		nc := b.base - vprModelBase + ac.Nc
		nr := nc - 1
		if ac.Nr == 0 {
			nr = 0
		} else if ac.Nr == ac.Nc {
			nr = nc
		}
		agg := &CosiAggregator{Snapshot: s, Commitments: map[int]*crypto.Key{}, Responses: map[int]*[32]byte{}}
		for i := 0; i < nc; i++ {
			k := vprKey("vpr-commit", i)
			agg.Commitments[i] = &k
		}
		for i := 0; i < nr; i++ {
			agg.Responses[i] = new([32]byte)
		}
		chain.CosiAggregators[s.Hash] = agg
		v := &CosiVerifier{Snapshot: s}
		b.ver[a] = v
		chain.CosiVerifiers[s.Hash] = v
	}
	for _, id := range vprTx {
		if o := c.W[id]; o != "None" {
			v := b.ver[o]
			if v == nil {
				w.t.Fatalf("owner %s of %s is not installed", o, id)
			}
			chain.CosiVerifiers[b.tx[id].PayloadHash()] = v
		}
	}
	b.chain = chain
	return b
}

// project reads the maps and the stores back; withQueue consumes the cache queue (last step)
func (w *vprWorld) project(b *vprBuilt, c *vprCase, withQueue bool) vM {
	store := w.node.persistStore
	agg, vs, owner := vM{}, vM{}, vM{}
	final, pbody, cbody := vM{}, vM{}, vM{}
	for _, a := range vprAgg {
		s := b.snap[a]
		ag := b.chain.CosiAggregators[s.Hash]
		m := vM{"on": ag != nil, "ts": c.M[a].Ts, "nc": 0, "nr": 0}
		if ag != nil {
			m["nc"], m["nr"] = len(ag.Commitments), len(ag.Responses)
			m["ts"] = int((ag.Snapshot.Timestamp - w.t0) / w.unit)
		}
		agg[a] = m
		vs[a] = b.chain.CosiVerifiers[s.Hash] != nil
	}
	for _, id := range vprTx {
		h := b.tx[id].PayloadHash()
		owner[id] = "None"
		if v := b.chain.CosiVerifiers[h]; v != nil {
			owner[id] = "OTHER"
			for a, av := range b.ver {
				if av == v {
					owner[id] = a
				}
			}
		}
		tx, fin, err := store.ReadTransaction(h)
		if err != nil {
			w.t.Fatalf("project: %v", err)
		}
		pbody[id] = tx != nil
		final[id] = fin != ""
		ctx, err := store.CacheGetTransaction(h)
		if err != nil {
			w.t.Fatalf("project: %v", err)
		}
		cbody[id] = ctx != nil
	}
	out := vM{"agg": agg, "vs": vs, "owner": owner, "final": final, "pbody": pbody, "cbody": cbody}
	if withQueue {
		queue := []string{}
		txs, err := store.CacheRetrieveTransactions(255)
		if err != nil {
			w.t.Fatalf("project: %v", err)
		}
		for _, tx := range txs {
			n, ok := b.name[tx.PayloadHash()]
			if !ok {
				n = "UNKNOWN"
			}
			queue = append(queue, n)
		}
		out["queue"] = queue
	} else {
		queued := vM{}
		for _, id := range vprTx {
			queued[id] = c.K[id] == "cq"
		}
		out["queued"] = queued
	}
	return out
}

func vprStrs(x any) []string {
	var out []string
	if l, ok := x.([]any); ok {
		for _, e := range l {
			s, _ := e.(string)
			out = append(out, s)
		}
	}
	return out
}

func (w *vprWorld) step(b *vprBuilt, c *vprCase) (string, string) {
	op, _ := c.O["op"].(string)
	hashes := func(ids []string) []crypto.Hash {
		hs := []crypto.Hash{}
		for _, id := range ids {
			hs = append(hs, b.tx[id].PayloadHash())
		}
		return hs
	}
	return vCall(func() error {
		switch op {
		case "Expire":
			now, _ := c.O["now"].(float64)
			b.chain.expireCosiAggregators(w.t0 + uint64(now)*w.unit)
		case "Retry":
			a, _ := c.O["a"].(string)
			b.chain.retryCosiSnapshot(b.snap[a])
		case "Reset":
			b.chain.resetCosiStateForNewRound(hashes(vprStrs(c.O["owned"])))
		case "Defer":
			how, _ := c.O["how"].(string)
			first := w.t0 + uint64(time.Hour)
			s := &common.Snapshot{Version: common.SnapshotVersionCommonEncoding, NodeId: w.node.IdForNetwork,
				Transactions: hashes(vprStrs(c.O["txs"]))}
			state := &ChainState{
				CacheRound: &CacheRound{NodeId: w.node.IdForNetwork, Number: 2, Timestamp: first, References: new(common.RoundLink),
					Snapshots: []*common.Snapshot{{NodeId: w.node.IdForNetwork, RoundNumber: 2, Timestamp: first}}},
				FinalRound: &FinalRound{NodeId: w.node.IdForNetwork, Number: 1},
			}
			switch how {
			case "nostate": // chain.State == nil
				s.Timestamp = first + 1
			case "stale": // timestamp not after the cache round
				b.chain.State = state
				s.Timestamp = first
			case "late": // after the cut-off of the current round
				b.chain.State = state
				s.Timestamp = first + config.SnapshotRoundGap*9/10
			}
			b.chain.CachePool = make(chan *CosiAction, 2)
			valid, err := b.chain.prepareAnnouncement(&CosiAction{Snapshot: s, data: &CosiChainData{}})
			if err != nil {
				return err
			}
			if valid {
				return fmt.Errorf("announcement not deferred")
			}
		case "Announce":
			// the duplicate guard of cosiSendAnnouncement: a batch that passes prepareAnnouncement (current
			// round 1, same day, before the cut-off) while a member is guarded by the verifier of an
			// installed proposal of the same round younger than the gap
			b.chain.State = &ChainState{
				CacheRound: &CacheRound{NodeId: w.node.IdForNetwork, Number: 1, Timestamp: w.t0, References: new(common.RoundLink),
					Snapshots: []*common.Snapshot{{NodeId: w.node.IdForNetwork, RoundNumber: 1, Timestamp: w.t0}}},
				FinalRound: &FinalRound{NodeId: w.node.IdForNetwork, Number: 0},
			}
			b.chain.CachePool = make(chan *CosiAction, 2)
			s := &common.Snapshot{Version: common.SnapshotVersionCommonEncoding, NodeId: w.node.IdForNetwork,
				Timestamp: w.t0 + w.unit/2, Transactions: hashes(vprStrs(c.O["txs"]))}
			return b.chain.cosiSendAnnouncement(&CosiAction{PeerId: w.node.IdForNetwork, Action: CosiActionSelfEmpty,
				Snapshot: s, data: &CosiChainData{FoundTxs: map[crypto.Hash]*common.VersionedTransaction{}}})
		default:
			return fmt.Errorf("unknown op %s", op)
		}
		return nil
	})
}

func TestVerifProposalCases(t *testing.T) {
	tr := vOpenTrace(t)
	defer tr.Close()
	var cases []vprCase
	vLoadCases(t, &cases)
	wasMocked := internal.MockRunAggregators()
	internal.ToggleMockRunAggregators(true)
	defer internal.ToggleMockRunAggregators(wasMocked)
	// several independent real nodes (own store each) share the work; every case is judged on its own
	workers := vEnvInt("VERIF_WORKERS", 4)
	var wg sync.WaitGroup
	for k := 0; k < workers; k++ {
		w := vprNewWorld(t)
		// drain whatever the set-up left in the cache queue
		if _, err := w.node.persistStore.CacheRetrieveTransactions(255); err != nil {
			t.Fatal(err)
		}
		wg.Add(1)
		go func(k int, w *vprWorld) {
			defer wg.Done()
			defer func() {
				w.node.cacheStore.Clear()
				w.node.persistStore.Close()
			}()
			for i := k; i < len(cases); i += workers {
				c := &cases[i]
				w.cleanCache()
				b := w.build(c)
				pre := w.project(b, c, false)
				o := vM{}
				for k, v := range c.O {
					o[k] = v
				}
				o["base"] = b.base
				res, detail := w.step(b, c)
				m := vM{"ev": "Case", "i": i, "pre": pre, "o": o, "res": res, "post": w.project(b, c, true)}
				if res != "ok" {
					m["detail"] = detail
				}
				tr.Emit(m)
			}
		}(k, w)
	}
	wg.Wait()
}
