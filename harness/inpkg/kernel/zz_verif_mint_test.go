package kernel

// Driver for the mint schedule and distribution (spec/Mint, property C25). It calls the real
// mintBatchSize / mintMultiBatchesSize / distributeKernelMintByWorks / buildUniversalMintTransaction
// (works are written through the real WriteRoundWork into a real BadgerStore behind a real Node with a
// generated n-node genesis) under recover and records amounts as base-10^4 limb arrays.
// The verdict is TLC's (spec/Mint/Trace_Mint.tla).

import (
	"encoding/json"
	"fmt"
	"math/big"
	"math/rand"
	"os"
	"strings"
	"testing"

	"github.com/MixinNetwork/mixin/common"
	"github.com/MixinNetwork/mixin/config"
	"github.com/MixinNetwork/mixin/crypto"
	"github.com/MixinNetwork/mixin/kernel/internal"
	"github.com/MixinNetwork/mixin/logger"
	"github.com/MixinNetwork/mixin/storage"
	"github.com/dgraph-io/ristretto/v2"
)

const vmtEpoch = 1551312000 // aligned to a day

func vmtBigLimbs(a *big.Int) []int {
	a = new(big.Int).Set(a)
	limbs := []int{}
	base, r := big.NewInt(10000), new(big.Int)
	for a.Sign() > 0 {
		a.DivMod(a, base, r)
		limbs = append(limbs, int(r.Int64()))
	}
	return limbs
}

// amount in 10^-8 units as limbs (Integer.String is "int.8digits")
func vmtLimbs(v common.Integer) []int {
	s := strings.Replace(v.String(), ".", "", 1)
	a, ok := new(big.Int).SetString(s, 10)
	if !ok {
		panic(s)
	}
	return vmtBigLimbs(a)
}

func vmtU64Limbs(u uint64) []int { return vmtBigLimbs(new(big.Int).SetUint64(u)) }

func vmtAddr(tag string, i int) common.Address {
	h := crypto.Blake3Hash([]byte(fmt.Sprintf("verif-mint-%s-%d", tag, i)))
	h2 := crypto.Blake3Hash(h[:])
	a := common.NewAddressFromSeed(append(h[:], h2[:]...))
	a.PrivateViewKey = a.PublicSpendKey.DeterministicHashDerive()
	a.PublicViewKey = a.PrivateViewKey.Public()
	return a
}

// store wrapper: work vectors that cannot be produced by a feasible number of WriteRoundWork calls
// (extreme outliers) are injected at the reader the distribution uses.
type vmtStore struct {
	storage.Store
	inject map[uint32]map[crypto.Hash][2]uint64
}

func (s *vmtStore) ListNodeWorks(cids []crypto.Hash, day uint32) (map[crypto.Hash][2]uint64, error) {
	if m, ok := s.inject[day]; ok {
		out := make(map[crypto.Hash][2]uint64)
		for _, id := range cids {
			out[id] = m[id]
		}
		return out, nil
	}
	return s.Store.ListNodeWorks(cids, day)
}

type vmtWorld struct {
	n      int
	tag    string // seed-derived label: every derived hash depends on it, never on the temp dir
	dir    string
	store  *storage.BadgerStore
	wrap   *vmtStore
	node   *Node
	cache  *ristretto.Cache[[]byte, any]
	rounds map[crypto.Hash]uint64
	seq    int
	custod common.Address
}

func vmtNewWorld(t *testing.T, n int, tag string) *vmtWorld {
	internal.ToggleMockRunAggregators(true)
	dir, err := os.MkdirTemp("", "verif-mint-")
	if err != nil {
		t.Fatal(err)
	}
	w := &vmtWorld{n: n, tag: tag, dir: dir, rounds: map[crypto.Hash]uint64{}}
	nodes := make([]map[string]string, 0)
	var first common.Address
	for i := 0; i < n; i++ {
		s, p, c := vmtAddr(tag+"S", i), vmtAddr(tag+"P", i), vmtAddr(tag+"C", i)
		if i == 0 {
			first = s
		}
		nodes = append(nodes, map[string]string{"signer": s.String(), "payee": p.String(), "custodian": c.String(), "balance": "13439"})
	}
	w.custod = vmtAddr(tag+"CUSTODIAN", 0)
	data, _ := json.Marshal(map[string]any{"epoch": vmtEpoch, "nodes": nodes, "custodian": w.custod.String()})
	var gns common.Genesis
	if err := json.Unmarshal(data, &gns); err != nil {
		t.Fatal(err)
	}
	conf := fmt.Sprintf("[node]\nsigner-key = \"%s\"\nconsensus-only = true\nmemory-cache-size = 16\ncache-ttl = 7200\n[network]\nlistener = \"127.0.0.1:7239\"\n", first.PrivateSpendKey.String())
	if err := os.WriteFile(dir+"/config.toml", []byte(conf), 0644); err != nil {
		t.Fatal(err)
	}
	custom, err := config.Initialize(dir + "/config.toml")
	if err != nil {
		t.Fatal(err)
	}
	cache, err := ristretto.NewCache(&ristretto.Config[[]byte, any]{NumCounters: 1e5, MaxCost: 1 << 26, BufferItems: 64})
	if err != nil {
		t.Fatal(err)
	}
	store, err := storage.NewBadgerStore(custom, dir)
	if err != nil {
		t.Fatal(err)
	}
	w.store, w.cache = store, cache
	w.wrap = &vmtStore{Store: store, inject: map[uint32]map[crypto.Hash][2]uint64{}}
	node, err := SetupNode(custom, w.wrap, cache, &gns)
	if err != nil {
		t.Fatalf("SetupNode: %v", err)
	}
	w.node = node
	return w
}

func (w *vmtWorld) close() {
	close(w.node.done)
	w.store.Close()
	w.cache.Close()
	os.RemoveAll(w.dir)
}

func (w *vmtWorld) writeWork(id crypto.Hash, snaps []*common.SnapshotWork) error {
	r := w.rounds[id]
	w.rounds[id] = r + 1
	return w.store.WriteRoundWork(id, r, snaps, true)
}

func (w *vmtWorld) snap(ts uint64, signers []crypto.Hash) *common.SnapshotWork {
	w.seq++
	return &common.SnapshotWork{Timestamp: ts, Hash: crypto.Blake3Hash([]byte(fmt.Sprintf("VMT%d-%d", w.n, w.seq))), Signers: signers}
}

// a work vector: lead counts per node and, per node, up to two groups of co-signers
type vmtVector struct {
	lead   []int
	groups [][2][]int // groups[i][g] = indexes of nodes signing the g-th half of node i's snapshots
	inject [][2]uint64
}

func vmtGenVector(r *rand.Rand, n int) *vmtVector {
	v := &vmtVector{lead: make([]int, n), groups: make([][2][]int, n)}
	kind := r.Intn(10)
	if kind == 0 { // extreme values that cannot be written snapshot by snapshot
		v.inject = make([][2]uint64, n)
		for i := range v.inject {
			switch r.Intn(6) {
			case 0:
				v.inject[i] = [2]uint64{0, 0}
			case 1:
				v.inject[i] = [2]uint64{r.Uint64() >> uint(r.Intn(40)), r.Uint64() >> uint(r.Intn(40))}
			case 2:
				v.inject[i] = [2]uint64{0, uint64(r.Intn(100000))}
			default:
				v.inject[i] = [2]uint64{uint64(r.Intn(5000) + 1), uint64(r.Intn(100000))}
			}
		}
		return v
	}
	if kind == 3 { // the clamp boundaries: most nodes alike, single nodes at 0, ~avg/7, ~avg/6, ~avg, ~7*avg
		v.inject = make([][2]uint64, n)
		x, y := uint64(r.Intn(5000)+700), uint64(r.Intn(50000)+700)
		for i := range v.inject {
			v.inject[i] = [2]uint64{x, y}
		}
		fr := [][2]uint64{{0, 0}, {x / 7, y / 7}, {x/7 + 1, y/7 + 1}, {x / 6, y / 6}, {x / 5, y / 5}, {x - 1, y}, {7 * x, 7 * y}, {7*x - 1, 7 * y}, {6 * x, 6 * y}, {40 * x, y}}
		for _, i := range r.Perm(n)[:3+r.Intn(2)] {
			v.inject[i] = fr[r.Intn(len(fr))]
		}
		v.inject[r.Intn(n)] = [2]uint64{0, 0}
		return v
	}
	if kind == 4 || kind == 5 { // one extreme outlier (>= 7x the trimmed average) together with a node between 2x and 7x
		t := uint64(r.Intn(25) + 5)
		big, mid := r.Intn(n), r.Intn(n)
		for mid == big {
			mid = r.Intn(n)
		}
		out, mm := uint64(20+r.Intn(30)), uint64(3+r.Intn(3))
		if kind == 4 { // injected, with sign counts
			v.inject = make([][2]uint64, n)
			y := uint64(r.Intn(400))
			for i := range v.inject {
				v.inject[i] = [2]uint64{t * 10, y}
			}
			v.inject[big] = [2]uint64{t * 10 * out, y * out}
			v.inject[mid] = [2]uint64{t * 10 * mm, y * mm}
			if r.Intn(2) == 0 {
				z := r.Intn(n)
				if z != big && z != mid {
					v.inject[z] = [2]uint64{0, 0}
				}
			}
			return v
		}
		for i := 0; i < n; i++ { // written through WriteRoundWork, nobody co-signs: work = 1.2 * lead
			v.lead[i] = int(t) + r.Intn(2)
		}
		v.lead[big], v.lead[mid] = int(t*out), int(t*mm)
		return v
	}
	typical := r.Intn(60) + 1
	idle := make([]bool, n)
	for i := 0; i < n; i++ {
		switch {
		case kind == 1 && r.Intn(3) > 0: // many nodes without any work (around the threshold)
			v.lead[i] = 0
			idle[i] = true
		case r.Intn(8) == 0:
			v.lead[i] = 0
		case r.Intn(12) == 0: // outlier, around and beyond 7x the typical work
			v.lead[i] = typical * (5 + r.Intn(60))
		case kind == 2: // ties
			v.lead[i] = typical
		default:
			v.lead[i] = typical/2 + r.Intn(typical+1)
		}
	}
	for i := 0; i < n; i++ {
		for g := 0; g < 2; g++ {
			p := []float64{0, 0.1, 0.67, 0.9, 1}[r.Intn(5)]
			for j := 0; j < n; j++ {
				if j != i && !idle[j] && r.Float64() < p {
					v.groups[i][g] = append(v.groups[i][g], j)
				}
			}
		}
	}
	return v
}

func TestVerifMint(t *testing.T) {
	tr := vOpenTrace(t)
	defer tr.Close()
	logger.SetLevel(0)
	r := rand.New(rand.NewSource(vSeed()*104729 + 25))

	// ---------------------------------------------------------------- schedule
	tr.Emit(vM{"ev": "init", "pool": vmtLimbs(MintPool), "days": MintYearDays})
	horizon := vEnvInt("VERIF_BATCHES", 2000)
	for b := 1; b <= horizon; b++ {
		var v common.Integer
		res, _ := vCall(func() error { v = mintBatchSize(uint64(b)); return nil })
		tr.Emit(vM{"ev": "batch", "b": b, "res": res, "v": vmtLimbs(v)})
	}
	multis := vEnvInt("VERIF_MULTIS", 150)
	last := vEnvInt("VERIF_LASTBATCH", 80000) // the batch amount is positive up to year 221
	for k := 0; k < multis; k++ {
		var old, b int
		switch r.Intn(6) {
		case 0:
			old = r.Intn(3000)
			b = old + 1 + r.Intn(3)
		case 1: // across a year boundary
			y := (r.Intn(200) + 1) * MintYearDays
			old = y - 1 - r.Intn(3)
			b = y + r.Intn(3)
		case 2:
			old = 1706
			b = 1707 + r.Intn(700)
		case 3:
			old = r.Intn(last - 800)
			b = old + 1 + r.Intn(800)
		case 4:
			old = r.Intn(2000)
			b = old - r.Intn(2) // refused: old >= batch
		default:
			old = r.Intn(last - 60)
			b = old + 1 + r.Intn(60)
		}
		var v common.Integer
		res, _ := vCall(func() error { v = mintMultiBatchesSize(uint64(old), uint64(b)); return nil })
		sizes := [][]int{}
		for i := old + 1; i <= b; i++ {
			sizes = append(sizes, vmtLimbs(mintBatchSize(uint64(i))))
		}
		tr.Emit(vM{"ev": "multi", "old": old, "b": b, "res": res, "v": vmtLimbs(v), "sizes": sizes})
	}

	// ---------------------------------------------------------------- distribution
	vectors := vEnvInt("VERIF_VECTORS", 100)
	sizes := []int{7, 8, 10, 16, 31, 50}
	if vTier() == "thorough" {
		sizes = sizes[:0]
		for n := 7; n <= 50; n++ {
			sizes = append(sizes, n)
		}
	}
	per := (vectors + len(sizes) - 1) / len(sizes)
	for _, n := range sizes {
		w := vmtNewWorld(t, n, fmt.Sprintf("%d-%d", vSeed(), n))
		node := w.node
		epochDay := node.Epoch / OneDay
		// every node's round-space checkpoint is far ahead: readiness then only depends on the works
		list := node.NodesListWithoutState(node.Epoch+OneDay*1800, true)
		ids := make([]crypto.Hash, len(list))
		for i, cn := range list {
			ids[i] = cn.IdForNetwork
			err := w.store.WriteRoundSpaceAndState(&common.RoundSpace{NodeId: cn.IdForNetwork, Batch: 1 << 40, Round: 0})
			if err != nil {
				t.Fatal(err)
			}
		}
		for k := 0; k < per; k++ {
			batch := uint64(KernelNetworkLegacyEnding + 1 + 2*k)
			day := epochDay + batch
			ts := day*OneDay + 8*3600*1000000000 + uint64(r.Intn(3600))*1000000000
			vec := vmtGenVector(r, len(ids))
			if vec.inject != nil {
				m, ready := map[crypto.Hash][2]uint64{}, map[crypto.Hash][2]uint64{}
				for i, id := range ids {
					m[id] = vec.inject[i]
					ready[id] = [2]uint64{1, 0}
				}
				w.wrap.inject[uint32(day)-1] = m
				w.wrap.inject[uint32(day)] = ready
			} else {
				for i, id := range ids {
					// the day before: the work that is rewarded
					if vec.lead[i] > 0 {
						snaps := make([]*common.SnapshotWork, 0, vec.lead[i])
						for s := 0; s < vec.lead[i]; s++ {
							signers := []crypto.Hash{id}
							for _, j := range vec.groups[i][s%2] {
								signers = append(signers, ids[j])
							}
							snaps = append(snaps, w.snap((day-1)*OneDay+3600*1000000000, signers))
						}
						if err := w.writeWork(id, snaps); err != nil {
							t.Fatalf("WriteRoundWork: %v", err)
						}
					}
				}
				for _, id := range ids {
					// the day itself: every node has aggregated some work
					err := w.writeWork(id, []*common.SnapshotWork{w.snap(day*OneDay+3600*1000000000, []crypto.Hash{id})})
					if err != nil {
						t.Fatalf("WriteRoundWork: %v", err)
					}
				}
			}
			accepted := node.NodesListWithoutState(ts, true)
			cids := make([]crypto.Hash, len(accepted))
			for i, cn := range accepted {
				cids[i] = cn.IdForNetwork
			}
			works, err := node.persistStore.ListNodeWorks(cids, uint32(day)-1)
			if err != nil {
				t.Fatal(err)
			}
			leads, signs := [][]int{}, [][]int{}
			for _, id := range cids {
				leads = append(leads, vmtU64Limbs(works[id][0]))
				signs = append(signs, vmtU64Limbs(works[id][1]))
			}
			thr := node.ConsensusThreshold(ts, false)

			var base common.Integer
			switch r.Intn(4) {
			case 0:
				base = common.NewIntegerFromString(fmt.Sprintf("%d.%08d", r.Intn(100000), r.Intn(100000000)))
			case 1:
				base = common.NewIntegerFromString(fmt.Sprintf("0.%08d", r.Intn(5000)+1))
			default:
				base = mintMultiBatchesSize(KernelNetworkLegacyEnding, batch).Div(10).Mul(5)
			}
			var mints []*CNodeWork
			res, _ := vCall(func() error {
				var err error
				mints, err = node.distributeKernelMintByWorks(accepted, base, ts)
				return err
			})
			outs := [][]int{}
			if res == "ok" {
				for _, m := range mints {
					outs = append(outs, vmtLimbs(m.Work))
				}
			}
			tr.Emit(vM{"ev": "dist", "n": len(cids), "thr": thr, "leads": leads, "signs": signs, "base": vmtLimbs(base), "res": res, "outs": outs})

			var ver *common.VersionedTransaction
			res, _ = vCall(func() error {
				ver = node.buildUniversalMintTransaction(&common.CustodianUpdateRequest{Custodian: &w.custod}, ts, false)
				return nil
			})
			outs = [][]int{}
			amount := []int{}
			if res == "ok" && ver == nil {
				res = "nil"
			}
			if res == "ok" {
				amount = vmtLimbs(ver.Inputs[0].Mint.Amount)
				for _, o := range ver.Outputs {
					outs = append(outs, vmtLimbs(o.Amount))
				}
			}
			tr.Emit(vM{"ev": "build", "n": len(cids), "thr": thr, "batch": int(batch), "leads": leads, "signs": signs, "res": res, "amount": amount, "outs": outs})
		}
		w.close()
	}
}
