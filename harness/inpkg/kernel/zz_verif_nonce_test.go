package kernel

// Kernel layer of property C12 (spec/Cosi/KNonce.tla, MC_KNonce.tla, Trace_KNonce.tla):
// the snapshot -> nonce retention of Chain.cosiRetrieveRandom / retainUsedCosiNonce followed by
// CosiNonce.Response, replayed from TLC-generated behaviours on a real kernel.Chain value.
// The harness only drives and records; TLC judges.

import (
	"errors"
	"fmt"
	"math/rand"
	"sort"
	"testing"

	"github.com/MixinNetwork/mixin/crypto"
)

type vknOp struct {
	S string `json:"s"`
	R string `json:"r"`
	V string `json:"v"`
}

type vknCases struct {
	Walks [][]vknOp `json:"walks"`
}

type vknReader struct{ r *rand.Rand }

func (v vknReader) Read(b []byte) (int, error) { return v.r.Read(b) }

func vknKey(r *rand.Rand) crypto.Key {
	seed := make([]byte, 64)
	r.Read(seed)
	return crypto.NewKeyFromSeed(seed)
}

func TestVerifKNonce(t *testing.T) {
	tr := vOpenTrace(t)
	defer tr.Close()
	var cases vknCases
	vLoadCases(t, &cases)
	r := rand.New(rand.NewSource(vSeed()*31 + 7))
	snaps := []string{"s1", "s2", "s3"}
	commits := []string{"r1", "r2", "r3"}
	for wi, walk := range cases.Walks {
		tr.Emit(vM{"ev": "KReset", "k": wi})
		self := crypto.Blake3Hash([]byte(fmt.Sprintf("self-%d-%d", vSeed(), wi)))
		peer := crypto.Blake3Hash([]byte(fmt.Sprintf("peer-%d-%d", vSeed(), wi)))
		chain := &Chain{
			node:        &Node{IdForNetwork: self},
			ChainId:     peer,
			CosiRandoms: make(map[crypto.Key]*crypto.CosiNonce),
			UsedRandoms: make(map[crypto.Hash]*crypto.CosiNonce),
		}
		priv := vknKey(r)
		pub := priv.Public()
		// the proposer's public key per challenge variant: variants of one snapshot differ ONLY in the
		// key vector (same commitments, mask and message), hence in the aggregate key and the challenge
		leaderOf := map[string]crypto.Key{}
		commitOf := map[string]crypto.Key{}
		nameOf := map[crypto.Key]string{}
		for _, c := range commits {
			n := crypto.CosiCommitNonce(vknReader{r})
			chain.CosiRandoms[n.Public()] = n
			commitOf[c] = n.Public()
			nameOf[n.Public()] = c
		}
		snapOf := map[string]crypto.Hash{}
		for _, s := range snaps {
			snapOf[s] = crypto.Blake3Hash([]byte(fmt.Sprintf("snap-%d-%d-%s", vSeed(), wi, s)))
		}
		// the proposer's own commitment per snapshot
		leaderCommit := map[string]crypto.Key{}
		resps := map[[32]byte]int{}
		for _, o := range walk {
			lk := o.S
			if _, ok := leaderCommit[lk]; !ok {
				leaderCommit[lk] = vknKey(r).Public()
			}
			if _, ok := leaderOf[o.V]; !ok {
				leaderOf[o.V] = vknKey(r).Public()
			}
			leader := leaderOf[o.V]
			publics := []*crypto.Key{&leader, &pub}
			commitment := commitOf[o.R]
			ev := vM{"ev": "KOp", "s": o.S, "r": o.R, "v": o.V, "got": "none", "res": "none",
				"reuse": false, "resp": 0, "valid": false}
			var nonce *crypto.CosiNonce
			res, _ := vCall(func() error {
				nonce = chain.cosiRetrieveRandom(snapOf[o.S], peer, &commitment)
				return nil
			})
			if res == "panic" {
				ev["res"] = "panic"
			} else if nonce != nil {
				name, ok := nameOf[nonce.Public()]
				if !ok {
					name = "unknown"
				}
				ev["got"] = name
				lc := leaderCommit[lk]
				own := nonce.Public()
				sig, err := crypto.CosiAggregateCommitment(map[int]*crypto.Key{0: &lc, 1: &own})
				if err != nil {
					t.Fatalf("commitment: %v", err)
				}
				var resp *[32]byte
				res, _ := vCall(func() error {
					resp, err = nonce.Response(sig, &priv, publics, snapOf[o.S])
					return err
				})
				ev["res"] = res
				if res == "err" {
					ev["reuse"] = errors.Is(err, crypto.ErrCosiNonceReuse)
				}
				if res == "ok" && resp != nil {
					if _, ok := resps[*resp]; !ok {
						resps[*resp] = len(resps) + 1
					}
					ev["resp"] = resps[*resp]
					ev["valid"] = sig.VerifyResponse(publics, 1, resp, snapOf[o.S]) == nil
				}
			}
			// projection of the chain's maps
			pool := []string{}
			for k := range chain.CosiRandoms {
				if n, ok := nameOf[k]; ok {
					pool = append(pool, n)
				}
			}
			sort.Strings(pool)
			used := vM{}
			for _, s := range snaps {
				used[s] = "none"
				if n := chain.UsedRandoms[snapOf[s]]; n != nil {
					if name, ok := nameOf[n.Public()]; ok {
						used[s] = name
					} else {
						used[s] = "unknown"
					}
				}
			}
			ev["obs"] = vM{"pool": pool, "used": used}
			tr.Emit(ev)
		}
	}
}
