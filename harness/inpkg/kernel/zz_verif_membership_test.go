// Verification harness for the membership / consensus-view properties C10, C29, C11
// (spec/Membership). It only drives the real code and records what it observed; TLC judges the
// recorded trace against spec/Membership/Trace_Membership.tla.
//
// A "world" is a generated genesis with known keys, one or two independently constructed
// kernel.Node objects (each over its own real BadgerStore, built by the real SetupNode) and a
// pool of extra signer keys. Membership records are appended the way the ledger gets them:
// a minimal transaction carrying the output type and the 64-byte extra signer||payee is written
// with store.WriteTransaction + store.WriteSnapshot (so storage's writeNode* run), then
// node.LoadConsensusNodes() as the node does after every membership operation.
//
// Abstract node numbers: all keys of a world (genesis and extra) are ranked by the hex string of
// their network id - the tie-break the code uses - and the rank (1-based) is the node number
// used in the trace. Abstract time: 1 tick = 10 s, real = Epoch + 10 s * tick.
package kernel

import (
	"encoding/json"
	"fmt"
	"os"
	"sort"
	"strings"
	"sync"
	"testing"
	"time"

	"github.com/MixinNetwork/mixin/common"
	"github.com/MixinNetwork/mixin/config"
	"github.com/MixinNetwork/mixin/crypto"
	"github.com/MixinNetwork/mixin/kernel/internal"
	"github.com/MixinNetwork/mixin/kernel/internal/clock"
	"github.com/MixinNetwork/mixin/storage"
	"github.com/dgraph-io/ristretto/v2"
)

const (
	vmbTick  = uint64(10 * time.Second)
	vmbEpoch = int64(1577836800) // 2020-01-01T00:00:00Z, far enough in the past for 1500 model days
)

type vmbStep struct {
	Op    string `json:"op"`
	Node  string `json:"node,omitempty"` // "g<k>" k-th genesis node, "x<k>" k-th extra key (1-based, in id order)
	Ts    uint64 `json:"ts,omitempty"`   // tick of an appended record
	St    string `json:"st,omitempty"`   // PLEDGING | ACCEPTED | CANCELLED | REMOVED
	T     uint64 `json:"t,omitempty"`    // query tick
	Kind  string `json:"kind,omitempty"` // C10: ordinary | pledging-round0
	Tag   string `json:"tag,omitempty"`  // free label copied to the trace
	Cold  bool   `json:"cold,omitempty"` // C11: answer from a fresh store object opened on the same directory
	Order int    `json:"order,omitempty"`
}

type vmbWorldCase struct {
	Id    string `json:"id"`
	G     int    `json:"g"`     // genesis nodes
	X     int    `json:"x"`     // extra signer keys
	Nodes int    `json:"nodes"` // independently constructed Node objects (1 or 2)
	// duration of one abstract tick in ns; 0 = 10 s. With 1, adjacent ticks are adjacent
	// nanoseconds (only meaningful while every age in the world stays <= 3 ticks: C11 walks)
	TickNs uint64 `json:"tickns,omitempty"`
	// seconds added to the genesis epoch (0 = a UTC midnight): the hours of the code are counted
	// from the epoch, not from UTC midnight
	EpochOff int64     `json:"epochoff,omitempty"`
	Steps    []vmbStep `json:"steps"`
}

type vmbCases struct {
	Worlds []vmbWorldCase `json:"worlds"`
}

type vmbMember struct {
	signer  common.Address
	payee   common.Address
	id      crypto.Hash
	rank    int
	genesis bool
	lastTx  crypto.Hash // transaction of the node's latest record (the output a follow-up spends)
}

type vmbReplica struct {
	dir    string
	custom *config.Custom
	store  storage.Store
	node   *Node
	cache  *ristretto.Cache[[]byte, any]
	topo   uint64
}

type vmbWorld struct {
	t          *testing.T
	gns        *common.Genesis
	network    crypto.Hash
	members    []*vmbMember // index = rank-1
	gen        []*vmbMember // genesis members in id order
	extra      []*vmbMember // extra members in id order
	byId       map[crypto.Hash]*vmbMember
	carrier    crypto.Hash
	replicas   []*vmbReplica
	custodians map[string]int // custodian address -> update number (0 = genesis)
	tick       uint64         // ns per abstract tick
	epoch      int64          // genesis epoch, unix seconds
}

// vmbHarnessError is a failure of the harness itself (never a verdict): it aborts the run (exit 2).
type vmbHarnessError struct{ msg string }

func vmbFail(format string, a ...any) {
	panic(&vmbHarnessError{fmt.Sprintf(format, a...)})
}

func vmbSignerAddress(label string) common.Address {
	seed := crypto.Blake3Hash([]byte(label))
	spend := crypto.NewKeyFromSeed(append(seed[:], seed[:]...))
	var a common.Address
	a.PrivateSpendKey = spend
	a.PublicSpendKey = spend.Public()
	a.PrivateViewKey = a.PublicSpendKey.DeterministicHashDerive()
	a.PublicViewKey = a.PrivateViewKey.Public()
	return a
}

func vmbNewWorld(t *testing.T, wc *vmbWorldCase, salt string) *vmbWorld {
	w := &vmbWorld{t: t, byId: make(map[crypto.Hash]*vmbMember), custodians: make(map[string]int), tick: vmbTick, epoch: vmbEpoch + wc.EpochOff}
	if wc.TickNs > 0 {
		w.tick = wc.TickNs
	}
	var sb strings.Builder
	cust := vmbSignerAddress(salt + "/custodian")
	fmt.Fprintf(&sb, `{"epoch":%d,"custodian":%q,"nodes":[`, w.epoch, cust.String())
	var all []*vmbMember
	for i := 0; i < wc.G; i++ {
		m := &vmbMember{
			signer:  vmbSignerAddress(fmt.Sprintf("%s/gs/%d", salt, i)),
			payee:   vmbSignerAddress(fmt.Sprintf("%s/gp/%d", salt, i)),
			genesis: true,
		}
		nc := vmbSignerAddress(fmt.Sprintf("%s/gc/%d", salt, i))
		if i > 0 {
			sb.WriteString(",")
		}
		fmt.Fprintf(&sb, `{"signer":%q,"payee":%q,"custodian":%q,"balance":"13439"}`,
			m.signer.String(), m.payee.String(), nc.String())
		all = append(all, m)
	}
	sb.WriteString("]}")
	var gns common.Genesis
	if err := json.Unmarshal([]byte(sb.String()), &gns); err != nil {
		vmbFail("genesis: %v", err)
	}
	w.gns = &gns
	w.custodians[cust.String()] = 0
	w.network = gns.NetworkId()
	for i := 0; i < wc.X; i++ {
		all = append(all, &vmbMember{
			signer: vmbSignerAddress(fmt.Sprintf("%s/xs/%d", salt, i)),
			payee:  vmbSignerAddress(fmt.Sprintf("%s/xp/%d", salt, i)),
		})
	}
	for _, m := range all {
		m.id = m.signer.Hash().ForNetwork(w.network)
		w.byId[m.id] = m
	}
	sort.Slice(all, func(i, j int) bool { return all[i].id.String() < all[j].id.String() })
	for i, m := range all {
		m.rank = i + 1
		if m.genesis {
			w.gen = append(w.gen, m)
		} else {
			w.extra = append(w.extra, m)
		}
	}
	w.members = all
	w.carrier = gns.Nodes[0].Signer.Hash().ForNetwork(w.network)

	// the genesis accept transactions (inputs of later removals)
	_, _, txs, err := gns.BuildSnapshots()
	if err != nil {
		vmbFail("genesis snapshots: %v", err)
	}
	for i, in := range gns.Nodes {
		w.byId[in.Signer.Hash().ForNetwork(w.network)].lastTx = txs[i].PayloadHash()
	}

	n := wc.Nodes
	if n < 1 {
		n = 1
	}
	for r := 0; r < n; r++ {
		w.replicas = append(w.replicas, w.openReplica(r, ""))
	}
	return w
}

// openReplica builds a Node with the real SetupNode over a real BadgerStore. Replica r signs as
// genesis node r (so two replicas are different nodes of the same network).
func (w *vmbWorld) openReplica(r int, dir string) *vmbReplica {
	rp := &vmbReplica{dir: dir}
	if dir == "" {
		d, err := os.MkdirTemp("", "vmb-store-")
		if err != nil {
			vmbFail("tempdir: %v", err)
		}
		rp.dir = d
	}
	custom := &config.Custom{}
	custom.Node.Signer = w.gen[r%len(w.gen)].signer.PrivateSpendKey
	custom.Node.KernelOprationPeriod = 700
	custom.Node.MemoryCacheSize = 16
	custom.Node.CacheTTL = 7200
	rp.custom = custom
	cache, err := ristretto.NewCache(&ristretto.Config[[]byte, any]{NumCounters: 1e4, MaxCost: 1 << 24, BufferItems: 64})
	if err != nil {
		vmbFail("cache: %v", err)
	}
	rp.cache = cache
	store, err := storage.NewBadgerStore(custom, rp.dir)
	if err != nil {
		vmbFail("store: %v", err)
	}
	rp.store = store
	node, err := SetupNode(custom, store, cache, w.gns)
	if err != nil {
		vmbFail("SetupNode: %v", err)
	}
	rp.node = node
	rp.topo = node.TopoCounter.seq + 1
	return rp
}

func (rp *vmbReplica) close(remove bool) {
	func() {
		defer func() { recover() }()
		close(rp.node.done) // stops the node's TopoStats goroutine
	}()
	rp.cache.Close()
	rp.store.Close()
	if remove {
		os.RemoveAll(rp.dir)
	}
}

func (w *vmbWorld) close() {
	for _, rp := range w.replicas {
		rp.close(true)
	}
}

func (w *vmbWorld) member(name string) *vmbMember {
	var k int
	if _, err := fmt.Sscanf(name[1:], "%d", &k); err != nil || k < 1 {
		vmbFail("bad node name %q", name)
	}
	switch name[0] {
	case 'g':
		return w.gen[k-1]
	case 'x':
		return w.extra[k-1]
	}
	vmbFail("bad node name %q", name)
	return nil
}

func (w *vmbWorld) real(tick uint64) uint64 {
	return uint64(time.Unix(w.epoch, 0).UnixNano()) + tick*w.tick
}

func (w *vmbWorld) genesisRanks() []int {
	out := make([]int, len(w.gen))
	for i, m := range w.gen {
		out[i] = m.rank
	}
	return out
}

// membershipTx builds the minimal transaction whose finalization makes storage write the record.
func (w *vmbWorld) membershipTx(m *vmbMember, st string, tick uint64) (*common.VersionedTransaction, bool) {
	tx := common.NewTransactionV5(common.XINAssetId)
	extra := append(m.signer.PublicSpendKey[:], m.payee.PublicSpendKey[:]...)
	amount := common.NewInteger(1)
	spend := false
	switch st {
	case common.NodeStatePledging:
		// funded from a genesis-typed input: storage does not look at the inputs of a pledge
		tx.Inputs = []*common.Input{{Genesis: w.network[:]}}
		tx.AddOutputWithType(common.OutputTypeNodePledge, nil, common.Script{}, amount, []byte{})
	case common.NodeStateAccepted:
		tx.AddInput(m.lastTx, 0)
		tx.AddOutputWithType(common.OutputTypeNodeAccept, nil, common.Script{}, amount, []byte{})
		spend = true
	case common.NodeStateCancelled:
		tx.AddInput(m.lastTx, 0)
		si := crypto.Blake3Hash([]byte(fmt.Sprintf("vmb-cancel-%s-%d", m.id, tick)))
		tx.AddOutputWithType(common.OutputTypeNodeCancel, []*common.Address{&m.payee}, common.NewThresholdScript(1), amount, append(si[:], si[:]...))
		spend = true
	case common.NodeStateRemoved:
		tx.AddInput(m.lastTx, 0)
		si := crypto.Blake3Hash([]byte(fmt.Sprintf("vmb-remove-%s-%d", m.id, tick)))
		tx.AddOutputWithType(common.OutputTypeNodeRemove, []*common.Address{&m.payee}, common.NewThresholdScript(1), amount, append(si[:], si[:]...))
		spend = true
	default:
		vmbFail("bad state %q", st)
	}
	tx.Extra = extra
	if spend && len(w.replicas) > 0 {
		// as the real builders do: reference the last consensus operation (needed by SetupNode's
		// reloadConsensusState when this is the last snapshot before a restart)
		if last, err := w.replicas[0].store.ReadLastConsensusSnapshot(); err == nil && last != nil {
			tx.References = last.Transactions
		}
	}
	return tx.AsVersioned(), spend
}

// appendRecord writes one membership record into every replica and reloads the consensus nodes.
func (w *vmbWorld) appendRecord(m *vmbMember, st string, tick uint64) (string, string) {
	ver, spend := w.membershipTx(m, st, tick)
	res, detail := "ok", ""
	for _, rp := range w.replicas {
		r, d := vCall(func() error {
			head, err := rp.store.ReadRound(w.carrier)
			if err != nil {
				return err
			}
			if spend {
				if err := rp.store.LockUTXOs(ver.Inputs, ver.PayloadHash(), false); err != nil {
					return err
				}
			}
			if err := rp.store.WriteTransaction(ver); err != nil {
				return err
			}
			s := &common.Snapshot{
				Version:     common.SnapshotVersionCommonEncoding,
				NodeId:      w.carrier,
				RoundNumber: head.Number,
				References:  head.References,
				Timestamp:   w.real(tick),
			}
			s.AddTransaction(ver.PayloadHash())
			s.Hash = s.PayloadHash()
			topo := &common.SnapshotWithTopologicalOrder{Snapshot: s, TopologicalOrder: rp.topo}
			if err := rp.store.WriteSnapshot(topo, nil); err != nil {
				return err
			}
			rp.topo++
			return rp.node.LoadConsensusNodes()
		})
		if r != "ok" {
			res, detail = r, d
		}
	}
	if res == "ok" {
		m.lastTx = ver.PayloadHash()
	}
	return res, detail
}

func (w *vmbWorld) rankOf(id crypto.Hash) int {
	if m := w.byId[id]; m != nil {
		return m.rank
	}
	return -1
}

func (w *vmbWorld) ranks(ids []crypto.Hash) []int {
	out := make([]int, len(ids))
	for i, id := range ids {
		out[i] = w.rankOf(id)
	}
	return out
}

// observedHistory projects node.allNodesSortedWithState (what LoadConsensusNodes produced).
func (w *vmbWorld) observedHistory(node *Node) []vM {
	out := make([]vM, 0, len(node.allNodesSortedWithState))
	e := uint64(time.Unix(w.epoch, 0).UnixNano())
	for _, cn := range node.allNodesSortedWithState {
		out = append(out, vM{"n": w.rankOf(cn.IdForNetwork), "ts": int64(cn.Timestamp-e) / int64(w.tick), "st": cn.State})
	}
	return out
}

// ---------------------------------------------------------------- certificates
// vmbSign builds a real CoSi certificate over a snapshot of (chainId, round, ts) signed by the
// keys at the given positions of the key vector publics; privs[i] is the private key of publics[i].
func vmbSign(chainId crypto.Hash, round, ts uint64, label string, publics []*crypto.Key, privs []*crypto.Key, positions []int) (*common.Snapshot, error) {
	s := &common.Snapshot{
		Version:      common.SnapshotVersionCommonEncoding,
		NodeId:       chainId,
		RoundNumber:  round,
		Timestamp:    ts,
		Transactions: []crypto.Hash{crypto.Blake3Hash([]byte(label))},
	}
	s.Hash = s.PayloadHash()
	nonces := make(map[int]*crypto.CosiNonce)
	commitments := make(map[int]*crypto.Key)
	for _, i := range positions {
		nonce := crypto.CosiCommitNonce(crypto.RandReader())
		c := nonce.Public()
		nonces[i], commitments[i] = nonce, &c
	}
	sig, err := crypto.CosiAggregateCommitment(commitments)
	if err != nil {
		return nil, err
	}
	responses := make(map[int]*[32]byte)
	for _, i := range positions {
		r, err := nonces[i].Response(sig, privs[i], publics, s.Hash)
		if err != nil {
			return nil, err
		}
		responses[i] = r
	}
	if err := sig.AggregateResponse(publics, responses, s.Hash, true); err != nil {
		return nil, err
	}
	s.Signature = sig
	return s, nil
}

// certifyAll signs a snapshot of the chain with EVERY key of ConsensusKeys(round, ts) and passes it
// through the real verifyFinalization: "final" is what the node would do with such a certificate.
func (w *vmbWorld) certifyAll(chain *Chain, round, ts uint64, label string) (string, bool) {
	final := false
	res, _ := vCall(func() error {
		ids, publics := chain.ConsensusKeys(round, ts)
		if len(ids) == 0 {
			return fmt.Errorf("no keys")
		}
		privs := make([]*crypto.Key, len(ids))
		pos := make([]int, len(ids))
		for i, id := range ids {
			m := w.byId[id]
			if m == nil {
				return fmt.Errorf("unknown key")
			}
			k := m.signer.PrivateSpendKey
			privs[i], pos[i] = &k, i
		}
		s, err := vmbSign(chain.ChainId, round, ts, label, publics, privs, pos)
		if err != nil {
			return err
		}
		_, final = chain.verifyFinalization(s)
		return nil
	})
	return res, final
}

// certifyTwoThresholds: where the non-final threshold (the aggregator's check in
// cosiHandleResponse) differs from the final one, a certificate signed by the first m keys,
// m = the smaller of the two, is verified on ONE node object under both thresholds, in both orders:
//
//	A: cacheVerifyCosi(non-final threshold) first, then verifyFinalization    -> finalA
//	B: (another certificate, same signers) verifyFinalization first           -> finalB, then
//	   cacheVerifyCosi(non-final threshold)                                   -> nfB
//
// The final verdict may depend only on the certificate, the key set and the final threshold.
func (w *vmbWorld) certifyTwoThresholds(chain *Chain, round, ts uint64, thrF int, label string) vM {
	node := chain.node
	var out vM
	vCall(func() error {
		thrN := node.ConsensusThreshold(ts, false)
		ids, publics := chain.ConsensusKeys(round, ts)
		m := thrN
		if thrF < m {
			m = thrF
		}
		if thrN == thrF || m > len(ids) || m < 1 {
			return nil
		}
		privs := make([]*crypto.Key, len(ids))
		for i, id := range ids {
			mb := w.byId[id]
			if mb == nil {
				return fmt.Errorf("unknown key")
			}
			k := mb.signer.PrivateSpendKey
			privs[i] = &k
		}
		pos := make([]int, m)
		for i := range pos {
			pos[i] = i
		}
		sa, err := vmbSign(chain.ChainId, round, ts, label+"/A", publics, privs, pos)
		if err != nil {
			return err
		}
		sb, err := vmbSign(chain.ChainId, round, ts, label+"/B", publics, privs, pos)
		if err != nil {
			return err
		}
		_, nfA := node.cacheVerifyCosi(sa.Hash, sa.Signature, ids, publics, thrN)
		_, finalA := chain.verifyFinalization(sa)
		_, finalB := chain.verifyFinalization(sb)
		_, nfB := node.cacheVerifyCosi(sb.Hash, sb.Signature, ids, publics, thrN)
		out = vM{"m": m, "thrN": thrN, "nfA": nfA, "finalA": finalA, "finalB": finalB, "nfB": nfB}
		return nil
	})
	return out
}

// ---------------------------------------------------------------- C10
func (w *vmbWorld) queryC10(st vmbStep) vM {
	node := w.replicas[0].node
	ts := w.real(st.T)
	ev := vM{"ev": "C10", "t": st.T, "kind": st.Kind, "tag": st.Tag, "chain": 0}
	var thr int
	var keys []int
	res, detail := vCall(func() error {
		thr = node.ConsensusThreshold(ts, true)
		var chain *Chain
		round := uint64(1)
		switch st.Kind {
		case "ordinary":
			chain = node.getOrCreateChain(w.carrier)
			if chain == nil || chain.State == nil {
				return fmt.Errorf("carrier chain has no state")
			}
			ev["chain"] = w.rankOf(w.carrier)
		case "pledging-round0":
			m := w.member(st.Node)
			chain = node.getOrCreateChain(m.id)
			if chain == nil {
				return fmt.Errorf("no chain for %s", st.Node)
			}
			round = 0
			ev["chain"] = m.rank
			ev["ispledging"] = chain.IsPledging()
		default:
			return fmt.Errorf("bad kind %q", st.Kind)
		}
		ids, _ := chain.ConsensusKeys(round, ts)
		keys = w.ranks(ids)
		cres, final := w.certifyAll(chain, round, ts, fmt.Sprintf("vmb-cert/%d/%s", st.T, st.Kind))
		ev["certres"], ev["final"] = cres, final
		if two := w.certifyTwoThresholds(chain, round, ts, thr, fmt.Sprintf("vmb-cert2/%d/%s", st.T, st.Kind)); two != nil {
			ev["two"] = two
		}
		return nil
	})
	ev["res"] = res
	if res != "ok" {
		ev["detail"] = detail
		thr, keys = 0, nil
	}
	if keys == nil {
		keys = []int{}
	}
	ev["thr"] = thr
	ev["keys"] = keys
	return ev
}

// ---------------------------------------------------------------- C29
var vmbElectOps = []byte{
	common.TransactionTypeMint, common.TransactionTypeNodePledge, common.TransactionTypeNodeRemove,
	common.TransactionTypeCustodianUpdateNodes, common.TransactionTypeCustodianSlashNodes,
	common.TransactionTypeNodeAccept, // not an elected operation: the code answers the zero id
}

func (w *vmbWorld) rankOrZero(id crypto.Hash) int {
	if !id.HasValue() {
		return 0
	}
	return w.rankOf(id)
}

// electAll asks one Node object for the elected operator of every operation at ts.
func (w *vmbWorld) electAll(node *Node, ts uint64) (string, []int) {
	out := make([]int, len(vmbElectOps))
	res, _ := vCall(func() error {
		for i, op := range vmbElectOps {
			out[i] = w.rankOrZero(node.electSnapshotNode(op, ts))
		}
		return nil
	})
	if res != "ok" {
		out = []int{}
	}
	return res, out
}

func (w *vmbWorld) removeCheck(node *Node, self crypto.Hash, ts uint64) vM {
	cand := 0
	res, _ := vCall(func() error {
		cn, err := node.checkRemovePossibility(self, ts, nil)
		if err != nil {
			return err
		}
		cand = w.rankOf(cn.IdForNetwork)
		return nil
	})
	return vM{"res": res, "cand": cand, "self": w.rankOrZero(self)}
}

// queryElect: the election and the removal candidate on every replica (independently built nodes).
func (w *vmbWorld) queryElect(st vmbStep) vM {
	ts := w.real(st.T)
	ev := vM{"ev": "Elect", "t": st.T}
	var ress []string
	var elects [][]int
	var rms []vM
	for _, rp := range w.replicas {
		res, el := w.electAll(rp.node, ts)
		ress = append(ress, res)
		elects = append(elects, el)
		self := crypto.Hash{}
		if res == "ok" {
			self = w.members[el[2]-1].id // the node elected for the removal
		}
		rms = append(rms, w.removeCheck(rp.node, self, ts))
	}
	ev["res"] = ress
	ev["elect"] = elects
	ev["rm"] = rms
	ev["rm0"] = w.removeCheck(w.replicas[0].node, crypto.Hash{}, ts)
	acc := w.replicas[0].node.NodesListWithoutState(ts, true)
	ev["n"] = len(acc)
	return ev
}

func (w *vmbWorld) queryHours(st vmbStep) vM {
	node := w.replicas[0].node
	ts := w.real(st.T)
	return vM{"ev": "Hours", "t": st.T, "accept": node.checkConsensusAcceptHour(ts), "pledge": node.checkConsensusPledgeHour(ts)}
}

// queryValid runs the snapshot-level validators of the four membership operations at tick t with
// well-formed operations of the right proposer, so that the answer depends on membership and time
// only. Results are ok / err / panic / na (no such operation possible to build).
func (w *vmbWorld) queryValid(st vmbStep, seq int) vM {
	rp := w.replicas[0]
	node := rp.node
	ts := w.real(st.T)
	ev := vM{"ev": "Valid", "t": st.T}
	res, el := w.electAll(node, ts)
	ev["electres"] = res
	byPledge, byRemove := crypto.Hash{}, crypto.Hash{}
	if res == "ok" {
		byPledge, byRemove = w.members[el[1]-1].id, w.members[el[2]-1].id
	}
	ev["by_pledge"], ev["by_remove"] = w.rankOrZero(byPledge), w.rankOrZero(byRemove)

	// pledge of a brand-new signer by the elected node
	fresh := &vmbMember{
		signer: vmbSignerAddress(fmt.Sprintf("vmb-fresh-s/%d/%d", st.T, seq)),
		payee:  vmbSignerAddress(fmt.Sprintf("vmb-fresh-p/%d/%d", st.T, seq)),
	}
	ptx := common.NewTransactionV5(common.XINAssetId)
	ptx.AddInput(crypto.Blake3Hash([]byte(fmt.Sprintf("vmb-fresh-in/%d/%d", st.T, seq))), 0)
	ptx.AddOutputWithType(common.OutputTypeNodePledge, nil, common.Script{}, common.KernelNodePledgeAmount, []byte{})
	ptx.Extra = append(fresh.signer.PublicSpendKey[:], fresh.payee.PublicSpendKey[:]...)
	det := vM{}
	r, dt := vCall(func() error {
		return node.validateNodePledgeSnapshot(&common.Snapshot{NodeId: byPledge, Timestamp: ts}, ptx.AsVersioned(), true)
	})
	ev["pledge"] = r
	det["pledge"] = dt

	// removal of the candidate by the elected node, with the canonical removal transaction
	removed := 0
	r, dt = vCall(func() error {
		tx, err := node.buildNodeRemoveTransaction(byRemove, ts, nil)
		if err != nil {
			return err
		}
		signer := tx.NodeTransactionExtraAsSigner()
		removed = w.rankOf(signer.Hash().ForNetwork(w.network))
		return node.validateNodeRemoveSnapshot(&common.Snapshot{NodeId: byRemove, Timestamp: ts}, tx, false)
	})
	ev["remove"] = r
	ev["removed"] = removed
	det["remove"] = dt
	ev["detail"] = det

	// cancel / accept of the pledging node (if any)
	ev["cancel"], ev["accept"], ev["pledging"] = "na", "na", 0
	var pn *CNode
	vCall(func() error { pn = node.PledgingNode(ts); return nil })
	if pn != nil {
		m := w.byId[pn.IdForNetwork]
		ev["pledging"] = m.rank
		ctx, _ := w.membershipTx(m, common.NodeStateCancelled, st.T)
		r, dt = vCall(func() error {
			return node.validateNodeCancelSnapshot(&common.Snapshot{NodeId: byRemove, Timestamp: ts}, ctx, true)
		})
		ev["cancel"] = r
		det["cancel"] = dt
		r, dt = vCall(func() error {
			chain := node.getOrCreateChain(pn.IdForNetwork)
			if chain == nil {
				return fmt.Errorf("no chain")
			}
			return chain.checkNodeAcceptPossibility(ts, true)
		})
		ev["accept"] = r
		det["accept"] = dt
	}
	return ev
}

// The kernel's clock mock is process-global. Ordinary steps of all worlds share vmbClockMu for
// reading; a step that moves the clock holds it exclusively and resets the clock before releasing.
var vmbClockMu sync.RWMutex

var vmbValidationOffsetsHours = []int{0, 4, 8, 12, 17} // covers both window classes for every snapshot hour

// acceptMatrix validates the accept of the pledging node at snapshot tick t on every replica while
// the local clock (clock.MockDiff) stands at t + off hours, for finalized false and true. The
// answer must depend on the snapshot timestamp only.
func (w *vmbWorld) acceptMatrix(st vmbStep) []vM {
	ts := w.real(st.T)
	out := []vM{}
	var pn *CNode
	vCall(func() error { pn = w.replicas[0].node.PledgingNode(ts); return nil })
	if pn == nil {
		return out
	}
	defer clock.Reset()
	for _, fin := range []bool{false, true} {
		for _, off := range vmbValidationOffsetsHours {
			clock.Reset()
			target := ts + uint64(off)*uint64(time.Hour) + uint64(5*time.Second)
			clock.MockDiff(time.Duration(int64(target) - time.Now().UnixNano()))
			ress := []string{}
			for _, rp := range w.replicas {
				r, _ := vCall(func() error {
					chain := rp.node.getOrCreateChain(pn.IdForNetwork)
					if chain == nil {
						return fmt.Errorf("no chain")
					}
					return chain.checkNodeAcceptPossibility(ts, fin)
				})
				ress = append(ress, r)
			}
			out = append(out, vM{"off": off, "fin": fin, "res": ress})
		}
	}
	return out
}

// ---------------------------------------------------------------- C11
// appendCustodian writes custodian update number k (>= 1) at the tick: a transaction with a
// CustodianUpdateNodes output whose extra is a fully signed update (new custodian address, seven
// node entries with real signatures, sorted), finalized through WriteSnapshot.
func (w *vmbWorld) appendCustodian(k int, tick uint64) (string, string) {
	cust := vmbSignerAddress(fmt.Sprintf("vmb-cust/%s/%d", w.network, k))
	extra := append(cust.PublicSpendKey[:], cust.PublicViewKey[:]...)
	type ent struct {
		key crypto.Key
		b   []byte
	}
	var ents []ent
	for i := 0; i < 7; i++ {
		nc := vmbSignerAddress(fmt.Sprintf("vmb-cust-nc/%s/%d/%d", w.network, k, i))
		np := vmbSignerAddress(fmt.Sprintf("vmb-cust-np/%s/%d/%d", w.network, k, i))
		sg := w.gen[i%len(w.gen)].signer
		b := common.EncodeCustodianNode(&nc, &np, &sg.PrivateSpendKey, &np.PrivateSpendKey, &nc.PrivateSpendKey, w.network)
		ents = append(ents, ent{nc.PublicSpendKey, b})
	}
	sort.Slice(ents, func(i, j int) bool { return strings.Compare(string(ents[i].key[:]), string(ents[j].key[:])) < 0 })
	for _, e := range ents {
		extra = append(extra, e.b...)
	}
	sig := cust.PrivateSpendKey.Sign(crypto.Blake3Hash(extra))
	extra = append(extra, sig[:]...)
	w.custodians[cust.String()] = k

	tx := common.NewTransactionV5(common.XINAssetId)
	tx.Inputs = []*common.Input{{Genesis: w.network[:]}}
	si := crypto.Blake3Hash([]byte(fmt.Sprintf("vmb-cust-out/%s/%d", w.network, k)))
	vanish := common.NewAddressFromSeedInternalVanish(make([]byte, 64))
	tx.AddOutputWithType(common.OutputTypeCustodianUpdateNodes, []*common.Address{&vanish}, common.NewThresholdScript(64), common.NewInteger(1), append(si[:], si[:]...))
	tx.Extra = extra
	ver := tx.AsVersioned()
	res, detail := "ok", ""
	for _, rp := range w.replicas {
		r, d := vCall(func() error {
			head, err := rp.store.ReadRound(w.carrier)
			if err != nil {
				return err
			}
			if err := rp.store.WriteTransaction(ver); err != nil {
				return err
			}
			s := &common.Snapshot{
				Version:     common.SnapshotVersionCommonEncoding,
				NodeId:      w.carrier,
				RoundNumber: head.Number,
				References:  head.References,
				Timestamp:   w.real(tick),
			}
			s.AddTransaction(ver.PayloadHash())
			s.Hash = s.PayloadHash()
			topo := &common.SnapshotWithTopologicalOrder{Snapshot: s, TopologicalOrder: rp.topo}
			if err := rp.store.WriteSnapshot(topo, nil); err != nil {
				return err
			}
			rp.topo++
			return nil
		})
		if r != "ok" {
			res, detail = r, d
		}
	}
	return res, detail
}

// restart closes replica 0 (Node, store, caches) and builds it again with the real SetupNode on
// the same directory: every answer after it is served cold.
func (w *vmbWorld) restart() {
	old := w.replicas[0]
	old.close(false)
	w.replicas[0] = w.openReplica(0, old.dir)
}

func (w *vmbWorld) queryViews(st vmbStep) vM {
	rp := w.replicas[0]
	node := rp.node
	ts := w.real(st.T)
	ev := vM{"ev": "Views", "t": st.T, "cold": st.Cold}
	view := vM{}
	res, detail := vCall(func() error {
		list := []vM{}
		for _, cn := range node.NodesListWithoutState(ts, false) {
			list = append(list, vM{"n": w.rankOf(cn.IdForNetwork), "st": cn.State, "ci": cn.ConsensusIndex})
		}
		view["list"] = list
		acc := []int{}
		for _, cn := range node.NodesListWithoutState(ts, true) {
			acc = append(acc, w.rankOf(cn.IdForNetwork))
		}
		view["acc"] = acc
		chain := node.getOrCreateChain(w.carrier)
		ids, _ := chain.ConsensusKeys(1, ts)
		view["keys"] = w.ranks(ids)
		view["thrF"] = node.ConsensusThreshold(ts, true)
		view["thrN"] = node.ConsensusThreshold(ts, false)
		view["pledging"] = 0
		if pn := node.PledgingNode(ts); pn != nil {
			view["pledging"] = w.rankOf(pn.IdForNetwork)
		}
		return nil
	})
	er, el := w.electAll(node, ts)
	view["electres"] = er
	if er == "ok" {
		el = el[:5]
	}
	view["elect"] = el
	ev["res"] = res
	if res != "ok" {
		ev["detail"] = detail
	}
	ev["view"] = view
	cust := vM{"k": 0, "ts": 0, "nodes": 0}
	var first *common.CustodianUpdateRequest
	cres, _ := vCall(func() error {
		cur, err := rp.store.ReadCustodian(ts)
		if err != nil {
			return err
		}
		if cur == nil {
			return nil
		}
		first = cur
		k, ok := w.custodians[cur.Custodian.String()]
		if !ok {
			k = -1
		}
		e := uint64(time.Unix(w.epoch, 0).UnixNano())
		cts := (cur.Timestamp - e) / w.tick
		if k == 0 {
			cts = 0 // the genesis custodian is written at epoch + 1 ns
		}
		cust = vM{"k": k + 1, "ts": cts, "nodes": len(cur.Nodes)}
		return nil
	})
	ev["custres"] = cres
	ev["cust"] = cust
	// A caller owns its answer: scribble over everything ReadCustodian / ListCustodianUpdates
	// returned and ask again. The second answer is served from the in-memory cache where the first
	// one filled it; both must be the same.
	describe := func(cur *common.CustodianUpdateRequest) vM {
		if cur == nil {
			return vM{"k": 0, "ts": 0, "nodes": 0, "sum": ""}
		}
		k, ok := w.custodians[cur.Custodian.String()]
		if !ok {
			k = -1
		}
		e := uint64(time.Unix(w.epoch, 0).UnixNano())
		cts := (cur.Timestamp - e) / w.tick
		if k == 0 {
			cts = 0
		}
		var all []byte
		for _, n := range cur.Nodes {
			all = append(all, n.Custodian.PublicSpendKey[:]...)
			all = append(all, n.Payee.PublicSpendKey[:]...)
			all = append(all, n.Extra...)
		}
		all = append(all, cur.Transaction[:]...)
		if cur.Signature != nil {
			all = append(all, cur.Signature[:]...)
		}
		return vM{"k": k + 1, "ts": cts, "nodes": len(cur.Nodes), "sum": crypto.Blake3Hash(all).String()[:16]}
	}
	scribble := func(cur *common.CustodianUpdateRequest) {
		if cur == nil {
			return
		}
		for _, n := range cur.Nodes {
			for i := range n.Extra {
				n.Extra[i] ^= 0x5a
			}
			n.Custodian.PublicSpendKey[0] ^= 0xff
			n.Payee.PublicSpendKey[1] ^= 0xff
		}
		if len(cur.Nodes) > 1 {
			cur.Nodes[0], cur.Nodes[1] = cur.Nodes[1], cur.Nodes[0]
			cur.Nodes = cur.Nodes[:len(cur.Nodes)-1]
		}
		if cur.Custodian != nil {
			cur.Custodian.PublicSpendKey[2] ^= 0xff
		}
		if cur.Signature != nil {
			cur.Signature[3] ^= 0xff
		}
		cur.Transaction[4] ^= 0xff
		cur.Timestamp += 7
	}
	reads := []vM{}
	lists := [][]vM{}
	rres, _ := vCall(func() error {
		scribble(first) // the answer already reported above (possibly the one that filled the cache)
		for pass := 0; pass < 2; pass++ {
			cur, err := rp.store.ReadCustodian(ts)
			if err != nil {
				return err
			}
			reads = append(reads, describe(cur))
			scribble(cur)
			all, err := rp.store.ListCustodianUpdates()
			if err != nil {
				return err
			}
			l := []vM{}
			for _, c := range all {
				l = append(l, describe(c))
			}
			lists = append(lists, l)
			for _, c := range all {
				scribble(c)
			}
		}
		return nil
	})
	ev["rereadres"] = rres
	ev["reread"] = reads
	ev["relist"] = lists
	return ev
}

// ---------------------------------------------------------------- driver
func (w *vmbWorld) run(wc *vmbWorldCase, emit func(vM)) {
	emit(vM{"ev": "Reset", "w": wc.Id, "gen": w.genesisRanks(), "pool": len(w.members),
		"hist": w.observedHistory(w.replicas[0].node)})
	for si, st := range wc.Steps {
		if st.Op == "valid" {
			var ev vM
			func() {
				vmbClockMu.RLock()
				defer vmbClockMu.RUnlock()
				ev = w.queryValid(st, si)
			}()
			func() {
				vmbClockMu.Lock()
				defer vmbClockMu.Unlock()
				ev["acceptm"] = w.acceptMatrix(st)
			}()
			emit(ev)
			continue
		}
		func() {
			vmbClockMu.RLock()
			defer vmbClockMu.RUnlock()
			w.step(st, si, emit)
		}()
	}
}

func (w *vmbWorld) step(st vmbStep, si int, emit func(vM)) {
	{
		switch st.Op {
		case "append":
			m := w.member(st.Node)
			res, detail := w.appendRecord(m, st.St, st.Ts)
			ev := vM{"ev": "Append", "rec": vM{"n": m.rank, "ts": st.Ts, "st": st.St}, "res": res,
				"hist": w.observedHistory(w.replicas[0].node)}
			if res != "ok" {
				ev["detail"] = detail
			}
			emit(ev)
		case "c10":
			emit(w.queryC10(st))
		case "cust":
			res, detail := w.appendCustodian(st.Order, st.Ts)
			ev := vM{"ev": "Cust", "ts": st.Ts, "k": st.Order, "res": res}
			if res != "ok" {
				ev["detail"] = detail
			}
			emit(ev)
		case "views":
			if st.Cold {
				w.restart()
			}
			emit(w.queryViews(st))
		case "elect":
			emit(w.queryElect(st))
		case "hours":
			emit(w.queryHours(st))
		default:
			vmbFail("unknown step %q", st.Op)
		}
	}
}

// Worlds are independent (own keys, own stores, own Node objects): they run on a small pool of
// goroutines; their events are written to the trace world by world, in case order.
func TestVerifMembership(t *testing.T) {
	tr := vOpenTrace(t)
	defer tr.Close()
	var cases vmbCases
	vLoadCases(t, &cases)
	was := internal.MockRunAggregators()
	internal.ToggleMockRunAggregators(true)
	defer internal.ToggleMockRunAggregators(was)
	seed := vSeed()
	n := len(cases.Worlds)
	out := make([][]vM, n)
	errs := make([]string, n)
	par := vEnvInt("VERIF_PAR", 6)
	if par < 1 {
		par = 1
	}
	jobs := make(chan int)
	var wg sync.WaitGroup
	for p := 0; p < par; p++ {
		wg.Add(1)
		go func() {
			defer wg.Done()
			for wi := range jobs {
				func() {
					defer func() {
						if r := recover(); r != nil {
							if he, ok := r.(*vmbHarnessError); ok {
								errs[wi] = he.msg
							} else {
								errs[wi] = fmt.Sprintf("panic: %v", r)
							}
						}
					}()
					wc := &cases.Worlds[wi]
					var w *vmbWorld
					func() {
						vmbClockMu.RLock()
						defer vmbClockMu.RUnlock()
						w = vmbNewWorld(t, wc, fmt.Sprintf("vmb/%d/%s", seed, wc.Id))
					}()
					defer w.close()
					w.run(wc, func(m vM) { out[wi] = append(out[wi], m) })
				}()
			}
		}()
	}
	for wi := 0; wi < n; wi++ {
		jobs <- wi
	}
	close(jobs)
	wg.Wait()
	for wi := 0; wi < n; wi++ {
		if errs[wi] != "" {
			t.Fatalf("harness failure in world %s: %s", cases.Worlds[wi].Id, errs[wi])
		}
		for _, m := range out[wi] {
			tr.Emit(m)
		}
	}
}

// ---------------------------------------------------------------- C10: mainnet legacy fallback
// verifyFinalization retries a certificate that does not verify against the current key set with
// the key set from before the node-operation window, on the mainnet network id before the
// signer-set fork. This needs no store: as kernel/removal_consensus_test.go does, a Node is
// assembled from a membership list (n accepted genesis nodes, the oldest removed inside the
// window). Certificates are signed against the PRE-removal key vector by its first m keys, for
// every m, and passed to the real verifyFinalization of the node that knows about the removal.
func vmbLegacyNode(epoch uint64, network crypto.Hash, states []*CNode, genesis map[crypto.Hash]bool) (*Node, func()) {
	node := &Node{Epoch: epoch, networkId: network, allNodesSortedWithState: states, genesisNodesMap: genesis}
	node.nodeStateSequences = node.buildNodeStateSequences(states, false)
	node.acceptedNodeStateSequences = node.buildNodeStateSequences(states, true)
	cache, err := ristretto.NewCache(&ristretto.Config[[]byte, any]{NumCounters: 1e3, MaxCost: 1 << 20, BufferItems: 64})
	if err != nil {
		vmbFail("cache: %v", err)
	}
	node.cacheStore = cache
	return node, cache.Close
}

func TestVerifMembershipLegacy(t *testing.T) {
	path := os.Getenv("VERIF_TRACE_LEGACY")
	if path == "" {
		t.Skip("VERIF_TRACE_LEGACY not set")
	}
	f, err := os.Create(path)
	if err != nil {
		t.Fatal(err)
	}
	defer f.Close()
	emit := func(m vM) {
		b, _ := json.Marshal(m)
		f.Write(append(b, '\n'))
	}
	network, err := crypto.HashFromString(config.KernelNetworkId)
	if err != nil {
		t.Fatal(err)
	}
	epoch := mainnetConsensusNodeRemovalSignerSetForkAt - 100*OneDay - uint64(config.KernelNodeAcceptTimeBegin)*uint64(time.Hour)
	seed := vSeed()
	for _, part := range strings.Split(os.Getenv("VERIF_LEGACY_SIZES"), ",") {
		var n int
		if _, err := fmt.Sscanf(part, "%d", &n); err != nil || n < 8 || n > 50 {
			continue
		}
		type mem struct {
			id   crypto.Hash
			addr common.Address
		}
		ms := make([]*mem, n)
		for i := range ms {
			a := vmbSignerAddress(fmt.Sprintf("vmb-legacy/%d/%d/%d", seed, n, i))
			ms[i] = &mem{id: a.Hash().ForNetwork(network), addr: a}
		}
		sort.Slice(ms, func(i, j int) bool { return ms[i].id.String() < ms[j].id.String() })
		genesis := make(map[crypto.Hash]bool)
		priv := make(map[crypto.Hash]*crypto.Key)
		var accepted []*CNode
		gen := []int{}
		for i, m := range ms {
			genesis[m.id] = true
			k := m.addr.PrivateSpendKey
			priv[m.id] = &k
			accepted = append(accepted, &CNode{IdForNetwork: m.id, Signer: m.addr, Timestamp: epoch, State: common.NodeStateAccepted})
			gen = append(gen, i+1)
		}
		day := uint64(20 + (int(seed)+n)%60)
		window := epoch + day*OneDay + uint64(config.KernelNodeAcceptTimeBegin)*uint64(time.Hour)
		rmTick := (window-epoch)/vmbTick + 60 // ten minutes into the window
		removed := *accepted[0]
		removed.Timestamp = epoch + rmTick*vmbTick
		removed.State = common.NodeStateRemoved
		before, c1 := vmbLegacyNode(epoch, network, accepted, genesis)
		aware, c2 := vmbLegacyNode(epoch, network, append(append([]*CNode{}, accepted...), &removed), genesis)
		chainId := ms[1].id
		bchain := &Chain{node: before, ChainId: chainId}
		achain := &Chain{node: aware, ChainId: chainId}
		for _, hours := range []uint64{0, 3, 6} {
			tick := rmTick + 30 + hours*360
			ts := epoch + tick*vmbTick
			ids, publics := bchain.ConsensusKeys(1, ts)
			cur, _ := achain.ConsensusKeys(1, ts)
			privs := make([]*crypto.Key, len(ids))
			for i, id := range ids {
				privs[i] = priv[id]
			}
			for m := 1; m <= len(ids); m++ {
				pos := make([]int, m)
				for i := range pos {
					pos[i] = i
				}
				final := false
				res, _ := vCall(func() error {
					s, err := vmbSign(chainId, 1, ts, fmt.Sprintf("vmb-legacy-cert/%d/%d/%d", n, tick, m), publics, privs, pos)
					if err != nil {
						return err
					}
					_, final = achain.verifyFinalization(s)
					return nil
				})
				emit(vM{"ev": "Legacy", "gen": gen, "rm": vM{"n": 1, "ts": rmTick, "st": common.NodeStateRemoved}, "t": tick,
					"m": m, "klegacy": len(ids), "kcur": len(cur), "res": res, "final": final})
			}
		}
		c1()
		c2()
	}
}
