package kernel

// Replayer of spec/Node behaviours (engine E1) on a real node: every model step is one durable
// storage call of one chain's finalization handler. Each handler runs in its own goroutine; the
// storage proxy parks it between calls (never while it holds the topology lock) and the
// scheduler releases exactly the goroutine the behaviour names. Crash = all handlers are
// abandoned at their parking points, the store is closed; Restart = the store is re-opened and
// the real SetupNode runs. What the real code did is recorded, TLC judges it (Trace_Node.tla).

import (
	"bytes"
	"fmt"
	"os"
	"runtime"
	"strconv"
	"sync"
	"testing"
	"time"

	"github.com/MixinNetwork/mixin/common"
	"github.com/MixinNetwork/mixin/crypto"
	"github.com/MixinNetwork/mixin/logger"
)

func vnGoid() int64 {
	var buf [64]byte
	n := runtime.Stack(buf[:], false)
	f := bytes.Fields(buf[:n])
	id, _ := strconv.ParseInt(string(f[1]), 10, 64)
	return id
}

type vnEvent struct {
	kind string // "before", "after", "finished"
	name string
}

type vnTask struct {
	s          string
	grant      chan struct{}
	events     chan vnEvent
	executed   []string
	reported   int
	parkBefore bool
	finished   bool
	res        string
	detail     string
	fin        bool
	pendingRet bool
}

type vnSched struct {
	mu      sync.Mutex
	tasks   map[int64]*vnTask
	stopped bool
}

func (sc *vnSched) lookup() *vnTask {
	sc.mu.Lock()
	defer sc.mu.Unlock()
	return sc.tasks[vnGoid()]
}

func (t *vnTask) park(sc *vnSched, kind, name string) {
	t.events <- vnEvent{kind, name}
	<-t.grant
	if sc.stopped {
		panic(vnStop{})
	}
}

// hooks called by the proxy (see vnProxy.step / done in zz_verif_node_test.go)
func (p *vnProxy) schedBefore(name string) {
	if p.sched == nil {
		return
	}
	t := p.sched.lookup()
	if t == nil {
		return
	}
	if t.parkBefore {
		t.parkBefore = false
		t.park(p.sched, "before", name)
	}
}

func (p *vnProxy) schedAfter(name string) {
	if p.sched == nil {
		return
	}
	t := p.sched.lookup()
	if t == nil {
		return
	}
	prev := ""
	if n := len(t.executed); n > 0 {
		prev = t.executed[n-1]
	}
	t.executed = append(t.executed, name)
	if name == "WriteSnapshot" || (name == "WriteConsensusSnapshot" && prev == "WriteSnapshot") {
		// still inside Node.TopoWrite's lock: do not park here, park before the next call. After the
		// snapshot write of a consensus snapshot the next call (its consensus record) is made under
		// the same lock: parking before it is safe because the specification lets no other handler
		// write a snapshot while that lock is held.
		t.parkBefore = true
		return
	}
	t.park(p.sched, "after", name)
}

type vnRun struct {
	w     *vnWorld
	sched *vnSched
	scn   *vnScenario
	tasks map[string]*vnTask
	snaps map[string]*common.Snapshot
}

func (r *vnRun) start(s string) *vnTask {
	t := &vnTask{s: s, grant: make(chan struct{}), events: make(chan vnEvent, 4), parkBefore: true}
	snap := r.scn.snapshotOf(r, s)
	w := r.w
	ready := make(chan struct{})
	go func() {
		r.sched.mu.Lock()
		r.sched.tasks[vnGoid()] = t
		r.sched.mu.Unlock()
		close(ready)
		defer func() {
			if rec := recover(); rec != nil {
				if _, ok := rec.(vnStop); ok {
					t.res = "stopped"
				} else {
					t.res, t.detail = "panic", fmt.Sprint(rec)
				}
			}
			t.finished = true
			t.events <- vnEvent{"finished", ""}
		}()
		chain := w.node.getOrCreateChain(snap.NodeId)
		m := &CosiAction{Action: CosiActionFinalization, PeerId: snap.NodeId, SnapshotHash: snap.Hash, Snapshot: snap}
		err := chain.cosiHandleFinalization(m)
		t.fin = m.finalized
		if err != nil {
			t.res, t.detail = "err", err.Error()
		} else {
			t.res = "ok"
		}
	}()
	<-ready
	return t
}

// advance the handler of s by one model step; returns the storage call it made ("Return" when the
// handler returned without making another call)
func (r *vnRun) advance(s string) (call string, t *vnTask) {
	t = r.tasks[s]
	if t != nil && t.pendingRet {
		t.pendingRet = false
		delete(r.tasks, s)
		return "Return", t
	}
	if t == nil {
		t = r.start(s)
		r.tasks[s] = t
		ev := <-t.events // first parking point (before the first call) or finished
		if ev.kind == "finished" {
			delete(r.tasks, s)
			return "Return", t
		}
	}
	t.grant <- struct{}{}
	var ev vnEvent
	select {
	case ev = <-t.events:
	case <-time.After(60 * time.Second):
		panic("verif harness: handler of " + s + " made no progress for 60 s (blocked on a lock another parked handler holds?)")
	}
	n := len(t.executed) - t.reported
	if ev.kind == "finished" {
		if n >= 1 {
			call = t.executed[t.reported]
			t.reported = len(t.executed)
			t.pendingRet = true
			return call, t
		}
		delete(r.tasks, s)
		return "Return", t
	}
	if n >= 1 {
		call = t.executed[t.reported]
		t.reported++
		return call, t
	}
	return "?" + ev.kind + ":" + ev.name, t
}

// a handler other than s is parked inside Node.TopoWrite and the topology lock really is taken
func (r *vnRun) topoLockHeldByOther(s string) bool {
	other := false
	for n, t := range r.tasks {
		if k := len(t.executed); n != s && !t.finished && k > 0 && t.executed[k-1] == "WriteSnapshot" {
			other = true
		}
	}
	if !other {
		return false
	}
	for i := 0; i < 20; i++ {
		if r.w.node.TopoCounter.TryLock() {
			r.w.node.TopoCounter.Unlock()
			return false
		}
		time.Sleep(2 * time.Millisecond)
	}
	return true
}

// stop the process: every parked handler is abandoned
func (r *vnRun) crash() {
	r.sched.mu.Lock()
	r.sched.stopped = true
	r.sched.mu.Unlock()
	for s, t := range r.tasks {
		if !t.finished {
			t.grant <- struct{}{}
			for ev := range t.events {
				if ev.kind == "finished" {
					break
				}
			}
		}
		delete(r.tasks, s)
	}
	r.w.close()
}

// let every parked handler run to completion (end of a behaviour without a stop)
func (r *vnRun) drain() map[string]vM {
	out := map[string]vM{}
	// a handler parked inside the topology lock (right after its snapshot write) must finish first,
	// the others may need that lock
	order := []string{}
	for s, t := range r.tasks {
		if n := len(t.executed); n > 0 && t.executed[n-1] == "WriteSnapshot" {
			order = append([]string{s}, order...)
		} else {
			order = append(order, s)
		}
	}
	for _, s := range order {
		t := r.tasks[s]
		extra := []string{}
		for !t.finished {
			t.grant <- struct{}{}
			ev := <-t.events
			if ev.kind != "finished" {
				continue
			}
		}
		for _, c := range t.executed[t.reported:] {
			extra = append(extra, c)
		}
		out[s] = vM{"res": t.res, "extra": extra}
		delete(r.tasks, s)
	}
	return out
}

// --------------------------------------------------------------------------------------------
// scenarios (must match spec/Node/MC_Node.tla)

type vnScenario struct {
	name   string
	chains map[string]int // model chain id -> genesis node index (-1: the pledged node's chain)
	prep   func(w *vnWorld, sc *vnScenario)
	build  func(w *vnWorld, s string) *common.Snapshot
	txs    map[string]*common.VersionedTransaction
	signer common.Address
	times  map[string]uint64
	bind   func(r *vnRun)
}

var vnBTC = common.BitcoinAssetId

func (sc *vnScenario) btcDeposit(w *vnWorld, id string) *common.VersionedTransaction {
	return w.depositTx(vnBTC, vnBTC, "c6d0c728-2624-429b-8e0d-d9d19b6592fa", "dep-"+sc.name+"-"+id, 0, common.NewInteger(10))
}

func (w *vnWorld) mustFinalize(s *common.Snapshot) {
	res, detail, _ := w.finalize(s)
	if res != "ok" {
		w.t.Fatalf("scenario preparation: %s %s", res, detail)
	}
	if snap, _ := w.store.ReadSnapshot(s.Hash); snap == nil {
		w.t.Fatalf("scenario preparation: snapshot not applied")
	}
}

// free chains: every genesis node except the one elected for the pledge
func vnPick(w *vnWorld, avoid int, k int) []int {
	var out []int
	for i := range w.ids {
		if i != avoid && len(out) < k {
			out = append(out, i)
		}
	}
	return out
}

func vnScenarioByName(name string) *vnScenario {
	sc := &vnScenario{name: name, chains: map[string]int{}, txs: map[string]*common.VersionedTransaction{}, times: map[string]uint64{}}
	pledgeTime := vnTime(1, 30, 0)
	switch name {
	case "P", "P2", "Q":
		sc.prep = func(w *vnWorld, sc *vnScenario) {
			e := w.chainIndexOf(w.node.electSnapshotNode(common.TransactionTypeNodePledge, pledgeTime))
			o := vnPick(w, e, 3)
			sc.chains["A"], sc.chains["B"], sc.chains["C"] = e, o[0], o[1]
			xd := w.xinDepositTx("xin-"+name, common.KernelNodePledgeAmount)
			w.cacheTxs(xd)
			w.mustFinalize(w.snapshot(o[2], []*common.VersionedTransaction{xd}, vnTime(1, 20, 0)))
			if name == "Q" {
				sc.txs["W"] = sc.btcDeposit(w, "W")
				sc.times["W"] = vnTime(1, 25, 0)
			}
			pl, signer := w.pledgeTx(&common.Input{Hash: xd.PayloadHash(), Index: 0}, name)
			sc.txs["X"], sc.signer = pl, signer
			sc.times["X"] = pledgeTime
			sc.txs["Y"], sc.times["Y"] = sc.btcDeposit(w, "Y"), vnTime(1, 31, 0)
			sc.txs["Z"], sc.times["Z"] = sc.btcDeposit(w, "Z"), vnTime(1, 32, 0)
			for _, tx := range sc.txs {
				w.cacheTxs(tx)
			}
		}
		sc.build = func(w *vnWorld, s string) *common.Snapshot {
			ci := map[string]string{"W": "A", "X": "A", "Y": "B", "Z": "C"}[s]
			return w.snapshotAuto(sc.chains[ci], []*common.VersionedTransaction{sc.txs[s]}, sc.times[s])
		}
	case "A":
		acceptTime := vnTime(14, 0, 0)
		sc.prep = func(w *vnWorld, sc *vnScenario) {
			e := w.chainIndexOf(w.node.electSnapshotNode(common.TransactionTypeNodePledge, pledgeTime))
			o := vnPick(w, e, 3)
			sc.chains["N"], sc.chains["B"] = -1, o[0]
			xd := w.xinDepositTx("xin-"+name, common.KernelNodePledgeAmount)
			w.cacheTxs(xd)
			w.mustFinalize(w.snapshot(o[2], []*common.VersionedTransaction{xd}, vnTime(1, 20, 0)))
			pl, signer := w.pledgeTx(&common.Input{Hash: xd.PayloadHash(), Index: 0}, name)
			sc.signer = signer
			w.cacheTxs(pl)
			w.mustFinalize(w.snapshotAuto(e, []*common.VersionedTransaction{pl}, pledgeTime))
			ac, _, err := w.acceptTx(signer, acceptTime)
			if err != nil {
				w.t.Fatalf("accept tx: %v", err)
			}
			sc.txs["X"], sc.times["X"] = ac, acceptTime
			sc.txs["Y"], sc.times["Y"] = sc.btcDeposit(w, "Y"), vnTime(14, 1, 0)
			w.cacheTxs(ac, sc.txs["Y"])
		}
		sc.build = func(w *vnWorld, s string) *common.Snapshot {
			if s == "X" {
				chain := w.node.getOrCreateChain(sc.signer.Hash().ForNetwork(w.netId))
				return w.snapshotRound0(chain, sc.txs["X"], sc.times["X"])
			}
			return w.snapshotAuto(sc.chains["B"], []*common.VersionedTransaction{sc.txs[s]}, sc.times[s])
		}
	case "M":
		// a universal mint far enough after the epoch (batch > KernelNetworkLegacyEnding), with the
		// previous and the current day's works and spaces aggregated for every node
		mintDay := uint64(KernelNetworkLegacyEnding + 3)
		mintTime := uint64(time.Unix(vnEpoch, 0).UnixNano()) + mintDay*OneDay + 8*uint64(time.Hour)
		sc.prep = func(w *vnWorld, sc *vnScenario) {
			day := mintTime / OneDay
			for _, id := range w.ids {
				if err := w.store.WriteRoundSpaceAndState(&common.RoundSpace{NodeId: id, Batch: 1 << 40, Round: 0}); err != nil {
					w.t.Fatal(err)
				}
				mk := func(ts uint64, tag string) []*common.SnapshotWork {
					return []*common.SnapshotWork{{Timestamp: ts, Hash: crypto.Blake3Hash([]byte(tag + id.String())), Signers: []crypto.Hash{id}}}
				}
				if err := w.store.WriteRoundWork(id, 0, mk((day-1)*OneDay+uint64(time.Hour), "w0"), true); err != nil {
					w.t.Fatal(err)
				}
				if err := w.store.WriteRoundWork(id, 1, mk(day*OneDay+uint64(time.Hour), "w1"), true); err != nil {
					w.t.Fatal(err)
				}
			}
			e := w.chainIndexOf(w.node.electSnapshotNode(common.TransactionTypeMint, mintTime))
			o := vnPick(w, e, 2)
			sc.chains["A"], sc.chains["B"], sc.chains["C"] = e, o[0], o[1]
			cur, err := w.store.ReadCustodian(mintTime)
			if err != nil {
				w.t.Fatal(err)
			}
			mt := w.node.buildUniversalMintTransaction(cur, mintTime, false)
			if mt == nil {
				w.t.Fatalf("no mint available in scenario M")
			}
			if err := mt.SignRaw(w.signers[e].PrivateSpendKey); err != nil {
				w.t.Fatal(err)
			}
			sc.txs["X"], sc.times["X"] = mt, mintTime
			sc.txs["Y"], sc.times["Y"] = sc.btcDeposit(w, "Y"), mintTime+uint64(time.Second)
			w.cacheTxs(mt, sc.txs["Y"])
		}
		sc.build = func(w *vnWorld, s string) *common.Snapshot {
			ci := map[string]string{"X": "A", "Y": "B"}[s]
			return w.snapshotAuto(sc.chains[ci], []*common.VersionedTransaction{sc.txs[s]}, sc.times[s])
		}
	case "O", "U":
		// O: W and V fill round 1 of chain A, X opens round 2 committing to both (any delivery order).
		// U: X opens round 2 of A referencing the final round 1 of B ({Y}), unknown until Z opened round 2 of B.
		where := map[string]string{"W": "A", "V": "A", "X": "A", "Y": "B", "Z": "B"}
		sc.prep = func(w *vnWorld, sc *vnScenario) {
			sc.chains["A"], sc.chains["B"], sc.chains["C"] = 1, 2, 3
			for i, n := range []string{"W", "V", "Y", "X", "Z"} {
				sc.txs[n] = sc.btcDeposit(w, n)
				sc.times[n] = vnTime(1, 25, 0) + uint64(i)*uint64(time.Second)/2
			}
			sc.times["X"], sc.times["Z"] = vnTime(1, 30, 0), vnTime(1, 31, 0)
			for _, tx := range sc.txs {
				w.cacheTxs(tx)
			}
		}
		var run *vnRun
		plain := func(w *vnWorld, n string) *common.Snapshot {
			chain := w.chain(sc.chains[where[n]])
			genesisRefs := chain.State.CacheRound.References
			if chain.State.CacheRound.Number != 1 {
				// round 1 references never change; read them back from the stored final round
				rd, _ := w.store.ReadRound(chain.State.CacheRound.References.Self)
				genesisRefs = rd.References
			}
			s := &common.Snapshot{Version: common.SnapshotVersionCommonEncoding, NodeId: chain.ChainId, RoundNumber: 1,
				References: genesisRefs.Copy(), Timestamp: sc.times[n]}
			s.AddTransaction(sc.txs[n].PayloadHash())
			w.sign(chain, s)
			return s
		}
		final1 := func(w *vnWorld, c string, members ...string) crypto.Hash {
			var snaps []*common.Snapshot
			for _, m := range members {
				sn := *sc.snapshotOf(run, m)
				snaps = append(snaps, &sn)
			}
			_, _, h := common.ComputeRoundHash(w.ids[sc.chains[c]], 1, snaps)
			return h
		}
		sc.bind = func(r *vnRun) { run = r }
		sc.build = func(w *vnWorld, s string) *common.Snapshot {
			switch s {
			case "W", "V", "Y":
				return plain(w, s)
			}
			chain := w.chain(sc.chains[where[s]])
			refs := &common.RoundLink{}
			switch {
			case s == "X" && name == "O":
				refs.Self, refs.External = final1(w, "A", "W", "V"), w.chain(sc.chains["C"]).State.FinalRound.Hash
			case s == "X":
				refs.Self, refs.External = final1(w, "A", "W"), final1(w, "B", "Y")
			case s == "Z":
				refs.Self, refs.External = final1(w, "B", "Y"), w.chain(sc.chains["C"]).State.FinalRound.Hash
			}
			sn := &common.Snapshot{Version: common.SnapshotVersionCommonEncoding, NodeId: chain.ChainId, RoundNumber: 2,
				References: refs, Timestamp: sc.times[s]}
			sn.AddTransaction(sc.txs[s].PayloadHash())
			w.sign(chain, sn)
			return sn
		}
	case "T":
		sc.prep = func(w *vnWorld, sc *vnScenario) {
			sc.chains["A"], sc.chains["B"] = 1, 2
			sc.txs["W"], sc.times["W"] = sc.btcDeposit(w, "W"), vnTime(1, 25, 0)
			sc.txs["Y"], sc.times["Y"] = sc.btcDeposit(w, "Y"), vnTime(1, 31, 0)
			sc.times["X"] = vnTime(1, 30, 0)
			w.cacheTxs(sc.txs["W"], sc.txs["Y"])
		}
		sc.build = func(w *vnWorld, s string) *common.Snapshot {
			if s == "X" && sc.txs["X"] == nil {
				// built when first delivered: spends W's output (W is handled completely before X)
				sc.txs["X"] = w.transferTx(vnBTC, []*common.Input{{Hash: sc.txs["W"].PayloadHash(), Index: 0}},
					[]common.Integer{common.NewInteger(4), common.NewInteger(6)}, "T-X")
				w.cacheTxs(sc.txs["X"])
			}
			ci := map[string]string{"W": "A", "X": "A", "Y": "B"}[s]
			return w.snapshotAuto(sc.chains[ci], []*common.VersionedTransaction{sc.txs[s]}, sc.times[s])
		}
	}
	return sc
}

func (sc *vnScenario) snapshotOf(r *vnRun, s string) *common.Snapshot {
	if sn := r.snaps[s]; sn != nil {
		return sn
	}
	sn := sc.build(r.w, s)
	r.snaps[s] = sn
	return sn
}

func (sc *vnScenario) chainId(w *vnWorld, c string) crypto.Hash {
	if i := sc.chains[c]; i >= 0 {
		return w.ids[i]
	}
	return sc.signer.Hash().ForNetwork(w.netId)
}

// projection of the durable state (read through the store's own readers)
func (r *vnRun) observe(setup string) vM {
	w, sc := r.w, r.scn
	names := map[crypto.Hash]string{}
	for s, tx := range sc.txs {
		names[tx.PayloadHash()] = s
	}
	obs := vM{"setup": setup}
	marker := "?"
	if last, err := w.store.ReadLastConsensusSnapshot(); err == nil && last != nil && len(last.Transactions) == 1 {
		if n, ok := names[last.Transactions[0]]; ok {
			marker = n
		} else {
			marker = "G"
		}
	}
	obs["marker"] = marker
	topo := []string{}
	posOK := true
	var lastPos uint64
	snaps, err := w.store.ReadSnapshotsSinceTopology(0, 500)
	if err != nil {
		posOK = false
	}
	for i, sn := range snaps {
		if i > 0 && sn.TopologicalOrder <= lastPos {
			posOK = false
		}
		lastPos = sn.TopologicalOrder
		if len(sn.Transactions) == 1 {
			if n, ok := names[sn.Transactions[0]]; ok {
				topo = append(topo, n)
			}
		}
	}
	obs["topo"], obs["posok"] = topo, posOK
	head := vM{}
	for c := range sc.chains {
		rd, _ := w.store.ReadRound(sc.chainId(w, c))
		if rd == nil {
			head[c] = -1
		} else {
			head[c] = int(rd.Number)
		}
	}
	obs["head"] = head
	body, final, outs := []string{}, []string{}, true
	for s, tx := range sc.txs {
		ver, fin, err := w.store.ReadTransaction(tx.PayloadHash())
		if err != nil {
			continue
		}
		if ver != nil {
			body = append(body, s)
		}
		if fin != "" {
			final = append(final, s)
			if ver == nil {
				outs = false
			}
			for i, o := range tx.Outputs {
				if o.Type == common.OutputTypeWithdrawalSubmit {
					continue
				}
				u, err := w.store.ReadUTXOLock(tx.PayloadHash(), uint(i))
				if err != nil || u == nil {
					outs = false
				}
			}
			h, err := crypto.HashFromString(fin)
			if err != nil {
				outs = false
			} else if sn, err := w.store.ReadSnapshot(h); err != nil || sn == nil {
				outs = false
			} else if sn.PayloadHash() != h || len(sn.Transactions) != 1 || sn.Transactions[0] != tx.PayloadHash() {
				outs = false
			} else if want := r.snaps[s]; want != nil && want.Hash != h {
				// the finalization record must name the certified snapshot that was delivered
				outs = false
			}
		}
	}
	obs["body"], obs["final"], obs["outsok"] = body, final, outs
	total, invalid, verr := w.store.ValidateGraphEntries(w.netId, 10)
	obs["total"], obs["invalid"], obs["valerr"] = total, invalid, verr != nil
	return obs
}

type vnWalk struct {
	Scn string `json:"scn"`
	// the walk comes from the model variant without the lock around the consensus record: the real
	// node may leave it (at the first step it cannot take the execution simply ends)
	Variant bool `json:"variant"`
	Steps   []struct {
		A    string `json:"a"`
		S    string `json:"s"`
		Call string `json:"call"`
	} `json:"steps"`
}

func TestVerifPipelineReplay(t *testing.T) {
	tr := vOpenTrace(t)
	defer tr.Close()
	if os.Getenv("VERIF_LOG") != "" {
		logger.SetLevel(logger.VERBOSE)
	}
	var cases struct {
		Walks []vnWalk `json:"walks"`
	}
	vLoadCases(t, &cases)
	shard, shards := vEnvInt("VERIF_SHARD", 0), vEnvInt("VERIF_SHARDS", 1)
	for wi, wk := range cases.Walks {
		if wi%shards != shard {
			continue
		}
		vnReplayWalk(t, tr, wi, wk)
	}
}

func vnReplayWalk(t *testing.T, tr *vTrace, wi int, wk vnWalk) {
	dir := t.TempDir()
	w := vnNewWorld(t, dir, 7, fmt.Sprintf("pl-%s", wk.Scn))
	if res, detail := w.open(); res != "ok" {
		t.Fatalf("open: %s %s", res, detail)
	}
	sc := vnScenarioByName(wk.Scn)
	sc.prep(w, sc)
	run := &vnRun{w: w, scn: sc, tasks: map[string]*vnTask{}, snaps: map[string]*common.Snapshot{}}
	if sc.bind != nil {
		sc.bind(run)
	}
	newSched := func() {
		run.sched = &vnSched{tasks: map[int64]*vnTask{}}
		w.proxy.sched = run.sched
	}
	newSched()
	tr.Emit(vM{"ev": "Reset", "walk": wi, "scn": wk.Scn})
	up := true
steps:
	for _, st := range wk.Steps {
		switch st.A {
		case "Step":
			if !up || w.node == nil {
				if wk.Variant {
					break steps
				}
				tr.Emit(vM{"ev": "Call", "s": st.S, "call": "!down"})
				continue
			}
			if st.Call == "WriteSnapshot" && run.topoLockHeldByOther(st.S) {
				// the behaviour wants this handler to write its snapshot while another one is still
				// inside Node.TopoWrite: the real node makes it wait. The execution ends here.
				tr.Emit(vM{"ev": "Blocked", "s": st.S})
				break steps
			}
			call, task := run.advance(st.S)
			m := vM{"ev": "Call", "s": st.S, "call": call}
			if call == "WriteSnapshot" {
				m["pos"] = int(w.proxy.lastPos)
			}
			if call == "Return" {
				m["res"] = task.res
				if task.res == "panic" {
					m["detail"] = task.detail
				}
			}
			tr.Emit(m)
		case "Race":
			// S = "X,Y": both handlers run freely; the storage write of the first one is slow and the
			// process stops as soon as it returned. The proxy records the commit order.
			if !up || w.node == nil {
				continue
			}
			names := []string{string(st.S[0]), string(st.S[2])}
			w.proxy.sched = nil
			w.proxy.raceCalls = nil
			w.proxy.racing = true
			w.proxy.slowHash = sc.snapshotOf(run, names[0]).Hash
			w.proxy.stopAfterSlow = true
			w.proxy.slowEntered = make(chan struct{})
			gids := map[int64]string{}
			var gmu sync.Mutex
			var wg sync.WaitGroup
			for i, n := range names {
				snap := sc.snapshotOf(run, n)
				wg.Add(1)
				go func(i int, n string, snap *common.Snapshot) {
					defer wg.Done()
					defer func() { recover() }()
					gmu.Lock()
					gids[vnGoid()] = n
					gmu.Unlock()
					if i == 1 {
						// starts once the slow handler is inside its snapshot write (holding the topology lock)
						select {
						case <-w.proxy.slowEntered:
						case <-time.After(5 * time.Second):
						}
					}
					chain := w.node.getOrCreateChain(snap.NodeId)
					chain.cosiHandleFinalization(&CosiAction{Action: CosiActionFinalization, PeerId: snap.NodeId, SnapshotHash: snap.Hash, Snapshot: snap})
				}(i, n, snap)
			}
			wg.Wait()
			for _, c := range w.proxy.raceCalls {
				m := vM{"ev": "Call", "s": gids[c.goid], "call": c.call, "race": true}
				if c.call == "WriteSnapshot" {
					m["pos"] = int(c.pos)
				}
				tr.Emit(m)
			}
			w.proxy.racing = false
			w.proxy.stopped = false
			w.proxy.stopAfterSlow = false
			w.close()
			up = false
			tr.Emit(vM{"ev": "Crash"})
		case "Crash":
			run.crash()
			up = false
			tr.Emit(vM{"ev": "Crash"})
		case "Restart":
			res, detail := w.open()
			up = true
			newSched()
			m := vM{"ev": "Restart", "obs": run.observe(res)}
			if res != "ok" {
				m["detail"] = detail
			}
			tr.Emit(m)
		}
	}
	if up && w.node != nil {
		rest := run.drain()
		tr.Emit(vM{"ev": "End", "rest": rest, "obs": run.observe("ok")})
	} else {
		tr.Emit(vM{"ev": "End", "rest": vM{}, "down": true})
	}
	w.close()
}
