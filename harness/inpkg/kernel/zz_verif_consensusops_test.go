package kernel

// Replayer for the serialization of consensus operations (spec/Consensus, property C28).
// A real Node (generated 7-node genesis, real BadgerStore) is driven with the behaviours TLC
// generated: histories of offered consensus operations go through the real store.WriteConsensusSnapshot
// (under recover, last recorded operation read back with ReadLastConsensusSnapshot), decision-table
// cases go through the real validateConsensusTransactionReferences and validateKernelSnapshot.
// Uses the node world of zz_verif_mint_test.go (same author). The verdict is TLC's.

import (
	"fmt"
	"testing"
	"time"

	"github.com/MixinNetwork/mixin/common"
	"github.com/MixinNetwork/mixin/crypto"
	"github.com/MixinNetwork/mixin/logger"
)

type vcoOp struct {
	Cls string `json:"cls"`
	N   int    `json:"n"`
	Ref string `json:"ref"`
	Tsk string `json:"tsk"`
	Rep bool   `json:"rep"`
}

type vcoEdge struct {
	From int   `json:"from"`
	O    vcoOp `json:"o"`
	Ok   bool  `json:"ok"`
	To   int   `json:"to"`
}

type vcoSnapCase struct {
	K struct {
		Classes []string `json:"classes"`
		Local   bool     `json:"local"`
		Round0  bool     `json:"round0"`
		Ref     string   `json:"ref"`
		Tsk     string   `json:"tsk"`
		Rep     bool     `json:"rep"`
	} `json:"k"`
	Accept bool `json:"accept"`
}

type vcoCases struct {
	Walks [][]vcoEdge   `json:"walks"`
	Snaps []vcoSnapCase `json:"snaps"`
}

type vcoRec struct {
	tx   *common.VersionedTransaction
	snap *common.Snapshot
}

type vcoWorld struct {
	*vmtWorld
	t     *testing.T
	chain []vcoRec // recorded history as the harness knows it (position 0 = genesis operation)
	ids   map[crypto.Hash]int
	seq   int
	topo  uint64
}

func vcoHash(parts ...any) crypto.Hash { return crypto.Blake3Hash([]byte(fmt.Sprint(parts...))) }

func vcoNewWorld(t *testing.T, tag string) *vcoWorld {
	w := &vcoWorld{vmtWorld: vmtNewWorld(t, 7, tag), t: t, ids: map[crypto.Hash]int{}, topo: 1 << 32}
	last, err := w.store.ReadLastConsensusSnapshot()
	if err != nil || last == nil {
		t.Fatalf("no genesis consensus snapshot: %v", err)
	}
	tx, _, err := w.store.ReadTransaction(last.Transactions[0])
	if err != nil || tx == nil {
		t.Fatalf("genesis consensus transaction: %v", err)
	}
	w.chain = []vcoRec{{tx: tx, snap: last}}
	w.ids[last.Transactions[0]] = 0
	return w
}

// abstract time: t <-> Epoch + t seconds (the genesis operation is at 0)
func (w *vcoWorld) real(ts int64) uint64 { return uint64(int64(w.node.Epoch) + ts*int64(time.Second)) }
func (w *vcoWorld) abs(real uint64) int {
	return int((int64(real) - int64(w.node.Epoch)) / int64(time.Second))
}

func (w *vcoWorld) lastTs() int64 { return int64(w.abs(w.chain[len(w.chain)-1].snap.Timestamp)) }

func (w *vcoWorld) tsOf(kind string) int64 {
	switch kind {
	case "gt":
		return w.lastTs() + 2
	case "eq":
		return w.lastTs()
	}
	return w.lastTs() - 1
}

func (w *vcoWorld) refs(kind string) []crypto.Hash {
	switch kind {
	case "last":
		return []crypto.Hash{w.chain[len(w.chain)-1].tx.PayloadHash()}
	case "older":
		if len(w.chain) >= 2 {
			return []crypto.Hash{w.chain[len(w.chain)-2].tx.PayloadHash()}
		}
		return []crypto.Hash{vcoHash("unrecorded", w.seq)}
	}
	return nil
}

// a transaction of the given class (only its shape matters to the functions under observation)
func (w *vcoWorld) tx(cls string, refs []crypto.Hash) *common.VersionedTransaction {
	w.seq++
	tx := common.NewTransactionV5(common.XINAssetId)
	h1, h2 := vcoHash("vco-key", w.tag, w.seq), vcoHash("vco-key2", w.tag, w.seq)
	k := crypto.NewKeyFromSeed(append(h1[:], h2[:]...)).Public()
	add := func(typ uint8) {
		tx.Outputs = append(tx.Outputs, &common.Output{Type: typ, Amount: common.NewInteger(1), Keys: []*crypto.Key{&k}, Mask: k, Script: common.NewThresholdScript(1)})
	}
	switch cls {
	case "mint":
		tx.AddUniversalMintInput(uint64(100000+w.seq), common.NewInteger(1))
		add(common.OutputTypeScript)
	case "deposit":
		tx.AddDepositInput(&common.DepositData{Chain: common.EthereumAssetId, AssetKey: "0xvco", Transaction: fmt.Sprint("vco", w.seq), Index: 0, Amount: common.NewInteger(1)})
		add(common.OutputTypeScript)
	default:
		tx.AddInput(vcoHash("vco-in", w.seq), 0)
		add(map[string]uint8{"script": common.OutputTypeScript, "wsubmit": common.OutputTypeWithdrawalSubmit,
			"wclaim": common.OutputTypeWithdrawalClaim, "pledge": common.OutputTypeNodePledge, "cancel": common.OutputTypeNodeCancel,
			"accept": common.OutputTypeNodeAccept, "remove": common.OutputTypeNodeRemove,
			"cupdate": common.OutputTypeCustodianUpdateNodes, "cslash": common.OutputTypeCustodianSlashNodes, "unknown": 0xa2}[cls])
	}
	tx.References = refs
	tx.Extra = []byte(fmt.Sprint("vco", w.seq))
	return tx.AsVersioned()
}

func (w *vcoWorld) snapshot(nodeId crypto.Hash, round uint64, ts int64, txs ...crypto.Hash) *common.Snapshot {
	s := &common.Snapshot{Version: common.SnapshotVersionCommonEncoding, NodeId: nodeId, RoundNumber: round, Timestamp: w.real(ts)}
	for _, h := range txs {
		s.AddTransaction(h)
	}
	s.Hash = s.PayloadHash()
	return s
}

// store the snapshot of a mint operation in the graph (fresh fabricated chain, round 0) so that the
// store can read it back as the last consensus snapshot
func (w *vcoWorld) stash(s *common.Snapshot, ver *common.VersionedTransaction) {
	must := func(err error) {
		if err != nil {
			w.t.Fatalf("stash: %v", err)
		}
	}
	must(w.store.StartNewRound(s.NodeId, 0, nil, 0))
	must(w.store.LockMintInput(ver.Inputs[0].Mint, ver.PayloadHash(), false))
	must(w.store.WriteTransaction(ver))
	w.topo++
	must(w.store.WriteSnapshot(&common.SnapshotWithTopologicalOrder{Snapshot: s, TopologicalOrder: w.topo}, []crypto.Hash{s.NodeId}))
}

func (w *vcoWorld) observeLast() vM {
	var last *common.Snapshot
	res, _ := vCall(func() error {
		var err error
		last, err = w.store.ReadLastConsensusSnapshot()
		return err
	})
	if res != "ok" || last == nil || len(last.Transactions) != 1 {
		return vM{"tx": -1, "ts": -1}
	}
	id, ok := w.ids[last.Transactions[0]]
	if !ok {
		id = -1
	}
	return vM{"tx": id, "ts": w.abs(last.Timestamp)}
}

// offer one operation to the real store
func (w *vcoWorld) write(tr *vTrace, o vcoOp) {
	var ver *common.VersionedTransaction
	if o.Rep {
		ver = w.chain[len(w.chain)-1].tx
	} else {
		ver = w.tx(o.Cls, w.refs(o.Ref))
		w.ids[ver.PayloadHash()] = len(w.chain)
	}
	txs := []crypto.Hash{ver.PayloadHash()}
	if o.N == 2 {
		txs = append(txs, w.tx("script", nil).PayloadHash())
	}
	w.seq++
	s := w.snapshot(vcoHash("vco-node", w.tag, w.seq), uint64(o.N-1), w.tsOf(o.Tsk), txs...)
	if o.Cls == "mint" && o.N == 1 && !o.Rep {
		w.stash(s, ver)
	} else if o.Rep && o.N == 1 {
		// the repeated transaction in a new snapshot: store the snapshot body as well
		must := func(err error) {
			if err != nil {
				w.t.Fatalf("stash: %v", err)
			}
		}
		must(w.store.StartNewRound(s.NodeId, 0, nil, 0))
		w.topo++
		must(w.store.WriteSnapshot(&common.SnapshotWithTopologicalOrder{Snapshot: s, TopologicalOrder: w.topo}, []crypto.Hash{s.NodeId}))
	}
	// the pipeline order of the node: the kernel rule first (validateConsensusTransactionReferences on the
	// very snapshot), then the store; both outcomes are recorded, an abort of either is an outcome
	kres := "na"
	if o.N == 1 {
		kres, _ = vCall(func() error { return w.node.validateConsensusTransactionReferences(s, ver) })
	}
	res, _ := vCall(func() error { return w.store.WriteConsensusSnapshot(s, ver, nil) })
	last := w.observeLast()
	if id, _ := last["tx"].(int); id == len(w.chain) && !o.Rep {
		w.chain = append(w.chain, vcoRec{tx: ver, snap: s})
	}
	tr.Emit(vM{"ev": "write", "o": o, "kres": kres, "res": res, "last": last})
}

// the reference decision table at the current history
func (w *vcoWorld) refTable(tr *vTrace) {
	classes := []string{"script", "deposit", "wsubmit", "wclaim", "mint", "pledge", "cancel", "accept", "remove", "cupdate", "cslash", "unknown"}
	for _, cls := range classes {
		for _, ref := range []string{"last", "older", "none"} {
			for _, tsk := range []string{"lt", "eq", "gt"} {
				for _, rep := range []bool{false, true} {
					if rep && (cls != "mint" || len(w.chain) < 2 || ref != "last") {
						continue
					}
					var ver *common.VersionedTransaction
					if rep {
						ver = w.chain[len(w.chain)-1].tx
					} else {
						ver = w.tx(cls, w.refs(ref))
					}
					s := w.snapshot(w.node.IdForNetwork, 1, w.tsOf(tsk), ver.PayloadHash())
					res, _ := vCall(func() error { return w.node.validateConsensusTransactionReferences(s, ver) })
					tr.Emit(vM{"ev": "refs", "cls": cls, "ref": ref, "tsk": tsk, "rep": rep, "len": len(w.chain), "res": res})
				}
			}
		}
	}
}

// a pledge transaction and snapshot that pass validateNodePledgeSnapshot (amount, hour, elected node)
func (w *vcoWorld) validPledge(refs []crypto.Hash, after uint64) (*common.VersionedTransaction, uint64, crypto.Hash) {
	w.seq++
	signer, payee := vmtAddr(fmt.Sprint("vco-pledge-s", w.tag), w.seq), vmtAddr(fmt.Sprint("vco-pledge-p", w.tag), w.seq)
	tx := common.NewTransactionV5(common.XINAssetId)
	tx.AddInput(vcoHash("vco-pledge-in", w.seq), 0)
	tx.AddOutputWithType(common.OutputTypeNodePledge, nil, common.Script{}, common.KernelNodePledgeAmount, make([]byte, 64))
	tx.Extra = append(signer.PublicSpendKey[:], payee.PublicSpendKey[:]...)
	tx.References = refs
	ts := after
	for !w.node.checkConsensusPledgeHour(ts) {
		ts += uint64(time.Hour)
	}
	return tx.AsVersioned(), ts, w.node.electSnapshotNode(common.TransactionTypeNodePledge, ts)
}

// ---- validateSnapshotTransaction on a store that already holds the members --------------------

// a mint paying to a known address, finalized alone in its own snapshot (fabricated chain, round 0)
func (w *vcoWorld) finalizedMint(owner *common.Address) *common.VersionedTransaction {
	w.seq++
	tx := common.NewTransactionV5(common.XINAssetId)
	tx.AddUniversalMintInput(uint64(500000+w.seq), common.NewInteger(1))
	seed := vcoHash("vst-mint-seed", w.tag, w.seq)
	tx.AddScriptOutput([]*common.Address{owner}, common.NewThresholdScript(1), common.NewInteger(1), append(seed[:], seed[:]...))
	tx.References = w.refs("last")
	ver := tx.AsVersioned()
	w.seq++
	s := w.snapshot(vcoHash("vst-node", w.tag, w.seq), 0, w.lastTs()+10+int64(w.seq), ver.PayloadHash())
	w.stash(s, ver)
	return ver
}

// the hash is far enough from both ends of the hash space for grinding transactions on either side
func vcoModerate(h crypto.Hash) bool { return h[0] >= 0x40 && h[0] < 0xc0 }

// a signed script transaction spending output 0 of src; hash below / above the pivot as requested
func (w *vcoWorld) scriptSpending(src *common.VersionedTransaction, owner *common.Address, pivot crypto.Hash, below bool) *common.VersionedTransaction {
	for i := 0; i < 4000; i++ {
		w.seq++
		tx := common.NewTransactionV5(common.XINAssetId)
		tx.AddInput(src.PayloadHash(), 0)
		seed := vcoHash("vst-script-seed", w.tag, w.seq)
		tx.AddScriptOutput([]*common.Address{owner}, common.NewThresholdScript(1), common.NewInteger(1), append(seed[:], seed[:]...))
		ver := tx.AsVersioned()
		h := ver.PayloadHash()
		if (string(h[:]) < string(pivot[:])) != below {
			continue
		}
		if err := ver.SignInput(w.store, 0, []*common.Address{owner}); err != nil {
			w.t.Fatalf("sign: %v", err)
		}
		return ver
	}
	w.t.Fatalf("hash grinding failed")
	return nil
}

func (w *vcoWorld) place(ver *common.VersionedTransaction, state string) {
	switch state {
	case "cached":
		if err := w.store.CacheStoreTransaction(ver); err != nil {
			w.t.Fatalf("cache: %v", err)
		}
	case "persisted":
		if err := ver.LockInputs(w.store, false); err != nil {
			w.t.Fatalf("lock: %v", err)
		}
		if err := w.store.WriteTransaction(ver); err != nil {
			w.t.Fatalf("write: %v", err)
		}
	}
}

func (w *vcoWorld) vstCases(tr *vTrace) {
	owner := vmtAddr("vst-owner"+w.tag, 0)
	for _, mintFirst := range []bool{false, true} {
		for _, bstate := range []string{"cached", "persisted"} {
			for _, finalized := range []bool{true, false} {
				for _, size := range []int{2, 3} {
					for _, mstate := range []string{"finalized", "missing"} {
						mint := w.finalizedMint(&owner)
						for !vcoModerate(mint.PayloadHash()) {
							mint = w.finalizedMint(&owner)
						}
						pivot := mint.PayloadHash()
						if mstate == "missing" {
							// an unknown transaction hash of the same position
							for pivot = vcoHash("vst-missing", w.tag, w.seq); !vcoModerate(pivot); pivot = vcoHash("vst-missing", w.tag, w.seq) {
								w.seq++
							}
						}
						src := mint
						members := map[crypto.Hash]string{pivot: "mint"}
						states := map[crypto.Hash]string{pivot: mstate}
						hashes := []crypto.Hash{pivot}
						for k := 1; k < size; k++ {
							if k > 1 {
								src = w.finalizedMint(&owner) // another spendable output
							}
							sc := w.scriptSpending(src, &owner, pivot, !mintFirst)
							w.place(sc, bstate)
							members[sc.PayloadHash()], states[sc.PayloadHash()] = "script", bstate
							hashes = append(hashes, sc.PayloadHash())
						}
						s := w.snapshot(w.node.IdForNetwork, 1, w.lastTs()+100000+int64(w.seq), hashes...)
						res, _ := vCall(func() error {
							_, _, err := w.node.validateSnapshotTransaction(s, finalized)
							return err
						})
						cl, st := []string{}, []string{}
						for _, h := range s.Transactions { // the snapshot's own (sorted) order
							cl, st = append(cl, members[h]), append(st, states[h])
						}
						tr.Emit(vM{"ev": "vst", "classes": cl, "states": st, "finalized": finalized, "res": res})
					}
				}
			}
		}
	}
	// all members batchable: accepted (non-vacuity)
	for _, finalized := range []bool{true, false} {
		m1, m2 := w.finalizedMint(&owner), w.finalizedMint(&owner)
		a := w.scriptSpending(m1, &owner, crypto.Hash{}, false)
		b := w.scriptSpending(m2, &owner, crypto.Hash{}, false)
		w.place(a, "cached")
		w.place(b, "persisted")
		s := w.snapshot(w.node.IdForNetwork, 1, w.lastTs()+100000+int64(w.seq), a.PayloadHash(), b.PayloadHash())
		res, _ := vCall(func() error {
			_, _, err := w.node.validateSnapshotTransaction(s, finalized)
			return err
		})
		st := []string{}
		for _, h := range s.Transactions {
			if h == a.PayloadHash() {
				st = append(st, "cached")
			} else {
				st = append(st, "persisted")
			}
		}
		tr.Emit(vM{"ev": "vst", "classes": []string{"script", "script"}, "states": st, "finalized": finalized, "res": res})
	}
}

func TestVerifConsensusOps(t *testing.T) {
	tr := vOpenTrace(t)
	defer tr.Close()
	logger.SetLevel(0)
	var cases vcoCases
	vLoadCases(t, &cases)

	// ---- histories: every edge of the model's graph on the real store
	for wi, walk := range cases.Walks {
		w := vcoNewWorld(t, fmt.Sprintf("co-%d-%d", vSeed(), wi))
		tr.Emit(vM{"ev": "Reset", "last": w.observeLast()})
		for _, e := range walk {
			w.write(tr, e.O)
		}
		if wi < 3 {
			w.refTable(tr)
		}
		w.close()
	}

	// ---- reference decision table at history lengths 1, 2, 3
	w := vcoNewWorld(t, fmt.Sprintf("co-%d-table", vSeed()))
	tr.Emit(vM{"ev": "Reset", "last": w.observeLast()})
	for i := 0; i < 3; i++ {
		w.refTable(tr)
		w.write(tr, vcoOp{Cls: "mint", N: 1, Ref: "last", Tsk: "gt"})
	}

	// ---- validateSnapshotTransaction with members already finalized / persisted / cached
	w.vstCases(tr)

	// ---- snapshot decision table (history: genesis + 3 recorded mint operations)
	remote := w.ids2()[1]
	pledgeAfter := w.real(w.lastTs()) + 48*uint64(time.Hour)
	for _, c := range cases.Snaps {
		k := c.K
		if k.Rep && (len(k.Classes) != 1 || k.Classes[0] != "mint" || k.Ref != "last") {
			continue
		}
		found := map[crypto.Hash]*common.VersionedTransaction{}
		hashes := []crypto.Hash{}
		valid := false
		nodeId := w.node.IdForNetwork
		if !k.Local {
			nodeId = remote
		}
		round := uint64(1)
		if k.Round0 {
			round = 0
		}
		var s *common.Snapshot
		if len(k.Classes) == 1 && k.Classes[0] == "pledge" && k.Tsk == "gt" && !k.Rep && k.Local && !k.Round0 {
			// downstream-valid pledge: only the reference rule can refuse it
			ver, ts, eid := w.validPledge(w.refs(k.Ref), pledgeAfter)
			pledgeAfter = ts + 72*uint64(time.Hour)
			found[ver.PayloadHash()] = ver
			s = &common.Snapshot{Version: common.SnapshotVersionCommonEncoding, NodeId: eid, RoundNumber: 1, Timestamp: ts}
			s.AddTransaction(ver.PayloadHash())
			s.Hash = s.PayloadHash()
			valid = true
			k.Local = eid == w.node.IdForNetwork
		} else {
			for _, cls := range k.Classes {
				var ver *common.VersionedTransaction
				if k.Rep {
					ver = w.chain[len(w.chain)-1].tx
				} else if len(k.Classes) == 1 {
					ver = w.tx(cls, w.refs(k.Ref))
				} else {
					ver = w.tx(cls, nil)
				}
				found[ver.PayloadHash()] = ver
				hashes = append(hashes, ver.PayloadHash())
			}
			s = w.snapshot(nodeId, round, w.tsOf(k.Tsk), hashes...)
		}
		res, _ := vCall(func() error { return w.node.validateKernelSnapshot(s, found, false) })
		tr.Emit(vM{"ev": "ksnap", "classes": k.Classes, "local": k.Local, "round0": k.Round0, "ref": k.Ref, "tsk": k.Tsk,
			"rep": k.Rep, "valid": valid, "res": res})
	}
	w.close()
}

func (w *vcoWorld) ids2() []crypto.Hash {
	list := w.node.NodesListWithoutState(w.node.Epoch+uint64(time.Hour), true)
	out := []crypto.Hash{}
	for _, cn := range list {
		if cn.IdForNetwork != w.node.IdForNetwork {
			out = append(out, cn.IdForNetwork)
		}
	}
	return append([]crypto.Hash{w.node.IdForNetwork}, out...)
}
