package kernel

// Verification harness for C09 (spec/Membership/Cert.tla): finalization certificates.
// It only drives the real code and records what it observed; TLC judges the recorded trace
// against spec/Membership/Trace_Cert.tla.
//
// A world is a generated genesis with known private keys (a network that is not the main
// network), a real kernel.Node built by the real SetupNode over a real BadgerStore, and extra
// member keys. Membership records are appended the way the ledger gets them (a minimal
// transaction with the membership output type and extra = signer||payee, store.WriteTransaction
// + store.WriteSnapshot, then node.LoadConsensusNodes()). A query builds a snapshot, signs it
// with real CoSi (crypto.CosiCommitNonce / CosiAggregateCommitment / CosiNonce.Response /
// AggregateResponse) using the private keys of the requested members, sets the requested mask,
// and calls Chain.verifyFinalization three times: as is, again (memo hit), and with an empty memo.
//
// Abstract node numbers = rank of the node id (hex string order, the code's tie-break) among all
// keys of the world. Abstract time: 1 tick = 10 s, real = Epoch + 10 s * tick.

import (
	"encoding/binary"
	"encoding/json"
	"fmt"
	"math/rand"
	"os"
	"sort"
	"strings"
	"sync"
	"testing"
	"time"

	"github.com/MixinNetwork/mixin/common"
	"github.com/MixinNetwork/mixin/config"
	"github.com/MixinNetwork/mixin/crypto"
	"github.com/MixinNetwork/mixin/kernel/internal"
	"github.com/MixinNetwork/mixin/storage"
	"github.com/dgraph-io/ristretto/v2"
)

const (
	v09Tick  = int64(10 * time.Second)
	v09Epoch = int64(1577836800) // 2020-01-01T00:00:00Z
)

type v09Step struct {
	Op string `json:"op"` // append | query
	// append
	Node string `json:"node,omitempty"` // role: g<k> k-th genesis node, x<k> k-th extra key (id order)
	St   string `json:"st,omitempty"`
	Ts   int64  `json:"ts,omitempty"`
	// query
	Sid     string   `json:"sid,omitempty"` // one signing act; a repeated sid re-submits the same snapshot
	T       int64    `json:"t,omitempty"`
	Chain   string   `json:"chain,omitempty"`
	Round   uint64   `json:"round,omitempty"`
	Ver     string   `json:"ver,omitempty"`
	Msg     string   `json:"msg,omitempty"`
	Tamper  string   `json:"tamper,omitempty"`
	Mask    []int    `json:"mask"`            // explicit bit positions (TLC-generated cases) ...
	By      []string `json:"by"`              // ... and signing members
	AltMask []int    `json:"altmask"`         // submit the signature bytes of sid under this other mask ...
	AltV    string   `json:"altv,omitempty"`  // ... or "swap": one signer bit swapped for a non-signer bit
	MaskV   string   `json:"maskv,omitempty"` // or variants relative to the view at signing time
	SigV    string   `json:"sigv,omitempty"`
	Tag     string   `json:"tag,omitempty"`
}

type v09WorldCase struct {
	Id    string    `json:"id"`
	G     int       `json:"g"`
	X     int       `json:"x"`
	Steps []v09Step `json:"steps"`
}

type v09Cases struct {
	Worlds []v09WorldCase `json:"worlds"`
}

type v09Member struct {
	signer  common.Address
	payee   common.Address
	id      crypto.Hash
	rank    int
	genesis bool
	lastTx  crypto.Hash
}

type v09Signed struct {
	snap   *common.Snapshot
	mask   []int
	by     []int
	msg    string
	tamper string
	ver    string
}

type v09World struct {
	dir     string
	gns     *common.Genesis
	network crypto.Hash
	epoch   uint64
	members []*v09Member
	gen     []*v09Member
	extra   []*v09Member
	byId    map[crypto.Hash]*v09Member
	carrier crypto.Hash
	store   storage.Store
	node    *Node
	cache   *ristretto.Cache[[]byte, any]
	topo    uint64
	signed  map[string]*v09Signed
	chains  map[crypto.Hash]*Chain // chain objects built since the last membership record
}

type v09HarnessError struct{ msg string }

func v09Fail(format string, a ...any) {
	panic(&v09HarnessError{fmt.Sprintf(format, a...)})
}

func v09Address(label string) common.Address {
	seed := crypto.Blake3Hash([]byte(label))
	spend := crypto.NewKeyFromSeed(append(seed[:], seed[:]...))
	var a common.Address
	a.PrivateSpendKey = spend
	a.PublicSpendKey = spend.Public()
	a.PrivateViewKey = a.PublicSpendKey.DeterministicHashDerive()
	a.PublicViewKey = a.PrivateViewKey.Public()
	return a
}

func v09NewCache() *ristretto.Cache[[]byte, any] {
	cache, err := ristretto.NewCache(&ristretto.Config[[]byte, any]{NumCounters: 1e5, MaxCost: 1 << 26, BufferItems: 64})
	if err != nil {
		v09Fail("cache: %v", err)
	}
	return cache
}

func v09TempDir() string {
	base := ""
	if st, err := os.Stat("/dev/shm"); err == nil && st.IsDir() {
		base = "/dev/shm" // the store syncs every commit; durability is not what C09 is about
	}
	d, err := os.MkdirTemp(base, "verif09-")
	if err != nil {
		d, err = os.MkdirTemp("", "verif09-")
		if err != nil {
			v09Fail("tempdir: %v", err)
		}
	}
	return d
}

func v09NewWorld(wc *v09WorldCase, salt string) *v09World {
	w := &v09World{byId: map[crypto.Hash]*v09Member{}, signed: map[string]*v09Signed{}}
	var sb strings.Builder
	cust := v09Address(salt + "/custodian")
	fmt.Fprintf(&sb, `{"epoch":%d,"custodian":%q,"nodes":[`, v09Epoch, cust.String())
	var all []*v09Member
	for i := 0; i < wc.G; i++ {
		m := &v09Member{signer: v09Address(fmt.Sprintf("%s/gs/%d", salt, i)), payee: v09Address(fmt.Sprintf("%s/gp/%d", salt, i)), genesis: true}
		nc := v09Address(fmt.Sprintf("%s/gc/%d", salt, i))
		if i > 0 {
			sb.WriteString(",")
		}
		fmt.Fprintf(&sb, `{"signer":%q,"payee":%q,"custodian":%q,"balance":"13439"}`, m.signer.String(), m.payee.String(), nc.String())
		all = append(all, m)
	}
	sb.WriteString("]}")
	var gns common.Genesis
	if err := json.Unmarshal([]byte(sb.String()), &gns); err != nil {
		v09Fail("genesis: %v", err)
	}
	w.gns = &gns
	w.network = gns.NetworkId()
	if w.network.String() == config.KernelNetworkId {
		v09Fail("generated network is the main network")
	}
	w.epoch = gns.EpochTimestamp()
	for i := 0; i < wc.X; i++ {
		all = append(all, &v09Member{signer: v09Address(fmt.Sprintf("%s/xs/%d", salt, i)), payee: v09Address(fmt.Sprintf("%s/xp/%d", salt, i))})
	}
	for _, m := range all {
		m.id = m.signer.Hash().ForNetwork(w.network)
		w.byId[m.id] = m
	}
	sort.Slice(all, func(i, j int) bool { return all[i].id.String() < all[j].id.String() })
	for i, m := range all {
		m.rank = i + 1
		if m.genesis {
			w.gen = append(w.gen, m)
		} else {
			w.extra = append(w.extra, m)
		}
	}
	w.members = all
	w.carrier = gns.Nodes[0].Signer.Hash().ForNetwork(w.network)
	_, _, txs, err := gns.BuildSnapshots()
	if err != nil {
		v09Fail("genesis snapshots: %v", err)
	}
	for i, in := range gns.Nodes {
		w.byId[in.Signer.Hash().ForNetwork(w.network)].lastTx = txs[i].PayloadHash()
	}

	w.dir = v09TempDir()
	custom := &config.Custom{}
	custom.Node.Signer = w.gen[0].signer.PrivateSpendKey
	custom.Node.KernelOprationPeriod = 700
	custom.Node.MemoryCacheSize = 16
	custom.Node.CacheTTL = 7200
	w.cache = v09NewCache()
	store, err := storage.NewBadgerStore(custom, w.dir)
	if err != nil {
		v09Fail("store: %v", err)
	}
	w.store = store
	node, err := SetupNode(custom, store, w.cache, w.gns)
	if err != nil {
		v09Fail("SetupNode: %v", err)
	}
	w.node = node
	w.topo = node.TopoCounter.seq + 1
	return w
}

func (w *v09World) close() {
	func() {
		defer func() { recover() }()
		close(w.node.done)
	}()
	w.cache.Close()
	w.store.Close()
	os.RemoveAll(w.dir)
}

func (w *v09World) member(role string) *v09Member {
	var k int
	if len(role) < 2 {
		v09Fail("bad role %q", role)
	}
	if _, err := fmt.Sscanf(role[1:], "%d", &k); err != nil || k < 1 {
		v09Fail("bad role %q", role)
	}
	switch {
	case role[0] == 'g' && k <= len(w.gen):
		return w.gen[k-1]
	case role[0] == 'x' && k <= len(w.extra):
		return w.extra[k-1]
	}
	v09Fail("bad role %q", role)
	return nil
}

func (w *v09World) real(tick int64) uint64 {
	return uint64(int64(w.epoch) + tick*v09Tick)
}

func (w *v09World) rankOf(id crypto.Hash) int {
	if m := w.byId[id]; m != nil {
		return m.rank
	}
	return 0
}

func (w *v09World) ranks(ids []crypto.Hash) []int {
	out := make([]int, len(ids))
	for i, id := range ids {
		out[i] = w.rankOf(id)
	}
	return out
}

// the durable membership history as the store reports it
func (w *v09World) history() []vM {
	out := []vM{}
	for _, n := range w.store.ReadAllNodes(^uint64(0)>>1, true) {
		d := int64(n.Timestamp) - int64(w.epoch)
		tick := int64(99999999)
		if d%v09Tick == 0 {
			tick = d / v09Tick
		}
		out = append(out, vM{"n": w.rankOf(n.IdForNetwork(w.network)), "ts": tick, "st": n.State})
	}
	return out
}

func (w *v09World) appendRecord(m *v09Member, st string, tick int64) (string, string) {
	tx := common.NewTransactionV5(common.XINAssetId)
	amount := common.NewInteger(1)
	spend := true
	switch st {
	case common.NodeStatePledging:
		tx.Inputs = []*common.Input{{Genesis: w.network[:]}}
		tx.AddOutputWithType(common.OutputTypeNodePledge, nil, common.Script{}, amount, []byte{})
		spend = false
	case common.NodeStateAccepted:
		tx.AddInput(m.lastTx, 0)
		tx.AddOutputWithType(common.OutputTypeNodeAccept, nil, common.Script{}, amount, []byte{})
	case common.NodeStateCancelled:
		tx.AddInput(m.lastTx, 0)
		si := crypto.Blake3Hash([]byte(fmt.Sprintf("v09-cancel-%s-%d", m.id, tick)))
		tx.AddOutputWithType(common.OutputTypeNodeCancel, []*common.Address{&m.payee}, common.NewThresholdScript(1), amount, append(si[:], si[:]...))
	case common.NodeStateRemoved:
		tx.AddInput(m.lastTx, 0)
		si := crypto.Blake3Hash([]byte(fmt.Sprintf("v09-remove-%s-%d", m.id, tick)))
		tx.AddOutputWithType(common.OutputTypeNodeRemove, []*common.Address{&m.payee}, common.NewThresholdScript(1), amount, append(si[:], si[:]...))
	default:
		v09Fail("bad state %q", st)
	}
	tx.Extra = append(append([]byte{}, m.signer.PublicSpendKey[:]...), m.payee.PublicSpendKey[:]...)
	if !spend {
		// make the pledge transaction unique per (node, time)
		tx.Extra = append(tx.Extra, []byte(fmt.Sprintf("%d", tick))...)
	}
	ver := tx.AsVersioned()
	res, detail := vCall(func() error {
		head, err := w.store.ReadRound(w.carrier)
		if err != nil {
			return err
		}
		if spend {
			if err := w.store.LockUTXOs(ver.Inputs, ver.PayloadHash(), false); err != nil {
				return err
			}
		}
		if err := w.store.WriteTransaction(ver); err != nil {
			return err
		}
		s := &common.Snapshot{Version: common.SnapshotVersionCommonEncoding, NodeId: w.carrier,
			RoundNumber: head.Number, References: head.References, Timestamp: w.real(tick)}
		s.AddTransaction(ver.PayloadHash())
		s.Hash = s.PayloadHash()
		topo := &common.SnapshotWithTopologicalOrder{Snapshot: s, TopologicalOrder: w.topo}
		if err := w.store.WriteSnapshot(topo, nil); err != nil {
			return err
		}
		w.topo++
		return w.node.LoadConsensusNodes()
	})
	w.chains = nil
	if res == "ok" {
		m.lastTx = ver.PayloadHash()
	}
	return res, detail
}

type v09DetReader struct {
	state crypto.Hash
}

func (r *v09DetReader) Read(b []byte) (int, error) {
	for i := 0; i < len(b); i += 32 {
		r.state = crypto.Blake3Hash(r.state[:])
		copy(b[i:], r.state[:])
	}
	return len(b), nil
}

// a real CoSi aggregate signature by the given members over msg
func (w *v09World) cosiSign(by []*v09Member, msg crypto.Hash, sid string) crypto.Signature {
	var out crypto.Signature
	if len(by) == 0 {
		return out
	}
	rd := &v09DetReader{state: crypto.Blake3Hash([]byte("v09-nonce/" + sid))}
	publics := make([]*crypto.Key, len(by))
	nonces := make(map[int]*crypto.CosiNonce, len(by))
	commitments := make(map[int]*crypto.Key, len(by))
	for i, m := range by {
		publics[i] = &m.signer.PublicSpendKey
		nonce := crypto.CosiCommitNonce(rd)
		c := nonce.Public()
		nonces[i], commitments[i] = nonce, &c
	}
	sig, err := crypto.CosiAggregateCommitment(commitments)
	if err != nil {
		v09Fail("CosiAggregateCommitment: %v", err)
	}
	responses := make(map[int]*[32]byte, len(by))
	for i, m := range by {
		priv := m.signer.PrivateSpendKey
		resp, err := nonces[i].Response(sig, &priv, publics, msg)
		if err != nil {
			v09Fail("cosi response: %v", err)
		}
		responses[i] = resp
	}
	if err := sig.AggregateResponse(publics, responses, msg, true); err != nil {
		v09Fail("AggregateResponse: %v", err)
	}
	return sig.Signature
}

func v09Min(a, b int) int {
	if a < b {
		return a
	}
	return b
}

func v09Range(a, b int) []int { // a..b inclusive
	var out []int
	for i := a; i <= b; i++ {
		if i >= 0 && i < 64 {
			out = append(out, i)
		}
	}
	return out
}

// variants relative to the view the real node has when the certificate is made
func (w *v09World) shape(st *v09Step, keys []crypto.Hash, thr int) ([]int, []*v09Member, string, string, string) {
	sh := crypto.Blake3Hash([]byte("v09-shape/" + st.Sid))
	rng := rand.New(rand.NewSource(int64(binary.BigEndian.Uint64(sh[:8]) >> 1)))
	n := len(keys)
	m := v09Min(thr, n)
	var mask []int
	switch st.MaskV {
	case "exact":
		mask = v09Range(0, m-1)
	case "minus":
		mask = v09Range(0, m-2)
	case "plus":
		mask = v09Range(0, v09Min(m, n-1))
	case "top":
		mask = v09Range(n-m, n-1)
	case "oob":
		mask = append(v09Range(0, m-2), n)
	case "bit63":
		mask = append(v09Range(0, m-2), 63)
	case "all":
		mask = v09Range(0, n-1)
	case "empty":
		mask = nil
	default: // "rand": a random subset of about threshold size, sometimes with a stray bit
		size := m - 1 + rng.Intn(3)
		perm := rng.Perm(v09Min(n+1, 64))
		for _, i := range perm {
			if len(mask) < size && (i < n || rng.Intn(4) == 0) {
				mask = append(mask, i)
			}
		}
		sort.Ints(mask)
	}
	in := map[int]bool{}
	var by []*v09Member
	stray := false
	for _, i := range mask {
		if i < n {
			if mb := w.byId[keys[i]]; mb != nil && !in[mb.rank] {
				in[mb.rank] = true
				by = append(by, mb)
			}
		} else {
			stray = true
		}
	}
	var spare []*v09Member
	inKeys := map[crypto.Hash]bool{}
	for _, k := range keys {
		inKeys[k] = true
	}
	for _, mb := range w.members {
		if !in[mb.rank] {
			spare = append(spare, mb)
		}
	}
	if stray {
		for _, mb := range w.members {
			if !inKeys[mb.id] && !in[mb.rank] {
				by = append(by, mb)
				in[mb.rank] = true
				break
			}
		}
	}
	msg, tamper, ver := "hash", "none", "v2"
	switch st.SigV {
	case "wrongmsg":
		msg = "other"
	case "swap":
		if len(by) > 0 && len(spare) > 0 {
			by = append(by[:len(by)-1:len(by)-1], spare[rng.Intn(len(spare))])
		}
	case "drop":
		if len(by) > 0 {
			by = by[:len(by)-1]
		}
	case "extra":
		if len(spare) > 0 {
			by = append(by, spare[rng.Intn(len(spare))])
		}
	case "tamperR":
		tamper = "R"
	case "tamperS":
		tamper = "S"
	case "oldver":
		ver = "old"
	}
	return mask, by, msg, tamper, ver
}

// one in-range signer bit swapped for a non-signer bit (equal popcount)
func v09SwapBit(mask []int, n int) []int {
	in := map[int]bool{}
	drop := -1
	for _, i := range mask {
		in[i] = true
		if i < n && i > drop {
			drop = i
		}
	}
	if drop < 0 {
		return append([]int{}, mask...)
	}
	add := n
	for i := 0; i < n; i++ {
		if !in[i] {
			add = i
			break
		}
	}
	if add > 63 {
		return append([]int{}, mask...)
	}
	out := []int{add}
	for _, i := range mask {
		if i != drop {
			out = append(out, i)
		}
	}
	sort.Ints(out)
	return out
}

func (w *v09World) query(st *v09Step) vM {
	ts := w.real(st.T)
	var chainId crypto.Hash
	cm := w.member(st.Chain)
	chainId = cm.id
	ev := vM{"ev": "Query", "sid": st.Sid, "t": st.T, "chain": cm.rank, "round": st.Round, "tag": st.Tag}
	var chain *Chain
	var keyIds []crypto.Hash
	thr := 0
	res, detail := vCall(func() error {
		if w.chains == nil {
			w.chains = map[crypto.Hash]*Chain{}
		}
		if chain = w.chains[chainId]; chain == nil {
			chain = w.node.buildChain(chainId)
			w.chains[chainId] = chain
		}
		keyIds, _ = chain.ConsensusKeys(st.Round, ts)
		thr = w.node.ConsensusThreshold(ts, true)
		return nil
	})
	if res != "ok" {
		v09Fail("view of the real node failed (%s): %s", res, detail)
	}
	ev["ispledging"] = chain.IsPledging()
	ev["keys"] = w.ranks(keyIds)
	ev["thr"] = thr

	sg := w.signed[st.Sid]
	reused := sg != nil
	if sg == nil {
		sg = &v09Signed{}
		var by []*v09Member
		if st.MaskV != "" {
			sg.mask, by, sg.msg, sg.tamper, sg.ver = w.shape(st, keyIds, thr)
		} else {
			sg.mask, sg.msg, sg.tamper, sg.ver = st.Mask, st.Msg, st.Tamper, st.Ver
			for _, r := range st.By {
				by = append(by, w.member(r))
			}
		}
		sort.Slice(by, func(i, j int) bool { return by[i].rank < by[j].rank })
		sg.by = []int{}
		for _, mb := range by {
			sg.by = append(sg.by, mb.rank)
		}
		if sg.mask == nil {
			sg.mask = []int{}
		}
		s := &common.Snapshot{Version: common.SnapshotVersionCommonEncoding, NodeId: chainId, RoundNumber: st.Round, Timestamp: ts}
		s.AddTransaction(crypto.Blake3Hash([]byte("v09-tx/" + st.Sid)))
		s.Hash = s.PayloadHash()
		msg := s.Hash
		if sg.msg != "hash" {
			msg = crypto.Blake3Hash(append([]byte("v09-other/"), s.Hash[:]...))
		}
		sig := w.cosiSign(by, msg, st.Sid)
		switch sg.tamper {
		case "R":
			sig[7] ^= 0x10
		case "S":
			sig[40] ^= 0x01
		}
		var mask uint64
		for _, i := range sg.mask {
			mask |= uint64(1) << uint(i)
		}
		s.Signature = &crypto.CosiSignature{Signature: sig, Mask: mask}
		if sg.ver != "v2" {
			s.Version = 1
		}
		sg.snap = s
		w.signed[st.Sid] = sg
	}
	ev["reused"] = reused
	// the submitted snapshot: the signing act's own mask, or the same hash and signature bytes
	// under an altered mask of equal popcount
	submitted, subMask := sg.snap, sg.mask
	if st.AltMask != nil || st.AltV != "" {
		alt := st.AltMask
		if alt == nil {
			alt = v09SwapBit(sg.mask, len(keyIds))
		}
		cp := *sg.snap
		var bits uint64
		for _, i := range alt {
			bits |= uint64(1) << uint(i)
		}
		cp.Signature = &crypto.CosiSignature{Signature: sg.snap.Signature.Signature, Mask: bits}
		submitted, subMask = &cp, alt
		ev["alt"] = true
		ev["sigmask"] = sg.mask
	}
	ev["mask"], ev["by"], ev["msg"], ev["tamper"], ev["ver"] = subMask, sg.by, sg.msg, sg.tamper, sg.ver

	verify := func() (string, []int) {
		var signers []crypto.Hash
		var final bool
		r, _ := vCall(func() error {
			signers, final = chain.verifyFinalization(submitted)
			return nil
		})
		if r != "ok" {
			return "panic", []int{}
		}
		if final {
			return "final", w.ranks(signers)
		}
		return "no", []int{}
	}
	ev["r1"], ev["s1"] = verify()
	w.node.cacheStore.Wait()
	ev["r2"], ev["s2"] = verify()
	fresh := v09NewCache()
	w.node.cacheStore = fresh
	ev["r3"], ev["s3"] = verify()
	w.node.cacheStore = w.cache
	fresh.Close()
	return ev
}

func (w *v09World) run(wc *v09WorldCase, emit func(vM)) {
	gen := make([]int, len(w.gen))
	for i, m := range w.gen {
		gen[i] = m.rank
	}
	emit(vM{"ev": "Reset", "w": wc.Id, "gen": gen, "pool": len(w.members), "hist": w.history(), "network": w.network.String()})
	for i := range wc.Steps {
		st := &wc.Steps[i]
		switch st.Op {
		case "append":
			m := w.member(st.Node)
			res, detail := w.appendRecord(m, st.St, st.Ts)
			ev := vM{"ev": "Append", "rec": vM{"n": m.rank, "ts": st.Ts, "st": st.St}, "res": res, "hist": w.history()}
			if res != "ok" {
				ev["detail"] = detail
			}
			emit(ev)
		case "query":
			emit(w.query(st))
		default:
			v09Fail("unknown step %q", st.Op)
		}
	}
}

func TestVerifCert(t *testing.T) {
	tr := vOpenTrace(t)
	defer tr.Close()
	var cases v09Cases
	vLoadCases(t, &cases)
	was := internal.MockRunAggregators()
	internal.ToggleMockRunAggregators(true)
	defer internal.ToggleMockRunAggregators(was)
	seed := vSeed()
	n := len(cases.Worlds)
	out := make([][]vM, n)
	errs := make([]string, n)
	par := vEnvInt("VERIF_PAR", 8)
	if par < 1 {
		par = 1
	}
	jobs := make(chan int)
	var wg sync.WaitGroup
	for p := 0; p < par; p++ {
		wg.Add(1)
		go func() {
			defer wg.Done()
			for wi := range jobs {
				func() {
					defer func() {
						if r := recover(); r != nil {
							if he, ok := r.(*v09HarnessError); ok {
								errs[wi] = he.msg
							} else {
								errs[wi] = fmt.Sprintf("panic: %v", r)
							}
						}
					}()
					wc := &cases.Worlds[wi]
					w := v09NewWorld(wc, fmt.Sprintf("v09/%d/%s", seed, wc.Id))
					defer w.close()
					w.run(wc, func(m vM) { out[wi] = append(out[wi], m) })
				}()
			}
		}()
	}
	for i := 0; i < n; i++ {
		jobs <- i
	}
	close(jobs)
	wg.Wait()
	for i, e := range errs {
		if e != "" {
			t.Fatalf("harness failure in world %s: %s", cases.Worlds[i].Id, e)
		}
	}
	for _, evs := range out {
		for _, e := range evs {
			tr.Emit(e)
		}
	}
}
