package kernel

// Harnesses of spec/Rounds (properties C19 and C20).
//
// C19: replays candidate sequences on a real CacheRound (validateSnapshot / asFinal) and records
// the real outcome and the real Snapshots slice after every call. Verdicts come from TLC
// (spec/Rounds/Trace_Rounds19.tla); nothing is asserted here.
//
// Time concretization (DESIGN.md 3.3): abstract t = 4*u + e  <->  real = vrBase + u*0.5s + e ns.

import (
	"encoding/json"
	"fmt"
	"math/rand"
	"os"
	"sort"
	"sync"
	"testing"

	"github.com/MixinNetwork/mixin/common"
	"github.com/MixinNetwork/mixin/config"
	"github.com/MixinNetwork/mixin/crypto"
	"github.com/MixinNetwork/mixin/kernel/internal"
	"github.com/MixinNetwork/mixin/storage"
	"github.com/dgraph-io/ristretto/v2"
)

const (
	vrDay  = uint64(24 * 3600 * 1000000000)
	vrHalf = uint64(500000000)
	vrBase = 19676 * vrDay // 2023-11-15, a multiple of one day, far below 2^63
)

func vrReal(t int64) uint64 {
	u := (t + 1) / 4
	if t < 0 {
		panic("abstract time must be non-negative")
	}
	e := t - 4*u
	if e < -1 || e > 1 {
		panic(fmt.Sprintf("abstract time %d not of the form 4u+e", t))
	}
	return uint64(int64(vrBase) + u*int64(vrHalf) + e)
}

// inverse of vrReal; ok=false when the real value is not on the abstract lattice
func vrAbs(real uint64) (int64, bool) {
	d := int64(real) - int64(vrBase)
	if d < -1 {
		return 0, false
	}
	u := (d + int64(vrHalf)/2) / int64(vrHalf)
	e := d - u*int64(vrHalf)
	if e < -1 || e > 1 {
		return 0, false
	}
	return 4*u + e, true
}

type vrSnap struct {
	H   int   `json:"h"`
	Ts  int64 `json:"ts"`
	Txs []int `json:"txs"`
}

type vrOp struct {
	Op  string  `json:"op"`
	S   *vrSnap `json:"s,omitempty"`
	Add bool    `json:"add"`
}

type vrCases struct {
	Walks  [][]vrOp `json:"walks"`
	Random int      `json:"random"`
}

type vrWorld struct {
	salt  string
	node  crypto.Hash
	round *CacheRound
	hid   map[crypto.Hash]int
	tid   map[crypto.Hash]int
}

func vrHash(parts ...any) crypto.Hash {
	return crypto.Blake3Hash([]byte(fmt.Sprint(parts...)))
}

func vrNewWorld(salt string) *vrWorld {
	w := &vrWorld{salt: salt, hid: map[crypto.Hash]int{}, tid: map[crypto.Hash]int{}}
	w.node = vrHash("vr-node", salt)
	w.round = &CacheRound{
		NodeId:     w.node,
		Number:     7,
		Timestamp:  vrBase,
		References: &common.RoundLink{Self: vrHash("vr-self", salt), External: vrHash("vr-ext", salt)},
		index:      newRoundIndexCache(),
	}
	return w
}

func (w *vrWorld) snapshot(a *vrSnap) *common.Snapshot {
	s := &common.Snapshot{
		Version:     common.SnapshotVersionCommonEncoding,
		NodeId:      w.node,
		RoundNumber: w.round.Number,
		Timestamp:   vrReal(a.Ts),
	}
	for _, t := range a.Txs {
		h := vrHash("vr-tx", w.salt, t)
		w.tid[h] = t
		s.Transactions = append(s.Transactions, h)
	}
	// the Hash field is what the round logic reads; it is assigned independently of the content so
	// that the hash test of validateSnapshot is exercised on its own
	s.Hash = vrHash("vr-snap", w.salt, a.H)
	w.hid[s.Hash] = a.H
	return s
}

func (w *vrWorld) obs() []vM {
	out := make([]vM, 0, len(w.round.Snapshots))
	for _, s := range w.round.Snapshots {
		ts, ok := vrAbs(s.Timestamp)
		if !ok {
			ts = -1
		}
		h, ok := w.hid[s.Hash]
		if !ok {
			h = -1
		}
		txs := make([]int, 0, len(s.Transactions))
		for _, t := range s.Transactions {
			id, ok := w.tid[t]
			if !ok {
				id = -1
			}
			txs = append(txs, id)
		}
		sort.Ints(txs)
		out = append(out, vM{"h": h, "ts": ts, "txs": txs})
	}
	return out
}

func (w *vrWorld) step(tr *vTrace, op vrOp) {
	switch op.Op {
	case "Validate":
		s := w.snapshot(op.S)
		res, _ := vCall(func() error { return w.round.validateSnapshot(s, op.Add) })
		txs := op.S.Txs
		if txs == nil {
			txs = []int{}
		}
		tr.Emit(vM{"ev": "Validate", "s": vM{"h": op.S.H, "ts": op.S.Ts, "txs": txs}, "add": op.Add,
			"res": res, "obs": w.obs()})
	case "AsFinal":
		var f *FinalRound
		res, _ := vCall(func() error { f = w.round.asFinal(); return nil })
		start, end := int64(0), int64(0)
		if res == "ok" && f == nil {
			res = "nil"
		} else if res == "ok" {
			var ok1, ok2 bool
			start, ok1 = vrAbs(f.Start)
			end, ok2 = vrAbs(f.End)
			if !ok1 || !ok2 {
				start, end = -1, -1
			}
		}
		tr.Emit(vM{"ev": "AsFinal", "res": res, "start": start, "end": end, "obs": w.obs()})
	default:
		panic("unknown op " + op.Op)
	}
}

// random candidate sequences on the abstract lattice, not restricted to the model's grid:
// half-second positions in a window around a day boundary, e in {-1,0,1}, few hashes and
// transactions so that repeats and overlaps are frequent.
func vrRandomWalk(rng *rand.Rand) []vrOp {
	day := int64(691200)
	center := day*int64(2+rng.Intn(3)) + int64(4*(rng.Intn(17)-8))
	if rng.Intn(3) == 0 {
		center += int64(4 * (1000 + rng.Intn(100000)))
	}
	n := 3 + rng.Intn(8)
	ops := make([]vrOp, 0, 2*n)
	for i := 0; i < n; i++ {
		u := rng.Intn(15) - 7
		if rng.Intn(4) == 0 {
			u = []int{-6, 6, 0, -12, 12}[rng.Intn(5)]
		}
		t := center + int64(4*u) + int64(rng.Intn(3)-1)
		var txs []int
		for k := 0; k < 1+rng.Intn(2); k++ {
			x := 1 + rng.Intn(9)
			dup := false
			for _, y := range txs {
				dup = dup || y == x
			}
			if !dup {
				txs = append(txs, x)
			}
		}
		sort.Ints(txs)
		ops = append(ops, vrOp{Op: "Validate", S: &vrSnap{H: 1 + rng.Intn(8), Ts: t, Txs: txs}, Add: rng.Intn(6) != 0})
		if rng.Intn(3) == 0 {
			ops = append(ops, vrOp{Op: "AsFinal"})
		}
	}
	ops = append(ops, vrOp{Op: "AsFinal"})
	return ops
}

func TestVerifRounds19(t *testing.T) {
	tr := vOpenTrace(t)
	defer tr.Close()
	var cases vrCases
	vLoadCases(t, &cases)
	rng := rand.New(rand.NewSource(vSeed()))
	for i := 0; i < cases.Random; i++ {
		cases.Walks = append(cases.Walks, vrRandomWalk(rng))
	}
	for i, walk := range cases.Walks {
		w := vrNewWorld(fmt.Sprintf("%d-%d", vSeed(), i))
		tr.Emit(vM{"ev": "Reset"})
		for _, op := range walk {
			w.step(tr, op)
		}
	}
}

// =============================================================================================
// C20: round transitions on a real kernel.Node over a real BadgerStore with a generated 7-node
// genesis. Operations (spec/Rounds/Rounds.tla part 2): Add (a snapshot into the head round through
// the real Chain.AddSnapshot), Start (startNewRoundAndPersist), Update
// (updateEmptyHeadRoundAndPersist). After every operation the durable (ReadRound, ReadLink) and
// the in-memory (ChainState) chain state of every chain is recorded. Round hashes are reported as
// references {k,c,n}: F = final round n of chain c, H = identifier of chain c, U = anything else.

const (
	vgNC    = 7
	vgEpoch = 1551312000
)

type vgRef struct {
	K string `json:"k"`
	C int    `json:"c"`
	N uint64 `json:"n"`
}

type vgOp struct {
	Op     string `json:"op"`
	C      int    `json:"c"`
	Self   string `json:"self"`
	Ext    *vgRef `json:"ext"`
	Early  bool   `json:"early"`
	Fin    bool   `json:"fin"`
	Strict bool   `json:"strict"`
}

type vgCases struct {
	Walks [][]vgOp `json:"walks"`
}

type vgWorld struct {
	t      testing.TB
	dir    string
	tag    string
	gns    *common.Genesis
	custom *config.Custom
	ids    []crypto.Hash
	store  *storage.BadgerStore
	cache  *ristretto.Cache[[]byte, any]
	node   *Node
	// finals[c-1][n]: hash of final round n of chain c, computed by the harness from the snapshots it
	// put into the round (common.ComputeRoundHash), independently of the chain state under test
	finals [][]crypto.Hash
	// snapshots the harness added to the current head round of each chain
	head [][]*common.Snapshot
	refs map[crypto.Hash]vgRef
	late bool // the clock has jumped six hours ahead (era 1)
	seq  int
}

var (
	vgGenesisOnce   sync.Once
	vgGenesisRounds []*common.Round
	vgGenesisErr    error
)

func vgGenesisDoc() *common.Genesis {
	inputs := make([]map[string]string, 0)
	for i := 0; i < vgNC; i++ {
		inputs = append(inputs, map[string]string{
			"signer": vgAddr("SIGNER", i).String(), "payee": vgAddr("PAYEE", i).String(),
			"custodian": vgAddr("CUSTODIAN", i).String(), "balance": "13439",
		})
	}
	genesis := map[string]any{"epoch": vgEpoch, "nodes": inputs, "custodian": vgAddr("SIGNER", 0).String()}
	data, err := json.Marshal(genesis)
	if err != nil {
		panic(err)
	}
	var gns common.Genesis
	if err := json.Unmarshal(data, &gns); err != nil {
		panic(err)
	}
	return &gns
}

// the genesis rounds are identical for every world (same generated keys)
func vgGenesis() ([]*common.Round, error) {
	vgGenesisOnce.Do(func() {
		vgGenesisRounds, _, _, vgGenesisErr = vgGenesisDoc().BuildSnapshots()
	})
	return vgGenesisRounds, vgGenesisErr
}

func vgAddr(tag string, i int) common.Address {
	h := crypto.Blake3Hash([]byte(fmt.Sprintf("vg-%s-%d", tag, i)))
	h2 := crypto.Blake3Hash(h[:])
	a := common.NewAddressFromSeed(append(h[:], h2[:]...))
	a.PrivateViewKey = a.PublicSpendKey.DeterministicHashDerive()
	a.PublicViewKey = a.PrivateViewKey.Public()
	return a
}

func vgNewWorld(t testing.TB, dir, tag string) *vgWorld {
	w := &vgWorld{t: t, dir: dir, tag: tag, refs: map[crypto.Hash]vgRef{}}
	var signers []common.Address
	for i := 0; i < vgNC; i++ {
		signers = append(signers, vgAddr("SIGNER", i))
	}
	w.gns = vgGenesisDoc()
	netId := w.gns.NetworkId()
	for i := range signers {
		w.ids = append(w.ids, signers[i].Hash().ForNetwork(netId))
	}
	conf := fmt.Sprintf("[node]\nsigner-key = \"%s\"\nconsensus-only = true\nmemory-cache-size = 16\ncache-ttl = 7200\n[network]\nlistener = \"127.0.0.1:7239\"\n",
		signers[0].PrivateSpendKey.String())
	if err := os.WriteFile(dir+"/config.toml", []byte(conf), 0644); err != nil {
		t.Fatal(err)
	}
	custom, err := config.Initialize(dir + "/config.toml")
	if err != nil {
		t.Fatal(err)
	}
	w.custom = custom
	cache, err := ristretto.NewCache(&ristretto.Config[[]byte, any]{NumCounters: 1e4, MaxCost: 1 << 22, BufferItems: 64})
	if err != nil {
		t.Fatal(err)
	}
	w.cache = cache
	store, err := storage.NewBadgerStore(custom, dir)
	if err != nil {
		t.Fatal(err)
	}
	w.store = store
	node, err := SetupNode(custom, store, cache, w.gns)
	if err != nil {
		t.Fatalf("SetupNode: %v", err)
	}
	w.node = node
	// final round 0 of every chain, from the genesis construction itself
	rounds, err := vgGenesis()
	if err != nil {
		t.Fatal(err)
	}
	w.finals = make([][]crypto.Hash, vgNC)
	w.head = make([][]*common.Snapshot, vgNC)
	for _, r := range rounds {
		if r.Hash == r.NodeId {
			continue // head record
		}
		for i, id := range w.ids {
			if id == r.NodeId && r.Number == 0 {
				w.finals[i] = []crypto.Hash{r.Hash}
				w.refs[r.Hash] = vgRef{K: "F", C: i + 1, N: 0}
			}
		}
	}
	for i, id := range w.ids {
		if len(w.finals[i]) != 1 {
			t.Fatalf("genesis final of chain %d not found", i+1)
		}
		w.refs[id] = vgRef{K: "H", C: i + 1}
	}
	return w
}

func (w *vgWorld) close() {
	if w.node != nil {
		close(w.node.done)
		w.node = nil
	}
	if w.store != nil {
		w.store.Close()
		w.store = nil
	}
	if w.cache != nil {
		w.cache.Close()
		w.cache = nil
	}
}

func (w *vgWorld) chain(c int) *Chain { return w.node.getOrCreateChain(w.ids[c-1]) }

// Time (spec/Rounds/Rounds.tla part 2): era 1 is six hours after era 0; the snapshot of round n of a
// chain is stamped era base + n*10 s; "now" (the round time of a transition) is era base + 600 s.
const (
	vgEraJump = uint64(6 * 3600 * 1000000000)
	vgTick    = uint64(10 * 1000000000)
)

func (w *vgWorld) eraBase() uint64 {
	b := uint64(vgEpoch) * 1000000000
	if w.late {
		b += vgEraJump
	}
	return b
}

func (w *vgWorld) now() uint64 { return w.eraBase() + 60*vgTick }

func vgEraOf(ts uint64) int {
	if ts >= uint64(vgEpoch)*1000000000+vgEraJump/2 {
		return 1
	}
	return 0
}

// the chains in the order of Node.NodesListWithoutState (same timestamp: by identifier string)
func (w *vgWorld) order() []int {
	idx := make([]int, len(w.ids))
	for i := range idx {
		idx[i] = i + 1
	}
	sort.Slice(idx, func(a, b int) bool { return w.ids[idx[a]-1].String() < w.ids[idx[b]-1].String() })
	return idx
}

func (w *vgWorld) fab(what string) crypto.Hash {
	w.seq++
	return crypto.Blake3Hash([]byte(fmt.Sprintf("vg-fab-%s-%s-%d", w.tag, what, w.seq)))
}

// the hash the head round of chain c would get if it were closed now (harness-side computation)
func (w *vgWorld) wouldBeFinal(c int) (crypto.Hash, bool) {
	snaps := w.head[c-1]
	if len(snaps) == 0 {
		return crypto.Hash{}, false
	}
	n := uint64(len(w.finals[c-1]))
	_, _, h := common.ComputeRoundHash(w.ids[c-1], n, append([]*common.Snapshot{}, snaps...))
	return h, true
}

func (w *vgWorld) resolve(r *vgRef) crypto.Hash {
	switch r.K {
	case "H":
		return w.ids[r.C-1]
	case "F":
		fs := w.finals[r.C-1]
		if r.N < uint64(len(fs)) {
			return fs[r.N]
		}
		if r.N == uint64(len(fs)) {
			if h, ok := w.wouldBeFinal(r.C); ok {
				return h // a round that exists but is not final yet: unknown to the store
			}
		}
		return w.fab("future")
	}
	return w.fab("unknown")
}

func (w *vgWorld) refOf(h crypto.Hash) vgRef {
	if r, ok := w.refs[h]; ok {
		return r
	}
	return vgRef{K: "U"}
}

func (w *vgWorld) addSnapshot(c int) error {
	chain := w.chain(c)
	cache, final := chain.StateCopy()
	w.seq++
	tx := common.NewTransactionV5(common.XINAssetId)
	dd := &common.DepositData{Chain: common.XINAsset.Chain, AssetKey: common.XINAsset.AssetKey,
		Transaction: fmt.Sprintf("vg-dep-%s-%d", w.tag, w.seq), Index: 0, Amount: common.NewInteger(1)}
	tx.AddDepositInput(dd)
	seed := crypto.Blake3Hash([]byte(fmt.Sprintf("vg-seed-%s-%d", w.tag, w.seq)))
	user := vgAddr("USER", 0)
	tx.AddScriptOutput([]*common.Address{&user}, common.NewThresholdScript(1), common.NewInteger(1), append(seed[:], seed[:]...))
	ver := tx.AsVersioned()
	if err := w.store.LockDepositInput(dd, ver.PayloadHash(), false); err != nil {
		return err
	}
	if err := w.store.WriteTransaction(ver); err != nil {
		return err
	}
	s := &common.Snapshot{Version: common.SnapshotVersionCommonEncoding, NodeId: chain.ChainId,
		RoundNumber: cache.Number, References: cache.References.Copy(), Timestamp: w.eraBase() + cache.Number*vgTick,
		Signature: &crypto.CosiSignature{Mask: 0x1f}}
	s.AddTransaction(ver.PayloadHash())
	s.Hash = s.PayloadHash()
	err := chain.AddSnapshot(final, cache, s, w.ids[:5])
	if err == nil {
		w.head[c-1] = append(w.head[c-1], s)
	}
	return err
}

func (w *vgWorld) obs() vM {
	n := vgNC
	num, mnum, fnum := make([]uint64, n), make([]uint64, n), make([]uint64, n)
	self, mself, ext, mext, mfinal := make([]vgRef, n), make([]vgRef, n), make([]vgRef, n), make([]vgRef, n), make([]vgRef, n)
	has, finrec := make([]bool, n), make([]bool, n)
	dl, ml := make([][]uint64, n), make([][]uint64, n)
	era, hera := make([][]int, n), make([]int, n)
	for i, id := range w.ids {
		r, err := w.store.ReadRound(id)
		if err != nil || r == nil {
			panic(fmt.Sprintf("head round of chain %d unreadable: %v", i+1, err))
		}
		num[i] = r.Number
		self[i], ext[i] = w.refOf(r.References.Self), w.refOf(r.References.External)
		st := w.chain(i + 1).State
		mnum[i] = st.CacheRound.Number
		mself[i], mext[i] = w.refOf(st.CacheRound.References.Self), w.refOf(st.CacheRound.References.External)
		fnum[i] = st.FinalRound.Number
		mfinal[i] = w.refOf(st.FinalRound.Hash)
		has[i] = len(st.CacheRound.Snapshots) > 0
		if has[i] {
			hera[i] = vgEraOf(st.CacheRound.Snapshots[0].Timestamp)
		}
		// start of every final round of the chain, from its durable record
		for k, fh := range w.finals[i] {
			rec, err := w.store.ReadRound(fh)
			if err != nil || rec == nil || rec.Number != uint64(k) {
				era[i] = append(era[i], -1)
				continue
			}
			era[i] = append(era[i], vgEraOf(rec.Timestamp))
		}
		// the durable record of the last closed round
		fr, err := w.store.ReadRound(r.References.Self)
		finrec[i] = err == nil && fr != nil && fr.NodeId == id && fr.Number+1 == r.Number && fr.Hash == r.References.Self
		dl[i], ml[i] = make([]uint64, n), make([]uint64, n)
		for j, jd := range w.ids {
			l, err := w.store.ReadLink(id, jd)
			if err != nil {
				panic(err)
			}
			dl[i][j] = l
			ml[i][j] = st.RoundLinks[jd]
		}
	}
	return vM{"num": num, "mnum": mnum, "fnum": fnum, "self": self, "mself": mself, "mfinal": mfinal,
		"ext": ext, "mext": mext, "has": has, "finrec": finrec, "dl": dl, "ml": ml,
		"era": era, "hera": hera, "late": w.late, "order": w.order()}
}

func (w *vgWorld) step(op vgOp) vM {
	chain := w.chain(op.C)
	if op.Ext == nil {
		op.Ext = &vgRef{K: "U"}
	}
	ev := vM{"ev": "Op", "o": op}
	dummy := false
	var res string
	switch op.Op {
	case "Jump":
		w.late = true
		res = "ok"
	case "Add":
		res, _ = vCall(func() error { return w.addSnapshot(op.C) })
	case "Start":
		cache := chain.State.CacheRound
		if !op.Fin {
			cache, _ = chain.StateCopy()
		}
		refs := &common.RoundLink{External: w.resolve(op.Ext)}
		closing, closable := w.wouldBeFinal(op.C)
		switch op.Self {
		case "good":
			refs.Self = closing
			if !closable {
				refs.Self = w.fab("nofinal")
			}
		case "stale":
			refs.Self = cache.References.Self
		default:
			refs.Self = w.fab("bogus")
		}
		ts := w.now()
		if op.Early {
			ts = uint64(vgEpoch)*1000000000 - 1
		}
		var nf *FinalRound
		res, _ = vCall(func() error {
			var err error
			_, nf, dummy, err = chain.startNewRoundAndPersist(cache, refs, ts, op.Fin)
			return err
		})
		if res == "ok" && nf == nil {
			res = "err" // (nil, nil, false, nil): no transition
		}
		if res == "ok" && closable {
			// the head round was closed: it is final round len(finals) of the chain with the hash the
			// harness computed from its own snapshot list
			n := uint64(len(w.finals[op.C-1]))
			w.finals[op.C-1] = append(w.finals[op.C-1], closing)
			w.refs[closing] = vgRef{K: "F", C: op.C, N: n}
			w.head[op.C-1] = nil
		}
	case "Update":
		cache, final := chain.StateCopy()
		refs := &common.RoundLink{External: w.resolve(op.Ext), Self: cache.References.Self}
		if op.Self != "same" {
			refs.Self = w.fab("otherself")
		}
		ts := w.now()
		if op.Early {
			ts = uint64(vgEpoch)*1000000000 - 1
		}
		res, _ = vCall(func() error { return chain.updateEmptyHeadRoundAndPersist(final, cache, refs, ts, op.Strict) })
	default:
		panic("unknown op " + op.Op)
	}
	ev["res"], ev["dummy"] = res, dummy
	ev["obs"] = w.obs()
	return ev
}

// one walk on a fresh world; the events are returned (worlds run in parallel, the trace is written
// in walk order)
func vgRunWalk(t testing.TB, i int, walk []vgOp) []vM {
	dir, err := os.MkdirTemp("", "vg-world-")
	if err != nil {
		t.Fatal(err)
	}
	defer os.RemoveAll(dir)
	w := vgNewWorld(t, dir, fmt.Sprintf("%d-%d", vSeed(), i))
	defer w.close()
	evs := []vM{{"ev": "Reset", "obs": w.obs()}}
	for _, op := range walk {
		evs = append(evs, w.step(op))
	}
	return evs
}

func TestVerifRounds20(t *testing.T) {
	tr := vOpenTrace(t)
	defer tr.Close()
	var cases vgCases
	vLoadCases(t, &cases)
	internal.ToggleMockRunAggregators(true)
	if _, err := vgGenesis(); err != nil {
		t.Fatal(err)
	}
	par := vEnvInt("VERIF_PAR", 8)
	results := make([][]vM, len(cases.Walks))
	jobs := make(chan int)
	var wg sync.WaitGroup
	for k := 0; k < par; k++ {
		wg.Add(1)
		go func() {
			defer wg.Done()
			for i := range jobs {
				results[i] = vgRunWalk(t, i, cases.Walks[i])
			}
		}()
	}
	for i := range cases.Walks {
		jobs <- i
	}
	close(jobs)
	wg.Wait()
	for _, evs := range results {
		for _, ev := range evs {
			tr.Emit(ev)
		}
	}
}
