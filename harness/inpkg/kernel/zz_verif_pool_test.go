package kernel

// Harness of spec/Pool (growth of the specification, DESIGN.md 13.5.2; thorough tier of C19):
// the per-chain pools and the poll loop of kernel/chain.go, driven on a real Chain of a real
// kernel.Node (vnWorld of zz_verif_node_test.go: generated 7-node genesis, real Badger store,
// certificates signed with the genesis keys).
//
//   Recv     real Chain.AppendFinalSnapshot(peer, snapshot)
//   Consume  the oldest ring entry (ActionBuffer.Poll) is given to the real appendFinalSnapshot
//            (the body of ConsumeFinalActions; an entry answered "retry" is kept and tried again)
//   Cosi     real Chain.AppendCosiAction with an external announcement that checkActionSanity refuses
//            ("round stale") after it stored its marker transaction
//   Tx       the snapshot's transaction arrives (store.CacheStoreTransaction)
//   ExtAdv   real startNewRoundAndPersist(cache, {hash of the live round, external}, ts, false)
//   P        the real QueuePollSnapshots runs ONE iteration in its own goroutine. The store wrapper
//            vplStore parks the goroutine when validateSnapshotTransaction looks up the transaction
//            of a handed-over snapshot (the handler passed prepareFinalization and verifyFinalization),
//            the harness records the state and may run other operations before it lets the loop go
//            on; the iteration ends because the last CachePool action's marker transaction makes
//            the wrapper clear chain.running (and wake the loop).
//
// One NDJSON event per operation, after its effect, with the projected pool state. The harness
// only drives and records; spec/Pool/Trace_Pool.tla judges.

import (
	"fmt"
	"os"
	"runtime"
	"sort"
	"strings"
	"sync"
	"testing"
	"time"

	"github.com/MixinNetwork/mixin/common"
	"github.com/MixinNetwork/mixin/crypto"
	"github.com/MixinNetwork/mixin/kernel/internal"
	"github.com/MixinNetwork/mixin/p2p"
)

type vplSnapDef struct {
	Round  uint64 `json:"round"`
	Kind   string `json:"kind"` // good | bad (signed, certificate corrupted) | decoy (unsigned)
	Closes []int  `json:"closes"`
}

type vplOp struct {
	Op string `json:"op"`
	P  int    `json:"p"`
	S  int    `json:"s"`
}

type vplWalk struct {
	Tag string       `json:"tag"`
	U   []vplSnapDef `json:"u"`
	Ops []vplOp      `json:"ops"`
}

type vplCases struct {
	Walks []vplWalk `json:"walks"`
}

type vplPollEvent struct {
	kind   string // hand | end | panic
	s      int
	detail string
}

type vplWorld struct {
	w      *vnWorld
	chain  *Chain
	h0     uint64
	ext    crypto.Hash
	snaps  []*common.Snapshot // by id - 1
	txs    []*common.VersionedTransaction
	idOf   map[crypto.Hash]int
	idOfTx map[crypto.Hash]int
	peers  []crypto.Hash
	held   *CosiAction

	marker     *common.VersionedTransaction
	markerHash crypto.Hash
	markerLeft int
	injected   int
	polling    bool
	parked     bool
	pollG      int64
	events     chan vplPollEvent
	grant      chan struct{}
	seq        int
}

// ---------------------------------------------------------------------------------------------
// store wrapper: observes the poll goroutine

type vplStore struct {
	*vnProxy
	x *vplWorld
}

func vplCalledFrom(name string) bool {
	pcs := make([]uintptr, 8)
	n := runtime.Callers(3, pcs)
	frames := runtime.CallersFrames(pcs[:n])
	for i := 0; i < 3; i++ {
		f, more := frames.Next()
		if strings.HasSuffix(f.Function, name) {
			return true
		}
		if !more {
			break
		}
	}
	return false
}

func (s *vplStore) ReadTransaction(h crypto.Hash) (*common.VersionedTransaction, string, error) {
	x := s.x
	if x.polling && vnGoid() == x.pollG {
		if id, ok := x.idOfTx[h]; ok && vplCalledFrom("validateSnapshotTransaction") {
			x.events <- vplPollEvent{kind: "hand", s: id}
			<-x.grant
		}
	}
	return s.vnProxy.ReadTransaction(h)
}

func (s *vplStore) CacheStoreTransaction(tx *common.VersionedTransaction) error {
	x := s.x
	if x.polling && vnGoid() == x.pollG && tx.PayloadHash() == x.markerHash {
		x.markerLeft--
		if x.markerLeft == 0 {
			// the last CachePool action of this iteration: the loop leaves after it
			x.chain.running = false
			x.chain.wakeCosiLoop()
		}
	}
	return s.vnProxy.CacheStoreTransaction(tx)
}

// ---------------------------------------------------------------------------------------------

func vplTime(d uint64, j int) uint64 {
	return vnTime(1, int(10*d), j*100000000)
}

func vplNewWorld(t testing.TB, dir string, tag string, u []vplSnapDef) *vplWorld {
	w := vnNewWorld(t, dir, 7, "pool")
	if res, detail := w.open(); res != "ok" {
		t.Fatalf("open: %s %s", res, detail)
	}
	x := &vplWorld{w: w, idOf: map[crypto.Hash]int{}, idOfTx: map[crypto.Hash]int{},
		events: make(chan vplPollEvent), grant: make(chan struct{})}
	st := &vplStore{vnProxy: w.proxy, x: x}
	w.node.persistStore = st
	w.node.chains.RLock()
	for _, c := range w.node.chains.m {
		c.persistStore = st
	}
	w.node.chains.RUnlock()
	w.node.Peer = p2p.NewPeer(w.node, w.node.IdForNetwork, "verif", false)
	x.chain = w.chain(1)
	x.peers = []crypto.Hash{w.ids[1], w.ids[2], w.ids[3], w.ids[4], w.ids[5]}
	cache := x.chain.State.CacheRound
	x.h0 = cache.Number
	x.ext = cache.References.External
	btc := common.BitcoinAssetId
	x.marker = w.depositTx(btc, btc, "c6d0c728-2624-429b-8e0d-d9d19b6592fa", "vpl-marker-"+tag, 0, common.NewInteger(1))
	x.markerHash = x.marker.PayloadHash()

	// the snapshots of the universe, round by round (a round's self reference is the hash of the
	// set of snapshots it closes)
	x.snaps = make([]*common.Snapshot, len(u))
	x.txs = make([]*common.VersionedTransaction, len(u))
	order := make([]int, len(u))
	for i := range order {
		order[i] = i
	}
	sort.SliceStable(order, func(a, b int) bool { return u[order[a]].Round < u[order[b]].Round })
	perRound := map[uint64]int{}
	for _, i := range order {
		d := u[i]
		j := perRound[d.Round]
		perRound[d.Round]++
		tx := w.depositTx(btc, btc, "c6d0c728-2624-429b-8e0d-d9d19b6592fa", fmt.Sprintf("vpl-%s-%d", tag, i), 0, common.NewInteger(1))
		s := &common.Snapshot{Version: common.SnapshotVersionCommonEncoding, NodeId: x.chain.ChainId, RoundNumber: d.Round}
		s.AddTransaction(tx.PayloadHash())
		switch {
		case d.Kind == "decoy":
			s.Timestamp = vplTime(3, j%20) + uint64(j/20)
			s.References = &common.RoundLink{Self: crypto.Blake3Hash([]byte("vpl-decoy-self")), External: x.ext}
			s.Hash = s.PayloadHash()
		default:
			off := d.Round - x.h0
			s.Timestamp = vplTime(off, j)
			if d.Round == x.h0 {
				s.References = cache.References.Copy()
			} else {
				var closed []*common.Snapshot
				for _, c := range d.Closes {
					if c < 1 || c > len(u) || x.snaps[c-1] == nil {
						t.Fatalf("universe: snapshot %d closes %d which is not built yet", i+1, c)
					}
					closed = append(closed, x.snaps[c-1])
				}
				self := crypto.Blake3Hash([]byte("vpl-empty-self"))
				if len(closed) > 0 {
					_, _, self = common.ComputeRoundHash(x.chain.ChainId, d.Round-1, closed)
				}
				s.References = &common.RoundLink{Self: self, External: x.ext}
			}
			w.sign(x.chain, s)
			if d.Kind == "bad" {
				s.Signature.Signature[7] ^= 0x40
			}
		}
		x.snaps[i], x.txs[i] = s, tx
		x.idOf[s.Hash] = i + 1
		x.idOfTx[tx.PayloadHash()] = i + 1
	}
	return x
}

func (x *vplWorld) close() { x.w.close() }

func (x *vplWorld) peerIndex(h crypto.Hash) int {
	for i, p := range x.peers {
		if p == h {
			return i + 1
		}
	}
	return 0
}

// the projected pool state
func (x *vplWorld) obs() vM {
	chain := x.chain
	slots := []vM{}
	for i, r := range chain.FinalPool {
		if r == nil {
			continue
		}
		from := 1
		if r.Size > 8 {
			from = r.Size - 7
		}
		snaps := []vM{}
		for j := from; j <= r.Size; j++ {
			ps := r.Snapshots[j-1]
			peers := []int{}
			for _, p := range ps.peers {
				peers = append(peers, x.peerIndex(p))
			}
			snaps = append(snaps, vM{"id": x.idOf[ps.Snapshot.Hash], "peers": peers, "fin": ps.finalized, "nf": len(ps.filter)})
		}
		slots = append(slots, vM{"i": i, "num": r.Number, "size": r.Size, "idx": len(r.index), "from": from, "snaps": snaps})
	}
	hround := []int{}
	for _, s := range chain.State.CacheRound.Snapshots {
		hround = append(hround, x.idOf[s.Hash])
	}
	sort.Ints(hround)
	written := []int{}
	x.w.proxy.mu.Lock()
	for _, c := range x.w.proxy.commits {
		if id := x.idOf[c.hash]; id != 0 {
			written = append(written, id)
		}
	}
	x.w.proxy.mu.Unlock()
	ring := len(chain.finalActionsRing)
	if x.held != nil {
		ring++
	}
	cq := len(chain.CachePool)
	if x.polling {
		cq -= x.injected
	}
	durable := uint64(0)
	if r, err := x.w.store.ReadRound(chain.ChainId); err == nil && r != nil {
		durable = r.Number
	}
	return vM{"head": chain.State.CacheRound.Number, "dhead": durable, "fi": chain.FinalIndex, "fc": chain.FinalCount,
		"dirty": chain.finalPoolDirty.Load(), "ring": ring, "cq": cq, "hround": hround, "written": written, "slots": slots}
}

func (x *vplWorld) appendCosi() error {
	x.seq++
	s := &common.Snapshot{Version: common.SnapshotVersionCommonEncoding, NodeId: x.chain.ChainId, RoundNumber: 0,
		Timestamp: vplTime(0, 0) + uint64(x.seq)}
	s.AddTransaction(x.markerHash)
	s.Hash = s.PayloadHash()
	return x.chain.AppendCosiAction(&CosiAction{Action: CosiActionExternalAnnouncement, PeerId: x.chain.ChainId,
		SnapshotHash: s.Hash, Snapshot: s, Transactions: []*common.VersionedTransaction{x.marker}})
}

// start one iteration of the real poll loop; returns at its first observable point
func (x *vplWorld) pollStart() vplPollEvent {
	chain := x.chain
	x.injected = 0
	if len(chain.CachePool) == 0 {
		x.appendCosi()
		x.injected = 1
	}
	x.markerLeft = len(chain.CachePool)
	chain.running = true
	chain.plc = make(chan struct{})
	chain.lastFinalCheck = time.Time{} // the 100 ms cadence is irrelevant: every iteration looks at the final pool
	select {
	case <-chain.cosiWake:
	default:
	}
	x.polling = true
	ready := make(chan struct{})
	go func() {
		x.pollG = vnGoid()
		close(ready)
		defer func() {
			if r := recover(); r != nil {
				x.events <- vplPollEvent{kind: "panic", detail: fmt.Sprint(r)}
			}
		}()
		chain.QueuePollSnapshots()
		x.events <- vplPollEvent{kind: "end"}
	}()
	<-ready
	return x.pollWait()
}

func (x *vplWorld) pollWait() vplPollEvent {
	select {
	case ev := <-x.events:
		x.parked = ev.kind == "hand"
		if !x.parked {
			x.polling = false
			x.chain.running = true
		}
		return ev
	case <-time.After(120 * time.Second):
		panic("poll loop iteration did not reach an observable point")
	}
}

func (x *vplWorld) pollResume() vplPollEvent {
	x.grant <- struct{}{}
	return x.pollWait()
}

func (x *vplWorld) pollEvent(ev vplPollEvent) vM {
	m := vM{"ev": "Op", "o": vplOp{Op: "P"}, "at": ev.kind, "s": ev.s}
	if ev.kind == "panic" {
		m["detail"] = ev.detail
	}
	m["obs"] = x.obs()
	return m
}

func (x *vplWorld) step(op vplOp) []vM {
	chain := x.chain
	ev := vM{"ev": "Op", "o": op}
	switch op.Op {
	case "P":
		if x.parked {
			return []vM{x.pollEvent(x.pollResume())}
		}
		return []vM{x.pollEvent(x.pollStart())}
	case "Recv":
		res, _ := vCall(func() error { return chain.AppendFinalSnapshot(x.peers[op.P-1], x.snaps[op.S-1]) })
		ev["res"] = res
	case "Consume":
		m := x.held
		if m == nil {
			m = chain.finalActionsRing.Poll()
		}
		if m == nil {
			ev["res"] = "empty"
			break
		}
		x.held = nil
		retry := false
		res, _ := vCall(func() error {
			var err error
			retry, err = chain.appendFinalSnapshot(m.PeerId, m.Snapshot)
			return err
		})
		if res == "ok" && retry {
			res = "retry"
			x.held = m
		}
		ev["res"] = res
	case "Deliver":
		evs := x.step(vplOp{Op: "Recv", P: op.P, S: op.S})
		if len(chain.finalActionsRing) > 0 || x.held != nil {
			evs = append(evs, x.step(vplOp{Op: "Consume"})...)
		}
		return evs
	case "Tx":
		res, _ := vCall(func() error { return x.w.store.CacheStoreTransaction(x.txs[op.S-1]) })
		ev["res"] = res
	case "Cosi":
		res, _ := vCall(func() error { return x.appendCosi() })
		ev["res"] = res
	case "ExtAdv":
		if x.parked {
			ev["res"] = "busy" // the proposal path runs on the poll goroutine
			break
		}
		cache, _ := chain.StateCopy()
		refs := &common.RoundLink{Self: crypto.Blake3Hash([]byte("vpl-no-final")), External: x.ext}
		if final := cache.asFinal(); final != nil {
			refs.Self = final.Hash
		}
		ts := vplTime(cache.Number+1-x.h0, 0)
		res, _ := vCall(func() error {
			_, nf, _, err := chain.startNewRoundAndPersist(cache, refs, ts, false)
			if err == nil && nf == nil {
				return fmt.Errorf("no transition")
			}
			return err
		})
		ev["res"] = res
	default:
		panic("unknown op " + op.Op)
	}
	ev["obs"] = x.obs()
	return []vM{ev}
}

func vplRunWalk(t testing.TB, i int, wk vplWalk) []vM {
	dir, err := os.MkdirTemp("", "vpl-world-")
	if err != nil {
		t.Fatal(err)
	}
	defer os.RemoveAll(dir)
	x := vplNewWorld(t, dir, fmt.Sprintf("%d-%d", vSeed(), i), wk.U)
	defer x.close()
	u := []vM{}
	for _, d := range wk.U {
		kind := d.Kind
		if kind == "decoy" {
			kind = "bad" // for the pool an unsigned snapshot and a badly certified one are the same: never written
		}
		closes := d.Closes
		if closes == nil {
			closes = []int{}
		}
		u = append(u, vM{"round": d.Round, "kind": kind, "closes": closes})
	}
	evs := []vM{{"ev": "Reset", "walk": i, "tag": wk.Tag, "K": FinalPoolSlotsLimit, "sizelimit": FinalPoolRoundSizeLimit,
		"cachecap": cap(x.chain.CachePool), "ringcap": cap(x.chain.finalActionsRing), "h0": x.h0, "u": u, "obs": x.obs()}}
	for _, op := range wk.Ops {
		evs = append(evs, x.step(op)...)
	}
	for x.parked { // let the loop finish its iteration
		evs = append(evs, x.pollEvent(x.pollResume()))
	}
	return evs
}

func TestVerifPool(t *testing.T) {
	tr := vOpenTrace(t)
	defer tr.Close()
	var cases vplCases
	vLoadCases(t, &cases)
	internal.ToggleMockRunAggregators(true)
	par := vEnvInt("VERIF_PAR", 8)
	results := make([][]vM, len(cases.Walks))
	jobs := make(chan int)
	var wg sync.WaitGroup
	for k := 0; k < par; k++ {
		wg.Add(1)
		go func() {
			defer wg.Done()
			for i := range jobs {
				results[i] = vplRunWalk(t, i, cases.Walks[i])
			}
		}()
	}
	for i := range cases.Walks {
		jobs <- i
	}
	close(jobs)
	wg.Wait()
	for _, evs := range results {
		for _, ev := range evs {
			tr.Emit(ev)
		}
	}
}
