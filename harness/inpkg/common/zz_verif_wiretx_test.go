package common

// Case executor for the transaction v5 grammar of spec/Wire/WireTx.tla (property C06).
// A shape is a transaction STRUCTURE with abstract identities (see WireTx.tla); it is concretized
// into a real VersionedTransaction, encoded with the real encoder, mutated on the bytes (tokens
// located with the lengths computed by the specification) and decoded with the real decoder.
// Only observations are recorded; TLC judges them (spec/Wire/Trace_WireTx.tla).

import (
	"bytes"
	"fmt"
	"math/rand"
	"testing"

	"github.com/MixinNetwork/mixin/crypto"
)

type vtB struct {
	N int `json:"n"`
	V int `json:"v"`
}

type vtDep struct {
	Has   bool `json:"has"`
	Chain int  `json:"chain"`
	Ak    vtB  `json:"ak"`
	Th    vtB  `json:"th"`
	Idx   int  `json:"idx"`
	Amt   int  `json:"amt"`
}

type vtMint struct {
	Has   bool `json:"has"`
	Group vtB  `json:"group"`
	Batch int  `json:"batch"`
	Amt   int  `json:"amt"`
}

type vtIn struct {
	Hash  int    `json:"hash"`
	Index int    `json:"index"`
	Gen   vtB    `json:"gen"`
	Dep   vtDep  `json:"dep"`
	Mint  vtMint `json:"mint"`
}

type vtW struct {
	Has  bool `json:"has"`
	Addr vtB  `json:"addr"`
	Tag  vtB  `json:"tag"`
}

type vtOut struct {
	Type   int   `json:"type"`
	Amt    int   `json:"amt"`
	Keys   []int `json:"keys"`
	Mask   int   `json:"mask"`
	Script vtB   `json:"script"`
	W      vtW   `json:"w"`
}

type vtSigE struct {
	Idx int `json:"idx"`
	Sig int `json:"sig"`
}

type vtSigs struct {
	Kind    string     `json:"kind"`
	Maps    [][]vtSigE `json:"maps"`
	Asig    int        `json:"asig"`
	Signers []int      `json:"signers"`
}

type vtTx struct {
	Ver   int     `json:"ver"`
	Asset int     `json:"asset"`
	Ins   []vtIn  `json:"ins"`
	Outs  []vtOut `json:"outs"`
	Refs  []int   `json:"refs"`
	Extra vtB     `json:"extra"`
	Sigs  vtSigs  `json:"sigs"`
}

type vtCase struct {
	Kind   string `json:"kind"`
	Sid    int    `json:"sid"` // index into Shapes
	Mut    vwMut  `json:"mut"`
	Mut2   vwMut  `json:"mut2"`
	F      string `json:"f"`
	Shape2 *vtTx  `json:"shape2"`
}

type vtShape struct {
	Shape vtTx  `json:"shape"`
	Lens  []int `json:"lens"`
}

type vtCases struct {
	Shapes []vtShape `json:"shapes"`
	Cases  []vtCase  `json:"cases"`
	Valid  int       `json:"valid"`
	Blind  int       `json:"blind"`
	Reps   int       `json:"reps"`
	Only   int       `json:"only"`
}

// identity -> bytes (the same identity always gives the same bytes within one run)
func vtBytes(id, n int) []byte {
	out := make([]byte, 0, n+32)
	for c := 0; len(out) < n; c++ {
		h := crypto.Blake3Hash([]byte(fmt.Sprintf("verif-wire-%d-%d-%d", vSeed(), id, c)))
		out = append(out, h[:]...)
	}
	return out[:n]
}

func vtHash(id int) (h crypto.Hash) {
	copy(h[:], vtBytes(id, 32))
	return
}

func vtKey(id int) (k crypto.Key) {
	copy(k[:], vtBytes(id, 32))
	return
}

func vtSig(id int) *crypto.Signature {
	var s crypto.Signature
	copy(s[:], vtBytes(id, 64))
	return &s
}

func vtInt(v int) (x Integer) {
	x.i.SetInt64(int64(v))
	return
}

func vtBs(b vtB) []byte {
	if b.N == 0 {
		return nil
	}
	return vtBytes(b.V, b.N)
}

// concretization of a structure of spec/Wire/WireTx.tla
func vtBuild(s *vtTx) *VersionedTransaction {
	tx := &SignedTransaction{}
	tx.Version = uint8(s.Ver & 0xff)
	tx.Asset = vtHash(s.Asset)
	for _, in := range s.Ins {
		x := &Input{Hash: vtHash(in.Hash), Index: uint(in.Index), Genesis: vtBs(in.Gen)}
		if in.Dep.Has {
			x.Deposit = &DepositData{Chain: vtHash(in.Dep.Chain), AssetKey: string(vtBs(in.Dep.Ak)),
				Transaction: string(vtBs(in.Dep.Th)), Index: uint64(in.Dep.Idx), Amount: vtInt(in.Dep.Amt)}
		}
		if in.Mint.Has {
			x.Mint = &MintData{Group: string(vtBs(in.Mint.Group)), Batch: uint64(in.Mint.Batch), Amount: vtInt(in.Mint.Amt)}
		}
		tx.Inputs = append(tx.Inputs, x)
	}
	for _, o := range s.Outs {
		x := &Output{Type: uint8(o.Type), Amount: vtInt(o.Amt), Mask: vtKey(o.Mask), Script: Script(vtBs(o.Script))}
		for _, k := range o.Keys {
			kk := vtKey(k)
			x.Keys = append(x.Keys, &kk)
		}
		if o.W.Has {
			x.Withdrawal = &WithdrawalData{Address: string(vtBs(o.W.Addr)), Tag: string(vtBs(o.W.Tag))}
		}
		tx.Outputs = append(tx.Outputs, x)
	}
	for _, r := range s.Refs {
		tx.References = append(tx.References, vtHash(r))
	}
	tx.Extra = vtBs(s.Extra)
	if s.Sigs.Kind == "agg" {
		tx.AggregatedSignature = &AggregatedSignature{Signers: append([]int{}, s.Sigs.Signers...), Signature: *vtSig(s.Sigs.Asig)}
	} else {
		for _, m := range s.Sigs.Maps {
			sm := map[uint16]*crypto.Signature{}
			for _, e := range m {
				sm[uint16(e.Idx)] = vtSig(e.Sig)
			}
			tx.SignaturesMap = append(tx.SignaturesMap, sm)
		}
	}
	return &VersionedTransaction{SignedTransaction: *tx}
}

func vtIntEq(a, b Integer) bool { return a.i.Cmp(&b.i) == 0 }

// structural equality of two transactions (nil and empty are the same value)
func vtEqual(a, b *SignedTransaction) bool {
	if a.Version != b.Version || a.Asset != b.Asset || len(a.Inputs) != len(b.Inputs) ||
		len(a.Outputs) != len(b.Outputs) || len(a.References) != len(b.References) || !bytes.Equal(a.Extra, b.Extra) {
		return false
	}
	for i := range a.Inputs {
		x, y := a.Inputs[i], b.Inputs[i]
		if x.Hash != y.Hash || x.Index != y.Index || !bytes.Equal(x.Genesis, y.Genesis) ||
			(x.Deposit == nil) != (y.Deposit == nil) || (x.Mint == nil) != (y.Mint == nil) {
			return false
		}
		if x.Deposit != nil {
			d, e := x.Deposit, y.Deposit
			if d.Chain != e.Chain || d.AssetKey != e.AssetKey || d.Transaction != e.Transaction || d.Index != e.Index || !vtIntEq(d.Amount, e.Amount) {
				return false
			}
		}
		if x.Mint != nil {
			d, e := x.Mint, y.Mint
			if d.Group != e.Group || d.Batch != e.Batch || !vtIntEq(d.Amount, e.Amount) {
				return false
			}
		}
	}
	for i := range a.Outputs {
		x, y := a.Outputs[i], b.Outputs[i]
		if x.Type != y.Type || !vtIntEq(x.Amount, y.Amount) || len(x.Keys) != len(y.Keys) || x.Mask != y.Mask ||
			!bytes.Equal(x.Script, y.Script) || (x.Withdrawal == nil) != (y.Withdrawal == nil) {
			return false
		}
		for j := range x.Keys {
			if *x.Keys[j] != *y.Keys[j] {
				return false
			}
		}
		if x.Withdrawal != nil && (x.Withdrawal.Address != y.Withdrawal.Address || x.Withdrawal.Tag != y.Withdrawal.Tag) {
			return false
		}
	}
	for i := range a.References {
		if a.References[i] != b.References[i] {
			return false
		}
	}
	if (a.AggregatedSignature == nil) != (b.AggregatedSignature == nil) || len(a.SignaturesMap) != len(b.SignaturesMap) {
		return false
	}
	if a.AggregatedSignature != nil {
		x, y := a.AggregatedSignature, b.AggregatedSignature
		if x.Signature != y.Signature || len(x.Signers) != len(y.Signers) {
			return false
		}
		for i := range x.Signers {
			if x.Signers[i] != y.Signers[i] {
				return false
			}
		}
	}
	for i := range a.SignaturesMap {
		x, y := a.SignaturesMap[i], b.SignaturesMap[i]
		if len(x) != len(y) {
			return false
		}
		for k, v := range x {
			w, ok := y[k]
			if !ok || w == nil || v == nil || *v != *w {
				return false
			}
		}
	}
	return true
}

// vtDecode runs the real decoder on in and records the observations of one "Dec" event.
func vtDecode(in []byte, orig *VersionedTransaction) vM {
	ev := vM{"in_len": len(in), "enc": "-", "enc_len": 0, "reenc_eq": false, "rt_eq": false,
		"hash_reuse_eq": false, "hash_moves_after_edit": false,
		"nin": 0, "nout": 0, "nref": 0, "extra_n": 0, "sigkind": "-", "signers": []int{}}
	var dec *VersionedTransaction
	res, _ := vCall(func() error {
		var err error
		dec, err = UnmarshalVersionedTransaction(append([]byte{}, in...))
		return err
	})
	ev["res"] = res
	if res != "ok" || dec == nil {
		return ev
	}
	ev["nin"], ev["nout"], ev["nref"], ev["extra_n"] = len(dec.Inputs), len(dec.Outputs), len(dec.References), len(dec.Extra)
	if dec.AggregatedSignature != nil {
		ev["sigkind"] = "agg"
		ev["signers"] = append([]int{}, dec.AggregatedSignature.Signers...)
	} else {
		ev["sigkind"] = "maps"
	}
	if orig != nil {
		ev["rt_eq"] = vtEqual(&orig.SignedTransaction, &dec.SignedTransaction)
	}
	var enc []byte
	er, _ := vCall(func() error { enc = dec.Marshal(); return nil })
	ev["enc"] = er
	if er == "ok" {
		ev["enc_len"] = len(enc)
		ev["reenc_eq"] = bytes.Equal(in, enc)
	}
	// the hash is a function of the payload fields of the value, not of the buffer it was decoded
	// from and not of anything remembered from decoding:
	//  (a) decode from a scratch buffer, overwrite the buffer, hash: same hash as a value decoded
	//      from an intact copy;
	//  (b) decode, change one payload field (the last byte of extra, or one byte of extra where
	//      there was none), hash: another hash.
	vCall(func() error {
		fresh, err := UnmarshalVersionedTransaction(append([]byte{}, in...))
		if err != nil {
			return err
		}
		hFresh := fresh.PayloadHash()
		scratch := append([]byte{}, in...)
		reused, err := UnmarshalVersionedTransaction(scratch)
		if err != nil {
			return err
		}
		for i := range scratch {
			scratch[i] = 0xAA
		}
		ev["hash_reuse_eq"] = reused.PayloadHash() == hFresh
		edited, err := UnmarshalVersionedTransaction(append([]byte{}, in...))
		if err != nil {
			return err
		}
		if n := len(edited.Extra); n > 0 { // keep the length: the value may be as long as allowed
			edited.Extra = append([]byte{}, edited.Extra...)
			edited.Extra[n-1] ^= 0x5a
		} else {
			edited.Extra = []byte{0x5a}
		}
		ev["hash_moves_after_edit"] = edited.PayloadHash() != hFresh
		return nil
	})
	return ev
}

func vtEncode(s *vtTx) (*VersionedTransaction, []byte, string) {
	var obj *VersionedTransaction
	var base []byte
	// the encoder proper (Marshal without its debug self-check, which would run the decoder under
	// test and turn a decoder that refuses the encoder's output into an encoder panic)
	er, _ := vCall(func() error { obj = vtBuild(s); base = obj.marshal(); return nil })
	return obj, base, er
}

var vtNoMut = vwMut{Op: "None"}

func TestVerifWireTx(t *testing.T) {
	tr := vOpenTrace(t)
	defer tr.Close()
	inputs := vwOpenInputs()
	defer inputs.close()
	var cs vtCases
	vLoadCases(t, &cs)
	reps := cs.Reps
	if reps < 1 {
		reps = 1
	}
	// Shape lines first: later events refer to them by line number
	for i := range cs.Shapes {
		tr.Emit(vM{"ev": "Shape", "shape": cs.Shapes[i].Shape})
	}
	idx := 0
	for _, c := range cs.Cases {
		for rep := 0; rep < reps; rep++ {
			idx++
			if cs.Only != 0 && cs.Only != idx {
				continue
			}
			rng := vwRng(idx)
			sh := &cs.Shapes[c.Sid]
			switch c.Kind {
			case "dec":
				obj, base, er := vtEncode(&sh.Shape)
				var ev vM
				if er != "ok" {
					ev = vtDecode(nil, nil)
					ev["layout_ok"], ev["base_len"] = false, 0
				} else {
					toks, ok := vwSplit(base, sh.Lens)
					in := base
					if ok {
						in = vwApply2(toks, c.Mut, c.Mut2, rng)
					}
					var orig *VersionedTransaction
					if c.Mut.Op == "None" && (c.Mut2.Op == "None" || c.Mut2.Op == "") {
						orig = obj
					}
					ev = vtDecode(in, orig)
					ev["layout_ok"], ev["base_len"] = ok, len(base)
					inputs.put(idx, in)
				}
				ev["ev"], ev["src"], ev["idx"], ev["sline"], ev["enc0"] = "Dec", "case", idx, c.Sid+1, er
				ev["mut"], ev["mut2"] = c.Mut, c.Mut2
				tr.Emit(ev)
			case "pair":
				var ha, hb crypto.Hash
				var pa, pb []byte
				res, _ := vCall(func() error {
					a, b := vtBuild(&sh.Shape), vtBuild(c.Shape2)
					ha, hb = a.PayloadHash(), b.PayloadHash()
					pa, pb = vtBuild(&sh.Shape).PayloadMarshal(), vtBuild(c.Shape2).PayloadMarshal()
					return nil
				})
				tr.Emit(vM{"ev": "Pair", "idx": idx, "sline": c.Sid + 1, "f": c.F, "res": res,
					"hash_eq": ha == hb, "payload_eq": bytes.Equal(pa, pb)})
			}
		}
	}
	// seeded structurally valid transactions (not enumerated by TLC): encode, decode, compare
	for n := 0; n < cs.Valid; n++ {
		idx++
		if cs.Only != 0 && cs.Only != idx {
			continue
		}
		rng := vwRng(idx)
		s := vtRandomTx(rng)
		obj, base, er := vtEncode(s)
		var ev vM
		if er != "ok" {
			ev = vtDecode(nil, nil)
		} else {
			ev = vtDecode(base, obj)
			inputs.put(idx, base)
		}
		ev["ev"], ev["src"], ev["idx"], ev["sline"], ev["enc0"] = "Dec", "valid", idx, 0, er
		ev["layout_ok"], ev["base_len"], ev["mut"], ev["mut2"] = true, len(base), vtNoMut, vtNoMut
		tr.Emit(ev)
		// and a pair: the same payload with other authorization data, and one changed payload byte
		if n%4 == 0 {
			vtRandomPairs(tr, s, rng, &idx, cs.Only)
		}
	}
	// seeded byte strings: random, byte changes, truncations, extensions, splices of valid encodings
	for n := 0; n < cs.Blind; n++ {
		idx++
		if cs.Only != 0 && cs.Only != idx {
			continue
		}
		rng := vwRng(idx)
		in := vtBlind(rng)
		ev := vtDecode(in, nil)
		ev["ev"], ev["src"], ev["idx"], ev["sline"], ev["enc0"] = "Dec", "blind", idx, 0, "-"
		ev["layout_ok"], ev["base_len"], ev["mut"], ev["mut2"] = true, 0, vtNoMut, vtNoMut
		inputs.put(idx, in)
		tr.Emit(ev)
	}
}

func vtRandB(rng *rand.Rand, max int) vtB {
	n := 0
	switch rng.Intn(4) {
	case 0:
	case 1:
		n = 1 + rng.Intn(3)
	default:
		n = 1 + rng.Intn(max)
	}
	if n == 0 {
		return vtB{}
	}
	return vtB{N: n, V: 1 + rng.Intn(1<<30)}
}

func vtRandAmt(rng *rand.Rand) int {
	switch rng.Intn(5) {
	case 0:
		return 0
	case 1:
		return 1 + rng.Intn(255)
	case 2:
		return []int{255, 256, 65535, 65536, 16777215, 16777216}[rng.Intn(6)]
	default:
		return rng.Intn(1 << 31)
	}
}

func vtRandomTx(rng *rand.Rand) *vtTx {
	id := func() int { return 1 + rng.Intn(1<<30) }
	s := &vtTx{Ver: TxVersionHashSignature, Asset: id()}
	for i := rng.Intn(4); i > 0; i-- {
		in := vtIn{Hash: id(), Index: rng.Intn(InputIndexLimit + 1)}
		switch rng.Intn(5) {
		case 0:
			in.Gen = vtRandB(rng, 80)
		case 1:
			in.Dep = vtDep{Has: true, Chain: id(), Ak: vtRandB(rng, 60), Th: vtRandB(rng, 90), Idx: rng.Intn(1 << 30), Amt: vtRandAmt(rng)}
		case 2:
			in.Mint = vtMint{Has: true, Group: vtRandB(rng, 20), Batch: rng.Intn(1 << 30), Amt: vtRandAmt(rng)}
		}
		s.Ins = append(s.Ins, in)
	}
	for i := rng.Intn(4); i > 0; i-- {
		o := vtOut{Type: []int{0, 0, 0xa1, 0xa3, 0xa4, 0xa6, 0xa9, 0xaa, 0xb1, rng.Intn(256)}[rng.Intn(10)], Amt: vtRandAmt(rng),
			Mask: id(), Script: vtRandB(rng, 5)}
		for k := rng.Intn(4); k > 0; k-- {
			o.Keys = append(o.Keys, id())
		}
		if rng.Intn(4) == 0 {
			o.W = vtW{Has: true, Addr: vtRandB(rng, 70), Tag: vtRandB(rng, 30)}
		}
		s.Outs = append(s.Outs, o)
	}
	for i := rng.Intn(3); i > 0; i-- {
		s.Refs = append(s.Refs, id())
	}
	if rng.Intn(2) == 0 {
		s.Extra = vtRandB(rng, 600)
	}
	s.Sigs.Kind = "maps"
	switch rng.Intn(3) {
	case 0:
	case 1:
		for m := 1 + rng.Intn(3); m > 0; m-- {
			var es []vtSigE
			seen := map[int]bool{}
			for e := rng.Intn(4); e > 0; e-- {
				ix := rng.Intn(300)
				if !seen[ix] {
					seen[ix] = true
					es = append(es, vtSigE{Idx: ix, Sig: id()})
				}
			}
			s.Sigs.Maps = append(s.Sigs.Maps, es)
		}
	default:
		s.Sigs.Kind = "agg"
		s.Sigs.Asig = id()
		last := -1
		for e := rng.Intn(6); e > 0; e-- {
			last += 1 + rng.Intn([]int{2, 9, 40, 3000}[rng.Intn(4)])
			if last > 0xFFFF {
				break
			}
			s.Sigs.Signers = append(s.Sigs.Signers, last)
		}
	}
	return s
}

// seeded pairs on a random valid structure: other signatures (same hash), one payload field changed
func vtRandomPairs(tr *vTrace, s *vtTx, rng *rand.Rand, idx *int, only int) {
	emit := func(f string, b *vtTx) {
		*idx++
		if only != 0 && only != *idx {
			return
		}
		var ha, hb crypto.Hash
		var pa, pb []byte
		res, _ := vCall(func() error {
			ha, hb = vtBuild(s).PayloadHash(), vtBuild(b).PayloadHash()
			pa, pb = vtBuild(s).PayloadMarshal(), vtBuild(b).PayloadMarshal()
			return nil
		})
		tr.Emit(vM{"ev": "Pair", "idx": *idx, "sline": 0, "f": f, "res": res, "hash_eq": ha == hb, "payload_eq": bytes.Equal(pa, pb)})
	}
	a := *s
	a.Sigs = vtRandomTx(rng).Sigs
	emit("sigs", &a)
	b := *s
	b.Asset = s.Asset + 1
	emit("asset", &b)
	c := *s
	c.Extra = vtB{N: s.Extra.N + 1, V: 77}
	emit("extra", &c)
	if len(s.Outs) > 0 {
		d := *s
		d.Outs = append([]vtOut{}, s.Outs...)
		d.Outs[0].Amt = s.Outs[0].Amt + 1
		emit("oamt", &d)
	}
	if len(s.Ins) > 0 {
		d := *s
		d.Ins = append([]vtIn{}, s.Ins...)
		d.Ins[0].Index = (s.Ins[0].Index + 1) % (InputIndexLimit + 1)
		emit("inindex", &d)
	}
}

func vtRandomValid(rng *rand.Rand) []byte {
	_, b, er := vtEncode(vtRandomTx(rng))
	if er != "ok" {
		return nil
	}
	return b
}

func vtBlind(rng *rand.Rand) []byte {
	switch rng.Intn(8) {
	case 0:
		b := make([]byte, rng.Intn(400))
		rng.Read(b)
		return b
	case 1:
		b := make([]byte, 4+rng.Intn(400))
		rng.Read(b)
		copy(b, []byte{0x77, 0x77, 0, TxVersionHashSignature})
		return b
	case 2, 3, 4: // one byte changed
		b := vtRandomValid(rng)
		if len(b) > 0 {
			i := rng.Intn(len(b))
			switch rng.Intn(3) {
			case 0:
				b[i] ^= 1 << uint(rng.Intn(8))
			case 1:
				b[i] = byte(rng.Intn(256))
			default:
				b[i] = byte(rng.Intn(3))
			}
		}
		return b
	case 5: // truncation or extension
		b := vtRandomValid(rng)
		if rng.Intn(2) == 0 && len(b) > 0 {
			return b[:len(b)-1-rng.Intn(min(len(b), 40))]
		}
		ext := make([]byte, 1+rng.Intn(8))
		if rng.Intn(2) == 0 {
			rng.Read(ext)
		}
		return append(b, ext...)
	case 6: // splice
		a, b := vtRandomValid(rng), vtRandomValid(rng)
		if len(a) == 0 || len(b) == 0 {
			return a
		}
		return append(a[:rng.Intn(len(a))], b[rng.Intn(len(b)):]...)
	default: // a two-byte length or count field raised or lowered by one
		b := vtRandomValid(rng)
		if len(b) > 40 {
			i := 36 + rng.Intn(len(b)-37)
			if rng.Intn(2) == 0 {
				b[i]++
			} else {
				b[i]--
			}
		}
		return b
	}
}
