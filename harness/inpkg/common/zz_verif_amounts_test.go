package common

// Seeded driver for the fixed-point amount arithmetic (spec/Amounts, property C33).
// It only calls the real Integer / RationalNumber methods under recover and records operands,
// outcome class and result (numbers as little-endian base-10^4 limb arrays, text as arrays of
// one-character strings). The verdict is TLC's (spec/Amounts/Trace_Amounts.tla).

import (
	"math"
	"math/big"
	"math/rand"
	"testing"
)

var vamBase = big.NewInt(10000)

// signed number -> {"neg":bool,"m":[limbs]}
func vamNum(i *big.Int) vM {
	a := new(big.Int).Abs(i)
	limbs := []int{}
	r := new(big.Int)
	for a.Sign() > 0 {
		a.DivMod(a, vamBase, r)
		limbs = append(limbs, int(r.Int64()))
	}
	return vM{"neg": i.Sign() < 0, "m": limbs}
}

func vamLimbs(i *big.Int) []int { return vamNum(i)["m"].([]int) }

func vamChars(s string) []string {
	out := make([]string, 0, len(s))
	for _, r := range s {
		out = append(out, string(r))
	}
	return out
}

func vamInteger(i *big.Int) (v Integer) {
	v.i.Set(i)
	return
}

var vamZeroNum = vM{"neg": false, "m": []int{}}

type vamGen struct {
	r *rand.Rand
}

func (g *vamGen) bits(n int) *big.Int {
	if n <= 0 {
		return new(big.Int)
	}
	b := make([]byte, (n+7)/8)
	g.r.Read(b)
	v := new(big.Int).SetBytes(b)
	v.Rsh(v, uint(len(b)*8-n))
	v.SetBit(v, n-1, 1)
	return v
}

// a non-negative magnitude: boundary classes and random widths up to 520 bits
func (g *vamGen) mag() *big.Int {
	switch g.r.Intn(14) {
	case 0:
		return new(big.Int)
	case 1:
		return big.NewInt(int64(g.r.Intn(3) + 1))
	case 2:
		return big.NewInt(100000000 * int64(g.r.Intn(5)+1))
	case 3:
		return big.NewInt(100000000 - int64(g.r.Intn(2)))
	case 4: // around 2^64 units
		v := new(big.Int).Lsh(big.NewInt(1), 64)
		return v.Add(v, big.NewInt(int64(g.r.Intn(3)-1)))
	case 5: // powers of ten (limb boundaries)
		return new(big.Int).Exp(big.NewInt(10), big.NewInt(int64(g.r.Intn(157))), nil)
	case 6: // 10^k - 1 (all nines: longest carry chains)
		v := new(big.Int).Exp(big.NewInt(10), big.NewInt(int64(g.r.Intn(156)+1)), nil)
		return v.Sub(v, big.NewInt(1))
	case 7:
		return g.bits(520)
	case 8:
		v := new(big.Int).Lsh(big.NewInt(1), 520)
		return v.Sub(v, big.NewInt(int64(g.r.Intn(2))))
	case 9, 10:
		return g.bits(g.r.Intn(64) + 1)
	default:
		return g.bits(g.r.Intn(520) + 1)
	}
}

func (g *vamGen) amount() *big.Int {
	v := g.mag()
	if g.r.Intn(16) == 0 {
		v.Neg(v)
	}
	return v
}

func (g *vamGen) near(x *big.Int) *big.Int {
	switch g.r.Intn(6) {
	case 0:
		return new(big.Int).Set(x)
	case 1:
		return new(big.Int).Add(x, big.NewInt(1))
	case 2:
		return new(big.Int).Sub(x, big.NewInt(1))
	case 3:
		if x.Sign() > 0 {
			return new(big.Int).Rand(g.r, x)
		}
	}
	return g.amount()
}

func (g *vamGen) smallInt() int {
	switch g.r.Intn(12) {
	case 0:
		return 0
	case 1:
		return -1 - g.r.Intn(5)
	case 2:
		return 1
	case 3:
		return math.MaxInt64 - g.r.Intn(2)
	case 4:
		return math.MinInt64 + g.r.Intn(2)
	case 5:
		return int(g.r.Int63())
	case 6:
		return -int(g.r.Int63())
	case 7:
		return 10
	case 8:
		return 100000000
	default:
		return g.r.Intn(1<<uint(g.r.Intn(31)+1)) + 1
	}
}

func (g *vamGen) digits(n int) string {
	b := make([]byte, n)
	for i := range b {
		b[i] = byte('0' + g.r.Intn(10))
	}
	return string(b)
}

var vamInvalidTexts = []string{"", ".", "-", "+", "-.", "abc", "1.2.3", "1,5", " 1", "1 ", "0x10", "--1", "1..", "1_000", "٣", "1.5x", "..5"}

func (g *vamGen) text() string {
	if g.r.Intn(12) == 0 {
		return vamInvalidTexts[g.r.Intn(len(vamInvalidTexts))]
	}
	var ip, fp string
	switch g.r.Intn(8) {
	case 0:
		ip = ""
	case 1:
		ip = "0"
	case 2:
		ip = "000" + g.digits(g.r.Intn(4))
	case 3:
		ip = g.digits(g.r.Intn(150) + 1)
	case 4:
		ip = g.digits(16 + g.r.Intn(5)) // strconv / big.Int switch of the decimal library (18 characters)
	default:
		ip = g.digits(g.r.Intn(12) + 1)
	}
	switch g.r.Intn(8) {
	case 0:
		fp = ""
	case 1:
		fp = g.digits(8)
	case 2:
		fp = g.digits(9)
	case 3:
		fp = "00000000" + g.digits(g.r.Intn(3)+1)
	case 4:
		fp = g.digits(7)
	default:
		fp = g.digits(g.r.Intn(20) + 1)
	}
	s := ip
	if fp != "" || g.r.Intn(4) == 0 {
		s = ip + "." + fp
	}
	if g.r.Intn(10) == 0 && len(ip)+len(fp) > 0 {
		// all-zero texts with a sign, and tiny negative values that truncate to zero
		switch g.r.Intn(3) {
		case 0:
			s = "-0." + "000000000"[:g.r.Intn(9)+1]
		case 1:
			s = "-0.000000001"
		case 2:
			s = "-0"
		}
		return s
	}
	switch g.r.Intn(12) {
	case 0:
		s = "-" + s
	case 1:
		s = "+" + s
	}
	return s
}

func TestVerifAmounts(t *testing.T) {
	tr := vOpenTrace(t)
	defer tr.Close()
	n := vEnvInt("VERIF_N", 1500)
	g := &vamGen{r: rand.New(rand.NewSource(vSeed()*7919 + 33))}
	ops := []string{"add", "add", "sub", "sub", "mul", "mul", "div", "div", "count", "count", "cmp",
		"parse", "parse", "parse", "print", "print", "product", "product", "ratcmp", "ratstring", "newint", "json"}
	for k := 0; k < n; k++ {
		op := ops[g.r.Intn(len(ops))]
		switch op {
		case "add", "sub", "cmp":
			x := g.amount()
			y := g.near(x)
			if g.r.Intn(2) == 0 {
				y = g.amount()
			}
			X, Y := vamInteger(x), vamInteger(y)
			var v Integer
			c := 0
			res, _ := vCall(func() error {
				switch op {
				case "add":
					v = X.Add(Y)
				case "sub":
					v = X.Sub(Y)
				default:
					c = X.Cmp(Y)
				}
				return nil
			})
			tr.Emit(vM{"ev": op, "x": vamNum(x), "y": vamNum(y), "res": res, "v": vamNum(&v.i), "c": c})
		case "mul", "div":
			x := g.amount()
			kk := g.smallInt()
			X := vamInteger(x)
			var v Integer
			res, _ := vCall(func() error {
				if op == "mul" {
					v = X.Mul(kk)
				} else {
					v = X.Div(kk)
				}
				return nil
			})
			tr.Emit(vM{"ev": op, "x": vamNum(x), "k": vamNum(big.NewInt(int64(kk))), "res": res, "v": vamNum(&v.i)})
		case "count":
			y := g.amount()
			var x *big.Int
			switch g.r.Intn(6) {
			case 0:
				x = g.amount()
			case 1: // quotient at the 64-bit boundary
				x = new(big.Int).Lsh(new(big.Int).Abs(y), 64)
				x.Add(x, big.NewInt(int64(g.r.Intn(3)-1)))
			case 2:
				x = g.near(y)
			default:
				q := new(big.Int).SetUint64(g.r.Uint64() >> uint(g.r.Intn(64)))
				x = new(big.Int).Mul(new(big.Int).Abs(y), q)
				if y.Sign() != 0 {
					x.Add(x, new(big.Int).Rand(g.r, new(big.Int).Abs(y)))
				}
			}
			X, Y := vamInteger(x), vamInteger(y)
			var c uint64
			res, _ := vCall(func() error { c = X.Count(Y); return nil })
			tr.Emit(vM{"ev": op, "x": vamNum(x), "y": vamNum(y), "res": res, "c": vamLimbs(new(big.Int).SetUint64(c))})
		case "parse":
			s := g.text()
			var v Integer
			res, _ := vCall(func() error { v = NewIntegerFromString(s); return nil })
			tr.Emit(vM{"ev": op, "s": vamChars(s), "res": res, "v": vamNum(&v.i)})
			if res == "ok" {
				// printing the parsed amount gives the normal form of the text
				p := ""
				res2, _ := vCall(func() error { p = v.String(); return nil })
				tr.Emit(vM{"ev": "printparsed", "s": vamChars(s), "res": res2, "p": vamChars(p)})
			}
		case "print":
			x := g.mag()
			X := vamInteger(x)
			s := ""
			res, _ := vCall(func() error { s = X.String(); return nil })
			tr.Emit(vM{"ev": op, "x": vamNum(x), "res": res, "s": vamChars(s)})
			if res == "ok" {
				var v Integer
				res2, _ := vCall(func() error { v = NewIntegerFromString(s); return nil })
				tr.Emit(vM{"ev": "parse", "s": vamChars(s), "res": res2, "v": vamNum(&v.i)})
			}
		case "json":
			x := g.mag()
			X := vamInteger(x)
			var b []byte
			var v Integer
			res, _ := vCall(func() error {
				var err error
				b, err = X.MarshalJSON()
				if err != nil {
					return err
				}
				return v.UnmarshalJSON(b)
			})
			tr.Emit(vM{"ev": op, "x": vamNum(x), "res": res, "s": vamChars(string(b)), "v": vamNum(&v.i)})
		case "newint":
			u := g.r.Uint64() >> uint(g.r.Intn(64))
			if g.r.Intn(8) == 0 {
				u = math.MaxUint64 - uint64(g.r.Intn(2))
			}
			var v Integer
			res, _ := vCall(func() error { v = NewInteger(u); return nil })
			tr.Emit(vM{"ev": op, "n": vamLimbs(new(big.Int).SetUint64(u)), "res": res, "v": vamNum(&v.i)})
		case "product", "ratstring":
			a, b := g.amount(), g.amount()
			if g.r.Intn(3) == 0 {
				b = g.near(a)
			}
			A, B := vamInteger(a), vamInteger(b)
			var r RationalNumber
			res, _ := vCall(func() error { r = A.Ration(B); return nil })
			tr.Emit(vM{"ev": "ration", "x": vamNum(a), "y": vamNum(b), "res": res, "rx": vamLimbs(&r.x), "ry": vamLimbs(&r.y)})
			if res != "ok" {
				continue
			}
			if op == "ratstring" {
				s := ""
				res2, _ := vCall(func() error { s = r.String(); return nil })
				tr.Emit(vM{"ev": op, "rx": vamLimbs(&r.x), "ry": vamLimbs(&r.y), "res": res2, "s": vamChars(s)})
				continue
			}
			x := g.amount()
			X := vamInteger(x)
			var v Integer
			res2, _ := vCall(func() error { v = r.Product(X); return nil })
			tr.Emit(vM{"ev": op, "rx": vamLimbs(&r.x), "ry": vamLimbs(&r.y), "x": vamNum(x), "res": res2, "v": vamNum(&v.i)})
		case "ratcmp":
			a, b := g.mag(), g.mag()
			if b.Sign() == 0 {
				b = big.NewInt(1)
			}
			var c, d *big.Int
			switch g.r.Intn(4) {
			case 0: // the same ratio in different terms
				f := big.NewInt(int64(g.r.Intn(1000) + 1))
				c, d = new(big.Int).Mul(a, f), new(big.Int).Mul(b, f)
			case 1: // differs by one unit
				c, d = new(big.Int).Add(a, big.NewInt(1)), new(big.Int).Set(b)
			case 2:
				c, d = new(big.Int).Set(a), new(big.Int).Add(b, big.NewInt(1))
			default:
				c, d = g.mag(), g.mag()
				if d.Sign() == 0 {
					d = big.NewInt(7)
				}
			}
			var r1, r2 RationalNumber
			cc := 0
			res, _ := vCall(func() error {
				r1 = vamInteger(a).Ration(vamInteger(b))
				r2 = vamInteger(c).Ration(vamInteger(d))
				cc = r1.Cmp(r2)
				return nil
			})
			tr.Emit(vM{"ev": op, "ax": vamLimbs(a), "ay": vamLimbs(b), "bx": vamLimbs(c), "by": vamLimbs(d), "res": res, "c": cc})
		}
	}
}
