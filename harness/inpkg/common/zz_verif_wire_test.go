package common

// Case executor for the wire grammars of spec/Wire (properties C06 transaction v5, C07 snapshot v2).
//
// The cases are enumerated by TLC (spec/Wire/MC_WireSnapshot.tla, MC_WireTx.tla): a shape the real
// encoder can produce plus one structured mutation of its bytes. This file concretizes a shape into a
// real object, encodes it with the real encoder, locates the tokens with the lengths computed by the
// specification, applies the mutation to the real bytes, runs the real decoder and records what
// happened. It never judges: every verdict is TLC's (spec/Wire/Trace_Wire*.tla).

import (
	"bytes"
	"encoding/binary"
	"encoding/hex"
	"encoding/json"
	"fmt"
	"math"
	"math/rand"
	"os"
	"sort"
	"testing"

	"github.com/MixinNetwork/mixin/crypto"
)

// ---------------------------------------------------------------- generic token tools

type vwMut struct {
	Op  string  `json:"op"`
	I   int     `json:"i"`
	J   int     `json:"j"`
	K   int     `json:"k"`
	Val int     `json:"val"`
	New [][]int `json:"new"`
}

// MarshalJSON keeps "new" an array (TLC's JSON reader has no null).
func (m vwMut) MarshalJSON() ([]byte, error) {
	type plain vwMut
	p := plain(m)
	if p.New == nil {
		p.New = [][]int{}
	}
	if p.Op == "" {
		p.Op = "None"
	}
	return json.Marshal(p)
}

// vwSplit cuts b into tokens of the given lengths (layout computed by the specification).
func vwSplit(b []byte, lens []int) ([][]byte, bool) {
	toks := make([][]byte, 0, len(lens))
	off := 0
	for _, n := range lens {
		if off+n > len(b) {
			return nil, false
		}
		toks = append(toks, append([]byte{}, b[off:off+n]...))
		off += n
	}
	return toks, off == len(b)
}

func vwJoin(toks [][]byte) []byte {
	var out []byte
	for _, t := range toks {
		out = append(out, t...)
	}
	return out
}

func vwSetBE(tok []byte, val uint64) {
	for i := len(tok) - 1; i >= 0; i-- {
		tok[i] = byte(val)
		val >>= 8
	}
}

func vwGetBE(tok []byte) uint64 {
	var v uint64
	for _, c := range tok {
		v = v<<8 | uint64(c)
	}
	return v
}

// vwApply performs one mutation of spec/Wire/Wire.tla (Mutate) on real bytes. Token indices are 1-based.
func vwApply(toks [][]byte, m vwMut, rng *rand.Rand) []byte {
	switch m.Op {
	case "Trunc":
		b := vwJoin(toks)
		if m.K >= len(b) {
			return []byte{}
		}
		return append([]byte{}, b[:len(b)-m.K]...)
	case "Ext":
		return append(vwJoin(toks), bytes.Repeat([]byte{byte(m.Val)}, m.K)...)
	}
	return vwJoin(vwApplyToks(toks, m, rng))
}

func vwApplyToks(toks [][]byte, m vwMut, rng *rand.Rand) [][]byte {
	cp := make([][]byte, len(toks))
	for i := range toks {
		cp[i] = append([]byte{}, toks[i]...)
	}
	switch m.Op {
	case "None":
	case "Swap":
		cp[m.I-1], cp[m.J-1] = cp[m.J-1], cp[m.I-1]
	case "Copy":
		cp[m.J-1] = append([]byte{}, cp[m.I-1]...)
	case "Set":
		vwSetBE(cp[m.I-1], uint64(m.Val))
	case "Flip":
		t := cp[m.I-1]
		if len(t) > 0 {
			bit := rng.Intn(len(t) * 8)
			t[bit/8] ^= 1 << (bit % 8)
		}
	case "NonMin":
		vwSetBE(cp[m.I-1], vwGetBE(cp[m.I-1])+1)
		cp[m.J-1] = append([]byte{0}, cp[m.J-1]...)
	case "Drop":
		cp = append(cp[:m.I-1], cp[m.I:]...)
	case "Ins":
		ins := append([]byte{}, cp[m.I-1]...)
		rest := append([][]byte{ins}, cp[m.J-1:]...)
		cp = append(cp[:m.J-1:m.J-1], rest...)
	case "InsNew":
		ins := bytes.Repeat([]byte{0xff}, m.K)
		rest := append([][]byte{ins}, cp[m.J-1:]...)
		cp = append(cp[:m.J-1:m.J-1], rest...)
	case "InsVal":
		ins := make([]byte, m.K)
		vwSetBE(ins, uint64(m.Val))
		rest := append([][]byte{ins}, cp[m.J-1:]...)
		cp = append(cp[:m.J-1:m.J-1], rest...)
	case "Repl":
		var mid [][]byte
		for _, nv := range m.New {
			b := make([]byte, nv[0])
			vwSetBE(b, uint64(nv[1]))
			mid = append(mid, b)
		}
		rest := append(mid, cp[m.J:]...)
		cp = append(cp[:m.I-1:m.I-1], rest...)
	default:
		panic("unknown mutation " + m.Op)
	}
	return cp
}

// vwApply2 applies two mutations in sequence; the second one addresses the token list produced by
// the first (only token-preserving or token-inserting/removing first mutations are combined).
func vwApply2(toks [][]byte, m1, m2 vwMut, rng *rand.Rand) []byte {
	if m2.Op == "None" || m2.Op == "" {
		return vwApply(toks, m1, rng)
	}
	mid := vwApplyToks(toks, m1, rng)
	return vwApply(mid, m2, rng)
}

func vwRng(idx int) *rand.Rand {
	return rand.New(rand.NewSource(vSeed()*1000003 + int64(idx)*7919 + 17))
}

func vwRandHash(rng *rand.Rand) crypto.Hash {
	var h crypto.Hash
	rng.Read(h[:])
	return h
}

// side file with the inputs (hex) of the recorded events, for replay objects only
type vwInputs struct {
	f *os.File
}

func vwOpenInputs() *vwInputs {
	p := os.Getenv("VERIF_INPUTS")
	if p == "" {
		return &vwInputs{}
	}
	f, err := os.Create(p)
	if err != nil {
		panic(err)
	}
	return &vwInputs{f: f}
}

func (w *vwInputs) put(idx int, in []byte) {
	if w.f == nil || len(in) > 4096 {
		return
	}
	fmt.Fprintf(w.f, "%d %s\n", idx, hex.EncodeToString(in))
}

func (w *vwInputs) close() {
	if w.f != nil {
		w.f.Close()
	}
}

// ---------------------------------------------------------------- snapshot (C07)

type vwSnapShape struct {
	Round int  `json:"round"`
	Refs  bool `json:"refs"`
	Cnt   int  `json:"cnt"`
	Sig   bool `json:"sig"`
	Topo  int  `json:"topo"`
	Ts    int  `json:"ts"`
}

type vwSnapCase struct {
	Kind  string      `json:"kind"`
	Shape vwSnapShape `json:"shape"`
	Mut   vwMut       `json:"mut"`
	Mut2  vwMut       `json:"mut2"`
	F     string      `json:"f"`
	Lens  []int       `json:"lens"`
}

type vwSnapCases struct {
	Cases []vwSnapCase `json:"cases"`
	Blind int          `json:"blind"`
	Reps  int          `json:"reps"`
	Only  int          `json:"only"` // replay: execute only the event with this idx (0 = all)
}

// concretization of a shape (spec/Wire/WireSnapshot.tla ShapeStruct)
func vwSnapBuild(sh vwSnapShape, rng *rand.Rand) *SnapshotWithTopologicalOrder {
	s := &Snapshot{Version: SnapshotVersionCommonEncoding, NodeId: vwRandHash(rng)}
	switch sh.Round {
	case 0:
		s.RoundNumber = 0
	case 1:
		s.RoundNumber = 1
	default:
		s.RoundNumber = math.MaxUint64
	}
	if sh.Refs {
		s.References = &RoundLink{Self: vwRandHash(rng), External: vwRandHash(rng)}
	}
	for i := 0; i < sh.Cnt; i++ {
		s.Transactions = append(s.Transactions, vwRandHash(rng))
	}
	if sh.Ts != 0 {
		s.Timestamp = 1700000000000000000 + uint64(rng.Int63n(1e15))
	}
	if sh.Sig {
		cs := &crypto.CosiSignature{Mask: uint64(rng.Int63()) | 1}
		rng.Read(cs.Signature[:])
		s.Signature = cs
	}
	t := &SnapshotWithTopologicalOrder{Snapshot: s}
	switch sh.Topo {
	case 2:
		t.TopologicalOrder = 5
	case 3:
		t.TopologicalOrder = math.MaxUint64
	}
	return t
}

func vwRanks(hs []crypto.Hash) []int {
	sorted := append([]crypto.Hash{}, hs...)
	sort.Slice(sorted, func(i, j int) bool { return bytes.Compare(sorted[i][:], sorted[j][:]) < 0 })
	uniq := sorted[:0]
	for i, h := range sorted {
		if i == 0 || h != sorted[i-1] {
			uniq = append(uniq, h)
		}
	}
	ranks := make([]int, len(hs))
	for i, h := range hs {
		ranks[i] = 1 + sort.Search(len(uniq), func(j int) bool { return bytes.Compare(uniq[j][:], h[:]) >= 0 })
	}
	return ranks
}

func vwSnapEqual(a, b *SnapshotWithTopologicalOrder, topo uint64) bool {
	if a.Version != b.Version || a.NodeId != b.NodeId || a.RoundNumber != b.RoundNumber || a.Timestamp != b.Timestamp {
		return false
	}
	if (a.References == nil) != (b.References == nil) {
		return false
	}
	if a.References != nil && (a.References.Self != b.References.Self || a.References.External != b.References.External) {
		return false
	}
	if len(a.Transactions) != len(b.Transactions) {
		return false
	}
	ra, rb := append([]crypto.Hash{}, a.Transactions...), append([]crypto.Hash{}, b.Transactions...)
	sort.Slice(ra, func(i, j int) bool { return bytes.Compare(ra[i][:], ra[j][:]) < 0 })
	sort.Slice(rb, func(i, j int) bool { return bytes.Compare(rb[i][:], rb[j][:]) < 0 })
	for i := range ra {
		if ra[i] != rb[i] {
			return false
		}
	}
	if (a.Signature == nil) != (b.Signature == nil) {
		return false
	}
	if a.Signature != nil && (a.Signature.Mask != b.Signature.Mask || a.Signature.Signature != b.Signature.Signature) {
		return false
	}
	return b.TopologicalOrder == topo
}

// vwSnapDecode runs the real decoder on in and records the observations of one "Dec" event.
func vwSnapDecode(in []byte, orig *SnapshotWithTopologicalOrder, origTopo uint64) vM {
	ev := vM{"in_len": len(in), "enc": "-", "enc_len": 0, "eq_full": false, "eq_short": false, "pre_eq": false,
		"ntx": 0, "ranks": []int{}, "round0": false, "refs": false, "sig": false, "topo0": false, "rt_eq": false}
	var dec *SnapshotWithTopologicalOrder
	res, _ := vCall(func() error {
		var err error
		dec, err = UnmarshalVersionedSnapshot(append([]byte{}, in...))
		return err
	})
	ev["res"] = res
	if res != "ok" || dec == nil || dec.Snapshot == nil {
		return ev
	}
	ev["ntx"] = len(dec.Transactions)
	ev["ranks"] = vwRanks(dec.Transactions)
	ev["round0"] = dec.RoundNumber == 0
	ev["refs"] = dec.References != nil
	ev["sig"] = dec.Signature != nil
	ev["topo0"] = dec.TopologicalOrder == 0
	if orig != nil {
		ev["rt_eq"] = vwSnapEqual(orig, dec, origTopo)
	}
	var enc []byte
	er, _ := vCall(func() error { enc = dec.VersionedMarshal(); return nil })
	ev["enc"] = er
	if er == "ok" {
		ev["enc_len"] = len(enc)
		ev["eq_full"] = bytes.Equal(in, enc)
		if len(enc) >= 8 {
			body := enc[:len(enc)-8]
			ev["eq_short"] = bytes.Equal(in, body)
			ev["pre_eq"] = len(in) >= len(body) && bytes.Equal(in[:len(body)], body)
		}
	}
	return ev
}

var vwSnapDummyCase = vM{"shape": vwSnapShape{Cnt: 1}, "mut": vwMut{Op: "None"}, "mut2": vwMut{Op: "None"}}

func vwSnapEncode(sh vwSnapShape, rng *rand.Rand) (*SnapshotWithTopologicalOrder, uint64, []byte, string) {
	obj := vwSnapBuild(sh, rng)
	topo := obj.TopologicalOrder
	var base []byte
	er, _ := vCall(func() error { base = obj.VersionedMarshal(); return nil })
	if er == "ok" && sh.Topo == 0 && len(base) >= 8 {
		base = base[:len(base)-8]
	}
	return obj, topo, base, er
}

// perturbation of one field (spec/Wire/WireSnapshot.tla Perturb); returns nil when not applicable
func vwSnapPerturb(a *SnapshotWithTopologicalOrder, f string, rng *rand.Rand) *SnapshotWithTopologicalOrder {
	s := *a.Snapshot
	s.Transactions = append([]crypto.Hash{}, a.Transactions...)
	if a.References != nil {
		r := *a.References
		s.References = &r
	}
	if a.Signature != nil {
		c := &crypto.CosiSignature{Mask: a.Signature.Mask, Signature: a.Signature.Signature}
		s.Signature = c
	}
	b := &SnapshotWithTopologicalOrder{Snapshot: &s, TopologicalOrder: a.TopologicalOrder}
	flip := func(p []byte) {
		bit := rng.Intn(len(p) * 8)
		p[bit/8] ^= 1 << (bit % 8)
	}
	switch f {
	case "node":
		flip(s.NodeId[:])
	case "round":
		if s.RoundNumber == math.MaxUint64 {
			s.RoundNumber--
		} else {
			s.RoundNumber++
		}
	case "refs":
		if s.References == nil {
			s.References = &RoundLink{Self: vwRandHash(rng), External: vwRandHash(rng)}
		} else {
			s.References = nil
		}
	case "self":
		flip(s.References.Self[:])
	case "ext":
		flip(s.References.External[:])
	case "hash":
		flip(s.Transactions[rng.Intn(len(s.Transactions))][:])
	case "addhash":
		s.Transactions = append(s.Transactions, vwRandHash(rng))
	case "ts":
		var t [8]byte
		binary.BigEndian.PutUint64(t[:], s.Timestamp)
		flip(t[:])
		s.Timestamp = binary.BigEndian.Uint64(t[:])
	case "mask":
		if s.Signature == nil {
			c := &crypto.CosiSignature{Mask: uint64(rng.Int63()) | 1}
			rng.Read(c.Signature[:])
			s.Signature = c
		} else {
			s.Signature.Mask ^= 1 << uint(1+rng.Intn(62))
		}
	case "sigv":
		flip(s.Signature.Signature[:])
	case "topo":
		b.TopologicalOrder ^= 1 << uint(rng.Intn(64))
	default:
		return nil
	}
	return b
}

func TestVerifWireSnapshot(t *testing.T) {
	tr := vOpenTrace(t)
	defer tr.Close()
	inputs := vwOpenInputs()
	defer inputs.close()
	var cs vwSnapCases
	vLoadCases(t, &cs)
	idx := 0
	reps := cs.Reps
	if reps < 1 {
		reps = 1
	}
	for _, c := range cs.Cases {
		for rep := 0; rep < reps; rep++ {
			idx++
			if cs.Only != 0 && cs.Only != idx {
				continue
			}
			rng := vwRng(idx)
			switch c.Kind {
			case "dec":
				obj, topo, base, er := vwSnapEncode(c.Shape, rng)
				ev := vM{}
				if er != "ok" {
					// the real encoder refuses a shape the specification calls encodable
					ev = vwSnapDecode(nil, nil, 0)
					ev["res"] = "err"
					ev["layout_ok"], ev["base_len"] = false, 0
				} else {
					toks, ok := vwSplit(base, c.Lens)
					in := base
					if ok {
						in = vwApply2(toks, c.Mut, c.Mut2, rng)
					}
					var orig *SnapshotWithTopologicalOrder
					if c.Mut.Op == "None" && (c.Mut2.Op == "None" || c.Mut2.Op == "") {
						orig = obj
					}
					ev = vwSnapDecode(in, orig, topo)
					ev["layout_ok"], ev["base_len"] = ok, len(base)
					inputs.put(idx, in)
				}
				ev["ev"], ev["src"], ev["idx"] = "Dec", "case", idx
				ev["case"] = vM{"shape": c.Shape, "mut": c.Mut, "mut2": c.Mut2}
				tr.Emit(ev)
			case "pair":
				// mode fresh: two snapshots that differ in field f.
				// mode stale / inplace: the Hash field is set (s.Hash = s.PayloadHash()) before the field
				// is changed on a copy / on the struct itself: the hash is a function of the payload, not
				// of what the Hash field remembers.
				for _, mode := range []string{"fresh", "stale", "inplace"} {
					a := vwSnapBuild(c.Shape, rng)
					var ha, hb crypto.Hash
					var pa, pb []byte
					skip := false
					res, _ := vCall(func() error {
						ha, pa = a.PayloadHash(), a.versionedPayload()
						if mode != "fresh" {
							a.Hash = ha
						}
						b := vwSnapPerturb(a, c.F, rng)
						if b == nil {
							skip = true
							return nil
						}
						if mode == "inplace" {
							*a.Snapshot = *b.Snapshot
							a.TopologicalOrder = b.TopologicalOrder
							b = a
						}
						hb, pb = b.PayloadHash(), b.versionedPayload()
						return nil
					})
					if skip {
						break
					}
					tr.Emit(vM{"ev": "Pair", "idx": idx, "shape": c.Shape, "f": c.F, "mode": mode, "res": res,
						"hash_eq": ha == hb, "payload_eq": bytes.Equal(pa, pb)})
				}
				if c.F == "node" {
					// equal payload, Hash field holding something else: same hash as a fresh snapshot
					a := vwSnapBuild(c.Shape, rng)
					var ha, hb crypto.Hash
					var pa, pb []byte
					res, _ := vCall(func() error {
						ha, pa = a.PayloadHash(), a.versionedPayload()
						s := *a.Snapshot
						s.Hash = vwRandHash(rng)
						hb, pb = s.PayloadHash(), s.versionedPayload()
						return nil
					})
					tr.Emit(vM{"ev": "Pair", "idx": idx, "shape": c.Shape, "f": "hashfield", "mode": "stale", "res": res,
						"hash_eq": ha == hb, "payload_eq": bytes.Equal(pa, pb)})
				}
			}
		}
	}
	// seeded byte strings: random, single-byte changes, truncations, extensions, splices of valid encodings
	for n := 0; n < cs.Blind; n++ {
		idx++
		if cs.Only != 0 && cs.Only != idx {
			continue
		}
		rng := vwRng(idx)
		in := vwSnapBlind(rng)
		ev := vwSnapDecode(in, nil, 0)
		ev["ev"], ev["src"], ev["idx"] = "Dec", "blind", idx
		ev["layout_ok"], ev["base_len"] = true, 0
		ev["case"] = vwSnapDummyCase
		inputs.put(idx, in)
		tr.Emit(ev)
	}
}

func vwSnapRandomValid(rng *rand.Rand) []byte {
	sh := vwSnapShape{Round: rng.Intn(3), Sig: rng.Intn(2) == 0, Topo: rng.Intn(4), Ts: 1, Cnt: 1}
	if sh.Round != 0 {
		sh.Refs = true
		sh.Cnt = 1 + rng.Intn(4)
		if rng.Intn(20) == 0 {
			sh.Cnt = 255
		}
	}
	if rng.Intn(10) == 0 {
		sh.Refs = !sh.Refs
	}
	_, _, base, er := vwSnapEncode(sh, rng)
	if er != "ok" {
		return nil
	}
	return base
}

func vwSnapBlind(rng *rand.Rand) []byte {
	switch rng.Intn(8) {
	case 0: // random bytes
		b := make([]byte, rng.Intn(300))
		rng.Read(b)
		return b
	case 1: // valid header, random rest
		b := make([]byte, 4+rng.Intn(300))
		rng.Read(b)
		copy(b, []byte{0x77, 0x77, 0, SnapshotVersionCommonEncoding})
		return b
	case 2, 3: // one byte changed
		b := vwSnapRandomValid(rng)
		if len(b) > 0 {
			i := rng.Intn(len(b))
			if rng.Intn(2) == 0 {
				b[i] ^= 1 << uint(rng.Intn(8))
			} else {
				b[i] = byte(rng.Intn(256))
			}
		}
		return b
	case 4: // truncation
		b := vwSnapRandomValid(rng)
		if len(b) > 0 {
			k := 1 + rng.Intn(20)
			if rng.Intn(3) == 0 {
				k = 1 + rng.Intn(len(b))
			}
			if k > len(b) {
				k = len(b)
			}
			b = b[:len(b)-k]
		}
		return b
	case 5: // extension
		b := vwSnapRandomValid(rng)
		ext := make([]byte, 1+rng.Intn(20))
		if rng.Intn(2) == 0 {
			rng.Read(ext)
		}
		return append(b, ext...)
	case 6: // splice of two valid encodings
		a, b := vwSnapRandomValid(rng), vwSnapRandomValid(rng)
		if len(a) == 0 || len(b) == 0 {
			return a
		}
		return append(a[:rng.Intn(len(a))], b[rng.Intn(len(b)):]...)
	default: // several bytes changed in the structural part
		b := vwSnapRandomValid(rng)
		for k := 0; k < 1+rng.Intn(3) && len(b) > 0; k++ {
			b[rng.Intn(len(b))] = byte(rng.Intn(4))
		}
		return b
	}
}
