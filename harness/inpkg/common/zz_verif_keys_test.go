package common

// Seeded driver for one-time key derivation and textual codecs (spec/Keys, property C32).
// Calls the real crypto.DeriveGhostPublicKey / DeriveGhostPrivateKey / ViewGhostOutputKey, the address,
// key, hash, signature and CoSi signature printers/parsers and util/base58, and records the values
// whose equality the specification predicts (as hex / text). The verdict is TLC's.

import (
	"encoding/hex"
	"encoding/json"
	"math/rand"
	"strconv"
	"strings"
	"testing"

	"github.com/MixinNetwork/mixin/crypto"
	"github.com/MixinNetwork/mixin/util/base58"
)

const vkyB58 = "123456789ABCDEFGHJKLMNPQRSTUVWXYZabcdefghijkmnopqrstuvwxyz"

func vkyBytes(r *rand.Rand, n int) []byte {
	b := make([]byte, n)
	r.Read(b)
	return b
}

func TestVerifKeys(t *testing.T) {
	tr := vOpenTrace(t)
	defer tr.Close()
	r := rand.New(rand.NewSource(vSeed()*6151 + 32))
	n := vEnvInt("VERIF_N", 300)

	indexes := []uint64{0, 1, 127, 128, 255, 256, 16383, 16384, 1<<32 - 1, 1 << 32, 1<<63 - 1, 1<<64 - 1}
	for k := 0; k < n; k++ {
		// ---------------------------------------------------------- derivation
		addr := NewAddressFromSeedInternalVanish(vkyBytes(r, 64))
		if k%2 == 0 {
			addr.PrivateViewKey = addr.PublicSpendKey.DeterministicHashDerive()
			addr.PublicViewKey = addr.PrivateViewKey.Public()
		}
		mask := crypto.NewKeyFromSeed(vkyBytes(r, 64))
		R := mask.Public()
		j := indexes[r.Intn(len(indexes))]
		if r.Intn(3) == 0 {
			j = r.Uint64() >> uint(r.Intn(64))
		}
		var P, p, B *crypto.Key
		var pp crypto.Key
		res, _ := vCall(func() error {
			P = crypto.DeriveGhostPublicKey(&mask, &addr.PublicViewKey, &addr.PublicSpendKey, j)
			p = crypto.DeriveGhostPrivateKey(&R, &addr.PrivateViewKey, &addr.PrivateSpendKey, j)
			pp = p.Public()
			B = crypto.ViewGhostOutputKey(P, &addr.PrivateViewKey, &R, j)
			return nil
		})
		ev := vM{"ev": "derive", "res": res, "index": strconv.FormatUint(j, 10), "P": "", "pubOfPriv": "", "viewed": "", "B": addr.PublicSpendKey.String(), "other": ""}
		if res == "ok" {
			// the same derivation with another index gives another key (reported, judged only in full mode)
			Q := crypto.DeriveGhostPublicKey(&mask, &addr.PublicViewKey, &addr.PublicSpendKey, j+1)
			ev["P"], ev["pubOfPriv"], ev["viewed"], ev["other"] = P.String(), pp.String(), B.String(), Q.String()
		}
		tr.Emit(ev)

		// ---------------------------------------------------------- viewing the outputs of a whole transaction
		// script outputs at seeded positions among outputs of other types (withdrawal, node, custodian):
		// the sender derives every key with the real output index; Transaction.ViewGhostKey must recover
		// the recipient's public spend key for every script output
		{
			types := []uint8{OutputTypeScript, OutputTypeWithdrawalSubmit, OutputTypeWithdrawalClaim, OutputTypeNodePledge,
				OutputTypeNodeAccept, OutputTypeNodeRemove, OutputTypeNodeCancel, OutputTypeCustodianUpdateNodes}
			names := map[uint8]string{OutputTypeScript: "script", OutputTypeWithdrawalSubmit: "wsubmit", OutputTypeWithdrawalClaim: "wclaim",
				OutputTypeNodePledge: "pledge", OutputTypeNodeAccept: "accept", OutputTypeNodeRemove: "remove", OutputTypeNodeCancel: "cancel",
				OutputTypeCustodianUpdateNodes: "cupdate"}
			tx := NewTransactionV5(XINAssetId)
			cnt := 1 + r.Intn(5)
			layout, want := []string{}, [][]string{}
			for o := 0; o < cnt; o++ {
				ot := types[0]
				if r.Intn(2) == 0 {
					ot = types[r.Intn(len(types))]
				}
				if o == cnt-1 && k%2 == 0 {
					ot = OutputTypeScript // at least one script output, after whatever precedes it
				}
				layout = append(layout, names[ot])
				if ot == OutputTypeScript {
					tx.AddOutputWithType(ot, []*Address{&addr}, NewThresholdScript(1), NewInteger(uint64(o+1)), vkyBytes(r, 64))
					want = append(want, []string{addr.PublicSpendKey.String()})
				} else {
					tx.AddOutputWithType(ot, nil, Script{}, NewInteger(uint64(o+1)), nil)
				}
			}
			viewed := [][]string{}
			res, _ = vCall(func() error {
				for _, out := range tx.ViewGhostKey(&addr.PrivateViewKey) {
					ks := []string{}
					for _, key := range out.Keys {
						ks = append(ks, key.String())
					}
					viewed = append(viewed, ks)
				}
				return nil
			})
			tr.Emit(vM{"ev": "viewtx", "res": res, "layout": layout, "viewed": viewed, "spend": want})
		}

		// ---------------------------------------------------------- address print / parse
		s := addr.String()
		var back Address
		res, _ = vCall(func() error {
			var err error
			back, err = NewAddressFromString(s)
			return err
		})
		tr.Emit(vM{"ev": "addr", "res": res, "s": s, "printed": back.String(),
			"keys": []string{addr.PublicSpendKey.String(), addr.PublicViewKey.String()},
			"parsed": []string{back.PublicSpendKey.String(), back.PublicViewKey.String()}})
		var viaJSON Address
		res, _ = vCall(func() error {
			b, err := json.Marshal(addr)
			if err != nil {
				return err
			}
			return json.Unmarshal(b, &viaJSON)
		})
		tr.Emit(vM{"ev": "addr", "res": res, "s": s, "printed": viaJSON.String(),
			"keys": []string{addr.PublicSpendKey.String(), addr.PublicViewKey.String()},
			"parsed": []string{viaJSON.PublicSpendKey.String(), viaJSON.PublicViewKey.String()}})

		// ---------------------------------------------------------- single-character mutations of the printed address
		for m := 0; m < 4; m++ {
			b := []byte(s)
			pos := r.Intn(len(b))
			switch r.Intn(5) {
			case 0: // anywhere, any base58 character
				b[pos] = vkyB58[r.Intn(58)]
			case 1: // in the prefix
				b[r.Intn(3)] = "xinXIN01lO"[r.Intn(10)]
			case 2: // a character outside the alphabet
				b[pos] = "0OIl+/ \n"[r.Intn(8)]
			case 3: // in the checksum tail
				b[len(b)-1-r.Intn(6)] = vkyB58[r.Intn(58)]
			default: // the neighbouring character of the alphabet
				i := strings.IndexByte(vkyB58, b[pos])
				if i >= 0 {
					b[pos] = vkyB58[(i+1)%58]
				}
			}
			mut := string(b)
			var got Address
			res, _ = vCall(func() error {
				var err error
				got, err = NewAddressFromString(mut)
				return err
			})
			printed := ""
			if res == "ok" {
				printed = got.String()
			}
			tr.Emit(vM{"ev": "addrmut", "res": res, "orig": s, "mut": mut, "printed": printed})
		}

		// ---------------------------------------------------------- key / hash / signature / CoSi signature
		key := addr.PublicSpendKey
		if k%3 == 0 {
			copy(key[:], vkyBytes(r, 32))
		}
		var k1, k2 crypto.Key
		res, _ = vCall(func() error {
			var err error
			k1, err = crypto.KeyFromString(key.String())
			if err != nil {
				return err
			}
			b, _ := json.Marshal(key)
			return json.Unmarshal(b, &k2)
		})
		tr.Emit(vM{"ev": "codec", "kind": "key", "res": res, "v": hex.EncodeToString(key[:]), "s": key.String(), "back": []string{hex.EncodeToString(k1[:]), hex.EncodeToString(k2[:])}})

		var h crypto.Hash
		copy(h[:], vkyBytes(r, 32))
		var h1, h2 crypto.Hash
		res, _ = vCall(func() error {
			var err error
			h1, err = crypto.HashFromString(h.String())
			if err != nil {
				return err
			}
			b, _ := json.Marshal(h)
			return json.Unmarshal(b, &h2)
		})
		tr.Emit(vM{"ev": "codec", "kind": "hash", "res": res, "v": hex.EncodeToString(h[:]), "s": h.String(), "back": []string{hex.EncodeToString(h1[:]), hex.EncodeToString(h2[:])}})

		var sig crypto.Signature
		copy(sig[:], vkyBytes(r, 64))
		if k%2 == 0 {
			sig = addr.PrivateSpendKey.Sign(h)
		}
		var s2 crypto.Signature
		res, _ = vCall(func() error {
			b, _ := json.Marshal(sig)
			return json.Unmarshal(b, &s2)
		})
		tr.Emit(vM{"ev": "codec", "kind": "signature", "res": res, "v": hex.EncodeToString(sig[:]), "s": sig.String(), "back": []string{hex.EncodeToString(s2[:]), hex.EncodeToString(s2[:])}})

		masks := []uint64{0, 1, 2, 1 << 31, 1 << 32, 1<<63 - 1, 1 << 63, 1<<64 - 1, r.Uint64(), r.Uint64() >> uint(r.Intn(64))}
		cs := crypto.CosiSignature{Signature: sig, Mask: masks[r.Intn(len(masks))]}
		var c2 crypto.CosiSignature
		res, _ = vCall(func() error {
			b, _ := json.Marshal(cs)
			return json.Unmarshal(b, &c2)
		})
		mk := func(c crypto.CosiSignature) string {
			return hex.EncodeToString(c.Signature[:]) + ":" + strings.Join([]string{hex.EncodeToString([]byte{byte(c.Mask >> 56), byte(c.Mask >> 48), byte(c.Mask >> 40), byte(c.Mask >> 32), byte(c.Mask >> 24), byte(c.Mask >> 16), byte(c.Mask >> 8), byte(c.Mask)})}, "")
		}
		tr.Emit(vM{"ev": "codec", "kind": "cosi", "res": res, "v": mk(cs), "s": cs.String(), "back": []string{mk(c2), mk(c2)}})

		// ---------------------------------------------------------- base58
		bl := []int{0, 1, 2, 31, 32, 64, 68}[r.Intn(7)]
		raw := vkyBytes(r, bl)
		for z := 0; z < len(raw) && z < r.Intn(4); z++ {
			raw[z] = 0 // leading zero bytes
		}
		var dec []byte
		enc := ""
		res, _ = vCall(func() error {
			enc = base58.Encode(raw)
			dec = base58.Decode(enc)
			return nil
		})
		tr.Emit(vM{"ev": "codec", "kind": "base58", "res": res, "v": hex.EncodeToString(raw), "s": enc, "back": []string{hex.EncodeToString(dec), hex.EncodeToString(dec)}})

		// ---------------------------------------------------------- random text offered to the parsers
		junk := []string{"", "XIN", "zz", strings.ToUpper(h.String()), h.String()[:63], h.String() + "0", " " + h.String(), string(vkyBytes(r, 8))}[r.Intn(8)]
		var jh crypto.Hash
		res, _ = vCall(func() error {
			var err error
			jh, err = crypto.HashFromString(junk)
			return err
		})
		again := ""
		if res == "ok" {
			h3, err := crypto.HashFromString(jh.String())
			if err == nil {
				again = hex.EncodeToString(h3[:])
			}
		}
		tr.Emit(vM{"ev": "parse", "kind": "hash", "res": res, "v": hex.EncodeToString(jh[:]), "again": again})
	}
}
