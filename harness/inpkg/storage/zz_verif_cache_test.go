package storage

// Replayer and concurrent driver for the proposal cache (spec/Cache, property C23).
// Abstract payload ids p1..p3 and envelope variants a,b of spec/Cache are concretized here:
// a payload is a transaction (fresh per execution), a variant one signed envelope of it (same
// payload hash, different signature section). The harness only drives the real cache functions
// of a real BadgerStore and records what it observed; TLC (Trace_Cache.tla) is the judge.

import (
	"bytes"
	"fmt"
	"math/rand"
	"runtime"
	"sync"
	"testing"

	"github.com/MixinNetwork/mixin/common"
	"github.com/MixinNetwork/mixin/config"
	"github.com/MixinNetwork/mixin/crypto"
	"github.com/dgraph-io/badger/v4"
)

var vchPayloads = []string{"p1", "p2", "p3"}
var vchVariants = []string{"a", "b"}

type vchWorld struct {
	store *BadgerStore
	txs   map[string]map[string]*common.VersionedTransaction // payload -> variant -> envelope
	raw   map[string]map[string][]byte
	hash  map[string]crypto.Hash
	names map[crypto.Hash]string
}

func vchNewWorld(store *BadgerStore, salt string) *vchWorld {
	w := &vchWorld{store: store, txs: map[string]map[string]*common.VersionedTransaction{},
		raw: map[string]map[string][]byte{}, hash: map[string]crypto.Hash{}, names: map[crypto.Hash]string{}}
	for _, p := range vchPayloads {
		w.txs[p] = map[string]*common.VersionedTransaction{}
		w.raw[p] = map[string][]byte{}
		for _, v := range vchVariants {
			tx := common.NewTransactionV5(common.XINAssetId)
			tx.AddInput(crypto.Blake3Hash([]byte("vch-in"+salt+p)), 0)
			tx.Extra = []byte("vch" + salt + p)
			ver := tx.AsVersioned()
			var sig crypto.Signature
			h1 := crypto.Blake3Hash([]byte("vch-sig1" + salt + p + v))
			h2 := crypto.Blake3Hash([]byte("vch-sig2" + salt + p + v))
			copy(sig[:32], h1[:])
			copy(sig[32:], h2[:])
			ver.SignaturesMap = []map[uint16]*crypto.Signature{{0: &sig}}
			w.txs[p][v] = ver
			w.raw[p][v] = ver.Marshal()
			w.hash[p] = ver.PayloadHash()
		}
		w.names[w.hash[p]] = p
	}
	return w
}

// wipe removes every cache record (harness set-up between executions: the scan of
// CacheRetrieveTransactions is global to the cache DB).
func vchWipe(t testing.TB, store *BadgerStore) {
	var keys [][]byte
	err := store.cacheDB.View(func(txn *badger.Txn) error {
		opts := badger.DefaultIteratorOptions
		opts.PrefetchValues = false
		it := txn.NewIterator(opts)
		defer it.Close()
		for it.Rewind(); it.Valid(); it.Next() {
			keys = append(keys, it.Item().KeyCopy(nil))
		}
		return nil
	})
	if err != nil {
		t.Fatalf("wipe: %v", err)
	}
	if len(keys) == 0 {
		return
	}
	err = store.cacheDB.Update(func(txn *badger.Txn) error {
		for _, k := range keys {
			if err := txn.Delete(k); err != nil {
				return err
			}
		}
		return nil
	})
	if err != nil {
		t.Fatalf("wipe: %v", err)
	}
}

func (w *vchWorld) pv(ver *common.VersionedTransaction) vM {
	name, ok := w.names[ver.PayloadHash()]
	if !ok {
		return vM{"p": "UNKNOWN", "v": "?"}
	}
	b := ver.Marshal()
	for _, v := range vchVariants {
		if bytes.Equal(b, w.raw[name][v]) {
			return vM{"p": name, "v": v}
		}
	}
	return vM{"p": name, "v": "?"}
}

func vchStr(m vM, k string) string {
	s, _ := m[k].(string)
	return s
}

func vchInt(m vM, k string) int {
	switch x := m[k].(type) {
	case float64:
		return int(x)
	case int:
		return x
	}
	return 0
}

func vchList(m vM, k string) []string {
	var out []string
	switch x := m[k].(type) {
	case []any:
		for _, e := range x {
			s, _ := e.(string)
			out = append(out, s)
		}
	case []string:
		out = x
	}
	return out
}

// apply executes one operation on the real cache; r is the list of {p, v} it returned.
func (w *vchWorld) apply(o vM) (res string, detail string, r []vM) {
	r = []vM{}
	res, detail = vCall(func() error {
		switch vchStr(o, "op") {
		case "Queue":
			return w.store.CacheQueueTransaction(w.txs[vchStr(o, "p")][vchStr(o, "v")])
		case "Store":
			return w.store.CacheStoreTransaction(w.txs[vchStr(o, "p")][vchStr(o, "v")])
		case "Retrieve":
			txs, err := w.store.CacheRetrieveTransactions(vchInt(o, "l"))
			if err != nil {
				return err
			}
			for _, ver := range txs {
				r = append(r, w.pv(ver))
			}
			return nil
		case "Remove":
			var hs []crypto.Hash
			for _, p := range vchList(o, "ps") {
				hs = append(hs, w.hash[p])
			}
			return w.store.CacheRemoveTransactions(hs)
		case "Get":
			ver, err := w.store.CacheGetTransaction(w.hash[vchStr(o, "p")])
			if err != nil {
				return err
			}
			if ver != nil {
				r = append(r, w.pv(ver))
			}
			return nil
		}
		return fmt.Errorf("unknown op %v", o["op"])
	})
	if res != "ok" {
		r = []vM{}
	}
	return
}

// observe projects the three record families of the cache DB to the abstract state.
func (w *vchWorld) observe(t testing.TB) vM {
	body, order := vM{}, vM{}
	queue := []string{}
	err := w.store.cacheDB.View(func(txn *badger.Txn) error {
		for _, p := range vchPayloads {
			_, err := txn.Get(cacheTransactionOrderKey(w.hash[p]))
			if err == nil {
				order[p] = true
			} else if err == badger.ErrKeyNotFound {
				order[p] = false
			} else {
				return err
			}
			item, err := txn.Get(cacheTransactionCacheKey(w.hash[p]))
			if err == badger.ErrKeyNotFound {
				body[p] = "None"
				continue
			} else if err != nil {
				return err
			}
			val, err := item.ValueCopy(nil)
			if err != nil {
				return err
			}
			body[p] = "?"
			for _, v := range vchVariants {
				if bytes.Equal(val, w.raw[p][v]) {
					body[p] = v
				}
			}
		}
		opts := badger.DefaultIteratorOptions
		opts.PrefetchValues = false
		opts.Prefix = []byte(cachePrefixTransactionQueue)
		it := txn.NewIterator(opts)
		defer it.Close()
		for it.Rewind(); it.Valid(); it.Next() {
			key := it.Item().KeyCopy(nil)
			var h crypto.Hash
			copy(h[:], key[len(cachePrefixTransactionQueue)+8:])
			name, ok := w.names[h]
			if !ok {
				name = "UNKNOWN"
			}
			queue = append(queue, name)
		}
		return nil
	})
	if err != nil {
		t.Fatalf("observe: %v", err)
	}
	return vM{"body": body, "order": order, "queue": queue}
}

type vchCases struct {
	Walks     [][]vM `json:"walks"`
	Histories int    `json:"histories"`
	Storms    int    `json:"storms"`
}

func TestVerifCacheReplay(t *testing.T) {
	tr := vOpenTrace(t)
	defer tr.Close()
	var cases vchCases
	vLoadCases(t, &cases)
	custom, err := config.Initialize("../config/config.example.toml")
	if err != nil {
		t.Fatal(err)
	}
	store, err := NewBadgerStore(custom, t.TempDir())
	if err != nil {
		t.Fatal(err)
	}
	defer store.Close()
	seed := vSeed()
	ttl := custom.Node.CacheTTL
	for i, ops := range cases.Walks {
		vchWipe(t, store)
		w := vchNewWorld(store, fmt.Sprintf("s%d-w%d", seed, i))
		tr.Emit(vM{"ev": "Reset", "walk": i, "ttl": ttl})
		for _, o := range ops {
			res, detail, r := w.apply(o)
			m := vM{"ev": "Op", "o": o, "ok": res == "ok", "res": res, "r": r, "obs": w.observe(t)}
			if res != "ok" {
				m["detail"] = detail
			}
			tr.Emit(m)
		}
	}
	vchConcurrent(t, tr, store, cases.Histories, seed, ttl)
	vchStorms(t, tr, store, cases.Storms, seed, ttl)
}

// Queue storms: 4 goroutines queue differently signed envelopes of ONE payload at the same moment
// (the same transaction arriving from RPC and from several peers), sometimes while it is already
// scheduled or while a retrieval runs; afterwards the queue is drained by retrievals with limit 1.
func vchStorms(t *testing.T, tr *vTrace, store *BadgerStore, n int, seed int64, ttl int) {
	rng := rand.New(rand.NewSource(seed*15485863 + 5))
	for h := 0; h < n; h++ {
		vchWipe(t, store)
		w := vchNewWorld(store, fmt.Sprintf("s%d-q%d", seed, h))
		tr.Emit(vM{"ev": "Reset", "storm": h, "ttl": ttl})
		seq := func(o vM) {
			res, _, r := w.apply(o)
			tr.Emit(vM{"ev": "Op", "o": o, "ok": res == "ok", "res": res, "r": r, "obs": w.observe(t)})
		}
		switch rng.Intn(4) {
		case 0: // already scheduled
			seq(vM{"op": "Queue", "p": "p1", "v": "a"})
		case 1: // queued, retrieved: body present, not scheduled
			seq(vM{"op": "Queue", "p": "p1", "v": "b"})
			seq(vM{"op": "Retrieve", "l": 1})
		}
		ops := make([]vM, 4)
		for p := range ops {
			ops[p] = vM{"op": "Queue", "p": "p1", "v": vchVariants[p%2]}
		}
		switch rng.Intn(4) {
		case 0:
			ops[3] = vM{"op": "Retrieve", "l": 1}
		case 1:
			ops[3] = vM{"op": "Queue", "p": "p2", "v": "a"}
		}
		var wg sync.WaitGroup
		start := make(chan struct{})
		for p := 1; p <= len(ops); p++ {
			wg.Add(1)
			go func(p int, o vM) {
				defer wg.Done()
				<-start
				tr.Emit(vM{"ev": "Call", "p": p, "o": o})
				res, _, r := w.apply(o)
				tr.Emit(vM{"ev": "Ret", "p": p, "ok": res == "ok", "res": res, "r": r})
			}(p, ops[p-1])
		}
		close(start)
		wg.Wait()
		tr.Emit(vM{"ev": "Obs", "obs": w.observe(t)})
		for k := 0; k < 3; k++ {
			seq(vM{"op": "Retrieve", "l": 1})
		}
	}
}

func vchRandOp(rng *rand.Rand, np int) vM {
	p := vchPayloads[rng.Intn(np)]
	v := vchVariants[rng.Intn(2)]
	switch k := rng.Intn(10); {
	case k < 3:
		return vM{"op": "Queue", "p": p, "v": v}
	case k < 4:
		return vM{"op": "Store", "p": p, "v": v}
	case k < 7:
		return vM{"op": "Retrieve", "l": rng.Intn(4)}
	case k < 9:
		ps := []string{p}
		if rng.Intn(3) == 0 {
			q := vchPayloads[rng.Intn(np)]
			if q != p {
				ps = append(ps, q)
			}
		}
		return vM{"op": "Remove", "ps": ps}
	}
	return vM{"op": "Get", "p": p}
}

// Concurrent histories: a sequential prefix, then G goroutines race cache calls. Only call and
// return events are logged, in real-time order (the trace mutex); TLC searches for a
// linearization (an optimistic transaction that gave up after its retries is a failed no-op).
func vchConcurrent(t *testing.T, tr *vTrace, store *BadgerStore, n int, seed int64, ttl int) {
	rng := rand.New(rand.NewSource(seed*104729 + 23))
	for h := 0; h < n; h++ {
		vchWipe(t, store)
		w := vchNewWorld(store, fmt.Sprintf("s%d-c%d", seed, h))
		np := 2 + rng.Intn(2)
		tr.Emit(vM{"ev": "Reset", "hist": h, "ttl": ttl})
		for k := rng.Intn(5); k > 0; k-- {
			o := vchRandOp(rng, np)
			res, _, r := w.apply(o)
			tr.Emit(vM{"ev": "Op", "o": o, "ok": res == "ok", "res": res, "r": r, "obs": w.observe(t)})
		}
		G := 2 + rng.Intn(3)
		var wg sync.WaitGroup
		start := make(chan struct{})
		for p := 1; p <= G; p++ {
			calls := 1 + rng.Intn(2)
			ops := make([]vM, calls)
			for c := range ops {
				ops[c] = vchRandOp(rng, np)
			}
			wg.Add(1)
			go func(p int, ops []vM) {
				defer wg.Done()
				<-start
				for _, o := range ops {
					tr.Emit(vM{"ev": "Call", "p": p, "o": o})
					res, _, r := w.apply(o)
					tr.Emit(vM{"ev": "Ret", "p": p, "ok": res == "ok", "res": res, "r": r})
					runtime.Gosched()
				}
			}(p, ops)
		}
		close(start)
		wg.Wait()
		tr.Emit(vM{"ev": "Obs", "obs": w.observe(t)})
	}
}
