package storage

// Harness of spec/Rounds/Work.tla (property C26): replays submission sequences on the real
// BadgerStore.WriteRoundWork and records the checkpoint and the counters (ReadWorkOffset, the stored
// checkpoint set, ListNodeWorks) after every call. "Restart" closes and reopens the store.
// Verdicts come from TLC (spec/Rounds/Trace_Work.tla).

import (
	"errors"
	"fmt"
	"math/rand"
	"sort"
	"sync"
	"testing"
	"time"

	"github.com/MixinNetwork/mixin/common"
	"github.com/MixinNetwork/mixin/crypto"
	"github.com/dgraph-io/badger/v4"
)

const (
	vwNM      = 3
	vwND      = 2
	vwBaseDay = 19676
)

type vwSnap struct {
	Id      int   `json:"id"`
	Day     int   `json:"day"`
	Signers []int `json:"signers"`
}

type vwOp struct {
	Op     string   `json:"op"`
	Round  uint64   `json:"round"`
	Credit bool     `json:"credit"`
	Snaps  []vwSnap `json:"snaps"`
}

type vwCases struct {
	Walks [][]vwOp `json:"walks"`
	Conc  int      `json:"conc"` // number of concurrent scenarios
}

// ---------------------------------------------------------------------------------------------
// concurrent part: several chains (goroutines) submit their monotone scripts through the real
// WriteRoundWork at the same time, crediting shared signers, each retrying on badger.ErrConflict
// exactly like kernel/mint.go (*Chain).writeRoundWork does.

type vwSub struct {
	Round  uint64   `json:"round"`
	Credit bool     `json:"credit"`
	Snaps  []vwSnap `json:"snaps"`
	Res    string   `json:"res"`
	Tries  int      `json:"tries"`
}

type vwChain struct {
	P    int     `json:"p"`
	Subs []vwSub `json:"subs"`
	Off  uint64  `json:"off"`
	Seen []int   `json:"seen"`
}

// a monotone script for one chain: per round a seeded pattern of partial / full / repeated sets
func vwScript(rng *rand.Rand, p, chains, nm int) []vwSub {
	var subs []vwSub
	rounds := 1 + rng.Intn(3)
	day := 1 + rng.Intn(vwND)
	id := 0
	for r := 0; r < rounds; r++ {
		if day < vwND && rng.Intn(3) == 0 {
			day++
		}
		credit := rng.Intn(5) != 0
		n := 1 + rng.Intn(3)
		snaps := make([]vwSnap, n)
		for i := range snaps {
			id++
			sg := []int{p}
			for m := 1; m <= nm; m++ {
				// the shared signers sign almost everything, other chains' nodes sometimes
				if m != p && ((m > chains && rng.Intn(5) != 0) || (m <= chains && rng.Intn(3) == 0)) {
					sg = append(sg, m)
				}
			}
			sort.Ints(sg)
			snaps[i] = vwSnap{Id: id, Day: day, Signers: sg}
		}
		sizes := []int{n}
		switch rng.Intn(4) {
		case 0:
			sizes = []int{1 + rng.Intn(n), n, n}
		case 1:
			sizes = []int{n, n}
		case 2:
			sizes = []int{1 + rng.Intn(n), n}
		}
		sort.Ints(sizes)
		for _, k := range sizes {
			subs = append(subs, vwSub{Round: uint64(r), Credit: credit, Snaps: append([]vwSnap{}, snaps[:k]...)})
		}
	}
	return subs
}

func vwConcurrentScenario(tr *vTrace, store *BadgerStore, rng *rand.Rand, salt string) {
	chains := 2 + rng.Intn(7)
	nm := chains + 5
	members := make([]crypto.Hash, nm)
	for m := range members {
		members[m] = vwHash(fmt.Sprintf("vw-conc-member|%s|%d", salt, m+1))
	}
	cs := make([]*vwChain, chains)
	ids := make([]map[crypto.Hash]int, chains)
	for k := range cs {
		cs[k] = &vwChain{P: k + 1, Subs: vwScript(rng, k+1, chains, nm)}
		ids[k] = map[crypto.Hash]int{}
	}
	mkWorks := func(k int, snaps []vwSnap) []*common.SnapshotWork {
		works := make([]*common.SnapshotWork, len(snaps))
		for i, a := range snaps {
			h := vwHash(fmt.Sprintf("vw-conc-snap|%s|%d|%d", salt, k, a.Id))
			ids[k][h] = a.Id
			w := &common.SnapshotWork{Hash: h, Timestamp: uint64(vwBaseDay+a.Day)*DAY_U64 + uint64(3600+a.Id)*1000000000}
			for _, m := range a.Signers {
				w.Signers = append(w.Signers, members[m-1])
			}
			works[i] = w
		}
		return works
	}
	start := make(chan struct{})
	var wg sync.WaitGroup
	for k := range cs {
		wg.Add(1)
		go func(k int) {
			defer wg.Done()
			<-start
			for i := range cs[k].Subs {
				sub := &cs[k].Subs[i]
				works := mkWorks(k, sub.Snaps)
				// kernel/mint.go writeRoundWork: retry while the store reports a transaction conflict
				for {
					sub.Tries++
					conflict := false
					res, _ := vCall(func() error {
						err := store.WriteRoundWork(members[k], sub.Round, works, sub.Credit)
						conflict = err != nil && errors.Is(err, badger.ErrConflict)
						return err
					})
					sub.Res = res
					if conflict && sub.Tries < 10000 {
						time.Sleep(time.Duration(50+sub.Tries%7*40) * time.Microsecond)
						continue
					}
					break
				}
				if sub.Res != "ok" {
					return
				}
			}
		}(k)
	}
	close(start)
	wg.Wait()
	for k := range cs {
		off, err := store.ReadWorkOffset(members[k])
		if err != nil {
			panic(err)
		}
		cs[k].Off = off
		cs[k].Seen = []int{}
		err = store.snapshotsDB.View(func(txn *badger.Txn) error {
			_, osm, err := graphReadWorkOffset(txn, graphWorkOffsetKey(members[k]))
			for h := range osm {
				id, ok := ids[k][h]
				if !ok {
					id = -1
				}
				cs[k].Seen = append(cs[k].Seen, id)
			}
			return err
		})
		if err != nil {
			panic(err)
		}
		sort.Ints(cs[k].Seen)
	}
	lead := make([][]uint64, nm)
	sign := make([][]uint64, nm)
	for d := 1; d <= vwND; d++ {
		works, err := store.ListNodeWorks(members, uint32(vwBaseDay+d))
		if err != nil {
			panic(err)
		}
		for m := 0; m < nm; m++ {
			lead[m] = append(lead[m], works[members[m]][0])
			sign[m] = append(sign[m], works[members[m]][1])
		}
	}
	tr.Emit(vM{"ev": "Conc", "nm": nm, "chains": cs, "lead": lead, "sign": sign})
}


type vwWorld struct {
	salt    string
	members []crypto.Hash // index m-1
	ids     map[crypto.Hash]int
}

func vwHash(parts ...any) crypto.Hash {
	return crypto.Blake3Hash([]byte(fmt.Sprint(parts...)))
}

func vwNewWorld(salt string) *vwWorld {
	w := &vwWorld{salt: salt, ids: map[crypto.Hash]int{}}
	for m := 1; m <= vwNM; m++ {
		w.members = append(w.members, vwHash("vw-member", salt, m))
	}
	return w
}

func (w *vwWorld) work(a vwSnap) *common.SnapshotWork {
	h := vwHash("vw-snap", w.salt, a.Id)
	w.ids[h] = a.Id
	s := &common.SnapshotWork{
		Hash:      h,
		Timestamp: uint64(vwBaseDay+a.Day)*DAY_U64 + uint64(3600+a.Id)*1000000000,
	}
	for _, m := range a.Signers {
		s.Signers = append(s.Signers, w.members[m-1])
	}
	return s
}

func (w *vwWorld) obs(store *BadgerStore) vM {
	chain := w.members[0]
	off, err := store.ReadWorkOffset(chain)
	if err != nil {
		panic(err)
	}
	seen := []int{}
	err = store.snapshotsDB.View(func(txn *badger.Txn) error {
		_, osm, err := graphReadWorkOffset(txn, graphWorkOffsetKey(chain))
		for h := range osm {
			id, ok := w.ids[h]
			if !ok {
				id = -1
			}
			seen = append(seen, id)
		}
		return err
	})
	if err != nil {
		panic(err)
	}
	sort.Ints(seen)
	lead := make([][]uint64, vwNM)
	sign := make([][]uint64, vwNM)
	for d := 1; d <= vwND; d++ {
		works, err := store.ListNodeWorks(w.members, uint32(vwBaseDay+d))
		if err != nil {
			panic(err)
		}
		for m := 0; m < vwNM; m++ {
			lead[m] = append(lead[m], works[w.members[m]][0])
			sign[m] = append(sign[m], works[w.members[m]][1])
		}
	}
	return vM{"off": off, "seen": seen, "lead": lead, "sign": sign}
}

func TestVerifWork(t *testing.T) {
	tr := vOpenTrace(t)
	defer tr.Close()
	var cases vwCases
	vLoadCases(t, &cases)
	dir := t.TempDir()
	store, err := NewBadgerStore(nil, dir)
	if err != nil {
		t.Fatal(err)
	}
	defer func() { store.Close() }()
	for i, walk := range cases.Walks {
		w := vwNewWorld(fmt.Sprintf("%d-%d", vSeed(), i))
		tr.Emit(vM{"ev": "Reset", "obs": w.obs(store)})
		for _, op := range walk {
			switch op.Op {
			case "Submit":
				works := make([]*common.SnapshotWork, len(op.Snaps))
				for k, a := range op.Snaps {
					works[k] = w.work(a)
				}
				res, _ := vCall(func() error { return store.WriteRoundWork(w.members[0], op.Round, works, op.Credit) })
				snaps := make([]vM, len(op.Snaps))
				for k, a := range op.Snaps {
					sg := a.Signers
					if sg == nil {
						sg = []int{}
					}
					snaps[k] = vM{"id": a.Id, "day": a.Day, "signers": sg}
				}
				tr.Emit(vM{"ev": "Submit", "round": op.Round, "credit": op.Credit, "snaps": snaps, "res": res, "obs": w.obs(store)})
			case "Restart":
				if err := store.Close(); err != nil {
					t.Fatal(err)
				}
				store, err = NewBadgerStore(nil, dir)
				if err != nil {
					t.Fatal(err)
				}
				tr.Emit(vM{"ev": "Restart", "obs": w.obs(store)})
			default:
				t.Fatalf("unknown op %s", op.Op)
			}
		}
	}
	rng := rand.New(rand.NewSource(vSeed()))
	for i := 0; i < cases.Conc; i++ {
		vwConcurrentScenario(tr, store, rng, fmt.Sprintf("%d-c%d", vSeed(), i))
	}
}
