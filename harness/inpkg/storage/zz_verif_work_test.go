package storage

// Harness of spec/Rounds/Work.tla (property C26): replays submission sequences on the real
// BadgerStore.WriteRoundWork and records the checkpoint and the counters (ReadWorkOffset, the stored
// checkpoint set, ListNodeWorks) after every call. "Restart" closes and reopens the store.
// Verdicts come from TLC (spec/Rounds/Trace_Work.tla).

import (
	"fmt"
	"sort"
	"testing"

	"github.com/MixinNetwork/mixin/common"
	"github.com/MixinNetwork/mixin/crypto"
	"github.com/dgraph-io/badger/v4"
)

const (
	vwNM      = 3
	vwND      = 2
	vwBaseDay = 19676
)

type vwSnap struct {
	Id      int   `json:"id"`
	Day     int   `json:"day"`
	Signers []int `json:"signers"`
}

type vwOp struct {
	Op     string   `json:"op"`
	Round  uint64   `json:"round"`
	Credit bool     `json:"credit"`
	Snaps  []vwSnap `json:"snaps"`
}

type vwCases struct {
	Walks [][]vwOp `json:"walks"`
}

type vwWorld struct {
	salt    string
	members []crypto.Hash // index m-1
	ids     map[crypto.Hash]int
}

func vwHash(parts ...any) crypto.Hash {
	return crypto.Blake3Hash([]byte(fmt.Sprint(parts...)))
}

func vwNewWorld(salt string) *vwWorld {
	w := &vwWorld{salt: salt, ids: map[crypto.Hash]int{}}
	for m := 1; m <= vwNM; m++ {
		w.members = append(w.members, vwHash("vw-member", salt, m))
	}
	return w
}

func (w *vwWorld) work(a vwSnap) *common.SnapshotWork {
	h := vwHash("vw-snap", w.salt, a.Id)
	w.ids[h] = a.Id
	s := &common.SnapshotWork{
		Hash:      h,
		Timestamp: uint64(vwBaseDay+a.Day)*DAY_U64 + uint64(3600+a.Id)*1000000000,
	}
	for _, m := range a.Signers {
		s.Signers = append(s.Signers, w.members[m-1])
	}
	return s
}

func (w *vwWorld) obs(store *BadgerStore) vM {
	chain := w.members[0]
	off, err := store.ReadWorkOffset(chain)
	if err != nil {
		panic(err)
	}
	seen := []int{}
	err = store.snapshotsDB.View(func(txn *badger.Txn) error {
		_, osm, err := graphReadWorkOffset(txn, graphWorkOffsetKey(chain))
		for h := range osm {
			id, ok := w.ids[h]
			if !ok {
				id = -1
			}
			seen = append(seen, id)
		}
		return err
	})
	if err != nil {
		panic(err)
	}
	sort.Ints(seen)
	lead := make([][]uint64, vwNM)
	sign := make([][]uint64, vwNM)
	for d := 1; d <= vwND; d++ {
		works, err := store.ListNodeWorks(w.members, uint32(vwBaseDay+d))
		if err != nil {
			panic(err)
		}
		for m := 0; m < vwNM; m++ {
			lead[m] = append(lead[m], works[w.members[m]][0])
			sign[m] = append(sign[m], works[w.members[m]][1])
		}
	}
	return vM{"off": off, "seen": seen, "lead": lead, "sign": sign}
}

func TestVerifWork(t *testing.T) {
	tr := vOpenTrace(t)
	defer tr.Close()
	var cases vwCases
	vLoadCases(t, &cases)
	dir := t.TempDir()
	store, err := NewBadgerStore(nil, dir)
	if err != nil {
		t.Fatal(err)
	}
	defer func() { store.Close() }()
	for i, walk := range cases.Walks {
		w := vwNewWorld(fmt.Sprintf("%d-%d", vSeed(), i))
		tr.Emit(vM{"ev": "Reset", "obs": w.obs(store)})
		for _, op := range walk {
			switch op.Op {
			case "Submit":
				works := make([]*common.SnapshotWork, len(op.Snaps))
				for k, a := range op.Snaps {
					works[k] = w.work(a)
				}
				res, _ := vCall(func() error { return store.WriteRoundWork(w.members[0], op.Round, works, op.Credit) })
				snaps := make([]vM, len(op.Snaps))
				for k, a := range op.Snaps {
					sg := a.Signers
					if sg == nil {
						sg = []int{}
					}
					snaps[k] = vM{"id": a.Id, "day": a.Day, "signers": sg}
				}
				tr.Emit(vM{"ev": "Submit", "round": op.Round, "credit": op.Credit, "snaps": snaps, "res": res, "obs": w.obs(store)})
			case "Restart":
				if err := store.Close(); err != nil {
					t.Fatal(err)
				}
				store, err = NewBadgerStore(nil, dir)
				if err != nil {
					t.Fatal(err)
				}
				tr.Emit(vM{"ev": "Restart", "obs": w.obs(store)})
			default:
				t.Fatalf("unknown op %s", op.Op)
			}
		}
	}
}
