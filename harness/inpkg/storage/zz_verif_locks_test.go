package storage

// Replayer and concurrent driver for the reservation machine (spec/Locks, properties C03 C04).
// Abstract ids of spec/Locks/Trace_Locks.tla (TxDefU) are concretized here; the table below must
// stay in step with that module.

import (
	"fmt"
	"math/rand"
	"runtime"
	"sync"
	"sync/atomic"
	"testing"

	"github.com/MixinNetwork/mixin/common"
	"github.com/MixinNetwork/mixin/crypto"
	"github.com/dgraph-io/badger/v4"
)

type vlTxDef struct {
	kind  string
	ins   []string
	dep   string
	batch string
	amt   uint64
	keys  []string
}

var vlTxDefs = map[string]vlTxDef{
	"T1": {kind: "utxo", ins: []string{"u1"}, keys: []string{"k1"}},
	"T2": {kind: "utxo", ins: []string{"u1", "u2"}, keys: []string{"k1", "k2"}},
	"T3": {kind: "utxo", ins: []string{"u2"}, keys: []string{"k3", "k3"}},
	"T4": {kind: "utxo", ins: []string{"u2", "u3"}, keys: []string{"k4"}},
	"D1": {kind: "deposit", dep: "d1", keys: []string{"k1"}},
	"D2": {kind: "deposit", dep: "d1", keys: []string{"k2"}},
	"D3": {kind: "deposit", dep: "d2", keys: []string{"k1"}},
	"M1": {kind: "mint", batch: "b1", amt: 5, keys: []string{"k1"}},
	"M2": {kind: "mint", batch: "b1", amt: 7, keys: []string{"k2"}},
	"M3": {kind: "mint", batch: "b2", amt: 5, keys: []string{"k1"}},
}

var vlTopo atomic.Uint64

type vlOp struct {
	Op   string `json:"op"`
	T    string `json:"t"`
	Fork *bool  `json:"fork,omitempty"`
}

type vlWorld struct {
	store  *BadgerStore
	salt   string
	asset  crypto.Hash
	setup  *common.VersionedTransaction
	slots  map[string]*common.Input
	deps   map[string]*common.DepositData
	batch  map[string]uint64
	keys   map[string]crypto.Key
	txs    map[string]*common.VersionedTransaction
	names  map[crypto.Hash]string
	nodeN  int
	fam    []string
	famSet map[string]bool
}

func vlHash(parts ...any) crypto.Hash {
	return crypto.Blake3Hash([]byte(fmt.Sprint(parts...)))
}

func vlKey(parts ...any) crypto.Key {
	seed := vlHash(parts...)
	s2 := vlHash("x", seed.String())
	return crypto.NewKeyFromSeed(append(seed[:], s2[:]...)).Public()
}

// finalize one transaction in a single-transaction snapshot of a fresh fabricated node
func (w *vlWorld) finalize(ver *common.VersionedTransaction) error {
	w.nodeN++
	node := vlHash("node", w.salt, w.nodeN)
	err := w.store.StartNewRound(node, 0, nil, 0)
	if err != nil {
		return err
	}
	snap := &common.Snapshot{
		Version:      common.SnapshotVersionCommonEncoding,
		NodeId:       node,
		RoundNumber:  0,
		Timestamp:    1700000000000000000 + vlTopo.Load(),
		Transactions: []crypto.Hash{ver.PayloadHash()},
	}
	topo := &common.SnapshotWithTopologicalOrder{Snapshot: snap, TopologicalOrder: vlTopo.Add(1)}
	return w.store.WriteSnapshot(topo, []crypto.Hash{node})
}

func vlNewWorld(t testing.TB, store *BadgerStore, salt string, fam []string, variant int) *vlWorld {
	w := &vlWorld{store: store, salt: salt, fam: fam, famSet: map[string]bool{}}
	w.asset = vlHash("asset", salt)
	w.slots = map[string]*common.Input{}
	w.deps = map[string]*common.DepositData{}
	w.batch = map[string]uint64{}
	w.keys = map[string]crypto.Key{}
	w.txs = map[string]*common.VersionedTransaction{}
	w.names = map[crypto.Hash]string{}
	for _, n := range fam {
		w.famSet[n] = true
	}
	for _, k := range []string{"k1", "k2", "k3", "k4"} {
		w.keys[k] = vlKey("ghost", salt, k)
	}
	chain := common.EthereumAssetId
	assetKey := "0xverif" + salt
	// setup deposit creating the three output slots and the asset record
	g := common.NewTransactionV5(w.asset)
	gd := &common.DepositData{Chain: chain, AssetKey: assetKey, Transaction: "setup" + salt, Index: 0, Amount: common.NewInteger(30)}
	g.AddDepositInput(gd)
	for i := 0; i < 3; i++ {
		k := vlKey("setupkey", salt, i)
		g.Outputs = append(g.Outputs, &common.Output{Type: common.OutputTypeScript, Amount: common.NewInteger(10),
			Keys: []*crypto.Key{&k}, Mask: vlKey("mask", salt), Script: common.NewThresholdScript(1)})
	}
	gv := g.AsVersioned()
	must := func(err error) {
		if err != nil {
			t.Fatalf("world setup: %v", err)
		}
	}
	must(store.LockDepositInput(gd, gv.PayloadHash(), false))
	must(store.WriteTransaction(gv))
	must(w.finalize(gv))
	w.setup = gv
	for i, s := range []string{"u1", "u2", "u3"} {
		w.slots[s] = &common.Input{Hash: gv.PayloadHash(), Index: uint(i)}
	}
	// deposit identifiers d1 and d2 differ in exactly one component, chosen by variant
	base := common.DepositData{Chain: chain, AssetKey: assetKey, Transaction: "tx:" + salt + ":1", Index: 1, Amount: common.NewInteger(3)}
	d1, d2 := base, base
	switch variant % 4 {
	case 0:
		d2.Index = 11 // "…:1" + ":1" vs "…:1" + ":11"
	case 1:
		d2.Transaction = "tx:" + salt + ":1:1" // id containing the separator
		d2.Index = 1
	case 2:
		d2.Chain = common.BitcoinAssetId
	case 3:
		d2.Transaction = "tx:" + salt + ":"
		d2.Index = 11
	}
	w.deps["d1"], w.deps["d2"] = &d1, &d2
	var sn uint64
	for _, c := range []byte(salt) {
		sn = sn*131 + uint64(c)
	}
	w.batch["b1"], w.batch["b2"] = (sn%(1<<40))*4+1, (sn%(1<<40))*4+2

	for name, def := range vlTxDefs {
		tx := common.NewTransactionV5(w.asset)
		if def.kind == "deposit" && w.deps[def.dep].Chain != chain {
			// an identifier on another chain belongs to another asset record
			tx = common.NewTransactionV5(vlHash("asset2", salt))
		}
		switch def.kind {
		case "utxo":
			for _, s := range def.ins {
				tx.AddInput(w.slots[s].Hash, w.slots[s].Index)
			}
		case "deposit":
			d := *w.deps[def.dep]
			if name == "D2" {
				// the second claimant of identifier d1 names the same (chain, transaction, index) but may
				// differ in the components that are NOT part of the identifier
				switch (variant / 4) % 3 {
				case 1:
					d.AssetKey = assetKey + "-other"
					tx = common.NewTransactionV5(vlHash("asset3", salt))
				case 2:
					d.Amount = common.NewInteger(4)
				}
			}
			tx.AddDepositInput(&d)
		case "mint":
			tx.AddUniversalMintInput(w.batch[def.batch], common.NewInteger(def.amt))
		}
		for _, k := range def.keys {
			key := w.keys[k]
			tx.Outputs = append(tx.Outputs, &common.Output{Type: common.OutputTypeScript, Amount: common.NewInteger(1),
				Keys: []*crypto.Key{&key}, Mask: vlKey("mask", salt), Script: common.NewThresholdScript(1)})
		}
		tx.Extra = []byte(name + salt)
		ver := tx.AsVersioned()
		w.txs[name] = ver
		w.names[ver.PayloadHash()] = name
	}
	return w
}

func (w *vlWorld) name(h crypto.Hash) string {
	if !h.HasValue() {
		return "None"
	}
	if n, ok := w.names[h]; ok {
		return n
	}
	if h == w.setup.PayloadHash() {
		return "SETUP"
	}
	return "UNKNOWN:" + h.String()[:8]
}

func (w *vlWorld) apply(o vlOp) (res string, detail string) {
	ver := w.txs[o.T]
	def := vlTxDefs[o.T]
	fork := o.Fork != nil && *o.Fork
	return vCall(func() error {
		switch o.Op {
		case "LockIn":
			return ver.LockInputs(w.store, fork)
		case "LockGhost":
			var ks []*crypto.Key
			for _, k := range def.keys {
				key := w.keys[k]
				ks = append(ks, &key)
			}
			return w.store.LockGhostKeys(ks, ver.PayloadHash(), fork)
		case "WriteTx":
			return w.store.WriteTransaction(ver)
		case "Finalize":
			return w.finalize(ver)
		}
		return fmt.Errorf("unknown op %s", o.Op)
	})
}

func (w *vlWorld) observe(t testing.TB) vM {
	ul, dl, ml, body, final, ghost := vM{}, vM{}, vM{}, vM{}, vM{}, vM{}
	for s, in := range w.slots {
		u, err := w.store.ReadUTXOLock(in.Hash, in.Index)
		if err != nil || u == nil {
			t.Fatalf("observe slot %s: %v", s, err)
		}
		ul[s] = w.name(u.LockHash)
	}
	for d, dd := range w.deps {
		h, err := w.store.ReadDepositLock(dd)
		if err != nil {
			t.Fatalf("observe deposit: %v", err)
		}
		dl[d] = w.name(h)
	}
	for b, n := range w.batch {
		txn := w.store.snapshotsDB.NewTransaction(false)
		dist, err := readMintInput(txn, &common.MintData{Group: "UNIVERSAL", Batch: n})
		txn.Discard()
		if err == badger.ErrKeyNotFound {
			ml[b] = vM{"tx": "None", "amt": 0}
			continue
		} else if err != nil {
			t.Fatalf("observe mint: %v", err)
		}
		amt := dist.Amount.Count(common.NewInteger(1))
		ml[b] = vM{"tx": w.name(dist.Transaction), "amt": amt}
	}
	for _, name := range w.fam {
		ver, fin, err := w.store.ReadTransaction(w.txs[name].PayloadHash())
		if err != nil {
			t.Fatalf("observe tx: %v", err)
		}
		body[name] = ver != nil
		final[name] = fin != ""
		if ver == nil {
			// a finalization record without a body is still a finalization record
			txn := w.store.snapshotsDB.NewTransaction(false)
			_, e := txn.Get(graphFinalizationKey(w.txs[name].PayloadHash()))
			txn.Discard()
			final[name] = e == nil
		}
	}
	for k, key := range w.keys {
		h, err := w.store.ReadGhostKeyLock(key)
		if err != nil {
			t.Fatalf("observe ghost: %v", err)
		}
		if h == nil {
			ghost[k] = "None"
		} else {
			ghost[k] = w.name(*h)
		}
	}
	return vM{"ul": ul, "dl": dl, "ml": ml, "body": body, "final": final, "ghost": ghost}
}

type vlCases struct {
	Walks []struct {
		Fam []string `json:"fam"`
		Ops []vlOp   `json:"ops"`
	} `json:"walks"`
	Histories int `json:"histories"`
}

func TestVerifLocksReplay(t *testing.T) {
	tr := vOpenTrace(t)
	defer tr.Close()
	var cases vlCases
	vLoadCases(t, &cases)
	store, err := NewBadgerStore(nil, t.TempDir())
	if err != nil {
		t.Fatal(err)
	}
	defer store.Close()
	seed := vSeed()
	for i, wk := range cases.Walks {
		salt := fmt.Sprintf("s%d-w%d", seed, i)
		w := vlNewWorld(t, store, salt, wk.Fam, i+int(seed))
		tr.Emit(vM{"ev": "Reset", "walk": i})
		for _, o := range wk.Ops {
			res, detail := w.apply(o)
			m := vM{"ev": "Op", "o": o, "ok": res == "ok", "res": res, "obs": w.observe(t)}
			if res == "panic" {
				m["detail"] = detail
			}
			tr.Emit(m)
		}
	}
	vlConcurrent(t, tr, store, cases.Histories, seed)
}

var vlConcTx = []string{"T1", "T2", "T3", "T4", "D1", "D2", "D3", "M1", "M2", "M3"}

// Concurrent histories: a sequential prefix prepares bodies / finalizations, then G goroutines
// race LockIn / LockGhost calls (ordinary and finalization-path). Only call and return events are
// logged, in real-time order (the trace mutex), TLC searches for a linearization.
func vlConcurrent(t *testing.T, tr *vTrace, store *BadgerStore, n int, seed int64) {
	rng := rand.New(rand.NewSource(seed*7919 + 17))
	for h := 0; h < n; h++ {
		salt := fmt.Sprintf("s%d-c%d", seed, h)
		w := vlNewWorld(t, store, salt, vlConcTx, h+int(seed))
		tr.Emit(vM{"ev": "Reset", "hist": h})
		// sequential prefix: some transactions get their locks, bodies and finalization
		for _, name := range vlConcTx {
			r := rng.Intn(10)
			if r >= 5 || (h%2 == 1 && r >= 1) {
				continue
			}
			steps := []string{"LockIn"}
			if r < 4 {
				steps = append(steps, "WriteTx")
			}
			if r < 2 {
				steps = append(steps, "Finalize")
			}
			for _, s := range steps {
				o := vlOp{Op: s, T: name}
				if s == "LockIn" {
					f := rng.Intn(3) == 0
					o.Fork = &f
				}
				res, _ := w.apply(o)
				tr.Emit(vM{"ev": "Op", "o": o, "ok": res == "ok", "res": res, "obs": w.observe(t)})
				if res != "ok" {
					break
				}
			}
		}
		G := 2 + rng.Intn(3)
		// every other history is a contention history: all goroutines make ordinary (and a few
		// finalization-path) reservations of transactions competing for the SAME slot at once
		contend := h%2 == 1
		families := [][]string{{"D1", "D2"}, {"M1", "M2"}, {"T1", "T2"}, {"T2", "T3", "T4"}, {"D1", "D2", "M1", "M2"}}
		fam := families[rng.Intn(len(families))]
		if contend {
			G = 3 + rng.Intn(4)
		}
		var wg sync.WaitGroup
		start := make(chan struct{})
		for p := 1; p <= G; p++ {
			calls := 1 + rng.Intn(2)
			ops := make([]vlOp, calls)
			for c := range ops {
				f := rng.Intn(2) == 0
				op := "LockIn"
				if rng.Intn(4) == 0 {
					op = "LockGhost"
				}
				t := vlConcTx[rng.Intn(len(vlConcTx))]
				if contend {
					op, t = "LockIn", fam[rng.Intn(len(fam))]
					f = rng.Intn(5) == 0
					if rng.Intn(6) == 0 {
						op = "LockGhost"
					}
				}
				ops[c] = vlOp{Op: op, T: t, Fork: &f}
			}
			wg.Add(1)
			go func(p int, ops []vlOp) {
				defer wg.Done()
				<-start
				for _, o := range ops {
					tr.Emit(vM{"ev": "Call", "p": p, "o": o})
					res, _ := w.apply(o)
					tr.Emit(vM{"ev": "Ret", "p": p, "ok": res == "ok", "res": res})
					runtime.Gosched()
				}
			}(p, ops)
		}
		close(start)
		wg.Wait()
		tr.Emit(vM{"ev": "Obs", "obs": w.observe(t)})
	}
}
