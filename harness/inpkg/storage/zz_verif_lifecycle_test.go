package storage

// Replayer and seeded random driver for the durable membership automaton (spec/Membership/
// Lifecycle.tla, property C27). Every abstract operation {op, sg, py, ts} becomes one minimal real
// transaction (one input spending an output of a finalized setup deposit, one output of the
// membership type, extra = signer || payee) pushed through LockUTXOs + WriteTransaction +
// WriteSnapshot of a real BadgerStore; the durable history is read back with ReadAllNodes.
// The harness only drives and records: the verdict comes from TLC (Trace_Lifecycle.tla).

import (
	"bytes"
	"fmt"
	"math/rand"
	"os"
	"runtime"
	"sort"
	"sync"
	"testing"
	"time"

	"github.com/MixinNetwork/mixin/common"
	"github.com/MixinNetwork/mixin/crypto"
	"github.com/dgraph-io/badger/v4"
)

// abstract time: real = v27Base + ts * (12 h / w). The 12 h are spelled out here on purpose (not
// read from config) so that a changed window constant in the code is observable.
const v27Base = uint64(1700000000000000000)
const v27Window = uint64(12 * time.Hour)

type v27Op struct {
	Op string `json:"op"`
	Sg string `json:"sg"`
	Py string `json:"py"`
	Ts int    `json:"ts"`
	Tx int    `json:"tx"`
}

type v27Walk struct {
	Gen int     `json:"gen"`
	Ops []v27Op `json:"ops"`
}

type v27Cases struct {
	W       int       `json:"w"`
	Walks   []v27Walk `json:"walks"`
	Random  int       `json:"random"`
	RandLen int       `json:"randlen"`
	TMax    int       `json:"tmax"`
}

var v27Signers = []string{"g0", "k1", "k2", "k3"}
var v27Payees = []string{"p1", "p2"}
var v27Kinds = []string{"Pledge", "Accept", "Cancel", "Remove"}

type v27World struct {
	t       testing.TB
	store   *BadgerStore
	id      int
	unit    uint64
	asset   crypto.Hash
	slots   []*common.Input
	batch   int
	nodeN   int
	topo    uint64
	keyN    int
	signers map[string]crypto.Key
	payees  map[string]crypto.Key
	sgName  map[crypto.Key]string
	pyName  map[crypto.Key]string
	txName  map[crypto.Hash]int
}

func v27Hash(parts ...any) crypto.Hash {
	return crypto.Blake3Hash([]byte(fmt.Sprint(parts...)))
}

func v27Key(parts ...any) crypto.Key {
	seed := v27Hash(parts...)
	s2 := v27Hash("x", seed.String())
	return crypto.NewKeyFromSeed(append(seed[:], s2[:]...)).Public()
}

func (w *v27World) must(err error, what string) {
	if err != nil {
		panic(fmt.Sprintf("lifecycle harness world %d %s: %v", w.id, what, err))
	}
}

// one single-transaction snapshot of a fresh fabricated node at the given timestamp
func (w *v27World) finalize(ver *common.VersionedTransaction, ts uint64) error {
	w.nodeN++
	node := v27Hash("v27node", w.id, w.nodeN)
	err := w.store.StartNewRound(node, 0, nil, 0)
	if err != nil {
		panic(fmt.Sprintf("lifecycle harness StartNewRound: %v", err))
	}
	snap := &common.Snapshot{
		Version:      common.SnapshotVersionCommonEncoding,
		NodeId:       node,
		RoundNumber:  0,
		Timestamp:    ts,
		Transactions: []crypto.Hash{ver.PayloadHash()},
	}
	w.topo++
	topo := &common.SnapshotWithTopologicalOrder{Snapshot: snap, TopologicalOrder: w.topo}
	return w.store.WriteSnapshot(topo, []crypto.Hash{node})
}

// a finalized deposit whose outputs are the inputs of the membership transactions
func (w *v27World) refill() {
	w.batch++
	g := common.NewTransactionV5(w.asset)
	const n = 200
	gd := &common.DepositData{Chain: common.EthereumAssetId, AssetKey: fmt.Sprintf("0xv27%d", w.id),
		Transaction: fmt.Sprintf("v27setup-%d-%d", w.id, w.batch), Index: 0, Amount: common.NewInteger(n)}
	g.AddDepositInput(gd)
	mask := v27Key("v27mask", w.id)
	for i := 0; i < n; i++ {
		w.keyN++
		k := v27Key("v27ghost", w.id, w.keyN)
		g.Outputs = append(g.Outputs, &common.Output{Type: common.OutputTypeScript, Amount: common.NewInteger(1),
			Keys: []*crypto.Key{&k}, Mask: mask, Script: common.NewThresholdScript(1)})
	}
	gv := g.AsVersioned()
	w.must(w.store.LockDepositInput(gd, gv.PayloadHash(), false), "lock deposit")
	w.must(w.store.WriteTransaction(gv), "write deposit")
	w.must(w.finalize(gv, v27Base-uint64(w.batch)), "finalize deposit")
	for i := 0; i < n; i++ {
		w.slots = append(w.slots, &common.Input{Hash: gv.PayloadHash(), Index: uint(i)})
	}
}

// a memory-backed directory when the platform has one (durability is not what C27 is about and
// the store syncs every commit), else the ordinary test directory
func v27TempDir(t testing.TB) string {
	if st, err := os.Stat("/dev/shm"); err == nil && st.IsDir() {
		if d, err := os.MkdirTemp("/dev/shm", "verif27-"); err == nil {
			t.Cleanup(func() { os.RemoveAll(d) })
			return d
		}
	}
	return t.TempDir()
}

func v27NewWorld(t testing.TB, id int, unitDiv int) *v27World {
	store, err := NewBadgerStore(nil, v27TempDir(t))
	if err != nil {
		panic(err)
	}
	w := &v27World{t: t, store: store, id: id, unit: v27Window / uint64(unitDiv)}
	w.asset = v27Hash("v27asset", id)
	w.refill()
	return w
}

// fresh membership history: drop every record of the NODESTATEQUEUE range, new keys whose byte
// order is g0 < k1 < k2 < k3 (the specification's Rank), optionally one genesis accept
func (w *v27World) reset(salt string, gen int) {
	err := w.store.snapshotsDB.Update(func(txn *badger.Txn) error {
		it := txn.NewIterator(badger.DefaultIteratorOptions)
		var keys [][]byte
		prefix := []byte(graphPrefixNodeStateQueue)
		for it.Seek(prefix); it.ValidForPrefix(prefix); it.Next() {
			keys = append(keys, it.Item().KeyCopy(nil))
		}
		it.Close()
		for _, k := range keys {
			if err := txn.Delete(k); err != nil {
				return err
			}
		}
		return nil
	})
	w.must(err, "reset")
	ks := make([]crypto.Key, len(v27Signers))
	for i := range ks {
		ks[i] = v27Key("v27signer", salt, i)
	}
	sort.Slice(ks, func(i, j int) bool { return bytes.Compare(ks[i][:], ks[j][:]) < 0 })
	w.signers, w.sgName = map[string]crypto.Key{}, map[crypto.Key]string{}
	for i, n := range v27Signers {
		w.signers[n], w.sgName[ks[i]] = ks[i], n
	}
	w.payees, w.pyName = map[string]crypto.Key{}, map[crypto.Key]string{}
	for _, n := range v27Payees {
		k := v27Key("v27payee", salt, n)
		w.payees[n], w.pyName[k] = k, n
	}
	w.txName = map[crypto.Hash]int{}
	if gen > 0 {
		// genesis accept exactly as kernel/genesis.go shapes it: genesis input, accept output
		tx := common.NewTransactionV5(w.asset)
		tx.Inputs = []*common.Input{{Genesis: []byte("v27genesis" + salt)}}
		tx.Outputs = []*common.Output{{Type: common.OutputTypeNodeAccept, Amount: common.NewInteger(1), Keys: make([]*crypto.Key, 0)}}
		sg, py := w.signers["g0"], w.payees["p1"]
		tx.Extra = append(sg[:], py[:]...)
		ver := tx.AsVersioned()
		w.txName[ver.PayloadHash()] = 0
		w.must(w.store.WriteTransaction(ver), "write genesis")
		w.must(w.finalize(ver, v27Base), "finalize genesis")
	}
}

func (w *v27World) outputType(op string) uint8 {
	switch op {
	case "Pledge":
		return common.OutputTypeNodePledge
	case "Accept":
		return common.OutputTypeNodeAccept
	case "Cancel":
		return common.OutputTypeNodeCancel
	case "Remove":
		return common.OutputTypeNodeRemove
	}
	panic("lifecycle harness: unknown op " + op)
}

func (w *v27World) apply(o v27Op) (string, string) {
	if len(w.slots) == 0 {
		w.refill()
	}
	in := w.slots[0]
	w.slots = w.slots[1:]
	tx := common.NewTransactionV5(w.asset)
	tx.AddInput(in.Hash, in.Index)
	tx.Outputs = []*common.Output{{Type: w.outputType(o.Op), Amount: common.NewInteger(1), Keys: make([]*crypto.Key, 0)}}
	sg, py := w.signers[o.Sg], w.payees[o.Py]
	tx.Extra = append(sg[:], py[:]...)
	if o.Op == "Cancel" {
		// a cancel transaction carries a second, ordinary output and a third key in its extra
		w.keyN++
		k := v27Key("v27ghost", w.id, w.keyN)
		tx.Outputs = append(tx.Outputs, &common.Output{Type: common.OutputTypeScript, Amount: common.NewInteger(1),
			Keys: []*crypto.Key{&k}, Mask: v27Key("v27mask", w.id), Script: common.NewThresholdScript(1)})
		tx.Extra = append(tx.Extra, py[:]...)
	}
	ver := tx.AsVersioned()
	h := ver.PayloadHash()
	w.txName[h] = o.Tx
	w.must(w.store.LockUTXOs([]*common.Input{in}, h, false), "lock input")
	w.must(w.store.WriteTransaction(ver), "write transaction")
	ts := v27Base + uint64(o.Ts)*w.unit
	return vCall(func() error { return w.finalize(ver, ts) })
}

func (w *v27World) recs(nodes []*common.Node) []vM {
	out := make([]vM, 0, len(nodes))
	for _, n := range nodes {
		sg, ok := w.sgName[n.Signer.PublicSpendKey]
		if !ok {
			sg = "?"
		}
		py, ok := w.pyName[n.Payee.PublicSpendKey]
		if !ok {
			py = "?"
		}
		ts := 99999
		if n.Timestamp >= v27Base && (n.Timestamp-v27Base)%w.unit == 0 && (n.Timestamp-v27Base)/w.unit < 50000 {
			ts = int((n.Timestamp - v27Base) / w.unit)
		}
		tx, ok := w.txName[n.Transaction]
		if !ok {
			tx = 99998
		}
		out = append(out, vM{"ts": ts, "sg": sg, "py": py, "st": n.State, "tx": tx})
	}
	return out
}

func (w *v27World) observe(ts int) (vM, bool) {
	obs := vM{"all": []vM{}, "latest": []vM{}, "now": []vM{}}
	res, _ := vCall(func() error {
		obs["all"] = w.recs(w.store.ReadAllNodes(^uint64(0), true))
		obs["latest"] = w.recs(w.store.ReadAllNodes(^uint64(0), false))
		obs["now"] = w.recs(w.store.ReadAllNodes(v27Base+uint64(ts)*w.unit, false))
		return nil
	})
	return obs, res == "ok"
}

func (w *v27World) run(salt string, gen int, ops []v27Op, meta vM) []vM {
	w.reset(salt, gen)
	obs, ok := w.observe(0)
	first := vM{"ev": "Reset", "gen": gen, "obsok": ok, "obs": obs}
	for k, v := range meta {
		first[k] = v
	}
	evs := []vM{first}
	for i, o := range ops {
		o.Tx = i + 1
		res, detail := w.apply(o)
		obs, ok := w.observe(o.Ts)
		m := vM{"ev": "Op", "o": o, "res": res, "obsok": ok, "obs": obs}
		if res == "panic" {
			m["detail"] = detail
		}
		evs = append(evs, m)
	}
	return evs
}

// seeded random history; half of the operations are "plausible" (derived from the real current
// membership so that long legal lifecycles occur), the rest arbitrary, timestamps mostly moving
// forward with jumps around the look-ahead window
func (w *v27World) randomHistory(rng *rand.Rand, salt string, n, tmax, win int) []vM {
	gen := rng.Intn(4)
	if gen > 1 {
		gen = 1
	}
	w.reset(salt, gen)
	obs, ok := w.observe(0)
	evs := []vM{{"ev": "Reset", "gen": gen, "obsok": ok, "obs": obs, "random": salt}}
	cur := 0
	for i := 0; i < n; i++ {
		var o v27Op
		switch rng.Intn(6) {
		case 0:
			o.Ts = rng.Intn(tmax + 1)
		case 1:
			o.Ts = cur - rng.Intn(win+2)
		default:
			o.Ts = cur + rng.Intn(win+2)
		}
		if o.Ts < 0 {
			o.Ts = 0
		}
		if o.Ts > tmax {
			o.Ts = tmax
		}
		o.Op = v27Kinds[rng.Intn(4)]
		o.Sg = v27Signers[rng.Intn(4)]
		o.Py = v27Payees[rng.Intn(2)]
		if rng.Intn(2) == 0 {
			latest := w.store.ReadAllNodes(^uint64(0), false)
			var pledging *common.Node
			var accepted []*common.Node
			used := map[string]bool{}
			for _, nd := range latest {
				used[w.sgName[nd.Signer.PublicSpendKey]] = true
				if nd.State == common.NodeStatePledging {
					pledging = nd
				} else if nd.State == common.NodeStateAccepted {
					accepted = append(accepted, nd)
				}
			}
			switch {
			case pledging != nil && rng.Intn(4) > 0:
				o.Op = []string{"Accept", "Accept", "Cancel"}[rng.Intn(3)]
				o.Sg, o.Py = w.sgName[pledging.Signer.PublicSpendKey], w.pyName[pledging.Payee.PublicSpendKey]
			case len(accepted) > 0 && rng.Intn(3) == 0:
				nd := accepted[rng.Intn(len(accepted))]
				o.Op = "Remove"
				o.Sg, o.Py = w.sgName[nd.Signer.PublicSpendKey], w.pyName[nd.Payee.PublicSpendKey]
			default:
				o.Op = "Pledge"
				for _, s := range v27Signers {
					if !used[s] {
						o.Sg = s
						break
					}
				}
			}
		}
		if o.Ts > cur {
			cur = o.Ts
		}
		o.Tx = i + 1
		res, detail := w.apply(o)
		obs, ok := w.observe(o.Ts)
		m := vM{"ev": "Op", "o": o, "res": res, "obsok": ok, "obs": obs}
		if res == "panic" {
			m["detail"] = detail
		}
		evs = append(evs, m)
	}
	return evs
}

func TestVerifLifecycleReplay(t *testing.T) {
	tr := vOpenTrace(t)
	defer tr.Close()
	var cases v27Cases
	vLoadCases(t, &cases)
	if cases.W <= 0 {
		t.Fatalf("cases: window divisor missing")
	}
	seed := vSeed()
	workers := runtime.GOMAXPROCS(0)
	if workers > 8 {
		workers = 8
	}
	workers = vEnvInt("VERIF_WORKERS", workers)
	type job struct {
		walk int
		rnd  int
	}
	jobs := make(chan job, 64)
	var emitMu sync.Mutex
	var wg sync.WaitGroup
	for p := 0; p < workers; p++ {
		wg.Add(1)
		go func(p int) {
			defer wg.Done()
			w := v27NewWorld(t, p, cases.W)
			defer w.store.Close()
			for j := range jobs {
				var evs []vM
				if j.walk >= 0 {
					wk := cases.Walks[j.walk]
					evs = w.run(fmt.Sprintf("s%d-w%d", seed, j.walk), wk.Gen, wk.Ops, vM{"walk": j.walk})
				} else {
					rng := rand.New(rand.NewSource(seed*1000003 + int64(j.rnd)))
					evs = w.randomHistory(rng, fmt.Sprintf("s%d-r%d", seed, j.rnd), cases.RandLen, cases.TMax, cases.W)
				}
				emitMu.Lock()
				for _, e := range evs {
					tr.Emit(e)
				}
				emitMu.Unlock()
			}
		}(p)
	}
	for i := range cases.Walks {
		jobs <- job{walk: i, rnd: -1}
	}
	for i := 0; i < cases.Random; i++ {
		jobs <- job{walk: -1, rnd: i}
	}
	close(jobs)
	wg.Wait()
}
