package storage

// Harness of spec/Validate (properties C01 C02 C05): concretizes the abstract transactions that TLC
// enumerates from spec/Validate/MC_Validate*.tla with real keys, real Ed25519 signatures and real
// bytes, validates them with the real common.VersionedTransaction.Validate against a real
// BadgerStore whose contents are the ledger table of spec/Validate/ValidateWorld.tla, and records
// what happened. It never judges: TLC does (spec/Validate/Trace_Validate.tla).
//
// The slot table vvSlotDefs below must stay in step with ValidateWorld.tla.

import (
	"bytes"
	"encoding/json"
	"fmt"
	"math/big"
	"math/rand"
	"sort"
	"testing"

	"crypto/sha512"
	"hash"

	"filippo.io/edwards25519"
	"github.com/MixinNetwork/mixin/common"
	"github.com/MixinNetwork/mixin/crypto"
)

// ---------------------------------------------------------------------------------------------
// abstract case format (JSON written by TLC through ToJson, ids added by the driver)

type vvAmt struct {
	G int `json:"g"` // giant unit (transaction-only amounts, up to the Integer encoding limit)
	H int `json:"h"` // huge unit (fits the default asset capacity, exists in the ledger)
	V int `json:"v"` // 2^127 units
	W int `json:"w"` // 2^63 units
	C int `json:"c"` // capacity of the Bitcoin asset
	P int `json:"p"` // kernel node pledge amount
	N int `json:"n"` // 1e-8 units
}

type vvIn struct {
	Slot string `json:"slot"`
	Gen  bool   `json:"gen"`
	Dep  string `json:"dep"`
	Mint string `json:"mint"`
	Amt  vvAmt  `json:"amt"`
	Oamt vvAmt  `json:"oamt"` // amount of the deposit record when the input also carries a mint record
}

type vvOut struct {
	T    string `json:"t"`
	Amt  vvAmt  `json:"amt"`
	Nk   int    `json:"nk"`
	Kv   string `json:"kv"`
	Scr  string `json:"scr"`
	Mask string `json:"mask"`
	Wd   bool   `json:"wd"`
}

type vvEnt struct {
	I int    `json:"i"`
	S string `json:"s"`
}

type vvSig struct {
	K       string    `json:"k"` // "maps" | "agg"
	Maps    [][]vvEnt `json:"maps"`
	Signers []int     `json:"signers"`
	Built   []int     `json:"built"`
	Sk      string    `json:"sk"`
	Msg     string    `json:"msg"`
}

type vvCase struct {
	Id    int      `json:"id"`
	W     string   `json:"w"`
	Asset string   `json:"asset"`
	Fork  bool     `json:"fork"`
	Ts    string   `json:"ts"`
	Ins   []vvIn   `json:"ins"`
	Outs  []vvOut  `json:"outs"`
	Refs  []string `json:"refs"`
	Extra string   `json:"extra"`
	Sig   vvSig    `json:"sig"`
}

type vvBatchVec struct {
	Kinds []string `json:"kinds"`
}

type vvCaseFile struct {
	Mode    string            `json:"mode"` // "C01" | "C02" | "C05"
	Cases   []json.RawMessage `json:"cases"`
	Batches []vvBatchVec      `json:"batches"`
	GBits   int               `json:"gbits"`  // bit length of the giant unit
	Tamper  bool              `json:"tamper"` // run the tamper steps after accepted cases
	Raw     int               `json:"raw"`    // number of seeded byte-level mutants (C05)
	RawHex  []string          `json:"rawhex"` // replay: exact byte strings to decode and validate
}

// ---------------------------------------------------------------------------------------------
// the ledger ("world")

type vvSlotDef struct {
	asset string
	typ   string // script | accept | remove | cancel | pledge | claim | custodian
	amt   vvAmt
	nk    int
	thr   int
	lock  bool
	world string // "" = both worlds, "B" = only world B
}

// mirror of ValidateWorld.tla
var vvSlotDefs = map[string]vvSlotDef{
	"x1":  {asset: "XIN", typ: "script", amt: vvAmt{N: 1}, nk: 1, thr: 1},
	"x2":  {asset: "XIN", typ: "script", amt: vvAmt{N: 2}, nk: 2, thr: 1},
	"x3":  {asset: "XIN", typ: "script", amt: vvAmt{N: 3}, nk: 3, thr: 2},
	"xf":  {asset: "XIN", typ: "script", amt: vvAmt{N: 10001}, nk: 1, thr: 1},
	"xs":  {asset: "XIN", typ: "script", amt: vvAmt{N: 20000}, nk: 1, thr: 1},
	"xl":  {asset: "XIN", typ: "script", amt: vvAmt{N: 2}, nk: 1, thr: 1, lock: true},
	"xt0": {asset: "XIN", typ: "script", amt: vvAmt{N: 1}, nk: 2, thr: 0},
	"xt3": {asset: "XIN", typ: "script", amt: vvAmt{N: 1}, nk: 2, thr: 3},
	"a1":  {asset: "XIN", typ: "accept", amt: vvAmt{P: 1}, nk: 7, thr: 5},
	"a2":  {asset: "XIN", typ: "accept", amt: vvAmt{P: 1}, nk: 7, thr: 5},
	"rm":  {asset: "XIN", typ: "remove", amt: vvAmt{P: 1}, nk: 1, thr: 1},
	"cn":  {asset: "XIN", typ: "cancel", amt: vvAmt{N: 1}, nk: 0, thr: 0},
	"pl":  {asset: "XIN", typ: "pledge", amt: vvAmt{N: 100}, nk: 0, thr: 0, world: "B"},
	"cl":  {asset: "XIN", typ: "claim", amt: vvAmt{N: 10000}, nk: 0, thr: 0},
	"cu":  {asset: "XIN", typ: "custodian", amt: vvAmt{N: 7}, nk: 1, thr: 64},
	"b1":  {asset: "BTC", typ: "script", amt: vvAmt{N: 1}, nk: 1, thr: 1},
	"b2":  {asset: "BTC", typ: "script", amt: vvAmt{N: 2}, nk: 1, thr: 1},
	"o1":  {asset: "OTH", typ: "script", amt: vvAmt{N: 1}, nk: 1, thr: 1},
	"o2":  {asset: "OTH", typ: "script", amt: vvAmt{N: 2}, nk: 2, thr: 2},
	"o3":  {asset: "OTH", typ: "script", amt: vvAmt{N: 3}, nk: 3, thr: 2},
	"oh":  {asset: "OTH", typ: "script", amt: vvAmt{H: 1}, nk: 1, thr: 1},
	"oh2": {asset: "OTH", typ: "script", amt: vvAmt{H: 1}, nk: 1, thr: 1},
	"ow1":  {asset: "OTH", typ: "script", amt: vvAmt{W: 1}, nk: 1, thr: 1},
	"ow2":  {asset: "OTH", typ: "script", amt: vvAmt{W: 1}, nk: 1, thr: 1},
	"k64a": {asset: "OTH", typ: "script", amt: vvAmt{N: 1}, nk: 64, thr: 64},
	"k64b": {asset: "OTH", typ: "script", amt: vvAmt{N: 1}, nk: 64, thr: 33},
}

// outputs consumed while the node / withdrawal history of the world is built (not in the table)
var vvHelperDefs = map[string]vvSlotDef{
	"hp1":    {asset: "XIN", typ: "script", amt: vvAmt{N: 100}, nk: 1, thr: 1},
	"hp2":    {asset: "XIN", typ: "script", amt: vvAmt{N: 100}, nk: 1, thr: 1},
	"hsub":   {asset: "XIN", typ: "script", amt: vvAmt{N: 5}, nk: 1, thr: 1},
	"hclaim": {asset: "XIN", typ: "script", amt: vvAmt{N: 10000}, nk: 1, thr: 1},
	"hpend":  {asset: "XIN", typ: "script", amt: vvAmt{N: 1}, nk: 1, thr: 1},
}

func vvDef(n string) vvSlotDef {
	if d, ok := vvSlotDefs[n]; ok {
		return d
	}
	return vvHelperDefs[n]
}

func init() {
	// signature-layout grid of C02: s<nk><thr><instance>, one unit each, asset OTH
	for nk := 1; nk <= 3; nk++ {
		for thr := 0; thr <= 4; thr++ {
			for _, inst := range []string{"a", "b", "c"} {
				vvSlotDefs[fmt.Sprintf("s%d%d%s", nk, thr, inst)] = vvSlotDef{asset: "OTH", typ: "script", amt: vvAmt{N: 1}, nk: nk, thr: thr}
			}
		}
	}
}

type vvSlot struct {
	def   vvSlotDef
	in    common.Input
	privs []crypto.Key
	pubs  []crypto.Key
}

type vvWorld struct {
	name       string
	store      *BadgerStore
	seed       int64
	gns        *common.Genesis
	epoch      uint64
	network    crypto.Hash
	custodian  common.Address // genesis custodian (private spend key known)
	nodeSigner []common.Address
	nodePayee  []common.Address
	nodeCust   []common.Address
	slots      map[string]*vvSlot
	assets     map[string]crypto.Hash
	hval       *big.Int // huge unit
	gval       *big.Int // giant unit
	refFin     crypto.Hash
	refSubmit  crypto.Hash
	refPend    crypto.Hash
	lastBatch  uint64
	pledgeTx   *common.VersionedTransaction // world B: the pending pledge
	pledgeKey  common.Address               // its signer (private spend known)
	usedKey    crypto.Key                   // a ghost key already bound in the ledger
	topo       uint64
	nodeN      int
	lateTs     uint64
	depositSeq int
}

func vvHash(parts ...any) crypto.Hash {
	return crypto.Blake3Hash([]byte(fmt.Sprint(parts...)))
}

func vvSeed64(parts ...any) []byte {
	seed := vvHash(parts...)
	s2 := vvHash("x", seed.String())
	return append(seed[:], s2[:]...)
}

func vvPriv(parts ...any) crypto.Key {
	return crypto.NewKeyFromSeed(vvSeed64(parts...))
}

// node style address: view key derived from the public spend key
func vvNodeAddr(parts ...any) common.Address {
	spend := vvPriv(parts...)
	var a common.Address
	a.PrivateSpendKey = spend
	a.PublicSpendKey = spend.Public()
	a.PrivateViewKey = a.PublicSpendKey.DeterministicHashDerive()
	a.PublicViewKey = a.PrivateViewKey.Public()
	return a
}

var vvCapBTC = func() *big.Int { v, _ := new(big.Int).SetString("250000000000", 10); return v }()
var vvPledge = func() *big.Int { v, _ := new(big.Int).SetString("1343900000000", 10); return v }()

func (w *vvWorld) value(a vvAmt) *big.Int {
	v := new(big.Int)
	t := new(big.Int)
	v.Add(v, t.Mul(big.NewInt(int64(a.G)), w.gval))
	t = new(big.Int)
	v.Add(v, t.Mul(big.NewInt(int64(a.H)), w.hval))
	v.Add(v, new(big.Int).Mul(big.NewInt(int64(a.V)), new(big.Int).Lsh(big.NewInt(1), 127)))
	v.Add(v, new(big.Int).Mul(big.NewInt(int64(a.W)), new(big.Int).Lsh(big.NewInt(1), 63)))
	t = new(big.Int)
	v.Add(v, t.Mul(big.NewInt(int64(a.C)), vvCapBTC))
	t = new(big.Int)
	v.Add(v, t.Mul(big.NewInt(int64(a.P)), vvPledge))
	v.Add(v, big.NewInt(int64(a.N)))
	return v
}

func vvInteger(v *big.Int) common.Integer {
	if v.Sign() < 0 {
		panic("negative abstract amount " + v.String())
	}
	// through the real decoder of Integer (big-endian magnitude)
	enc := common.NewEncoder()
	b := v.Bytes()
	enc.WriteInt(len(b))
	enc.Write(b)
	enc.Write([]byte{0}) // keeps the reader away from EOF for the zero amount
	i, err := common.NewDecoder(enc.Bytes()).ReadInteger()
	if err != nil {
		panic(err)
	}
	return i
}

func (w *vvWorld) integer(a vvAmt) common.Integer {
	return vvInteger(w.value(a))
}

func (w *vvWorld) must(t testing.TB, what string, err error) {
	if err != nil {
		t.Fatalf("world %s setup (%s): %v", w.name, what, err)
	}
}

func (w *vvWorld) finalize(t testing.TB, ver *common.VersionedTransaction, ts uint64) {
	w.nodeN++
	node := vvHash("vvnode", w.name, w.seed, w.nodeN)
	w.must(t, "round", w.store.StartNewRound(node, 0, nil, 0))
	snap := &common.Snapshot{
		Version:      common.SnapshotVersionCommonEncoding,
		NodeId:       node,
		RoundNumber:  0,
		Timestamp:    ts,
		Transactions: []crypto.Hash{ver.PayloadHash()},
	}
	topo := &common.SnapshotWithTopologicalOrder{Snapshot: snap, TopologicalOrder: w.topo}
	w.topo++
	w.must(t, "snapshot", w.store.WriteSnapshot(topo, []crypto.Hash{node}))
}

func (w *vvWorld) hour(n int) uint64 {
	return w.epoch + uint64(n)*3600*1000000000
}

func (w *vvWorld) scriptOut(privs []crypto.Key, thr int, amt common.Integer, typ uint8) *common.Output {
	o := &common.Output{Type: typ, Amount: amt, Script: common.NewThresholdScript(uint8(thr)), Mask: vvPriv("mask", w.name, w.seed, len(privs), thr).Public()}
	for i := range privs {
		p := privs[i].Public()
		o.Keys = append(o.Keys, &p)
	}
	return o
}

// a finalized deposit of the asset creating one script output per named slot
func (w *vvWorld) deposit(t testing.TB, asset string, names []string, ts uint64) *common.VersionedTransaction {
	w.depositSeq++
	tx := common.NewTransactionV5(w.assets[asset])
	total := new(big.Int)
	for _, n := range names {
		total.Add(total, w.value(vvDef(n).amt))
	}
	dd := w.depositData(asset, fmt.Sprintf("setup-%s-%d-%d", w.name, w.seed, w.depositSeq), 0, vvInteger(total))
	tx.AddDepositInput(dd)
	for _, n := range names {
		def := vvDef(n)
		s := &vvSlot{def: def}
		for k := 0; k < def.nk; k++ {
			p := vvPriv("slotkey", w.name, w.seed, n, k)
			s.privs = append(s.privs, p)
			s.pubs = append(s.pubs, p.Public())
		}
		tx.Outputs = append(tx.Outputs, w.scriptOut(s.privs, def.thr, w.integer(def.amt), common.OutputTypeScript))
		w.slots[n] = s
	}
	ver := tx.AsVersioned()
	for i, n := range names {
		w.slots[n].in = common.Input{Hash: ver.PayloadHash(), Index: uint(i)}
	}
	w.must(t, "deposit lock", w.store.LockDepositInput(dd, ver.PayloadHash(), false))
	w.must(t, "deposit write", w.store.WriteTransaction(ver))
	w.finalize(t, ver, ts)
	return ver
}

func (w *vvWorld) depositData(asset, txid string, index uint64, amt common.Integer) *common.DepositData {
	switch asset {
	case "XIN":
		return &common.DepositData{Chain: common.XINAsset.Chain, AssetKey: common.XINAsset.AssetKey, Transaction: txid, Index: index, Amount: amt}
	case "BTC":
		return &common.DepositData{Chain: common.BitcoinAssetId, AssetKey: "c6d0c728-2624-429b-8e0d-d9d19b6592fa", Transaction: txid, Index: index, Amount: amt}
	case "OTH":
		return &common.DepositData{Chain: common.EthereumAssetId, AssetKey: "0xverifoth", Transaction: txid, Index: index, Amount: amt}
	case "ZER":
		return &common.DepositData{Chain: common.EthereumAssetId, AssetKey: "0xverifzer", Transaction: txid, Index: index, Amount: amt}
	default: // NEW: an asset the ledger has never seen
		return &common.DepositData{Chain: common.EthereumAssetId, AssetKey: "0xverifnew", Transaction: txid, Index: index, Amount: amt}
	}
}

// spend ordinary inputs at storage level (no signatures needed there) and finalize
func (w *vvWorld) spend(t testing.TB, tx *common.Transaction, ts uint64) *common.VersionedTransaction {
	ver := tx.AsVersioned()
	w.must(t, "lock", w.store.LockUTXOs(ver.Inputs, ver.PayloadHash(), false))
	w.must(t, "write", w.store.WriteTransaction(ver))
	w.finalize(t, ver, ts)
	return ver
}

func vvNewWorld(t testing.TB, name string, seed int64, gbits int) *vvWorld {
	w := &vvWorld{name: name, seed: seed, slots: map[string]*vvSlot{}, assets: map[string]crypto.Hash{}}
	store, err := NewBadgerStore(nil, t.TempDir())
	if err != nil {
		t.Fatal(err)
	}
	w.store = store
	rng := rand.New(rand.NewSource(seed*1000003 + 7))
	// huge unit: fits the default capacity (about 2^222.8 units) several times over
	hb := 180 + rng.Intn(40)
	w.hval = new(big.Int).Sub(new(big.Int).Lsh(big.NewInt(1), uint(hb)), big.NewInt(int64(rng.Intn(1000))))
	if gbits < 300 {
		gbits = 300
	}
	w.gval = new(big.Int).Sub(new(big.Int).Lsh(big.NewInt(1), uint(gbits)), big.NewInt(1))
	w.assets["XIN"] = common.XINAssetId
	w.assets["BTC"] = common.BitcoinAssetId
	w.assets["OTH"] = vvHash("asset-oth", seed)
	w.assets["NEW"] = vvHash("asset-new", seed)
	w.assets["ZER"] = vvHash("asset-zero", seed)

	// ---- genesis with known keys
	type gnode = struct {
		Signer    *common.Address `json:"signer"`
		Payee     *common.Address `json:"payee"`
		Custodian *common.Address `json:"custodian"`
		Balance   common.Integer  `json:"balance"`
	}
	gns := &common.Genesis{Epoch: 1_700_000_000}
	for i := 0; i < 7; i++ {
		s := vvNodeAddr("signer", seed, i)
		p := vvNodeAddr("payee", seed, i)
		c := common.NewAddressFromSeed(vvSeed64("cust", seed, i))
		w.nodeSigner = append(w.nodeSigner, s)
		w.nodePayee = append(w.nodePayee, p)
		w.nodeCust = append(w.nodeCust, c)
		gns.Nodes = append(gns.Nodes, &gnode{Signer: &w.nodeSigner[i], Payee: &w.nodePayee[i], Custodian: &w.nodeCust[i], Balance: common.KernelNodePledgeAmount})
	}
	w.custodian = common.NewAddressFromSeed(vvSeed64("gcust", seed))
	gns.Custodian = &w.custodian
	w.gns = gns
	w.epoch = gns.EpochTimestamp()
	w.network = gns.NetworkId()
	rounds, snaps, txs, err := gns.BuildSnapshots()
	w.must(t, "genesis build", err)
	w.must(t, "genesis load", store.LoadGenesis(rounds, snaps, txs))
	w.topo = uint64(len(snaps))
	for i, n := range []string{"a1", "a2"} {
		w.slots[n] = &vvSlot{def: vvSlotDefs[n], in: common.Input{Hash: txs[i].PayloadHash(), Index: 0}}
		for _, k := range txs[i].Outputs[0].Keys {
			w.slots[n].pubs = append(w.slots[n].pubs, *k)
		}
	}
	cu := txs[len(txs)-1]
	w.slots["cu"] = &vvSlot{def: vvSlotDefs["cu"], in: common.Input{Hash: cu.PayloadHash(), Index: 0}, pubs: []crypto.Key{*cu.Outputs[0].Keys[0]}}

	// ---- script outputs of the three assets
	var xin, btc, oth []string
	for n, d := range vvSlotDefs {
		if d.typ != "script" {
			continue
		}
		switch d.asset {
		case "XIN":
			xin = append(xin, n)
		case "BTC":
			btc = append(btc, n)
		case "OTH":
			oth = append(oth, n)
		}
	}
	sort.Strings(xin)
	sort.Strings(btc)
	sort.Strings(oth)
	// helper outputs consumed by the node / withdrawal history below (not part of the table)
	helpers := []string{"hp1", "hp2", "hsub", "hclaim", "hpend"}
	depX := w.deposit(t, "XIN", append(append([]string{}, xin...), helpers...), w.hour(1))
	w.deposit(t, "BTC", btc, w.hour(1)+1)
	w.deposit(t, "OTH", oth, w.hour(1)+2)
	w.refFin = depX.PayloadHash()
	w.usedKey = w.slots["x1"].pubs[0]

	// ---- a finalized mint distribution
	w.lastBatch = 10
	{
		tx := common.NewTransactionV5(common.XINAssetId)
		tx.AddUniversalMintInput(w.lastBatch, vvInteger(big.NewInt(5)))
		tx.Outputs = append(tx.Outputs, w.scriptOut([]crypto.Key{vvPriv("mintkey", name, seed)}, 1, vvInteger(big.NewInt(5)), common.OutputTypeScript))
		ver := tx.AsVersioned()
		w.must(t, "mint lock", store.LockMintInput(ver.Inputs[0].Mint, ver.PayloadHash(), false))
		w.must(t, "mint write", store.WriteTransaction(ver))
		w.finalize(t, ver, w.hour(2))
	}

	// ---- node history: remove genesis node 7, pledge + cancel node P1, (world B) pledge node P2
	{
		tx := common.NewTransactionV5(common.XINAssetId)
		tx.AddInput(txs[6].PayloadHash(), 0)
		rk := vvPriv("removekey", name, seed)
		tx.Outputs = append(tx.Outputs, w.scriptOut([]crypto.Key{rk}, 1, common.KernelNodePledgeAmount, common.OutputTypeNodeRemove))
		tx.Extra = append(w.nodeSigner[6].PublicSpendKey[:], w.nodePayee[6].PublicSpendKey[:]...)
		ver := w.spend(t, tx, w.hour(30))
		w.slots["rm"] = &vvSlot{def: vvSlotDefs["rm"], in: common.Input{Hash: ver.PayloadHash(), Index: 0}, privs: []crypto.Key{rk}, pubs: []crypto.Key{rk.Public()}}
	}
	pledge := func(helper string, who string, ts uint64) (*common.VersionedTransaction, common.Address) {
		s := vvNodeAddr("psigner", seed, who)
		p := vvNodeAddr("ppayee", seed, who)
		tx := common.NewTransactionV5(common.XINAssetId)
		tx.AddInput(w.slots[helper].in.Hash, w.slots[helper].in.Index)
		tx.Outputs = append(tx.Outputs, &common.Output{Type: common.OutputTypeNodePledge, Amount: vvInteger(big.NewInt(100))})
		tx.Extra = append(s.PublicSpendKey[:], p.PublicSpendKey[:]...)
		return w.spend(t, tx, ts), s
	}
	p1, _ := pledge("hp1", "P1", w.hour(60))
	{
		tx := common.NewTransactionV5(common.XINAssetId)
		tx.AddInput(p1.PayloadHash(), 0)
		tx.Outputs = append(tx.Outputs, &common.Output{Type: common.OutputTypeNodeCancel, Amount: vvInteger(big.NewInt(1))})
		tx.Outputs = append(tx.Outputs, w.scriptOut([]crypto.Key{vvPriv("cancelkey", name, seed)}, 1, vvInteger(big.NewInt(99)), common.OutputTypeScript))
		cv := vvPriv("cancelview", name, seed).Public()
		tx.Extra = append(append([]byte{}, p1.Extra...), cv[:]...)
		ver := w.spend(t, tx, w.hour(70))
		w.slots["cn"] = &vvSlot{def: vvSlotDefs["cn"], in: common.Input{Hash: ver.PayloadHash(), Index: 0}}
	}

	// ---- withdrawal submit + claim, a pending (written, not finalized) transaction
	{
		tx := common.NewTransactionV5(common.XINAssetId)
		tx.AddInput(w.slots["hsub"].in.Hash, w.slots["hsub"].in.Index)
		tx.Outputs = append(tx.Outputs, &common.Output{Type: common.OutputTypeWithdrawalSubmit, Amount: vvInteger(big.NewInt(5)),
			Withdrawal: &common.WithdrawalData{Address: "0xwithdraw", Tag: "tag"}})
		sub := w.spend(t, tx, w.hour(80))
		w.refSubmit = sub.PayloadHash()
		tx = common.NewTransactionV5(common.XINAssetId)
		tx.AddInput(w.slots["hclaim"].in.Hash, w.slots["hclaim"].in.Index)
		tx.Outputs = append(tx.Outputs, &common.Output{Type: common.OutputTypeWithdrawalClaim, Amount: vvInteger(big.NewInt(10000))})
		tx.References = []crypto.Hash{sub.PayloadHash()}
		tx.Extra = []byte("claimed")
		cl := w.spend(t, tx, w.hour(81))
		w.slots["cl"] = &vvSlot{def: vvSlotDefs["cl"], in: common.Input{Hash: cl.PayloadHash(), Index: 0}}
		tx = common.NewTransactionV5(common.XINAssetId)
		tx.AddInput(w.slots["hpend"].in.Hash, w.slots["hpend"].in.Index)
		tx.Outputs = append(tx.Outputs, w.scriptOut([]crypto.Key{vvPriv("pendkey", name, seed)}, 1, vvInteger(big.NewInt(1)), common.OutputTypeScript))
		pend := tx.AsVersioned()
		w.must(t, "pend lock", store.LockUTXOs(pend.Inputs, pend.PayloadHash(), false))
		w.must(t, "pend write", store.WriteTransaction(pend))
		w.refPend = pend.PayloadHash()
	}
	// ---- an asset the ledger knows whose recorded total is exactly zero: deposited once, withdrawn in full
	{
		tx := common.NewTransactionV5(w.assets["ZER"])
		dd := w.depositData("ZER", fmt.Sprintf("zero-%s-%d", name, seed), 0, vvInteger(big.NewInt(7)))
		tx.AddDepositInput(dd)
		tx.Outputs = append(tx.Outputs, w.scriptOut([]crypto.Key{vvPriv("zerokey", name, seed)}, 1, vvInteger(big.NewInt(7)), common.OutputTypeScript))
		dep := tx.AsVersioned()
		w.must(t, "zero deposit lock", store.LockDepositInput(dd, dep.PayloadHash(), false))
		w.must(t, "zero deposit write", store.WriteTransaction(dep))
		w.finalize(t, dep, w.hour(82))
		tx = common.NewTransactionV5(w.assets["ZER"])
		tx.AddInput(dep.PayloadHash(), 0)
		tx.Outputs = append(tx.Outputs, &common.Output{Type: common.OutputTypeWithdrawalSubmit, Amount: vvInteger(big.NewInt(7)),
			Withdrawal: &common.WithdrawalData{Address: "0xzero", Tag: ""}})
		w.spend(t, tx, w.hour(83))
		_, bal, err := store.ReadAssetWithBalance(w.assets["ZER"])
		if err != nil || bal.Sign() != 0 {
			t.Fatalf("world setup: zero-total asset has total %s (%v)", bal, err)
		}
	}
	// ---- the locked output
	w.must(t, "lock xl", store.LockUTXOs([]*common.Input{{Hash: w.slots["xl"].in.Hash, Index: w.slots["xl"].in.Index}}, vvHash("other-spender", seed), false))

	if name == "B" {
		p2, s2 := pledge("hp2", "P2", w.hour(90))
		w.pledgeTx = p2
		w.pledgeKey = s2
		w.slots["pl"] = &vvSlot{def: vvSlotDefs["pl"], in: common.Input{Hash: p2.PayloadHash(), Index: 0}}
	}
	w.lateTs = w.hour(200)
	return w
}


// ---------------------------------------------------------------------------------------------
// concretization of one abstract transaction

var vvOutTypes = map[string]uint8{
	"script": common.OutputTypeScript, "submit": common.OutputTypeWithdrawalSubmit, "pledge": common.OutputTypeNodePledge,
	"accept": common.OutputTypeNodeAccept, "resign": 0xa5, "remove": common.OutputTypeNodeRemove,
	"claim": common.OutputTypeWithdrawalClaim, "cancel": common.OutputTypeNodeCancel,
	"custodian": common.OutputTypeCustodianUpdateNodes, "slash": common.OutputTypeCustodianSlashNodes, "junk": 0x77,
}

var vvScripts = map[string][]byte{
	"t0": {0xff, 0xfe, 0}, "t1": {0xff, 0xfe, 1}, "t2": {0xff, 0xfe, 2}, "t3": {0xff, 0xfe, 3}, "t64": {0xff, 0xfe, 64},
	"t65": {0xff, 0xfe, 65}, "short": {0xff, 0xfe}, "badop": {0xfe, 0xff, 1}, "none": nil,
}

// the encoding of the neutral element: decodes, but is not a prime order point
var vvBadPoint = func() crypto.Key { var k crypto.Key; k[0] = 1; return k }()

type vvBuilt struct {
	c      *vvCase
	w      *vvWorld
	tx     *common.SignedTransaction
	ts     uint64
	slots  []*vvSlot // per input: the spent output if the input is ordinary and known
	allKey []*vvKeyRef
}

type vvKeyRef struct {
	pub  crypto.Key
	priv *crypto.Key
}

func (w *vvWorld) inputRef(c *vvCase, name string) common.Input {
	if s, ok := w.slots[name]; ok {
		return s.in
	}
	if len(name) > 3 && name[:3] == "x1i" {
		// another index of the transaction whose output 0 is x1: no such output
		var k uint
		fmt.Sscanf(name[3:], "%d", &k)
		return common.Input{Hash: w.slots["x1"].in.Hash, Index: k}
	}
	switch name {
	case "badidx":
		return common.Input{Hash: w.refFin, Index: 900}
	case "sub0":
		return common.Input{Hash: w.refSubmit, Index: 0}
	}
	return common.Input{Hash: vvHash("no-such-output", name, w.seed), Index: 0}
}

func (w *vvWorld) extraBytes(c *vvCase) []byte {
	fill := func(n int) []byte {
		b := make([]byte, n)
		h := vvHash("extra", w.seed, c.Id)
		for i := range b {
			b[i] = h[i%32] | 1
		}
		return b
	}
	switch c.Extra {
	case "e0":
		return nil
	case "e1":
		return fill(1)
	case "e32":
		return fill(32)
	case "e63":
		return fill(63)
	case "e64":
		return make([]byte, 64) // all zero: the signer key is not a prime order point
	case "e96":
		return fill(96)
	case "e256":
		return fill(256)
	case "e257":
		return fill(257)
	case "e1024":
		return fill(1024)
	case "e1025":
		return fill(1025)
	case "e2048":
		return fill(2048)
	case "e2049":
		return fill(2049)
	case "pledgeOK":
		s := vvNodeAddr("fresh-signer", w.seed, c.Id)
		p := vvNodeAddr("fresh-payee", w.seed, c.Id)
		return append(append([]byte{}, s.PublicSpendKey[:]...), p.PublicSpendKey[:]...)
	case "pledgeBadKey":
		p := vvNodeAddr("fresh-payee", w.seed, c.Id)
		return append(append([]byte{}, vvBadPoint[:]...), p.PublicSpendKey[:]...)
	case "pledgeSigner":
		p := vvNodeAddr("fresh-payee", w.seed, c.Id)
		return append(append([]byte{}, w.nodeSigner[2].PublicSpendKey[:]...), p.PublicSpendKey[:]...)
	case "pledgePayee":
		p := vvNodeAddr("fresh-payee", w.seed, c.Id)
		return append(append([]byte{}, w.nodePayee[3].PublicSpendKey[:]...), p.PublicSpendKey[:]...)
	case "acceptEq":
		if w.pledgeTx != nil {
			return append([]byte{}, w.pledgeTx.Extra...)
		}
		return fill(64)
	case "removeEq1":
		return append(append([]byte{}, w.nodeSigner[0].PublicSpendKey[:]...), w.nodePayee[0].PublicSpendKey[:]...)
	case "removeEq2":
		return append(append([]byte{}, w.nodeSigner[1].PublicSpendKey[:]...), w.nodePayee[1].PublicSpendKey[:]...)
	case "claimOK", "claimBad":
		data := fill(32)
		msg := crypto.Blake3Hash(data)
		key := w.custodian.PrivateSpendKey
		if c.Extra == "claimBad" {
			key = vvPriv("not-the-custodian", w.seed)
		}
		sig := key.Sign(msg)
		return append(append([]byte{}, sig[:]...), data...)
	case "cancelOK", "cancelFF", "cancelZero":
		// pledge extra (signer, payee) followed by the view key the cancel rule uses as a scalar
		pre := fill(64)
		if w.pledgeTx != nil {
			pre = append([]byte{}, w.pledgeTx.Extra...)
		}
		tail := make([]byte, 32)
		switch c.Extra {
		case "cancelOK":
			k := vvPriv("cancel-view", w.seed, c.Id)
			copy(tail, k[:])
		case "cancelFF":
			for i := range tail {
				tail[i] = 0xff
			}
		}
		return append(pre, tail...)
	case "custOK", "custBadSig", "custUnsorted", "custShort", "cust6":
		return w.custodianExtra(c.Extra)
	}
	panic("unknown extra class " + c.Extra)
}

// a custodian update that keeps the custodian account and the genesis entries (price zero)
func (w *vvWorld) custodianExtra(kind string) []byte {
	type ent struct {
		key crypto.Key
		b   []byte
	}
	var ents []ent
	n := 7
	if kind == "cust6" {
		n = 6
	}
	for i := 0; i < n; i++ {
		b := common.EncodeCustodianNode(&w.nodeCust[i], &w.nodePayee[i], &w.nodeSigner[i].PrivateSpendKey,
			&w.nodePayee[i].PrivateSpendKey, &w.nodeCust[i].PrivateSpendKey, w.network)
		ents = append(ents, ent{w.nodeCust[i].PublicSpendKey, b})
	}
	sort.Slice(ents, func(i, j int) bool { return bytes.Compare(ents[i].key[:], ents[j].key[:]) < 0 })
	if kind == "custUnsorted" {
		ents[0], ents[1] = ents[1], ents[0]
	}
	extra := append([]byte{}, w.custodian.PublicSpendKey[:]...)
	extra = append(extra, w.custodian.PublicViewKey[:]...)
	for _, e := range ents {
		extra = append(extra, e.b...)
	}
	key := w.custodian.PrivateSpendKey
	if kind == "custBadSig" {
		key = vvPriv("not-the-custodian", w.seed)
	}
	sig := key.Sign(crypto.Blake3Hash(extra))
	extra = append(extra, sig[:]...)
	if kind == "custShort" {
		extra = extra[:len(extra)-1]
	}
	return extra
}

func (w *vvWorld) build(c *vvCase) *vvBuilt {
	b := &vvBuilt{c: c, w: w}
	tx := common.NewTransactionV5(w.assets[c.Asset])
	b.ts = w.lateTs
	if c.Ts == "gen" {
		b.ts = w.epoch + 1
	}
	for i, in := range c.Ins {
		ref := w.inputRef(c, in.Slot)
		ci := &common.Input{Hash: ref.Hash, Index: ref.Index}
		var slot *vvSlot
		if s, ok := w.slots[in.Slot]; ok {
			slot = s
		}
		if in.Gen {
			ci.Genesis = append([]byte{}, w.network[:]...)
		}
		if in.Dep != "none" {
			damt := in.Amt
			if in.Mint != "none" {
				damt = in.Oamt
			}
			dd := w.depositData(c.Asset, fmt.Sprintf("dep-%d-%d-%d", w.seed, c.Id, i), uint64(i), w.integer(damt))
			switch in.Dep {
			case "emptytx":
				dd.Transaction = ""
			case "spacetx":
				dd.Transaction = " " + dd.Transaction
			case "badkey":
				dd.AssetKey = dd.AssetKey + " "
			case "nochain":
				dd.Chain = crypto.Hash{}
			case "otherinfo":
				dd.AssetKey = "0xsomethingelse"
			case "held":
				if err := w.store.LockDepositInput(dd, vvHash("other-depositor", w.seed, c.Id), false); err != nil {
					panic(err)
				}
			}
			ci.Deposit = dd
		}
		if in.Mint != "none" {
			md := &common.MintData{Group: "UNIVERSAL", Batch: w.lastBatch + 1 + uint64(c.Id%1000), Amount: w.integer(in.Amt)}
			switch in.Mint {
			case "same":
				md.Batch = w.lastBatch
			case "back":
				md.Batch = w.lastBatch - 1
			case "badgroup":
				md.Group = "KERNELNODE"
			}
			ci.Mint = md
		}
		if in.Gen || in.Dep != "none" || in.Mint != "none" {
			slot = nil
		}
		tx.Inputs = append(tx.Inputs, ci)
		if slot == nil && len(in.Slot) > 3 && in.Slot[:3] == "x1i" {
			// sign with the keys of x1 (what a spender of an aliased record would present);
			// the output does not exist, so it contributes no keys
			b.slots = append(b.slots, w.slots["x1"])
			continue
		}
		b.slots = append(b.slots, slot)
		if slot != nil {
			for k := range slot.pubs {
				kr := &vvKeyRef{pub: slot.pubs[k]}
				if k < len(slot.privs) {
					kr.priv = &slot.privs[k]
				}
				b.allKey = append(b.allKey, kr)
			}
		}
	}
	dup := vvPriv("dupkey", w.seed, c.Id).Public()
	for i, o := range c.Outs {
		co := &common.Output{Type: vvOutTypes[o.T], Amount: w.integer(o.Amt)}
		for k := 0; k < o.Nk; k++ {
			key := vvPriv("outkey", w.seed, c.Id, i, k).Public()
			switch o.Kv {
			case "dup":
				key = dup
			case "bad":
				key = vvBadPoint
			case "used":
				key = w.usedKey
			}
			co.Keys = append(co.Keys, &key)
		}
		co.Script = append([]byte{}, vvScripts[o.Scr]...)
		switch o.Mask {
		case "ok":
			co.Mask = vvPriv("outmask", w.seed, c.Id, i).Public()
		case "bad":
			co.Mask = vvBadPoint
		}
		if o.Wd {
			co.Withdrawal = &common.WithdrawalData{Address: fmt.Sprintf("0xaddr%d", c.Id), Tag: "t"}
		}
		tx.Outputs = append(tx.Outputs, co)
	}
	for _, r := range c.Refs {
		switch r {
		case "fin":
			tx.References = append(tx.References, w.refFin)
		case "submit":
			tx.References = append(tx.References, w.refSubmit)
		case "pend":
			tx.References = append(tx.References, w.refPend)
		default:
			tx.References = append(tx.References, vvHash("no-such-tx", w.seed, c.Id))
		}
	}
	tx.Extra = w.extraBytes(c)
	b.tx = &common.SignedTransaction{Transaction: *tx}
	b.sign()
	return b
}

func vvFlip(sig crypto.Signature, at int) crypto.Signature {
	sig[at] ^= 0x04
	return sig
}

// a signature of the given kind for (input position j, key index i)
func (b *vvBuilt) signature(j, i int, kind string, msg crypto.Hash) crypto.Signature {
	w, c := b.w, b.c
	other := vvPriv("unrelated", w.seed, c.Id, j, i)
	right := other
	if j < len(b.slots) && b.slots[j] != nil && i < len(b.slots[j].privs) {
		right = b.slots[j].privs[i]
	}
	wrongMsg := vvHash("another message", c.Id)
	switch kind {
	case "G":
		return right.Sign(msg)
	case "C":
		return w.custodian.PrivateSpendKey.Sign(msg)
	case "N":
		if w.pledgeTx != nil {
			return w.pledgeKey.PrivateSpendKey.Sign(msg)
		}
		return other.Sign(msg)
	case "WK":
		return other.Sign(msg)
	case "WM":
		return right.Sign(wrongMsg)
	case "TR":
		return vvFlip(right.Sign(msg), 3+(c.Id+i)%20)
	case "TS":
		return vvFlip(right.Sign(msg), 33+(c.Id+i)%20)
	case "TO":
		return vvTorsionSign(right, msg)
	case "K1":
		return vvShiftS(right.Sign(msg), vvPriv("compensation", w.seed, c.Id), false)
	case "K2":
		return vvShiftS(right.Sign(msg), vvPriv("compensation", w.seed, c.Id), true)
	}
	var sig crypto.Signature
	h1, h2 := vvHash("garbage", w.seed, c.Id, j, i), vvHash("garbage2", w.seed, c.Id, j, i)
	copy(sig[:32], h1[:])
	copy(sig[32:], h2[:])
	return sig
}

func (b *vvBuilt) sign() {
	c := b.c
	msg := b.tx.AsVersioned().PayloadHash()
	if c.Sig.K == "agg" {
		as := &common.AggregatedSignature{Signers: append([]int{}, c.Sig.Signers...)}
		m := msg
		if c.Sig.Msg != "ok" {
			m = vvHash("another message", c.Id)
		}
		var pubs, privs []*crypto.Key
		for _, k := range b.allKey {
			pub := k.pub
			pubs = append(pubs, &pub)
		}
		ok := len(c.Sig.Built) > 0
		for _, s := range c.Sig.Built {
			if s < 0 || s >= len(b.allKey) || b.allKey[s].priv == nil {
				ok = false
				break
			}
			privs = append(privs, b.allKey[s].priv)
		}
		var sig *crypto.Signature
		if ok {
			seed := vvSeed64("aggseed", b.w.seed, c.Id)
			s, err := crypto.AggregateSign(privs, pubs, c.Sig.Built, seed, m)
			if err == nil {
				sig = s
			}
		}
		if sig == nil || c.Sig.Sk == "GB" {
			g := b.signature(0, 0, "GB", msg)
			sig = &g
		}
		if c.Sig.Sk == "TS" {
			f := vvFlip(*sig, 33+c.Id%20)
			sig = &f
		}
		as.Signature = *sig
		b.tx.AggregatedSignature = as
		return
	}
	for j, m := range c.Sig.Maps {
		sm := make(map[uint16]*crypto.Signature)
		for _, e := range m {
			sig := b.signature(j, e.I, e.S, msg)
			sm[uint16(e.I)] = &sig
		}
		b.tx.SignaturesMap = append(b.tx.SignaturesMap, sm)
	}
}

// S := S + d (or S - d) mod L: a compensated pair keeps the sum of the S halves
func vvShiftS(sig crypto.Signature, d crypto.Key, neg bool) crypto.Signature {
	s, err := edwards25519.NewScalar().SetCanonicalBytes(sig[32:])
	if err != nil {
		panic(err)
	}
	ds, err := edwards25519.NewScalar().SetCanonicalBytes(d[:])
	if err != nil {
		panic(err)
	}
	if neg {
		s.Subtract(s, ds)
	} else {
		s.Add(s, ds)
	}
	copy(sig[32:], s.Bytes())
	return sig
}

// a signature by priv whose R carries a component of order 8: it satisfies the cofactored
// verification equation only
func vvTorsionSign(priv crypto.Key, msg crypto.Hash) crypto.Signature {
	t8b := []byte{0x26, 0xe8, 0x95, 0x8f, 0xc2, 0xb2, 0x27, 0xb0, 0x45, 0xc3, 0xf4, 0x89, 0xf2, 0xef, 0x98, 0xf0,
		0xd5, 0xdf, 0xac, 0x05, 0xd3, 0xc6, 0x33, 0x39, 0xb1, 0x38, 0x02, 0x88, 0x6d, 0x53, 0xfc, 0x05}
	t8, err := edwards25519.NewIdentityPoint().SetBytes(t8b)
	if err != nil {
		panic(err)
	}
	rs := vvSeed64("torsion-nonce", priv.String(), msg.String())
	r, _ := edwards25519.NewScalar().SetUniformBytes(rs)
	R := edwards25519.NewIdentityPoint().ScalarBaseMult(r)
	R.Add(R, t8)
	pub := priv.Public()
	h := vvSha512()
	h.Write(R.Bytes())
	h.Write(pub[:])
	h.Write(msg[:])
	var digest [64]byte
	h.Sum(digest[:0])
	x, _ := edwards25519.NewScalar().SetUniformBytes(digest[:])
	a, _ := edwards25519.NewScalar().SetCanonicalBytes(priv[:])
	s := edwards25519.NewScalar().MultiplyAdd(x, a, r)
	var sig crypto.Signature
	copy(sig[:32], R.Bytes())
	copy(sig[32:], s.Bytes())
	return sig
}

// ---------------------------------------------------------------------------------------------
// observation helpers

// little-endian base 10^4 limbs (the trace specification's BigNat)
func vvLimbs(v *big.Int) []int {
	limbs := []int{}
	x := new(big.Int).Set(v)
	base := big.NewInt(10000)
	m := new(big.Int)
	for x.Sign() > 0 {
		x.DivMod(x, base, m)
		limbs = append(limbs, int(m.Int64()))
	}
	return limbs
}

func vvBig(i common.Integer) *big.Int {
	enc := common.NewEncoder()
	enc.WriteInteger(i)
	b := enc.Bytes()
	return new(big.Int).SetBytes(b[2:])
}

func (w *vvWorld) assetClass(h crypto.Hash) int {
	for i, n := range []string{"XIN", "BTC", "OTH", "NEW", "ZER"} {
		if w.assets[n] == h {
			return i + 1
		}
	}
	return 0
}

var vvTypeNames = map[uint8]string{
	common.OutputTypeScript: "script", common.OutputTypeNodePledge: "pledge", common.OutputTypeNodeAccept: "accept",
	common.OutputTypeNodeRemove: "remove", common.OutputTypeNodeCancel: "cancel", common.OutputTypeWithdrawalClaim: "claim",
	common.OutputTypeCustodianUpdateNodes: "custodian",
}

// what the real store and the real decoded transaction say about the quantities C01 speaks of
func (w *vvWorld) observe(t testing.TB, ver *common.VersionedTransaction) vM {
	ins := []vM{}
	for _, in := range ver.Inputs {
		m := vM{"ord": false, "exists": false, "asset": 0, "amt": []int{}, "typ": "-", "nk": 0, "locked": false, "phantom": false, "gen": len(in.Genesis) > 0}
		switch {
		case in.Mint != nil:
			m["amt"] = vvLimbs(vvBig(in.Mint.Amount))
		case in.Deposit != nil:
			m["amt"] = vvLimbs(vvBig(in.Deposit.Amount))
		case len(in.Genesis) > 0:
		default:
			m["ord"] = true
			u, err := w.store.ReadUTXOLock(in.Hash, in.Index)
			if err != nil {
				t.Fatalf("observe: %v", err)
			}
			// an output exists when the finalized transaction body has it; the record the store
			// returns for (hash, index) must be that output
			body, fin, err := w.store.ReadTransaction(in.Hash)
			if err != nil {
				t.Fatalf("observe: %v", err)
			}
			inBody := body != nil && fin != "" && int(in.Index) < len(body.Outputs)
			if u != nil && !inBody {
				m["phantom"] = true
			}
			if u != nil && inBody {
				m["exists"] = true
				m["asset"] = w.assetClass(u.Asset)
				m["amt"] = vvLimbs(vvBig(u.Amount))
				m["typ"] = vvTypeNames[u.Type]
				m["nk"] = len(u.Keys)
				m["locked"] = u.LockHash.HasValue()
			}
		}
		ins = append(ins, m)
	}
	outs := []vM{}
	for _, o := range ver.Outputs {
		outs = append(outs, vM{"amt": vvLimbs(vvBig(o.Amount))})
	}
	return vM{"asset": w.assetClass(ver.Asset), "ins": ins, "outs": outs}
}

func vvSha512() hash.Hash { return sha512.New() }

// ---------------------------------------------------------------------------------------------
// the runner

type vvRun struct {
	t      *testing.T
	tr     *vTrace
	file   *vvCaseFile
	worlds map[string]*vvWorld
	rng    *rand.Rand
}

func (r *vvRun) world(name string) *vvWorld {
	if name != "B" {
		name = "A"
	}
	if w, ok := r.worlds[name]; ok {
		return w
	}
	w := vvNewWorld(r.t, name, vSeed(), r.file.GBits)
	r.worlds[name] = w
	return w
}

// encode with the real encoder, decode with the real decoder; nil when the bytes do not decode
func vvCodec(signed *common.SignedTransaction) (*common.VersionedTransaction, string) {
	var raw []byte
	res, detail := vCall(func() error {
		raw = signed.AsVersioned().Marshal()
		return nil
	})
	if res != "ok" {
		return nil, "encode " + res + " " + detail
	}
	ver, err := common.UnmarshalVersionedTransaction(raw)
	if err != nil {
		return nil, "decode " + err.Error()
	}
	return ver, ""
}

func vvClip(s string) string {
	if len(s) > 120 {
		return s[:120]
	}
	return s
}

// validate the decoded object (or, when the abstract case cannot be put on the wire, the built one)
func (r *vvRun) validate(w *vvWorld, b *vvBuilt, signed *common.SignedTransaction, direct bool) (string, string, string, *common.VersionedTransaction) {
	ver, why := vvCodec(signed)
	via := "codec"
	if ver == nil {
		if !direct {
			return "undecodable", why, "none", nil
		}
		ver = signed.AsVersioned()
		via = "direct"
	}
	res, detail := vCall(func() error { return ver.Validate(w.store, b.ts, b.c.Fork) })
	return res, detail, via, ver
}

func (r *vvRun) runCase(raw json.RawMessage) {
	var c vvCase
	if err := json.Unmarshal(raw, &c); err != nil {
		r.t.Fatalf("case: %v", err)
	}
	w := r.world(c.W)
	b := w.build(&c)
	mode := r.file.Mode
	res, detail, via, ver := r.validate(w, b, b.tx, mode == "C02")
	if ver == nil {
		r.tr.Emit(vM{"ev": "Undecodable", "id": c.Id, "why": vvClip(detail)})
		return
	}
	ev := vM{"ev": "Val", "c": raw, "via": via, "res": res}
	if res != "ok" {
		ev["detail"] = vvClip(detail)
	}
	if mode == "C01" {
		ev["obs"] = w.observe(r.t, ver)
	}
	r.tr.Emit(ev)
	if mode == "C02" && r.file.Tamper && res == "ok" {
		r.tamper(w, b)
	}
}

func vvCloneSigned(s *common.SignedTransaction) *common.SignedTransaction {
	ver, err := common.UnmarshalVersionedTransaction(s.AsVersioned().Marshal())
	if err != nil {
		panic(err)
	}
	return &ver.SignedTransaction
}

// the tamper steps of an accepted transaction: every variant differs from it in payload bytes
// (signatures kept) or in signature bytes / signer indexes (payload kept)
func (r *vvRun) tamper(w *vvWorld, b *vvBuilt) {
	c := b.c
	emit := func(kind string, j int, t *common.SignedTransaction) {
		res, _, _, _ := r.validate(w, b, t, true)
		r.tr.Emit(vM{"ev": "Tamper", "id": c.Id, "kind": kind, "j": j, "res": res})
	}
	freshKeys := func(t *common.SignedTransaction, tag string) {
		// fresh one-time keys, so that the one-time-key rule cannot mask the authorization verdict
		for i, o := range t.Outputs {
			for k := range o.Keys {
				key := vvPriv("tamperkey", tag, w.seed, c.Id, i, k).Public()
				o.Keys[k] = &key
			}
		}
	}
	// payload: one extra byte (position by seed)
	if len(b.tx.Extra) > 0 {
		t := vvCloneSigned(b.tx)
		t.Extra[r.rng.Intn(len(t.Extra))] ^= byte(1 << uint(r.rng.Intn(8)))
		freshKeys(t, "extra")
		emit("extra", 0, t)
	}
	// payload: the one-time keys only
	{
		t := vvCloneSigned(b.tx)
		freshKeys(t, "outkey")
		emit("outkey", 0, t)
	}
	if as := b.tx.AggregatedSignature; as != nil {
		for _, kind := range []string{"aggR", "aggS"} {
			t := vvCloneSigned(b.tx)
			at := r.rng.Intn(32)
			if kind == "aggS" {
				at += 32
			}
			t.AggregatedSignature.Signature[at] ^= byte(1 << uint(r.rng.Intn(8)))
			emit(kind, 0, t)
		}
		if n := len(as.Signers); n > 0 {
			t := vvCloneSigned(b.tx)
			t.AggregatedSignature.Signers = append([]int{}, as.Signers[:n-1]...)
			emit("aggdrop", 0, t)
			t = vvCloneSigned(b.tx)
			t.AggregatedSignature.Signers = append(append([]int{}, as.Signers...), as.Signers[n-1]+1)
			emit("aggadd", 0, t)
		}
		return
	}
	for j, sm := range b.tx.SignaturesMap {
		if len(sm) == 0 || j >= len(b.slots) || b.slots[j] == nil {
			continue
		}
		var idx []int
		for i := range sm {
			idx = append(idx, int(i))
		}
		sort.Ints(idx)
		pick := uint16(idx[r.rng.Intn(len(idx))])
		for _, kind := range []string{"sigR", "sigS"} {
			t := vvCloneSigned(b.tx)
			at := r.rng.Intn(32)
			if kind == "sigS" {
				at += 32
			}
			t.SignaturesMap[j][pick][at] ^= byte(1 << uint(r.rng.Intn(8)))
			emit(kind, j+1, t)
		}
		// the same signature presented for another key of the same output
		for free := 0; free < len(b.slots[j].pubs); free++ {
			if _, taken := sm[uint16(free)]; !taken {
				t := vvCloneSigned(b.tx)
				t.SignaturesMap[j][uint16(free)] = t.SignaturesMap[j][pick]
				delete(t.SignaturesMap[j], pick)
				emit("reindex", j+1, t)
				break
			}
		}
	}
}

// crypto.BatchVerify against per-signature Verify on the same real vectors
func (r *vvRun) runBatch(n int, v vvBatchVec) {
	msg := vvHash("batch message", vSeed(), n)
	var keys []*crypto.Key
	var sigs []*crypto.Signature
	singles := []bool{}
	for i, kind := range v.Kinds {
		priv := vvPriv("batchkey", vSeed(), n, i)
		pub := priv.Public()
		var sig crypto.Signature
		switch kind {
		case "G":
			sig = priv.Sign(msg)
		case "WK":
			other := vvPriv("batchother", vSeed(), n, i)
			sig = other.Sign(msg)
		case "WM":
			sig = priv.Sign(vvHash("another batch message", n))
		case "TR":
			sig = vvFlip(priv.Sign(msg), (n+i)%32)
		case "TS":
			sig = vvFlip(priv.Sign(msg), 32+(n+i)%32)
		case "TO":
			sig = vvTorsionSign(priv, msg)
		case "K1":
			sig = vvShiftS(priv.Sign(msg), vvPriv("batch-compensation", vSeed(), n), false)
		case "K2":
			sig = vvShiftS(priv.Sign(msg), vvPriv("batch-compensation", vSeed(), n), true)
		case "ZS": // S = 0, R = 0 bytes
		default:
			h1, h2 := vvHash("bg", n, i), vvHash("bg2", n, i)
			copy(sig[:32], h1[:])
			copy(sig[32:], h2[:])
		}
		keys = append(keys, &pub)
		s := sig
		sigs = append(sigs, &s)
		singles = append(singles, pub.Verify(msg, sig))
	}
	var batch bool
	res, detail := vCall(func() error { batch = crypto.BatchVerify(msg, keys, sigs); return nil })
	ev := vM{"ev": "Batch", "kinds": v.Kinds, "batch": batch, "singles": singles, "res": res}
	if res == "panic" {
		ev["detail"] = vvClip(detail)
	}
	r.tr.Emit(ev)
}

func TestVerifValidate(t *testing.T) {
	tr := vOpenTrace(t)
	defer tr.Close()
	var file vvCaseFile
	vLoadCases(t, &file)
	r := &vvRun{t: t, tr: tr, file: &file, worlds: map[string]*vvWorld{}, rng: rand.New(rand.NewSource(vSeed()*7907 + 3))}
	defer func() {
		for _, w := range r.worlds {
			w.store.Close()
		}
	}()
	for _, raw := range file.Cases {
		r.runCase(raw)
	}
	for n, v := range file.Batches {
		r.runBatch(n, v)
	}
	if file.Raw > 0 && len(file.Cases) > 0 {
		r.runRaw(file.Raw)
	}
	for _, h := range file.RawHex {
		var m []byte
		if _, err := fmt.Sscanf(h, "%x", &m); err != nil {
			t.Fatalf("rawhex: %v", err)
		}
		ver, err := common.UnmarshalVersionedTransaction(m)
		if err != nil {
			r.tr.Emit(vM{"ev": "Undecodable", "id": 0, "why": vvClip(err.Error())})
			continue
		}
		w := r.world("B")
		for _, ts := range []uint64{w.lateTs, w.epoch + 1} {
			for _, fork := range []bool{false, true} {
				res, detail := vCall(func() error { return ver.Validate(w.store, ts, fork) })
				r.tr.Emit(vM{"ev": "Raw", "res": res, "detail": vvClip(detail), "hex": h})
			}
		}
	}
}

// seeded byte-level mutants of valid encodings: those that still decode are validated under recover
func (r *vvRun) runRaw(n int) {
	w := r.world("B")
	var pool [][]byte
	step := len(r.file.Cases)/400 + 1
	for i := 0; i < len(r.file.Cases); i += step {
		var c vvCase
		if json.Unmarshal(r.file.Cases[i], &c) != nil || c.W != "B" {
			continue
		}
		b := w.build(&c)
		var raw []byte
		if res, _ := vCall(func() error { raw = b.tx.AsVersioned().Marshal(); return nil }); res == "ok" && len(raw) < 8192 {
			pool = append(pool, raw)
		}
	}
	if len(pool) == 0 {
		return
	}
	tried, decoded := 0, 0
	for decoded < n && tried < n*40 {
		tried++
		src := pool[r.rng.Intn(len(pool))]
		m := append([]byte{}, src...)
		switch r.rng.Intn(6) {
		case 0, 1, 2: // flip 1..3 bytes
			for k := 0; k <= r.rng.Intn(3); k++ {
				m[4+r.rng.Intn(len(m)-4)] ^= byte(1 << uint(r.rng.Intn(8)))
			}
		case 3: // overwrite a byte with an interesting value
			m[4+r.rng.Intn(len(m)-4)] = []byte{0, 1, 0xff, 0x77, 0xa6, 0xfe, 0x40}[r.rng.Intn(7)]
		case 4: // splice the tail of another encoding
			o := pool[r.rng.Intn(len(pool))]
			at := 4 + r.rng.Intn(len(m)-4)
			if at < len(o) {
				m = append(m[:at], o[at:]...)
			}
		case 5: // drop the signature section and append a short one
			if len(m) > 70 {
				m = append(m[:len(m)-r.rng.Intn(70)], 0, 0)
			}
		}
		ver, err := common.UnmarshalVersionedTransaction(m)
		if err != nil || ver == nil {
			continue
		}
		decoded++
		ts := w.lateTs
		if r.rng.Intn(4) == 0 {
			ts = w.epoch + 1
		}
		fork := r.rng.Intn(5) == 0
		res, detail := vCall(func() error { return ver.Validate(w.store, ts, fork) })
		ev := vM{"ev": "Raw", "res": res}
		if res == "panic" {
			ev["detail"] = vvClip(detail)
			ev["hex"] = fmt.Sprintf("%x", m)
		}
		r.tr.Emit(ev)
	}
}
