package storage

// Harness of spec/Rounds/RoundHash.tla (property C18): calls common.ComputeRoundHash and the
// duplicate storage.computeRoundHash on snapshot slices in prescribed orders and records start,
// end and the equality class of the resulting hash. Verdicts come from TLC (Trace_RoundHash.tla).
//
// Abstract snapshot [h, ts]: h = rank of the real 32-byte hash within the group (the harness
// searches real snapshots whose payload hashes are ordered like the ranks), ts = 4u+e abstract
// time (real = vhBase + u*0.5s + e ns).

import (
	"bytes"
	"fmt"
	"math/rand"
	"testing"

	"github.com/MixinNetwork/mixin/common"
	"github.com/MixinNetwork/mixin/crypto"
)

const (
	vhDay  = uint64(24 * 3600 * 1000000000)
	vhHalf = int64(500000000)
	vhBase = 19676 * vhDay
	vhT0   = int64(2*691200 - 12)
)

func vhReal(t int64) uint64 {
	u := (t + 1) / 4
	e := t - 4*u
	if t < 0 || e < -1 || e > 1 {
		panic(fmt.Sprintf("abstract time %d not of the form 4u+e", t))
	}
	return uint64(int64(vhBase) + u*vhHalf + e)
}

func vhAbs(real uint64) int64 {
	d := int64(real) - int64(vhBase)
	u := (d + vhHalf/2) / vhHalf
	e := d - u*vhHalf
	if d < -1 || e < -1 || e > 1 {
		return -1
	}
	return 4*u + e
}

type vhSnap struct {
	H  int   `json:"h"`
	Ts int64 `json:"ts"`
}

type vhCase struct {
	Node int      `json:"node"`
	N    uint64   `json:"n"`
	Q    []vhSnap `json:"q"`
}

type vhCases struct {
	Groups [][]vhCase `json:"groups"`
	Random int        `json:"random"`
	MaxSet int        `json:"maxset"`
	Perms  int        `json:"perms"`
}

type vhGroup struct {
	salt    string
	ranks   int
	snaps   map[vhSnap]*common.Snapshot
	classes map[crypto.Hash]int
}

func vhHashOf(parts ...any) crypto.Hash {
	return crypto.Blake3Hash([]byte(fmt.Sprint(parts...)))
}

func (g *vhGroup) node(i int) crypto.Hash { return vhHashOf("vh-node", g.salt, i) }

// a real snapshot for the abstract [h, ts] whose payload hash falls into bucket h of `ranks`
// equal buckets of the 16-bit hash prefix: hashes are then ordered like the ranks.
func (g *vhGroup) snapshot(a vhSnap) *common.Snapshot {
	if s := g.snaps[a]; s != nil {
		return s
	}
	if a.H < 1 || a.H > g.ranks {
		panic("rank out of range")
	}
	for nonce := 0; ; nonce++ {
		s := &common.Snapshot{
			Version:      common.SnapshotVersionCommonEncoding,
			NodeId:       g.node(1),
			RoundNumber:  1,
			References:   &common.RoundLink{Self: vhHashOf("vh-self", g.salt), External: vhHashOf("vh-ext", g.salt)},
			Timestamp:    vhReal(a.Ts),
			Transactions: []crypto.Hash{vhHashOf("vh-tx", g.salt, a.H, a.Ts, nonce)},
		}
		s.Hash = s.PayloadHash()
		prefix := int(s.Hash[0])<<8 | int(s.Hash[1])
		if prefix*g.ranks/65536 == a.H-1 {
			g.snaps[a] = s
			return s
		}
	}
}

func (g *vhGroup) class(h crypto.Hash) int {
	c, ok := g.classes[h]
	if !ok {
		c = len(g.classes) + 1
		g.classes[h] = c
	}
	return c
}

func (g *vhGroup) run(tr *vTrace, c vhCase) {
	snaps := make([]*common.Snapshot, len(c.Q))
	for i, a := range c.Q {
		snaps[i] = g.snapshot(a)
	}
	// sanity of the concretization (infrastructure, not a verdict): real byte order = rank order
	for i := range snaps {
		for j := range snaps {
			if c.Q[i].H < c.Q[j].H && bytes.Compare(snaps[i].Hash[:], snaps[j].Hash[:]) >= 0 {
				panic("rank concretization broken")
			}
		}
	}
	for _, impl := range []string{"common", "storage"} {
		var start, end uint64
		var hash crypto.Hash
		res, _ := vCall(func() error {
			if impl == "common" {
				in := append([]*common.Snapshot{}, snaps...)
				start, end, hash = common.ComputeRoundHash(g.node(c.Node), c.N, in)
			} else {
				in := make([]*common.SnapshotWithTopologicalOrder, len(snaps))
				for i, s := range snaps {
					in[i] = &common.SnapshotWithTopologicalOrder{Snapshot: s, TopologicalOrder: uint64(1000 + i)}
				}
				start, end, hash = computeRoundHash(g.node(c.Node), c.N, in)
			}
			return nil
		})
		ev := vM{"ev": "Hash", "impl": impl, "node": c.Node, "n": c.N, "q": c.Q, "res": res,
			"start": int64(0), "end": int64(0), "hc": 0}
		if res == "ok" {
			ev["start"], ev["end"], ev["hc"] = vhAbs(start), vhAbs(end), g.class(hash)
		}
		tr.Emit(ev)
	}
}

func vhNewGroup(salt string, ranks int) *vhGroup {
	return &vhGroup{salt: salt, ranks: ranks, snaps: map[vhSnap]*common.Snapshot{}, classes: map[crypto.Hash]int{}}
}

func vhPerm(rng *rand.Rand, q []vhSnap, kind int) []vhSnap {
	out := append([]vhSnap{}, q...)
	switch kind {
	case 0: // as generated
	case 1: // reversed
		for i, j := 0, len(out)-1; i < j; i, j = i+1, j-1 {
			out[i], out[j] = out[j], out[i]
		}
	default:
		rng.Shuffle(len(out), func(i, j int) { out[i], out[j] = out[j], out[i] })
	}
	return out
}

// one random group: a base set of k snapshots (timestamps equal or within 1 ns), the variants
// "one member dropped", "one member replaced", "other node", "other number", each in several orders.
func vhRandomGroup(rng *rand.Rand, maxSet, perms int) (int, []vhCase) {
	k := 1 + rng.Intn(maxSet)
	if rng.Intn(4) == 0 {
		k = 1 + rng.Intn(4)
	}
	ranks := k + 2
	order := rng.Perm(ranks)
	mode := rng.Intn(3)
	pool := make([]vhSnap, ranks)
	for i := range pool {
		ts := vhT0
		switch mode {
		case 1:
			ts += int64(rng.Intn(3) - 1)
		case 2:
			if rng.Intn(4) == 0 {
				ts += int64(4 * (rng.Intn(5) - 2))
			}
		}
		pool[i] = vhSnap{H: order[i] + 1, Ts: ts}
	}
	base := pool[:k]
	sets := [][]vhSnap{base}
	if k > 1 {
		sets = append(sets, base[:k-1])
	}
	repl := append(append([]vhSnap{}, base[:k-1]...), pool[k])
	sets = append(sets, repl)
	repl2 := append(append([]vhSnap{}, base[1:]...), pool[k+1])
	sets = append(sets, repl2)
	var cases []vhCase
	for si, set := range sets {
		args := [][2]int{{1, 5}}
		if si == 0 {
			args = [][2]int{{1, 5}, {2, 5}, {1, 6}, {1, 0}}
		}
		for _, a := range args {
			for p := 0; p < perms; p++ {
				cases = append(cases, vhCase{Node: a[0], N: uint64(a[1]), Q: vhPerm(rng, set, p)})
			}
		}
	}
	return ranks, cases
}

func TestVerifRoundHash(t *testing.T) {
	tr := vOpenTrace(t)
	defer tr.Close()
	var cases vhCases
	vLoadCases(t, &cases)
	for gi, group := range cases.Groups {
		ranks := 1
		for _, c := range group {
			for _, a := range c.Q {
				if a.H > ranks {
					ranks = a.H
				}
			}
		}
		g := vhNewGroup(fmt.Sprintf("%d-g%d", vSeed(), gi), ranks)
		tr.Emit(vM{"ev": "Reset"})
		for _, c := range group {
			g.run(tr, c)
		}
	}
	rng := rand.New(rand.NewSource(vSeed()))
	for i := 0; i < cases.Random; i++ {
		ranks, group := vhRandomGroup(rng, cases.MaxSet, cases.Perms)
		g := vhNewGroup(fmt.Sprintf("%d-r%d", vSeed(), i), ranks)
		tr.Emit(vM{"ev": "Reset"})
		for _, c := range group {
			g.run(tr, c)
		}
	}
}
