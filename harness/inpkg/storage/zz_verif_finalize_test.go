package storage

// Replayer for spec/Finalize (property C15): WriteSnapshot batches on a real BadgerStore with a
// full key-value dump of the snapshots database before and after each call. The dump difference is
// reduced to key classes and abstract ids and recorded; TLC compares it with the specification's
// effect set. Templates must stay in step with spec/Finalize/FinalizeTable.tla.

import (
	"bytes"
	"encoding/binary"
	"encoding/json"
	"fmt"
	"sort"
	"testing"

	"github.com/MixinNetwork/mixin/common"
	"github.com/MixinNetwork/mixin/crypto"
	"github.com/dgraph-io/badger/v4"
)

type vfTemplate struct {
	name   string
	kind   string
	asset  string
	amt    uint64
	nouts  int
	keys   []string
	signer string
	nobody bool
}

var vfTemplates = []vfTemplate{
	{"A1", "transfer", "A", 0, 1, []string{"k1"}, "", false},
	{"A2", "transfer", "A", 0, 1, []string{"k1"}, "", false},
	{"A3", "transfer", "A", 0, 2, []string{"k2", "k3"}, "", false},
	{"DP", "deposit", "A", 5, 1, []string{"k4"}, "", false},
	{"DQ", "deposit", "B", 7, 1, []string{"k5"}, "", false},
	{"WS", "submit", "A", 3, 2, []string{"k6"}, "", false},
	{"PL", "pledge", "A", 0, 1, nil, "S1", false},
	{"PM", "pledge", "A", 0, 1, nil, "S2", false},
	{"AC", "accept", "A", 0, 1, nil, "S1", false},
	{"MB", "transfer", "A", 0, 1, []string{"k7"}, "", true},
}

type vfWorld struct {
	t       testing.TB
	store   *BadgerStore
	salt    string
	assets  map[string]crypto.Hash
	txs     map[string]*common.VersionedTransaction
	names   map[crypto.Hash]string
	keys    map[crypto.Key]string
	signers map[crypto.Key]string
	nodes   map[string]crypto.Hash
	nnames  map[crypto.Hash]string
	snaps   map[crypto.Hash]string
	refs    map[string]*common.RoundLink
	ts      uint64
	first   map[crypto.Hash]uint64 // timestamp of the first stored snapshot holding the transaction
	early   bool                   // a snapshot that only re-packs finalized ordinary transactions gets an EARLIER timestamp
	nearly  uint64
}

func vfDump(store *BadgerStore) map[string]string {
	out := map[string]string{}
	store.snapshotsDB.View(func(txn *badger.Txn) error {
		it := txn.NewIterator(badger.DefaultIteratorOptions)
		defer it.Close()
		for it.Rewind(); it.Valid(); it.Next() {
			item := it.Item()
			v, _ := item.ValueCopy(nil)
			out[string(item.KeyCopy(nil))] = string(v)
		}
		return nil
	})
	return out
}

// map a raw key to [class, id...]
func (w *vfWorld) classify(key string) []string {
	b := []byte(key)
	has := func(p string) bool { return bytes.HasPrefix(b, []byte(p)) }
	hashAt := func(off int) crypto.Hash {
		var h crypto.Hash
		if len(b) >= off+32 {
			copy(h[:], b[off:off+32])
		}
		return h
	}
	name := func(h crypto.Hash) string {
		if n, ok := w.names[h]; ok {
			return n
		}
		return "?" + h.String()[:8]
	}
	switch {
	case has(graphPrefixFinalization):
		return []string{"FIN", name(hashAt(len(graphPrefixFinalization)))}
	case has(graphPrefixUTXO):
		off := len(graphPrefixUTXO)
		idx, _ := binary.Varint(b[off+32:])
		return []string{"UTXO", name(hashAt(off)), fmt.Sprint(idx + 1)}
	case has(graphPrefixGhost):
		var k crypto.Key
		copy(k[:], b[len(graphPrefixGhost):])
		if n, ok := w.keys[k]; ok {
			return []string{"GHOST", n}
		}
		return []string{"GHOST", "?"}
	case has(graphPrefixAssetInfo), has(graphPrefixAssetTotal):
		cls, p := "ASSETINFO", graphPrefixAssetInfo
		if has(graphPrefixAssetTotal) {
			cls, p = "ASSETTOTAL", graphPrefixAssetTotal
		}
		h := hashAt(len(p))
		for n, a := range w.assets {
			if a == h {
				return []string{cls, n}
			}
		}
		return []string{cls, "?"}
	case has(graphPrefixUnique):
		off := len(graphPrefixUnique)
		node := w.nnames[hashAt(off+32)]
		return []string{"UNIQUE", node, name(hashAt(off))}
	case has(graphPrefixSnapTopology):
		return []string{"SNAPTOPO", w.snaps[hashAt(len(graphPrefixSnapTopology))]}
	case has(graphPrefixSnapshot):
		off := len(graphPrefixSnapshot) + 32 + 8
		return []string{"SNAPSHOT", w.snaps[hashAt(off)]}
	case has(graphPrefixTopology):
		return []string{"TOPOLOGY", fmt.Sprint(binary.BigEndian.Uint64(b[len(graphPrefixTopology):]))}
	case has(graphPrefixWorkSnapshot):
		return []string{"WORK", "@"}
	case has(graphPrefixNodeStateQueue):
		var k crypto.Key
		copy(k[:], b[len(graphPrefixNodeStateQueue)+8:])
		return []string{"NODE", w.signers[k]}
	}
	for i, c := range b {
		if c < 'A' || c > 'Z' {
			return []string{"OTHER", string(b[:i])}
		}
	}
	return []string{"OTHER", key}
}

func vfNewWorld(t testing.TB, store *BadgerStore, salt string) *vfWorld {
	w := &vfWorld{t: t, store: store, salt: salt, assets: map[string]crypto.Hash{}, txs: map[string]*common.VersionedTransaction{},
		names: map[crypto.Hash]string{}, keys: map[crypto.Key]string{}, signers: map[crypto.Key]string{},
		nodes: map[string]crypto.Hash{}, nnames: map[crypto.Hash]string{}, snaps: map[crypto.Hash]string{}}
	w.ts = 1700000000000000000
	w.assets["A"], w.assets["B"] = vlHash("fa", salt), vlHash("fb", salt)
	must := func(err error) {
		if err != nil {
			t.Fatalf("finalize world: %v", err)
		}
	}
	for _, n := range []string{"n1", "n2", "setup"} {
		id := vlHash("fnode", salt, n)
		w.nodes[n], w.nnames[id] = id, n
		must(store.StartNewRound(id, 0, nil, 0))
	}
	// round 1 for every fabricated node (round 0 snapshots may hold a single transaction only)
	w.refs = map[string]*common.RoundLink{}
	for i, n := range []string{"n1", "n2", "setup"} {
		ext := []string{"n2", "setup", "n1"}[i]
		link := &common.RoundLink{Self: vlHash("ffinal", salt, n), External: w.nodes[ext]}
		must(store.StartNewRound(w.nodes[n], 1, link, 0))
		w.refs[n] = link
	}
	// setup deposit: asset record of A and six input slots
	g := common.NewTransactionV5(w.assets["A"])
	gd := &common.DepositData{Chain: common.EthereumAssetId, AssetKey: "0xfA" + salt, Transaction: "fsetup" + salt, Index: 0, Amount: common.NewInteger(60)}
	g.AddDepositInput(gd)
	for i := 0; i < 6; i++ {
		k := vlKey("fsetupkey", salt, i)
		g.Outputs = append(g.Outputs, &common.Output{Type: common.OutputTypeScript, Amount: common.NewInteger(10),
			Keys: []*crypto.Key{&k}, Mask: vlKey("fmask", salt), Script: common.NewThresholdScript(1)})
	}
	gv := g.AsVersioned()
	must(store.LockDepositInput(gd, gv.PayloadHash(), false))
	must(store.WriteTransaction(gv))
	must(w.write("setup", []*common.VersionedTransaction{gv}, "setup-g"))
	// one accepted node so that the membership history is not empty (genesis-typed accept)
	gs := vlKey("fsigner", salt, "G1")
	gp := vlKey("fpayee", salt, "G1")
	ga := common.NewTransactionV5(w.assets["A"])
	ga.Inputs = []*common.Input{{Genesis: []byte("genesis" + salt)}}
	ga.Outputs = []*common.Output{{Type: common.OutputTypeNodeAccept, Amount: common.NewInteger(1)}}
	ga.Extra = append(gs[:], gp[:]...)
	gav := ga.AsVersioned()
	must(store.WriteTransaction(gav))
	must(w.write("setup", []*common.VersionedTransaction{gav}, "setup-a"))
	w.signers[gs] = "G1"

	slot := 0
	for k, tp := range vfTemplates {
		mySlot := slot
		if tp.kind != "deposit" && tp.kind != "accept" {
			slot++
		}
		// the store applies a batch in payload-hash order: grind every template's hash into its
		// position in the template order (spec/Finalize/FinalizeTable.tla OrdU)
		for nonce := 0; ; nonce++ {
			tx := common.NewTransactionV5(w.assets[tp.asset])
			switch tp.kind {
			case "deposit":
				tx.AddDepositInput(&common.DepositData{Chain: common.EthereumAssetId, AssetKey: "0xf" + tp.asset + salt,
					Transaction: fmt.Sprintf("fdep%s%s-%d", tp.name, salt, nonce), Index: 0, Amount: common.NewInteger(tp.amt)})
			case "accept":
				tx.AddInput(w.txs["PL"].PayloadHash(), 0)
			default:
				tx.AddInput(gv.PayloadHash(), uint(mySlot))
			}
			var signer, payee crypto.Key
			if tp.signer != "" {
				signer, payee = vlKey("fsigner", salt, tp.signer), vlKey("fpayee", salt, tp.signer)
				w.signers[signer] = tp.signer
				tx.Extra = append(signer[:], payee[:]...)
				tx.References = []crypto.Hash{vlHash("fnonce", salt, tp.name, nonce)}
			} else {
				tx.Extra = []byte(fmt.Sprintf("%s%s-%d", tp.name, salt, nonce))
			}
			ki := 0
			for i := 0; i < tp.nouts; i++ {
				switch {
				case tp.kind == "submit" && i == 0:
					tx.Outputs = append(tx.Outputs, &common.Output{Type: common.OutputTypeWithdrawalSubmit, Amount: common.NewInteger(tp.amt),
						Withdrawal: &common.WithdrawalData{Address: "faddr" + salt}})
				case tp.kind == "pledge":
					tx.Outputs = append(tx.Outputs, &common.Output{Type: common.OutputTypeNodePledge, Amount: common.NewInteger(1)})
				case tp.kind == "accept":
					tx.Outputs = append(tx.Outputs, &common.Output{Type: common.OutputTypeNodeAccept, Amount: common.NewInteger(1)})
				default:
					key := vlKey("fghost", salt, tp.keys[ki])
					w.keys[key] = tp.keys[ki]
					ki++
					amt := uint64(1)
					if tp.kind == "deposit" {
						amt = tp.amt
					}
					tx.Outputs = append(tx.Outputs, &common.Output{Type: common.OutputTypeScript, Amount: common.NewInteger(amt),
						Keys: []*crypto.Key{&key}, Mask: vlKey("fmask", salt), Script: common.NewThresholdScript(1)})
				}
			}
			ver := tx.AsVersioned()
			if h := ver.PayloadHash(); int(h[0])/16 != k {
				continue
			}
			w.txs[tp.name] = ver
			w.names[ver.PayloadHash()] = tp.name
			break
		}
	}
	// bodies are stored through the ordinary admission path (locks first), except for MB
	for _, tp := range vfTemplates {
		if tp.nobody {
			continue
		}
		ver := w.txs[tp.name]
		if tp.kind == "accept" {
			continue // its input (the pledge output) does not exist yet: stored right before first use
		}
		must(ver.LockInputs(store, false))
		must(store.WriteTransaction(ver))
	}
	w.names[gv.PayloadHash()], w.names[gav.PayloadHash()] = "SETUPG", "SETUPA"
	return w
}

func (w *vfWorld) write(node string, txs []*common.VersionedTransaction, id string) error {
	w.ts += 86400_000_000_000
	ts := w.ts
	if w.first == nil {
		w.first = map[crypto.Hash]uint64{}
	}
	if w.early {
		// graph timestamps of different chains are not ordered by storing order: when the snapshot holds a
		// transaction another chain's snapshot finalized earlier, and brings no membership operation of its
		// own, it is stamped BEFORE that snapshot
		var prior uint64
		plain := true
		for _, tx := range txs {
			if f, ok := w.first[tx.PayloadHash()]; ok {
				if prior == 0 || f < prior {
					prior = f
				}
			} else if k := tx.TransactionType(); k != common.TransactionTypeScript && k != common.TransactionTypeDeposit && k != common.TransactionTypeWithdrawalSubmit {
				plain = false
			}
		}
		if prior > 0 && plain {
			w.nearly++
			ts = prior - w.nearly*1_000_000_000
		}
	}
	snap := &common.Snapshot{Version: common.SnapshotVersionCommonEncoding, NodeId: w.nodes[node], RoundNumber: 1, References: w.refs[node], Timestamp: ts}
	for _, tx := range txs {
		snap.Transactions = append(snap.Transactions, tx.PayloadHash())
	}
	snap.Hash = snap.PayloadHash()
	w.snaps[snap.Hash] = id
	topo := &common.SnapshotWithTopologicalOrder{Snapshot: snap, TopologicalOrder: vlTopo.Add(1)}
	err := w.store.WriteSnapshot(topo, []crypto.Hash{w.nodes[node]})
	if err == nil {
		for _, tx := range txs {
			if _, ok := w.first[tx.PayloadHash()]; !ok {
				w.first[tx.PayloadHash()] = ts
			}
		}
	}
	return err
}

type vfWalk struct {
	Steps []struct {
		Node string   `json:"node"`
		Txs  []string `json:"txs"`
	} `json:"steps"`
}

func TestVerifFinalizeReplay(t *testing.T) {
	tr := vOpenTrace(t)
	defer tr.Close()
	var cases struct {
		Walks []vfWalk `json:"walks"`
	}
	vLoadCases(t, &cases)
	shard, shards := vEnvInt("VERIF_SHARD", 0), vEnvInt("VERIF_SHARDS", 1)
	for wi, wk := range cases.Walks {
		if wi%shards != shard {
			continue
		}
		// the membership history is global to a store: every walk gets its own store
		store, err := NewBadgerStore(nil, t.TempDir())
		if err != nil {
			t.Fatal(err)
		}
		w := vfNewWorld(t, store, fmt.Sprintf("s%d-f%d", vSeed(), wi))
		w.early = wi%2 == 1
		tr.Emit(vM{"ev": "Reset", "walk": wi})
		nsnap := 0
		for _, st := range wk.Steps {
			nsnap++
			var txs []*common.VersionedTransaction
			for _, n := range st.Txs {
				ver := w.txs[n]
				if n == "AC" {
					// admission of the accept needs the pledge output to exist; store its body only then
					if u, _ := store.ReadUTXOLock(ver.Inputs[0].Hash, 0); u != nil {
						if b, _, _ := store.ReadTransaction(ver.PayloadHash()); b == nil {
							if ver.LockInputs(store, false) == nil {
								store.WriteTransaction(ver)
							}
						}
					}
				}
				txs = append(txs, ver)
			}
			before := vfDump(store)
			id := fmt.Sprint(nsnap)
			res, detail := vCall(func() error { return w.write(st.Node, txs, id) })
			after := vfDump(store)
			delta := [][]string{}
			seen := map[string]bool{}
			for k, v := range after {
				old, ok := before[k]
				if ok && old == v {
					continue
				}
				c := w.classify(k)
				if c[0] == "TOPOLOGY" {
					c[1] = "new"
				}
				if ok {
					c = append(c, "mod")
				}
				j, _ := json.Marshal(c)
				if !seen[string(j)] {
					seen[string(j)] = true
					delta = append(delta, c)
				}
			}
			for k := range before {
				if _, ok := after[k]; !ok {
					delta = append(delta, append(w.classify(k), "del"))
				}
			}
			sort.Slice(delta, func(i, j int) bool { return fmt.Sprint(delta[i]) < fmt.Sprint(delta[j]) })
			bodyMissing := false
			for _, n := range st.Txs {
				if b, _, _ := store.ReadTransaction(w.txs[n].PayloadHash()); b == nil {
					bodyMissing = true
				}
			}
			m := vM{"ev": "Write", "node": st.Node, "txs": st.Txs, "id": id, "res": res, "delta": delta, "nobody": bodyMissing}
			if res != "ok" {
				m["detail"] = detail
			}
			tr.Emit(m)
		}
		store.Close()
	}
}
