package crypto

// Harness for property C12 (spec/Cosi/Nonce.tla, NonceAtomic.tla, Trace_Nonce.tla).
//
// It only drives the real CosiNonce and records call / return events; the verdict is TLC's
// (linearization search against the atomic nonce machine). Two drivers:
//   - replay of the TLC-generated sequential behaviours of the atomic machine (every edge),
//   - seeded concurrent histories: 2..8 goroutines, handle copies, identical / different /
//     uncomputable aggregate challenges built from random commitment sets and key vectors.
// At the end of every execution the harness evaluates, with the real scalars, the key-extraction
// condition on the responses that were actually returned and logs it as an observation.

import (
	"errors"
	"fmt"
	"math/rand"
	"runtime"
	"sort"
	"sync"
	"sync/atomic"
	"testing"

	"filippo.io/edwards25519"
)

type vnOp struct {
	H string `json:"h"`
	C string `json:"c"`
}

type vnCases struct {
	Walks     [][]vnOp `json:"walks"`
	Histories int      `json:"histories"`
}

type vnRandReader struct{ r *rand.Rand }

func (v vnRandReader) Read(b []byte) (int, error) {
	for i := range b {
		b[i] = byte(v.r.Intn(256))
	}
	return len(b), nil
}

func vnKey(r *rand.Rand) Key {
	seed := make([]byte, 64)
	vnRandReader{r}.Read(seed)
	return NewKeyFromSeed(seed)
}

// one request context: the arguments of CosiNonce.Response except the private key
type vnCtx struct {
	sig     *CosiSignature
	publics []*Key
	message Hash
	signer  int
	class   string // equality class of the aggregate challenge ("bad": cannot be computed)
	kind    int    // how the request was derived (varyKind; -1: the base request)
	chal    *edwards25519.Scalar
}

type vnNonce struct {
	id      int
	private Key
	base    *CosiNonce
	ctxs    []*vnCtx
	tpls    []*vnTemplate
}

type vnWorld struct {
	r       *rand.Rand
	classes map[[32]byte]string
	nonces  []*vnNonce
}

func (w *vnWorld) classify(c *vnCtx) {
	ch, err := c.sig.Challenge(c.publics, c.message)
	if err != nil {
		c.class = "bad"
		return
	}
	var b [32]byte
	copy(b[:], ch.Bytes())
	if _, ok := w.classes[b]; !ok {
		w.classes[b] = fmt.Sprintf("c%d", len(w.classes)+1)
	}
	c.class, c.chal = w.classes[b], ch
}

// a context template that can be rebuilt into fresh objects (identical challenge, different memory)
type vnTemplate struct {
	n       int
	signer  int
	pubs    []Key
	commits map[int]Key
	message Hash
	kind    int
}

func (t *vnTemplate) build() *vnCtx {
	pubs := make([]*Key, len(t.pubs))
	for i := range t.pubs {
		k := t.pubs[i]
		pubs[i] = &k
	}
	cm := map[int]*Key{}
	for i, k := range t.commits {
		kk := k
		cm[i] = &kk
	}
	sig, err := CosiAggregateCommitment(cm)
	if err != nil {
		panic(err)
	}
	return &vnCtx{sig: sig, publics: pubs, message: t.message, signer: t.signer, kind: t.kind}
}

func (t *vnTemplate) clone() *vnTemplate {
	c := &vnTemplate{n: t.n, signer: t.signer, message: t.message, commits: map[int]Key{}, kind: t.kind}
	c.pubs = append(c.pubs, t.pubs...)
	for i, k := range t.commits {
		c.commits[i] = k
	}
	return c
}

func (w *vnWorld) template(nc *vnNonce, rich bool) *vnTemplate {
	r := w.r
	n := 1 + r.Intn(6)
	if rich && n < 3 {
		n = 3 + r.Intn(4)
	}
	t := &vnTemplate{n: n, signer: r.Intn(n), commits: map[int]Key{}, kind: -1}
	pub := nc.private.Public()
	for i := 0; i < n; i++ {
		if i == t.signer {
			t.pubs = append(t.pubs, pub)
		} else {
			t.pubs = append(t.pubs, vnKey(r).Public())
		}
	}
	t.commits[t.signer] = nc.base.Public()
	for i := 0; i < n; i++ {
		if i != t.signer && r.Intn(3) > 0 {
			t.commits[i] = vnKey(r).Public()
		}
	}
	if rich { // at least one co-signer that committed and one peer that did not
		var o []int
		for i := 0; i < n; i++ {
			if i != t.signer {
				o = append(o, i)
			}
		}
		t.commits[o[0]] = vnKey(r).Public()
		delete(t.commits, o[1])
	}
	r.Read(t.message[:])
	return t
}

// a template that differs from t in one randomly chosen ingredient. Kinds:
//   0 message; 1 a peer's commitment (changes R, maybe the mask); 2 commitment and key of a peer;
//   3 the mask; 4 ONLY the public key of a committed co-signer (same commitments, mask, message:
//   the aggregate key A changes, so the challenge H(R||A||m) is a different one);
//   5 ONLY the public key of a peer that did not commit (A unchanged: the SAME challenge reached
//   through a different key vector -- an identical retry);
//   6 a committed and an uncommitted peer exchange their public keys (A changes, nothing else).
func (w *vnWorld) varyKind(t *vnTemplate, k int) *vnTemplate {
	r := w.r
	c := t.clone()
	var others, masked, unmasked []int
	for i := 0; i < c.n; i++ {
		if i == c.signer {
			continue
		}
		others = append(others, i)
		if _, ok := c.commits[i]; ok {
			masked = append(masked, i)
		} else {
			unmasked = append(unmasked, i)
		}
	}
	if (k == 4 && len(masked) == 0) || (k == 5 && len(unmasked) == 0) || (k == 6 && (len(masked) == 0 || len(unmasked) == 0)) {
		k = 4
		if len(masked) == 0 {
			k = 0
		}
	}
	if len(others) == 0 {
		k = 0
	}
	c.kind = k
	switch k {
	case 0:
		c.message[r.Intn(32)] ^= byte(1 << uint(r.Intn(8)))
	case 1:
		i := others[r.Intn(len(others))]
		if _, ok := c.commits[i]; ok && r.Intn(2) == 0 {
			delete(c.commits, i)
		} else {
			c.commits[i] = vnKey(r).Public()
		}
	case 2:
		i := others[r.Intn(len(others))]
		c.commits[i] = vnKey(r).Public()
		c.pubs[i] = vnKey(r).Public()
	case 3:
		i := others[r.Intn(len(others))]
		if _, ok := c.commits[i]; ok {
			delete(c.commits, i)
		} else {
			c.commits[i] = vnKey(r).Public()
		}
	case 4:
		c.pubs[masked[r.Intn(len(masked))]] = vnKey(r).Public()
	case 5:
		c.pubs[unmasked[r.Intn(len(unmasked))]] = vnKey(r).Public()
	case 6:
		i, j := masked[r.Intn(len(masked))], unmasked[r.Intn(len(unmasked))]
		c.pubs[i], c.pubs[j] = c.pubs[j], c.pubs[i]
	}
	return c
}

func (w *vnWorld) vary(t *vnTemplate) *vnTemplate {
	// key-vector-only variants are as likely as all the others together
	k := w.r.Intn(8)
	if k >= 4 {
		k = []int{4, 4, 5, 6}[k-4]
	}
	return w.varyKind(t, k)
}

func (w *vnWorld) badTemplate(t *vnTemplate) *vnTemplate {
	c := t.clone()
	c.commits[c.n+w.r.Intn(3)] = vnKey(w.r).Public() // mask index outside the key vector
	return c
}

// seq: the world of a sequential walk: c2 differs from c1 ONLY in a committed co-signer's public key,
// c3 from c1 in another ingredient; freshly rebuilt contexts may additionally differ in the key of a
// peer that did not commit (same challenge, different key vector).
func vnNewWorld(r *rand.Rand, nonces int, distinct int, withBad bool, seq bool) *vnWorld {
	w := &vnWorld{r: r, classes: map[[32]byte]string{}}
	for id := 1; id <= nonces; id++ {
		nc := &vnNonce{id: id, private: vnKey(r)}
		nc.base = CosiCommitNonce(vnRandReader{r})
		first := w.template(nc, seq || r.Intn(2) == 0)
		tpls := []*vnTemplate{first}
		for len(tpls) < distinct {
			if seq && len(tpls) == 1 {
				tpls = append(tpls, w.varyKind(first, 4))
				continue
			}
			tpls = append(tpls, w.vary(tpls[r.Intn(len(tpls))]))
		}
		for _, t := range tpls {
			c := t.build()
			w.classify(c)
			nc.ctxs = append(nc.ctxs, c)
		}
		if withBad {
			c := w.badTemplate(first).build()
			w.classify(c)
			nc.ctxs = append(nc.ctxs, c)
		}
		nc.tpls = tpls
		w.nonces = append(w.nonces, nc)
	}
	return w
}

type vnEvent struct {
	seq int64
	m   vM
}

type vnAnswer struct {
	nonce int
	chal  *edwards25519.Scalar
	resp  [32]byte
}

type vnRaw struct {
	callSeq, retSeq int64
	p, h            int
	nc              *vnNonce
	c               *vnCtx
	res             string
	err             error
	resp            *[32]byte
}

type vnRecorder struct {
	ctr     atomic.Int64
	mu      sync.Mutex
	raws    []vnRaw
	events  []vnEvent
	answers []vnAnswer
	resps   map[[32]byte]int
}

// one call of the real Response through the given handle value; nothing but two ticks of the
// atomic sequence counter surrounds the call, so that racing goroutines stay close together
func (rec *vnRecorder) raw(p, h int, nc *vnNonce, handle *CosiNonce, c *vnCtx) vnRaw {
	x := vnRaw{p: p, h: h, nc: nc, c: c}
	x.callSeq = rec.ctr.Add(1)
	x.res, _ = vCall(func() error {
		x.resp, x.err = handle.Response(c.sig, &nc.private, c.publics, c.message)
		return x.err
	})
	x.retSeq = rec.ctr.Add(1)
	return x
}

func (rec *vnRecorder) add(xs ...vnRaw) {
	rec.mu.Lock()
	rec.raws = append(rec.raws, xs...)
	rec.mu.Unlock()
}

func (rec *vnRecorder) call(p, h int, nc *vnNonce, handle *CosiNonce, c *vnCtx) {
	rec.add(rec.raw(p, h, nc, handle, c))
}

// turn the raw records into events (single-threaded, after the goroutines have finished)
func (rec *vnRecorder) digest() {
	sort.Slice(rec.raws, func(i, j int) bool { return rec.raws[i].retSeq < rec.raws[j].retSeq })
	rec.resps = map[[32]byte]int{}
	for _, x := range rec.raws {
		ret := vM{"ev": "Ret", "p": x.p, "res": x.res, "reuse": false, "r": 0, "valid": false}
		if x.res == "err" {
			ret["reuse"] = errors.Is(x.err, ErrCosiNonceReuse)
		}
		if x.res == "ok" && x.resp != nil {
			ret["valid"] = x.c.sig.VerifyResponse(x.c.publics, x.c.signer, x.resp, x.c.message) == nil
			if _, ok := rec.resps[*x.resp]; !ok {
				rec.resps[*x.resp] = len(rec.resps) + 1
			}
			ret["r"] = rec.resps[*x.resp]
			rec.answers = append(rec.answers, vnAnswer{nonce: x.nc.id, chal: x.c.chal, resp: *x.resp})
		}
		rec.events = append(rec.events,
			vnEvent{x.callSeq, vM{"ev": "Call", "p": x.p, "h": x.h, "n": x.nc.id, "c": x.c.class, "var": x.c.kind}},
			vnEvent{x.retSeq, ret})
	}
}

// flush: events in the order of the atomic sequence counter (consistent with real time),
// response bytes replaced by equality classes, then the key-extraction observation.
func (rec *vnRecorder) flush(tr *vTrace, w *vnWorld) {
	rec.digest()
	sort.Slice(rec.events, func(i, j int) bool { return rec.events[i].seq < rec.events[j].seq })
	for _, e := range rec.events {
		tr.Emit(e.m)
	}
	extract, pairs := false, 0
	byNonce := map[int][]vnAnswer{}
	for _, a := range rec.answers {
		byNonce[a.nonce] = append(byNonce[a.nonce], a)
	}
	for _, nc := range w.nonces {
		priv, err := edwards25519.NewScalar().SetCanonicalBytes(nc.private[:])
		if err != nil {
			panic(err)
		}
		as := byNonce[nc.id]
		for i := range as {
			si, err := edwards25519.NewScalar().SetCanonicalBytes(as[i].resp[:])
			if err != nil {
				continue
			}
			// a response computed from a wiped secret: s = c*a
			if as[i].chal != nil && as[i].chal.Equal(edwards25519.NewScalar()) != 1 {
				inv := edwards25519.NewScalar().Invert(as[i].chal)
				if edwards25519.NewScalar().Multiply(si, inv).Equal(priv) == 1 {
					extract = true
				}
			}
			for j := i + 1; j < len(as); j++ {
				if as[i].chal == nil || as[j].chal == nil || as[i].chal.Equal(as[j].chal) == 1 {
					continue
				}
				sj, err := edwards25519.NewScalar().SetCanonicalBytes(as[j].resp[:])
				if err != nil {
					continue
				}
				pairs++
				ds := edwards25519.NewScalar().Subtract(si, sj)
				dc := edwards25519.NewScalar().Subtract(as[i].chal, as[j].chal)
				rec := edwards25519.NewScalar().Multiply(ds, edwards25519.NewScalar().Invert(dc))
				if rec.Equal(priv) == 1 {
					extract = true
				}
			}
		}
	}
	tr.Emit(vM{"ev": "Obs", "extract": extract, "pairs": pairs})
}

func TestVerifNonce(t *testing.T) {
	tr := vOpenTrace(t)
	defer tr.Close()
	var cases vnCases
	vLoadCases(t, &cases)
	seed := vSeed()
	r := rand.New(rand.NewSource(seed*104729 + 12))

	// ---- E1: sequential behaviours of the atomic machine generated by TLC
	for wi, walk := range cases.Walks {
		w := vnNewWorld(r, 2, 3, true, true)
		tr.Emit(vM{"ev": "Reset", "kind": "walk", "k": wi})
		rec := &vnRecorder{}
		copies := map[string]*CosiNonce{}
		hid := map[string]int{"h1": 1, "h2": 2, "g1": 3}
		for _, o := range walk {
			nc := w.nonces[0]
			if o.H == "g1" {
				nc = w.nonces[1]
			}
			if copies[o.H] == nil {
				cp := *nc.base // a copy of the handle value
				copies[o.H] = &cp
			}
			var c *vnCtx
			switch o.C {
			case "c1":
				c = nc.ctxs[0]
			case "c2":
				c = nc.ctxs[1]
			case "c3":
				c = nc.ctxs[2]
			default:
				c = nc.ctxs[3]
			}
			if r.Intn(2) == 0 && o.C != "bad" {
				// same challenge through freshly built argument objects
				idx := map[string]int{"c1": 0, "c2": 1, "c3": 2}[o.C]
				tp := nc.tpls[idx]
				if r.Intn(2) == 0 {
					tp = w.varyKind(tp, 5) // another key of a peer that did not commit: the same challenge
					if tp.n == nc.tpls[idx].n && len(tp.commits) == len(nc.tpls[idx].commits) && tp.message == nc.tpls[idx].message {
						c = tp.build()
						w.classify(c)
						if c.class != nc.ctxs[idx].class { // fell back to another kind of variation: keep the original
							tp = nc.tpls[idx]
						}
					}
				}
				c = tp.build()
				w.classify(c)
			}
			rec.call(1, hid[o.H], nc, copies[o.H], c)
		}
		rec.flush(tr, w)
	}

	// ---- E2: concurrent histories
	for h := 0; h < cases.Histories; h++ {
		nn := 1
		if r.Intn(4) == 0 {
			nn = 2 + r.Intn(2)
		}
		w := vnNewWorld(r, nn, 1+r.Intn(3), r.Intn(3) == 0, false)
		tr.Emit(vM{"ev": "Reset", "kind": "hist", "k": h})
		rec := &vnRecorder{}
		pick := func() (*vnNonce, *vnCtx) {
			nc := w.nonces[r.Intn(len(w.nonces))]
			c := nc.ctxs[r.Intn(len(nc.ctxs))]
			if c.class != "bad" && r.Intn(3) == 0 {
				for i, cc := range nc.ctxs {
					if cc == c && i < len(nc.tpls) {
						tp := nc.tpls[i]
						if r.Intn(2) == 0 {
							tp = w.varyKind(tp, 5+r.Intn(2)) // key vector only (same or different challenge)
						}
						c = tp.build()
						w.classify(c)
						break
					}
				}
			}
			return nc, c
		}
		// sequential prefix (sometimes the nonce is already bound when the race starts)
		for k := r.Intn(3) - 1; k > 0; k-- {
			nc, c := pick()
			rec.call(1, 1, nc, nc.base, c)
		}
		G := 2 + r.Intn(7)
		type job struct {
			nc     *vnNonce
			c      *vnCtx
			handle *CosiNonce
			h      int
			yield  bool
		}
		plans := make([][]job, G)
		for g := range plans {
			calls := 1 + r.Intn(3)
			own := map[int]*CosiNonce{}
			for k := 0; k < calls; k++ {
				nc, c := pick()
				j := job{nc: nc, c: c, h: g + 1, yield: r.Intn(2) == 0}
				if r.Intn(4) == 0 {
					j.handle, j.h = nc.base, 0 // the shared handle itself
				} else {
					if own[nc.id] == nil {
						cp := *nc.base
						own[nc.id] = &cp
					}
					j.handle = own[nc.id]
				}
				plans[g] = append(plans[g], j)
			}
		}
		var wg sync.WaitGroup
		var ready, start atomic.Int32
		for g := range plans {
			wg.Add(1)
			go func(p int, js []job) {
				defer wg.Done()
				xs := make([]vnRaw, 0, len(js))
				ready.Add(1)
				for spins := 0; start.Load() == 0; spins++ { // spin: everybody is on a CPU when the race starts
					if spins > 1<<16 {
						runtime.Gosched() // an overloaded machine: do not burn the CPU the others need
					}
				}
				for k, j := range js {
					if k > 0 && j.yield {
						runtime.Gosched()
					}
					xs = append(xs, rec.raw(p, j.h, j.nc, j.handle, j.c))
				}
				rec.add(xs...)
			}(g+1, plans[g])
		}
		for int(ready.Load()) < G {
			runtime.Gosched()
		}
		start.Store(1)
		wg.Wait()
		// sequential suffix: whatever happened, the binding must persist
		for k := 1 + r.Intn(2); k > 0; k-- {
			nc, c := pick()
			rec.call(1, 1, nc, nc.base, c)
		}
		rec.flush(tr, w)
	}
}
