package crypto

// Harness for property C14 (spec/Cosi/AggSig.tla, MC_AggSig.tla, Trace_AggSig.tla).
//
// Every case printed by TLC (key vector size, sorted signing list, verification signer list,
// signature kind, verification message / key vector) is concretized with real keys and executed
// through AggregateSign / AggregateVerify. Only outcomes are recorded; TLC judges them.
//
// Concretization: the n abstract keys sit at increasing positions pos[0..n-1] of a real vector of
// N keys (fillers elsewhere); the abstract index n ("outside") is the real index N.

import (
	"encoding/json"
	"math/big"
	"math/rand"
	"runtime"
	"sync"
	"testing"

	"filippo.io/edwards25519"
)

type vaIdx struct {
	Op string `json:"op"`
	I  int    `json:"i"`
	J  int    `json:"j"`
}

type vaCase struct {
	N     int    `json:"n"`
	Ss    []int  `json:"ss"`
	Vs    []int  `json:"vs"`
	Sig   string `json:"sig"`
	Vmsg  string `json:"vmsg"`
	Vkeys vaIdx  `json:"vkeys"`
	Ri    int    `json:"ri"`
	Rc    int    `json:"rc"`
}

type vaCases struct {
	Cases  []json.RawMessage `json:"cases"`
	Layout []string          `json:"layout"`
	Wide   int               `json:"wide"`
}

type vaPair struct{ priv, pub Key }

var vaGroupOrder, _ = new(big.Int).SetString("7237005577332262213973186563042994240857116359379907606001950938285454250989", 10)

func vaKey(r *rand.Rand) Key {
	seed := make([]byte, 64)
	r.Read(seed)
	return NewKeyFromSeed(seed)
}

func vaAddOrder(b []byte) []byte {
	be := make([]byte, 32)
	for i := range be {
		be[i] = b[31-i]
	}
	v := new(big.Int).SetBytes(be)
	v.Add(v, vaGroupOrder)
	out := v.Bytes()
	res := make([]byte, 32)
	for i := range out {
		res[i] = out[len(out)-1-i]
	}
	return res
}

func vaRun(raw json.RawMessage, layout string, wide int, r *rand.Rand, pool []vaPair) vM {
	var c vaCase
	if err := json.Unmarshal(raw, &c); err != nil {
		panic(err)
	}
	n := c.N
	if layout == "any" {
		layout = []string{"tight", "spread", "wide"}[r.Intn(3)]
	}
	N := n
	switch layout {
	case "spread":
		N = n + r.Intn(20)
	case "wide":
		N = wide - r.Intn(1+wide/4)
	}
	if N < n {
		N = n
	}
	pos := r.Perm(N)[:n]
	for i := 1; i < len(pos); i++ {
		for j := i; j > 0 && pos[j] < pos[j-1]; j-- {
			pos[j], pos[j-1] = pos[j-1], pos[j]
		}
	}
	if layout == "wide" && n >= 2 {
		pos[0], pos[n-1] = 0, N-1
	}
	pos = append(pos, N)
	perm := r.Perm(len(pool))
	pairs := make([]vaPair, N)
	for i := range pairs {
		pairs[i] = pool[perm[i]]
	}
	foreign, extra, attacker := pool[perm[N]], pool[perm[N+1]], pool[perm[N+2]]
	publics := make([]*Key, N)
	for i := range publics {
		k := pairs[i].pub
		publics[i] = &k
	}
	var msg, other Hash
	r.Read(msg[:])
	other = msg
	other[r.Intn(32)] ^= byte(1 << uint(r.Intn(8)))
	seed := make([]byte, 32+r.Intn(16))
	r.Read(seed)

	real := func(xs []int) []int {
		out := make([]int, len(xs))
		for k, i := range xs {
			out[k] = pos[i]
		}
		return out
	}
	ev := vM{"ev": "Case", "c": raw, "N": N, "layout": layout}

	// ---- the signature
	var sig Signature
	signOK := true
	if c.Sig == "Rogue" {
		// last key of the vector := X - sum of the other keys ; signature := X's own
		X, err := edwards25519.NewIdentityPoint().SetBytes(attacker.pub[:])
		if err != nil {
			panic(err)
		}
		for i := 0; i < n-1; i++ {
			A, err := edwards25519.NewIdentityPoint().SetBytes(publics[pos[i]][:])
			if err != nil {
				panic(err)
			}
			X = edwards25519.NewIdentityPoint().Subtract(X, A)
		}
		var rogue Key
		copy(rogue[:], X.Bytes())
		publics[pos[n-1]] = &rogue
		sig = attacker.priv.Sign(msg)
	} else if c.Sig == "RogueW" {
		// weighted key cancellation: coefficients taken for a placeholder last key, then
		// last key := (X - sum_{i<last} c_i A_i) / c_last ; signature := X's own
		all := real(c.Ss)
		_, coeffs, _, err := aggregateWeightedPublicKey(publics, all)
		X, e2 := edwards25519.NewIdentityPoint().SetBytes(attacker.pub[:])
		if err == nil && e2 == nil && len(coeffs) == n {
			for i := 0; i < n-1; i++ {
				A, err := edwards25519.NewIdentityPoint().SetBytes(publics[pos[i]][:])
				if err != nil {
					panic(err)
				}
				X = edwards25519.NewIdentityPoint().Subtract(X, edwards25519.NewIdentityPoint().ScalarMult(coeffs[i], A))
			}
			X = edwards25519.NewIdentityPoint().ScalarMult(edwards25519.NewScalar().Invert(coeffs[n-1]), X)
			var rogue Key
			copy(rogue[:], X.Bytes())
			publics[pos[n-1]] = &rogue
		}
		sig = attacker.priv.Sign(msg)
	} else if c.Sig == "RogueC" {
		// coefficient-folded key cancellation: selected key ri := X - sum of the other selected keys;
		// signature := ordinary signature under coef(rc) * x, coef computed as the verifier does
		X, err := edwards25519.NewIdentityPoint().SetBytes(attacker.pub[:])
		if err != nil {
			panic(err)
		}
		at := 0
		for k, i := range c.Ss {
			if i == c.Rc {
				at = k
			}
			if i == c.Ri {
				continue
			}
			A, err := edwards25519.NewIdentityPoint().SetBytes(publics[pos[i]][:])
			if err != nil {
				panic(err)
			}
			X = edwards25519.NewIdentityPoint().Subtract(X, A)
		}
		var rogue Key
		copy(rogue[:], X.Bytes())
		publics[pos[c.Ri]] = &rogue
		sig = attacker.priv.Sign(msg)
		_, coeffs, _, err := aggregateWeightedPublicKey(publics, real(c.Ss))
		x, e2 := edwards25519.NewScalar().SetCanonicalBytes(attacker.priv[:])
		if err == nil && e2 == nil && at < len(coeffs) {
			var k Key
			copy(k[:], edwards25519.NewScalar().Multiply(coeffs[at], x).Bytes())
			sig = k.Sign(msg)
		}
	} else if c.Sig == "Plain" {
		sum := edwards25519.NewScalar()
		for _, i := range c.Ss {
			y, err := edwards25519.NewScalar().SetCanonicalBytes(pairs[pos[i]].priv[:])
			if err != nil {
				panic(err)
			}
			sum = sum.Add(sum, y)
		}
		var k Key
		copy(k[:], sum.Bytes())
		sig = k.Sign(msg)
	} else {
		privs := make([]*Key, len(c.Ss))
		for k, i := range c.Ss {
			p := pairs[pos[i]].priv
			privs[k] = &p
		}
		var sp *Signature
		res, _ := vCall(func() error {
			var err error
			sp, err = AggregateSign(privs, publics, real(c.Ss), seed, msg)
			return err
		})
		signOK = res == "ok" && sp != nil
		if signOK {
			sig = *sp
		}
		switch c.Sig {
		case "TamperedR":
			R, err := edwards25519.NewIdentityPoint().SetBytes(sig[:32])
			if err == nil {
				R = R.Add(R, edwards25519.NewGeneratorPoint())
				copy(sig[:32], R.Bytes())
			} else {
				sig[0] ^= 1
			}
		case "TamperedS":
			s, err := edwards25519.NewScalar().SetCanonicalBytes(sig[32:])
			if err == nil {
				var one [32]byte
				one[0] = 1
				o, _ := edwards25519.NewScalar().SetCanonicalBytes(one[:])
				copy(sig[32:], s.Add(s, o).Bytes())
			} else {
				sig[32] ^= 1
			}
		case "NonCanonS":
			copy(sig[32:], vaAddOrder(sig[32:]))
		case "Garbage":
			r.Read(sig[:])
		}
	}
	ev["sign"] = signOK
	// structural observation: the coefficients of the signing list over the final key vector
	cdist := true
	if _, coeffs, _, err := aggregateWeightedPublicKey(publics, real(c.Ss)); err == nil {
		for a := range coeffs {
			for b := a + 1; b < len(coeffs); b++ {
				if coeffs[a].Equal(coeffs[b]) == 1 {
					cdist = false
				}
			}
		}
	}
	ev["cdist"] = cdist

	// ---- verification arguments
	vkeys := append([]*Key{}, publics...)
	switch c.Vkeys.Op {
	case "swap":
		vkeys[pos[c.Vkeys.I]], vkeys[pos[c.Vkeys.J]] = vkeys[pos[c.Vkeys.J]], vkeys[pos[c.Vkeys.I]]
	case "replace":
		k := foreign.pub
		vkeys[pos[c.Vkeys.I]] = &k
	case "truncate":
		vkeys = vkeys[:pos[n-1]]
	case "extend":
		k := extra.pub
		vkeys = append(vkeys, &k)
	}
	vm := msg
	if c.Vmsg == "other" {
		vm = other
	}
	res, _ := vCall(func() error { return AggregateVerify(&sig, vkeys, real(c.Vs), vm) })
	ev["av"] = res == "ok"
	ev["avpanic"] = res == "panic"
	return ev
}

func TestVerifAggSig(t *testing.T) {
	tr := vOpenTrace(t)
	defer tr.Close()
	var cases vaCases
	vLoadCases(t, &cases)
	if cases.Wide == 0 {
		cases.Wide = 64
	}
	seed := vSeed()
	pr := rand.New(rand.NewSource(seed*11 + 5))
	pool := make([]vaPair, cases.Wide+8)
	for i := range pool {
		pool[i].priv = vaKey(pr)
		pool[i].pub = pool[i].priv.Public()
	}
	type job struct {
		idx, ci int
		layout  string
	}
	var jobs []job
	for ci := range cases.Cases {
		for _, l := range cases.Layout {
			jobs = append(jobs, job{len(jobs), ci, l})
		}
	}
	out := make([]vM, len(jobs))
	var wg sync.WaitGroup
	ch := make(chan job, 64)
	for w := 0; w < runtime.GOMAXPROCS(0); w++ {
		wg.Add(1)
		go func() {
			defer wg.Done()
			for j := range ch {
				r := rand.New(rand.NewSource(seed*1000003 + int64(j.idx)*7919 + 2))
				out[j.idx] = vaRun(cases.Cases[j.ci], j.layout, cases.Wide, r, pool)
			}
		}()
	}
	for _, j := range jobs {
		ch <- j
	}
	close(ch)
	wg.Wait()
	for _, m := range out {
		tr.Emit(m)
	}
}
