package crypto

// Harness for property C13 (spec/Cosi/Cosi.tla, MC_Cosi.tla, Trace_Cosi.tla).
//
// Every case printed by TLC (key vector size, mask, threshold, tampered shares, response-map
// domain, final-signature forgery shape, verification message / key vector) is concretized with
// real keys and executed through CosiAggregateCommitment / Response / VerifyResponse /
// AggregateResponse (strict and not) / FullVerify. Only outcomes are recorded; TLC judges them.
//
// Concretization: the n abstract keys are placed at increasing positions pos[0..n-1] of a real key
// vector of length N (other positions hold filler keys that never sign); the abstract index n
// ("outside the vector") is the real index N.

import (
	"encoding/json"
	"math/big"
	"math/rand"
	"runtime"
	"sync"
	"testing"

	"filippo.io/edwards25519"
)

type vcIdx struct {
	Op string `json:"op"`
	I  int    `json:"i"`
	J  int    `json:"j"`
}

type vcTam struct {
	I    int    `json:"i"`
	Kind string `json:"kind"`
}

type vcCase struct {
	N     int     `json:"n"`
	Cm    []int   `json:"cm"`
	Thr   int     `json:"thr"`
	Tam   []vcTam `json:"tam"`
	Dom   vcIdx   `json:"dom"`
	Form  vcIdx   `json:"form"`
	Vmsg  string  `json:"vmsg"`
	Vkeys vcIdx   `json:"vkeys"`
}

type vcCases struct {
	Cases  []json.RawMessage `json:"cases"`
	Layout []string          `json:"layout"` // concretizations per case: "tight" | "spread" | "wide" | "any"
	Wide   int               `json:"wide"`   // key vector length of the "wide" layout
}

type vcPair struct{ priv, pub Key }

var vcGroupOrder, _ = new(big.Int).SetString("7237005577332262213973186563042994240857116359379907606001950938285454250989", 10)

func vcKey(r *rand.Rand) Key {
	seed := make([]byte, 64)
	r.Read(seed)
	return NewKeyFromSeed(seed)
}

func vcPool(r *rand.Rand, n int) []vcPair {
	ps := make([]vcPair, n)
	for i := range ps {
		ps[i].priv = vcKey(r)
		ps[i].pub = ps[i].priv.Public()
	}
	return ps
}

func vcScalar(b *[32]byte) *edwards25519.Scalar {
	s, err := edwards25519.NewScalar().SetCanonicalBytes(b[:])
	if err != nil {
		panic(err)
	}
	return s
}

func vcOne() *edwards25519.Scalar {
	var one [32]byte
	one[0] = 1
	return vcScalar(&one)
}

func vcBytes(s *edwards25519.Scalar) *[32]byte {
	var b [32]byte
	copy(b[:], s.Bytes())
	return &b
}

// the same scalar in a non-canonical encoding: s + L (fits 256 bits)
func vcNonCanon(b *[32]byte) *[32]byte {
	be := make([]byte, 32)
	for i := range be {
		be[i] = b[31-i]
	}
	v := new(big.Int).SetBytes(be)
	v.Add(v, vcGroupOrder)
	out := v.Bytes()
	var res [32]byte
	for i := range out {
		res[i] = out[len(out)-1-i]
	}
	return &res
}

func vcOK(f func() error) (bool, bool) {
	res, _ := vCall(f)
	return res == "ok", res == "panic"
}

func vcRun(raw json.RawMessage, layout string, wide int, r *rand.Rand, pool []vcPair) vM {
	var c vcCase
	if err := json.Unmarshal(raw, &c); err != nil {
		panic(err)
	}
	n := c.N
	inCm := map[int]bool{}
	outside := c.Form.Op == "flip" && c.Form.I == n
	for _, i := range c.Cm {
		inCm[i] = true
		if i == n {
			outside = true
		}
	}
	// ---- layout
	if layout == "any" {
		layout = []string{"tight", "spread", "wide"}[r.Intn(3)]
	}
	N := n
	switch layout {
	case "spread":
		N = n + r.Intn(12)
	case "wide":
		N = wide
	}
	if outside && N > 63 {
		N = 63 // the index outside the vector must still be a representable mask bit
	}
	if N < n {
		N = n
	}
	pos := r.Perm(N)[:n]
	for i := 1; i < len(pos); i++ { // increasing positions
		for j := i; j > 0 && pos[j] < pos[j-1]; j-- {
			pos[j], pos[j-1] = pos[j-1], pos[j]
		}
	}
	if layout == "wide" && n >= 2 {
		pos[0], pos[n-1] = 0, N-1 // both ends of the mask word / vector
	}
	pos = append(pos, N)
	perm := r.Perm(len(pool))
	pairs := make([]vcPair, N)
	for i := range pairs {
		pairs[i] = pool[perm[i]]
	}
	foreign, extra := pool[perm[N]], pool[perm[N+1]]
	publics := make([]*Key, N)
	for i := range publics {
		k := pairs[i].pub
		publics[i] = &k
	}
	var msg, other Hash
	r.Read(msg[:])
	other = msg
	other[r.Intn(32)] ^= byte(1 << uint(r.Intn(8)))

	ev := vM{"ev": "Case", "c": raw, "N": N, "layout": layout}
	panicked := false
	note := func(p bool) {
		if p {
			panicked = true
		}
	}

	// ---- commitments
	randoms := map[int]Key{}
	commits := map[int]*Key{}
	for _, i := range c.Cm {
		randoms[i] = vcKey(r)
		R := randoms[i].Public()
		commits[pos[i]] = &R
	}
	var cosi *CosiSignature
	ok, p := vcOK(func() error {
		var err error
		cosi, err = CosiAggregateCommitment(commits)
		return err
	})
	note(p)
	ev["commit"] = ok
	vr := make([]bool, n+1)
	if !ok || cosi == nil {
		ev["vr"], ev["aggS"], ev["aggN"], ev["fv"], ev["panic"], ev["fvpanic"] = vr, false, false, false, panicked, false
		ev["fvUsed"], ev["fvCopy"], ev["fvAgg"], ev["fvBack"], ev["tvUsed"], ev["nkeys"] = false, false, false, false, c.Thr <= 0, 0
		return ev
	}

	// ---- shares
	challengeOK, p := vcOK(func() error { _, err := cosi.Challenge(publics, msg); return err })
	note(p)
	share := map[int]*[32]byte{}
	respond := func(priv, rnd *Key, m Hash) *[32]byte {
		var s *[32]byte
		_, p := vcOK(func() error {
			var err error
			s, err = cosi.Response(priv, rnd, publics, m)
			return err
		})
		note(p)
		if s == nil {
			s = new([32]byte)
		}
		return s
	}
	for _, i := range c.Cm {
		if i >= n {
			share[i] = new([32]byte)
			continue
		}
		rnd := randoms[i]
		share[i] = respond(&pairs[pos[i]].priv, &rnd, msg)
	}
	if challengeOK {
		for _, t := range c.Tam {
			i := t.I
			rnd := randoms[i]
			switch t.Kind {
			case "Plus":
				share[i] = vcBytes(edwards25519.NewScalar().Add(vcScalar(share[i]), vcOne()))
			case "Minus":
				share[i] = vcBytes(edwards25519.NewScalar().Subtract(vcScalar(share[i]), vcOne()))
			case "WrongKey":
				share[i] = respond(&foreign.priv, &rnd, msg)
			case "WrongNonce":
				o := vcKey(r)
				share[i] = respond(&pairs[pos[i]].priv, &o, msg)
			case "WrongMsg":
				share[i] = respond(&pairs[pos[i]].priv, &rnd, other)
			case "NonCanon":
				share[i] = vcNonCanon(share[i])
			default:
				panic("unknown tamper kind " + t.Kind)
			}
		}
	}
	freshShare := func(i int) *[32]byte { // a genuine-looking response of a signer that did not commit
		o := vcKey(r)
		if i >= n {
			return respond(&foreign.priv, &o, msg)
		}
		return respond(&pairs[pos[i]].priv, &o, msg)
	}

	// ---- single-response verification, every index 0..n
	for i := 0; i <= n; i++ {
		s := share[i]
		if s == nil {
			s = freshShare(i)
		}
		ok, p := vcOK(func() error { return cosi.VerifyResponse(publics, pos[i], s, msg) })
		note(p)
		vr[i] = ok
	}
	ev["vr"] = vr

	// ---- aggregation, strict and not, on copies
	responses := func() map[int]*[32]byte {
		m := map[int]*[32]byte{}
		for _, i := range c.Cm {
			if c.Dom.Op == "missing" && c.Dom.I == i {
				continue
			}
			s := *share[i]
			m[pos[i]] = &s
		}
		if c.Dom.Op == "extra" {
			m[pos[c.Dom.I]] = freshShare(c.Dom.I)
		}
		return m
	}
	cpS, cpN := *cosi, *cosi
	ok, p = vcOK(func() error { return cpS.AggregateResponse(publics, responses(), msg, true) })
	note(p)
	ev["aggS"] = ok
	ok, p = vcOK(func() error { return cpN.AggregateResponse(publics, responses(), msg, false) })
	note(p)
	ev["aggN"] = ok

	// ---- the final signature as it would arrive from the wire: 64 bytes + mask
	final := &CosiSignature{Signature: cpN.Signature, Mask: cpN.Mask}
	switch c.Form.Op {
	case "flip":
		final.Mask ^= uint64(1) << uint(pos[c.Form.I])
	case "drop", "dup":
		S := edwards25519.NewScalar()
		for _, i := range c.Cm {
			mult := 1
			if i == c.Form.I {
				mult = map[string]int{"drop": 0, "dup": 2}[c.Form.Op]
			}
			si, err := edwards25519.NewScalar().SetCanonicalBytes(share[i][:])
			if err != nil {
				si = edwards25519.NewScalar()
			}
			for k := 0; k < mult; k++ {
				S = S.Add(S, si)
			}
		}
		copy(final.Signature[32:], S.Bytes())
	}

	// ---- verification key vector and message
	vkeys := append([]*Key{}, publics...)
	switch c.Vkeys.Op {
	case "swap":
		vkeys[pos[c.Vkeys.I]], vkeys[pos[c.Vkeys.J]] = vkeys[pos[c.Vkeys.J]], vkeys[pos[c.Vkeys.I]]
	case "replace":
		k := foreign.pub
		vkeys[pos[c.Vkeys.I]] = &k
	case "truncate":
		vkeys = vkeys[:pos[n-1]]
	case "extend":
		k := extra.pub
		vkeys = append(vkeys, &k)
	}
	vm := msg
	if c.Vmsg == "other" {
		vm = other
	}
	ok, p = vcOK(func() error { return final.FullVerify(vkeys, c.Thr, vm) })
	note(p)
	ev["fv"] = ok
	ev["fvpanic"] = p

	// ---- the same verification on signature VALUES that were already used: the verdict may depend
	// only on (signature bytes, mask, keys, threshold, message), never on what the value went through.
	use := func(v *CosiSignature, keys []*Key, thr int, m Hash) {
		_, p := vcOK(func() error { return v.FullVerify(keys, thr, m) })
		note(p)
		_, p = vcOK(func() error { _ = v.Keys(); _ = v.ThresholdVerify(thr); return nil })
		note(p)
	}
	mutate := func(v *CosiSignature) { // direct writes to the exported fields
		v.Signature = final.Signature
		v.Mask = final.Mask
	}
	verify := func(v *CosiSignature, keys []*Key, thr int, m Hash) bool {
		ok, p := vcOK(func() error { return v.FullVerify(keys, thr, m) })
		note(p)
		if p {
			ev["fvpanic"] = true
		}
		return ok
	}
	// (1) honest value verified first, then turned into the final form by field writes
	u := &CosiSignature{Signature: cpN.Signature, Mask: cpN.Mask}
	use(u, publics, 1, msg)
	cp := *u // (2) a struct copy of the used value
	mutate(u)
	ev["fvUsed"] = verify(u, vkeys, c.Thr, vm)
	ev["tvUsed"] = u.ThresholdVerify(c.Thr)
	ev["nkeys"] = len(u.Keys())
	mutate(&cp)
	ev["fvCopy"] = verify(&cp, vkeys, c.Thr, vm)
	// (3) the aggregated value itself (it went through AggregateResponse) turned into the final form
	w := cpN
	mutate(&w)
	ev["fvAgg"] = verify(&w, vkeys, c.Thr, vm)
	// (4) the other order: the final form verified first, then restored to the aggregated form and
	// verified with the signing key vector and message
	b := &CosiSignature{Signature: final.Signature, Mask: final.Mask}
	use(b, vkeys, c.Thr, vm)
	b.Signature, b.Mask = cpN.Signature, cpN.Mask
	ev["fvBack"] = verify(b, publics, c.Thr, msg)
	ev["panic"] = panicked
	return ev
}

func TestVerifCosi(t *testing.T) {
	tr := vOpenTrace(t)
	defer tr.Close()
	var cases vcCases
	vLoadCases(t, &cases)
	if cases.Wide == 0 {
		cases.Wide = 64
	}
	seed := vSeed()
	pool := vcPool(rand.New(rand.NewSource(seed*7+3)), cases.Wide+8)
	type job struct {
		idx    int
		ci     int
		layout string
	}
	var jobs []job
	for ci := range cases.Cases {
		for _, l := range cases.Layout {
			jobs = append(jobs, job{len(jobs), ci, l})
		}
	}
	out := make([]vM, len(jobs))
	var wg sync.WaitGroup
	ch := make(chan job, 64)
	for w := 0; w < runtime.GOMAXPROCS(0); w++ {
		wg.Add(1)
		go func() {
			defer wg.Done()
			for j := range ch {
				r := rand.New(rand.NewSource(seed*1000003 + int64(j.idx)*7919 + 1))
				out[j.idx] = vcRun(cases.Cases[j.ci], j.layout, cases.Wide, r, pool)
			}
		}()
	}
	for _, j := range jobs {
		ch <- j
	}
	close(ch)
	wg.Wait()
	for _, m := range out {
		tr.Emit(m)
	}
}
