SPECIFICATION Spec
CONSTANTS
  Signer <- SignerMC
  Payee <- PayeeMC
  Rank <- RankMC
  WP = 2
  WA = 2
  Time = {0,1,2,3,4}
  Gen = 1
  MaxRec = 4
  Mono = FALSE
  SignerSet = {"g0","k1","k2","k3"}
VIEW View0
CONSTRAINT Bound
INVARIANT TypeInv
PROPERTY StepProp
CHECK_DEADLOCK FALSE
