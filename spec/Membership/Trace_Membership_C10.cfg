SPECIFICATION Spec
CONSTANTS
  Mode = "C10"
  KnownIds = {}
CONSTRAINT HW
POSTCONDITION TraceOK
CHECK_DEADLOCK FALSE
