------------------------- MODULE MC_Membership_C11 -------------------------
(***************************************************************************)
(* C11 at design level (engine E3) and the behaviour generator (E1).       *)
(* State: the membership history H (sorted) and the custodian history C.   *)
(* Actions append one membership record or one custodian update with a     *)
(* timestamp that is equal or adjacent to the existing ones.  The action   *)
(* property says: appending a record with timestamp r leaves every view    *)
(* for a timestamp t <= r unchanged (custodian: t < r).                    *)
(* Legality of a record (storage's writeNode* rules) is approximated: a    *)
(* refused append is simply not part of the ledger (the trace spec applies *)
(* only the appends the real store accepted).                              *)
(***************************************************************************)
EXTENDS Membership, TLC, Json

CONSTANTS GN,        \* number of genesis nodes (numbers 1..GN); extras are GN+1, GN+2
          Times,     \* ticks of appended records
          MaxLen,    \* at most this many appended membership records
          MaxCust    \* at most this many custodian updates

VARIABLES H, C, last
vars == <<H, C, last>>

G == 1..GN
X == {GN + 1, GN + 2}
NoOp == [op |-> "init", n |-> 0, ts |-> 0, st |-> ""]

Init == H = GenesisHist(G) /\ C = <<0>> /\ last = NoOp

MaxTs == H[Len(H)].ts
RecsOf(n) == {i \in 1..Len(H) : H[i].n = n}
LatestOf(n) == H[CHOOSE i \in RecsOf(n) : \A j \in RecsOf(n) : j <= i]
SomebodyPledging == \E n \in G \cup X : RecsOf(n) # {} /\ LatestOf(n).st = Pledging

Legal(n, st, t) ==
    /\ t >= MaxTs
    /\ CASE st = Pledging -> n \in X /\ RecsOf(n) = {} /\ ~SomebodyPledging
         [] st \in {Accepted, Cancelled} -> RecsOf(n) # {} /\ LatestOf(n).st = Pledging /\ t > LatestOf(n).ts
         [] st = Removed -> RecsOf(n) # {} /\ LatestOf(n).st = Accepted /\ t > LatestOf(n).ts /\ ~SomebodyPledging

AppendRec(n, st, t) ==
    /\ Len(H) - GN < MaxLen
    /\ Legal(n, st, t)
    /\ H' = InsertRec(H, [n |-> n, ts |-> t, st |-> st])
    /\ last' = [op |-> "append", n |-> n, ts |-> t, st |-> st]
    /\ UNCHANGED C

AppendCust(t) ==
    /\ Len(C) - 1 < MaxCust
    /\ t > C[Len(C)] /\ t >= MaxTs
    /\ C' = Append(C, t)
    /\ last' = [op |-> "cust", n |-> 0, ts |-> t, st |-> ""]
    /\ UNCHANGED H

Next == \/ \E n \in {1, 2} \cup X, st \in NodeStates, t \in Times : AppendRec(n, st, t)
        \/ \E t \in Times : AppendCust(t)
Spec == Init /\ [][Next]_vars

\* ticks at which the node is asked: t-1, t, t+1 of every record, and the 12 h boundary after them
QueryTicks(h, c) ==
    LET ts == {h[i].ts : i \in 1..Len(h)} \cup {c[i] : i \in 1..Len(c)} IN
    {t \in UNION {{x - 1, x, x + 1} : x \in ts} : t >= 1}
    \cup {x + T12h + 1 : x \in ts \ {0}}

\* C11: views for t depend only on records before t
EarlierViewsStable ==
    [][ /\ (last'.op = "append" =>
              \A t \in QueryTicks(H, C) : t <= last'.ts => ViewOf(H', G, t) = ViewOf(H, G, t))
        /\ (last'.op = "cust" =>
              \A t \in QueryTicks(H, C) : t < last'.ts => CustodianAt(C', t) = CustodianAt(C, t)) ]_vars

Inv == IsSortedHist(H)

\* non-vacuity: an append whose timestamp equals an existing query tick, and a view that differs just after it
WitnessEqualTs == ~(last.op = "append" /\ \E i \in 1..Len(H) : H[i].ts = last.ts /\ H[i].n # last.n)
WitnessChange  == ~(last.op = "append" /\ ViewOf(H, G, last.ts + 1) # ViewOf(H, G, last.ts))

NodeName(n) == IF n <= GN THEN "g" \o ToString(n) ELSE "x" \o ToString(n - GN)
StateView == [h |-> [i \in 1..Len(H) |-> <<H[i].n, H[i].ts, H[i].st>>], c |-> C]
Emit ==
    PrintT("EDGE " \o ToJson([from |-> StateView,
                             o |-> [op |-> last'.op, node |-> NodeName(last'.n), ts |-> last'.ts, st |-> last'.st],
                             to |-> StateView']))
=============================================================================
