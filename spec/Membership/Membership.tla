----------------------------- MODULE Membership -----------------------------
(***************************************************************************)
(* Membership and consensus views of Mixin Kernel as read from the code    *)
(* (kernel/node.go, kernel/graph.go, kernel/slash.go, kernel/election.go;  *)
(* DESIGN.md Appendix C, corrected where the code says otherwise).         *)
(*                                                                         *)
(* Pure operators only: no variables, no constants.  Every view takes the  *)
(* membership history H explicitly, so a model, a trace specification or   *)
(* another module (Lifecycle) can EXTEND / INSTANCE this module read-only. *)
(*                                                                         *)
(* Time: 1 tick = 10 s, real = Epoch + 10 s * tick (DESIGN.md 3.3).  All   *)
(* thresholds of the code are multiples of 10 s.                           *)
(*                                                                         *)
(* A record is  [n |-> node, ts |-> tick, st |-> state, ...]  (further     *)
(* fields are ignored here).  n is a positive integer whose order is the   *)
(* order of the real node ids (hex strings): the code breaks timestamp     *)
(* ties by id.  st is the string the code stores.  A history H is a        *)
(* SEQUENCE of records sorted by (ts, n) - the order of                    *)
(* node.allNodesSortedWithState after LoadConsensusNodes.  G is the set of *)
(* genesis node numbers (node.genesisNodesMap).                            *)
(***************************************************************************)
EXTENDS Integers, Sequences, FiniteSets

Pledging  == "PLEDGING"
Accepted  == "ACCEPTED"
Removed   == "REMOVED"
Cancelled == "CANCELLED"
NodeStates == {Pledging, Accepted, Removed, Cancelled}

\* ---- constants of config/reader.go in ticks
T30s  == 3        \* SnapshotReferenceThreshold * SnapshotRoundGap = 10 * 3 s
T90s  == 9
THour == 360
T12h  == 4320     \* KernelNodePledgePeriodMinimum = KernelNodeAcceptPeriodMinimum
TDay  == 8640
T7d   == 60480    \* KernelNodeAcceptPeriodMaximum
MinNodes == 7     \* KernelMinimumNodesCount
MaxNodes == 50    \* KernelMaximumNodesCount
MaskBits == 64
NoThreshold == 1000          \* what ConsensusThreshold returns below MinNodes
AcceptBegin == 13
AcceptEnd   == 19
MintBegin   == 7
MintEnd     == 9
NoNode == 0                  \* "nil" node

\* transaction types that elect an operator (common/transaction.go)
OpMint == 1
OpPledge == 6
OpRemove == 9
OpCustodianUpdate == 19      \* 0x13
OpCustodianSlash == 20       \* 0x14
ElectOps == {OpMint, OpPledge, OpRemove, OpCustodianUpdate, OpCustodianSlash}

\* ---- order and history maintenance -------------------------------------
Before(a, b) == a.ts < b.ts \/ (a.ts = b.ts /\ a.n < b.n)

IsSortedHist(H) == \A i \in 1..(Len(H) - 1) : Before(H[i], H[i + 1])

\* insert a record keeping (ts, n) order (what re-reading the store + sort yields)
InsertRec(H, r) ==
    LET k == Cardinality({i \in 1..Len(H) : Before(H[i], r)}) IN
    [i \in 1..(Len(H) + 1) |-> IF i <= k THEN H[i] ELSE IF i = k + 1 THEN r ELSE H[i - 1]]

\* sort a finite set of records (pairwise distinct (ts, n))
SortHist(S) ==
    LET rk == [r \in S |-> Cardinality({q \in S : Before(q, r)})] IN
    [i \in 1..Cardinality(S) |-> CHOOSE r \in S : rk[r] = i - 1]

GenesisHist(G) == SortHist({[n |-> g, ts |-> 0, st |-> Accepted] : g \in G})

\* ---- time of day relative to the epoch ---------------------------------
Hour(t) == (t \div THour) % 24
Day(t)  == t \div TDay
InAcceptWindow(t) == Hour(t) >= AcceptBegin /\ Hour(t) <= AcceptEnd      \* checkConsensusAcceptHour
InMintWindow(t)   == Hour(t) >= MintBegin /\ Hour(t) <= MintEnd
InPledgeWindow(t) == ~InMintWindow(t) /\ ~InAcceptWindow(t)               \* checkConsensusPledgeHour
WindowStart(t)    == Day(t) * TDay + AcceptBegin * THour

\* ---- NodesListWithoutState(t, false) -----------------------------------
\* latest record of every node among the records with ts < t, in (ts, n) order
IsLatestAt(H, i, t) ==
    /\ H[i].ts < t
    /\ \A j \in (i + 1)..Len(H) : ~(H[j].n = H[i].n /\ H[j].ts < t)

RECURSIVE NodesFrom(_, _, _)
NodesFrom(H, t, i) ==
    IF i > Len(H) \/ H[i].ts >= t THEN <<>>
    ELSE (IF IsLatestAt(H, i, t) THEN <<H[i]>> ELSE <<>>) \o NodesFrom(H, t, i + 1)

NodesAt(H, t) == NodesFrom(H, t, 1)

StateSeq(L, st) == SelectSeq(L, LAMBDA r : r.st = st)

\* NodesListWithoutState(t, true)
AcceptedAt(H, t) == StateSeq(NodesAt(H, t), Accepted)

\* consensus index of the i-th entry of a list: accepted and pledging entries before it
ConsensusIndexIn(L, i) == Cardinality({j \in 1..(i - 1) : L[j].st \in {Accepted, Pledging}})
ConsensusIndexes(H, t) == LET L == NodesAt(H, t) IN [i \in 1..Len(L) |-> ConsensusIndexIn(L, i)]

NodeIds(L) == [i \in 1..Len(L) |-> L[i].n]

\* Every view below comes in two forms: on a list L == NodesAt(H, t) already computed ("...L",
\* cheap to combine inside one LET) and on the history H.

\* PledgingNode(t): the LAST entry, if it is pledging
PledgingL(L) == IF Len(L) > 0 /\ L[Len(L)].st = Pledging THEN L[Len(L)].n ELSE NoNode
PledgingAt(H, t) == PledgingL(NodesAt(H, t))

\* ---- checkRemovePossibility(self, now, old = nil) ------------------------
\* result: [ok, cand]; cand = NoNode when refused.  L == NodesAt(H, now).
RemoveCheckL(L, now, self) ==
    LET Acc == StateSeq(L, Accepted)
        refuse == [ok |-> FALSE, cand |-> NoNode]
    IN  IF PledgingL(L) # NoNode THEN refuse
        ELSE IF ~InAcceptWindow(now) THEN refuse
        ELSE IF \E i \in 1..Len(L) : now - L[i].ts < T12h THEN refuse      \* every listed record, any state
        ELSE IF \E i \in 1..Len(L) : L[i].st \notin {Accepted, Cancelled, Removed} THEN refuse
        ELSE IF Len(Acc) <= MinNodes THEN refuse
        ELSE IF Acc[1].n = self THEN refuse
        ELSE [ok |-> TRUE, cand |-> Acc[1].n]
RemoveCheck(H, now, self) == RemoveCheckL(NodesAt(H, now), now, self)

RemoveCandidate(H, now) == RemoveCheck(H, now, NoNode).cand

\* removingOrSlashingNodeAt(t) on a network with the predictive signer set
RemovingAt(H, t) == IF InAcceptWindow(t) THEN RemoveCandidate(H, WindowStart(t)) ELSE NoNode

\* ---- ConsensusReady / ConsensusThreshold / consensusNodes --------------
Ready(G, r, t) == r.st = Accepted /\ (r.n \in G \/ r.ts + T12h < t)

InBase(G, r, t, final) ==
    \/ r.st = Accepted /\ (r.n \in G \/ r.ts + T30s < t)
    \/ r.st = Pledging /\ ~final /\ r.ts + (T12h - T90s) < t

\* L == NodesAt(H, t), rm == RemovingAt(H, t)
BaseL(L, rm, G, t, final) == Cardinality({i \in 1..Len(L) : L[i].n # rm /\ InBase(G, L[i], t, final)})
Base(H, G, t, final) == BaseL(NodesAt(H, t), RemovingAt(H, t), G, t, final)

ThresholdOf(base) == IF base < MinNodes THEN NoThreshold ELSE (base * 2) \div 3 + 1
ThresholdL(L, rm, G, t, final) == ThresholdOf(BaseL(L, rm, G, t, final))
Threshold(H, G, t, final) == ThresholdOf(Base(H, G, t, final))

\* chain kinds: "ordinary" (chain has round state, or round # 0) and
\* "pledging-round0" (chain.IsPledging() and round = 0: the chain's own identity is appended)
ChainKinds == {"ordinary", "pledging-round0"}

ReadyKeysL(L, rm, G, t) == NodeIds(SelectSeq(L, LAMBDA r : r.n # rm /\ Ready(G, r, t)))
ReadyKeys(H, G, t) == ReadyKeysL(NodesAt(H, t), RemovingAt(H, t), G, t)

KeysL(L, rm, G, t, kind, chainNode) ==
    IF kind = "pledging-round0" THEN Append(ReadyKeysL(L, rm, G, t), chainNode) ELSE ReadyKeysL(L, rm, G, t)
Keys(H, G, t, kind, chainNode) == KeysL(NodesAt(H, t), RemovingAt(H, t), G, t, kind, chainNode)

\* ---- C10 ---------------------------------------------------------------
\* two signer sets of size >= thr out of k keys share at least 2*thr - k keys
QuorumIntersection(thr, k) == 3 * (2 * thr - k) > k \/ thr > k
NoCertificatePossible(thr, k) == thr > k /\ thr > MaskBits

\* ---- electSnapshotNode -------------------------------------------------
ElectDefined(H, t) == Len(AcceptedAt(H, t)) >= MinNodes          \* otherwise the code panics
ElectIndex(n, op, t) == 2 + ((Day(t) + op) % (n - 2))             \* 1-based into the accepted list
Elect(H, op, t) ==
    LET Acc == AcceptedAt(H, t) IN
    IF op \notin ElectOps THEN NoNode ELSE Acc[ElectIndex(Len(Acc), op, t)].n

Oldest(H, t) == AcceptedAt(H, t)[1].n
Newest(H, t) == LET Acc == AcceptedAt(H, t) IN Acc[Len(Acc)].n

\* ---- snapshot-level validity of the membership operations (kernel/election.go) -----------
\* validateNodePledgeSnapshot for a well-formed pledge of an unknown signer proposed by the elected
\* node (the election itself needs ElectDefined, otherwise the code panics)
PledgeValid(H, t) ==
    LET L == NodesAt(H, t + T12h) IN
    /\ InPledgeWindow(t)
    /\ \A i \in 1..Len(L) : /\ L[i].ts <= t
                             /\ t - L[i].ts >= T12h
                             /\ L[i].st \in {Accepted, Removed, Cancelled}
    /\ Len(StateSeq(L, Accepted)) < MaxNodes

\* validateNodeCancelSnapshot / checkNodeAcceptPossibility: the pledging node, inside the window,
\* between 12 h and 7 d after its pledge
PledgePeriodValid(H, t) ==
    LET L == NodesAt(H, t) IN
    /\ PledgingL(L) # NoNode
    /\ InAcceptWindow(t)
    /\ t - L[Len(L)].ts >= T12h
    /\ t - L[Len(L)].ts <= T7d

\* ---- the views reported for a timestamp (C11) ---------------------------------------------
\* Custodian history C: sequence of update ticks in increasing order (C[1] = 0 is the genesis
\* custodian, written at epoch + 1 ns: queries use t >= 1).  ReadCustodian(t): the latest update
\* whose timestamp is <= t (index, 0 = none).
CustodianAt(C, t) == Cardinality({i \in 1..Len(C) : C[i] <= t})

\* everything the node reports about membership for timestamp t, as one record
ViewOf(H, G, t) ==
    LET L   == NodesAt(H, t)
        rm  == IF L = <<>> THEN NoNode ELSE RemovingAt(H, t)
        Acc == StateSeq(L, Accepted)
        def == Len(Acc) >= MinNodes
    IN [list |-> [i \in 1..Len(L) |-> [n |-> L[i].n, st |-> L[i].st, ci |-> ConsensusIndexIn(L, i)]],
        acc |-> NodeIds(Acc),
        keys |-> ReadyKeysL(L, rm, G, t),
        thrF |-> ThresholdL(L, rm, G, t, TRUE),
        thrN |-> ThresholdL(L, rm, G, t, FALSE),
        pledging |-> PledgingL(L),
        electres |-> IF def THEN "ok" ELSE "panic",
        elect |-> IF def THEN [k \in 1..5 |-> Acc[ElectIndex(Len(Acc), <<OpMint, OpPledge, OpRemove, OpCustodianUpdate, OpCustodianSlash>>[k], t)].n]
                  ELSE <<>>]
=============================================================================
