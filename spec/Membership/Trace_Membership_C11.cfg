SPECIFICATION Spec
CONSTANTS
  Mode = "C11"
  KnownIds = {}
CONSTRAINT HW
POSTCONDITION TraceOK
CHECK_DEADLOCK FALSE
