SPECIFICATION Spec
CONSTANTS
  GN = 7
  Times = {100, 101}
  MaxLen = 4
  MaxCust = 2
INVARIANT Inv
INVARIANT WitnessChange
CHECK_DEADLOCK FALSE
