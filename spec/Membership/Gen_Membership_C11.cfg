SPECIFICATION Spec
CONSTANTS
  GN = 7
  Times = {100, 101}
  MaxLen = 4
  MaxCust = 2
INVARIANT Inv
ACTION_CONSTRAINT Emit
CHECK_DEADLOCK FALSE
