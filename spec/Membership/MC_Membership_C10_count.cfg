SPECIFICATION Spec
CONSTANTS
  Level = "count"
  MaxTotal = 50
  MaxV = 0
  MaxRX = 0
  G0s = {7}
  Rs = {0}
  Xs = {0}
  Ms = {0}
  Ys = {0}
INVARIANT CountInv
CONSTRAINT CountSize
CONSTRAINT CountSize
CHECK_DEADLOCK FALSE
