SPECIFICATION Spec
CONSTANTS
  Mode = "full"
CONSTRAINT HW
INVARIANT Inv
POSTCONDITION TraceOK
CHECK_DEADLOCK FALSE
