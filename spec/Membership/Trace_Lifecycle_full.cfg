SPECIFICATION Spec
CONSTANTS
  Mode = "full"
  W = 2
CONSTRAINT HW
INVARIANT Inv
POSTCONDITION Accepted
CHECK_DEADLOCK FALSE
