-------------------------- MODULE Trace_Membership --------------------------
(***************************************************************************)
(* Trace specification (engine E2) for the membership / consensus views    *)
(* (C10, C29, C11).  The trace is recorded by                              *)
(* harness/inpkg/kernel/zz_verif_membership_test.go from real kernel.Node  *)
(* objects over real BadgerStores.                                         *)
(*                                                                         *)
(* Event lines (NDJSON):                                                   *)
(*  {"ev":"Reset","gen":[n..],"hist":[rec..]}      new world; genesis node *)
(*        numbers; node.allNodesSortedWithState as loaded by SetupNode     *)
(*  {"ev":"Append","rec":{n,ts,st},"res":r,"hist":[rec..]}   one record    *)
(*        written through storage (WriteTransaction+WriteSnapshot) and     *)
(*        LoadConsensusNodes; hist = the node's list afterwards            *)
(*  {"ev":"C10","t":..,"kind":..,"chain":n,"thr":..,"keys":[n..],"res":r,  *)
(*   "certres":r,"final":b}                                                *)
(*        real ConsensusThreshold(t,true) and ConsensusKeys(round,t);      *)
(*        final = real verifyFinalization of a certificate signed by ALL   *)
(*        keys of that key set                                             *)
(*  {"ev":"C29", ...}  {"ev":"C11", ...}   see below                       *)
(*                                                                         *)
(* State: G (genesis set), H (the history as Membership.tla sees it), C     *)
(* (custodian update ticks), memo (C11: answers already given for a        *)
(* timestamp).                                                             *)
(*                                                                         *)
(* Mode "full": every observation equals the view Membership.tla computes. *)
(* Mode "C10" / "C29" / "C11": only what the property states.              *)
(***************************************************************************)
EXTENDS TraceLib, Membership

CONSTANTS Mode,       \* "full" | "C10" | "C29" | "C11"
          KnownIds    \* ids of the known findings listed in known_findings.json

VARIABLES l, G, H, C, memo
vars == <<l, G, H, C, memo>>

Ev == Trace[l]
IsEvent(name) == l <= TraceLen /\ Ev.ev = name /\ l' = l + 1

Restrict(f, S) == [x \in S |-> f[x]]
Rec(r) == [n |-> r.n, ts |-> r.ts, st |-> r.st]
RecSeq(s) == [i \in 1..Len(s) |-> Rec(s[i])]
\* memo.m[t] / memo.c[t]: the membership / custodian answer already given for timestamp t
NoMemo == [m |-> <<>>, c |-> <<>>]

Init == l = 1 /\ G = {} /\ H = <<>> /\ C = <<0>> /\ memo = NoMemo

Reset ==
    /\ IsEvent("Reset")
    /\ G' = SeqToSet(Ev.gen)
    /\ H' = GenesisHist(SeqToSet(Ev.gen))
    /\ (Mode = "full" => RecSeq(Ev.hist) = H')
    /\ C' = <<0>>
    /\ memo' = NoMemo

\* A record reaches the ledger only when storage accepted it.  In full mode the list the node
\* loaded afterwards must be the specification's history.
AppendRec ==
    /\ IsEvent("Append")
    /\ H' = IF Ev.res = "ok" THEN InsertRec(H, Rec(Ev.rec)) ELSE H
    /\ (Mode = "full" => RecSeq(Ev.hist) = H')
    \* answers for timestamps after the record may change; answers for t <= rec.ts must not
    /\ memo' = IF Ev.res = "ok" THEN [memo EXCEPT !.m = Restrict(memo.m, {t \in DOMAIN memo.m : t <= Ev.rec.ts})] ELSE memo
    /\ UNCHANGED <<G, C>>

(******************************** C10 ***********************************)
\* Known finding C10-1 (DESIGN.md D4): round 0 of a pledging chain.  ConsensusKeys appends the
\* pledging node to the ready nodes while ConsensusThreshold(t, true) is computed on a base that
\* ignores it.  Signature: kind = pledging-round0, the last key is the chain's own node, and the
\* threshold is exactly the one of the key set without that node (at least 7 nodes).
KnownFinding_C10_1(e) ==
    /\ "C10-1" \in KnownIds
    /\ e.kind = "pledging-round0"
    /\ LET k == Len(e.keys) IN
         /\ k - 1 >= MinNodes
         /\ e.keys[k] = e.chain
         /\ e.thr = ThresholdOf(k - 1)
    /\ PrintT(<<"KNOWN-FINDING", "C10-1", "line", l, "keys", Len(e.keys), "thr", e.thr>>)

\* L == NodesAt(H, e.t), rm == RemovingAt(H, e.t)
C10Monitor(e, L, rm) ==
    e.res = "ok" =>
      LET k == Len(e.keys) IN
      /\ (IF QuorumIntersection(e.thr, k) THEN TRUE ELSE KnownFinding_C10_1(e))
      /\ (BaseL(L, rm, G, e.t, TRUE) < MinNodes => NoCertificatePossible(e.thr, k))
      \* ... also through verification: a certificate signed by EVERY key of the key set, passed to
      \* the real verifyFinalization, is not final when the base is below the minimum
      /\ (BaseL(L, rm, G, e.t, TRUE) < MinNodes => ~Get(e, "final", FALSE))
      \* "two": a certificate of m signers verified on one node under the non-final threshold (the
      \* aggregator's check) and the final one, in both orders.  The final verdict does not depend on
      \* what was verified before, needs the final threshold, and is never given below the minimum.
      /\ (Has(e, "two") =>
            /\ e.two.finalA = e.two.finalB
            /\ ((e.two.finalA \/ e.two.finalB) => e.two.m >= e.thr)
            /\ (BaseL(L, rm, G, e.t, TRUE) < MinNodes => (~e.two.finalA /\ ~e.two.finalB)))

C10Full(e, L, rm) ==
    /\ e.res = "ok"
    /\ e.thr = ThresholdL(L, rm, G, e.t, TRUE)
    /\ e.keys = KeysL(L, rm, G, e.t, e.kind, e.chain)
    /\ (e.kind = "pledging-round0" => e.ispledging)
    \* the certificate signed by all keys verifies exactly when the threshold is reachable
    /\ (Has(e, "final") =>
          /\ e.certres = (IF Len(e.keys) > 0 THEN "ok" ELSE "err")
          /\ e.final = (Len(e.keys) > 0 /\ e.thr <= Len(e.keys)))
    /\ LET thrN == ThresholdL(L, rm, G, e.t, FALSE)  k == Len(e.keys)  mm == IF thrN < e.thr THEN thrN ELSE e.thr IN
         IF thrN # e.thr /\ mm <= k /\ mm >= 1
         THEN /\ Has(e, "two")
              /\ e.two.m = mm /\ e.two.thrN = thrN
              /\ e.two.finalA = (mm >= e.thr) /\ e.two.finalB = (mm >= e.thr)
              /\ e.two.nfA = (mm >= thrN) /\ e.two.nfB = (mm >= thrN)
         ELSE ~Has(e, "two")

C10 ==
    /\ IsEvent("C10")
    /\ LET L == NodesAt(H, Ev.t)  rm == RemovingAt(H, Ev.t) IN
         /\ (Mode = "full" => C10Full(Ev, L, rm))
         /\ (Mode \in {"full", "C10"} => C10Monitor(Ev, L, rm))
    /\ UNCHANGED <<G, H, C, memo>>

\* {"ev":"Legacy","gen":[n..],"rm":{n,ts,st},"t":..,"m":..,"klegacy":..,"kcur":..,"final":b}
\* mainnet id before the signer-set fork: a certificate signed by the first m keys of the key vector
\* from before the operation window (klegacy keys), verified by a node that already knows the removal
\* (kcur keys).  verifyFinalization falls back to the legacy key set; the threshold it applies there
\* must keep the quorum intersection on THAT key set.
LegacyT(t) == t - (Hour(t) + 1 - AcceptBegin) * THour
LegacyMonitor(e) == (e.res = "ok" /\ e.final) => QuorumIntersection(e.m, e.klegacy)
LegacyFull(e) ==
    LET GG == SeqToSet(e.gen)
        HH == InsertRec(GenesisHist(GG), Rec(e.rm))
        lt == LegacyT(e.t)
    IN  /\ e.res = "ok"
        /\ e.klegacy = Len(Keys(HH, GG, lt, "ordinary", 0))
        /\ e.kcur = Len(Keys(HH, GG, e.t, "ordinary", 0))
        /\ e.final = (e.m >= Threshold(HH, GG, lt, TRUE))
LegacyEv ==
    /\ IsEvent("Legacy")
    /\ (Mode = "full" => LegacyFull(Ev))
    /\ (Mode \in {"full", "C10"} => LegacyMonitor(Ev))
    /\ UNCHANGED <<G, H, C, memo>>

(******************************** C29 ***********************************)
\* {"ev":"Elect","t":..,"res":[r per replica],"elect":[[node per operation] per replica],
\*  "rm":[{res,cand,self} per replica],"rm0":{res,cand,self},"n":accepted count}
\* operations, in the order the harness asks: mint, pledge, remove, custodian update, custodian
\* slash, and node accept (not an elected operation: the code answers "nobody" = 0)
OpOrder == <<OpMint, OpPledge, OpRemove, OpCustodianUpdate, OpCustodianSlash, 7>>

RmMatches(r, rc) == r.res = (IF rc.ok THEN "ok" ELSE "err") /\ r.cand = rc.cand

ElectMonitor(e) ==
    LET R == 1..Len(e.res) IN
    \* the same answer on every independently constructed node
    /\ \A i, j \in R : e.res[i] = e.res[j] /\ e.elect[i] = e.elect[j] /\ e.rm[i] = e.rm[j]
    /\ \A i \in R :
         /\ (e.res[i] = "ok" /\ ElectDefined(H, e.t)) =>
               \A k \in 1..5 : e.elect[i][k] # Oldest(H, e.t) /\ e.elect[i][k] # Newest(H, e.t)
         \* never elected to propose its own removal; removal only inside the window
         /\ e.rm[i].res = "ok" => (e.rm[i].cand # e.rm[i].self /\ InAcceptWindow(e.t))
         /\ (e.res[i] = "ok" /\ e.rm0.res = "ok") => e.elect[i][3] # e.rm0.cand
    /\ e.rm0.res = "ok" => InAcceptWindow(e.t)

ElectFull(e) ==
    LET R == 1..Len(e.res)  def == ElectDefined(H, e.t) IN
    /\ \A i \in R :
         /\ e.res[i] = (IF def THEN "ok" ELSE "panic")
         /\ def => e.elect[i] = [k \in 1..6 |-> Elect(H, OpOrder[k], e.t)]
         /\ RmMatches(e.rm[i], RemoveCheck(H, e.t, e.rm[i].self))
    /\ RmMatches(e.rm0, RemoveCheck(H, e.t, NoNode))
    /\ e.n = Len(AcceptedAt(H, e.t))

ElectEv ==
    /\ IsEvent("Elect")
    /\ (Mode = "full" => ElectFull(Ev))
    /\ (Mode \in {"full", "C29"} => ElectMonitor(Ev))
    /\ UNCHANGED <<G, H, C, memo>>

\* {"ev":"Hours","t":..,"accept":b,"pledge":b}: the two window functions themselves
HoursEv ==
    /\ IsEvent("Hours")
    /\ (Mode = "full" => (Ev.accept = InAcceptWindow(Ev.t) /\ Ev.pledge = InPledgeWindow(Ev.t)))
    /\ UNCHANGED <<G, H, C, memo>>

\* {"ev":"Valid","t":..,"pledge":r,"remove":r,"cancel":r,"accept":r,"removed":n,"by_remove":n,...}
\* snapshot-level validators of the four operations: accepted only inside their windows
ValidMonitor(e) ==
    /\ e.pledge = "ok" => InPledgeWindow(e.t)
    /\ e.remove = "ok" => (InAcceptWindow(e.t) /\ e.removed # e.by_remove)
    /\ e.cancel = "ok" => InAcceptWindow(e.t)
    /\ e.accept = "ok" => InAcceptWindow(e.t)
    \* "acceptm": the accept check repeated on every node while the local clock stands at t + off hours
    \* (kernel clock mock), finalized false / true: the answer depends on the snapshot timestamp only
    /\ LET M == Get(e, "acceptm", <<>>) IN
         \A i \in 1..Len(M) :
           /\ \A r \in 1..Len(M[i].res) : M[i].res[r] = "ok" => InAcceptWindow(e.t)
           /\ \A j \in 1..Len(M) : M[j].fin = M[i].fin =>
                 \A r \in 1..Len(M[i].res), q \in 1..Len(M[j].res) : M[i].res[r] = M[j].res[q]

ValidFull(e) ==
    LET def == ElectDefined(H, e.t)  pp == PledgePeriodValid(H, e.t)  pn == PledgingAt(H, e.t) IN
    /\ e.electres = (IF def THEN "ok" ELSE "panic")
    /\ e.by_pledge = (IF def THEN Elect(H, OpPledge, e.t) ELSE 0)
    /\ e.by_remove = (IF def THEN Elect(H, OpRemove, e.t) ELSE 0)
    /\ e.pledge = (IF ~def THEN "panic" ELSE IF PledgeValid(H, e.t) THEN "ok" ELSE "err")
    /\ e.remove = (IF RemoveCheck(H, e.t, e.by_remove).ok THEN "ok" ELSE "err")
    /\ (e.remove = "ok" => e.removed = RemoveCandidate(H, e.t))
    /\ e.pledging = pn
    /\ e.cancel = (IF pn = NoNode THEN "na" ELSE IF pp THEN "ok" ELSE "err")
    /\ e.accept = (IF pn = NoNode THEN "na" ELSE IF pp THEN "ok" ELSE "err")
    /\ LET M == Get(e, "acceptm", <<>>) IN
         \A i \in 1..Len(M) : \A r \in 1..Len(M[i].res) : M[i].res[r] = (IF pp THEN "ok" ELSE "err")

ValidEv ==
    /\ IsEvent("Valid")
    /\ (Mode = "full" => ValidFull(Ev))
    /\ (Mode \in {"full", "C29"} => ValidMonitor(Ev))
    /\ UNCHANGED <<G, H, C, memo>>

(******************************** C11 ***********************************)
\* {"ev":"Cust","ts":..,"k":..,"res":r}: custodian update k written at tick ts
CustEv ==
    /\ IsEvent("Cust")
    /\ C' = IF Ev.res = "ok" THEN Append(C, Ev.ts) ELSE C
    /\ (Mode = "full" => (Ev.res = "ok" /\ Ev.k = Len(C)))
    \* an update at ts is visible from t = ts on
    /\ memo' = IF Ev.res = "ok" THEN [memo EXCEPT !.c = Restrict(memo.c, {t \in DOMAIN memo.c : t < Ev.ts})] ELSE memo
    /\ UNCHANGED <<G, H>>

\* {"ev":"Views","t":..,"cold":b,"res":r,"view":{list,acc,keys,thrF,thrN,pledging,electres,elect},
\*  "custres":r,"cust":{k,ts,nodes}}: everything the node reports for timestamp t; cold = after a
\* restart (new store object, new Node, empty caches)
NormView(v) == [list |-> [i \in 1..Len(v.list) |-> [n |-> v.list[i].n, st |-> v.list[i].st, ci |-> v.list[i].ci]],
                acc |-> v.acc, keys |-> v.keys, thrF |-> v.thrF, thrN |-> v.thrN, pledging |-> v.pledging,
                electres |-> v.electres, elect |-> v.elect]
NormCust(e) == [res |-> e.custres, k |-> e.cust.k, ts |-> e.cust.ts, nodes |-> e.cust.nodes]

ViewsFull(e) ==
    /\ e.res = "ok" /\ e.custres = "ok"
    /\ NormView(e.view) = ViewOf(H, G, e.t)
    /\ LET k == CustodianAt(C, e.t) IN
         e.cust.k = k /\ (k > 0 => (e.cust.ts = C[k] /\ e.cust.nodes = 7))
    /\ (Has(e, "reread") =>
          /\ e.rereadres = "ok" /\ Len(e.reread) = 2 /\ Len(e.relist) = 2
          /\ \A p \in 1..2 : /\ Len(e.relist[p]) = Len(C)
                               /\ \A i \in 1..Len(C) : e.relist[p][i].k = i /\ e.relist[p][i].ts = C[i] /\ e.relist[p][i].nodes = 7)

\* C11: the answer for t is the answer given before (whatever was appended after t, in whatever
\* order the questions came, warm or cold)
ViewsMonitor(e) ==
    /\ (e.t \in DOMAIN memo.m => <<e.res, NormView(e.view)>> = memo.m[e.t])
    /\ (e.t \in DOMAIN memo.c => NormCust(e) = memo.c[e.t])
    \* served from the cache or not, the custodian and the timestamp reported belong to one update
    /\ ((e.custres = "ok" /\ e.cust.k >= 1 /\ e.cust.k <= Len(C)) => e.cust.ts = C[e.cust.k])
    \* "reread" / "relist": the harness scribbles over every custodian answer it got (ReadCustodian and
    \* ListCustodianUpdates) and asks again: the repeated answers, served from the in-memory cache, are
    \* the first ones
    /\ (Has(e, "reread") =>
          /\ \A i \in 1..Len(e.reread) :
                /\ e.reread[i].k = e.cust.k /\ e.reread[i].ts = e.cust.ts /\ e.reread[i].nodes = e.cust.nodes
                /\ e.reread[i].sum = e.reread[1].sum
          /\ \A i \in 1..Len(e.relist) : e.relist[i] = e.relist[1])

ViewsEv ==
    /\ IsEvent("Views")
    /\ (Mode = "full" => ViewsFull(Ev))
    /\ (Mode \in {"full", "C11"} => ViewsMonitor(Ev))
    /\ memo' = [m |-> IF Ev.t \in DOMAIN memo.m THEN memo.m ELSE memo.m @@ (Ev.t :> <<Ev.res, NormView(Ev.view)>>),
                c |-> IF Ev.t \in DOMAIN memo.c THEN memo.c ELSE memo.c @@ (Ev.t :> NormCust(Ev))]
    /\ UNCHANGED <<G, H, C>>

Next == Reset \/ AppendRec \/ C10 \/ ElectEv \/ HoursEv \/ ValidEv \/ CustEv \/ ViewsEv \/ LegacyEv

Spec == Init /\ [][Next]_vars

HW == HighWaterOf(l)
TraceOK == TraceAcceptedAt
=============================================================================
