SPECIFICATION Spec
CONSTANTS
  MaxDay = 1500
  HoursChecked = {0, 13, 23}
INVARIANT IndexInv
INVARIANT WindowInv
CHECK_DEADLOCK FALSE
