---------------------------- MODULE MC_CertCache ----------------------------
(* C09, cache model (engine E3): certificates of CertScenario are verified repeatedly, in any *)
(* order, while the membership history advances under them; the memo of cacheVerifyCosi is    *)
(* keyed by the components in Fields.                                                         *)
EXTENDS CertScenario

CONSTANTS Fields,      \* components of the cache key
          MaxQ,        \* number of queries
          SidStages    \* stages at which the circulating certificates were shaped

VARIABLES stage, cache, last, nq
cvars == <<stage, cache, last, nq>>

\* certificates that circulate: shaped at some stage, for the ordinary chain
Sids == { x \in Cases : x.cs = x.qs /\ x.cs \in SidStages /\ x.cv.kind = "ordinary" /\ x.av = "none" }

CInit == stage = 0 /\ cache = {} /\ nq = 0 /\ last = [r |-> FALSE, fresh |-> FALSE, sound |-> TRUE]

Lookup(k) == { e \in cache : e.k = k }

\* alt: the signature bytes of x are submitted under the altered mask (one signer bit swapped)
Query(x, alt) ==
    LET q0 == QueryOf(x, StageHist(stage))
        q == IF alt THEN [q0 EXCEPT !.mask = AltQ(x).mask] ELSE q0
        k == CacheKey(q, Fields)
        hit == Lookup(k)
        fresh == FullVerify(q, KeysOf(q), ThrOf(q))
        r == IF ~PreCheck(q) THEN FALSE
             ELSE IF hit # {} THEN (CHOOSE e \in hit : TRUE).r ELSE fresh
    IN /\ nq < MaxQ /\ x.cs <= stage
       /\ nq' = nq + 1
       /\ cache' = IF PreCheck(q) /\ hit = {} THEN cache \cup {[k |-> k, r |-> fresh]} ELSE cache
       /\ last' = [r |-> r, fresh |-> CodeFinal(q), sound |-> Sound(q, r)]
       /\ UNCHANGED stage

Advance == stage < LastStage /\ stage' = stage + 1 /\ UNCHANGED <<cache, last, nq>>

CNext == Advance \/ \E x \in Sids, alt \in BOOLEAN : Query(x, alt)
CSpec == CInit /\ [][CNext]_cvars

\* a remembered verification result always equals a fresh verification
CacheAgrees == last.r = last.fresh
CacheSound  == last.sound
=============================================================================
