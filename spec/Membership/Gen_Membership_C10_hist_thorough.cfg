SPECIFICATION Spec
CONSTANTS
  Level = "hist-thorough"
  MaxTotal = 50
  MaxV = 0
  MaxRX = 0
  G0s = {12, 25, 47, 48, 49, 50}
  Rs = {2}
  Xs = {1}
  Ms = {3}
  Ys = {0, 1}
CONSTRAINT EmitCase
CHECK_DEADLOCK FALSE
