SPECIFICATION CSpec
CONSTANTS
  Points <- PointsThr
  MaskVs = {"exact"}
  SigVs = {"good", "swap"}
  Pairs = "all"
  Fields = {"msg", "sig", "keys", "thr", "mask"}
  MaxQ = 3
  SidStages = {1, 2}
INVARIANT CacheAgrees
INVARIANT CacheSound
CHECK_DEADLOCK FALSE
