SPECIFICATION CSpec
CONSTANTS
  Points <- PointsKeys
  MaskVs = {"exact"}
  SigVs = {"good", "swap"}
  Pairs = "all"
  Fields = {"msg", "sig", "keys", "thr", "mask"}
  MaxQ = 4
  SidStages = {0, 6}
INVARIANT CacheAgrees
INVARIANT CacheSound
CHECK_DEADLOCK FALSE
