SPECIFICATION Spec
CONSTANTS
  Mode = "full"
  KnownIds = {}
CONSTRAINT HW
POSTCONDITION TraceOK
CHECK_DEADLOCK FALSE
