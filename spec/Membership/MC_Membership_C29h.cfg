SPECIFICATION Spec29
CONSTANTS
  Level = "hist"
  MaxTotal = 50
  MaxV = 0
  MaxRX = 0
  G0s = {7, 8, 9, 31}
  Rs = {1}
  Xs = {1}
  Ms = {1}
  Ys = {0}
  Days = {5, 6, 7, 8, 9, 10, 11, 12, 700, 1499}
INVARIANT C29HistInv
CHECK_DEADLOCK FALSE
