--------------------------- MODULE Trace_Lifecycle ---------------------------
(***************************************************************************)
(* Trace specification for the durable membership automaton (C27, E2).     *)
(*                                                                         *)
(* Event lines (NDJSON) written by harness/inpkg/storage/                  *)
(* zz_verif_lifecycle_test.go from a real BadgerStore:                     *)
(*   {"ev":"Reset","gen":g,"obsok":b,"obs":O}   fresh membership history   *)
(*        with g genesis accepts, and the read-back                        *)
(*   {"ev":"Op","o":{op,sg,py,ts,tx},"res":"ok"|"err"|"panic",             *)
(*        "obsok":b,"obs":O}                                                *)
(*        one membership transaction pushed through WriteTransaction +     *)
(*        WriteSnapshot, the real outcome and the real read-back           *)
(*   O = {"all":    ReadAllNodes(max, true)   in the order returned,       *)
(*        "latest": ReadAllNodes(max, false),                              *)
(*        "now":    ReadAllNodes(timestamp of the operation, false)}       *)
(*        each a list of {"ts","sg","py","st","tx"}                        *)
(*                                                                         *)
(* Mode "full":    the real result class and the real history equal the    *)
(*                 specification's (Lifecycle!Apply), the history is       *)
(*                 returned in key order.                                  *)
(* Mode "monitor": exactly what C27 states (Lifecycle!StepOK): a recorded  *)
(*                 success is a legal pledge / accept / cancel / remove of *)
(*                 the automaton and records exactly that state; anything  *)
(*                 else leaves the history unchanged; the reported latest  *)
(*                 state of every node is its last record.                 *)
(***************************************************************************)
EXTENDS TraceLib, FiniteSets

CONSTANTS Mode, W

SignerT == {"g0", "k1", "k2", "k3"}
PayeeT  == {"p1", "p2"}
RankT   == [s \in SignerT |-> CASE s = "g0" -> 0 [] s = "k1" -> 1 [] s = "k2" -> 2 [] s = "k3" -> 3]

L == INSTANCE Lifecycle WITH Signer <- SignerT, Payee <- PayeeT, Rank <- RankT, WP <- W, WA <- W

VARIABLES l, S
vars == <<l, S>>

Ev == Trace[l]
IsEvent(name) == l <= TraceLen /\ Ev.ev = name /\ l' = l + 1

\* the harness maps real keys / timestamps / hashes back to abstract names; anything it
\* cannot map (a record nobody asked for) gets a name outside these sets
WFRec(r) == r.sg \in SignerT /\ r.py \in PayeeT /\ r.st \in L!States /\ r.ts < 90000 /\ r.tx < 90000
WFObs(O) == /\ \A i \in DOMAIN O.all : WFRec(O.all[i])
            /\ \A i \in DOMAIN O.latest : WFRec(O.latest[i])
            /\ \A i \in DOMAIN O.now : WFRec(O.now[i])

NoDup(seq) == Cardinality(SeqToSet(seq)) = Len(seq)
KeyOrdered(seq) == \A i, j \in DOMAIN seq : i < j => L!Before(seq[i], seq[j])

Cmp(X) == IF Mode = "full" THEN X ELSE L!Strip(X)

\* each node's latest state is the one reported
Reported(O, S2, ts) ==
    /\ NoDup(O.all) /\ NoDup(O.latest) /\ NoDup(O.now)
    /\ Cmp(SeqToSet(O.latest)) = Cmp(L!LatestSet(S2))
    /\ Cmp(SeqToSet(O.now)) = Cmp(L!LatestSet(L!View(S2, ts)))

Genesis(g) ==
    IF g = 0 THEN {}
    ELSE {[ts |-> 0, sg |-> "g0", py |-> "p1", st |-> L!ACCEPTED, tx |-> 0]}

Init == l = 1 /\ S = {}

Reset ==
    /\ IsEvent("Reset")
    /\ Ev.obsok /\ WFObs(Ev.obs)
    /\ S' = SeqToSet(Ev.obs.all)
    /\ S' = Genesis(Ev.gen)
    /\ Reported(Ev.obs, S', 0)

Step ==
    /\ IsEvent("Op")
    /\ Ev.obsok /\ WFObs(Ev.obs)
    /\ LET o  == Ev.o
           S2 == SeqToSet(Ev.obs.all)
       IN /\ IF Mode = "full"
             THEN /\ LET r == L!Apply(S, o) IN r.res = Ev.res /\ r.S = S2
                  /\ KeyOrdered(Ev.obs.all)
             ELSE L!StepOK(S, o, Ev.res = "ok", S2)
          /\ L!KeyUnique(S2)
          /\ Reported(Ev.obs, S2, o.ts)
          /\ S' = S2

Next == Reset \/ Step
Spec == Init /\ [][Next]_vars

HW == HighWaterOf(l)
Accepted == TraceAcceptedAt
Inv == L!KeyUnique(S)
=============================================================================
