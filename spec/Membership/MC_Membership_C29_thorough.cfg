SPECIFICATION Spec
CONSTANTS
  MaxDay = 1500
  HoursChecked = {0,1,2,3,4,5,6,7,8,9,10,11,12,13,14,15,16,17,18,19,20,21,22,23}
INVARIANT IndexInv
INVARIANT WindowInv
CHECK_DEADLOCK FALSE
