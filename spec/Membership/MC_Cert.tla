------------------------------ MODULE MC_Cert ------------------------------
(* C09, table model (engine E3) and case emitter (engine E1): every certificate variant of   *)
(* CertScenario shaped at stage cs and verified at stage qs >= cs.                            *)
EXTENDS CertScenario

\* A state is a seed (stage and timestamp; 78 initial states, so that TLC's workers share the
\* table) or a complete case reached from its seed in one step.
VARIABLE c
IsCase == "mv" \in DOMAIN c
TInit == c \in { [cs |-> cs, t |-> t] : cs \in Stages, t \in Points }
TNext == /\ ~IsCase
         /\ c' \in { x \in Cases : x.cs = c.cs /\ x.t = c.t /\ ValidCase(x) }
TSpec == TInit /\ [][TNext]_c

\* the design-level theorem: what the code accepts is a threshold certificate of the
\* historical key set; (completeness, for the record) nothing else is refused; the key vector
\* names every node once
TTheorem ==
    IsCase =>
        LET q == Q(c)
            K == KeysOf(q)
            thr == ThrOf(q)
            final == CodeFinalWith(q, K, thr)
            cert == CertifiedWith(q, K, thr)
        IN /\ final => cert
           /\ (PreCheck(q) /\ thr > 0 /\ cert) => final
           /\ DistinctSeq(K)
           \* a genuine certificate's signature bytes under a mask with one signer swapped for a
           \* non-signer are not a certificate
           /\ (c.av # "none" /\ final) => (AltQ(c).mask # q.mask /\ ~CodeFinalWith(AltQ(c), K, thr))

\* witnesses (must be violated): accepted certificates exist, also ones that were shaped at an
\* earlier stage and survive / do not survive later records, inside a removal window, and for
\* round 0 of a pledging chain
WitnessFinal      == ~(IsCase /\ CodeFinal(Q(c)))
WitnessStaleFlip  == ~(IsCase /\ c.cs < c.qs /\ CodeFinal(QueryOf(c, StageHist(c.cs))) /\ ~CodeFinal(Q(c)))
WitnessStaleKeeps == ~(IsCase /\ c.cs < c.qs /\ CodeFinal(Q(c)) /\ KeysOf(Q(c)) # KeysOf(QueryOf(c, StageHist(c.cs))))
WitnessRemoving   == ~(IsCase /\ RemovingAt(StageHist(c.qs), c.t) # NoNode /\ CodeFinal(Q(c)))
WitnessPledgeKey  == ~(IsCase /\ c.cv.kind = "pledging-round0" /\ CodeFinal(Q(c)) /\ c.cv.chain \in Q(c).by)

RoleOf(n) == IF n \in G0 THEN [r |-> "g", k |-> Cardinality({g \in G0 : g <= n})]
             ELSE [r |-> "x", k |-> Cardinality({x \in Members \ G0 : x <= n})]

EmitCase ==
    ~IsCase \/
    LET q == Q(c)
        ms == q.mask
    IN PrintT("CASE " \o ToJson(
        [cs |-> c.cs, qs |-> c.qs, t |-> c.t, kind |-> q.kind, chain |-> RoleOf(q.chain),
         mv |-> c.mv, sv |-> c.sv, ver |-> q.ver, msg |-> q.msg, tamper |-> q.tamper,
         mask |-> [i \in 1..64 |-> (i - 1) \in ms],
         av |-> c.av,
         altmask |-> [i \in 1..64 |-> (i - 1) \in AltQ(c).mask],
         by |-> [n \in Members |-> n \in q.by],
         roles |-> [n \in Members |-> RoleOf(n)],
         arr |-> IF c.qs = 0 THEN <<>> ELSE <<[node |-> RoleOf(Recs[c.qs].n), ts |-> Recs[c.qs].ts, st |-> Recs[c.qs].st]>>,
         final |-> CodeFinal(q)]))
=============================================================================
