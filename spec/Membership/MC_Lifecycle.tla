---------------------------- MODULE MC_Lifecycle ----------------------------
(* Bounded exhaustive model of the durable membership automaton (engine E3) *)
(* and the edge emitter for the replayer (engine E1).  Property C27.        *)
EXTENDS Lifecycle, Json

CONSTANTS
    Time,       \* timestamps operations may carry
    Gen,        \* number of genesis nodes in the initial state (0 or 1)
    MaxRec,     \* bound on the number of records (history length)
    Mono,       \* TRUE: strictly increasing timestamps
    SignerSet   \* signer keys of this configuration (subset of g0,k1,k2,k3)

VARIABLES S, last
vars == <<S, last>>

SignerMC == SignerSet
PayeeMC  == {"p1", "p2"}
RankMC   == [s \in SignerMC |-> CASE s = "g0" -> 0 [] s = "k1" -> 1 [] s = "k2" -> 2 [] s = "k3" -> 3]

GenesisSigners == IF Gen = 0 THEN {} ELSE {"g0"}
GenesisState ==
    { [ts |-> 0, sg |-> s, py |-> "p1", st |-> ACCEPTED, tx |-> 0] : s \in GenesisSigners }

Ops == [op : {"Pledge", "Accept", "Cancel", "Remove"}, sg : Signer, py : Payee, ts : Time, tx : {0}]

MaxTs(X) == IF X = {} THEN 0 ELSE (CHOOSE r \in X : \A q \in X : q.ts <= r.ts).ts

Init == S = GenesisState /\ last = [o |-> [op |-> "Init"], res |-> "ok"]

Next == \E o \in Ops :
          /\ Mono => (S = {} \/ o.ts > MaxTs(S))
          /\ LET r == Apply(S, o) IN
               /\ S' = r.S
               /\ last' = [o |-> o, res |-> r.res]

Spec == Init /\ [][Next]_vars

View0 == S
Bound == Cardinality(S) <= MaxRec

(* ---- properties that hold for every order of timestamps ---------------- *)
TypeInv == KeyUnique(S)
StepProp == [][StepOK(S, last'.o, last'.res = "ok", S')]_vars

(* ---- properties that need strictly increasing timestamps (Mono) -------- *)
MonoInv == OnePledging(S) /\ SignerPath(S, GenesisSigners)
\* the state an accepted operation records is the signer's reported (latest) state
LatestReported ==
    [][last'.res = "ok" => Latest(S', last'.o.sg).st = StateOf(last'.o.op)]_vars

(* ---- witnesses (each must be VIOLATED = reachable) --------------------- *)
\* without Mono the global invariants are not theorems of the storage automaton
WitnessTwoPledging == OnePledging(S)
WitnessPath        == SignerPath(S, GenesisSigners)
\* a full lifecycle is reachable: some node removed after having been pledged and accepted
WitnessFullCycle ==
    ~(\E r \in S : r.st = REMOVED /\ r.sg \notin GenesisSigners
                   /\ \E a \in S : a.sg = r.sg /\ a.st = ACCEPTED
                   /\ \E p \in S : p.sg = r.sg /\ p.st = PLEDGING)
WitnessCancel == ~(\E r \in S : r.st = CANCELLED)
\* (action property: the VIEW hides  last , so it cannot be a state invariant)
WitnessPanic  == [][last'.res # "panic"]_vars

(* ---- emission ----------------------------------------------------------- *)
RECURSIVE SortRecs(_)
SortRecs(X) ==
    IF X = {} THEN <<>>
    ELSE LET m == CHOOSE r \in X : \A q \in X \ {r} : Before(r, q)
         IN <<m>> \o SortRecs(X \ {m})

Emit == PrintT("EDGE " \o ToJson([from |-> SortRecs(S), o |-> last'.o, res |-> last'.res, to |-> SortRecs(S')]))
=============================================================================
