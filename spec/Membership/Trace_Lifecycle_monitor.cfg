SPECIFICATION Spec
CONSTANTS
  Mode = "monitor"
  W = 2
CONSTRAINT HW
INVARIANT Inv
POSTCONDITION Accepted
CHECK_DEADLOCK FALSE
