SPECIFICATION TSpec
CONSTANTS
  Points <- PointsFew
  MaskVs = {"exact", "minus", "plus", "top", "oob", "bit63", "all", "empty"}
  SigVs = {"good", "wrongmsg", "swap", "drop", "extra", "tamperR", "tamperS", "oldver"}
  Pairs = "near"
INVARIANT TTheorem
CONSTRAINT EmitCase
CHECK_DEADLOCK FALSE
