SPECIFICATION Spec
CONSTANTS
  Level = "hist"
  MaxTotal = 50
  MaxV = 0
  MaxRX = 0
  G0s = {50}
  Rs = {2}
  Xs = {1}
  Ms = {3}
  Ys = {0}
INVARIANT HistInv
CHECK_DEADLOCK FALSE
