------------------------- MODULE MC_Membership_C29h -------------------------
(***************************************************************************)
(* C29 on concretized histories (engines E3 + E1).  Reuses the             *)
(* concretization of MC_Membership_C10 (genesis, early removals, cancelled *)
(* and accepted extras, a fresh or an old pledge) and queries the election, *)
(* the removal candidate and the validity of the four membership           *)
(* operations at day/hour boundary ticks.  Every case is emitted for the   *)
(* Go harness, which builds TWO independent kernel.Node objects per case.  *)
(***************************************************************************)
EXTENDS MC_Membership_C10

CONSTANTS Days        \* days (>= 5) at which the election is queried

C29Cases ==
    { k \in FamilyOf(G0s, {0}, {0}, {0}, {0}) : k.p = "none" /\ ~k.win /\ ~k.rmDone }
    \cup { k \in FamilyOf(G0s, Rs, Xs, Ms, Ys) : ~k.rmDone /\ (k.win => k.p # "none") }

PledgeTs(k) == IF k.p = "fresh" THEN TQ(k) - 1 ELSE IF k.p = "old" THEN TQ(k) - T12h ELSE 0

ElectTicks(k) == { d * TDay + ((7 * d) % 24) * THour + 11 : d \in Days }
HourTicks(k)  == { 6 * TDay + h * THour + o : h \in 0..23, o \in {0, THour - 1} }
ValidTicks(k) ==
    { 6 * TDay + h * THour : h \in 0..23 }
    \cup (IF k.p = "none" THEN {} ELSE { PledgeTs(k) + d : d \in {T12h - 1, T12h, T7d, T7d + 1} })

Init29 == c = Root
Next29 == \/ c = Root /\ \E g \in G0s : c' = [g0 |-> g, m |-> -1]
          \/ DOMAIN c = {"g0", "m"} /\ \E k \in C29Cases : k.g0 = c.g0 /\ c' = k
Spec29 == Init29 /\ [][Next29]_vars

C29HistInv ==
    IsCase =>
      LET H == HistOf(c) IN
      /\ \A t \in ElectTicks(c) :
           ElectDefined(H, t) =>
             \A op \in ElectOps :
               LET e == Elect(H, op, t)  rc == RemoveCheck(H, t, e) IN
               /\ e # Oldest(H, t) /\ e # Newest(H, t)
               /\ \E i \in 1..Len(AcceptedAt(H, t)) : AcceptedAt(H, t)[i].n = e
               /\ (rc.ok => rc.cand # e)
               /\ RemoveCandidate(H, t) # e
      /\ \A t \in ValidTicks(c) :
           /\ (RemoveCheck(H, t, NoNode).ok => InAcceptWindow(t))
           /\ (PledgeValid(H, t) => InPledgeWindow(t))
           /\ (PledgePeriodValid(H, t) => InAcceptWindow(t))

\* non-vacuity witnesses
NoRemovalPossible == ~(IsCase /\ \E t \in ValidTicks(c) : RemoveCheck(HistOf(c), t, NoNode).ok)
NoPledgeValid     == ~(IsCase /\ \E t \in ValidTicks(c) : PledgeValid(HistOf(c), t))
NoPeriodValid     == ~(IsCase /\ \E t \in ValidTicks(c) : PledgePeriodValid(HistOf(c), t))

EmitC29 ==
    IsCase =>
      LET A == AppendsOf(c) IN
      PrintT("CASE " \o ToJson(
        [cfg |-> c, g |-> c.g0, x |-> c.x + c.m + c.y + 1,
         appends |-> [i \in 1..Len(A) |-> [node |-> NodeName(c, A[i].n), ts |-> A[i].ts, st |-> A[i].st]],
         elect |-> ElectTicks(c), hours |-> HourTicks(c), valid |-> ValidTicks(c)]))
=============================================================================
