SPECIFICATION Spec
CONSTANTS
  Signer <- SignerMC
  Payee <- PayeeMC
  Rank <- RankMC
  WP = 2
  WA = 2
  Time = {0,1,2,3}
  Gen = 1
  MaxRec = 2
  Mono = FALSE
  SignerSet = {"g0","k1","k2"}
VIEW View0
CONSTRAINT Bound
INVARIANT TypeInv
PROPERTY StepProp
ACTION_CONSTRAINT Emit
CHECK_DEADLOCK FALSE
