------------------------------ MODULE Lifecycle ------------------------------
(***************************************************************************)
(* Durable membership automaton of Mixin Kernel (property C27).            *)
(*                                                                         *)
(* The durable membership history is the key range NODESTATEQUEUE of the   *)
(* snapshots database: one record per key (timestamp, signer spend key),   *)
(* value (payee spend key, transaction hash, state). It is written only by *)
(*   storage/badger_node.go: writeNodePledge / writeNodeAccept /           *)
(*                           writeNodeCancel / writeNodeRemove             *)
(* which are reached from BadgerStore.WriteSnapshot -> finalizeTransaction *)
(* -> writeUTXO for an output of type NodePledge / NodeAccept / NodeCancel *)
(* / NodeRemove, with signer || payee = the first 64 bytes of the          *)
(* transaction's extra and timestamp = the snapshot's timestamp. The whole *)
(* WriteSnapshot is one Badger transaction: a refused operation (returned  *)
(* error or abort) leaves nothing behind.                                  *)
(*                                                                         *)
(* This module transcribes those four functions as they are, quirks        *)
(* included:                                                               *)
(*  - every function looks at the records whose timestamp is <= the        *)
(*    operation's timestamp + a look-ahead window (12 h for all four; the  *)
(*    code has two constants, pledge period WP and accept period WA);      *)
(*    records further in the future are invisible;                         *)
(*  - accept / cancel inspect only the LAST visible record in key order    *)
(*    (timestamp, then signer key bytes);                                  *)
(*  - remove inspects the last visible record (must not be pledging) and   *)
(*    the signer's latest visible record;                                  *)
(*  - pledge inspects the latest visible record of every signer;           *)
(*  - accept / cancel / remove index the last element of the visible list  *)
(*    without a length check: an empty visible list aborts ("panic");      *)
(*  - a record written at an existing key (same timestamp and signer)      *)
(*    replaces the old record.                                             *)
(* writeNodePledge also refuses a transaction hash equal to the hash in    *)
(* some signer's latest record. WriteSnapshot applies a transaction's      *)
(* outputs only once (finalization record), so through the storage API     *)
(* every operation carries a fresh hash and that branch is unreachable; it *)
(* is not modelled. Genesis accepts (writeNodeAccept with genesis = TRUE)  *)
(* are unconditional and only appear in the initial state.                 *)
(*                                                                         *)
(* Time is abstract: one unit = (12 h) / WA, so "exactly at the window     *)
(* boundary" is representable (ts + W) and so is one unit either side.     *)
(***************************************************************************)
EXTENDS Naturals, Sequences, FiniteSets, TLC

CONSTANTS
    Signer,     \* signer spend keys
    Payee,      \* payee spend keys
    Rank,       \* [Signer -> Nat] byte order of the signer keys (ties at equal timestamps)
    WP,         \* KernelNodePledgePeriodMinimum in time units
    WA          \* KernelNodeAcceptPeriodMinimum in time units

PLEDGING  == "PLEDGING"
ACCEPTED  == "ACCEPTED"
REMOVED   == "REMOVED"
CANCELLED == "CANCELLED"
States == {PLEDGING, ACCEPTED, REMOVED, CANCELLED}

(* A state S of the durable history is a set of records
     [ts, sg, py, st, tx]  with at most one record per (ts, sg).           *)
KeyUnique(S) == \A a, b \in S : (a.ts = b.ts /\ a.sg = b.sg) => a = b

(* readAllNodes(txn, threshold, _): records with timestamp <= threshold    *)
View(S, thr) == { r \in S : r.ts <= thr }

(* key order of the NODESTATEQUEUE range                                   *)
Before(a, b) == a.ts < b.ts \/ (a.ts = b.ts /\ Rank[a.sg] < Rank[b.sg])

(* nodes[len(nodes)-1] of readAllNodes(.., withState = true)               *)
Last(V) == CHOOSE r \in V : \A q \in V \ {r} : Before(q, r)

SignersIn(V) == { r.sg : r \in V }

(* the record a signer ends up with in the filter map of readAllNodes(..,  *)
(* withState = false), and the one writeNodeRemove's loop ends up with     *)
Latest(V, s) == CHOOSE r \in V : r.sg = s /\ \A q \in V : q.sg = s => q.ts <= r.ts

(* readAllNodes(.., withState = false) as a set                            *)
LatestSet(V) == { Latest(V, s) : s \in SignersIn(V) }

(* txn.Set(nodeStateQueueKey(signer, ts), value)                           *)
Put(S, rec) == { r \in S : ~(r.ts = rec.ts /\ r.sg = rec.sg) } \cup {rec}

StateOf(op) ==
    CASE op = "Pledge" -> PLEDGING
      [] op = "Accept" -> ACCEPTED
      [] op = "Cancel" -> CANCELLED
      [] op = "Remove" -> REMOVED

(* operation record: [op, sg, py, ts, tx]                                  *)
NewRec(o) == [ts |-> o.ts, sg |-> o.sg, py |-> o.py, st |-> StateOf(o.op), tx |-> o.tx]

(* ---------------------------------------------------------------------- *)
(* The four functions: result class "ok" | "err" | "panic"                 *)

PledgeRes(S, o) ==
    LET V == View(S, o.ts + WP) IN
    IF \E r \in LatestSet(V) : r.st = PLEDGING THEN "err"
    ELSE IF o.sg \in SignersIn(V) THEN "err"
    ELSE "ok"

AcceptCancelRes(S, o) ==
    LET V == View(S, o.ts + WA) IN
    IF V = {} THEN "panic"
    ELSE LET last == Last(V) IN
         IF last.st # PLEDGING THEN "err"
         ELSE IF last.sg # o.sg \/ last.py # o.py THEN "err"
         ELSE "ok"

RemoveRes(S, o) ==
    LET V == View(S, o.ts + WA) IN
    IF V = {} THEN "panic"
    ELSE IF Last(V).st = PLEDGING THEN "err"
    ELSE IF o.sg \notin SignersIn(V) THEN "err"
    ELSE LET node == Latest(V, o.sg) IN
         IF node.py # o.py THEN "err"
         ELSE IF node.st # ACCEPTED THEN "err"
         ELSE "ok"

Res(S, o) ==
    CASE o.op = "Pledge" -> PledgeRes(S, o)
      [] o.op = "Accept" -> AcceptCancelRes(S, o)
      [] o.op = "Cancel" -> AcceptCancelRes(S, o)
      [] o.op = "Remove" -> RemoveRes(S, o)

(* WriteSnapshot of a single membership transaction: all or nothing        *)
Apply(S, o) ==
    LET r == Res(S, o) IN
    [res |-> r, S |-> IF r = "ok" THEN Put(S, NewRec(o)) ELSE S]

(* ---------------------------------------------------------------------- *)
(* What C27 states, as a predicate over one recorded step                  *)
(* (pre-state S, operation o, success flag, post-state S2).                *)
(* "currently" = in the view the code consults: the operation's timestamp  *)
(* plus the look-ahead window. Soundness only: a refused legal operation   *)
(* is not a violation; a refused operation must not change the history.    *)

\* a pledge is recorded only for a new signer while nobody is pledging
PledgeLegal(S, o) ==
    LET V == View(S, o.ts + WP) IN
    /\ \A r \in LatestSet(V) : r.st # PLEDGING
    /\ o.sg \notin SignersIn(V)

\* accept / cancel only the currently pledging node, with matching keys
AcceptCancelLegal(S, o) ==
    LET V == View(S, o.ts + WA) IN
    /\ V # {}
    /\ Last(V).st = PLEDGING /\ Last(V).sg = o.sg /\ Last(V).py = o.py

\* remove only a currently accepted node, with matching keys
RemoveLegal(S, o) ==
    LET V == View(S, o.ts + WA) IN
    /\ o.sg \in SignersIn(V)
    /\ Latest(V, o.sg).st = ACCEPTED /\ Latest(V, o.sg).py = o.py

Legal(S, o) ==
    CASE o.op = "Pledge" -> PledgeLegal(S, o)
      [] o.op = "Accept" -> AcceptCancelLegal(S, o)
      [] o.op = "Cancel" -> AcceptCancelLegal(S, o)
      [] o.op = "Remove" -> RemoveLegal(S, o)

Strip(S) == { [ts |-> r.ts, sg |-> r.sg, py |-> r.py, st |-> r.st] : r \in S }

StepOK(S, o, ok, S2) ==
    /\ ok  => Legal(S, o) /\ Strip(S2) = Strip(Put(S, NewRec(o)))
    /\ ~ok => Strip(S2) = Strip(S)

(* ---------------------------------------------------------------------- *)
(* Global lifecycle invariants. They are theorems of the automaton only    *)
(* when operations arrive with strictly increasing timestamps (which the   *)
(* serialized consensus chain guarantees, property C28): see MC_Lifecycle. *)

\* at most one node is pledging
OnePledging(S) == Cardinality({ r \in LatestSet(S) : r.st = PLEDGING }) <= 1

RecsOf(S, s) == { r \in S : r.sg = s }
NextRec(S, r) ==       \* the signer's next record after r, if any
    { q \in RecsOf(S, r.sg) : q.ts > r.ts /\ \A x \in RecsOf(S, r.sg) : x.ts > r.ts => q.ts <= x.ts }

\* every signer key walks  PLEDGING -> ACCEPTED -> REMOVED  or  PLEDGING ->
\* CANCELLED  (genesis signers start at ACCEPTED), always with one payee:
\* a signer key is never reused by another node
SignerPath(S, GenesisSigners) ==
    \A s \in SignersIn(S) :
        LET R == RecsOf(S, s)
            first == CHOOSE r \in R : \A q \in R : r.ts <= q.ts IN
        /\ first.st = (IF s \in GenesisSigners THEN ACCEPTED ELSE PLEDGING)
        /\ \A r \in R : r.py = first.py
        /\ \A r \in R : \A q \in NextRec(S, r) :
              \/ r.st = PLEDGING /\ q.st \in {ACCEPTED, CANCELLED}
              \/ r.st = ACCEPTED /\ q.st = REMOVED
=============================================================================
