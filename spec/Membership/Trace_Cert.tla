----------------------------- MODULE Trace_Cert -----------------------------
(***************************************************************************)
(* Trace specification for finalization certificates (C09, engine E2).     *)
(*                                                                         *)
(* Event lines (NDJSON) written by harness/inpkg/kernel/                   *)
(* zz_verif_cert_test.go from a real kernel.Node over a real store:        *)
(*   {"ev":"Reset","gen":[n..],"hist":[{n,ts,st}..]}    new world          *)
(*   {"ev":"Append","rec":{..},"res":..,"hist":[..]}    a membership record *)
(*        was pushed through the store; hist = ReadAllNodes afterwards     *)
(*   {"ev":"Query","t":tick,"chain":n,"round":r,"ispledging":b,            *)
(*        "ver","mask":[bits],"by":[n..],"msg","tamper","sid",             *)
(*        "r1","r2","r3": "final"|"no"|"panic"   verifyFinalization as is, *)
(*                         again (memo hit), and with an empty memo        *)
(*        "s1","s2","s3": signers returned, "keys","thr": the real view}   *)
(*                                                                         *)
(* Mode "full":    the three answers, the signers, the key vector and the  *)
(*                 threshold equal the specification's (Cert!CodeFinal..). *)
(* Mode "monitor": exactly what C09 states: an answer "final" implies      *)
(*                 Cert!Certified for the historical key set of the        *)
(*                 recorded membership history; remembered = fresh.        *)
(***************************************************************************)
EXTENDS TraceLib, Cert

CONSTANTS Mode

VARIABLES l, H, G
vars == <<l, H, G>>

Ev == Trace[l]
IsEvent(name) == l <= TraceLen /\ Ev.ev = name /\ l' = l + 1

HistOf(seq) == SortHist({[n |-> seq[i].n, ts |-> seq[i].ts, st |-> seq[i].st] : i \in DOMAIN seq})

Init == l = 1 /\ H = <<>> /\ G = {}

ResetW ==
    /\ IsEvent("Reset")
    /\ G' = SeqToSet(Ev.gen)
    /\ H' = HistOf(Ev.hist)

AppendRec ==
    /\ IsEvent("Append")
    /\ H' = HistOf(Ev.hist)
    /\ UNCHANGED G

QueryRec(e) ==
    [H |-> H, G |-> G, t |-> e.t,
     kind |-> IF e.ispledging /\ e.round = 0 THEN "pledging-round0" ELSE "ordinary",
     chain |-> e.chain, ver |-> e.ver, mask |-> SeqToSet(e.mask), by |-> SeqToSet(e.by),
     msg |-> e.msg, tamper |-> e.tamper]

Answer(b) == IF b THEN "final" ELSE "no"

QueryOK(e) ==
    LET q == QueryRec(e)
        K == KeysOf(q)
        thr == ThrOf(q)
    IN IF Mode = "full"
       THEN LET f == CodeFinalWith(q, K, thr)
                sg == IF f THEN CodeSigners(q) ELSE <<>>
            IN /\ e.r1 = Answer(f) /\ e.r2 = Answer(f) /\ e.r3 = Answer(f)
               /\ e.s1 = sg /\ e.s2 = sg /\ e.s3 = sg
               /\ e.keys = K /\ e.thr = thr
       ELSE /\ ("final" \in {e.r1, e.r2, e.r3}) => CertifiedWith(q, K, thr)
            /\ (e.r1 = "final") = (e.r3 = "final")
            /\ (e.r2 = "final") = (e.r3 = "final")

QueryEv ==
    /\ IsEvent("Query")
    /\ QueryOK(Ev)
    /\ UNCHANGED <<H, G>>

Next == ResetW \/ AppendRec \/ QueryEv
Spec == Init /\ [][Next]_vars

HW == HighWaterOf(l)
TraceOK == TraceAcceptedAt
Inv == IsSortedHist(H)
=============================================================================
