SPECIFICATION TSpec
CONSTANTS
  Points <- PointsAll
  MaskVs = {"exact", "minus", "plus", "top", "oob", "bit63", "all", "empty"}
  SigVs = {"good", "wrongmsg", "swap", "drop", "extra", "tamperR", "tamperS", "oldver"}
  Pairs = "all"
INVARIANT WitnessRemoving
CHECK_DEADLOCK FALSE
