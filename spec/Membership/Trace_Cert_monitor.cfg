SPECIFICATION Spec
CONSTANTS
  Mode = "monitor"
CONSTRAINT HW
INVARIANT Inv
POSTCONDITION TraceOK
CHECK_DEADLOCK FALSE
