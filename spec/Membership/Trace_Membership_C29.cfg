SPECIFICATION Spec
CONSTANTS
  Mode = "C29"
  KnownIds = {}
CONSTRAINT HW
POSTCONDITION TraceOK
CHECK_DEADLOCK FALSE
