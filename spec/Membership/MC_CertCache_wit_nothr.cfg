SPECIFICATION CSpec
CONSTANTS
  Points <- PointsThr
  MaskVs = {"exact"}
  SigVs = {"good", "swap"}
  Pairs = "all"
  Fields = {"msg", "sig", "keys", "mask"}
  MaxQ = 4
  SidStages = {1}
INVARIANT CacheAgrees
INVARIANT CacheSound
CHECK_DEADLOCK FALSE
