---------------------------- MODULE CertScenario ----------------------------
(***************************************************************************)
(* Bounded exhaustive models for C09 (engine E3) and the case emitter for  *)
(* the harness (engine E1).                                                *)
(*                                                                         *)
(* Scenario (ticks of 10 s; hour 360, day 8640): ten keys ranked 1..10 by *)
(* node id, genesis = {1,2,3,5,6,8,9}, extra x1 = 4, x2 = 7, x3 = 10.      *)
(*   stage 1  4  PLEDGING @ 12240   (day 1, 10:00)                         *)
(*   stage 2  4  ACCEPTED @ 22060   (day 2, 13:00 + 100)                   *)
(*   stage 3  7  PLEDGING @ 29520   (day 3, 10:00)                         *)
(*   stage 4  7  ACCEPTED @ 39340   (day 4, 13:00 + 100)                   *)
(*   stage 5  10 PLEDGING @ 46800   (day 5, 10:00)                         *)
(*   stage 6  10 ACCEPTED @ 56620   (day 6, 13:00 + 100)                   *)
(*   stage 7  1  REMOVED  @ 65163   (day 7, 13:00 + 3: node 1 is the       *)
(*                                   predictable removal of that window;   *)
(*                                   10 -> 9 keys, threshold stays 7)      *)
(* Table model: a case is a certificate shaped against the view of stage   *)
(* cs (mask and signer variants relative to that view's key vector and     *)
(* threshold) and verified at stage qs >= cs (records that arrive later    *)
(* change the historical view under an existing certificate).              *)
(* Cache model: queries repeat in any order while the history advances.    *)
(***************************************************************************)
EXTENDS Cert, Json

CONSTANTS Points,      \* query timestamps
          MaskVs,      \* mask variants
          SigVs,       \* signature variants
          Pairs        \* "all": every cs <= qs; "near": qs in {cs, cs + 1, last stage}

\* query timestamps: before / at / just after the epoch, around every record and its 30 s,
\* 12 h and removal-window boundaries, after the window
PointsAll == {-1, 0, 1, 12241, 22063, 22064, 26380, 26381, 60941, 65159, 65160, 65164, 67680}
PointsFew == {0, 1, 22064, 26381, 65160, 67680}
PointsThr == {22064}      \* threshold moves, key vector does not (stage 1 -> 2)
PointsKeys == {67680}     \* key vector moves, threshold does not (stage 6 -> 7)

G0 == {1, 2, 3, 5, 6, 8, 9}
Members == 1..10
Recs == << [n |-> 4,  ts |-> 12240, st |-> Pledging],
           [n |-> 4,  ts |-> 22060, st |-> Accepted],
           [n |-> 7,  ts |-> 29520, st |-> Pledging],
           [n |-> 7,  ts |-> 39340, st |-> Accepted],
           [n |-> 10, ts |-> 46800, st |-> Pledging],
           [n |-> 10, ts |-> 56620, st |-> Accepted],
           [n |-> 1,  ts |-> 65163, st |-> Removed] >>
LastStage == Len(Recs)
Stages == 0..LastStage

GenesisRecs == {[n |-> g, ts |-> 0, st |-> Accepted] : g \in G0}
StageHists == [s \in Stages |-> SortHist(GenesisRecs \cup {Recs[i] : i \in 1..s})]   \* evaluated once
StageHist(s) == StageHists[s]

\* chain variants of a stage: the chain of genesis node 2 (has round state: ordinary), and
\* round 0 of the chain of the node that is pledging at that stage (no round state yet)
PledgerOf(s) == IF s \in {1, 3, 5} THEN Recs[s].n ELSE NoNode
ChainVs(s) == {[kind |-> "ordinary", chain |-> 2]}
              \cup (IF PledgerOf(s) # NoNode THEN {[kind |-> "pledging-round0", chain |-> PledgerOf(s)]} ELSE {})

(* ---- shaping a certificate against a view ------------------------------ *)
Min(a, b) == IF a < b THEN a ELSE b
SetMax(S) == CHOOSE x \in S : \A y \in S : y <= x
SetMin(S) == CHOOSE x \in S : \A y \in S : x <= y

MaskOf(v, n, thr) ==
    LET m == Min(thr, n) IN
    CASE v = "exact" -> 0..(m - 1)
      [] v = "minus" -> 0..(m - 2)
      [] v = "plus"  -> 0..Min(m, n - 1)
      [] v = "top"   -> (n - m)..(n - 1)
      [] v = "oob"   -> (0..(m - 2)) \cup {n}
      [] v = "bit63" -> (0..(m - 2)) \cup {63}
      [] v = "all"   -> 0..(n - 1)
      [] v = "empty" -> {}

\* an honest aggregate for a mask over key vector K: the masked keys; a bit outside the
\* vector is backed by some member that is not in the vector
Honest(mask, K) ==
    LET inK == { K[i + 1] : i \in { j \in mask : j < Len(K) } }
        out == Members \ { K[i] : i \in 1..Len(K) }
    IN  IF (\E j \in mask : j >= Len(K)) /\ out # {} THEN inK \cup {SetMin(out)} ELSE inK

SigOf(v, mask, K) ==
    LET B == Honest(mask, K)
        spare == Members \ B
        good == [by |-> B, msg |-> "hash", tamper |-> "none", ver |-> "v2"]
    IN  CASE v = "good"     -> good
          [] v = "wrongmsg" -> [good EXCEPT !.msg = "other"]
          [] v = "swap"     -> IF B = {} \/ spare = {} THEN good
                               ELSE [good EXCEPT !.by = (B \ {SetMax(B)}) \cup {SetMax(spare)}]
          [] v = "drop"     -> IF B = {} THEN good ELSE [good EXCEPT !.by = B \ {SetMax(B)}]
          [] v = "extra"    -> IF spare = {} THEN good ELSE [good EXCEPT !.by = B \cup {SetMin(spare)}]
          [] v = "tamperR"  -> [good EXCEPT !.tamper = "R"]
          [] v = "tamperS"  -> [good EXCEPT !.tamper = "S"]
          [] v = "oldver"   -> [good EXCEPT !.ver = "old"]

\* signature variants are only crossed with the masks on which they can make a difference
Combos == { <<m, s>> \in MaskVs \X SigVs : \/ s = "good"
                                            \/ m \in {"exact", "top", "plus"}
                                            \/ (s = "drop" /\ m \in {"oob", "bit63"}) }

\* Two-step cases: the same snapshot hash and the same signature bytes are submitted twice to one
\* node, once with the mask they were made for and once with one signer bit swapped for a
\* non-signer bit (equal popcount): "after" = altered mask after the genuine one, "before" =
\* altered mask first.  "none" = the single submission.
AltVs == {"none", "after", "before"}
AltMask(mask, n) ==
    LET inr  == { i \in mask : i < n }
        free == (0..(n - 1)) \ mask
    IN  IF inr = {} THEN mask
        ELSE (mask \ {SetMax(inr)}) \cup {IF free # {} THEN SetMin(free) ELSE n}

Cases == UNION { { [cs |-> cs, qs |-> qs, t |-> t, cv |-> cv, mv |-> ms[1], sv |-> ms[2], av |-> av] :
                     qs \in Stages, t \in Points, cv \in ChainVs(cs), ms \in Combos, av \in AltVs } : cs \in Stages }

ValidCase(c) == /\ c.cs <= c.qs
                /\ (c.cv.kind = "pledging-round0" => c.qs = c.cs)
                /\ (Pairs = "near" => c.qs \in {c.cs, c.cs + 1, LastStage})
                /\ (c.av # "none" => c.qs = c.cs /\ c.sv = "good" /\ c.mv \in {"exact", "top"})

\* the certificate of case c (shaped at stage cs) as a query against history Hq
QueryOf(c, Hq) ==
    LET Hc   == StageHist(c.cs)
        K    == Keys(Hc, G0, c.t, c.cv.kind, c.cv.chain)
        thr  == Threshold(Hc, G0, c.t, TRUE)
        mask == MaskOf(c.mv, Len(K), thr)
        sg   == SigOf(c.sv, mask, K)
    IN  [H |-> Hq, G |-> G0, t |-> c.t, kind |-> c.cv.kind, chain |-> c.cv.chain, ver |-> sg.ver,
         mask |-> mask, by |-> sg.by, msg |-> sg.msg, tamper |-> sg.tamper,
         sid |-> <<c.cs, c.t, c.cv.chain, c.cv.kind, c.mv, c.sv>>]

Q(c) == QueryOf(c, StageHist(c.qs))

\* the second submission of a two-step case: same signing act, altered mask
AltQ(c) ==
    LET q == Q(c)
        K == Keys(StageHist(c.cs), G0, c.t, c.cv.kind, c.cv.chain)
    IN  [q EXCEPT !.mask = AltMask(q.mask, Len(K))]
=============================================================================
