------------------------------- MODULE Quorum -------------------------------
(***************************************************************************)
(* Unbounded arithmetic core of property C10 (TLAPS, SMT back end).        *)
(* ThresholdOf is the formula of kernel ConsensusThreshold, copied from    *)
(* spec/Membership/Membership.tla. If a certificate is checked against a   *)
(* key set of size k <= base and needs ThresholdOf(base) signers, any two  *)
(* signer sets meeting the threshold share more than k/3 keys: by          *)
(* inclusion-exclusion their intersection has at least 2t - k members.     *)
(***************************************************************************)
EXTENDS Integers, TLAPS

ThresholdOf(base) == (base * 2) \div 3 + 1

\* two sets of size >= t inside a set of size k intersect in >= 2t - k elements
THEOREM QuorumIntersection ==
    \A base \in Nat : \A k \in Nat :
        k <= base => 3 * (2 * ThresholdOf(base) - k) > k
  BY SMT DEF ThresholdOf

\* the same with the key set one LARGER than the base (known finding C10-1: round 0 of a
\* pledging chain counts the pledging node in the key set but not in the base): the bound fails,
\* e.g. base = 7, k = 8: threshold 5, 2*5 - 8 = 2, 3*2 = 6 is not > 8.
THEOREM KnownFindingWitness ==
    \E base \in Nat : 3 * (2 * ThresholdOf(base) - (base + 1)) <= base + 1
  <1>1. 3 * (2 * ThresholdOf(7) - (7 + 1)) <= 7 + 1
        BY SMT DEF ThresholdOf
  <1>2. 7 \in Nat OBVIOUS
  <1> QED BY <1>1, <1>2

\* a threshold can be met at all only if it does not exceed the key set
THEOREM Reachable ==
    \A base \in Nat : base >= 1 => ThresholdOf(base) <= base
  BY SMT DEF ThresholdOf
\* with fewer than a third of the base faulty, two signer sets meeting the threshold share an HONEST key:
\* their intersection (>= 2t - k) is larger than the number of faulty keys
THEOREM HonestIntersection ==
    \A base \in Nat : \A k \in Nat : \A f \in Nat :
        (k <= base /\ 3 * f < base) => 2 * ThresholdOf(base) - k > f
  BY SMT DEF ThresholdOf

\* the non-final threshold (which may count a long-pledging node: base + 1) is never below the final one
THEOREM ThresholdMonotone ==
    \A a \in Nat : \A b \in Nat : a <= b => ThresholdOf(a) <= ThresholdOf(b)
  BY SMT DEF ThresholdOf
=============================================================================
