-------------------------------- MODULE Cert --------------------------------
(***************************************************************************)
(* Finalization certificates of Mixin Kernel (property C09).               *)
(*                                                                         *)
(*   kernel/graph.go   Chain.verifyFinalization, Node.cacheVerifyCosi,     *)
(*                     Chain.ConsensusKeys / consensusNodes                *)
(*   kernel/node.go    Node.ConsensusThreshold, the ristretto cacheStore   *)
(*   crypto/cosi.go    CosiSignature.FullVerify / ThresholdVerify / Keys   *)
(*   crypto/aggregation.go  aggregatePublicKey (collectAggregateSigners)   *)
(*                                                                         *)
(* The consensus views (key vector and threshold at a timestamp) are the   *)
(* operators of module Membership (Keys, Threshold), written from the same *)
(* code by another check (C10/C11); this module adds the certificate.      *)
(*                                                                         *)
(* A query is a record                                                      *)
(*   [H, G      membership history (sorted sequence of [n, ts, st]) and    *)
(*              genesis node numbers                                       *)
(*    t         snapshot timestamp in ticks since the epoch (may be < 0)   *)
(*    kind      "ordinary" | "pledging-round0" (round 0 of a chain that    *)
(*              has no round state: its own identity is appended)          *)
(*    chain     node number of the chain                                   *)
(*    ver       "v2" (SnapshotVersionCommonEncoding) | "old"               *)
(*    mask      set of bit positions 0..63 of the signer mask              *)
(*    by        set of node numbers whose private keys produced the        *)
(*              aggregate signature                                        *)
(*    msg       "hash": signed over the snapshot hash | "other"            *)
(*    tamper    "none" | "R" | "S": a byte of the signature was changed ]   *)
(*                                                                         *)
(* Signatures are symbolic: an aggregate Schnorr signature made with the   *)
(* private keys of the set  by  over message m verifies under the sum of   *)
(* the public keys of a set K over message m' iff by = K, m = m' and no    *)
(* byte was changed (unforgeability and no key-sum collisions assumed;     *)
(* the harness concretizes every variant with real keys, so a broken       *)
(* primitive shows up as a disagreement with this module).                 *)
(* Network: not the main network, so the two legacy fallbacks of           *)
(* verifyFinalization (hard-coded snapshot hash, pre-fork signer set) are  *)
(* out of scope.                                                           *)
(***************************************************************************)
EXTENDS Membership, TLC

KeysOf(q) == Keys(q.H, q.G, q.t, q.kind, q.chain)      \* ConsensusKeys(round, timestamp)
ThrOf(q)  == Threshold(q.H, q.G, q.t, TRUE)            \* ConsensusThreshold(timestamp, true)

InRange(q, K)  == \A i \in q.mask : i < Len(K)
MaskKeys(q, K) == { K[i + 1] : i \in { j \in q.mask : j < Len(K) } }

SigVerifies(q, keyset) == q.by = keyset /\ q.msg = "hash" /\ q.tamper = "none"

\* the aggregate public key is the SUM of the keys at the masked positions: if two positions held
\* the same key (only possible for round 0 of a chain without round state whose node is already a
\* ready member - not a reachable ledger state) the sum counts it twice and no signature made by
\* each member once verifies
MaskedDistinct(q, K) == Cardinality(MaskKeys(q, K)) = Cardinality(q.mask)

(* ---- what the code does, in its order ---------------------------------- *)
\* K, thr: key vector and threshold the code derived for the snapshot
FullVerify(q, K, thr) ==
    /\ thr > 0                              \* "invalid cosi threshold"
    /\ Cardinality(q.mask) >= thr           \* ThresholdVerify: popcount of the mask
    /\ q.mask # {} /\ InRange(q, K)         \* collectAggregateSigners: index >= len(publics)
    /\ MaskedDistinct(q, K)
    /\ SigVerifies(q, MaskKeys(q, K))       \* A.Verify(message, signature)

CodeFinalWith(q, K, thr) ==
    /\ q.ver = "v2"
    /\ q.mask # {}                          \* Signature == nil || Mask == 0
    /\ q.t >= 0                             \* timestamp < Epoch
    /\ FullVerify(q, K, thr)

CodeFinal(q) == CodeFinalWith(q, KeysOf(q), ThrOf(q))

\* signers returned with a positive answer: cids[k] for every mask bit k, ascending
CodeSigners(q) ==
    LET K == KeysOf(q)
        idx == SelectSeq([i \in 1..Len(K) |-> i], LAMBDA i : (i - 1) \in q.mask)
    IN  [j \in 1..Len(idx) |-> K[idx[j]]]

(* ---- what C09 states ---------------------------------------------------- *)
\* the mask names at least the certificate threshold of members of the consensus key set at
\* the snapshot's timestamp, and the aggregate signature verifies over the snapshot hash with
\* exactly the masked keys.  K, thr: the historical key vector and threshold (KeysOf, ThrOf).
CertifiedWith(q, K, thr) ==
    /\ InRange(q, K)
    /\ Cardinality(MaskKeys(q, K)) >= thr
    /\ q.by = MaskKeys(q, K) /\ q.msg = "hash" /\ q.tamper = "none"

Certified(q) == CertifiedWith(q, KeysOf(q), ThrOf(q))

Sound(q, final) == final => Certified(q)

\* the key vector never names a node twice (otherwise |mask| would overstate the members)
DistinctSeq(K) == Cardinality({K[i] : i \in 1..Len(K)}) = Len(K)
DistinctKeys(q) == DistinctSeq(KeysOf(q))

(* ---- the verification cache -------------------------------------------- *)
\* cacheVerifyCosi keys its memo by snapshot hash, signature bytes, the public keys in order,
\* the threshold and the mask. A query's signature bytes are identified by  q.sid  (one signing
\* act); Fields lets a model ask what happens if a component were left out of the key.
AllKeyFields == {"msg", "sig", "keys", "thr", "mask"}
CacheKey(q, Fields) ==
    [ msg  |-> IF "msg"  \in Fields THEN q.msg     ELSE "-",
      sig  |-> IF "sig"  \in Fields THEN <<q.sid, q.tamper>> ELSE <<"-", "-">>,
      keys |-> IF "keys" \in Fields THEN KeysOf(q) ELSE <<>>,
      thr  |-> IF "thr"  \in Fields THEN ThrOf(q)  ELSE 0,
      mask |-> IF "mask" \in Fields THEN q.mask    ELSE {} ]

\* what the part of verifyFinalization in front of the cache decides by itself
PreCheck(q) == q.ver = "v2" /\ q.mask # {} /\ q.t >= 0
=============================================================================
