------------------------- MODULE MC_Membership_C10 -------------------------
(***************************************************************************)
(* C10 at design level (engine E3) and the case generator for the replay   *)
(* on the real code (engine E1).                                           *)
(*                                                                         *)
(* Level "count": a configuration is a tuple of category counts; the       *)
(* threshold base and the key-set size are written directly on the counts  *)
(* and the quorum-intersection theorem is checked for EVERY tuple with at  *)
(* most 50 members.                                                        *)
(*                                                                         *)
(* Level "hist": a configuration is concretized into a membership history  *)
(* (records at concrete ticks) and a set of query ticks around every       *)
(* threshold of the code.  The views of Membership.tla are evaluated on    *)
(* the history; the classification of the listed nodes into categories     *)
(* must reproduce the count-level formulas (refinement), and the theorem   *)
(* must hold on the views.  Each concretized configuration is emitted as a *)
(* CASE for the Go harness.                                                *)
(***************************************************************************)
EXTENDS Membership, TLC, Json

CONSTANTS Level,        \* "count" | "hist" | "hist-thorough"
          MaxTotal,     \* count level: bound on the number of members
          MaxV, MaxRX,  \* count level: bounds of the very-young / removed / cancelled counts
          G0s, Rs, Xs, Ms, Ys   \* hist levels: ranges of the additional (large) concretized family

VARIABLE c
vars == <<c>>

\* c is a complete case (not the root or an intermediate state of the enumeration tree)
IsCase == IF Level = "count" THEN c.m >= 0 ELSE "p" \in DOMAIN c

(***************************** count level *********************************)
\* ga genesis accepted, m ready non-genesis, y in the base but not ready (30 s .. 12 h),
\* v accepted less than 30 s ago, p a pledging node exists, rm a predicted removal candidate is
\* excluded (0 none, 1 excluded and still accepted, 2 excluded and already removed),
\* r removed, x cancelled.
\* TLC enumerates (ga, m) as states (two levels below a root, so that the workers share them) and
\* quantifies over the remaining counts inside the invariant: one state = all configurations that
\* share ga and m.
BaseN(a, b, y, rm) == a + b + y - (IF rm = 1 THEN 1 ELSE 0)
KeysN(a, b, rm, kind) == a + b - (IF rm = 1 THEN 1 ELSE 0) + (IF kind = "pledging-round0" THEN 1 ELSE 0)
\* the defective class (DESIGN.md D4, known finding C10-1), exactly
DefectN(base, y, kind) == kind = "pledging-round0" /\ y = 0 /\ base >= MinNodes /\ base % 3 # 0

OKN(base, keys, y, kind) ==
    LET thr == ThresholdOf(base) IN
    /\ (kind = "ordinary" => QuorumIntersection(thr, keys))
    /\ (kind = "pledging-round0" => (QuorumIntersection(thr, keys) <=> ~DefectN(base, y, kind)))
    /\ (base < MinNodes => NoCertificatePossible(thr, keys))

CountGuard(a, b, y, v, p, rm, r, x, kind) ==
    /\ a + b + y + v + p + r + x <= MaxTotal
    /\ (kind = "pledging-round0" => p = 1)
    /\ (rm = 1 => a + b > MinNodes)       \* a candidate needs more than 7 accepted
    /\ (rm = 2 => r >= 1)

CountInv ==
    (Level = "count" /\ IsCase) =>
      LET a == c.ga  b == c.m IN
      \A y \in 0..(MaxTotal - a - b) : \A v \in 0..MaxV : \A p \in 0..1 : \A rm \in 0..2 :
      \A r \in 0..MaxRX : \A x \in 0..MaxRX : \A kind \in ChainKinds :
        CountGuard(a, b, y, v, p, rm, r, x, kind) => OKN(BaseN(a, b, y, rm), KeysN(a, b, rm, kind), y, kind)

\* number of configurations covered by a state (printed once per state by the count cfg)
CountSize ==
    (Level = "count" /\ IsCase) =>
      PrintT(<<"CONFIGS", Cardinality({ z \in [y : 0..(MaxTotal - c.ga - c.m), v : 0..MaxV, p : 0..1, rm : 0..2,
                                             r : 0..MaxRX, x : 0..MaxRX, kind : ChainKinds] :
                                          CountGuard(c.ga, c.m, z.y, z.v, z.p, z.rm, z.r, z.x, z.kind) })>>)

\* record forms used by the hist level
BaseC(k) == BaseN(k.ga, k.m, k.y, k.rm)
KeysC(k) == KeysN(k.ga, k.m, k.rm, k.kind)
DefectShapeC(k) == DefectN(BaseC(k), k.y, k.kind)

(****************************** hist level *********************************)
\* g0 genesis nodes (numbers 1..g0), r of them removed early, x extras pledged and cancelled early,
\* m extras accepted early, y extras accepted 2 and 4 ticks before T, p pledging "none" | "fresh"
\* (1 tick before T) | "old" (exactly 12 h before T), win: T inside the hour 13..19 window,
\* rmDone: the predicted candidate is already removed inside the window.
FamilyOf(g0s, rs, xs, ms, ys) ==
    { k \in [g0 : g0s, r : rs, x : xs, m : ms, y : ys, p : {"none", "fresh", "old"}, win : BOOLEAN, rmDone : BOOLEAN] :
        /\ k.r <= k.g0
        /\ k.g0 + k.x + k.m + k.y + 1 <= MaxNodes + 10
        /\ (k.p = "old" => k.y = 0)
        /\ (k.rmDone => k.win /\ k.r < k.g0) }

\* Level "hist": the boundary family around the minimum (7..9 accepted, and 6 after a removal);
\* "hist-thorough": a wider boundary family; both plus the family given by the constants
\* (genesis sizes up to 50 drawn by the driver from the seed).
BoundaryFamily ==
    IF Level = "hist"
    THEN FamilyOf({7, 8, 9}, {0}, {0}, {0}, {0, 2}) \cup FamilyOf({7}, {1}, {0}, {0}, {0})
    ELSE FamilyOf({7, 8, 9, 10, 11}, {0, 1, 2}, {0}, {0, 1}, {0, 1, 2})
HistCases == BoundaryFamily \cup FamilyOf(G0s, Rs, Xs, Ms, Ys)
HistG0s == {k.g0 : k \in HistCases}
HistMs  == {k.m : k \in HistCases}

TQ(k) == IF k.win THEN 3 * TDay + AcceptBegin * THour + 1000 ELSE 3 * TDay + 10 * THour + 77

\* the appended records as a sequence in (ts, n) order, built in order (no sorting needed):
\* early removals, cancelled pairs, accepted pairs, old pledge, in-window removal, recent pairs
\* (oldest first), fresh pledge
PairSeq(first, count, tsOf(_), st) ==
    [j \in 1..(2 * count) |->
        LET i == (j + 1) \div 2 IN
        IF j % 2 = 1 THEN [n |-> first + i, ts |-> tsOf(i), st |-> Pledging]
                     ELSE [n |-> first + i, ts |-> tsOf(i) + 10, st |-> st]]

AppendsOf(k) ==
    LET T == TQ(k)
        pn == k.g0 + k.x + k.m + k.y + 1
        tc(i) == 2000 + 20 * i
        tm(i) == 4000 + 20 * i
    IN  [i \in 1..k.r |-> [n |-> i, ts |-> 1000 + 10 * i, st |-> Removed]]
        \o PairSeq(k.g0, k.x, tc, Cancelled)
        \o PairSeq(k.g0 + k.x, k.m, tm, Accepted)
        \o (IF k.p = "old" THEN <<[n |-> pn, ts |-> T - T12h, st |-> Pledging]>> ELSE <<>>)
        \o (IF k.rmDone THEN <<[n |-> k.r + 1, ts |-> WindowStart(T) + 500, st |-> Removed]>> ELSE <<>>)
        \o [j \in 1..(2 * k.y) |->
              LET i == k.y - ((j - 1) \div 2) IN       \* recent node i is accepted at T - 2 i
              IF j % 2 = 1 THEN [n |-> k.g0 + k.x + k.m + i, ts |-> T - 2 * i - 1, st |-> Pledging]
                           ELSE [n |-> k.g0 + k.x + k.m + i, ts |-> T - 2 * i, st |-> Accepted]]
        \o (IF k.p = "fresh" THEN <<[n |-> pn, ts |-> T - 1, st |-> Pledging]>> ELSE <<>>)

GenOf(k) == 1..k.g0
HistOf(k) == [g \in 1..k.g0 |-> [n |-> g, ts |-> 0, st |-> Accepted]] \o AppendsOf(k)

\* boundary ticks: the 30 s and 12 h thresholds of both recent nodes, the tick at which the fresh
\* pledge becomes visible, and the edges of the next day's operation window
QueryTicks(k) ==
    LET T == TQ(k)  W1 == 4 * TDay + AcceptBegin * THour  E1 == 4 * TDay + (AcceptEnd + 1) * THour IN
    {T + d : d \in -1..2} \cup {T + d : d \in (T12h - 4)..(T12h - 1)} \cup {W1 - 1, W1, E1 - 1, E1}

\* independent classification of the listed nodes at t (no use of Base / ReadyKeys)
CatL(L, rmn, G, t) ==
    LET acc == {i \in 1..Len(L) : L[i].st = Accepted}
        age(i) == t - L[i].ts
    IN [ga |-> Cardinality({i \in acc : L[i].n \in G}),
        m  |-> Cardinality({i \in acc : L[i].n \notin G /\ age(i) > T12h}),
        y  |-> Cardinality({i \in acc : L[i].n \notin G /\ age(i) > T30s /\ age(i) <= T12h}),
        v  |-> Cardinality({i \in acc : L[i].n \notin G /\ age(i) <= T30s}),
        p  |-> IF \E i \in 1..Len(L) : L[i].st = Pledging THEN 1 ELSE 0,
        rm |-> IF rmn = NoNode THEN 0 ELSE IF \E i \in acc : L[i].n = rmn THEN 1 ELSE 2,
        r  |-> Cardinality({i \in 1..Len(L) : L[i].st = Removed}),
        x  |-> Cardinality({i \in 1..Len(L) : L[i].st = Cancelled})]

KindsL(L) == IF PledgingL(L) # NoNode THEN ChainKinds ELSE {"ordinary"}
KindsAt(H, t) == KindsL(NodesAt(H, t))

QueryOK(H, G, t) ==
    LET L   == NodesAt(H, t)
        rmn == RemovingAt(H, t)
        pn  == PledgingL(L)
        base == BaseL(L, rmn, G, t, TRUE)
        thr == ThresholdOf(base)
        rk  == Len(ReadyKeysL(L, rmn, G, t))
    IN  \A kind \in KindsL(L) :
        LET cat == CatL(L, rmn, G, t) @@ [kind |-> kind]
            nk  == Len(KeysL(L, rmn, G, t, kind, pn))
        IN  /\ base = BaseC(cat)
            /\ nk = KeysC(cat)
            /\ nk = rk + (IF kind = "ordinary" THEN 0 ELSE 1)
            /\ (kind = "ordinary" => QuorumIntersection(thr, nk))
            /\ (kind = "pledging-round0" => (QuorumIntersection(thr, nk) <=> ~DefectShapeC(cat)))
            /\ (base < MinNodes => NoCertificatePossible(thr, nk))

HistInv ==
    (Level # "count" /\ IsCase) =>
      LET H == HistOf(c)  G == GenOf(c) IN
      /\ IsSortedHist(H)
      /\ \A t \in QueryTicks(c) : QueryOK(H, G, t)

\* non-vacuity witnesses (each must be violated in a sanity run)
NoDefectWitness == ~(Level # "count" /\ IsCase /\ \E t \in QueryTicks(c) :
                        LET H == HistOf(c) IN PledgingAt(H, t) # NoNode
                            /\ ~QuorumIntersection(Threshold(H, GenOf(c), t, TRUE), Len(Keys(H, GenOf(c), t, "pledging-round0", 1))))
NoRemovingWitness == ~(Level # "count" /\ IsCase /\ \E t \in QueryTicks(c) : RemovingAt(HistOf(c), t) # NoNode)

NodeName(k, n) == IF n <= k.g0 THEN "g" \o ToString(n) ELSE "x" \o ToString(n - k.g0)

QueriesOf(k, H) ==
    UNION { { [t |-> t, kind |-> kd, node |-> IF kd = "ordinary" THEN "" ELSE NodeName(k, PledgingAt(H, t))] :
                kd \in KindsAt(H, t) } : t \in QueryTicks(k) }

EmitCase ==
    (Level # "count" /\ IsCase) =>
      LET H == HistOf(c)  A == AppendsOf(c) IN
      PrintT("CASE " \o ToJson(
        [cfg |-> c, g |-> c.g0, x |-> c.x + c.m + c.y + 1,
         appends |-> [i \in 1..Len(A) |-> [node |-> NodeName(c, A[i].n), ts |-> A[i].ts, st |-> A[i].st]],
         queries |-> QueriesOf(c, H)]))

\* Both levels hang the cases two levels below a root state so that TLC's workers share them.
Root == [ga |-> -1, m |-> -1]
Init == c = Root
Next == IF Level = "count"
        THEN \/ c.ga = -1 /\ \E a \in 0..MaxTotal : c' = [ga |-> a, m |-> -1]
             \/ c.ga >= 0 /\ c.m = -1 /\ \E b \in 0..(MaxTotal - c.ga) : c' = [ga |-> c.ga, m |-> b]
        ELSE \/ c = Root /\ \E g \in HistG0s, mm \in HistMs : c' = [g0 |-> g, m |-> mm]
             \/ DOMAIN c = {"g0", "m"} /\ \E k \in HistCases : k.g0 = c.g0 /\ k.m = c.m /\ c' = k
Spec == Init /\ [][Next]_vars
=============================================================================
