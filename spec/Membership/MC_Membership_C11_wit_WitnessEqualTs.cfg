SPECIFICATION Spec
CONSTANTS
  GN = 7
  Times = {100, 101}
  MaxLen = 4
  MaxCust = 2
INVARIANT Inv
INVARIANT WitnessEqualTs
CHECK_DEADLOCK FALSE
