------------------------- MODULE MC_Membership_C29 -------------------------
(***************************************************************************)
(* C29 at design level, index arithmetic (engine E3): for every membership *)
(* size 7..50, every elected operation, every day 0..MaxDay and the given  *)
(* hours, the elected position is neither the first (oldest, which is also *)
(* the removal candidate) nor the last (newest) position of the accepted   *)
(* list; the hour windows are the ones the statement names.                *)
(***************************************************************************)
EXTENDS Membership, TLC

CONSTANTS MaxDay, HoursChecked

VARIABLE s
vars == <<s>>

Init == s = [n |-> 0, op |-> 0]
Next == \/ s.n = 0 /\ \E n \in MinNodes..MaxNodes : s' = [n |-> n, op |-> 0]
        \/ s.n > 0 /\ s.op = 0 /\ \E op \in ElectOps : s' = [n |-> s.n, op |-> op]
Spec == Init /\ [][Next]_vars

IndexInv ==
    s.op # 0 =>
      \A day \in 0..MaxDay : \A h \in HoursChecked :
        LET t == day * TDay + h * THour + 17
            i == ElectIndex(s.n, s.op, t)
        IN  /\ i >= 2 /\ i <= s.n - 1          \* defined, not the oldest (1), not the newest (n)
            /\ i # 1                            \* position 1 is the removal candidate
            /\ Day(t) = day /\ Hour(t) = h

WindowInv ==
    s.op # 0 =>
      \A day \in {0, 1, MaxDay} : \A h \in 0..23 : \A o \in {0, THour - 1} :
        LET t == day * TDay + h * THour + o IN
        /\ (InAcceptWindow(t) <=> h \in 13..19)
        /\ (InPledgeWindow(t) <=> (h \notin 7..9 /\ h \notin 13..19))
        /\ ~(InAcceptWindow(t) /\ InPledgeWindow(t))
        /\ (InAcceptWindow(t) => WindowStart(t) <= t /\ t - WindowStart(t) < 7 * THour)
=============================================================================
