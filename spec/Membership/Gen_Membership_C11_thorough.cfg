SPECIFICATION Spec
CONSTANTS
  GN = 7
  Times = {100, 101, 102}
  MaxLen = 5
  MaxCust = 2
INVARIANT Inv
ACTION_CONSTRAINT Emit
CHECK_DEADLOCK FALSE
