SPECIFICATION Spec
CONSTANTS
  Mode = "C20"
CONSTRAINT HW
POSTCONDITION Accepted
CHECK_DEADLOCK FALSE
