SPECIFICATION Spec
CONSTRAINT HW
POSTCONDITION Accepted
CHECK_DEADLOCK FALSE
