----------------------------- MODULE Trace_Cosi -----------------------------
(***************************************************************************)
(* System-level trace specification of the CoSi exchange: the protocol     *)
(* steps of EVERY node of a real multi-node network (the repository's own  *)
(* rpc/consensus_test.go run with the build tag "verif"; hooks in          *)
(* kernel/verif_hook.go record AN AK CM CH FC RP RS FIN HF AB RR, the hook *)
(* of storage/verif_hook.go records WS) are replayed as actions whose      *)
(* enabling conditions are the conditions [A1]..[W1] listed, with their    *)
(* code locations, in Cosi.tla.  Events of different nodes are interleaved *)
(* in file order; an event is written after its step's state change and    *)
(* before its step's messages leave, so file order respects causality.     *)
(*                                                                         *)
(* Mode "all" enforces every condition (conformance).  The monitors:        *)
(*   C09  [N1] [T1] [F1] [W1]  certificates: threshold of distinct nodes    *)
(*        that answered, accepted before anything is written;              *)
(*   C12  [R1] [R2] [R3]       response discipline: a signer answers only   *)
(*        with a verifier installed, only the proposer's challenge, one     *)
(*        challenge per (signer, snapshot);                                 *)
(*   C24  [A3]                 a transaction owned by a live proposal of    *)
(*        the same round is not proposed again within the round gap;        *)
(*   C03  [R5]                 no signer answers for two transactions       *)
(*        spending one slot.                                                *)
(* In a monitor mode the state is still advanced by every event (with      *)
(* defaults where an unenforced condition does not hold).                  *)
(***************************************************************************)
EXTENDS TraceLib, Cosi, Integers

CONSTANT Mode
On(p) == Mode = "all" \/ Mode = p

VARIABLES l,
    prop,     \* [snapshot hash -> protocol state of that snapshot, see NoProp]
    ver,      \* [<<node id, chain>> -> [transaction -> owner entry [hash, round, tsh, tsl]]]  (CosiVerifiers)
    held,     \* [node id -> [slot -> transaction the node answered for]]
    okfin     \* [node number -> set of snapshot hashes whose certificate the node accepted or formed]
vars == <<l, prop, ver, held, okfin>>

Ev == Trace[l]

FGet(f, k, d) == IF k \in DOMAIN f THEN f[k] ELSE d
FPut(f, k, v) == [x \in DOMAIN f \cup {k} |-> IF x = k THEN v ELSE f[x]]

NoProp == [p |-> "", chain |-> "", round |-> 0, tsh |-> 0, tsl |-> 0, txs |-> << >>, thrn |-> 0,
           commits |-> {}, fulls |-> {}, chal |-> FALSE, R |-> "", mask |-> "", chset |-> {},
           resp |-> {}, fin |-> FALSE, signers |-> {}, dead |-> FALSE,
           verif |-> {},     \* nodes that hold a verifier for the snapshot (AK / FC, minus AB)
           rsp |-> << >>]    \* [node id -> [R, mask, rsp]] answers given
P(h) == FGet(prop, h, NoProp)
Known(h) == h \in DOMAIN prop
Own(h) == Known(h) /\ prop[h].p = Ev.nid

Init == l = 1 /\ prop = << >> /\ ver = << >> /\ held = << >> /\ okfin = << >>

IsEvent(n) == l <= TraceLen /\ Ev.ev = n /\ l' = l + 1

Owners(n, c) == FGet(ver, <<n, c>>, << >>)
\* install the owner entries of the event's snapshot (CosiVerifiers[tx] = v for every transaction)
Install(n, c) ==
    LET o == Owners(n, c)
        e == [hash |-> Ev.hash, round |-> Ev.round, tsh |-> Ev.tsh, tsl |-> Ev.tsl]
        t == SeqSet(Ev.txs)
    IN FPut(ver, <<n, c>>, [x \in DOMAIN o \cup t |-> IF x \in t THEN e ELSE o[x]])
\* abandonCosiSnapshot: drop the entries that still belong to this snapshot
Uninstall(n, c, h) ==
    LET o == Owners(n, c)
        keep == { x \in DOMAIN o : o[x].hash # h }
    IN FPut(ver, <<n, c>>, [x \in keep |-> o[x]])

ThrOK == /\ ThresholdOf(Ev.thrf, Ev.keys - (IF Ev.pl THEN 1 ELSE 0), Ev.nacc)
         /\ Ev.thrn >= Ev.thrf

\* ---------------------------------------------------------------- proposer
AN ==
    /\ IsEvent("AN")
    /\ (Mode = "all" => Ev.chain = Ev.nid)                                              \* [A1]
    /\ (Mode = "all" => ~Known(Ev.hash))                                                \* [A2]
    /\ (On("C24") => GuardOK(Owners(Ev.nid, Ev.chain), Ev.round, Ev.tsh, Ev.tsl, Ev.txs)) \* [A3]
    /\ (Mode = "all" => ThrOK /\ Len(Ev.ins) = Len(Ev.txs))                             \* [T1]
    /\ prop' = FPut(prop, Ev.hash, [NoProp EXCEPT !.p = Ev.nid, !.chain = Ev.chain, !.round = Ev.round,
                        !.tsh = Ev.tsh, !.tsl = Ev.tsl, !.txs = Ev.txs, !.thrn = Ev.thrn, !.commits = {Ev.nid}])
    /\ ver' = Install(Ev.nid, Ev.chain)
    /\ UNCHANGED <<held, okfin>>

CM ==
    /\ IsEvent("CM")
    /\ LET s == P(Ev.hash) IN
        /\ (Mode = "all" => /\ Own(Ev.hash) /\ ~s.dead /\ ~s.chal                       \* [M1]
                            /\ Ev.peer \notin s.commits
                            /\ Cardinality(s.commits) < s.thrn
                            /\ Ev.cnt = Cardinality(s.commits) + 1
                            /\ (~Ev.full => Ev.peer \in s.verif))
        /\ prop' = IF Known(Ev.hash)
                   THEN FPut(prop, Ev.hash, [s EXCEPT !.commits = @ \cup {Ev.peer},
                                                      !.fulls = IF Ev.full THEN @ \cup {Ev.peer} ELSE @])
                   ELSE prop
    /\ UNCHANGED <<ver, held, okfin>>

CH ==
    /\ IsEvent("CH")
    /\ LET s == P(Ev.hash) IN
        /\ (Mode = "all" => /\ Own(Ev.hash) /\ ~s.dead /\ ~s.chal                       \* [H1]
                            /\ Distinct(Ev.committers)
                            /\ SeqSet(Ev.committers) = s.commits
                            /\ Len(Ev.committers) = Ev.thrn
                            /\ Ev.thrn = s.thrn
                            /\ Ev.resps = 1)
        /\ prop' = FPut(prop, Ev.hash, [s EXCEPT !.chal = TRUE, !.R = Ev.R, !.mask = Ev.mask,
                                                 !.chset = SeqSet(Ev.committers), !.resp = {Ev.nid}])
    /\ UNCHANGED <<ver, held, okfin>>

RS ==
    /\ IsEvent("RS")
    /\ LET s == P(Ev.hash) IN
        /\ (Mode = "all" => /\ Own(Ev.hash) /\ ~s.dead /\ s.chal /\ ~s.fin              \* [S1]
                            /\ Ev.peer \in s.chset
                            /\ Ev.peer \notin s.resp
                            /\ Ev.peer \in DOMAIN s.rsp
                            /\ Ev.cnt = Cardinality(s.resp) + 1
                            /\ Ev.of = Cardinality(s.chset))
        /\ prop' = IF Known(Ev.hash) THEN FPut(prop, Ev.hash, [s EXCEPT !.resp = @ \cup {Ev.peer}]) ELSE prop
    /\ UNCHANGED <<ver, held, okfin>>

FIN ==
    /\ IsEvent("FIN")
    /\ LET s == P(Ev.hash) IN
        /\ (Mode = "all" => Own(Ev.hash) /\ ~s.dead /\ ~s.fin)
        /\ (On("C09") => /\ s.chal                                                      \* [N1]
                         /\ s.resp = s.chset
                         /\ SeqSet(Ev.signers) = s.resp
                         /\ CertOK(Ev.signers, Ev.thrn)
                         /\ \A x \in SeqSet(Ev.signers) : x = Ev.nid \/ x \in DOMAIN s.rsp
                         /\ ThrOK)                                                      \* [T1]
        /\ prop' = FPut(prop, Ev.hash, [s EXCEPT !.fin = TRUE, !.signers = SeqSet(Ev.signers)])
    /\ okfin' = FPut(okfin, Ev.node, FGet(okfin, Ev.node, {}) \cup {Ev.hash})
    /\ UNCHANGED <<ver, held>>

\* ------------------------------------------------------------------ signer
Verifier(ev) ==
    /\ IsEvent(ev)
    /\ LET s == P(Ev.hash) IN
        /\ (Mode = "all" => Ev.chain # Ev.nid)                                          \* [K1]
        /\ (Mode = "all" => /\ Known(Ev.hash) /\ s.chain = Ev.chain /\ s.round = Ev.round \* [K2]
                            /\ s.tsh = Ev.tsh /\ s.tsl = Ev.tsl /\ s.txs = Ev.txs)
        /\ (Mode = "all" => GuardOK(Owners(Ev.nid, Ev.chain), Ev.round, Ev.tsh, Ev.tsl, Ev.txs)) \* [K3]
        /\ (Mode = "all" /\ ev = "FC" => Ev.nid \in s.fulls /\ s.chal)
        /\ prop' = IF Known(Ev.hash) THEN FPut(prop, Ev.hash, [s EXCEPT !.verif = @ \cup {Ev.nid}]) ELSE prop
    /\ ver' = Install(Ev.nid, Ev.chain)
    /\ UNCHANGED <<held, okfin>>

AK == Verifier("AK")
FC == Verifier("FC")

RP ==
    /\ IsEvent("RP")
    /\ LET s == P(Ev.hash)
           h == FGet(held, Ev.nid, << >>)
           a == [R |-> Ev.R, mask |-> Ev.mask, rsp |-> Ev.rsp]
           slots == UNION { SeqSet(Ev.ins[i]) : i \in 1..Len(Ev.ins) }
           by(k) == Ev.txs[CHOOSE i \in 1..Len(Ev.ins) : k \in SeqSet(Ev.ins[i])]
       IN
        /\ (On("C12") => Ev.nid \in s.verif)                                            \* [R1]
        /\ (On("C12") => s.chal /\ Ev.R = s.R /\ Ev.mask = s.mask)                      \* [R2]
        /\ (On("C12") /\ Ev.nid \in DOMAIN s.rsp => s.rsp[Ev.nid] = a)                  \* [R3]
        /\ (Mode = "all" => Ev.nid \in s.chset /\ Ev.nid # s.p)                         \* [R4]
        /\ (Mode = "all" => Len(Ev.ins) = Len(Ev.txs))
        /\ (On("C03") => \/ InputsFree(h, Ev.txs, Ev.ins)                               \* [R5]
                         \/ Ev.hash \in FGet(okfin, Ev.node, {}))
        /\ prop' = IF Known(Ev.hash) THEN FPut(prop, Ev.hash, [s EXCEPT !.rsp = FPut(@, Ev.nid, a)]) ELSE prop
        /\ held' = FPut(held, Ev.nid, [k \in DOMAIN h \cup slots |-> IF k \in slots THEN by(k) ELSE h[k]])
    /\ UNCHANGED <<ver, okfin>>

\* ---------------------------------------------------------------- every node
HF ==
    /\ IsEvent("HF")
    /\ LET s == P(Ev.hash) IN
        /\ (On("C09") => /\ CertOK(Ev.signers, Ev.thrf)                                 \* [F1]
                         /\ ThrOK
                         /\ s.fin /\ SeqSet(Ev.signers) = s.signers)
    /\ okfin' = FPut(okfin, Ev.node, FGet(okfin, Ev.node, {}) \cup {Ev.hash})
    /\ UNCHANGED <<prop, ver, held>>

WS ==
    /\ IsEvent("WS")
    /\ (On("C09") => Ev.hash \in FGet(okfin, Ev.node, {}))                              \* [W1]
    /\ UNCHANGED <<prop, ver, held, okfin>>

AB ==
    /\ IsEvent("AB")
    /\ LET s == P(Ev.hash) IN
        prop' = IF ~Known(Ev.hash) THEN prop
                ELSE IF s.p = Ev.nid THEN FPut(prop, Ev.hash, [s EXCEPT !.dead = ~s.fin])
                ELSE FPut(prop, Ev.hash, [s EXCEPT !.verif = @ \ {Ev.nid}])
    /\ ver' = Uninstall(Ev.nid, Ev.chain, Ev.hash)
    /\ UNCHANGED <<held, okfin>>

RR ==
    /\ IsEvent("RR")
    /\ prop' = [h \in DOMAIN prop |-> IF prop[h].p = Ev.nid /\ ~prop[h].fin THEN [prop[h] EXCEPT !.dead = TRUE] ELSE prop[h]]
    /\ ver' = FPut(ver, <<Ev.nid, Ev.chain>>, << >>)
    /\ UNCHANGED <<held, okfin>>

\* a new, independent network starts (the driver groups the events by network)
Reset ==
    /\ IsEvent("Reset")
    /\ prop' = << >> /\ ver' = << >> /\ held' = << >> /\ okfin' = << >>

Next == AN \/ CM \/ CH \/ RS \/ FIN \/ AK \/ FC \/ RP \/ HF \/ WS \/ AB \/ RR \/ Reset
Spec == Init /\ [][Next]_vars
HW == HighWaterOf(l)
Accepted == TraceAcceptedAt
=============================================================================
