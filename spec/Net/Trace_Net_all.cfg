SPECIFICATION Spec
CONSTANTS
  Mode = "all"
CONSTRAINT HW
POSTCONDITION Accepted
CHECK_DEADLOCK FALSE
