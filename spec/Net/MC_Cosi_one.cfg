SPECIFICATION Spec
CONSTANTS
  Nodes = {n1, n2, n3, n4}
  Snaps = {s1}
  MaxFaulty = 1
  None = None
  LockRule = TRUE
  MinNodes = 1
  GapSec = 3
INVARIANTS Safety CertInv WrittenInv HonestOnce
CHECK_DEADLOCK FALSE
