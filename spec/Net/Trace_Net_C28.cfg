SPECIFICATION Spec
CONSTANTS
  Mode = "C28"
CONSTRAINT HW
POSTCONDITION Accepted
CHECK_DEADLOCK FALSE
