------------------------------ MODULE MC_Cosi ------------------------------
(***************************************************************************)
(* Design-level model of the CoSi exchange (see Cosi.tla for the steps and *)
(* the conditions [..] the code maintains).  All snapshots of Snaps are in  *)
(* CONFLICT: each holds a different transaction spending the same output.   *)
(* A node is honest or faulty; a faulty node commits and answers whenever   *)
(* it likes and, as proposer, assembles a certificate from any answers that *)
(* exist (signatures cannot be forged: a certificate names only nodes that  *)
(* answered).  Honest nodes follow the conditions of Cosi.tla:              *)
(*   [R1] answer only with an installed verifier, [R4] only when            *)
(*   challenged, [R5] only with the output reserved for this transaction    *)
(*   (reservation without force; a finalization the node accepted moves     *)
(*   it), [H1]/[N1] challenge with the threshold of commitments and         *)
(*   finalize when every challenged committer answered, [F1] accept a       *)
(*   finalization only with a certificate of the threshold, [W1] write      *)
(*   only after that.                                                       *)
(* Checked: two conflicting snapshots are never both finalized when at most *)
(* MaxFaulty < N/3 nodes are faulty; witnesses: a snapshot can be finalized *)
(* (NeverFinal is violated) and with one more faulty node the safety        *)
(* invariant is violated (the bound is tight); without [R5] (LockRule =     *)
(* FALSE) it is violated with no faulty node at all.                        *)
(***************************************************************************)
EXTENDS Cosi, TLC

CONSTANTS Nodes, Snaps, MaxFaulty, None,
          LockRule   \* TRUE: honest nodes keep [R5] (the code); FALSE only for the witness that [R5] is needed

VARIABLES faulty, ann, ver, commits, chset, resp, acc, cert, lock, okfin, written
vars == <<faulty, ann, ver, commits, chset, resp, acc, cert, lock, okfin, written>>

\* the i-th snapshot is proposed by the i-th node (fixed, distinct proposers)
NodeSeq == CHOOSE q \in [1..Cardinality(Nodes) -> Nodes] : \A i, j \in DOMAIN q : i # j => q[i] # q[j]
SnapSeq == CHOOSE q \in [1..Cardinality(Snaps) -> Snaps] : \A i, j \in DOMAIN q : i # j => q[i] # q[j]
Proposer(s) == NodeSeq[CHOOSE i \in DOMAIN SnapSeq : SnapSeq[i] = s]

T == Threshold(Cardinality(Nodes))
Honest(n) == n \notin faulty
Final(s) == cert[s] # {}

Init ==
    /\ faulty \in { F \in SUBSET Nodes : Cardinality(F) <= MaxFaulty }
    /\ ann = {}
    /\ ver = [n \in Nodes |-> {}]
    /\ commits = [s \in Snaps |-> {}]
    /\ chset = [s \in Snaps |-> {}]
    /\ resp = [s \in Snaps |-> {}]
    /\ acc = [s \in Snaps |-> {}]
    /\ cert = [s \in Snaps |-> {}]
    /\ lock = [n \in Nodes |-> None]
    /\ okfin = [n \in Nodes |-> {}]
    /\ written = [n \in Nodes |-> {}]

\* AN: the proposer validated the transaction and reserved its input (checkActionSanity)
Announce(s) ==
    LET p == Proposer(s) IN
    /\ s \notin ann
    /\ (Honest(p) /\ LockRule) => lock[p] \in {None, s}
    /\ lock' = IF Honest(p) THEN [lock EXCEPT ![p] = s] ELSE lock
    /\ ann' = ann \cup {s}
    /\ commits' = [commits EXCEPT ![s] = {p}]
    /\ UNCHANGED <<faulty, ver, chset, resp, acc, cert, okfin, written>>

\* AK: a signer may not have the transaction yet (then nothing is reserved)
Ack(n, s) ==
    /\ s \in ann /\ n # Proposer(s) /\ s \notin ver[n]
    /\ \/ /\ Honest(n) /\ lock[n] \in {None, s}
          /\ lock' = [lock EXCEPT ![n] = s]
       \/ UNCHANGED lock
    /\ ver' = [ver EXCEPT ![n] = @ \cup {s}]
    /\ UNCHANGED <<faulty, ann, commits, chset, resp, acc, cert, okfin, written>>

\* CM [M1]
Commit(s, n) ==
    /\ s \in ver[n] /\ n \notin commits[s] /\ chset[s] = {} /\ Cardinality(commits[s]) < T
    /\ commits' = [commits EXCEPT ![s] = @ \cup {n}]
    /\ UNCHANGED <<faulty, ann, ver, chset, resp, acc, cert, lock, okfin, written>>

\* CH [H1]: the proposer answers itself
Challenge(s) ==
    /\ s \in ann /\ chset[s] = {} /\ Cardinality(commits[s]) = T
    /\ chset' = [chset EXCEPT ![s] = commits[s]]
    /\ resp' = [resp EXCEPT ![s] = @ \cup {Proposer(s)}]
    /\ acc' = [acc EXCEPT ![s] = {Proposer(s)}]
    /\ UNCHANGED <<faulty, ann, ver, commits, cert, lock, okfin, written>>

\* RP by an honest signer [R1] [R4] [R5]
Respond(n, s) ==
    /\ Honest(n) /\ n # Proposer(s)
    /\ s \in ver[n]
    /\ n \in chset[s]
    /\ LockRule => lock[n] \in {None, s}
    /\ lock' = [lock EXCEPT ![n] = s]
    /\ resp' = [resp EXCEPT ![s] = @ \cup {n}]
    /\ UNCHANGED <<faulty, ann, ver, commits, chset, acc, cert, okfin, written>>

\* a faulty node signs whatever has been announced
FaultyRespond(n, s) ==
    /\ ~Honest(n) /\ s \in ann /\ n \notin resp[s]
    /\ resp' = [resp EXCEPT ![s] = @ \cup {n}]
    /\ UNCHANGED <<faulty, ann, ver, commits, chset, acc, cert, lock, okfin, written>>

\* RS [S1]
AcceptResponse(s, n) ==
    /\ n \in chset[s] /\ n \in resp[s] /\ n \notin acc[s] /\ ~Final(s)
    /\ acc' = [acc EXCEPT ![s] = @ \cup {n}]
    /\ UNCHANGED <<faulty, ann, ver, commits, chset, resp, cert, lock, okfin, written>>

\* FIN [N1]; a faulty proposer uses any answers that exist
Finalize(s) ==
    /\ ~Final(s)
    /\ \/ /\ Honest(Proposer(s)) /\ chset[s] # {} /\ acc[s] = chset[s]
          /\ cert' = [cert EXCEPT ![s] = chset[s]]
       \/ /\ ~Honest(Proposer(s))
          /\ \E Q \in SUBSET resp[s] : Cardinality(Q) >= T /\ cert' = [cert EXCEPT ![s] = Q]
    /\ UNCHANGED <<faulty, ann, ver, commits, chset, resp, acc, lock, okfin, written>>

\* HF [F1] + WS [W1]: accepting a finalization moves the reservation by force
HandleFinal(n, s) ==
    /\ Final(s) /\ Cardinality(cert[s]) >= T /\ s \notin okfin[n]
    /\ okfin' = [okfin EXCEPT ![n] = @ \cup {s}]
    /\ written' = [written EXCEPT ![n] = @ \cup {s}]
    /\ lock' = [lock EXCEPT ![n] = s]
    /\ UNCHANGED <<faulty, ann, ver, commits, chset, resp, acc, cert>>

Next ==
    \/ \E s \in Snaps : Announce(s) \/ Challenge(s) \/ Finalize(s)
    \/ \E s \in Snaps, n \in Nodes :
            Ack(n, s) \/ Commit(s, n) \/ Respond(n, s) \/ FaultyRespond(n, s) \/ AcceptResponse(s, n) \/ HandleFinal(n, s)

Spec == Init /\ [][Next]_vars

\* ---- properties
Safety == \A s1, s2 \in Snaps : s1 # s2 => ~(Final(s1) /\ Final(s2))
CertInv == \A s \in Snaps : Final(s) => Cardinality(cert[s]) >= T /\ cert[s] \subseteq resp[s]
WrittenInv == \A n \in Nodes : \A s \in written[n] : Final(s) /\ s \in okfin[n]
\* [R5] an honest node answers two conflicting snapshots only if it accepted the certificate of one
HonestOnce == \A n \in Nodes : Honest(n) =>
    \A s1, s2 \in Snaps : (s1 # s2 /\ n \in resp[s1] /\ n \in resp[s2]) => (s1 \in okfin[n] \/ s2 \in okfin[n])

\* witnesses (must be violated)
NeverFinal == \A s \in Snaps : ~Final(s)
NeverWritten == \A n \in Nodes : written[n] = {}
=============================================================================
