-------------------------------- MODULE Cosi --------------------------------
(***************************************************************************)
(* The CoSi exchange of kernel/cosi.go as a protocol, system level.        *)
(*                                                                         *)
(* One protocol instance per snapshot (identified by its payload hash; the *)
(* proposer is the node that owns the snapshot's chain).  Steps, in the    *)
(* order of a successful exchange, with the event that records each step   *)
(* in a trace of the real code (hooks kernel/verif_hook.go, build tag      *)
(* verif; every event is emitted after the step's state change and before  *)
(* the step's messages are sent):                                          *)
(*                                                                         *)
(*  AN  proposer p installs aggregator and verifier of snapshot s and      *)
(*      announces it                       (cosiSendAnnouncement)          *)
(*  AK  signer n installs a verifier (fresh nonce) for s and returns its    *)
(*      commitment                         (cosiHandleAnnouncement)        *)
(*  CM  p records the commitment of n      (cosiHandleCommitment)          *)
(*  CH  p has the threshold of commitments, aggregates them, computes its   *)
(*      own response and sends the challenge (cosiHandleCommitment)        *)
(*  FC  n installs a verifier from a full challenge (a commitment it had    *)
(*      deposited in advance was used)     (cosiHandleFullChallenge)       *)
(*  RP  n answers the challenge = signs    (cosiHandleChallenge)           *)
(*  RS  p records the verified response of n (cosiHandleResponse)          *)
(*  FIN p aggregates the responses into a certificate that verifies         *)
(*                                         (cosiHandleResponse)            *)
(*  HF  a node accepts the certificate of a delivered finalization          *)
(*                                         (cosiHandleFinalization)        *)
(*  WS  the snapshot is durable in that node's graph (storage hook)         *)
(*  AB  a proposal / a verifier is abandoned (abandonCosiSnapshot)          *)
(*  RR  p discards every proposal at a round transition                     *)
(*                                         (resetCosiStateForNewRound)     *)
(*                                                                         *)
(* CONDITIONS the code maintains (each is an enabling condition of the     *)
(* trace specification Trace_Cosi.tla, operators below; the design-level   *)
(* model MC_Cosi.tla uses the same operators).  Nothing is demanded that    *)
(* the code does not guarantee:                                            *)
(*                                                                         *)
(* [A1] only the owner proposes on a chain: AN.chain = AN.nid               *)
(*      (checkActionSanity, CosiActionSelfEmpty, cosi.go:163).              *)
(* [A2] a snapshot hash is announced once (the hash covers the timestamp    *)
(*      taken at the announcement, cosi.go:172, 461).                      *)
(* [A3] owner guard, proposer side: a transaction that a verifier entry of  *)
(*      the SAME round > 0 owns is not proposed again before that entry is  *)
(*      one round gap (3 s) old (cosiSendAnnouncement, cosi.go:439-456);    *)
(*      entries disappear only by AB / RR.  (C24 seen from outside: a       *)
(*      transaction owned by a still-active proposal is not proposed again.)*)
(* [K1] a node never acts as signer on its own chain (cosi.go:184, 202).    *)
(* [K2] a signer installs a verifier only for a snapshot its proposer       *)
(*      announced, with the announced content (signature check in           *)
(*      CosiQueueExternalAnnouncement, cosi.go:1213).                      *)
(* [K3] owner guard, signer side, same formula as A3 (checkActionSanity,    *)
(*      cosi.go:193-200 and 216-223).  Consequence: a signer never holds    *)
(*      verifiers for two snapshots of one chain and round that share a     *)
(*      transaction and are less than a round gap apart.                    *)
(* [M1] a commitment is recorded only for a live own proposal, once per     *)
(*      peer, and only while fewer than the threshold are recorded          *)
(*      (cosiHandleCommitment REPEAT / EXCEED, cosi.go:545-553); a          *)
(*      commitment that was not deposited in advance comes from a peer that *)
(*      handled the announcement.                                          *)
(* [H1] the challenge is formed once, with exactly                          *)
(*      ConsensusThreshold(ts, false) commitments (cosi.go:549-560).       *)
(* [R1] a signer answers only with an installed verifier, i.e. after AK or  *)
(*      FC for that snapshot (checkActionSanity cosi.go:231-237: no         *)
(*      verifier, no snapshot, no action).                                  *)
(* [R2] the challenge answered is the one the proposer formed               *)
(*      (VerifyWithChallenge on the proposer's own share, cosi.go:714-728). *)
(* [R3] the nonce of a (signer, snapshot) answers one challenge: repeated   *)
(*      answers are identical (crypto/nonce.go respond; C12).               *)
(* [R4] only committers are challenged (cosi.go:580-610).                   *)
(* [R5] a signer never answers for two different transactions that spend    *)
(*      the same output / deposit / mint batch: answering needs every       *)
(*      transaction validated and its inputs reserved for it without force  *)
(*      (checkActionSanity cosi.go:319-325 -> validateSnapshotTransaction   *)
(*      -> lockAndPersistTransaction(tx, false) -> storage lockUTXO         *)
(*      "utxo locked for transaction"); only a finalization this node       *)
(*      accepted moves a reservation (fork = true), hence the exception for *)
(*      a snapshot whose certificate the node already accepted.             *)
(* [S1] a response is recorded only after the challenge, from a challenged  *)
(*      committer that answered, once (cosiHandleResponse REPEAT / EXCEED   *)
(*      / VerifyResponse, cosi.go:756-771).                                 *)
(* [N1] the proposer finalizes only when EVERY challenged committer         *)
(*      answered (cosi.go:776), so the certificate names                    *)
(*      ConsensusThreshold(ts, false) >= ConsensusThreshold(ts, true)       *)
(*      DISTINCT nodes, each of which answered (RP) in the trace            *)
(*      (cacheVerifyCosi / FullVerify, cosi.go:787).                        *)
(* [T1] the threshold is consensusBase * 2 / 3 + 1 (node.go:315; 1000 when  *)
(*      fewer than KernelMinimumNodesCount = 7 nodes count) where the base  *)
(*      lies between the size of the key vector (without the pledging       *)
(*      chain's own key at round 0, graph.go:355) and the number of         *)
(*      accepted nodes (an accepted node counts for the threshold 30 s      *)
(*      after its acceptance, node.go:306, but joins the key vector 12 h    *)
(*      after, node.go:273).                                                *)
(* [F1] a node accepts a finalization only with a certificate of at least   *)
(*      ConsensusThreshold(ts, true) distinct signers (verifyFinalization,  *)
(*      graph.go:394-396), and in a network of unchanged nodes that         *)
(*      certificate is the one the proposer formed (C09 seen from outside). *)
(* [W1] a snapshot becomes durable at a node only after that node accepted  *)
(*      (HF) or formed (FIN) its certificate (AddSnapshot / TopoWrite are   *)
(*      reached only from cosiHandleResponse and cosiHandleFinalization).   *)
(***************************************************************************)
EXTENDS Naturals, Sequences, FiniteSets

CONSTANTS MinNodes,     \* config.KernelMinimumNodesCount
          GapSec        \* config.SnapshotRoundGap in seconds

Unreachable == 1000

\* kernel/node.go ConsensusThreshold: consensusBase*2/3 + 1
Threshold(n) == IF n < MinNodes THEN Unreachable ELSE (2 * n) \div 3 + 1

\* [T1] thr is the formula applied to a base between lo and hi
ThresholdOf(thr, lo, hi) == \E n \in lo..hi : thr = Threshold(n)

SeqSet(s) == { s[i] : i \in 1..Len(s) }
Distinct(s) == Cardinality(SeqSet(s)) = Len(s)

\* [F1] / [N1] a certificate: distinct signers, at least the threshold
CertOK(signers, thr) == Distinct(signers) /\ Len(signers) >= thr

\* timestamps are (seconds, nanoseconds): ts >= vts + gap
GapOK(tsh, tsl, vtsh, vtsl) == tsh > vtsh + GapSec \/ (tsh = vtsh + GapSec /\ tsl >= vtsl)

\* [A3] / [K3] owner guard: owners = [transaction -> [round, tsh, tsl, ...]] of one (node, chain)
GuardOK(owners, round, tsh, tsl, txs) ==
    \A i \in 1..Len(txs) :
        (txs[i] \in DOMAIN owners /\ round > 0 /\ owners[txs[i]].round = round)
            => GapOK(tsh, tsl, owners[txs[i]].tsh, owners[txs[i]].tsl)

\* [R5] held = [slot -> transaction] of one node; txs[i] spends the slots ins[i]
InputsFree(held, txs, ins) ==
    \A i \in 1..Len(txs) : \A j \in 1..Len(ins[i]) :
        ins[i][j] \in DOMAIN held => held[ins[i][j]] = txs[i]
=============================================================================
