SPECIFICATION Spec
CONSTANTS
  Nodes = {n1, n2, n3, n4}
  Snaps = {s1, s2}
  MaxFaulty = 0
  None = None
  LockRule = FALSE
  MinNodes = 1
  GapSec = 3
INVARIANTS Safety
CHECK_DEADLOCK FALSE
