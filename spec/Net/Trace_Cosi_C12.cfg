SPECIFICATION Spec
CONSTANTS
  Mode = "C12"
  MinNodes = 7
  GapSec = 3
CONSTRAINT HW
POSTCONDITION Accepted
CHECK_DEADLOCK FALSE
