SPECIFICATION Spec
CONSTANTS
  Mode = "C03"
  MinNodes = 7
  GapSec = 3
CONSTRAINT HW
POSTCONDITION Accepted
CHECK_DEADLOCK FALSE
