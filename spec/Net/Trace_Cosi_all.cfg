SPECIFICATION Spec
CONSTANTS
  Mode = "all"
  MinNodes = 7
  GapSec = 3
CONSTRAINT HW
POSTCONDITION Accepted
CHECK_DEADLOCK FALSE
