SPECIFICATION Spec
CONSTANTS
  Mode = "C35"
CONSTRAINT HW
POSTCONDITION Accepted
CHECK_DEADLOCK FALSE
