------------------------------ MODULE Trace_Net ------------------------------
(***************************************************************************)
(* System-level trace specification: the durable graph writes of EVERY     *)
(* node of a real multi-node network (the repository's own                 *)
(* rpc/consensus_test.go run with the build tag "verif": hooks in          *)
(* storage/verif_hook.go record WriteSnapshot, WriteConsensusSnapshot,      *)
(* StartNewRound and UpdateEmptyHeadRound after the write is visible).     *)
(*                                                                         *)
(* Every event is an action with the enabling condition the replicated     *)
(* round graph imposes; the conditions are the listed properties seen from *)
(* outside:                                                                *)
(*  C35 positions of one node strictly increase;                           *)
(*  C20 a round opens with number = head + 1, its external reference is a   *)
(*      round of ANOTHER chain and the link to that chain never decreases;  *)
(*  C28 a multi-transaction snapshot holds batchable classes only, the      *)
(*      consensus markers of one node form a chain by reference with        *)
(*      strictly increasing time, and all nodes record the same chain;      *)
(*  C19 snapshots of one round lie within one day;                          *)
(*  agreement: two nodes that closed the same round of a chain closed it    *)
(*      with the same snapshot set; a node writes a snapshot only into its  *)
(*      head round and never twice.                                         *)
(* Events of different nodes are interleaved in file order; per node they   *)
(* are in the order of the per-store sequence number.                       *)
(***************************************************************************)
EXTENDS TraceLib, Integers, FiniteSets

CONSTANT Mode    \* "all" or the id of the property whose conditions are enforced
On(p) == Mode = "all" \/ Mode = p

VARIABLES l,
    pos,      \* [node -> last topology position]
    head,     \* [node -> [chain -> [num, self, ext]]]
    open,     \* [node -> [chain -> set of snapshot hashes in the head round]]
    days,     \* [node -> [chain -> day of the head round's snapshots or -1]]
    link,     \* [node -> [<<chain, extchain>> -> last linked round number]]
    snaps,    \* [node -> set of every snapshot hash written]
    uniq,     \* [node -> set of <<chain, tx>>]
    cons,     \* [node -> [tx, day, ms, n]] last consensus marker and how many were recorded
    closed,   \* global: [<<chain, number>> -> snapshot set with which the first node closed that round]
    consSeq   \* global: sequence of consensus transactions as first recorded by any node

vars == <<l, pos, head, open, days, link, snaps, uniq, cons, closed, consSeq>>

Ev == Trace[l]
Batchable == {0, 2, 3, 5}
ConsensusClass == {1, 6, 7, 9, 18, 19, 20}

FGet(f, k, d) == IF k \in DOMAIN f THEN f[k] ELSE d
FPut(f, k, v) == [x \in DOMAIN f \cup {k} |-> IF x = k THEN v ELSE f[x]]
NGet(v, n, d) == FGet(v, n, d)

Init ==
    /\ l = 1
    /\ pos = << >> /\ head = << >> /\ open = << >> /\ days = << >> /\ link = << >>
    /\ snaps = << >> /\ uniq = << >> /\ cons = << >> /\ closed = << >> /\ consSeq = << >>

IsEvent(n) == l <= TraceLen /\ Ev.ev = n /\ l' = l + 1

WS ==
    /\ IsEvent("WS")
    /\ LET n == Ev.node  c == Ev.chain
           hd == FGet(FGet(head, n, << >>), c, [num |-> -1, self |-> "", ext |-> ""])
           op == FGet(FGet(open, n, << >>), c, {})
           dy == FGet(FGet(days, n, << >>), c, -1)
           sn == FGet(snaps, n, {})
           uq == FGet(uniq, n, {})
       IN
        \* C35
        /\ (On("C35") => Ev.pos > FGet(pos, n, -1))
        \* a snapshot enters the head round of its chain (unknown head: first event of a genesis chain)
        /\ (On("C20") /\ hd.num # -1 => Ev.round = hd.num)
        \* never twice, and a transaction at most once per chain on this node
        /\ (Mode = "all" => Ev.hash \notin sn)
        /\ (Mode = "all" => \A i \in 1..Len(Ev.txs) : <<c, Ev.txs[i]>> \notin uq)
        \* C28 batch rule
        /\ (On("C28") /\ Len(Ev.txs) > 1 => \A i \in 1..Len(Ev.types) : Ev.types[i] \in Batchable)
        /\ (Mode = "all" /\ Ev.round = 0 => Len(Ev.txs) = 1)
        \* C19 one day per round
        /\ (Mode = "all" /\ op # {} /\ dy # -1 => Ev.day = dy)
        /\ pos' = FPut(pos, n, Ev.pos)
        /\ head' = IF hd.num = -1
                   THEN FPut(head, n, FPut(FGet(head, n, << >>), c, [num |-> Ev.round, self |-> "?", ext |-> "?"]))
                   ELSE head
        /\ open' = FPut(open, n, FPut(FGet(open, n, << >>), c, op \cup {Ev.hash}))
        /\ days' = FPut(days, n, FPut(FGet(days, n, << >>), c, Ev.day))
        /\ snaps' = FPut(snaps, n, sn \cup {Ev.hash})
        /\ uniq' = FPut(uniq, n, uq \cup { <<c, Ev.txs[i]>> : i \in 1..Len(Ev.txs) })
        /\ UNCHANGED <<link, cons, closed, consSeq>>

SNR ==
    /\ IsEvent("SNR")
    /\ LET n == Ev.node  c == Ev.chain
           hd == FGet(FGet(head, n, << >>), c, [num |-> -1, self |-> "", ext |-> ""])
           op == FGet(FGet(open, n, << >>), c, {})
           lk == FGet(link, n, << >>)
           key == <<c, Ev.number - 1>>
       IN
        \* C20: exactly one higher (a chain that is new to this node starts at 0, genesis chains unknown)
        /\ (On("C20") /\ hd.num # -1 => Ev.number = hd.num + 1)
        /\ (On("C20") /\ Ev.number > 0 /\ Has(Ev, "extchain") =>
                /\ Ev.extchain # c
                /\ Ev.extnum >= FGet(lk, <<c, Ev.extchain>>, 0))
        \* closing a round: it is not empty, and every node closes it with the same set
        /\ (Mode = "all" /\ hd.num # -1 /\ Ev.number > 0 => op # {})
        /\ (Mode = "all" /\ hd.num # -1 /\ Ev.number > 0 /\ key \in DOMAIN closed => closed[key] = op)
        /\ closed' = IF hd.num # -1 /\ Ev.number > 0 /\ key \notin DOMAIN closed THEN FPut(closed, key, op) ELSE closed
        /\ head' = FPut(head, n, FPut(FGet(head, n, << >>), c, [num |-> Ev.number, self |-> Ev.self, ext |-> Ev.external]))
        /\ open' = FPut(open, n, FPut(FGet(open, n, << >>), c, {}))
        /\ days' = FPut(days, n, FPut(FGet(days, n, << >>), c, -1))
        /\ link' = IF Ev.number > 0 /\ Has(Ev, "extchain")
                   THEN FPut(link, n, FPut(lk, <<c, Ev.extchain>>, Ev.extnum)) ELSE link
        /\ UNCHANGED <<pos, snaps, uniq, cons, consSeq>>

UEH ==
    /\ IsEvent("UEH")
    /\ LET n == Ev.node  c == Ev.chain
           hd == FGet(FGet(head, n, << >>), c, [num |-> -1, self |-> "", ext |-> ""])
           op == FGet(FGet(open, n, << >>), c, {})
           lk == FGet(link, n, << >>)
       IN
        /\ (On("C20") /\ hd.num # -1 => Ev.number = hd.num)
        /\ (On("C20") => op = {})                     \* only an empty head may change its references
        /\ (On("C20") /\ hd.num # -1 /\ hd.self # "?" => Ev.self = hd.self)
        /\ (On("C20") /\ Has(Ev, "extchain") => Ev.extchain # c /\ Ev.extnum >= FGet(lk, <<c, Ev.extchain>>, 0))
        /\ head' = FPut(head, n, FPut(FGet(head, n, << >>), c, [num |-> Ev.number, self |-> Ev.self, ext |-> Ev.external]))
        /\ link' = IF Has(Ev, "extchain") THEN FPut(link, n, FPut(lk, <<c, Ev.extchain>>, Ev.extnum)) ELSE link
        /\ UNCHANGED <<pos, open, days, snaps, uniq, cons, closed, consSeq>>

Later(d1, m1, d2, m2) == d2 > d1 \/ (d2 = d1 /\ m2 > m1)

WCS ==
    /\ IsEvent("WCS")
    /\ LET n == Ev.node
           cs == FGet(cons, n, [tx |-> "", day |-> -1, ms |-> -1, n |-> 0])
       IN
        /\ (On("C28") => Ev.type \in ConsensusClass)
        /\ IF cs.tx = Ev.tx
           THEN UNCHANGED <<cons, consSeq>>        \* idempotent repeat
           ELSE /\ (On("C28") /\ cs.tx # "" => Ev.ref = cs.tx /\ Later(cs.day, cs.ms, Ev.day, Ev.ms))
                \* every node records the same chain: this node's k-th marker is the global k-th
                /\ (On("C28") /\ cs.n + 1 <= Len(consSeq) => consSeq[cs.n + 1] = Ev.tx)
                /\ (On("C28") => cs.tx = "" \/ cs.n + 1 <= Len(consSeq) + 1)
                /\ consSeq' = IF cs.tx # "" /\ cs.n + 1 = Len(consSeq) + 1 THEN Append(consSeq, Ev.tx)
                              ELSE IF cs.tx = "" /\ consSeq = << >> THEN <<Ev.tx>> ELSE consSeq
                /\ cons' = FPut(cons, n, [tx |-> Ev.tx, day |-> Ev.day, ms |-> Ev.ms,
                                          n |-> IF cs.tx = "" THEN (IF \E i \in 1..Len(consSeq) : consSeq[i] = Ev.tx
                                                                    THEN CHOOSE i \in 1..Len(consSeq) : consSeq[i] = Ev.tx ELSE 1)
                                                ELSE cs.n + 1])
        /\ UNCHANGED <<pos, head, open, days, link, snaps, uniq, closed>>

\* a new, independent network starts (the driver groups the events by network)
Reset ==
    /\ IsEvent("Reset")
    /\ pos' = << >> /\ head' = << >> /\ open' = << >> /\ days' = << >> /\ link' = << >>
    /\ snaps' = << >> /\ uniq' = << >> /\ cons' = << >> /\ closed' = << >> /\ consSeq' = << >>

Next == WS \/ SNR \/ UEH \/ WCS \/ Reset
Spec == Init /\ [][Next]_vars
HW == HighWaterOf(l)
Accepted == TraceAcceptedAt
=============================================================================
