------------------------------- MODULE Sync -------------------------------
(***************************************************************************)
(* Graph synchronisation: what p2p/sync.go does, together with what it    *)
(* relies on from the kernel and the store, as transition FUNCTIONS on a  *)
(* state record (used unchanged by the bounded model MC_Sync and by the   *)
(* trace specification Trace_Sync).                                       *)
(*                                                                         *)
(* Code anchors                                                            *)
(*  [B1] kernel/node.go BuildGraph: one sync point per chain that has a    *)
(*       state, Number = FinalRound.Number = head (cache) round - 1.       *)
(*  [B2] storage/badger_topology.go readSnapshotsSinceTopology: the stored *)
(*       snapshots with position >= offset, increasing, at most count.     *)
(*  [B3] storage/badger_graph.go readSnapshotsForNodeRound: the snapshots  *)
(*       of (chain, round) sorted by TIMESTAMP (not by position).          *)
(*  [C1] p2p/sync.go compareRoundGraphAndGetTopologicalOffset: minimum,    *)
(*       over the local chains the remote publishes and is not ahead on,   *)
(*       of the position of ss[0] of round remote+2 (ss from [B3]); 0 when *)
(*       no such round exists.                                             *)
(*  [C2] getSyncPointOffset: reads published graphs, keeps the LAST graph  *)
(*       and the last NON-ZERO offset of the graphs read in this call.     *)
(*  [C3] syncHeadRoundToRemote: nothing when the remote is ahead on the    *)
(*       chain; otherwise rounds remote .. remote+Threshold+2 in [B3]      *)
(*       order, transactions first; a failing send is skipped.             *)
(*  [C4] syncToNeighborSince: up to 200 snapshots from offset ([B2]);      *)
(*       round < remote: skipped (cursor moves); round >= remote +         *)
(*       2*Threshold: stop FUTURE; otherwise transactions, then the        *)
(*       snapshot (a failing send stops with the error); cursor = position *)
(*       of the last snapshot handled; fewer than 200 read: EOF.           *)
(*  [C5] syncToNeighborLoop: poll [C2]; head push for every known node;    *)
(*       while offset > 0 stream [C4] until an error class ends the pass.  *)
(*  [K1] kernel/chain.go AppendFinalSnapshot/appendFinalSnapshot: a final  *)
(*       snapshot is pooled when head <= round < head + FinalPoolSlotsLimit*)
(*  [K2] kernel/chain.go QueuePollSnapshots + cosi.go prepareFinalization/ *)
(*       cosiHandleFinalization: only pool rounds head and head+1 are      *)
(*       looked at; a snapshot of round head+1 closes the head round when  *)
(*       the head round holds exactly the referenced set (Self = its       *)
(*       hash); a snapshot enters the head round when the round's external *)
(*       reference is a final round here.                                  *)
(*                                                                         *)
(* State record S                                                          *)
(*   L      local store: sequence of snapshots [c, n, t] in position order *)
(*          (position of L[i] = i - 1), t = timestamp rank inside (c, n)   *)
(*   ref    ref[c][n] = [e, m]: external reference of round n >= 1 of c    *)
(*   rfin   remote final round per chain (-1 = chain unknown there)        *)
(*   rcache indices of L the remote holds in its head round rfin+1         *)
(*   rpool  indices of L waiting in the remote's final pool                *)
(*   pub    published remote graphs not yet read (p.syncRing)              *)
(*   graph, have, offset, pc, hc, hloc, hlen: the loop [C5] for this peer  *)
(*   dropped: some sent snapshot fell outside the remote's pool window     *)
(***************************************************************************)
EXTENDS Integers, Sequences, FiniteSets, TLC

CONSTANTS Chains,      \* set of chain identifiers
          Slack,       \* 2        (r.Number + 2)
          HeadSpan,    \* 12       (SnapshotReferenceThreshold + 2)
          FutureSpan,  \* 20       (SnapshotReferenceThreshold * 2)
          Limit,       \* 200
          Window       \* 800      (FinalPoolSlotsLimit)

SyMax2(a, b) == IF a >= b THEN a ELSE b
SyMin2(a, b) == IF a <= b THEN a ELSE b
SyMinOf(S) == CHOOSE x \in S : \A y \in S : x <= y
SyMaxOf(S) == CHOOSE x \in S : \A y \in S : x >= y

Topo(i) == i - 1
NoGraph == [c \in Chains |-> -1]

------------------------------------------------------------------------------
(* the local store *)
ChainPos(L, c) == { i \in DOMAIN L : L[i].c = c }
RoundPos(L, c, n) == { i \in DOMAIN L : L[i].c = c /\ L[i].n = n }

\* [B1]
LFinOf(L, c) == LET P == ChainPos(L, c) IN
                IF P = {} THEN -1 ELSE SyMax2(0, SyMaxOf({ L[i].n : i \in P }) - 1)
LFin(L) == [c \in Chains |-> LFinOf(L, c)]

\* [B3] first element of the timestamp-sorted round
FirstByTs(L, P) == CHOOSE i \in P : \A j \in P : L[i].t <= L[j].t

\* [B3] positions of chain c in rounds lo..hi ordered by (round, timestamp)
RoundsSorted(L, c, lo, hi) ==
    LET P == { i \in ChainPos(L, c) : L[i].n >= lo /\ L[i].n <= hi }
        Before(j, i) == L[j].n < L[i].n \/ (L[j].n = L[i].n /\ L[j].t < L[i].t) IN
    [k \in 1..Cardinality(P) |-> CHOOSE i \in P : Cardinality({ j \in P : Before(j, i) }) = k - 1]

\* [B2]
SinceRead(L, offset, count) ==
    LET lo == offset + 1
        hi == SyMin2(Len(L), lo + count - 1) IN
    IF hi < lo THEN <<>> ELSE [k \in 1..(hi - lo + 1) |-> lo + k - 1]

------------------------------------------------------------------------------
(* p2p/sync.go *)

\* [C1]
Considered(L, lf, g) ==
    { c \in Chains : lf[c] >= 0 /\ g[c] >= 0 /\ g[c] <= lf[c] /\ RoundPos(L, c, g[c] + Slack) # {} }
CompareOff(L, lf, g) ==
    LET C == Considered(L, lf, g) IN
    IF C = {} THEN 0
    ELSE SyMinOf({ Topo(FirstByTs(L, RoundPos(L, c, g[c] + Slack))) : c \in C })

RemoteRound(g, c) == SyMax2(0, g[c])      \* a chain missing from the graph counts as round 0

\* [C3] fails = indices whose transaction send fails
HeadSends(L, hl, g, c, fails) ==
    LET rf == RemoteRound(g, c)
        lf == SyMax2(0, hl[c]) IN
    IF rf > lf THEN <<>>
    ELSE SelectSeq(RoundsSorted(L, c, rf, rf + HeadSpan), LAMBDA i : i \notin fails)

\* [C4] fail = index whose transaction send fails (0 = none)
SinceRes(L, g, offset, fail) ==
    LET rd   == SinceRead(L, offset, Limit)
        k    == Len(rd)
        lo   == offset + 1
        hi   == lo + k - 1
        R(i)    == RemoteRound(g, L[i].c)
        Skip(i) == L[i].n < R(i)
        Fut(i)  == ~Skip(i) /\ L[i].n >= R(i) + FutureSpan
        Err(i)  == ~Skip(i) /\ ~Fut(i) /\ i = fail
        Stops   == { i \in lo..hi : Fut(i) \/ Err(i) }
        stop    == IF Stops = {} THEN hi + 1 ELSE SyMinOf(Stops)
        done    == IF stop = lo THEN <<>> ELSE [j \in 1..(stop - lo) |-> lo + j - 1] IN
    [read |-> rd,
     sent |-> SelectSeq(done, LAMBDA i : ~Skip(i)),
     off  |-> IF stop = lo THEN offset ELSE Topo(stop - 1),
     cls  |-> IF Stops # {} THEN (IF Fut(stop) THEN "FUTURE" ELSE "ERR")
              ELSE IF k < Limit THEN "EOF" ELSE "OK"]

------------------------------------------------------------------------------
(* the remote node (kernel side, abstract) *)
RHas(S, i) == S.L[i].n <= S.rfin[S.L[i].c] \/ i \in S.rcache
RStale(S, i) == S.L[i].n <= S.rfin[S.L[i].c]
\* [K1]
InWindow(S, i) == S.L[i].n - (S.rfin[S.L[i].c] + 1) < Window
Poolable(S, i) == ~RHas(S, i) /\ InWindow(S, i)

RefKnown(S, c, n) == IF n = 0 THEN TRUE ELSE S.rfin[S.ref[c][n].e] >= S.ref[c][n].m

\* [K2] a pooled snapshot enters the head round / accepts the node
CanAdmit(S, i) ==
    LET c == S.L[i].c
        n == S.L[i].n IN
    /\ i \in S.rpool /\ ~RHas(S, i)
    /\ n = S.rfin[c] + 1
    /\ RefKnown(S, c, n)

Prune(S, rf, P) == { i \in P : S.L[i].n > rf[S.L[i].c] }

DoAdmit(S, i) ==
    LET c == S.L[i].c IN
    IF S.rfin[c] = -1
    THEN \* node acceptance: round 0 is final at once, head round 1
         LET rf == [S.rfin EXCEPT ![c] = 0] IN
         [S EXCEPT !.rfin = rf, !.rpool = Prune(S, rf, S.rpool \ {i})]
    ELSE [S EXCEPT !.rcache = S.rcache \cup {i}, !.rpool = S.rpool \ {i}]

\* [K2] the head round is closed by a pooled snapshot of the next round
CanClose(S, c) ==
    /\ S.rfin[c] >= 0
    /\ \E q \in S.rpool : S.L[q].c = c /\ S.L[q].n = S.rfin[c] + 2
    /\ RoundPos(S.L, c, S.rfin[c] + 1) \subseteq S.rcache

DoClose(S, c) ==
    LET rf == [S.rfin EXCEPT ![c] = S.rfin[c] + 1] IN
    [S EXCEPT !.rfin = rf, !.rcache = Prune(S, rf, S.rcache), !.rpool = Prune(S, rf, S.rpool)]

\* delivery of sent snapshots into the pool [K1]
Deliver(S, sent) ==
    LET P == { sent[k] : k \in DOMAIN sent } IN
    [S EXCEPT !.rpool = S.rpool \cup { i \in P : Poolable(S, i) },
              !.dropped = S.dropped \/ \E i \in P : ~RHas(S, i) /\ ~InWindow(S, i)]

\* the remote learns a snapshot from another peer: delivery, closing of the head round if the snapshot
\* opens the next one, admission - fused into one step (other peers' deliveries that wait in the pool
\* are not kept)
CanLearn(S, i) ==
    LET c == S.L[i].c
        n == S.L[i].n IN
    /\ ~RHas(S, i)
    /\ \/ n = S.rfin[c] + 1 /\ RefKnown(S, c, n)
       \/ /\ S.rfin[c] >= 0 /\ n = S.rfin[c] + 2
          /\ RoundPos(S.L, c, n - 1) \subseteq S.rcache
          /\ RefKnown(S, c, n)
Learnt(S, i) ==
    LET c  == S.L[i].c
        S1 == IF S.L[i].n = S.rfin[c] + 2 THEN DoClose(S, c) ELSE S IN
    DoAdmit([S1 EXCEPT !.rpool = S1.rpool \cup {i}], i)

\* the remote learns of rounds the local node does not have yet
CanAhead(S, c, maxr) ==
    /\ S.rfin[c] >= 0 /\ S.rfin[c] >= LFinOf(S.L, c) /\ S.rfin[c] < maxr
    /\ RoundPos(S.L, c, S.rfin[c] + 1) \subseteq S.rcache
DoAhead(S, c) == DoClose(S, c)

\* admissions and round closings taken until none is possible (they commute: the result does not
\* depend on the order)
RECURSIVE Settle(_)
Settle(S) ==
    LET A == { i \in S.rpool : CanAdmit(S, i) }
        C == { c \in Chains : CanClose(S, c) } IN
    IF A # {} THEN Settle(DoAdmit(S, SyMinOf(A)))
    ELSE IF C # {} THEN Settle(DoClose(S, SyMinOf(C)))
    ELSE S

AllHeld(S) == \A i \in DOMAIN S.L : RHas(S, i)
Lacking(S) == { i \in DOMAIN S.L : ~RHas(S, i) }

------------------------------------------------------------------------------
(* the loop [C5] as steps; each returns [S |-> new state, out |-> what the call returned] *)

DoPublish(S) == [S EXCEPT !.pub = Append(S.pub, S.rfin)]

\* [C2] one graph read from the ring
DoPoll(S) ==
    LET g   == Head(S.pub)
        off == CompareOff(S.L, LFin(S.L), g) IN
    [S   |-> [S EXCEPT !.pub = Tail(S.pub), !.graph = g, !.have = TRUE,
                       !.offset = IF off > 0 THEN off ELSE S.offset],
     out |-> [g |-> g, off |-> off]]

FirstChain == SyMinOf(Chains)
NextChain(c) == IF \E d \in Chains : d > c THEN SyMinOf({ d \in Chains : d > c }) ELSE 0

DoEndPoll(S) == [S EXCEPT !.pc = "head", !.hc = FirstChain, !.hloc = LFin(S.L), !.hlen = Len(S.L)]

BackToPoll(S) == [S EXCEPT !.pc = "poll", !.hc = 0, !.graph = NoGraph, !.have = FALSE, !.offset = 0]

DoHead(S, fails) ==
    LET c    == S.hc
        sent == HeadSends(S.L, S.hloc, S.graph, c, fails)
        S1   == Deliver(S, sent)
        nc   == NextChain(c)
        S2   == IF nc # 0 THEN [S1 EXCEPT !.hc = nc]
                ELSE IF S1.offset > 0 THEN [S1 EXCEPT !.pc = "since", !.hc = 0]
                ELSE BackToPoll(S1) IN
    [S |-> S2, out |-> [c |-> c, sent |-> sent]]

DoSince(S, fail) ==
    LET r  == SinceRes(S.L, S.graph, S.offset, fail)
        S1 == Deliver(S, r.sent)
        S2 == IF r.cls = "OK" THEN [S1 EXCEPT !.offset = r.off] ELSE BackToPoll(S1) IN
    [S |-> S2, out |-> [in |-> S.offset, g |-> S.graph] @@ r]

------------------------------------------------------------------------------
(* statements about one call (used by the model as action properties and by the trace
   specification on recorded calls) *)

\* no snapshot below the published final round, none at or beyond the FUTURE bound
SinceSentInBounds(L, g, sent) ==
    \A k \in DOMAIN sent : LET i == sent[k] IN
        /\ L[i].n >= RemoteRound(g, L[i].c)
        /\ L[i].n < RemoteRound(g, L[i].c) + FutureSpan

\* increasing positions, all at or after the cursor
SinceSentOrdered(offset, sent) ==
    /\ \A k \in DOMAIN sent : Topo(sent[k]) >= offset
    /\ \A k \in DOMAIN sent : k > 1 => sent[k - 1] < sent[k]

\* the offset is a position of round remote+Slack of a considered chain and no considered chain's
\* ss[0] lies before it
OffsetIsMin(L, lf, g, off) ==
    LET C == Considered(L, lf, g) IN
    IF C = {} THEN off = 0
    ELSE /\ \E c \in C : off = Topo(FirstByTs(L, RoundPos(L, c, g[c] + Slack)))
         /\ \A c \in C : off <= Topo(FirstByTs(L, RoundPos(L, c, g[c] + Slack)))

\* what one might expect of [C1]: nothing of rounds >= remote+Slack of a considered chain lies before it
OffsetBeforeAllAhead(L, lf, g, off) ==
    \A c \in Considered(L, lf, g) : \A i \in ChainPos(L, c) :
        L[i].n >= g[c] + Slack => off <= Topo(i)

HeadSentInRange(L, g, c, sent) ==
    \A k \in DOMAIN sent : LET i == sent[k] IN
        L[i].c = c /\ L[i].n >= RemoteRound(g, c) /\ L[i].n <= RemoteRound(g, c) + HeadSpan
=============================================================================
