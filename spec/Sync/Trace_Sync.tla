----------------------------- MODULE Trace_Sync -----------------------------
(***************************************************************************)
(* Trace specification of graph synchronisation (engine E2).              *)
(*                                                                         *)
(* Events recorded by harness/inpkg/p2p/zz_verif_sync_test.go (one world = *)
(* a real BadgerStore + a real Peer with one neighbour; positions are the  *)
(* store's topological orders, index in L = position + 1):                 *)
(*  Reset     gen = genesis snapshots [c,n,t,p], lp = local sync points    *)
(*  Grow      a snapshot [c,n,t] stored at position p (new: the round was  *)
(*            started with external reference (e,m)), lp afterwards        *)
(*  Publish   g pushed into the neighbour's real syncRing                  *)
(*  Poll      one graph taken from the ring: g, local points lp, off =     *)
(*            real compareRoundGraphAndGetTopologicalOffset, offset = glue *)
(*  PollLoop  the real getSyncPointOffset: number of graphs it consumed,   *)
(*            the graph and the offset it returned                         *)
(*  EndPoll   hl = local points taken before the head push                 *)
(*  Head      real syncHeadRoundToRemote for chain c: sent = finalization  *)
(*            messages found on the neighbour's ring [p,c,n,tx], reads     *)
(*  Since     real syncToNeighborSince(graph, in): off, cls, sent, reads    *)
(*  Stop      the harness ended a stream that kept returning OK            *)
(*  Admit/Close/Elsewhere/Ahead/Settle/RemoteSet  steps of the (abstract)  *)
(*            remote node, echoed from the generated behaviour             *)
(*                                                                         *)
(* Mode "full":    every call equals the specification's action: same      *)
(*    offset, same sequence of sent snapshots each with its transactions   *)
(*    first, same stop class, same store reads, same loop glue; the remote *)
(*    steps are enabled (so what the remote admits was really sent).       *)
(* Mode "monitor": the safety statements only (Sync.tla, end of module),   *)
(*    judged call by call on the recorded inputs.                          *)
(* Mode "C35":     only what C35 states: a cursor listing returns exactly  *)
(*    the stored snapshots from the first position >= cursor, in order,    *)
(*    each with its own position.                                          *)
(***************************************************************************)
EXTENDS TraceLib, Sync

CONSTANTS Mode

VARIABLES l, S
vars == <<l, S>>

Ev == Trace[l]
IsEvent(name) == l <= TraceLen /\ Ev.ev = name /\ l' = l + 1
Full == Mode = "full"

Idx(seq) == [k \in DOMAIN seq |-> seq[k] + 1]
SentIdx(e) == [k \in DOMAIN e.sent |-> e.sent[k].p + 1]
TopoSeq(seq) == [k \in DOMAIN seq |-> Topo(seq[k])]

GenChains(gen) == { gen[k].c : k \in DOMAIN gen }
NextOf(G, c) == IF \E d \in G : d > c THEN SyMinOf({ d \in G : d > c }) ELSE SyMinOf(G)

InitS(gen) ==
    LET G == GenChains(gen) IN
    [L      |-> [k \in DOMAIN gen |-> [c |-> gen[k].c, n |-> gen[k].n, t |-> gen[k].t]],
     ref    |-> [c \in Chains |-> IF c \in G THEN << [e |-> NextOf(G, c), m |-> 0] >> ELSE <<>>],
     rfin   |-> [c \in Chains |-> IF c \in G THEN 0 ELSE -1],
     rcache |-> {}, rpool |-> {},
     pub    |-> <<>>, graph |-> NoGraph, have |-> FALSE, offset |-> 0,
     pc     |-> "poll", hc |-> 0, hloc |-> NoGraph, hlen |-> 0,
     dropped |-> FALSE]

Empty == InitS(<<>>)

Init == l = 1 /\ S = Empty

AsGraph(a) == [c \in Chains |-> a[c]]

------------------------------------------------------------------------------
(* what is judged on every call in every mode that looks at it *)

\* [S1] only stored snapshots are sent, as the store holds them
SentStored(L, sent) ==
    \A k \in DOMAIN sent :
        /\ sent[k].kind = 25
        /\ sent[k].p >= 0 /\ sent[k].p < Len(L)
        /\ L[sent[k].p + 1].c = sent[k].c /\ L[sent[k].p + 1].n = sent[k].n
\* [S2] each with its transactions first
SentTxFirst(sent) == \A k \in DOMAIN sent : sent[k].tx

\* C35: a cursor listing [B2]
SinceReadOK(L, rd) ==
    LET want == TopoSeq(SinceRead(L, rd.off, rd.count)) IN
    ~rd.err /\ rd.rt = want /\ rd.rw = want
\* [B3]
RoundReadOK(L, rd) ==
    LET want == TopoSeq(RoundsSorted(L, rd.c, rd.n, rd.n)) IN
    ~rd.err /\ rd.rt = want /\ rd.rw = want

ReadsOK(L, reads, kinds) ==
    \A k \in DOMAIN reads :
        /\ (reads[k].k = "since" /\ "since" \in kinds) => SinceReadOK(L, reads[k])
        /\ (reads[k].k = "round" /\ "round" \in kinds) => RoundReadOK(L, reads[k])

CursorReads == IF Mode = "C35" THEN {"since"} ELSE {"since", "round"}

------------------------------------------------------------------------------
Reset ==
    /\ IsEvent("Reset")
    /\ S' = InitS(Ev.gen)
    /\ \A k \in DOMAIN Ev.gen : Ev.gen[k].p = k - 1
    /\ Full => AsGraph(Ev.lp) = LFin(S'.L)

Grow ==
    /\ IsEvent("Grow")
    /\ Ev.p = Len(S.L)
    /\ LET c  == Ev.c
           L2 == Append(S.L, [c |-> c, n |-> Ev.n, t |-> Ev.t])
           r2 == IF Ev.new
                 THEN [S.ref EXCEPT ![c] = IF Ev.n = 0 THEN << [e |-> Ev.e, m |-> Ev.m] >>
                                           ELSE Append(S.ref[c], [e |-> Ev.e, m |-> Ev.m])]
                 ELSE S.ref IN
        /\ S' = [S EXCEPT !.L = L2, !.ref = r2]
        /\ Full => /\ AsGraph(Ev.lp) = LFin(L2)
                   /\ (Ev.new /\ Ev.n > 0) => Len(r2[c]) = Ev.n
                   /\ \A i \in RoundPos(S.L, c, Ev.n) : S.L[i].t # Ev.t

Publish ==
    /\ IsEvent("Publish")
    /\ IF Full THEN /\ AsGraph(Ev.g) = S.rfin
                    /\ S' = DoPublish(S)
       ELSE S' = S

Poll ==
    /\ IsEvent("Poll")
    /\ ~Ev.empty /\ Ev.res = "ok"
    /\ LET g == AsGraph(Ev.g) IN
       CASE Full ->
              /\ S.pc = "poll" /\ S.pub # <<>> /\ g = Head(S.pub)
              /\ LET r == DoPoll(S) IN
                   /\ Ev.off = r.out.off /\ ~Ev.err
                   /\ Ev.offset = r.S.offset
                   /\ AsGraph(Ev.lp) = LFin(S.L)
                   /\ Ev.nr = Cardinality({ c \in Chains : LFin(S.L)[c] >= 0 /\ g[c] >= 0 /\ g[c] <= LFin(S.L)[c] })
                   /\ ReadsOK(S.L, Ev.reads, {"since", "round"})
                   /\ S' = r.S
         [] Mode = "monitor" ->
              /\ OffsetIsMin(S.L, LFin(S.L), g, Ev.off)
              /\ S' = S
         [] OTHER -> S' = S

\* the real getSyncPointOffset [C2]: every graph it took from the ring, the last graph and the last
\* non-zero offset are what it returns
RECURSIVE PollN(_, _)
PollN(X, k) == IF k = 0 THEN X ELSE PollN(DoPoll(X).S, k - 1)
PollLoop ==
    /\ IsEvent("PollLoop")
    /\ Ev.res = "ok"
    /\ IF Full
       THEN /\ S.pc = "poll" /\ ~S.have /\ S.offset = 0
            /\ Ev.consumed >= 1 /\ Ev.consumed <= Len(S.pub) /\ ~Ev.isnil
            /\ LET X == PollN(S, Ev.consumed) IN
                 /\ AsGraph(Ev.graph) = X.graph
                 /\ Ev.offset = X.offset
                 /\ ReadsOK(S.L, Ev.reads, {"since", "round"})
                 /\ S' = X
       ELSE S' = S

EndPoll ==
    /\ IsEvent("EndPoll")
    /\ IF Full THEN /\ S.pc = "poll" /\ S.have
                    /\ AsGraph(Ev.hl) = LFin(S.L)
                    /\ Ev.nodes = Cardinality(Chains)
                    /\ S' = DoEndPoll(S)
       ELSE S' = S

HeadEv ==
    /\ IsEvent("Head")
    /\ Ev.res = "ok"
    /\ LET fails == { Ev.fails[k] : k \in DOMAIN Ev.fails }
           g     == AsGraph(Ev.g) IN
       CASE Full ->
              /\ S.pc = "head" /\ S.hc = Ev.c
              /\ g = S.graph /\ AsGraph(Ev.hl) = S.hloc
              /\ LET r == DoHead(S, fails) IN
                   /\ SentIdx(Ev) = r.out.sent
                   /\ SentStored(S.L, Ev.sent) /\ SentTxFirst(Ev.sent)
                   /\ Ev.nr = (IF RemoteRound(g, Ev.c) > SyMax2(0, S.hloc[Ev.c]) THEN 0 ELSE HeadSpan + 1)
                   /\ ReadsOK(S.L, Ev.reads, {"since", "round"})
                   /\ S' = r.S
         [] Mode = "monitor" ->
              /\ SentStored(S.L, Ev.sent) /\ SentTxFirst(Ev.sent)
              /\ HeadSentInRange(S.L, g, Ev.c, SentIdx(Ev))
              /\ S' = S
         [] OTHER -> S' = S

SinceEv ==
    /\ IsEvent("Since")
    /\ Ev.res = "ok"
    /\ LET g == AsGraph(Ev.g) IN
       CASE Full ->
              /\ S.pc = "since" /\ Ev.in = S.offset /\ g = S.graph
              /\ LET r == DoSince(S, Ev.fail) IN
                   /\ Ev.off = r.out.off
                   \* the class is told by the error text only: an unrecognised text (recorded as ERR) is
                   \* accepted wherever the specification ends the pass
                   /\ (Ev.cls = r.out.cls \/ (Ev.cls = "ERR" /\ r.out.cls # "OK"))
                   /\ SentIdx(Ev) = r.out.sent
                   /\ SentStored(S.L, Ev.sent) /\ SentTxFirst(Ev.sent)
                   /\ Len(Ev.reads) = 1 /\ Ev.reads[1].k = "since"
                   /\ Ev.reads[1].off = Ev.in /\ Ev.reads[1].count = Limit
                   /\ Ev.reads[1].rt = TopoSeq(r.out.read)
                   /\ ReadsOK(S.L, Ev.reads, {"since", "round"})
                   /\ S' = r.S
         [] Mode = "monitor" ->
              /\ SentStored(S.L, Ev.sent) /\ SentTxFirst(Ev.sent)
              /\ SinceSentInBounds(S.L, g, SentIdx(Ev))
              /\ SinceSentOrdered(Ev.in, SentIdx(Ev))
              /\ Ev.off >= Ev.in
              /\ (Ev.cls = "OK" => Ev.off > Ev.in)
              /\ ReadsOK(S.L, Ev.reads, {"since"})
              /\ S' = S
         [] OTHER ->
              /\ ReadsOK(S.L, Ev.reads, CursorReads)
              /\ S' = S

Stop ==
    /\ IsEvent("Stop")
    /\ IF Full THEN S.pc = "since" /\ S' = BackToPoll(S) ELSE S' = S

\* ---- the remote node (environment of the code under test; its steps must be enabled)
AdmitEv ==
    /\ IsEvent("Admit")
    /\ IF Full THEN CanAdmit(S, Ev.i) /\ S' = DoAdmit(S, Ev.i) ELSE S' = S
CloseEv ==
    /\ IsEvent("Close")
    /\ IF Full THEN CanClose(S, Ev.c) /\ S' = DoClose(S, Ev.c) ELSE S' = S
ElsewhereEv ==
    /\ IsEvent("Elsewhere")
    /\ IF Full THEN CanLearn(S, Ev.i) /\ S' = Learnt(S, Ev.i) ELSE S' = S
AheadEv ==
    /\ IsEvent("Ahead")
    /\ IF Full THEN CanAhead(S, Ev.c, 1000000) /\ S' = DoAhead(S, Ev.c) ELSE S' = S
SettleEv ==
    /\ IsEvent("Settle")
    /\ IF Full THEN S' = Settle(S) ELSE S' = S

\* the remote is put into any state closed under the kernel's rules
RemoteConsistent(X) ==
    /\ \A i \in X.rcache : i \in DOMAIN X.L /\ X.L[i].n = X.rfin[X.L[i].c] + 1
    /\ \A i \in DOMAIN X.L : (RHas(X, i) /\ X.L[i].n >= 1) =>
          /\ \A j \in ChainPos(X.L, X.L[i].c) : X.L[j].n < X.L[i].n => RHas(X, j)
          /\ RefKnown(X, X.L[i].c, X.L[i].n)
RemoteSet ==
    /\ IsEvent("RemoteSet")
    /\ IF Full
       THEN LET X == [S EXCEPT !.rfin = AsGraph(Ev.rfin), !.rcache = { Ev.rcache[k] : k \in DOMAIN Ev.rcache }, !.rpool = {}] IN
            RemoteConsistent(X) /\ S' = X
       ELSE S' = S

Skip == (IsEvent("Freeze") \/ IsEvent("Start")) /\ S' = S

Next == Reset \/ Grow \/ Publish \/ Poll \/ PollLoop \/ EndPoll \/ HeadEv \/ SinceEv \/ Stop
        \/ AdmitEv \/ CloseEv \/ ElsewhereEv \/ AheadEv \/ SettleEv \/ RemoteSet \/ Skip

Spec == Init /\ [][Next]_vars

HW == HighWaterOf(l)
Accepted == TraceAcceptedAt

\* [S4] nothing the loop sent fell outside the remote's pool window
Inv == Full => ~S.dropped
=============================================================================
