SPECIFICATION Spec
CONSTANTS
  Chains = {1, 2, 3}
  Slack = 2
  HeadSpan = 2
  FutureSpan = 3
  Limit = 3
  Window = 4
  MaxRound = 4
  MaxSnaps = 9
  MaxEarly = 1
  Late = {3}
  MaxPub = 2
  MaxAhead = 1
  Interleave = FALSE
  Faults = TRUE
  RefChoice = FALSE
  RemoteAnytime = TRUE
  Eager = FALSE
  Track = FALSE
VIEW View
ACTION_CONSTRAINT Emit
CHECK_DEADLOCK FALSE
