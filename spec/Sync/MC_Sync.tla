------------------------------ MODULE MC_Sync ------------------------------
(***************************************************************************)
(* Bounded model of graph synchronisation (engine E3 / E1): the local     *)
(* store grows (Grow: a snapshot into the head round, in or out of        *)
(* timestamp order; a new round with an external reference; a late node's *)
(* acceptance), the remote node learns snapshots from other peers          *)
(* (Elsewhere) or runs ahead (Ahead), publishes its graph, and the local   *)
(* node runs the loop of p2p/sync.go for this neighbour (Poll, EndPoll,    *)
(* Head per chain, Since); sent snapshots land in the remote's final pool, *)
(* the remote admits them by the kernel's rules (Admit, Close).            *)
(* Phases keep the product small: "grow" (local store), "init" (remote     *)
(* learns elsewhere), "sync" (the loop; Interleave = TRUE lets the store   *)
(* and the other peers go on during the loop).                             *)
(***************************************************************************)
EXTENDS Sync, Json

CONSTANTS MaxRound, MaxSnaps, MaxEarly, Late, MaxPub, MaxAhead, Interleave, Faults, RefChoice, RemoteAnytime, Eager, Track

VARIABLES S, ctl, last
vars == <<S, ctl, last>>

Genesis == Chains \ Late
GenSeq == LET n == Cardinality(Genesis) IN
          [k \in 1..n |-> CHOOSE c \in Genesis : Cardinality({ d \in Genesis : d < c }) = k - 1]
NextGen(c) == IF \E d \in Genesis : d > c THEN SyMinOf({ d \in Genesis : d > c }) ELSE SyMinOf(Genesis)

InitS ==
    [L      |-> [k \in 1..Len(GenSeq) |-> [c |-> GenSeq[k], n |-> 0, t |-> 0]],
     ref    |-> [c \in Chains |-> IF c \in Genesis THEN << [e |-> NextGen(c), m |-> 0] >> ELSE <<>>],
     rfin   |-> [c \in Chains |-> IF c \in Genesis THEN 0 ELSE -1],
     rcache |-> {}, rpool |-> {},
     pub    |-> <<>>, graph |-> NoGraph, have |-> FALSE, offset |-> 0,
     pc     |-> "poll", hc |-> 0, hloc |-> NoGraph, hlen |-> 0,
     dropped |-> FALSE]

Init == /\ S = InitS
        /\ ctl = [ph |-> "grow", early |-> 0, ahead |-> 0, pass |-> 0, cur |-> {}, scan |-> {}]
        /\ last = [op |-> "Init"]

lf == LFin(S.L)

\* external reference of a new round: the latest final round of another chain the node has
RefTargets(c) == LET T == { e \in Chains \ {c} : lf[e] >= 0 } IN
                 IF RefChoice THEN T ELSE IF T = {} THEN {} ELSE
                    {IF \E e \in T : e > c THEN SyMinOf({ e \in T : e > c }) ELSE SyMinOf(T)}

TsOf(P, early) == IF P = {} THEN 0
                  ELSE IF early THEN SyMinOf({ S.L[i].t : i \in P }) - 1
                  ELSE SyMaxOf({ S.L[i].t : i \in P }) + 1

GrowOK == Len(S.L) < MaxSnaps /\ (ctl.ph = "grow" \/ (Interleave /\ ctl.ph = "sync"))

GrowSame(c, early) ==
    /\ GrowOK /\ lf[c] >= 0 /\ lf[c] + 1 <= MaxRound
    /\ LET n == lf[c] + 1
           P == RoundPos(S.L, c, n) IN
       /\ early => (P # {} /\ ctl.early < MaxEarly)
       /\ S' = [S EXCEPT !.L = Append(S.L, [c |-> c, n |-> n, t |-> TsOf(P, early)])]
       /\ ctl' = [ctl EXCEPT !.early = IF early THEN ctl.early + 1 ELSE ctl.early]
       /\ last' = [op |-> "Grow", c |-> c, n |-> n, t |-> TsOf(P, early), new |-> FALSE, e |-> 0, m |-> 0]

GrowNew(c, e) ==
    /\ GrowOK /\ lf[c] >= 0 /\ lf[c] + 2 <= MaxRound
    /\ RoundPos(S.L, c, lf[c] + 1) # {}
    /\ e \in RefTargets(c)
    /\ S' = [S EXCEPT !.L = Append(S.L, [c |-> c, n |-> lf[c] + 2, t |-> 0]),
                      !.ref[c] = Append(S.ref[c], [e |-> e, m |-> lf[e]])]
    /\ ctl' = ctl
    /\ last' = [op |-> "Grow", c |-> c, n |-> lf[c] + 2, t |-> 0, new |-> TRUE, e |-> e, m |-> lf[e]]

GrowAccept(c, e) ==
    /\ GrowOK /\ lf[c] = -1
    /\ e \in RefTargets(c)
    /\ S' = [S EXCEPT !.L = Append(S.L, [c |-> c, n |-> 0, t |-> 0]),
                      !.ref[c] = << [e |-> e, m |-> lf[e]] >>]
    /\ ctl' = ctl
    /\ last' = [op |-> "Grow", c |-> c, n |-> 0, t |-> 0, new |-> TRUE, e |-> e, m |-> lf[e]]

Grow == \E c \in Chains : \/ \E early \in BOOLEAN : GrowSame(c, early)
                          \/ \E e \in Chains : GrowNew(c, e) \/ GrowAccept(c, e)

Freeze == /\ ctl.ph = "grow" /\ ctl' = [ctl EXCEPT !.ph = "init"] /\ S' = S /\ last' = [op |-> "Freeze"]
Start  == /\ ctl.ph = "init" /\ ctl' = [ctl EXCEPT !.ph = "sync"] /\ S' = S /\ last' = [op |-> "Start"]

\* ---- the remote node
\* RemoteAnytime = FALSE: the remote's steps are taken between two passes of the loop only (they commute
\* with the deliveries of a pass: a snapshot delivered after it was admitted is not pooled, one delivered
\* before is pooled and then admitted)
\* Eager = TRUE: admissions are not steps of their own, the pool is settled at the end of every step of the
\* loop that delivered something (same reachable remote states, no intermediate pool states)
RemoteOK == ctl.ph = "sync" /\ (RemoteAnytime \/ S.pc = "poll")
Stl(X) == IF Eager THEN Settle(X) ELSE X
ElseOK == ctl.ph = "init" \/ (Interleave /\ RemoteOK)

Elsewhere(i) ==
    /\ ElseOK /\ CanLearn(S, i)
    /\ S' = Learnt(S, i)
    /\ last' = [op |-> "Elsewhere", i |-> i] /\ ctl' = ctl

Ahead(c) ==
    /\ ElseOK /\ ctl.ahead < MaxAhead /\ CanAhead(S, c, MaxRound + 1)
    /\ S' = DoAhead(S, c)
    /\ last' = [op |-> "Ahead", c |-> c] /\ ctl' = [ctl EXCEPT !.ahead = ctl.ahead + 1]

Admit(i) ==
    /\ RemoteOK /\ ~Eager /\ CanAdmit(S, i)
    /\ S' = DoAdmit(S, i)
    /\ last' = [op |-> "Admit", i |-> i] /\ ctl' = ctl

Close(c) ==
    /\ RemoteOK /\ ~Eager /\ CanClose(S, c)
    /\ S' = DoClose(S, c)
    /\ last' = [op |-> "Close", c |-> c] /\ ctl' = ctl

Publish ==
    /\ RemoteOK /\ Len(S.pub) < MaxPub
    /\ (S.pub # <<>> => S.pub[Len(S.pub)] # S.rfin)
    /\ S' = DoPublish(S)
    /\ last' = [op |-> "Publish", g |-> S.rfin] /\ ctl' = ctl

\* ---- the loop of p2p/sync.go
Poll ==
    /\ ctl.ph = "sync" /\ S.pc = "poll" /\ S.pub # <<>>
    /\ LET r == DoPoll(S) IN S' = r.S /\ last' = [op |-> "Poll"] @@ r.out
    /\ ctl' = ctl

EndPoll ==
    /\ ctl.ph = "sync" /\ S.pc = "poll" /\ S.have
    /\ S' = DoEndPoll(S) /\ last' = [op |-> "EndPoll"]
    /\ ctl' = IF Track /\ ~AllHeld(S) THEN [ctl EXCEPT !.pass = ctl.pass + 1] ELSE ctl

FailSets(P) == IF Faults THEN {{}} \cup { {i} : i \in P } ELSE {{}}

HeadStep ==
    /\ ctl.ph = "sync" /\ S.pc = "head"
    /\ \E fails \in FailSets(RoundPos(S.L, S.hc, RemoteRound(S.graph, S.hc) + 1)) :
         LET r == DoHead(S, fails) IN
           /\ S' = Stl(r.S)
           /\ last' = [op |-> "Head", fails |-> fails, g |-> S.graph, hl |-> S.hloc] @@ r.out
    /\ ctl' = ctl

SinceStep ==
    /\ ctl.ph = "sync" /\ S.pc = "since"
    /\ \E fail \in (IF Faults THEN {0, S.offset + 2} ELSE {0}) :
         LET r == DoSince(S, fail) IN
           /\ S' = Stl(r.S)
           /\ last' = [op |-> "Since", fail |-> fail] @@ r.out
           /\ ctl' = IF ~Track THEN ctl
                     ELSE LET rd == { r.out.read[k] : k \in DOMAIN r.out.read } IN
                          IF r.out.cls = "OK" THEN [ctl EXCEPT !.cur = ctl.cur \cup rd]
                          ELSE [ctl EXCEPT !.cur = {}, !.scan = ctl.scan \cup ctl.cur \cup rd]

Remote == (\E i \in DOMAIN S.L : Elsewhere(i) \/ Admit(i)) \/ (\E c \in Chains : Ahead(c) \/ Close(c))
Loop == Poll \/ EndPoll \/ HeadStep \/ SinceStep
Next == Grow \/ Freeze \/ Start \/ Remote \/ Publish \/ Loop

Spec == Init /\ [][Next]_vars

Fair == /\ WF_vars(Publish) /\ WF_vars(Poll) /\ WF_vars(EndPoll) /\ WF_vars(HeadStep) /\ WF_vars(SinceStep)
        /\ WF_vars(Freeze) /\ WF_vars(Start)
        /\ \A c \in Chains : WF_vars(Close(c))
        /\ \A i \in 1..MaxSnaps : WF_vars(Admit(i))
FairSpec == Spec /\ Fair

View == <<S, ctl>>

-----------------------------------------------------------------------------
(* structure of the remote state: what it holds is closed under the kernel's rules *)
TypeOK ==
    /\ \A i \in S.rcache : S.L[i].n = S.rfin[S.L[i].c] + 1
    /\ \A i \in S.rpool : ~RHas(S, i) /\ InWindow(S, i)
    /\ \A c \in Chains : S.rfin[c] >= -1
    /\ S.pc = "since" => S.offset > 0
    /\ S.offset >= 0 /\ S.offset < Len(S.L)

\* the remote never holds a round without the rounds it rests on
RemoteClosed ==
    \A i \in DOMAIN S.L : (RHas(S, i) /\ S.L[i].n >= 1) =>
        /\ \A j \in ChainPos(S.L, S.L[i].c) : S.L[j].n < S.L[i].n => RHas(S, j)
        /\ RefKnown(S, S.L[i].c, S.L[i].n)

(* ---- statements about the calls (action properties) *)
IsOp(o) == last'.op = o

\* [S3] syncToNeighborSince sends nothing below the published final round, nothing at or beyond FUTURE,
\*      in increasing position order from the cursor on; the cursor never moves backwards
SinceSafe == [][IsOp("Since") =>
                 /\ SinceSentInBounds(S.L, last'.g, last'.sent)
                 /\ SinceSentOrdered(last'.in, last'.sent)
                 /\ last'.off >= last'.in
                 /\ (last'.cls = "OK" => last'.off > last'.in)]_vars

\* [S4] nothing the loop sends is lost to the remote's pool window (2 * Threshold, Threshold + 2 < FinalPoolSlotsLimit)
NeverDropped == ~S.dropped

\* [S5] the offset is the minimum over the considered chains of the position of ss[0] of round remote+2
OffsetMin == [][IsOp("Poll") => OffsetIsMin(S.L, LFin(S.L), last'.g, last'.off)]_vars

\* [S5'] (expected of the code, see the comment in sync.go) nothing of rounds >= remote+2 of a considered
\*       chain lies before the offset. Does NOT hold when a round was stored out of timestamp order.
OffsetBeforeAhead == [][(IsOp("Poll") /\ last'.off > 0) => OffsetBeforeAllAhead(S.L, LFin(S.L), last'.g, last'.off)]_vars

HeadSafe == [][IsOp("Head") => HeadSentInRange(S.L, last'.g, last'.c, last'.sent)]_vars

\* [S6] the frontier: the first snapshot (in local order) the remote lacks is sent by the head push of a
\*      pass whose graph is still the remote's state (no growth during the pass)
Frontier == SyMinOf(Lacking(S))
PassEnded == IsOp("Head") /\ S'.hc = 0
HeadCoversFrontier ==
    [][(PassEnded /\ S.graph = S'.rfin /\ S.hlen = Len(S'.L) /\ Lacking(S') # {}) =>
          LET S2 == S' IN SyMinOf(Lacking(S2)) \in S2.rpool]_vars

\* [S7] a whole pass (head push + stream) with a fresh graph leaves in the pool every snapshot the remote
\*      can admit next: every chain's next needed snapshot below the FUTURE bound
(* ---- progress *)
Done == ctl.ph = "sync" /\ AllHeld(S)
Progress == <>[]AllHeld(S)

(* ---- efficiency (statements that are NOT expected to hold; TLC exhibits the shapes) *)
\* every snapshot sent is one the remote lacks (fails: round = remote final round is always re-sent,
\* the last snapshot of a full batch is sent twice)
NoWaste == [][(IsOp("Since") \/ IsOp("Head")) => \A k \in DOMAIN last'.sent : ~RHas(S, last'.sent[k])]_vars
\* the stream reads only from the first lacking snapshot on (fails: the FIXME of sync.go)
NoWastedScan == [][(IsOp("Since") /\ Lacking(S) # {}) =>
                     \A k \in DOMAIN last'.read : last'.read[k] >= SyMinOf(Lacking(S))]_vars

\* a position is read by the stream in one pass only (fails: after FUTURE the next pass starts again from
\* the offset of the slowest chain; needs Track = TRUE)
NoRescan == [][IsOp("Since") => \A k \in DOMAIN last'.read : last'.read[k] \notin ctl.scan]_vars
NoRescanFresh == [][(IsOp("Since") /\ S.graph = S.rfin) => \A k \in DOMAIN last'.read : last'.read[k] \notin ctl.scan]_vars
\* number of passes started while the remote lacks something (Track = TRUE); PassBound(k) as invariant
PassBound2 == ctl.pass <= 2
PassBound3 == ctl.pass <= 3
PassBound4 == ctl.pass <= 4
PassBound5 == ctl.pass <= 5

(* ---- non-vacuity witnesses (must be violated) *)
ReachFuture == [][~(IsOp("Since") /\ last'.cls = "FUTURE" /\ last'.sent # <<>>)]_vars
ReachOK     == [][~(IsOp("Since") /\ last'.cls = "OK")]_vars
ReachSkip   == [][~(IsOp("Since") /\ Len(last'.sent) < Len(last'.read) /\ last'.cls = "EOF" /\ last'.sent # <<>>)]_vars
ReachDone   == ~(Done /\ Len(S.L) = MaxSnaps /\ \E c \in Chains : LFinOf(S.L, c) >= 2)
ReachAheadSkip == [][~(IsOp("Poll") /\ \E c \in Chains : last'.g[c] > LFinOf(S.L, c) /\ last'.off > 0)]_vars
ReachLate   == [][~(IsOp("Poll") /\ last'.off > 0 /\ \E c \in Chains : last'.g[c] = -1 /\ LFinOf(S.L, c) >= 1)]_vars

(* ---- emission for E1 *)
Proj(X) == [L |-> X.L, rfin |-> X.rfin, rcache |-> X.rcache, rpool |-> X.rpool, pub |-> X.pub,
            graph |-> X.graph, have |-> X.have, offset |-> X.offset, pc |-> X.pc, hc |-> X.hc, hloc |-> X.hloc]
Emit == PrintT("EDGE " \o ToJson([from |-> [s |-> Proj(S), ph |-> ctl.ph], o |-> last', to |-> [s |-> Proj(S'), ph |-> ctl'.ph]]))
=============================================================================
