SPECIFICATION Spec
CONSTANTS
  Chains = {1, 2, 3}
  Slack = 2
  HeadSpan = 2
  FutureSpan = 3
  Limit = 3
  Window = 4
  MaxRound = 3
  MaxSnaps = 6
  MaxEarly = 1
  Late = {}
  MaxPub = 1
  MaxAhead = 0
  Interleave = FALSE
  Faults = FALSE
  RefChoice = FALSE
  RemoteAnytime = FALSE
  Eager = TRUE
  Track = TRUE
VIEW View
PROPERTY NoRescanFresh
CHECK_DEADLOCK FALSE
