SPECIFICATION Spec
CONSTANTS
  Chains = {1, 2, 3}
  Slack = 2
  HeadSpan = 2
  FutureSpan = 3
  Limit = 3
  Window = 4
  MaxRound = 3
  MaxSnaps = 6
  MaxEarly = 1
  Late = {3}
  MaxPub = 1
  MaxAhead = 1
  Interleave = FALSE
  Faults = FALSE
  RefChoice = FALSE
  RemoteAnytime = FALSE
  Eager = TRUE
  Track = FALSE
VIEW View
INVARIANT TypeOK
INVARIANT RemoteClosed
INVARIANT NeverDropped
PROPERTY SinceSafe
PROPERTY OffsetMin
PROPERTY HeadSafe
PROPERTY HeadCoversFrontier
CHECK_DEADLOCK FALSE
