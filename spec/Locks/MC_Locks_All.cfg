SPECIFICATION Spec
CONSTANTS
  Tx <- TxAll
  TxDef <- TxDefAll
  USlot = {"u1","u2"}
  DSlot = {"d1"}
  Batch = {"b1"}
  GKey = {"k1","k2","k3"}
  None <- NoneV
VIEW View
INVARIANT Inv
PROPERTY StepProp
CHECK_DEADLOCK FALSE
