--------------------------- MODULE MC_LocksProof ---------------------------
(* TLC-checkable instance of the parametric module LocksProof: the same     *)
(* definitions with small constants, so that the machine about which TLAPS  *)
(* proves the theorems is also explored exhaustively by TLC (invariants and *)
(* action properties), and the non-vacuity witnesses show that takeover,    *)
(* finalization and refusal are all reachable in it.                        *)
(* LocksProof EXTENDS TLAPS (for the PTL pragma); TLC only has to parse     *)
(* that module, so spec/Locks/TLAPS.tla is a verbatim copy of the file of   *)
(* the installed tlapm (lib/tlapm/stdlib/TLAPS.tla).                        *)
(*   tlc -workers 4 -config MC_LocksProof_A.cfg MC_LocksProof.tla   (and _B) *)
(*   MC_LocksProof_wit_*.cfg: the named property must be VIOLATED           *)
EXTENDS LocksProof

NoneV == "None"

\* family A: three spenders, pairwise overlapping input sets
TxA  == {"T1", "T2", "T3"}
OutA == {"u1", "u2", "u3"}
InsA == [t \in TxA |-> CASE t = "T1" -> {"u1", "u2"}
                         [] t = "T2" -> {"u2", "u3"}
                         [] t = "T3" -> {"u1", "u3"}]

\* family B: four spenders: one without inputs, one spending every output, two disjoint ones
TxB  == {"T0", "T1", "T2", "T3"}
OutB == {"u1", "u2", "u3", "u4"}
InsB == [t \in TxB |-> CASE t = "T0" -> {}
                         [] t = "T1" -> {"u1", "u2"}
                         [] t = "T2" -> {"u3", "u4"}
                         [] t = "T3" -> OutB]

AssumptionsHold == None \notin Tx /\ Ins \in [Tx -> SUBSET Out]
ASSUME AssumptionsHold

FinalKeptProp == [][FinalKept]_vars
StepProp      == [][StepOK]_vars
\* the theorems Relock and LockSucceeds as action properties
RelockProp    == [][\A t \in Tx : Holds(t) =>
                       /\ Others(t) = {}
                       /\ (LockOrdinary(t) \/ LockFork(t) => UNCHANGED vars)]_vars
SucceedsProp  == [][\A t \in Tx : LockOrdinary(t) \/ LockFork(t) => Holds(t)']_vars

\* Non-vacuity witnesses: each must be VIOLATED (i.e. the situation is reachable).
\* a stored pending holder has been displaced by a fork lock: its body is gone, another holds its input
NoTakeover == [][~(\E t \in Tx : LockFork(t) /\ body' # body)]_vars
\* a finalized transaction exists while another transaction wants one of its inputs
NoFinalConflict == ~(\E t \in final : \E u \in Tx : u # t /\ Ins[u] \cap Ins[t] # {})
\* a refused lock is reachable
NoRefusal == ~(\E t \in Tx : Others(t) # {})
=============================================================================
