----------------------------- MODULE LocksTable -----------------------------
(* The transaction universe shared by MC_Locks (exhaustive model, edge       *)
(* emission), Trace_Locks (trace validation) and the Go harness              *)
(* harness/inpkg/storage/zz_verif_locks_test.go (vlTxDefs).                  *)
U(ins, keys) == [kind |-> "utxo", ins |-> ins, dep |-> "-", batch |-> "-", amt |-> 0, keys |-> keys]
D(dep, keys) == [kind |-> "deposit", ins |-> <<>>, dep |-> dep, batch |-> "-", amt |-> 0, keys |-> keys]
M(b, a, keys) == [kind |-> "mint", ins |-> <<>>, dep |-> "-", batch |-> b, amt |-> a, keys |-> keys]

TxU == {"T1", "T2", "T3", "T4", "D1", "D2", "D3", "M1", "M2", "M3"}
TxDefU == [t \in TxU |->
   CASE t = "T1" -> U(<<"u1">>, <<"k1">>)
     [] t = "T2" -> U(<<"u1", "u2">>, <<"k1", "k2">>)      \* shares u1/k1 with T1
     [] t = "T3" -> U(<<"u2">>, <<"k3", "k3">>)            \* repeats a key among its own outputs
     [] t = "T4" -> U(<<"u2", "u3">>, <<"k4">>)
     [] t = "D1" -> D("d1", <<"k1">>)
     [] t = "D2" -> D("d1", <<"k2">>)                      \* same external identifier as D1
     [] t = "D3" -> D("d2", <<"k1">>)                      \* identifier differing in one component
     [] t = "M1" -> M("b1", 5, <<"k1">>)
     [] t = "M2" -> M("b1", 7, <<"k2">>)                   \* same batch, other amount
     [] t = "M3" -> M("b2", 5, <<"k1">>)]

USlotU == {"u1", "u2", "u3"}
DSlotU == {"d1", "d2"}
BatchU == {"b1", "b2"}
GKeyU  == {"k1", "k2", "k3", "k4"}
=============================================================================
