------------------------------ MODULE MC_Locks ------------------------------
(* Exhaustive bounded model of the reservation machine (engine E3) and the   *)
(* edge emitter that feeds the replayer (engine E1).                         *)
EXTENDS Locks, LocksTable, Json

VARIABLES S, last
vars == <<S, last>>

NoneV == "None"

TxA == {"T1", "T2", "T3"}
TxB == {"D1", "D2", "D3", "T1"}
TxC == {"M1", "M2", "M3"}
TxAll == {"T1", "T2", "T3", "D1", "D2", "M1", "M2"}
TxDefA == [t \in TxA |-> TxDefU[t]]
TxDefB == [t \in TxB |-> TxDefU[t]]
TxDefC == [t \in TxC |-> TxDefU[t]]
TxDefAll == [t \in TxAll |-> TxDefU[t]]

Init == S = InitState /\ last = [o |-> [op |-> "Init"], ok |-> TRUE]

Next == \E o \in Ops :
          /\ Enabled(S, o)
          /\ LET r == Apply(S, o) IN
               /\ S' = r.S
               /\ last' = [o |-> o, ok |-> r.ok]

Spec == Init /\ [][Next]_vars

View == S

Inv == StateInv(S)

StepProp == [][StepOK(S, last'.o, last'.ok, S')]_vars

\* Non-vacuity witnesses: each must be *violated* (reachable) in a sanity run.
ReachTakeover == ~(\E t \in Tx : last.o.op = "LockIn" /\ last.ok /\ last.o.fork
                                 /\ \E h \in Tx : h # t /\ ~S.body[h] /\ ~S.final[h])

Emit == PrintT("EDGE " \o ToJson([from |-> S, o |-> last'.o, ok |-> last'.ok, to |-> S']))
=============================================================================
