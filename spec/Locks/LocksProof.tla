----------------------------- MODULE LocksProof -----------------------------
(***************************************************************************)
(* Unbounded (parametric) TLAPS proof of the core of property C03 for the  *)
(* UTXO part of the storage reservation machine of spec/Locks/Locks.tla.   *)
(* Tx and Out are arbitrary sets (finite or infinite), Ins is an arbitrary *)
(* function [Tx -> SUBSET Out] (input sets may overlap in any way, may be  *)
(* empty or infinite).  TLC checks Locks.tla for 3-4 transactions over 2   *)
(* slots; this module removes that bound for the statements listed under   *)
(* "Proved" and nothing else.                                              *)
(*                                                                         *)
(* Correspondence with Locks.tla (state record S there, three variables    *)
(* here):                                                                  *)
(*   Tx, None            = Tx, None of Locks.tla                           *)
(*   Out                 = USlot                                           *)
(*   Ins[t]              = InsOf(t) for TxDef[t].kind = "utxo" (the SET of *)
(*                         input slots; the order of TxDef[t].ins is       *)
(*                         irrelevant to LockUTXOs)                        *)
(*   holder              = S.ul                                            *)
(*   body                = { t \in Tx : S.body[t] }                        *)
(*   final               = { t \in Tx : S.final[t] }                       *)
(*   Others(t)           = others in LockUTXOs(S, t, fork)                 *)
(*   Take(t)             = the new S.ul in both Ok branches of LockUTXOs   *)
(*   h \notin final       = CanPrune(S, h)                                 *)
(*   Holds(t)            = HoldsInputs(S, t), utxo case = WriteTxEnabled   *)
(*   LockOrdinary(t)     = LockIn(S, t, FALSE) returning Ok: LockUTXOs     *)
(*                         branch others = {}                              *)
(*   LockFork(t)         = LockIn(S, t, TRUE) returning Ok: LockUTXOs      *)
(*                         branches others = {} (body \ {} = body) and     *)
(*                         "every other holder can be pruned" (ul := Take, *)
(*                         body of every displaced holder := FALSE)        *)
(*   LockFail(t)         = every Fail(S) branch of LockUTXOs (ordinary     *)
(*                         lock against another holder; fork lock against  *)
(*                         a finalized holder): the state is unchanged     *)
(*   Store(t)            = WriteTx(S, t) under WriteTxEnabled(S, t)        *)
(*   Finalize(t)         = Finalize(S, t) under FinalizeEnabled(S, t),     *)
(*                         Ok branches (already final: no change; first    *)
(*                         finalization: final[t] := TRUE)                 *)
(*   Init                = InitState                                       *)
(*   BodyHoldsInputs     = BodyHoldsInputs(S)                              *)
(*   FinalHasBody /\ BodyHoldsInputs = FinalKeepsSlots(S)                  *)
(*   NoDoubleSpend       = first conjunct of NoDoubleSpend(S)              *)
(*   FinalKept, Displaced, FinalPermanent, BodyLoss = the slot clauses of  *)
(*                         StepOK03 for USlot                              *)
(*                                                                         *)
(* Abstracted away / left out (NOT covered by this proof):                 *)
(*   - deposits and mints (S.dl, S.ml, LockDeposit, LockMint): left out.   *)
(*   - one-time keys (S.ghost, LockGhost, property C04): left out.  In     *)
(*     Locks.tla a first finalization fails when an output key belongs to  *)
(*     another transaction; here Finalize(t) is enabled whenever t has a   *)
(*     body, i.e. this machine has MORE behaviours on the three variables  *)
(*     (a failed finalization is a stuttering step), so the safety         *)
(*     statements proved here carry over.                                  *)
(*   - the result flag (ok) of an operation and the  last  bookkeeping of  *)
(*     MC_Locks: a failed call is a stuttering step (LockFail).            *)
(*   - everything below the model: Badger atomicity, the store mutex, the  *)
(*     correspondence of Locks.tla with the Go code (that is what the      *)
(*     replay and the trace validation of C03 establish, for bounded       *)
(*     families).                                                          *)
(*                                                                         *)
(* Proved (for all Tx, Out, None, Ins with None \notin Tx and              *)
(* Ins \in [Tx -> SUBSET Out]):                                            *)
(*   TypeCorrect          Spec => []TypeOK                                 *)
(*   InvCorrect           Spec => []Inv      (Inv = TypeOK /\ every stored *)
(*                        transaction holds all its inputs /\ final is a   *)
(*                        subset of body)                                  *)
(*   NoDoubleSpendCorrect Spec => []NoDoubleSpend                          *)
(*   FinalKeptCorrect     Spec => [][FinalKept]_vars  (a finalized holder  *)
(*                        is never displaced)                              *)
(*   StepCorrect          Spec => [][StepOK]_vars  (a holder changes only  *)
(*                        if it is not finalized and its body is gone in   *)
(*                        the same step; finalization is permanent; a body *)
(*                        disappears only when an output it held is taken) *)
(*   Relock               re-locking by the holder succeeds and changes    *)
(*                        nothing; LockSucceeds: a successful lock leaves  *)
(*                        the caller holding all its inputs                *)
(* MC_LocksProof.tla instantiates the same module with small constants and *)
(* lets TLC check the same invariants and action properties.               *)
(***************************************************************************)
EXTENDS TLAPS

CONSTANTS Tx, Out, None, Ins

ASSUME NoneNotTx == None \notin Tx
ASSUME InsType   == Ins \in [Tx -> SUBSET Out]

VARIABLES holder, body, final
vars == <<holder, body, final>>

\* holders of t's inputs other than t itself
Others(t) == { holder[o] : o \in Ins[t] } \ {None, t}
Holds(t)  == \A o \in Ins[t] : holder[o] = t
Take(t)   == [o \in Out |-> IF o \in Ins[t] THEN t ELSE holder[o]]

Init == /\ holder = [o \in Out |-> None]
        /\ body = {}
        /\ final = {}

\* ordinary lock: succeeds only if no other transaction holds an input; all inputs or none
LockOrdinary(t) ==
    /\ Others(t) = {}
    /\ holder' = Take(t)
    /\ UNCHANGED <<body, final>>

\* finalization-path lock: displaces PENDING holders and deletes their bodies in the same step;
\* refused if any other holder is finalized
LockFork(t) ==
    /\ \A h \in Others(t) : h \notin final
    /\ holder' = Take(t)
    /\ body' = body \ Others(t)
    /\ UNCHANGED final

\* refused lock (either kind): nothing changes
LockFail(t) ==
    /\ Others(t) # {}
    /\ UNCHANGED vars

\* WriteTransaction: legal only when t holds its inputs (the code aborts otherwise)
Store(t) ==
    /\ Holds(t)
    /\ body' = body \cup {t}
    /\ UNCHANGED <<holder, final>>

\* WriteSnapshot of a snapshot holding t: needs the body; idempotent
Finalize(t) ==
    /\ t \in body
    /\ final' = final \cup {t}
    /\ UNCHANGED <<holder, body>>

Next == \E t \in Tx : LockOrdinary(t) \/ LockFork(t) \/ LockFail(t) \/ Store(t) \/ Finalize(t)

Spec == Init /\ [][Next]_vars

TypeOK == /\ holder \in [Out -> Tx \cup {None}]
          /\ body \subseteq Tx
          /\ final \subseteq Tx

BodyHoldsInputs == \A t \in body : \A o \in Ins[t] : holder[o] = t
FinalHasBody    == final \subseteq body
Inv == TypeOK /\ BodyHoldsInputs /\ FinalHasBody

NoDoubleSpend == \A t1, t2 \in final : t1 # t2 => Ins[t1] \cap Ins[t2] = {}

FinalKept == \A o \in Out : holder[o] \in final => holder'[o] = holder[o]

\* a held output changes hands only away from a holder that is not finalized and whose body is gone afterwards
Displaced == \A o \in Out : holder[o] \in Tx /\ holder'[o] # holder[o] =>
                 holder[o] \notin final /\ holder[o] \notin body'
FinalPermanent == final \subseteq final'
\* a body disappears only in a step that takes an output its transaction held
BodyLoss == \A t \in body : t \notin body' => \E o \in Out : holder[o] = t /\ holder'[o] # t
StepOK == FinalKept /\ Displaced /\ FinalPermanent /\ BodyLoss

THEOREM InvImpliesNoDoubleSpend == Inv => NoDoubleSpend
  BY InsType DEF Inv, TypeOK, BodyHoldsInputs, FinalHasBody, NoDoubleSpend

LEMMA TypeInit == Init => TypeOK
  BY DEF Init, TypeOK

LEMMA TypeNext == TypeOK /\ [Next]_vars => TypeOK'
  <1> SUFFICES ASSUME TypeOK, [Next]_vars PROVE TypeOK'
      OBVIOUS
  <1>1. ASSUME NEW t \in Tx, LockOrdinary(t) PROVE TypeOK'
        BY <1>1, InsType DEF LockOrdinary, Take, TypeOK
  <1>2. ASSUME NEW t \in Tx, LockFork(t) PROVE TypeOK'
        BY <1>2, InsType DEF LockFork, Take, TypeOK
  <1>3. ASSUME NEW t \in Tx, LockFail(t) PROVE TypeOK'
        BY <1>3 DEF LockFail, vars, TypeOK
  <1>4. ASSUME NEW t \in Tx, Store(t) PROVE TypeOK'
        BY <1>4 DEF Store, TypeOK
  <1>5. ASSUME NEW t \in Tx, Finalize(t) PROVE TypeOK'
        BY <1>5 DEF Finalize, TypeOK
  <1>6. ASSUME UNCHANGED vars PROVE TypeOK'
        BY <1>6 DEF vars, TypeOK
  <1> QED BY <1>1, <1>2, <1>3, <1>4, <1>5, <1>6 DEF Next

THEOREM TypeCorrect == Spec => []TypeOK
  <1>1. Init => TypeOK BY TypeInit
  <1>2. TypeOK /\ [Next]_vars => TypeOK' BY TypeNext
  <1> QED BY <1>1, <1>2, PTL DEF Spec

LEMMA InvInit == Init => Inv
  BY DEF Init, Inv, TypeOK, BodyHoldsInputs, FinalHasBody

LEMMA InvNext == Inv /\ [Next]_vars => Inv'
  <1> SUFFICES ASSUME Inv, [Next]_vars PROVE Inv'
      OBVIOUS
  <1> TypeOK' BY TypeNext DEF Inv
  <1>1. ASSUME NEW t \in Tx, LockOrdinary(t) PROVE Inv'
        BY <1>1, InsType, NoneNotTx DEF LockOrdinary, Take, Others, Inv, TypeOK, BodyHoldsInputs, FinalHasBody
  <1>2. ASSUME NEW t \in Tx, LockFork(t) PROVE Inv'
        BY <1>2, InsType, NoneNotTx DEF LockFork, Take, Others, Inv, TypeOK, BodyHoldsInputs, FinalHasBody
  <1>3. ASSUME NEW t \in Tx, LockFail(t) PROVE Inv'
        BY <1>3 DEF LockFail, vars, Inv, TypeOK, BodyHoldsInputs, FinalHasBody
  <1>4. ASSUME NEW t \in Tx, Store(t) PROVE Inv'
        BY <1>4, InsType DEF Store, Holds, Inv, TypeOK, BodyHoldsInputs, FinalHasBody
  <1>5. ASSUME NEW t \in Tx, Finalize(t) PROVE Inv'
        BY <1>5 DEF Finalize, Inv, TypeOK, BodyHoldsInputs, FinalHasBody
  <1>6. ASSUME UNCHANGED vars PROVE Inv'
        BY <1>6 DEF vars, Inv, TypeOK, BodyHoldsInputs, FinalHasBody
  <1> QED BY <1>1, <1>2, <1>3, <1>4, <1>5, <1>6 DEF Next

THEOREM InvCorrect == Spec => []Inv
  <1>1. Init => Inv BY InvInit
  <1>2. Inv /\ [Next]_vars => Inv' BY InvNext
  <1> QED BY <1>1, <1>2, PTL DEF Spec

THEOREM NoDoubleSpendCorrect == Spec => []NoDoubleSpend
  <1>1. Inv => NoDoubleSpend BY InvImpliesNoDoubleSpend
  <1> QED BY <1>1, InvCorrect, PTL

LEMMA FinalKeptNext == TypeOK /\ [Next]_vars => [FinalKept]_vars
  <1> SUFFICES ASSUME TypeOK, Next PROVE FinalKept
      OBVIOUS
  <1>1. ASSUME NEW t \in Tx, LockOrdinary(t) PROVE FinalKept
        BY <1>1, InsType, NoneNotTx DEF LockOrdinary, Take, Others, TypeOK, FinalKept
  <1>2. ASSUME NEW t \in Tx, LockFork(t) PROVE FinalKept
        BY <1>2, InsType, NoneNotTx DEF LockFork, Take, Others, TypeOK, FinalKept
  <1>3. ASSUME NEW t \in Tx, LockFail(t) PROVE FinalKept
        BY <1>3 DEF LockFail, vars, FinalKept
  <1>4. ASSUME NEW t \in Tx, Store(t) PROVE FinalKept
        BY <1>4 DEF Store, FinalKept
  <1>5. ASSUME NEW t \in Tx, Finalize(t) PROVE FinalKept
        BY <1>5 DEF Finalize, FinalKept
  <1> QED BY <1>1, <1>2, <1>3, <1>4, <1>5 DEF Next

THEOREM FinalKeptCorrect == Spec => [][FinalKept]_vars
  <1>1. TypeOK /\ [Next]_vars => [FinalKept]_vars BY FinalKeptNext
  <1> QED BY <1>1, TypeCorrect, PTL DEF Spec

LEMMA StepNext == Inv /\ [Next]_vars => [StepOK]_vars
  <1> SUFFICES ASSUME Inv, Next PROVE StepOK
      OBVIOUS
  <1> TypeOK /\ BodyHoldsInputs BY DEF Inv
  <1> FinalKept BY FinalKeptNext DEF vars, FinalKept
  <1>1. ASSUME NEW t \in Tx, LockOrdinary(t) PROVE Displaced /\ FinalPermanent /\ BodyLoss
        BY <1>1, InsType, NoneNotTx DEF LockOrdinary, Take, Others, TypeOK, Displaced, FinalPermanent, BodyLoss
  <1>2. ASSUME NEW t \in Tx, LockFork(t) PROVE Displaced /\ FinalPermanent /\ BodyLoss
    <2>1. Displaced
          BY <1>2, InsType, NoneNotTx DEF LockFork, Take, Others, TypeOK, Displaced
    <2>2. FinalPermanent
          BY <1>2 DEF LockFork, FinalPermanent
    <2>3. BodyLoss
      <3> SUFFICES ASSUME NEW u \in body, u \notin body' PROVE \E o \in Out : holder[o] = u /\ holder'[o] # u
          BY DEF BodyLoss
      <3>1. u \in Others(t) BY <1>2 DEF LockFork
      <3>2. PICK o \in Ins[t] : holder[o] = u /\ u # t BY <3>1 DEF Others
      <3>3. o \in Out /\ holder'[o] = t
            BY <1>2, <3>2, InsType DEF LockFork, Take
      <3> QED BY <3>2, <3>3
    <2> QED BY <2>1, <2>2, <2>3
  <1>3. ASSUME NEW t \in Tx, LockFail(t) PROVE Displaced /\ FinalPermanent /\ BodyLoss
        BY <1>3 DEF LockFail, vars, Displaced, FinalPermanent, BodyLoss
  <1>4. ASSUME NEW t \in Tx, Store(t) PROVE Displaced /\ FinalPermanent /\ BodyLoss
        BY <1>4 DEF Store, Displaced, FinalPermanent, BodyLoss
  <1>5. ASSUME NEW t \in Tx, Finalize(t) PROVE Displaced /\ FinalPermanent /\ BodyLoss
        BY <1>5 DEF Finalize, Displaced, FinalPermanent, BodyLoss
  <1> QED BY <1>1, <1>2, <1>3, <1>4, <1>5 DEF Next, StepOK

THEOREM StepCorrect == Spec => [][StepOK]_vars
  <1>1. Inv /\ [Next]_vars => [StepOK]_vars BY StepNext
  <1> QED BY <1>1, InvCorrect, PTL DEF Spec

\* re-locking by the holder: the lock is not refused, and either kind of lock changes nothing
THEOREM Relock ==
    ASSUME TypeOK, NEW t \in Tx, Holds(t)
    PROVE  /\ Others(t) = {}
           /\ LockOrdinary(t) => UNCHANGED vars
           /\ LockFork(t) => UNCHANGED vars
  <1>1. Others(t) = {} BY DEF Holds, Others
  <1>2. Take(t) = holder BY InsType DEF Take, Holds, TypeOK
  <1> QED BY <1>1, <1>2 DEF LockOrdinary, LockFork, vars

\* a successful lock of either kind leaves the caller holding all its inputs
THEOREM LockSucceeds ==
    ASSUME NEW t \in Tx, LockOrdinary(t) \/ LockFork(t)
    PROVE  Holds(t)'
  BY InsType DEF LockOrdinary, LockFork, Take, Holds
=============================================================================
