----------------------------- MODULE Trace_Locks -----------------------------
(***************************************************************************)
(* Trace specification for the reservation machine (engine E2).            *)
(*                                                                         *)
(* Event lines (NDJSON):                                                   *)
(*   {"ev":"Reset","fam":"A"}                       start of an execution  *)
(*   {"ev":"Op","o":{op,t[,fork]},"ok":b,"obs":S}   one sequential call,   *)
(*        its real outcome and the real projected state afterwards         *)
(*   {"ev":"Call","p":i,"o":{...}}                  goroutine p calls      *)
(*   {"ev":"Ret","p":i,"ok":b}                      goroutine p returned   *)
(*   {"ev":"Obs","obs":S}                           quiescent read-back    *)
(*                                                                         *)
(* Mode "full":    every call must behave exactly like the specification's *)
(*                 action (result and state).                               *)
(* Mode "monitor": only what C03/C04 state is enforced: observed states    *)
(*                 satisfy StateInv, observed steps satisfy StepOK; in     *)
(*                 concurrent sections a failing call is always explainable*)
(*                 (stricter code is not a violation) but must not change   *)
(*                 state, and every success must be a legal success of the  *)
(*                 specification at its linearization point.                *)
(***************************************************************************)
EXTENDS TraceLib, LocksTable, FiniteSets

CONSTANTS Mode, Procs, NoneC

L == INSTANCE Locks WITH Tx <- TxU, TxDef <- TxDefU,
        USlot <- {"u1", "u2", "u3"}, DSlot <- {"d1", "d2"}, Batch <- {"b1", "b2"},
        GKey <- {"k1", "k2", "k3", "k4"}, None <- NoneC

VARIABLES l, S, pend
vars == <<l, S, pend>>

NoPend == [p \in Procs |-> [busy |-> FALSE, lin |-> FALSE, ok |-> FALSE, o |-> [op |-> "-"]]]

Init == l = 1 /\ S = L!InitState /\ pend = NoPend

Ev == Trace[l]
IsEvent(name) == l <= TraceLen /\ Ev.ev = name /\ l' = l + 1

\* The harness only reports slots/keys/transactions of the family it runs;
\* absent entries are untouched (initial value).
Proj(obs) ==
    [ ul    |-> [s \in {"u1", "u2", "u3"} |-> Get(obs.ul, s, NoneC)],
      dl    |-> [d \in {"d1", "d2"} |-> Get(obs.dl, d, NoneC)],
      ml    |-> [b \in {"b1", "b2"} |-> Get(obs.ml, b, [tx |-> NoneC, amt |-> 0])],
      body  |-> [t \in TxU |-> Get(obs.body, t, FALSE)],
      final |-> [t \in TxU |-> Get(obs.final, t, FALSE)],
      ghost |-> [k \in {"k1", "k2", "k3", "k4"} |-> Get(obs.ghost, k, NoneC)] ]

\* Which calls / state components the selected property speaks about.
Relevant(o) ==
    CASE Mode = "C03" -> o.op \in {"LockIn", "WriteTx", "Finalize"}
      [] Mode = "C04" -> o.op \in {"LockGhost", "Finalize"}
      [] OTHER        -> TRUE

ObsMatch(obs, st) ==
    CASE Mode = "C03" -> obs.ul = st.ul /\ obs.dl = st.dl /\ obs.ml = st.ml /\ obs.body = st.body /\ obs.final = st.final
      [] Mode = "C04" -> obs.ghost = st.ghost
      [] OTHER        -> obs = st

Reset ==
    /\ IsEvent("Reset")
    /\ S' = L!InitState /\ pend' = NoPend

SeqOp ==
    /\ IsEvent("Op")
    /\ \A p \in Procs : ~pend[p].busy
    /\ LET o == Ev.o  obs == Proj(Ev.obs) IN
        /\ IF Mode = "full"
           THEN /\ L!Enabled(S, o)
                /\ LET r == L!Apply(S, o) IN r.ok = Ev.ok /\ r.S = obs
           ELSE /\ (Mode \in {"monitor", "C03"} => L!StepOK03(S, o, Ev.ok, obs) /\ L!StateInv03(obs))
                /\ (Mode \in {"monitor", "C04"} => L!StepOK04(S, o, Ev.ok, obs) /\ L!StateInv04(obs))
        /\ S' = obs
    /\ UNCHANGED pend

Call ==
    /\ IsEvent("Call")
    /\ ~pend[Ev.p].busy
    /\ pend' = [pend EXCEPT ![Ev.p] = [busy |-> TRUE, lin |-> FALSE, ok |-> FALSE, o |-> Ev.o]]
    /\ UNCHANGED S

\* internal linearization point of a pending call: no trace line is consumed
Lin(p) ==
    /\ pend[p].busy /\ ~pend[p].lin
    /\ L!Enabled(S, pend[p].o)
    /\ LET r == L!Apply(S, pend[p].o) IN
         \/ /\ S' = r.S
            /\ pend' = [pend EXCEPT ![p].lin = TRUE, ![p].ok = r.ok]
         \/ /\ Mode # "full" /\ r.ok           \* stricter code: refusal is a no-op
            /\ S' = S
            /\ pend' = [pend EXCEPT ![p].lin = TRUE, ![p].ok = FALSE]
    /\ UNCHANGED l

Ret ==
    /\ IsEvent("Ret")
    /\ pend[Ev.p].busy /\ pend[Ev.p].lin
    /\ (Relevant(pend[Ev.p].o) => pend[Ev.p].ok = Ev.ok)
    /\ pend' = [pend EXCEPT ![Ev.p] = NoPend[Ev.p]]
    /\ UNCHANGED S

Obs ==
    /\ IsEvent("Obs")
    /\ \A p \in Procs : ~pend[p].busy
    /\ ObsMatch(Proj(Ev.obs), S)
    /\ UNCHANGED <<S, pend>>

Next == Reset \/ SeqOp \/ Call \/ Ret \/ Obs \/ \E p \in Procs : Lin(p)

Spec == Init /\ [][Next]_vars

HW == HighWaterOf(l)
Accepted == TraceAcceptedAt

\* evaluated in every state of every explained execution
Inv == /\ (Mode \in {"full", "monitor", "C03"} => L!StateInv03(S))
       /\ (Mode \in {"full", "monitor", "C04"} => L!StateInv04(S))
=============================================================================
