SPECIFICATION Spec
CONSTANTS
  Tx <- TxA
  Out <- OutA
  Ins <- InsA
  None <- NoneV
INVARIANT TypeOK
INVARIANT Inv
INVARIANT NoDoubleSpend
PROPERTY FinalKeptProp
PROPERTY StepProp
PROPERTY RelockProp
PROPERTY SucceedsProp
CHECK_DEADLOCK FALSE
