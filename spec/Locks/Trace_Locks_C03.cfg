SPECIFICATION Spec
CONSTANTS
  Mode = "C03"
  Procs = {1,2,3,4,5,6}
  NoneC = "None"
CONSTRAINT HW
INVARIANT Inv
POSTCONDITION Accepted
CHECK_DEADLOCK FALSE
