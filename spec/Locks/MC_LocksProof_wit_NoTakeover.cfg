SPECIFICATION Spec
CONSTANTS
  Tx <- TxA
  Out <- OutA
  Ins <- InsA
  None <- NoneV
PROPERTY NoTakeover
CHECK_DEADLOCK FALSE
