------------------------------- MODULE Locks -------------------------------
(***************************************************************************)
(* Storage-level reservation machine of Mixin Kernel (properties C03, C04).*)
(*                                                                         *)
(* One action per storage critical section:                                *)
(*   LockIn(t, fork)    = VersionedTransaction.LockInputs ->               *)
(*                        BadgerStore.LockUTXOs / LockDepositInput /       *)
(*                        LockMintInput  (store mutex + one Badger txn,    *)
(*                        all inputs or none)                              *)
(*   LockGhost(t, fork) = BadgerStore.LockGhostKeys                        *)
(*   WriteTx(t)         = BadgerStore.WriteTransaction (legal only when t  *)
(*                        holds its input locks: the code aborts otherwise)*)
(*   Finalize(t)        = BadgerStore.WriteSnapshot of a snapshot holding  *)
(*                        t: finalization record, outputs re-lock their    *)
(*                        ghost keys with fork = TRUE                      *)
(*                                                                         *)
(* The state is a record so that the same  Apply  operator serves the      *)
(* exhaustive model (MC_Locks), the sequential trace spec and the          *)
(* linearizability trace spec (Trace_Locks).                               *)
(***************************************************************************)
EXTENDS Naturals, Sequences, FiniteSets, TLC

CONSTANTS
    Tx,        \* transaction ids
    TxDef,     \* [Tx -> [kind, ins, dep, batch, amt, keys]]
    USlot,     \* unspent-output slots
    DSlot,     \* deposit identifiers
    Batch,     \* mint batches
    GKey,      \* one-time output keys
    None

(* TxDef[t].kind \in {"utxo","deposit","mint"}
   utxo:    ins  = sequence of USlot (input order of the transaction)
   deposit: dep  \in DSlot
   mint:    batch \in Batch, amt \in Nat
   keys = sequence of GKey (output keys in order; may repeat: a transaction
          that repeats a key among its outputs)                            *)

InsOf(t) == IF TxDef[t].kind = "utxo" THEN { TxDef[t].ins[i] : i \in DOMAIN TxDef[t].ins } ELSE {}
KeysOf(t) == { TxDef[t].keys[i] : i \in DOMAIN TxDef[t].keys }
DupKeys(t) == Cardinality(KeysOf(t)) # Len(TxDef[t].keys)

InitState ==
    [ ul    |-> [s \in USlot |-> None],
      dl    |-> [d \in DSlot |-> None],
      ml    |-> [b \in Batch |-> [tx |-> None, amt |-> 0]],
      body  |-> [t \in Tx |-> FALSE],
      final |-> [t \in Tx |-> FALSE],
      ghost |-> [k \in GKey |-> None] ]

(* pruneTransaction(h): refuses finalized transactions, deletes the body.
   Returns the set of holders that must be pruned and whether that is legal. *)
CanPrune(S, h) == ~S.final[h]

Fail(S) == [ok |-> FALSE, S |-> S]
Ok(S)   == [ok |-> TRUE,  S |-> S]

(* ---------------------------------------------------------------------- *)
LockUTXOs(S, t, fork) ==
    LET ins      == InsOf(t)
        others   == { S.ul[s] : s \in ins } \ {None, t}
    IN  IF others = {} THEN Ok([S EXCEPT !.ul = [s \in USlot |-> IF s \in ins THEN t ELSE @[s]]])
        ELSE IF ~fork THEN Fail(S)
        ELSE IF \E h \in others : ~CanPrune(S, h) THEN Fail(S)
        ELSE Ok([S EXCEPT !.ul   = [s \in USlot |-> IF s \in ins THEN t ELSE @[s]],
                          !.body = [h \in Tx |-> IF h \in others THEN FALSE ELSE @[h]]])

LockDeposit(S, t, fork) ==
    LET d == TxDef[t].dep
        h == S.dl[d]
    IN  IF h = None THEN Ok([S EXCEPT !.dl[d] = t])
        ELSE IF h = t THEN Ok(S)
        ELSE IF ~fork THEN Fail(S)
        ELSE IF ~CanPrune(S, h) THEN Fail(S)
        ELSE Ok([S EXCEPT !.dl[d] = t, !.body[h] = FALSE])

LockMint(S, t, fork) ==
    LET b == TxDef[t].batch
        a == TxDef[t].amt
        h == S.ml[b]
    IN  IF h.tx = None THEN Ok([S EXCEPT !.ml[b] = [tx |-> t, amt |-> a]])
        ELSE IF h.tx = t /\ h.amt = a THEN Ok(S)
        ELSE IF ~fork THEN Fail(S)
        ELSE IF ~CanPrune(S, h.tx) THEN Fail(S)
        ELSE Ok([S EXCEPT !.ml[b] = [tx |-> t, amt |-> a], !.body[h.tx] = FALSE])

LockIn(S, t, fork) ==
    CASE TxDef[t].kind = "utxo"    -> LockUTXOs(S, t, fork)
      [] TxDef[t].kind = "deposit" -> LockDeposit(S, t, fork)
      [] TxDef[t].kind = "mint"    -> LockMint(S, t, fork)

HoldsInputs(S, t) ==
    CASE TxDef[t].kind = "utxo"    -> \A s \in InsOf(t) : S.ul[s] = t
      [] TxDef[t].kind = "deposit" -> S.dl[TxDef[t].dep] = t
      [] TxDef[t].kind = "mint"    -> /\ S.ml[TxDef[t].batch].tx = t
                                      /\ S.ml[TxDef[t].batch].amt = TxDef[t].amt

(* WriteTransaction: only legal (the code's debug assertion aborts
   otherwise) when the transaction holds its inputs. *)
WriteTxEnabled(S, t) == HoldsInputs(S, t)
WriteTx(S, t) == Ok([S EXCEPT !.body[t] = TRUE])

(* LockGhostKeys: a repeated key in the list fails; a key bound to another
   transaction fails whatever fork says (the three historical hashes cannot
   be constructed). All or nothing. *)
LockGhost(S, t, fork) ==
    IF DupKeys(t) THEN Fail(S)
    ELSE IF \E k \in KeysOf(t) : S.ghost[k] \notin {None, t} THEN Fail(S)
    ELSE Ok([S EXCEPT !.ghost = [k \in GKey |-> IF k \in KeysOf(t) THEN t ELSE @[k]]])

(* WriteSnapshot of a single-transaction snapshot. Needs the body (the code
   aborts without one). First finalization materializes the outputs and
   re-locks every output key for t; a key owned by another transaction makes
   the whole write fail. A repeated key inside t is harmless here (second
   lock sees t itself). *)
FinalizeEnabled(S, t) == S.body[t]
Finalize(S, t) ==
    IF S.final[t] THEN Ok(S)
    ELSE IF \E k \in KeysOf(t) : S.ghost[k] \notin {None, t} THEN Fail(S)
    ELSE Ok([S EXCEPT !.final[t] = TRUE,
                      !.ghost = [k \in GKey |-> IF k \in KeysOf(t) THEN t ELSE @[k]]])

(* ---------------------------------------------------------------------- *)
(* Operation records and their uniform application                         *)
Ops == [op : {"LockIn", "LockGhost"}, t : Tx, fork : BOOLEAN]
         \cup [op : {"WriteTx", "Finalize"}, t : Tx]

Enabled(S, o) ==
    CASE o.op = "WriteTx"  -> WriteTxEnabled(S, o.t)
      [] o.op = "Finalize" -> FinalizeEnabled(S, o.t)
      [] OTHER             -> TRUE

Apply(S, o) ==
    CASE o.op = "LockIn"    -> LockIn(S, o.t, o.fork)
      [] o.op = "LockGhost" -> LockGhost(S, o.t, o.fork)
      [] o.op = "WriteTx"   -> WriteTx(S, o.t)
      [] o.op = "Finalize"  -> Finalize(S, o.t)

(* ---------------------------------------------------------------------- *)
(* Properties, as predicates over a state record or a pair of them.        *)

\* A stored body always holds every one of its inputs: whoever displaced a
\* pending holder removed its body in the same step.
BodyHoldsInputs(S) == \A t \in Tx : S.body[t] => HoldsInputs(S, t)

\* A finalized transaction keeps its body and its slots for ever.
FinalKeepsSlots(S) == \A t \in Tx : S.final[t] => S.body[t] /\ HoldsInputs(S, t)

\* No two finalized transactions compete for a slot.
NoDoubleSpend(S) ==
    \A t1, t2 \in Tx : t1 # t2 /\ S.final[t1] /\ S.final[t2] =>
        /\ InsOf(t1) \cap InsOf(t2) = {}
        /\ ~(TxDef[t1].kind = "deposit" /\ TxDef[t2].kind = "deposit" /\ TxDef[t1].dep = TxDef[t2].dep)
        /\ ~(TxDef[t1].kind = "mint" /\ TxDef[t2].kind = "mint" /\ TxDef[t1].batch = TxDef[t2].batch)

\* Ghost binding of a finalized transaction's keys is that transaction.
FinalOwnsKeys(S) == \A t \in Tx : S.final[t] => \A k \in KeysOf(t) : S.ghost[k] = t

StateInv03(S) == BodyHoldsInputs(S) /\ FinalKeepsSlots(S) /\ NoDoubleSpend(S)
StateInv04(S) == FinalOwnsKeys(S)
StateInv(S) == StateInv03(S) /\ StateInv04(S)

SlotHolder(S, kind, x) ==
    CASE kind = "u" -> S.ul[x]
      [] kind = "d" -> S.dl[x]
      [] kind = "m" -> S.ml[x].tx

(* Step properties for a step S --o/r--> S2.                                *)
(* C03: slots.                                                              *)
StepOK03(S, o, r, S2) ==
    \* a failed reservation changes no slot, body or finalization record
    /\ (~r /\ o.op = "LockIn" =>
          S2.ul = S.ul /\ S2.dl = S.dl /\ S2.ml = S.ml /\ S2.body = S.body /\ S2.final = S.final)
    \* finalization records are permanent
    /\ \A t \in Tx : S.final[t] => S2.final[t]
    \* a held slot changes hands only in a fork lock by the new holder, the old
    \* holder is not finalized and has no body afterwards
    /\ \A s \in USlot : S.ul[s] # None /\ S2.ul[s] # S.ul[s] =>
          /\ o.op = "LockIn" /\ o.fork /\ r /\ S2.ul[s] = o.t
          /\ ~S.final[S.ul[s]] /\ ~S2.body[S.ul[s]]
    /\ \A d \in DSlot : S.dl[d] # None /\ S2.dl[d] # S.dl[d] =>
          /\ o.op = "LockIn" /\ o.fork /\ r /\ S2.dl[d] = o.t
          /\ ~S.final[S.dl[d]] /\ ~S2.body[S.dl[d]]
    /\ \A b \in Batch : S.ml[b].tx # None /\ S2.ml[b] # S.ml[b] =>
          /\ o.op = "LockIn" /\ o.fork /\ r /\ S2.ml[b].tx = o.t
          /\ ~S.final[S.ml[b].tx] /\ ~S2.body[S.ml[b].tx]
    \* a free slot is only ever taken by the caller of a successful reservation
    /\ \A s \in USlot : S.ul[s] = None /\ S2.ul[s] # None => o.op = "LockIn" /\ r /\ S2.ul[s] = o.t
    /\ \A d \in DSlot : S.dl[d] = None /\ S2.dl[d] # None => o.op = "LockIn" /\ r /\ S2.dl[d] = o.t
    /\ \A b \in Batch : S.ml[b].tx = None /\ S2.ml[b].tx # None => o.op = "LockIn" /\ r /\ S2.ml[b].tx = o.t
    \* a successful reservation leaves the caller holding all its inputs
    /\ (o.op = "LockIn" /\ r => HoldsInputs(S2, o.t))
    \* re-reserving by the holder is idempotent
    /\ (o.op = "LockIn" /\ HoldsInputs(S, o.t) =>
          r /\ S2.ul = S.ul /\ S2.dl = S.dl /\ S2.ml = S.ml /\ S2.body = S.body /\ S2.final = S.final)
    \* bodies disappear only by a fork takeover
    /\ \A t \in Tx : S.body[t] /\ ~S2.body[t] => o.op = "LockIn" /\ o.fork /\ r /\ o.t # t

(* C04: one-time keys.                                                      *)
StepOK04(S, o, r, S2) ==
    \* ghost bindings are write-once
    /\ \A k \in GKey : S.ghost[k] # None => S2.ghost[k] = S.ghost[k]
    \* a failed key reservation / finalization binds nothing
    /\ (~r /\ o.op \in {"LockGhost", "Finalize"} => S2.ghost = S.ghost)
    \* a repeated key among a transaction's own outputs is refused
    /\ (o.op = "LockGhost" /\ DupKeys(o.t) => ~r)
    \* a successful key reservation or finalization binds the keys to t only
    /\ (o.op \in {"LockGhost", "Finalize"} /\ r =>
          \A k \in KeysOf(o.t) : S.ghost[k] \in {None, o.t} /\ S2.ghost[k] = o.t)
    \* only those two operations bind keys, and only the caller's keys
    /\ \A k \in GKey : S.ghost[k] = None /\ S2.ghost[k] # None =>
          o.op \in {"LockGhost", "Finalize"} /\ r /\ k \in KeysOf(o.t) /\ S2.ghost[k] = o.t
    \* finalizing a transaction whose key belongs to another one fails
    /\ (o.op = "Finalize" /\ ~S.final[o.t] /\ (\E k \in KeysOf(o.t) : S.ghost[k] \notin {None, o.t}) =>
          ~r /\ ~S2.final[o.t])

StepOK(S, o, r, S2) == (~r => S2 = S) /\ StepOK03(S, o, r, S2) /\ StepOK04(S, o, r, S2)
=============================================================================
