SPECIFICATION Spec
CONSTANTS
  Tx <- TxA
  TxDef <- TxDefA
  USlot = {"u1","u2"}
  DSlot = {}
  Batch = {}
  GKey = {"k1","k2","k3"}
  None <- NoneV
VIEW View
INVARIANT Inv
PROPERTY StepProp
CHECK_DEADLOCK FALSE
