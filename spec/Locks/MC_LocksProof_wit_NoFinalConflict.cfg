SPECIFICATION Spec
CONSTANTS
  Tx <- TxA
  Out <- OutA
  Ins <- InsA
  None <- NoneV
INVARIANT NoFinalConflict
CHECK_DEADLOCK FALSE
