SPECIFICATION Spec
CONSTANTS
  Tx <- TxC
  TxDef <- TxDefC
  USlot = {}
  DSlot = {}
  Batch = {"b1","b2"}
  GKey = {"k1","k2"}
  None <- NoneV
VIEW View
INVARIANT Inv
PROPERTY StepProp
CHECK_DEADLOCK FALSE
