SPECIFICATION Spec
CONSTANTS
  Tx <- TxB
  Out <- OutB
  Ins <- InsB
  None <- NoneV
INVARIANT TypeOK
INVARIANT Inv
INVARIANT NoDoubleSpend
PROPERTY FinalKeptProp
PROPERTY StepProp
PROPERTY RelockProp
PROPERTY SucceedsProp
CHECK_DEADLOCK FALSE
