SPECIFICATION Spec
CONSTANTS
  Tx <- TxB
  TxDef <- TxDefB
  USlot = {"u1"}
  DSlot = {"d1","d2"}
  Batch = {}
  GKey = {"k1","k2"}
  None <- NoneV
VIEW View
INVARIANT Inv
PROPERTY StepProp
CHECK_DEADLOCK FALSE
