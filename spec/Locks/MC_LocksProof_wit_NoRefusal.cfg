SPECIFICATION Spec
CONSTANTS
  Tx <- TxA
  Out <- OutA
  Ins <- InsA
  None <- NoneV
INVARIANT NoRefusal
CHECK_DEADLOCK FALSE
