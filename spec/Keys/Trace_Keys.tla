------------------------------ MODULE Trace_Keys ------------------------------
(***************************************************************************)
(* Trace specification for C32 (engine E2, stateless pattern).             *)
(* The theorems of Keys.tla (checked exhaustively in MC_Keys for an        *)
(* arbitrary hash function over an abstract prime-order group) predict,    *)
(* for every address (a, b), sender secret r and output index j:           *)
(*    Pub(DerivePriv(R, a, b, j)) = DerivePub(r, A, B, j)                  *)
(*    View(P, a, R, j) = B                                                 *)
(* The driver records the real values of both sides (hex); every codec     *)
(* event records a value, its printed text and the value parsed back.      *)
(*  {"ev":"derive","res","index","P","pubOfPriv","viewed","B","other"}     *)
(*  {"ev":"viewtx","res","layout":[types],"viewed":[[keys]],"spend":[[B]]} *)
(*     Transaction.ViewGhostKey over a transaction whose script outputs    *)
(*     sit at seeded positions among outputs of other types               *)
(*  {"ev":"addr","res","s","printed","keys":[..],"parsed":[..]}            *)
(*  {"ev":"addrmut","res","orig","mut","printed"}                          *)
(*  {"ev":"codec","kind","res","v","s","back":[v1,v2]}                     *)
(*  {"ev":"parse","kind","res","v","again"}                                *)
(* Mode "monitor" = the statements of C32; mode "full" additionally: a     *)
(* mutated address text is refused, another index gives another key, hex   *)
(* printers print the value's lower-case hex.                              *)
(***************************************************************************)
EXTENDS TraceLib

CONSTANT Mode
Full == Mode = "full"

VARIABLE l
Init == l = 1
Next == l <= TraceLen /\ l' = l + 1
Spec == Init /\ [][Next]_l

Okd(e) == e.res = "ok"

EventOK(e) ==
    CASE e.ev = "derive" ->
            /\ Okd(e)
            /\ e.pubOfPriv = e.P                    \* the recipient's derived private key opens the sender's key
            /\ e.viewed = e.B                       \* viewing recovers the public spend key
            /\ Full => (e.other # e.P /\ e.P # e.B)
      [] e.ev = "viewtx" ->
            \* View(P, a, R, j) = B for every script output j of a transaction, whatever precedes it
            /\ Okd(e) /\ e.viewed = e.spend
      [] e.ev = "addr" ->
            /\ Okd(e) /\ e.printed = e.s /\ e.parsed = e.keys
      [] e.ev = "addrmut" ->
            /\ Okd(e) => e.printed = e.mut          \* an accepted address text prints back identically
            /\ Full => (Okd(e) = (e.mut = e.orig))
      [] e.ev = "codec" ->
            /\ Okd(e) /\ e.back[1] = e.v /\ e.back[2] = e.v
            /\ (Full /\ e.kind \in {"key", "hash", "signature"}) => e.s = e.v
      [] e.ev = "parse" ->
            /\ e.res # "panic"
            /\ Okd(e) => e.again = e.v
      [] OTHER -> FALSE

Inv == l > 1 => EventOK(Trace[l - 1])
HW == HighWaterOf(l)
Accepted == TraceAcceptedAt
=============================================================================
