SPECIFICATION Spec
CONSTANT Q = 5
INVARIANT Inv
CHECK_DEADLOCK FALSE
