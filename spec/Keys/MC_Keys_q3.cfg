SPECIFICATION Spec
CONSTANT Q = 3
INVARIANT Inv
CHECK_DEADLOCK FALSE
