-------------------------------- MODULE Keys --------------------------------
(***************************************************************************)
(* One-time (ghost) key derivation and textual codecs (C32).               *)
(* Code: crypto/key.go DeriveGhostPublicKey / DeriveGhostPrivateKey /      *)
(* ViewGhostOutputKey, common/address.go, util/base58, crypto/hash.go,     *)
(* crypto/signature.go, crypto/cosi.go (String / FromString / JSON).       *)
(*                                                                         *)
(* The curve is abstracted to a cyclic group of prime order Q written      *)
(* additively as Z_Q with generator 1: scalars and points are 0..Q-1, the  *)
(* public key of scalar x is x*G = x, scalar multiplication is             *)
(* multiplication mod Q.  Hs (hash of a shared point and an output index   *)
(* to a scalar) is an ARBITRARY function hs.                               *)
(***************************************************************************)
EXTENDS Naturals, Sequences

CONSTANT Q
Zq == 0 .. (Q - 1)

Pub(x)          == x % Q                       \* x * G
MulPoint(P, s)  == (P * s) % Q                 \* s * P
AddPoint(P1, P2) == (P1 + P2) % Q
SubPoint(P1, P2) == (P1 + Q - P2) % Q
AddScalar(x, y) == (x + y) % Q

\* sender: one-time public key for the address (A = view, B = spend) with its secret r (R = r*G is published)
DerivePub(hs, r, A, B)  == AddPoint(B, Pub(hs[MulPoint(A, r)]))
\* recipient: the private key of that output from the published R and the private keys a (view), b (spend)
DerivePriv(hs, R, a, b) == AddScalar(hs[MulPoint(R, a)], b)
\* anyone holding the private view key recovers the recipient's public spend key
View(hs, P, a, R)       == SubPoint(P, Pub(hs[MulPoint(R, a)]))

(* ------------------------- textual codecs (abstract) -------------------- *)
\* A codec prints a value to text and parses text to a value or rejects it.  Hex-like codecs accept
\* several spellings of one value (upper/lower case); the address codec is canonical.
\* Texts are sequences over Alphabet; values are sequences over Digits; Fold maps a character to its
\* digit (or "bad").
Lower(ch) == CASE ch = "A" -> "a" [] ch = "B" -> "b" [] OTHER -> ch
HexDigits == { "a", "b", "0" }
HexChars  == { "a", "b", "0", "A", "B" }
HexParse(s) == IF \A i \in DOMAIN s : s[i] \in HexChars THEN [ok |-> TRUE, v |-> [i \in DOMAIN s |-> Lower(s[i])]]
               ELSE [ok |-> FALSE]
HexPrint(v) == v
\* canonical codec with a checksum character: text = payload \o <<Check(payload)>>
CanonParse(check(_), s) ==
    IF Len(s) >= 1 /\ (\A i \in DOMAIN s : s[i] \in HexDigits) /\ s[Len(s)] = check(SubSeq(s, 1, Len(s) - 1))
    THEN [ok |-> TRUE, v |-> SubSeq(s, 1, Len(s) - 1)] ELSE [ok |-> FALSE]
CanonPrint(check(_), v) == Append(v, check(v))
=============================================================================
