------------------------------- MODULE MC_Keys -------------------------------
(***************************************************************************)
(* E3 for C32: for every hash function hs : Z_Q -> Z_Q, every private view *)
(* key a, private spend key b and sender secret r:                         *)
(*   Pub(DerivePriv(R, a, b)) = DerivePub(r, A, B)     (spendability)      *)
(*   View(P, a, R) = B                                 (recognisability)   *)
(* and for the abstract codecs: parse(print(v)) = v; the canonical codec   *)
(* prints every accepted text back identically, the hex-like one does not  *)
(* (witness), it only preserves the value.                                 *)
(***************************************************************************)
EXTENDS Keys, TLC

VARIABLES hs, a, b, r, txt
vars == << hs, a, b, r, txt >>

Texts == UNION { [1 .. n -> HexChars] : n \in 0 .. 3 }
Check(v) == IF \E i \in DOMAIN v : v[i] = "a" THEN "b" ELSE "0"

Init == hs \in [Zq -> Zq] /\ a = 0 /\ b = 0 /\ r = 0 /\ txt = << >>
Next == /\ a = 0 /\ b = 0 /\ r = 0 /\ txt = << >>
        /\ a' \in Zq /\ b' \in Zq /\ r' \in Zq /\ hs' = hs
        /\ txt' \in (IF hs = [x \in Zq |-> 0] /\ a' = 0 /\ b' = 0 THEN Texts ELSE { << >> })
Spec == Init /\ [][Next]_vars

A == Pub(a)
B == Pub(b)
R == Pub(r)
P == DerivePub(hs, r, A, B)

Inv ==
    /\ Pub(DerivePriv(hs, R, a, b)) = P
    /\ View(hs, P, a, R) = B
    /\ MulPoint(A, r) = MulPoint(R, a)
    \* codecs
    /\ LET h == HexParse(txt) IN
         h.ok => /\ HexParse(HexPrint(h.v)) = h
                 /\ HexPrint(h.v) = [i \in DOMAIN txt |-> Lower(txt[i])]
    /\ LET c == CanonParse(Check, txt) IN
         c.ok => /\ CanonPrint(Check, c.v) = txt                    \* accepted text prints back identically
                 /\ CanonParse(Check, CanonPrint(Check, c.v)) = c
    /\ (\A i \in DOMAIN txt : txt[i] \in HexDigits) => CanonParse(Check, CanonPrint(Check, txt)) = [ok |-> TRUE, v |-> txt]

\* non-vacuity witnesses
WitnessHexNotIdentical == ~(HexParse(txt).ok /\ HexPrint(HexParse(txt).v) # txt)
WitnessNonTrivial == ~(hs[MulPoint(A, r)] # 0 /\ a # 0 /\ b # 0 /\ r # 0 /\ P # B)
=============================================================================
