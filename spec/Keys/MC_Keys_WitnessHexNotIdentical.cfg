SPECIFICATION Spec
CONSTANT Q = 3
INVARIANT WitnessHexNotIdentical
CHECK_DEADLOCK FALSE
