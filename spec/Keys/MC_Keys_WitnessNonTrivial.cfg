SPECIFICATION Spec
CONSTANT Q = 3
INVARIANT WitnessNonTrivial
CHECK_DEADLOCK FALSE
