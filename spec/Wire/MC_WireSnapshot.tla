--------------------------- MODULE MC_WireSnapshot ---------------------------
(* Decision table of the snapshot grammar (engine E3) and case emitter (E1).  *)
(* Every state is one case: a shape the real encoder can produce, one         *)
(* structured mutation of its bytes (kind "dec"), or a shape and one field to *)
(* perturb (kind "pair").  The invariants are the design-level theorems.      *)
EXTENDS WireSnapshot, Json

CONSTANTS Rounds, Cnts, Topos, Tss, TruncMax, BoundaryCnt, BigFull

VARIABLE c

Shapes == { s \in [round : Rounds, refs : BOOLEAN, cnt : Cnts, sig : BOOLEAN, topo : Topos, ts : Tss] :
              /\ (s.round = 0 => s.cnt = 1)
              \* quick tier: long transaction lists only in one representative family
              /\ ((s.cnt > 3 /\ ~BigFull) => (s.refs /\ ~s.sig /\ s.topo <= 1))
              \* thorough tier: long lists with both signature classes, two suffix classes
              /\ ((s.cnt > 3 /\ BigFull) => (s.topo <= 1 /\ s.ts = 1)) }

DecCases(s) == { [kind |-> "dec", shape |-> s, mut |-> m, mut2 |-> NoMut, f |-> "-"] :
                   m \in Muts(s, TruncMax, s.cnt <= BoundaryCnt) }
               \cup { [kind |-> "dec", shape |-> s, mut |-> mm[1], mut2 |-> mm[2], f |-> "-"] : mm \in Muts2(s) }

PairCases(s) == { [kind |-> "pair", shape |-> s, mut |-> NoMut, mut2 |-> NoMut, f |-> f] :
                    f \in PayloadFields \cup AuthFields }

\* one initial state per shape; its successors are the cases of that shape (so that the
\* TLC workers share the table)
Init == c \in { [kind |-> "shape", shape |-> s, mut |-> NoMut, mut2 |-> NoMut, f |-> "-"] : s \in Shapes }
Next == c.kind = "shape" /\ c' \in DecCases(c.shape) \cup PairCases(c.shape)
Spec == Init /\ [][Next]_c

InvDec == c.kind = "dec" => DecTheorems(CaseTokens(c))
InvRoundTrip == (c.kind = "dec" /\ c.mut = NoMut /\ c.mut2 = NoMut) => RoundTrip(ShapeStruct(c.shape))
InvHash == c.kind = "pair" => HashCommits(ShapeStruct(c.shape), c.f)

\* non-vacuity witnesses (each must be violated = reachable)
NoMutatedAccept == ~(c.kind = "dec" /\ c.mut.op \notin {"None", "Flip"} /\ Expected(c) = "accept")
NoDoubleAccept == ~(c.kind = "dec" /\ c.mut2.op # "None" /\ Expected(c) = "accept")
NoPartialSuffix == ~(c.kind = "dec" /\ c.shape.topo = 0 /\ c.mut.op = "Ext" /\ c.mut.k = 3 /\ Expected(c) = "reject")
NoAny == ~(c.kind = "dec" /\ Expected(c) = "any")

\* E1 emission: one SHAPE line per shape (with the token lengths of its real encoding),
\* one CASE line per case.
EmitCase ==
    IF c.kind = "shape"
    THEN PrintT("CASE " \o ToJson([kind |-> "shape", shape |-> c.shape, mut |-> c.mut, mut2 |-> c.mut2, f |-> c.f,
                                   lens |-> Lens(ShapeTokens(c.shape))]))
    ELSE (c.kind = "pair" /\ ~PerturbOK(ShapeStruct(c.shape), c.f))   \* not applicable: not executed
         \/ PrintT("CASE " \o ToJson([kind |-> c.kind, shape |-> c.shape, mut |-> c.mut, mut2 |-> c.mut2, f |-> c.f,
                                        lens |-> <<>>]))
=============================================================================
