SPECIFICATION Spec
CONSTANTS
  Full = FALSE
  Around = FALSE
INVARIANT NoNonMinReject
CHECK_DEADLOCK FALSE
