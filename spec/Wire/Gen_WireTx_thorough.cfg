SPECIFICATION Spec
CONSTANTS
  Full = TRUE
  Around = TRUE
INVARIANT InvDec
INVARIANT InvRoundTrip
INVARIANT InvPairRoundTrip
INVARIANT InvHash
CONSTRAINT EmitCase
CHECK_DEADLOCK FALSE
