---------------------------- MODULE Trace_WireP2P ----------------------------
(***************************************************************************)
(* Trace specification for peer messages (engine E2, property C08).        *)
(* Stateless; "Shape" lines carry the builder input classes that later     *)
(* lines refer to by line number (sline).                                  *)
(*                                                                         *)
(*  {"ev":"Shape","shape":{typ,n,m,snap}}                                  *)
(*  {"ev":"Msg","src":"case"|"blind","idx":n,"sline":n,"mut":{..},         *)
(*   "built":"ok"|"panic"|"-",    the real build*Message on the shape      *)
(*   "layout_ok":b,"base_len":n,"in_len":n,                                *)
(*   "res":"ok"|"err"|"panic",    parseNetworkMessage(input)               *)
(*   "ptype":n,                    parsed message type                     *)
(*   "type_eq":b,"fields_eq":b,    parsed type / every field equals the    *)
(*                                 builder's inputs (unmutated cases)      *)
(*   "points_valid":b}             every must-be-valid point of the parsed *)
(*                                 message is a valid prime-order point    *)
(***************************************************************************)
EXTENDS TraceLib, WireP2P

CONSTANTS Mode, KnownIds

VARIABLE l

Init == l = 1
Next == l <= TraceLen /\ l' = l + 1
Spec == Init /\ [][Next]_l

ShapeOfEv(e) == Trace[e.sline].shape

(* ------------------------- the property (monitor) ------------------------ *)
MsgMonitor(e) ==
    \* parsing either fails or yields a message
    /\ e.res # "panic"
    \* every message the node builds parses back to the same type and field values
    /\ (e.src = "case" /\ e.mut.op = "None" /\ e.built = "ok" /\ Buildable(ShapeOfEv(e))
            => e.res = "ok" /\ e.type_eq /\ e.fields_eq)
    \* invalid points are rejected at parse time
    /\ (e.res = "ok" /\ e.ptype \in PointTypes => e.points_valid)

(* --------------------------- full conformance ---------------------------- *)
MsgFullP(e, s, bt, t, v) ==
    /\ e.built = "ok"
    /\ e.layout_ok
    /\ e.base_len = TotalLen(bt)
    /\ e.in_len = TotalLen(t)
    /\ (v = "accept" => e.res = "ok")
    /\ (v = "reject" => e.res = "err")
    /\ (v = "accept" /\ e.mut.op = "None" => e.type_eq /\ e.fields_eq)

MsgFull(e) ==
    e.src = "case" =>
        /\ Trace[e.sline].ev = "Shape"
        /\ LET s == ShapeOfEv(e)
               bt == MsgTokens(s)
               t == Mutate(bt, e.mut)
           IN  MsgFullP(e, s, bt, t, MsgVerdict(t, s))

EventOK(e) ==
    CASE e.ev = "Msg"   -> MsgMonitor(e) /\ (Mode = "full" => MsgFull(e))
      [] e.ev = "Shape" -> TRUE
      [] OTHER -> FALSE

Inv == l > 1 => EventOK(Trace[l - 1])

ASSUME TLCSet(2, 0) /\ TLCSet(3, 0)
InvReport ==
    (l > 1 /\ ~EventOK(Trace[l - 1])) =>
        /\ PrintT(<<"BAD-EVENT", l - 1>>)
        /\ TLCSet(3, IF TLCGet(2) = 0 THEN l - 1 ELSE TLCGet(3))
        /\ TLCSet(2, TLCGet(2) + 1)

HW == HighWaterOf(l)
Accepted == TraceAcceptedAt
AcceptedNoBad ==
    /\ TraceAcceptedAt
    /\ \/ TLCGet(2) = 0
       \/ PrintT(<<"TRACE-REJECTED-AT-LINE", TLCGet(3), "OF", TraceLen>>) /\ FALSE
=============================================================================
