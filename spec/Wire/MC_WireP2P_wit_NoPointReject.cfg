SPECIFICATION Spec
CONSTANTS
  Big = FALSE
INVARIANT NoPointReject
CHECK_DEADLOCK FALSE
