------------------------------- MODULE WireAuth -------------------------------
(***************************************************************************)
(* Peer authentication message (property C30).                             *)
(*                                                                         *)
(* Code: kernel/node.go  BuildAuthenticationMessage, AuthenticateAs        *)
(*       p2p/peer.go     authenticateNeighbor (timeout = 10 s), handle.go  *)
(*                       updateRemoteRelayerConsumers (timeout = 0: no     *)
(*                       freshness check)                                  *)
(*                                                                         *)
(*   ts(8) recipient(32) key(32) flag(1) sig(64)        = 137 bytes        *)
(*   sig = signature by key over BLAKE3(first 73 bytes)                    *)
(*                                                                         *)
(* Signatures are SYMBOLIC: a signature is the record                      *)
(*   [by |-> key identity, over |-> <<ts, recipient, key, flag>>]          *)
(* and verifies for the named key exactly when  by  is that key (and the   *)
(* key is a valid point) and  over  equals the four fields now on the      *)
(* wire.  The harness concretizes it with real Ed25519 keys: "over" other  *)
(* fields than the ones on the wire = the field was changed after signing. *)
(* Unforgeability itself is assumed (DESIGN 9).                            *)
(*                                                                         *)
(* A MESSAGE is [len, skew, rcpt, key, flag, sig] where                    *)
(*   skew = receiver's clock - ts (seconds), rcpt \in {"R", "X"} (R = the  *)
(*   receiving node), key \in {"K1", "K2", "KR", "KBAD"} (KR = the         *)
(*   receiver's own key, KBAD = not a curve point), flag \in 0..255.       *)
(***************************************************************************)
EXTENDS Integers, Sequences, FiniteSets, TLC

Fields(m) == <<m.skew, m.rcpt, m.key, m.flag>>

Abs(x) == IF x < 0 THEN 0 - x ELSE x

SigValid(m) ==
    /\ m.key # "KBAD"
    /\ m.sig.by = m.key
    /\ m.sig.over = Fields(m)

\* identity derived from the named key; only the receiver's own key derives the receiver's id
FromSelf(m) == m.key = "KR"

\* AuthenticateAs(R, msg, timeout) as specified
AuthOK(m, timeout) ==
    /\ m.len = 137
    /\ (timeout > 0 => Abs(m.skew) <= timeout)
    /\ m.rcpt = "R"
    /\ ~FromSelf(m)
    /\ SigValid(m)

\* the token returned on acceptance
Token(m) == [id |-> m.key, relayer |-> m.flag = 1]

\* what BuildAuthenticationMessage(rcpt) of a node with key k writes when the receiver's clock
\* is skew seconds ahead of the sender's
Built(k, rcpt, relayer, skew) ==
    LET f == [len |-> 137, skew |-> skew, rcpt |-> rcpt, key |-> k, flag |-> IF relayer THEN 1 ELSE 0] IN
    [len |-> 137, skew |-> skew, rcpt |-> rcpt, key |-> k, flag |-> f.flag,
     sig |-> [by |-> k, over |-> Fields(f)]]

(* ------------------------- design-level theorems ------------------------ *)
\* C30: accepted only if signed by the named key, addressed to the receiver, fresh, not self
Binding(m, timeout) ==
    AuthOK(m, timeout) =>
        /\ m.sig.by = m.key /\ m.sig.over = Fields(m)
        /\ m.rcpt = "R"
        /\ (timeout > 0 => Abs(m.skew) <= timeout)
        /\ m.key # "KR"

\* a field changed after signing is never accepted (in particular the relayer flag)
Tamper(m, f, v) ==
    CASE f = "skew" -> [m EXCEPT !.skew = v]
      [] f = "rcpt" -> [m EXCEPT !.rcpt = v]
      [] f = "key"  -> [m EXCEPT !.key = v]
      [] f = "flag" -> [m EXCEPT !.flag = v]
TamperRejected(m, f, v, timeout) ==
    (SigValid(m) /\ Tamper(m, f, v) # m) => ~AuthOK(Tamper(m, f, v), timeout)

\* what the node builds for another node is accepted there within the timeout
BuiltAccepted(k, relayer, skew, timeout) ==
    (k \in {"K1", "K2"} /\ (timeout = 0 \/ Abs(skew) <= timeout)) =>
        /\ AuthOK(Built(k, "R", relayer, skew), timeout)
        /\ Token(Built(k, "R", relayer, skew)) = [id |-> k, relayer |-> relayer]
=============================================================================
