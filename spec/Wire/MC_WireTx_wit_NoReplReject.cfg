SPECIFICATION Spec
CONSTANTS
  Full = FALSE
  Around = FALSE
INVARIANT NoReplReject
CHECK_DEADLOCK FALSE
