SPECIFICATION Spec
CONSTANTS
  Big = TRUE
INVARIANT InvBuilt
INVARIANT InvPoint
CHECK_DEADLOCK FALSE
