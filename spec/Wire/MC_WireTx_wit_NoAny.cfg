SPECIFICATION Spec
CONSTANTS
  Full = FALSE
  Around = FALSE
INVARIANT NoAny
CHECK_DEADLOCK FALSE
