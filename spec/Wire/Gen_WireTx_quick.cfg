SPECIFICATION Spec
CONSTANTS
  Full = FALSE
  Around = FALSE
INVARIANT InvDec
INVARIANT InvRoundTrip
INVARIANT InvPairRoundTrip
INVARIANT InvHash
CONSTRAINT EmitCase
CHECK_DEADLOCK FALSE
