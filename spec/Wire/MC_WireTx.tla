------------------------------ MODULE MC_WireTx ------------------------------
(* Decision table of the transaction grammar (engine E3) and case emitter     *)
(* (E1).  One initial state per shape (a transaction structure the real       *)
(* encoder writes); its successors are the cases: one or two structured       *)
(* mutations of the encoding (kind "dec") or one perturbed field (kind        *)
(* "pair").  The invariants are the design-level theorems.                    *)
EXTENDS WireTx, Json

CONSTANTS Full,        \* FALSE: one dimension varied at a time; TRUE: products of the classes
          Around       \* truncate also one byte before and after every token boundary

VARIABLE c

(* ------------------------------ shape classes ---------------------------- *)
In(kind, p) ==
    LET o == 1000 * p IN
    CASE kind = "utxo"    -> [hash |-> 21 + o, index |-> 3, gen |-> NoB, dep |-> NoDep, mint |-> NoMint]
      [] kind = "utxomax" -> [hash |-> 21 + o, index |-> 1024, gen |-> NoB, dep |-> NoDep, mint |-> NoMint]
      [] kind = "genesis" -> [hash |-> 22 + o, index |-> 0, gen |-> B(4, 31 + o), dep |-> NoDep, mint |-> NoMint]
      [] kind = "deposit" -> [hash |-> 23 + o, index |-> 0, gen |-> NoB,
                              dep |-> [has |-> TRUE, chain |-> 41 + o, ak |-> B(6, 42 + o), th |-> B(8, 43 + o),
                                       idx |-> 9, amt |-> 70000],
                              mint |-> NoMint]
      [] kind = "deposit0" -> [hash |-> 23 + o, index |-> 0, gen |-> NoB,
                               dep |-> [has |-> TRUE, chain |-> 41 + o, ak |-> NoB, th |-> B(1, 43 + o),
                                        idx |-> 0, amt |-> 0],
                               mint |-> NoMint]
      [] kind = "mint"    -> [hash |-> 24 + o, index |-> 0, gen |-> NoB, dep |-> NoDep,
                              mint |-> [has |-> TRUE, group |-> B(5, 51 + o), batch |-> 77, amt |-> 300]]
      [] kind = "depmint" -> [hash |-> 25 + o, index |-> 1, gen |-> B(2, 32 + o),
                              dep |-> [has |-> TRUE, chain |-> 41 + o, ak |-> B(3, 42 + o), th |-> NoB,
                                       idx |-> 1, amt |-> 255],
                              mint |-> [has |-> TRUE, group |-> NoB, batch |-> 0, amt |-> 256]]

Out(kind, p) ==
    LET o == 1000 * p IN
    CASE kind = "script"   -> [type |-> 0, amt |-> 5, keys |-> <<61 + o>>, mask |-> 62 + o, script |-> B(3, 63 + o), w |-> NoW]
      [] kind = "zero"     -> [type |-> 0, amt |-> 0, keys |-> <<>>, mask |-> 62 + o, script |-> NoB, w |-> NoW]
      [] kind = "keys2"    -> [type |-> 163, amt |-> 70000, keys |-> <<61 + o, 64 + o>>, mask |-> 62 + o,
                               script |-> B(3, 63 + o), w |-> NoW]
      [] kind = "withdraw" -> [type |-> 161, amt |-> 300, keys |-> <<>>, mask |-> 62 + o, script |-> NoB,
                               w |-> [has |-> TRUE, addr |-> B(7, 71 + o), tag |-> B(2, 72 + o)]]
      [] kind = "withdraw0" -> [type |-> 161, amt |-> 65536, keys |-> <<>>, mask |-> 62 + o, script |-> NoB,
                                w |-> [has |-> TRUE, addr |-> NoB, tag |-> NoB]]

Sig(kind) ==
    CASE kind = "none"  -> NoSigs
      [] kind = "m1"    -> [NoSigs EXCEPT !.maps = << <<[idx |-> 0, sig |-> 81]>> >>]
      [] kind = "m2"    -> [NoSigs EXCEPT !.maps = << <<[idx |-> 0, sig |-> 81], [idx |-> 3, sig |-> 82]>> >>]
      [] kind = "m2x"   -> [NoSigs EXCEPT !.maps = << <<[idx |-> 1, sig |-> 81], [idx |-> 2, sig |-> 82]>>, <<>> >>]
      [] kind = "agg0"  -> [kind |-> "agg", maps |-> <<>>, asig |-> 85, signers |-> <<>>]
      [] kind = "aggo"  -> [kind |-> "agg", maps |-> <<>>, asig |-> 85, signers |-> <<0, 1, 2>>]
      [] kind = "aggo15" -> [kind |-> "agg", maps |-> <<>>, asig |-> 85, signers |-> <<15>>]
      [] kind = "aggo2" -> [kind |-> "agg", maps |-> <<>>, asig |-> 85, signers |-> <<1, 9, 17, 23>>]
      [] kind = "aggs16" -> [kind |-> "agg", maps |-> <<>>, asig |-> 85, signers |-> <<16>>]
      [] kind = "aggs2" -> [kind |-> "agg", maps |-> <<>>, asig |-> 85, signers |-> <<3, 40>>]

InKinds == {"utxo", "utxomax", "genesis", "deposit", "deposit0", "mint", "depmint"}
OutKinds == {"script", "zero", "keys2", "withdraw", "withdraw0"}
SigKinds == {"none", "m1", "m2", "m2x", "agg0", "aggo", "aggo15", "aggo2", "aggs16", "aggs2"}

Seqs(K) == {<<>>} \cup { <<a>> : a \in K } \cup { <<a, b>> : a \in K, b \in K }
\* quick tier: the empty list, every single kind, every kind in second position
Seqs1(K, first) == {<<>>} \cup { <<a>> : a \in K } \cup { <<first, b>> : b \in K }

Mk(ik, ok, nr, ex, sk) ==
    [ver |-> TxVerOK, asset |-> 1,
     ins |-> [i \in 1..Len(ik) |-> In(ik[i], i)],
     outs |-> [i \in 1..Len(ok) |-> Out(ok[i], i)],
     refs |-> [i \in 1..nr |-> 90 + i],
     extra |-> IF ex = 0 THEN NoB ELSE B(ex, 95),
     sigs |-> Sig(sk)]

\* shape descriptors: <<input kinds, output kinds, references, extra length, signature kind>>
Base == <<<<"utxo">>, <<"script">>, 0, 0, "none">>
OneAtATime ==
       { <<ik, Base[2], 0, 0, "none">> : ik \in (IF Full THEN Seqs(InKinds) ELSE Seqs1(InKinds, "utxo")) }
  \cup { <<Base[1], ok, 0, 0, "none">> : ok \in (IF Full THEN Seqs(OutKinds) ELSE Seqs1(OutKinds, "script")) }
  \cup { <<Base[1], Base[2], nr, ex, "none">> : nr \in 0..2, ex \in {0, 5, 300} }
  \cup { <<Base[1], Base[2], 0, 0, sk>> : sk \in SigKinds }
  \cup { <<<<"deposit">>, <<"withdraw", "keys2">>, 2, 5, "m2x">>, <<<<"utxo", "utxomax">>, <<"keys2">>, 1, 0, "aggs2">> }
\* thorough tier: products of representative classes (targeted mutations only)
Product ==
    { <<ik, ok, nr, ex, sk>> : ik \in {<<>>, <<"utxo">>, <<"deposit">>, <<"mint">>, <<"utxo", "deposit">>, <<"deposit0", "mint">>},
                               ok \in {<<>>, <<"script">>, <<"withdraw">>, <<"script", "withdraw">>, <<"zero", "keys2">>},
                               nr \in {0, 2}, ex \in {0, 5}, sk \in {"none", "m2", "m2x", "aggo", "aggs16"} }
ShapeIds == IF Full THEN OneAtATime \cup Product ELSE OneAtATime

\* the bulk mutation families (every boundary, every field) are applied to the one-at-a-time
\* shapes (quick tier: only those with at most one input and one output)
Bulk(id) == IF id \in OneAtATime /\ (Full \/ (Len(id[1]) <= 1 /\ Len(id[2]) <= 1)) THEN "yes" ELSE "no"

ShapeOf(id) == Mk(id[1], id[2], id[3], id[4], id[5])

(* Structures at exactly the limits shared by encoder and decoder (SliceCountLimit = 256 keys,
   inputs, outputs, references, signature maps; a total length of exactly TxMaxSize). *)
Rep(x, n) == [i \in 1..n |-> x]
LimitBase == Mk(<<"utxo">>, <<"script">>, 0, 0, "none")
LimitShapes ==
    { [LimitBase EXCEPT !.outs[1].keys = [i \in 1..SliceLimit |-> 5000 + i]],               \* 256 keys
      [LimitBase EXCEPT !.outs[1].keys = [i \in 1..(SliceLimit - 1) |-> 5000 + i]],         \* 255 keys
      [LimitBase EXCEPT !.ins = [i \in 1..SliceLimit |-> In("utxo", i)]],                   \* 256 inputs
      [LimitBase EXCEPT !.outs = [i \in 1..SliceLimit |-> Out("zero", i)]],                 \* 256 outputs
      [LimitBase EXCEPT !.refs = [i \in 1..SliceLimit |-> 6000 + i]],                       \* 256 references
      [LimitBase EXCEPT !.sigs.maps = [i \in 1..SliceLimit |->                              \* 256 signature maps
                                         IF i = 1 THEN <<[idx |-> 0, sig |-> 81]>> ELSE <<>>]],
      \* extra such that the encoding is exactly TxMaxSize bytes long
      [Mk(<<>>, <<>>, 0, 0, "none") EXCEPT !.extra = B(TxMaxSize - 48, 95)] }

\* few mutations on them: untouched, one byte less / more, every counter one above its limit
MutsLimit(tx) ==
    LET t == TxTokens(tx)
        F(f) == Idx(t, f)
        one(X) == IF X = {} THEN {} ELSE {CHOOSE i \in X : \A j \in X : i <= j}
    IN  { <<m, NoMut>> : m \in {NoMut, MTrunc(1), MExt(1, 0)}
                               \cup { MSet(i, SliceLimit + 1) : i \in F("incnt") \cup F("outcnt") \cup F("refcnt")
                                                                      \cup one(F("keycnt")) \cup F("slcnt") } }
        \* one more key / reference than the limit, consistently encoded
        \cup { <<MSet(i, t[i].v + 1), MInsNew(i + 1, 32, 99999)>> :
                 i \in { j \in F("refcnt") \cup one(F("keycnt")) : t[j].v = SliceLimit } }

(* ------------------------------- mutations ------------------------------ *)
AmtLens == {"depamtlen", "mintamtlen", "oamtlen"}
PureValue == {"asset", "inhash", "gen", "chain", "ak", "th", "depidx", "group", "batch", "key", "omask",
              "script", "addr", "tag", "ref", "extra", "sig", "asig"}

\* signers encoded by the mask block that starts at token i (read back through the grammar)
SigOf(t, i) ==
    IF t[i].v = 1 THEN [x \in 1..t[i + 1].v |-> t[i + 1 + x].v]
    ELSE MaskBits(t[i + 2].v, t[i + 1].v)

MutsO(t, offs, bulk) ==
    LET n == Len(t)
        total == offs[n + 1]
        F(f) == Idx(t, f)
        \* bulk families (every boundary, every field) only for the shapes selected by the caller
        cuts == ((IF bulk THEN { total - (offs[i] + e) : i \in 1..(n + 1), e \in (IF Around THEN {0 - 1, 0, 1} ELSE {0}) }
                  ELSE {}) \cup {1, 2, 3}) \cap (1..total)
        singles ==
            {NoMut}
            \cup { MTrunc(k) : k \in cuts }
            \cup { MExt(k, f) : k \in {1, 2}, f \in {0, 255} }
            \* non-minimal integers
            \cup { MNonMin(i, i + 1) : i \in { j \in 1..n : t[j].f \in AmtLens /\ t[j].v > 0 } }
            \* signature maps: unsorted, duplicate index
            \cup UNION { {MSwap(i + 1, i + 3), MCopy(i + 1, i + 3)} : i \in { j \in F("sigcnt") : t[j].v >= 2 } }
            \* sparse list: unsorted, duplicate
            \cup UNION { {MSwap(i + 1, i + 2), MCopy(i + 1, i + 2)} : i \in { j \in F("scnt") : t[j].v >= 2 } }
            \* the other mask form
            \cup { MRepl(i, i + 1 + t[i + 1].v, <<<<1, 0>>, <<2, MaskLen(SigOf(t, i))>>, <<MaskLen(SigOf(t, i)), MaskVal(SigOf(t, i))>>>>) :
                     i \in { j \in F("mtype") : t[j].v = 1 /\ MaskLen(SigOf(t, j)) <= 3 } }
            \cup { MRepl(i, i + 2, <<<<1, 1>>, <<2, Len(SigOf(t, i))>>>> \o [x \in 1..Len(SigOf(t, i)) |-> <<2, SigOf(t, i)[x]>>]) :
                     i \in { j \in F("mtype") : t[j].v = 0 /\ t[j + 1].v > 0 } }
            \cup { MSet(i, 1) : i \in { j \in F("mtype") : t[j].v = 0 /\ t[j + 1].v = 0 } }   \* empty sparse list
            \* structural fields
            \cup { MSet(1, v) : v \in {2004287492, 2004287494, 2004221957} }
            \cup { MSet(i, 257) : i \in F("incnt") \cup F("outcnt") \cup F("refcnt") \cup F("keycnt") }
            \cup { MSet(i, t[i].v + 1) : i \in IF ~bulk THEN {} ELSE F("incnt") \cup F("outcnt") \cup F("refcnt") \cup F("keycnt")
                                                \cup F("sigcnt") \cup F("slcnt") \cup F("scnt") \cup F("mlen") }
            \cup { MSet(i, 4194305) : i \in F("extralen") }
            \cup { MSet(i, v) : i \in F("inindex"), v \in {1024, 1025} }
            \cup { MSet(i, v) : i \in F("depmagic") \cup F("mintmagic") \cup F("wmagic"), v \in {1, Magic, Null} \ {0} }
            \cup { MSet(i, v) : i \in F("otype"), v \in {166, 256} }
            \cup { MSet(i, 65282) : i \in F("prefix") }
            \cup { MSet(i, 2) : i \in F("mtype") }
            \cup { MSet(i, AggMarker) : i \in { j \in F("slcnt") : t[j].v # AggMarker } }
            \* one seeded bit flip per token
            \cup { MFlip(i) : i \in (IF ~bulk THEN {} ELSE IF Full THEN 1..n ELSE { j \in 1..n : j = First(t, t[j].f) }) }
            \cup { MDrop(i) : i \in F("ref") \cup F("key") \cup F("depmagic") }
        doubles ==
            \* non-minimal zero amount: length 1, one zero byte
            { <<MSet(i, 1), MInsVal(i + 1, 1, 0)>> : i \in { j \in 1..n : t[j].f \in AmtLens /\ t[j].v = 0 } }
            \* ordinary mask with a trailing zero byte
            \cup { <<MSet(i, t[i].v + 1), MInsVal(i + 2, 1, 0)>> : i \in { j \in F("mlen") : t[j].v > 0 } }
            \* consistent count changes: one more reference / key / signature entry
            \cup { <<MSet(i, t[i].v + 1), MInsNew(i + 1, 32, 99999)>> : i \in F("refcnt") \cup F("keycnt") }
    IN  { <<m, NoMut>> : m \in singles } \cup doubles

Muts(tx, bulk) == MutsO(TxTokens(tx), Offsets(TxTokens(tx)), bulk)

CaseTokens(x) == Mutate2(TxTokens(x.shape), x.mut, x.mut2)
Expected(x) == TxParse(CaseTokens(x)).verdict

(* --------------------------------- table -------------------------------- *)
Rec(kind, s, m1, m2, f, s2, bulk) ==
    [kind |-> kind, shape |-> s, mut |-> m1, mut2 |-> m2, f |-> f, shape2 |-> s2, bulk |-> bulk]

\* bulk \in {"yes", "no"} for the enumerated shapes, "limit" for the shapes at the limits.
\* A single root state: everything else is evaluated by the TLC workers (large stack), not by
\* the JVM main thread that computes initial states.
Init == c = Rec("root", 0, NoMut, NoMut, "-", 0, "no")
Next ==
    \/ /\ c.kind = "root"
       /\ c' \in { Rec("shape", ShapeOf(id), NoMut, NoMut, "-", 0, Bulk(id)) : id \in ShapeIds }
                 \cup { Rec("shape", s, NoMut, NoMut, "-", 0, "limit") : s \in LimitShapes }
    \/ /\ c.kind = "shape" /\ c.bulk = "limit"
       /\ c' \in { Rec("dec", c.shape, mm[1], mm[2], "-", 0, c.bulk) : mm \in MutsLimit(c.shape) }
    \/ /\ c.kind = "shape" /\ c.bulk # "limit"
       /\ c' \in { Rec("dec", c.shape, mm[1], mm[2], "-", 0, c.bulk) : mm \in Muts(c.shape, c.bulk = "yes") }
                 \cup { Rec("pair", c.shape, NoMut, NoMut, pp[1], pp[2], c.bulk) : pp \in Perturbations(c.shape) }
Spec == Init /\ [][Next]_c

InvDec == c.kind = "dec" => Canonical(CaseTokens(c))
InvRoundTrip == c.kind = "shape" => RoundTrip(c.shape)
InvPairRoundTrip == c.kind = "pair" => RoundTrip(c.shape2)
InvHash == c.kind = "pair" => HashCommits(c.shape, c.f, c.shape2)

\* non-vacuity witnesses (each must be violated = reachable)
NoMutatedAccept == ~(c.kind = "dec" /\ c.mut.op \notin {"None", "Flip"} /\ Expected(c) = "accept")
NoNonMinReject == ~(c.kind = "dec" /\ c.mut.op = "NonMin" /\ Expected(c) = "reject")
NoReplReject == ~(c.kind = "dec" /\ c.mut.op = "Repl" /\ Expected(c) = "reject")
NoAny == ~(c.kind = "dec" /\ Expected(c) = "any")

EmitCase ==
    IF c.kind = "root" THEN TRUE ELSE
    IF c.kind = "shape"
    THEN PrintT("CASE " \o ToJson([kind |-> "shape", shape |-> c.shape, lens |-> Lens(TxTokens(c.shape))]))
    ELSE IF c.kind = "dec"
    THEN PrintT("CASE " \o ToJson([kind |-> "dec", shape |-> c.shape, mut |-> c.mut, mut2 |-> c.mut2]))
    ELSE PrintT("CASE " \o ToJson([kind |-> "pair", shape |-> c.shape, f |-> c.f, shape2 |-> c.shape2]))
=============================================================================
