SPECIFICATION Spec
CONSTANTS
  Full = FALSE
  Around = FALSE
INVARIANT InvDec
INVARIANT InvRoundTrip
INVARIANT InvPairRoundTrip
INVARIANT InvHash
CHECK_DEADLOCK FALSE
