SPECIFICATION Spec
CONSTANTS
  T = 10
  Skews <- SkewsWit
  Timeouts = {0, 10}
INVARIANT NoBoundaryAccept
CHECK_DEADLOCK FALSE
