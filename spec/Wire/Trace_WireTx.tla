----------------------------- MODULE Trace_WireTx -----------------------------
(***************************************************************************)
(* Trace specification for the transaction codec (engine E2, property      *)
(* C06).  Stateless: every recorded event is judged on its own; "Shape"    *)
(* lines carry the transaction structure that later lines refer to by      *)
(* their line number (sline).                                              *)
(*                                                                         *)
(*  {"ev":"Shape","shape":{..}}                                            *)
(*  {"ev":"Dec","src":"case"|"valid"|"blind","idx":n,"sline":n,            *)
(*   "mut":{..},"mut2":{..},       the mutation(s) applied to the encoding *)
(*   "enc0":"ok"|"panic"|"-",      Marshal() of the structure              *)
(*   "layout_ok":b,"base_len":n,"in_len":n,                                *)
(*   "res":"ok"|"err"|"panic",     UnmarshalVersionedTransaction(input)    *)
(*   "enc":"ok"|"panic"|"-","enc_len":n,"reenc_eq":b,   Marshal(decoded)   *)
(*   "rt_eq":b,                    decoded = the structure that was encoded*)
(*   "hash_reuse_eq":b,            decode from a scratch buffer, overwrite *)
(*                                 the buffer, PayloadHash = hash of a     *)
(*                                 value decoded from an intact copy       *)
(*   "hash_moves_after_edit":b,    decode, change the last byte of Extra,  *)
(*                                 PayloadHash differs from the unedited   *)
(*   "nin":n,"nout":n,"nref":n,"extra_n":n,"sigkind":s,"signers":[..]}     *)
(*  {"ev":"Pair","idx":n,"sline":n,"f":field,"res":"ok"|"panic",           *)
(*   "hash_eq":b,"payload_eq":b}   PayloadHash / PayloadMarshal of the     *)
(*                                  structure and of the same structure    *)
(*                                  with field f changed                   *)
(***************************************************************************)
EXTENDS TraceLib, WireTx

CONSTANTS Mode, KnownIds

VARIABLE l

Init == l = 1
Next == l <= TraceLen /\ l' = l + 1
Spec == Init /\ [][Next]_l

AuthFields == {"sigs", "sigval", "sigidx", "sigmaps", "asig", "signers", "sigkind"}

Unmutated(e) == e.mut.op = "None" /\ e.mut2.op = "None"

(* ------------------------- the property (monitor) ------------------------ *)
DecMonitor(e) ==
    /\ e.res # "panic"
    \* any accepted byte string re-encodes to exactly the same bytes
    /\ (e.res = "ok" => e.enc = "ok" /\ e.reenc_eq /\ e.in_len = e.enc_len)
    \* the hash of a decoded value depends on its payload fields only: not on the buffer it was
    \* decoded from, and it follows a payload field that is changed afterwards
    /\ (e.res = "ok" => e.hash_reuse_eq /\ e.hash_moves_after_edit)
    \* encoding followed by decoding returns an equal transaction
    /\ (e.src \in {"case", "valid"} /\ Unmutated(e) /\ e.enc0 = "ok" => e.res = "ok" /\ e.rt_eq)

PairMonitor(e) ==
    /\ e.res = "ok"
    /\ (e.f \notin AuthFields => ~e.hash_eq /\ ~e.payload_eq)
    /\ (e.f \in AuthFields => e.hash_eq /\ e.payload_eq)

(* --------------------------- full conformance ---------------------------- *)
DecFullP(e, t, bt, p) ==
    /\ e.enc0 = "ok"
    /\ e.layout_ok
    /\ e.base_len = TotalLen(bt)
    /\ e.in_len = TotalLen(t)
    /\ (p.verdict = "accept" => e.res = "ok")
    /\ (p.verdict = "reject" => e.res = "err")
    /\ (p.verdict = "accept" /\ e.res = "ok" =>
            /\ e.nin = Len(p.d.ins) /\ e.nout = Len(p.d.outs) /\ e.nref = Len(p.d.refs)
            /\ e.extra_n = p.d.extra.n
            /\ e.sigkind = p.d.sigs.kind
            /\ e.signers = p.d.sigs.signers)

DecFull(e) ==
    e.src = "case" =>
        /\ Trace[e.sline].ev = "Shape"
        /\ LET bt == TxTokens(Trace[e.sline].shape)
               t == Mutate2(bt, e.mut, e.mut2)
           IN  DecFullP(e, t, bt, TxParse(t))

EventOK(e) ==
    CASE e.ev = "Dec"   -> DecMonitor(e) /\ (Mode = "full" => DecFull(e))
      [] e.ev = "Pair"  -> PairMonitor(e)
      [] e.ev = "Shape" -> TRUE
      [] OTHER -> FALSE

Inv == l > 1 => EventOK(Trace[l - 1])

ASSUME TLCSet(2, 0) /\ TLCSet(3, 0)
InvReport ==
    (l > 1 /\ ~EventOK(Trace[l - 1])) =>
        /\ PrintT(<<"BAD-EVENT", l - 1>>)
        /\ TLCSet(3, IF TLCGet(2) = 0 THEN l - 1 ELSE TLCGet(3))
        /\ TLCSet(2, TLCGet(2) + 1)

HW == HighWaterOf(l)
Accepted == TraceAcceptedAt
AcceptedNoBad ==
    /\ TraceAcceptedAt
    /\ \/ TLCGet(2) = 0
       \/ PrintT(<<"TRACE-REJECTED-AT-LINE", TLCGet(3), "OF", TraceLen>>) /\ FALSE
=============================================================================
