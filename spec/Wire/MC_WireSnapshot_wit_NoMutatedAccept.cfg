SPECIFICATION Spec
CONSTANTS
  Rounds = {0, 1}
  Cnts = {1, 2}
  Topos = {0, 1}
  Tss = {1}
  TruncMax = 9
  BigFull = FALSE
  BoundaryCnt = 0
INVARIANT NoMutatedAccept
CHECK_DEADLOCK FALSE
