SPECIFICATION Spec
CONSTANTS
  Big = FALSE
INVARIANT NoMutatedAccept
CHECK_DEADLOCK FALSE
