------------------------------- MODULE WireP2P -------------------------------
(***************************************************************************)
(* Peer message grammar (property C08).                                    *)
(*                                                                         *)
(* Code: p2p/handle.go  parseNetworkMessage, parseTransactionsPayload,     *)
(*                      build*Message, marshalSyncPoints/unmarshalSync...  *)
(*                                                                         *)
(*   1 ping          type                                                  *)
(*   3 auth          type authdata(137)                                    *)
(*   4 graph         type sig(64) gmagic(4) gcnt(2) {gnode(32) gnum(8)     *)
(*                   ghash(32)}*           (bytes after the points ignored)*)
(*   5 confirm       type hash(32)        6 txreq  type hash(32)           *)
(*   7 tx            type tx                                               *)
(*   8/9 bundle      type BUNDLE = cnt(1) {txlen(4) tx}*                   *)
(*  15 commitments   type sig(64) ccnt(2) point(32)*       (0..1024)       *)
(*  20 announce      type sig(64) point(32) SNAPSHOT                       *)
(*  21 commitment    type sig(64) snaphash(32) point(32) want(32)*         *)
(*  22 txchallenge   type snaphash(32) cosisig(64) mask(8) BUNDLE          *)
(*  23 response      type snaphash(32) resp(32)                            *)
(*  24 fullchallenge type size(4) SNAPSHOT(size) point(32) point(32) BUNDLE*)
(*  25 final         type SNAPSHOT                                         *)
(* 200 relay         type from(32) to(32) inner        (at least 65 bytes) *)
(* 201 consumers     type {cid(32) cauth(137)}*        (any bytes)         *)
(* other types       accepted with nothing but the type                    *)
(*                                                                         *)
(* Embedded snapshots and transactions are atomic tokens here (their own   *)
(* grammars are WireSnapshot and WireTx, instantiated below for their      *)
(* lengths): SNAPSHOT = snapbody(L-8) snaptopo(8), tx = one token.  Point  *)
(* tokens carry v >= 0 for a valid prime-order point and v < 0 for an      *)
(* invalid one (-10 not on the curve, -11 small order, -12 mixed order: a   *)
(* valid point plus a torsion point).                                      *)
(***************************************************************************)
EXTENDS Wire

Snap == INSTANCE WireSnapshot
Tx == INSTANCE WireTx

TypeOf == [ping |-> 1, auth |-> 3, graph |-> 4, confirm |-> 5, txreq |-> 6, tx |-> 7, bundle |-> 8,
           fbundle |-> 9, commitments |-> 15, announce |-> 20, commitment |-> 21, txchallenge |-> 22,
           response |-> 23, fullchallenge |-> 24, final |-> 25, relay |-> 200, consumers |-> 201,
           unknown |-> 99]
TypeNames == DOMAIN TypeOf
PointTypes == {15, 20, 21, 24}
GMagic == 2004287489          \* 0x77 0x77 0x00 0x01
AuthSize == 137

(* ------------------------------- builders ------------------------------- *)
\* transaction classes: 0 = empty transaction, 1 = 220 bytes of extra
TxStruct(m) ==
    [ver |-> Tx!TxVerOK, asset |-> 1, ins |-> <<>>, outs |-> <<>>, refs |-> <<>>,
     extra |-> IF m = 0 THEN Tx!NoB ELSE Tx!B(220, 95), sigs |-> Tx!NoSigs]
TxLen(m) == TotalLen(Tx!TxTokens(TxStruct(m)))

\* buildTransactionsPayload
BundleTokens(n, m) ==
    <<Tok("cnt", 1, n)>>
    \o [j \in 1..(2 * n) |-> IF j % 2 = 1 THEN Tok("txlen", 4, TxLen(m)) ELSE Tok("tx", TxLen(m), 500 + j)]

\* Snapshot.VersionedMarshal of the shape (always with the 8-byte suffix, value 0)
SnapLen(s) == TotalLen(Snap!ShapeTokens(s))
SnapTokens(s) == <<Tok("snapbody", SnapLen(s) - 8, 700), Tok("snaptopo", 8, 701)>>

\* a SHAPE: [typ, n, m, snap]   n = count (transactions, commitments, wanted hashes, sync
\* points, consumers, relayed bytes), m = transaction class, snap = snapshot shape
MsgTokens(s) ==
    LET ty == Tok("type", 1, TypeOf[s.typ]) IN
    CASE s.typ = "ping"        -> <<ty>>
      [] s.typ = "unknown"     -> <<ty, Tok("junk", 5, 1)>>
      [] s.typ = "auth"        -> <<ty, Tok("authdata", AuthSize, 2)>>
      [] s.typ = "graph"       -> <<ty, Tok("sig", 64, 3), Tok("gmagic", 4, GMagic), Tok("gcnt", 2, s.n)>>
                                  \o [j \in 1..(3 * s.n) |-> CASE j % 3 = 1 -> Tok("gnode", 32, 100 + j)
                                                              [] j % 3 = 2 -> Tok("gnum", 8, 100 + j)
                                                              [] OTHER -> Tok("ghash", 32, 100 + j)]
      [] s.typ \in {"confirm", "txreq"} -> <<ty, Tok("hash", 32, 4)>>
      [] s.typ = "tx"          -> <<ty, Tok("tx", TxLen(s.m), 500)>>
      [] s.typ \in {"bundle", "fbundle"} -> <<ty>> \o BundleTokens(s.n, s.m)
      [] s.typ = "commitments" -> <<ty, Tok("sig", 64, 3), Tok("ccnt", 2, s.n)>>
                                  \o [j \in 1..s.n |-> Tok("point", 32, 200 + j)]
      [] s.typ = "announce"    -> <<ty, Tok("sig", 64, 3), Tok("point", 32, 201)>> \o SnapTokens(s.snap)
      [] s.typ = "commitment"  -> <<ty, Tok("sig", 64, 3), Tok("snaphash", 32, 5), Tok("point", 32, 201)>>
                                  \o [j \in 1..s.n |-> Tok("want", 32, 300 + j)]
      [] s.typ = "txchallenge" -> <<ty, Tok("snaphash", 32, 5), Tok("cosisig", 64, 6), Tok("mask", 8, 7)>>
                                  \o BundleTokens(s.n, s.m)
      [] s.typ = "response"    -> <<ty, Tok("snaphash", 32, 5), Tok("resp", 32, 8)>>
      [] s.typ = "fullchallenge" -> <<ty, Tok("size", 4, SnapLen(s.snap))>> \o SnapTokens(s.snap)
                                  \o <<Tok("point", 32, 201), Tok("point", 32, 202)>> \o BundleTokens(s.n, s.m)
      [] s.typ = "final"       -> <<ty>> \o SnapTokens(s.snap)
      [] s.typ = "relay"       -> <<ty, Tok("from", 32, 9), Tok("to", 32, 10)>>
                                  \o (IF s.n > 0 THEN <<Tok("inner", s.n, 11)>> ELSE <<>>)
      [] s.typ = "consumers"   -> <<ty>> \o [j \in 1..(2 * s.n) |-> IF j % 2 = 1 THEN Tok("cid", 32, 400 + j)
                                                                     ELSE Tok("cauth", AuthSize, 400 + j)]

\* what the node can build: the snapshot must be decodable by the snapshot grammar, a full
\* challenge carries a signed snapshot, list sizes are within the builders' limits
Buildable(s) ==
    /\ s.typ \notin {"ping", "unknown"}        \* no builder: hand-made bytes
    /\ (s.typ \in {"announce", "fullchallenge", "final"} => (s.snap.round = 0 <=> ~s.snap.refs) /\ s.snap.topo = 1)
    /\ (s.typ = "fullchallenge" => s.snap.sig)
    /\ (s.typ \in {"bundle", "fbundle", "txchallenge", "fullchallenge"} => s.n <= 255)
    /\ (s.typ = "commitments" => s.n <= 1024)

(* -------------------------------- parser -------------------------------- *)
\* verdicts: "accept", "reject", "any"
Cls(r) == IF r.st = "short" THEN "reject" ELSE IF r.st = "ok" THEN "ok" ELSE "any"
\* value read: unknown content is fine, a lost cursor is not
ClsV(r) == IF r.st = "short" THEN "reject" ELSE IF r.st = "mis" THEN "any" ELSE "ok"
\* point read: must be a known valid point
ClsP(r) == IF r.st = "short" THEN "reject" ELSE IF r.st # "ok" THEN "any" ELSE IF r.v < 0 THEN "reject" ELSE "ok"

\* first verdict in a sequence of step results that is not "ok"; "ok" if all are
RECURSIVE FirstBad(_)
FirstBad(rs) == IF rs = <<>> THEN "ok" ELSE IF Head(rs) # "ok" THEN Head(rs) ELSE FirstBad(Tail(rs))

\* parseTransactionsPayload starting at the cnt token i (see the comment in the module head)
BundleVerdict(t, offs, i) ==
    LET c == Rd(t, offs, i, 1) IN
    IF Cls(c) # "ok" THEN Cls(c) ELSE
    LET n == c.v
        avail == Len(t) - i
        m == IF avail < 2 * n THEN avail ELSE 2 * n
        IsPart(j) == t[i + j].k = "part" /\ i + j = Len(t)
        Role(j) ==
            IF j % 2 = 1
            THEN /\ t[i + j].len = 4 /\ t[i + j].k = "ok"
                 /\ (i + j + 1 <= Len(t) =>
                        \/ t[i + j + 1].len = t[i + j].v
                        \/ (t[i + j + 1].len < t[i + j].v /\ i + j + 1 = Len(t)))
            ELSE t[i + j].f = "tx" /\ t[i + j].k = "ok"
        whole == avail >= 2 * n /\ \A j \in 1..(2 * n) : Role(j) /\ (j % 2 = 0 => t[i + j].len = t[i + j - 1].v)
        cut == /\ \A j \in 1..m : Role(j) \/ IsPart(j)
               /\ \/ avail < 2 * n
                  \/ \E j \in 1..m : IsPart(j) \/ (j % 2 = 0 /\ t[i + j].len < t[i + j - 1].v)
    IN  IF whole THEN (IF Rem(t, offs, i + 2 * n + 1) = 0 THEN "accept" ELSE "reject")
        ELSE IF cut THEN "reject"
        ELSE "any"

\* UnmarshalVersionedSnapshot of everything from token i to the end (announce, final), or
\* of exactly the next size bytes (full challenge).  Returns [v |-> verdict, i |-> next cursor]
SnapVerdict(t, offs, i, size, shape) ==
    LET valid == shape.round = 0 <=> ~shape.refs
    IN  IF i > Len(t) THEN [v |-> "reject", i |-> i]
        ELSE IF t[i].f # "snapbody" THEN [v |-> "any", i |-> i]
        ELSE IF t[i].k = "part" THEN [v |-> "reject", i |-> i]
        ELSE IF t[i].k # "ok" THEN [v |-> "any", i |-> i]
        ELSE IF size = t[i].len THEN [v |-> IF valid THEN "ok" ELSE "reject", i |-> i + 1]     \* no suffix
        ELSE IF i + 1 > Len(t) THEN [v |-> IF size < t[i].len THEN "any" ELSE "reject", i |-> i + 1]
        ELSE IF size = t[i].len + t[i + 1].len /\ t[i + 1].len = 8
             THEN [v |-> IF valid THEN "ok" ELSE "reject", i |-> i + 2]
        ELSE IF size > t[i].len /\ size < t[i].len + 8 /\ t[i + 1].f = "snaptopo" THEN [v |-> "reject", i |-> i + 2]
        ELSE [v |-> "any", i |-> i]

\* a snapshot that extends to the end of the message
TailSnap(t, offs, i, shape) ==
    LET size == Rem(t, offs, i)
        sv == SnapVerdict(t, offs, i, size, shape)
    IN  IF sv.v = "ok" THEN "accept"
        ELSE IF sv.v = "any" /\ i + 1 <= Len(t) /\ t[i].f = "snapbody" /\ t[i].k = "ok" /\ t[i + 1].f = "snaptopo"
                /\ t[i + 1].k = "ok" /\ size > t[i].len + 8 THEN "reject"      \* bytes after the suffix
        ELSE sv.v

MsgVerdictO(t, offs, shape) ==
    LET total == offs[Len(t) + 1]
        ty == Rd(t, offs, 1, 1)
        R(i, n) == Rd(t, offs, i, n)
    IN
    IF total < 1 THEN "reject" ELSE
    IF Cls(ty) # "ok" THEN Cls(ty) ELSE
    CASE ty.v = 1 -> IF total = 1 THEN "accept" ELSE "reject"
      [] ty.v = 3 -> IF total = 1 + AuthSize THEN "accept" ELSE "reject"
      [] ty.v \in {5, 6} -> IF total = 33 THEN "accept" ELSE "reject"
      [] ty.v = 23 -> IF total = 65 THEN "accept" ELSE "reject"
      [] ty.v = 200 -> IF total >= 65 THEN "accept" ELSE "reject"
      [] ty.v = 201 -> "accept"
      [] ty.v = 4 ->
            IF total < 71 THEN "reject" ELSE
            LET b == FirstBad(<<ClsV(R(2, 64)), Cls(R(3, 4))>>) IN
            IF b # "ok" THEN b ELSE
            IF R(3, 4).v # GMagic THEN "reject" ELSE
            IF Cls(R(4, 2)) # "ok" THEN Cls(R(4, 2)) ELSE
            IF Rem(t, offs, 5) < 72 * R(4, 2).v THEN "reject" ELSE "accept"
      [] ty.v = 7 ->
            IF Len(t) < 2 THEN "reject"
            ELSE IF t[2].f # "tx" THEN "any"
            ELSE IF t[2].k = "part" THEN "reject"
            ELSE IF t[2].k # "ok" THEN "any"
            ELSE IF Len(t) = 2 THEN "accept" ELSE "reject"
      [] ty.v \in {8, 9} -> IF total < 2 THEN "reject" ELSE BundleVerdict(t, offs, 2)
      [] ty.v = 15 ->
            IF total < 67 THEN "reject" ELSE          \* 1 + signature + count
            LET b == FirstBad(<<ClsV(R(2, 64)), Cls(R(3, 2))>>) IN
            IF b # "ok" THEN b ELSE
            LET n == R(3, 2).v IN
            IF n > 1024 THEN "reject" ELSE
            IF Rem(t, offs, 4) # 32 * n THEN "reject" ELSE
            IF \E j \in 0..(n - 1) : (4 + j > Len(t)) \/ t[4 + j].len # 32 THEN "any" ELSE
            IF \E j \in 0..(n - 1) : t[4 + j].k = "ok" /\ t[4 + j].v < 0 THEN "reject" ELSE
            IF \E j \in 0..(n - 1) : t[4 + j].k # "ok" THEN "any" ELSE "accept"
      [] ty.v = 20 ->
            IF total - 1 <= 99 THEN "reject" ELSE
            LET b == FirstBad(<<ClsV(R(2, 64)), ClsP(R(3, 32))>>) IN
            IF b # "ok" THEN b ELSE TailSnap(t, offs, 4, shape.snap)
      [] ty.v = 21 ->
            IF total - 1 < 128 THEN "reject" ELSE
            LET b == FirstBad(<<ClsV(R(2, 64)), ClsV(R(3, 32)), ClsP(R(4, 32))>>) IN
            IF b # "ok" THEN b ELSE
            IF Rem(t, offs, 5) % 32 # 0 THEN "reject" ELSE "accept"
      [] ty.v = 22 ->
            IF total - 1 < 105 THEN "reject" ELSE
            LET b == FirstBad(<<ClsV(R(2, 32)), ClsV(R(3, 64)), ClsV(R(4, 8))>>) IN
            IF b # "ok" THEN b ELSE BundleVerdict(t, offs, 5)
      [] ty.v = 24 ->
            IF total - 1 < 4 + 65 THEN "reject" ELSE
            IF Cls(R(2, 4)) # "ok" THEN Cls(R(2, 4)) ELSE
            LET size == R(2, 4).v IN
            IF Rem(t, offs, 3) < size THEN "reject" ELSE
            LET sv == SnapVerdict(t, offs, 3, size, shape.snap) IN
            IF sv.v # "ok" THEN sv.v ELSE
            IF ~shape.snap.sig THEN "reject" ELSE
            IF Rem(t, offs, sv.i) < 65 THEN "reject" ELSE
            LET b == FirstBad(<<ClsP(R(sv.i, 32)), ClsP(R(sv.i + 1, 32))>>) IN
            IF b # "ok" THEN b ELSE BundleVerdict(t, offs, sv.i + 2)
      [] ty.v = 25 -> TailSnap(t, offs, 2, shape.snap)
      [] OTHER -> "accept"

MsgVerdict(t, shape) == MsgVerdictO(t, Offsets(t), shape)

(* ------------------------- design-level theorems ------------------------ *)
\* every message the node builds parses (back to an accepted message); the size guards of
\* the parser are not larger than the smallest message of the corresponding builder
\* (commitments with an empty list: 67 bytes; full challenge with a round-zero snapshot and
\* no transaction: 237 payload bytes)
BuiltParses(s) == Buildable(s) => MsgVerdict(MsgTokens(s), s) = "accept"

\* an accepted message never carries a known-invalid point where a valid one is required
PointIdx(t) ==
    IF t = <<>> \/ t[1].k # "ok" THEN {}
    ELSE CASE t[1].v \in {15, 20, 21} -> { i \in 1..Len(t) : t[i].f = "point" }
           [] t[1].v = 24 -> { i \in 1..Len(t) : t[i].f = "point" }
           [] OTHER -> {}
PointSafe(t, shape) ==
    MsgVerdict(t, shape) = "accept" => \A i \in PointIdx(t) : ~(t[i].k = "ok" /\ t[i].v < 0)
=============================================================================
