SPECIFICATION Spec
CONSTANTS
  Big = FALSE
INVARIANT InvBuilt
INVARIANT InvPoint
CHECK_DEADLOCK FALSE
