------------------------------- MODULE WireTx -------------------------------
(***************************************************************************)
(* Transaction version 5 wire grammar (property C06).                      *)
(*                                                                         *)
(* Code: common/encoding.go  EncodeTransaction, EncodeInput, EncodeOutput, *)
(*                           EncodeSignatures, EncodeAggregatedSignature   *)
(*       common/decoding.go  DecodeTransaction, ReadInput, ReadOutput,     *)
(*                           ReadSignatures, ReadAggregatedSignature       *)
(*       common/version.go   unmarshalVersionedTransaction (decode, then   *)
(*                           compare with the re-encoding), payloadMarshal *)
(*                                                                         *)
(*  ver(4) asset(32)                                                       *)
(*  incnt(2) { inhash(32) inindex(2) genlen(2) gen                         *)
(*             depmagic(2) [chain(32) aklen(2) ak thlen(2) th depidx(8)    *)
(*                          depamtlen(2) depamt]                           *)
(*             mintmagic(2) [grouplen(2) group batch(8) mintamtlen(2)      *)
(*                           mintamt] }*                                   *)
(*  outcnt(2) { otype(2) oamtlen(2) oamt keycnt(2) key(32)* omask(32)      *)
(*              scriptlen(2) script wmagic(2) [addrlen(2) addr taglen(2)   *)
(*              tag] }*                                                    *)
(*  refcnt(2) ref(32)*  extralen(4) extra                                  *)
(*  slcnt(2) { sigcnt(2) { sigidx(2) sig(64) }* }*                         *)
(*  | 0xffff prefix(2)=0xff01 asig(64) mtype(1)                            *)
(*        0: mlen(2) mbytes       ordinary mask (bit m%8 of byte m/8)      *)
(*        1: scnt(2) sidx(2)*     sparse list                              *)
(*                                                                         *)
(* A transaction STRUCTURE is the record                                   *)
(*  [ver, asset, ins, outs, refs, extra, sigs] with                        *)
(*  ins[i]  = [hash, index, gen, dep, mint]                                *)
(*     dep  = [has, chain, ak, th, idx, amt]   mint = [has, group, batch,  *)
(*                                                     amt]                *)
(*  outs[i] = [type, amt, keys, mask, script, w]   w = [has, addr, tag]    *)
(*  sigs    = [kind, maps, asig, signers]  kind \in {"maps", "agg"}        *)
(*     maps = sequence of sequences of [idx, sig] (a Go map: one entry per *)
(*            index; the structure keeps them sorted by index)             *)
(* Byte strings are [n |-> length, v |-> identity]; amounts are naturals.  *)
(*                                                                         *)
(* TxParse is the STRICT grammar: every canonicity rule is explicit        *)
(* (minimal integers, strictly increasing signature indices, the mask form *)
(* the encoder would choose, no trailing zero mask byte, no trailing       *)
(* bytes).  The code enforces them differently (lenient parse, then        *)
(* byte comparison with the re-encoding); theorem Canonical shows that the *)
(* explicit rules imply the re-encoding identity.                          *)
(***************************************************************************)
EXTENDS Wire

TxVerOK == 2004287493        \* 0x77 0x77 0x00 0x05
Magic == 30583               \* 0x7777
Null == 0
AggMarker == 65535           \* MaximumEncodingInt
AggPrefix == 65281           \* 0xff01
SliceLimit == 256
IndexLimit == 1024
ExtraCap == 4194304
TxMaxSize == 4194304         \* config.TransactionMaximumSize: longer byte strings are refused unread

ByteLen(v) ==
    IF v = 0 THEN 0 ELSE IF v < 256 THEN 1 ELSE IF v < 65536 THEN 2 ELSE IF v < 16777216 THEN 3 ELSE 4

B(n, v) == [n |-> n, v |-> v]
NoB == B(0, 0)
NoDep == [has |-> FALSE, chain |-> 0, ak |-> NoB, th |-> NoB, idx |-> 0, amt |-> 0]
NoMint == [has |-> FALSE, group |-> NoB, batch |-> 0, amt |-> 0]
NoW == [has |-> FALSE, addr |-> NoB, tag |-> NoB]
NoSigs == [kind |-> "maps", maps |-> <<>>, asig |-> 0, signers |-> <<>>]

\* concatenation of a sequence of sequences (logarithmic recursion depth: lists of 256 items)
RECURSIVE FlatR(_, _, _)
FlatR(ss, a, b) ==
    IF a > b THEN <<>>
    ELSE IF a = b THEN ss[a]
    ELSE LET m == (a + b) \div 2 IN FlatR(ss, a, m) \o FlatR(ss, m + 1, b)
Flat(ss) == FlatR(ss, 1, Len(ss))

Pow2(n) == LET P[i \in 0..n] == IF i = 0 THEN 1 ELSE 2 * P[i - 1] IN P[n]

(* ------------------------------- encoder -------------------------------- *)
BytesTokens(f, b) ==
    <<Tok(f \o "len", 2, b.n)>> \o (IF b.n > 0 THEN <<Tok(f, b.n, b.v)>> ELSE <<>>)

\* WriteInteger: minimal big-endian bytes, zero is the empty string
IntegerTokens(f, a) ==
    <<Tok(f \o "len", 2, ByteLen(a))>> \o (IF a > 0 THEN <<Tok(f, ByteLen(a), a)>> ELSE <<>>)

InputTokens(in) ==
       <<Tok("inhash", 32, in.hash), Tok("inindex", 2, in.index)>>
    \o BytesTokens("gen", in.gen)
    \o (IF in.dep.has
        THEN <<Tok("depmagic", 2, Magic), Tok("chain", 32, in.dep.chain)>>
             \o BytesTokens("ak", in.dep.ak) \o BytesTokens("th", in.dep.th)
             \o <<Tok("depidx", 8, in.dep.idx)>> \o IntegerTokens("depamt", in.dep.amt)
        ELSE <<Tok("depmagic", 2, Null)>>)
    \o (IF in.mint.has
        THEN <<Tok("mintmagic", 2, Magic)>> \o BytesTokens("group", in.mint.group)
             \o <<Tok("batch", 8, in.mint.batch)>> \o IntegerTokens("mintamt", in.mint.amt)
        ELSE <<Tok("mintmagic", 2, Null)>>)

OutputTokens(o) ==
       <<Tok("otype", 2, o.type)>> \o IntegerTokens("oamt", o.amt)
    \o <<Tok("keycnt", 2, Len(o.keys))>> \o [i \in 1..Len(o.keys) |-> Tok("key", 32, o.keys[i])]
    \o <<Tok("omask", 32, o.mask)>> \o BytesTokens("script", o.script)
    \o (IF o.w.has
        THEN <<Tok("wmagic", 2, Magic)>> \o BytesTokens("addr", o.w.addr) \o BytesTokens("tag", o.w.tag)
        ELSE <<Tok("wmagic", 2, Null)>>)

\* EncodeSignatures sorts the entries of one map by index
SortedByIdx(m) == SortSeq(m, LAMBDA a, b : a.idx < b.idx)
SigMapTokens(m) ==
    LET s == SortedByIdx(m) IN
    <<Tok("sigcnt", 2, Len(s))>>
    \o Flat([e \in 1..Len(s) |-> <<Tok("sigidx", 2, s[e].idx), Tok("sig", 64, s[e].sig)>>])

\* EncodeAggregatedSignature: the sparse list is chosen exactly when max/8+1 > 2*count
Sparse(signers) == signers # <<>> /\ (signers[Len(signers)] \div 8) + 1 > 2 * Len(signers)
MaskLen(signers) == IF signers = <<>> THEN 0 ELSE (signers[Len(signers)] \div 8) + 1
\* ordinary mask as one big-endian number over MaskLen bytes: signer m sets bit m%8 of byte m/8
RECURSIVE MaskSum(_, _, _)
MaskSum(signers, nb, i) ==
    IF i > Len(signers) THEN 0
    ELSE Pow2(8 * (nb - 1 - (signers[i] \div 8)) + (signers[i] % 8)) + MaskSum(signers, nb, i + 1)
MaskVal(signers) == MaskSum(signers, MaskLen(signers), 1)

MaskTokens(signers) ==
    IF signers = <<>> THEN <<Tok("mtype", 1, 0), Tok("mlen", 2, 0)>>
    ELSE IF Sparse(signers)
    THEN <<Tok("mtype", 1, 1), Tok("scnt", 2, Len(signers))>>
         \o [i \in 1..Len(signers) |-> Tok("sidx", 2, signers[i])]
    ELSE <<Tok("mtype", 1, 0), Tok("mlen", 2, MaskLen(signers)),
           Tok("mbytes", MaskLen(signers), MaskVal(signers))>>

SigTokens(sg) ==
    IF sg.kind = "agg"
    THEN <<Tok("slcnt", 2, AggMarker), Tok("prefix", 2, AggPrefix), Tok("asig", 64, sg.asig)>>
         \o MaskTokens(sg.signers)
    ELSE <<Tok("slcnt", 2, Len(sg.maps))>> \o Flat([m \in 1..Len(sg.maps) |-> SigMapTokens(sg.maps[m])])

BodyTokens(tx) ==
       <<Tok("ver", 4, tx.ver), Tok("asset", 32, tx.asset), Tok("incnt", 2, Len(tx.ins))>>
    \o Flat([i \in 1..Len(tx.ins) |-> InputTokens(tx.ins[i])])
    \o <<Tok("outcnt", 2, Len(tx.outs))>>
    \o Flat([i \in 1..Len(tx.outs) |-> OutputTokens(tx.outs[i])])
    \o <<Tok("refcnt", 2, Len(tx.refs))>> \o [i \in 1..Len(tx.refs) |-> Tok("ref", 32, tx.refs[i])]
    \o <<Tok("extralen", 4, tx.extra.n)>>
    \o (IF tx.extra.n > 0 THEN <<Tok("extra", tx.extra.n, tx.extra.v)>> ELSE <<>>)

\* VersionedTransaction.Marshal
TxTokens(tx) == BodyTokens(tx) \o SigTokens(tx.sigs)
\* payloadMarshal: the same transaction without any signature
PayloadTokens(tx) == BodyTokens(tx) \o SigTokens(NoSigs)

(* ------------------------------- decoder -------------------------------- *)
\* parser results: [st |-> "ok" | "rej" | "any", i |-> next cursor, v |-> value]
POk(i, v) == [st |-> "ok", i |-> i, v |-> v]
PRej == [st |-> "rej", i |-> 0, v |-> 0]
PAny == [st |-> "any", i |-> 0, v |-> 0]

\* structural read (the value steers the decoder): unknown content gives "any"
S(t, offs, i, n) ==
    LET r == Rd(t, offs, i, n) IN
    IF r.st = "short" THEN PRej ELSE IF r.st # "ok" THEN PAny ELSE POk(i + 1, r.v)

\* value read (the bytes are only copied): unknown content is still accepted
V(t, offs, i, n) ==
    LET r == Rd(t, offs, i, n) IN
    IF r.st = "short" THEN PRej ELSE IF r.st = "mis" THEN PAny ELSE POk(i + 1, r.v)

\* ReadBytes
PBytes(t, offs, i) ==
    LET l == S(t, offs, i, 2) IN
    IF l.st # "ok" THEN l
    ELSE IF l.v = 0 THEN POk(i + 1, NoB)
    ELSE LET x == V(t, offs, i + 1, l.v) IN
         IF x.st # "ok" THEN x ELSE POk(i + 2, B(l.v, x.v))

\* ReadInteger plus the canonicity rule: the bytes are the minimal encoding
PInteger(t, offs, i) ==
    LET l == S(t, offs, i, 2) IN
    IF l.st # "ok" THEN l
    ELSE IF l.v = 0 THEN POk(i + 1, 0)
    ELSE LET r == Rd(t, offs, i + 1, l.v) IN
         IF r.st = "short" THEN PRej
         ELSE IF r.st # "ok" THEN PAny
         ELSE IF r.nm \/ ByteLen(r.v) # l.v THEN PRej
         ELSE POk(i + 2, r.v)

\* ReadMagic
PMagic(t, offs, i) ==
    LET m == S(t, offs, i, 2) IN
    IF m.st # "ok" THEN m
    ELSE IF m.v = Magic THEN POk(i + 1, TRUE)
    ELSE IF m.v = Null THEN POk(i + 1, FALSE)
    ELSE PRej

PDeposit(t, offs, i) ==
    LET c == V(t, offs, i, 32) IN IF c.st # "ok" THEN c ELSE
    LET ak == PBytes(t, offs, c.i) IN IF ak.st # "ok" THEN ak ELSE
    LET th == PBytes(t, offs, ak.i) IN IF th.st # "ok" THEN th ELSE
    LET ix == V(t, offs, th.i, 8) IN IF ix.st # "ok" THEN ix ELSE
    LET am == PInteger(t, offs, ix.i) IN IF am.st # "ok" THEN am ELSE
    POk(am.i, [has |-> TRUE, chain |-> c.v, ak |-> ak.v, th |-> th.v, idx |-> ix.v, amt |-> am.v])

PMint(t, offs, i) ==
    LET g == PBytes(t, offs, i) IN IF g.st # "ok" THEN g ELSE
    LET b == V(t, offs, g.i, 8) IN IF b.st # "ok" THEN b ELSE
    LET am == PInteger(t, offs, b.i) IN IF am.st # "ok" THEN am ELSE
    POk(am.i, [has |-> TRUE, group |-> g.v, batch |-> b.v, amt |-> am.v])

PInput(t, offs, i) ==
    LET h == V(t, offs, i, 32) IN IF h.st # "ok" THEN h ELSE
    LET ix == S(t, offs, h.i, 2) IN IF ix.st # "ok" THEN ix ELSE
    IF ix.v > IndexLimit THEN PRej ELSE
    LET g == PBytes(t, offs, ix.i) IN IF g.st # "ok" THEN g ELSE
    LET dm == PMagic(t, offs, g.i) IN IF dm.st # "ok" THEN dm ELSE
    LET d == IF dm.v THEN PDeposit(t, offs, dm.i) ELSE POk(dm.i, NoDep) IN IF d.st # "ok" THEN d ELSE
    LET mm == PMagic(t, offs, d.i) IN IF mm.st # "ok" THEN mm ELSE
    LET m == IF mm.v THEN PMint(t, offs, mm.i) ELSE POk(mm.i, NoMint) IN IF m.st # "ok" THEN m ELSE
    POk(m.i, [hash |-> h.v, index |-> ix.v, gen |-> g.v, dep |-> d.v, mint |-> m.v])

\* n fixed-size value tokens (keys, references)
PFixed(t, offs, i, n, size) ==
    IF Rem(t, offs, i) < size * n THEN PRej
    ELSE IF \E j \in 0..(n - 1) : (i + j > Len(t)) \/ t[i + j].len # size THEN PAny
    ELSE POk(i + n, [j \in 1..n |-> IF t[i + j - 1].k = "ok" THEN t[i + j - 1].v ELSE 0 - 1])

POutput(t, offs, i) ==
    LET ty == S(t, offs, i, 2) IN IF ty.st # "ok" THEN ty ELSE
    IF ty.v > 255 THEN PRej ELSE          \* first byte of the type must be zero
    LET am == PInteger(t, offs, ty.i) IN IF am.st # "ok" THEN am ELSE
    LET kc == S(t, offs, am.i, 2) IN IF kc.st # "ok" THEN kc ELSE
    IF kc.v > SliceLimit THEN PRej ELSE
    LET ks == PFixed(t, offs, kc.i, kc.v, 32) IN IF ks.st # "ok" THEN ks ELSE
    LET mk == V(t, offs, ks.i, 32) IN IF mk.st # "ok" THEN mk ELSE
    LET sc == PBytes(t, offs, mk.i) IN IF sc.st # "ok" THEN sc ELSE
    LET wm == PMagic(t, offs, sc.i) IN IF wm.st # "ok" THEN wm ELSE
    IF ~wm.v THEN POk(wm.i, [type |-> ty.v, amt |-> am.v, keys |-> ks.v, mask |-> mk.v, script |-> sc.v, w |-> NoW]) ELSE
    LET ad == PBytes(t, offs, wm.i) IN IF ad.st # "ok" THEN ad ELSE
    LET tg == PBytes(t, offs, ad.i) IN IF tg.st # "ok" THEN tg ELSE
    POk(tg.i, [type |-> ty.v, amt |-> am.v, keys |-> ks.v, mask |-> mk.v, script |-> sc.v,
               w |-> [has |-> TRUE, addr |-> ad.v, tag |-> tg.v]])

\* n items parsed by P (each at least minsize bytes long)
RECURSIVE PInputs(_, _, _, _, _)
PInputs(t, offs, i, n, acc) ==
    IF n = 0 THEN POk(i, acc)
    ELSE IF Rem(t, offs, i) < 40 * n THEN PRej
    ELSE LET x == PInput(t, offs, i) IN
         IF x.st # "ok" THEN x ELSE PInputs(t, offs, x.i, n - 1, Append(acc, x.v))

RECURSIVE POutputs(_, _, _, _, _)
POutputs(t, offs, i, n, acc) ==
    IF n = 0 THEN POk(i, acc)
    ELSE IF Rem(t, offs, i) < 42 * n THEN PRej
    ELSE LET x == POutput(t, offs, i) IN
         IF x.st # "ok" THEN x ELSE POutputs(t, offs, x.i, n - 1, Append(acc, x.v))

\* ReadSignatures plus canonicity: indices strictly increasing (no duplicate, sorted)
RECURSIVE PSigEntries(_, _, _, _, _)
PSigEntries(t, offs, i, n, acc) ==
    IF n = 0 THEN POk(i, acc)
    ELSE IF Rem(t, offs, i) < 66 * n THEN PRej
    ELSE LET ix == S(t, offs, i, 2) IN IF ix.st # "ok" THEN ix ELSE
         LET sg == V(t, offs, ix.i, 64) IN IF sg.st # "ok" THEN sg ELSE
         IF acc # <<>> /\ acc[Len(acc)].idx >= ix.v THEN PRej ELSE
         PSigEntries(t, offs, sg.i, n - 1, Append(acc, [idx |-> ix.v, sig |-> sg.v]))

PSigMap(t, offs, i) ==
    LET c == S(t, offs, i, 2) IN IF c.st # "ok" THEN c ELSE PSigEntries(t, offs, c.i, c.v, <<>>)

RECURSIVE PSigMaps(_, _, _, _, _)
PSigMaps(t, offs, i, n, acc) ==
    IF n = 0 THEN POk(i, acc)
    ELSE IF Rem(t, offs, i) < 2 * n THEN PRej
    ELSE LET x == PSigMap(t, offs, i) IN
         IF x.st # "ok" THEN x ELSE PSigMaps(t, offs, x.i, n - 1, Append(acc, x.v))

\* signers of an ordinary mask given as the big-endian number v over nb bytes
MaskBits(v, nb) ==
    LET S1 == { m \in 0..(8 * nb - 1) : (v \div Pow2(8 * (nb - 1 - (m \div 8)) + (m % 8))) % 2 = 1 }
    IN  [i \in 1..Cardinality(S1) |-> CHOOSE m \in S1 : Cardinality({ x \in S1 : x < m }) = i - 1]

RECURSIVE PSparse(_, _, _, _, _)
PSparse(t, offs, i, n, acc) ==
    IF n = 0 THEN POk(i, acc)
    ELSE IF Rem(t, offs, i) < 2 * n THEN PRej
    ELSE LET x == S(t, offs, i, 2) IN IF x.st # "ok" THEN x ELSE
         IF acc # <<>> /\ acc[Len(acc)] >= x.v THEN PRej ELSE     \* validateAggregatedSigners
         PSparse(t, offs, x.i, n - 1, Append(acc, x.v))

\* ReadAggregatedSignature plus canonicity: the form the encoder would choose, no
\* trailing zero byte in an ordinary mask
PAgg(t, offs, i) ==
    LET px == S(t, offs, i, 2) IN IF px.st # "ok" THEN px ELSE
    IF px.v # AggPrefix THEN PRej ELSE
    LET sg == V(t, offs, px.i, 64) IN IF sg.st # "ok" THEN sg ELSE
    LET ty == S(t, offs, sg.i, 1) IN IF ty.st # "ok" THEN ty ELSE
    IF ty.v = 1 THEN
        LET c == S(t, offs, ty.i, 2) IN IF c.st # "ok" THEN c ELSE
        LET sp == PSparse(t, offs, c.i, c.v, <<>>) IN IF sp.st # "ok" THEN sp ELSE
        IF ~Sparse(sp.v) THEN PRej ELSE
        POk(sp.i, [kind |-> "agg", maps |-> <<>>, asig |-> sg.v, signers |-> sp.v])
    ELSE IF ty.v = 0 THEN
        LET l == S(t, offs, ty.i, 2) IN IF l.st # "ok" THEN l ELSE
        IF l.v = 0 THEN POk(l.i, [kind |-> "agg", maps |-> <<>>, asig |-> sg.v, signers |-> <<>>]) ELSE
        LET r == Rd(t, offs, l.i, l.v) IN
        IF r.st = "short" THEN PRej ELSE IF r.st # "ok" \/ l.v > 3 THEN PAny ELSE
        LET sn == MaskBits(r.v, l.v) IN
        IF sn = <<>> \/ MaskLen(sn) # l.v \/ Sparse(sn) THEN PRej ELSE
        POk(l.i + 1, [kind |-> "agg", maps |-> <<>>, asig |-> sg.v, signers |-> sn])
    ELSE PRej

PSigs(t, offs, i) ==
    LET sl == S(t, offs, i, 2) IN IF sl.st # "ok" THEN sl ELSE
    IF sl.v = AggMarker THEN PAgg(t, offs, sl.i) ELSE
    LET n == IF sl.v > SliceLimit THEN SliceLimit ELSE sl.v
        ms == PSigMaps(t, offs, sl.i, n, <<>>)
    IN  IF ms.st # "ok" THEN ms ELSE
        IF sl.v > SliceLimit THEN PRej ELSE       \* only 256 maps are read: never canonical
        POk(ms.i, [kind |-> "maps", maps |-> ms.v, asig |-> 0, signers |-> <<>>])

\* unmarshalVersionedTransaction as specified: [verdict, d]
TxRej == [verdict |-> "reject", d |-> 0]
TxUnk == [verdict |-> "any", d |-> 0]
Fail(r) == IF r.st = "rej" THEN TxRej ELSE TxUnk

TxParseO(t, offs) ==
    IF offs[Len(t) + 1] > TxMaxSize THEN TxRej ELSE
    LET ver == S(t, offs, 1, 4) IN IF ver.st # "ok" THEN Fail(ver) ELSE
    IF ver.v # TxVerOK THEN TxRej ELSE
    LET as == V(t, offs, 2, 32) IN IF as.st # "ok" THEN Fail(as) ELSE
    LET ic == S(t, offs, 3, 2) IN IF ic.st # "ok" THEN Fail(ic) ELSE
    IF ic.v > SliceLimit THEN TxRej ELSE
    LET ins == PInputs(t, offs, ic.i, ic.v, <<>>) IN IF ins.st # "ok" THEN Fail(ins) ELSE
    LET oc == S(t, offs, ins.i, 2) IN IF oc.st # "ok" THEN Fail(oc) ELSE
    IF oc.v > SliceLimit THEN TxRej ELSE
    LET outs == POutputs(t, offs, oc.i, oc.v, <<>>) IN IF outs.st # "ok" THEN Fail(outs) ELSE
    LET rc == S(t, offs, outs.i, 2) IN IF rc.st # "ok" THEN Fail(rc) ELSE
    IF rc.v > SliceLimit THEN TxRej ELSE
    LET refs == PFixed(t, offs, rc.i, rc.v, 32) IN IF refs.st # "ok" THEN Fail(refs) ELSE
    LET el == S(t, offs, refs.i, 4) IN IF el.st # "ok" THEN Fail(el) ELSE
    IF el.v > ExtraCap THEN TxRej ELSE
    LET ex == IF el.v = 0 THEN POk(el.i, 0) ELSE V(t, offs, el.i, el.v) IN IF ex.st # "ok" THEN Fail(ex) ELSE
    LET sg == PSigs(t, offs, ex.i) IN IF sg.st # "ok" THEN Fail(sg) ELSE
    IF Rem(t, offs, sg.i) # 0 THEN TxRej ELSE      \* trailing bytes
    [verdict |-> "accept",
     d |-> [ver |-> ver.v, asset |-> as.v, ins |-> ins.v, outs |-> outs.v, refs |-> refs.v,
            extra |-> B(el.v, ex.v), sigs |-> sg.v]]

TxParse(t) == TxParseO(t, Offsets(t))

Accept(t) == TxParse(t).verdict = "accept"

(* ------------------------- design-level theorems ------------------------ *)
\* C06 sentence 1a: an accepted string re-encodes to exactly the same bytes
CanonicalP(t, p) ==
    (p.verdict = "accept" /\ AllKnown(t)) => Strip(t) = Strip(TxTokens(p.d))
Canonical(t) == CanonicalP(t, TxParse(t))

\* C06 sentence 1b: encoding followed by decoding returns an equal transaction
RoundTrip(tx) ==
    LET p == TxParse(TxTokens(tx)) IN p.verdict = "accept" /\ p.d = tx

\* C06 sentences 2 and 3: the hash is (an injective function of) the payload encoding, which
\* changes with every payload field and with no authorization data.  A perturbation is a
\* pair <<field name, changed structure>> produced by Perturbations(tx).
HashCommits(tx, f, tx2) ==
    LET same == Strip(PayloadTokens(tx)) = Strip(PayloadTokens(tx2)) IN
    IF f \in {"sigs", "sigval", "sigidx", "sigmaps", "asig", "signers", "sigkind"} THEN same ELSE ~same

SetAt(s, i, x) == [s EXCEPT ![i] = x]

Perturbations(tx) ==
    LET I == 1..Len(tx.ins)  O == 1..Len(tx.outs) IN
    {<<"asset", [tx EXCEPT !.asset = @ + 1]>>}
    \cup { <<"inhash", [tx EXCEPT !.ins[i].hash = @ + 1]>> : i \in I }
    \cup { <<"inindex", [tx EXCEPT !.ins[i].index = IF @ >= IndexLimit THEN @ - 1 ELSE @ + 1]>> : i \in I }
    \cup { <<"gen", [tx EXCEPT !.ins[i].gen = B(@.n + 1, 901)]>> : i \in I }
    \cup { <<"genval", [tx EXCEPT !.ins[i].gen.v = @ + 1]>> : i \in { j \in I : tx.ins[j].gen.n > 0 } }
    \cup { <<"dephas", [tx EXCEPT !.ins[i].dep = IF @.has THEN NoDep
                                  ELSE [has |-> TRUE, chain |-> 902, ak |-> NoB, th |-> NoB, idx |-> 0, amt |-> 0]]>> : i \in I }
    \cup { <<"minthas", [tx EXCEPT !.ins[i].mint = IF @.has THEN NoMint
                                  ELSE [has |-> TRUE, group |-> NoB, batch |-> 0, amt |-> 0]]>> : i \in I }
    \cup UNION { { <<"chain", [tx EXCEPT !.ins[i].dep.chain = @ + 1]>>,
                   <<"ak", [tx EXCEPT !.ins[i].dep.ak = B(@.n + 1, 903)]>>,
                   <<"th", [tx EXCEPT !.ins[i].dep.th = B(@.n + 1, 904)]>>,
                   <<"depidx", [tx EXCEPT !.ins[i].dep.idx = @ + 1]>>,
                   <<"depamt", [tx EXCEPT !.ins[i].dep.amt = @ + 1]>> } : i \in { j \in I : tx.ins[j].dep.has } }
    \cup UNION { { <<"group", [tx EXCEPT !.ins[i].mint.group = B(@.n + 1, 905)]>>,
                   <<"batch", [tx EXCEPT !.ins[i].mint.batch = @ + 1]>>,
                   <<"mintamt", [tx EXCEPT !.ins[i].mint.amt = @ + 1]>> } : i \in { j \in I : tx.ins[j].mint.has } }
    \cup { <<"addin", [tx EXCEPT !.ins = Append(@, [hash |-> 906, index |-> 0, gen |-> NoB, dep |-> NoDep, mint |-> NoMint])]>> }
    \cup UNION { { <<"otype", [tx EXCEPT !.outs[o].type = (@ + 1) % 256]>>,
                   <<"oamt", [tx EXCEPT !.outs[o].amt = @ + 1]>>,
                   <<"addkey", [tx EXCEPT !.outs[o].keys = Append(@, 907)]>>,
                   <<"omask", [tx EXCEPT !.outs[o].mask = @ + 1]>>,
                   <<"script", [tx EXCEPT !.outs[o].script = B(@.n + 1, 908)]>>,
                   <<"whas", [tx EXCEPT !.outs[o].w = IF @.has THEN NoW ELSE [has |-> TRUE, addr |-> NoB, tag |-> NoB]]>> } : o \in O }
    \cup { <<"key", [tx EXCEPT !.outs[o].keys[1] = @ + 1]>> : o \in { j \in O : tx.outs[j].keys # <<>> } }
    \cup UNION { { <<"addr", [tx EXCEPT !.outs[o].w.addr = B(@.n + 1, 909)]>>,
                   <<"tag", [tx EXCEPT !.outs[o].w.tag = B(@.n + 1, 910)]>> } : o \in { j \in O : tx.outs[j].w.has } }
    \cup { <<"addout", [tx EXCEPT !.outs = Append(@, [type |-> 0, amt |-> 0, keys |-> <<>>, mask |-> 911, script |-> NoB, w |-> NoW])]>> }
    \cup { <<"addref", [tx EXCEPT !.refs = Append(@, 912)]>> }
    \cup (IF tx.refs # <<>> THEN {<<"ref", [tx EXCEPT !.refs[1] = @ + 1]>>} ELSE {})
    \cup { <<"extra", [tx EXCEPT !.extra = B(@.n + 1, 913)]>> }
    \cup (IF tx.extra.n > 0 THEN {<<"extraval", [tx EXCEPT !.extra.v = @ + 1]>>} ELSE {})
    \* authorization data
    \cup (IF tx.sigs.kind = "maps"
          THEN {<<"sigmaps", [tx EXCEPT !.sigs.maps = Append(@, <<[idx |-> 0, sig |-> 914]>>)]>>,
                <<"sigkind", [tx EXCEPT !.sigs = [kind |-> "agg", maps |-> <<>>, asig |-> 915, signers |-> <<0>>]]>>}
               \cup (IF tx.sigs.maps # <<>> /\ tx.sigs.maps[1] # <<>>
                     THEN {<<"sigval", [tx EXCEPT !.sigs.maps[1][1].sig = @ + 1]>>,
                           <<"sigidx", [tx EXCEPT !.sigs.maps[1] = [e \in 1..Len(@) |-> [@[e] EXCEPT !.idx = @ + 1]]]>>}
                     ELSE {})
          ELSE {<<"asig", [tx EXCEPT !.sigs.asig = @ + 1]>>,
                <<"signers", [tx EXCEPT !.sigs.signers = IF @ = <<>> THEN <<0>>
                                                          ELSE IF Len(@) > 1 THEN SubSeq(@, 1, Len(@) - 1)
                                                          ELSE <<@[1] + 1>>]>>,
                <<"sigkind", [tx EXCEPT !.sigs = NoSigs]>>})
=============================================================================
