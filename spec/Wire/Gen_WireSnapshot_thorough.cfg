SPECIFICATION Spec
CONSTANTS
  Rounds = {0, 1, 2}
  Cnts = {1, 2, 3, 254, 255}
  Topos = {0, 1, 2, 3}
  Tss = {0, 1}
  TruncMax = 80
  BigFull = TRUE
  BoundaryCnt = 3
INVARIANT InvDec
INVARIANT InvRoundTrip
INVARIANT InvHash
CONSTRAINT EmitCase
CHECK_DEADLOCK FALSE
