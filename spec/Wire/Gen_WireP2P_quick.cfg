SPECIFICATION Spec
CONSTANTS
  Big = FALSE
INVARIANT InvBuilt
INVARIANT InvPoint
CONSTRAINT EmitCase
CHECK_DEADLOCK FALSE
