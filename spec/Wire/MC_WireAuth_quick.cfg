SPECIFICATION Spec
CONSTANTS
  T = 10
  Skews <- SkewsQuick
  Timeouts = {0, 10}
INVARIANT InvBinding
INVARIANT InvTamper
INVARIANT InvBuilt
INVARIANT InvToken
CHECK_DEADLOCK FALSE
