SPECIFICATION Spec
CONSTANTS
  Big = FALSE
INVARIANT NoSmallest
CHECK_DEADLOCK FALSE
