SPECIFICATION Spec
CONSTANTS
  Rounds = {0, 1}
  Cnts = {1, 2, 255}
  Topos = {0, 1, 2}
  Tss = {1}
  TruncMax = 12
  BigFull = FALSE
  BoundaryCnt = 2
INVARIANT InvDec
INVARIANT InvRoundTrip
INVARIANT InvHash
CONSTRAINT EmitCase
CHECK_DEADLOCK FALSE
