SPECIFICATION Spec
CONSTANTS
  T = 10
  Skews <- SkewsThorough
  Timeouts = {0, 1, 10}
INVARIANT InvBinding
INVARIANT InvTamper
INVARIANT InvBuilt
INVARIANT InvToken
CHECK_DEADLOCK FALSE
