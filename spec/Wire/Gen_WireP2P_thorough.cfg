SPECIFICATION Spec
CONSTANTS
  Big = TRUE
INVARIANT InvBuilt
INVARIANT InvPoint
CONSTRAINT EmitCase
CHECK_DEADLOCK FALSE
