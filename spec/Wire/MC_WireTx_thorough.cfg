SPECIFICATION Spec
CONSTANTS
  Full = TRUE
  Around = TRUE
INVARIANT InvDec
INVARIANT InvRoundTrip
INVARIANT InvPairRoundTrip
INVARIANT InvHash
CHECK_DEADLOCK FALSE
