----------------------------- MODULE Trace_WireAuth -----------------------------
(***************************************************************************)
(* Trace specification for peer authentication (engine E2, property C30).  *)
(*                                                                         *)
(*  {"ev":"Auth","src":"case"|"blind","idx":n,                             *)
(*   "case":{"dev":..,"m":{..},"timeout":n},   (src = case)                *)
(*   "built":"real"|"hand",      bytes from BuildAuthenticationMessage or  *)
(*                               assembled by the harness with real keys   *)
(*   "len":n,"timeout":n,                                                  *)
(*   "skew":n,                   receiver clock - ts of the bytes handed to*)
(*                               AuthenticateAs (clipped to +-1000000)     *)
(*   "res":"ok"|"err"|"panic",   AuthenticateAs(R, bytes, timeout)         *)
(*   observations on the bytes (independent of AuthenticateAs):            *)
(*   "rcpt_match":b  bytes 8..40 = receiver id                             *)
(*   "sig_valid":b   bytes 73..137 verify under key bytes 40..72 over      *)
(*                   BLAKE3(bytes 0..73)                                   *)
(*   "from_self":b   id derived from key bytes 40..72 = receiver id        *)
(*   "msg_flag":n    byte 72                                               *)
(*   observations on the returned token:                                   *)
(*   "tok_id_ok":b   PeerId = id derived from key bytes 40..72             *)
(*   "tok_relayer":b IsRelayer    "tok_ts_ok":b  "tok_data_ok":b}          *)
(***************************************************************************)
EXTENDS TraceLib, WireAuth

CONSTANTS Mode, KnownIds

VARIABLE l

Init == l = 1
Next == l <= TraceLen /\ l' = l + 1
Spec == Init /\ [][Next]_l

(* ------------------------- the property (monitor) ------------------------ *)
AuthMonitor(e) ==
    e.res = "ok" =>
        /\ e.len = 137
        /\ e.sig_valid                                  \* signed by the key it names, over the signed part
        /\ e.rcpt_match                                 \* addressed to the receiving node
        /\ (e.timeout > 0 => Abs(e.skew) <= e.timeout)  \* within the allowed clock skew
        /\ ~e.from_self                                 \* not from the receiver itself
        /\ e.tok_id_ok                                  \* identity derived from that key
        \* the role in the token is the role the sender signed (the builder writes 1 or 0)
        /\ (e.msg_flag = 1 => e.tok_relayer)
        /\ (e.msg_flag = 0 => ~e.tok_relayer)

(* --------------------------- full conformance ---------------------------- *)
AuthFull(e) ==
    e.src = "case" =>
        LET m == e.case.m  to == e.case.timeout IN
        /\ e.timeout = to
        /\ e.len = m.len
        /\ (m.len = 137 => e.skew = m.skew)
        /\ (AuthOK(m, to) <=> e.res = "ok")
        /\ e.res # "panic"
        /\ (e.res = "ok" => e.tok_ts_ok /\ e.tok_data_ok /\ (e.tok_relayer <=> m.flag = 1))
        /\ (m.len = 137 => /\ e.sig_valid = SigValid(m)
                           /\ e.rcpt_match = (m.rcpt = "R")
                           /\ e.from_self = FromSelf(m)
                           /\ e.msg_flag = m.flag)

EventOK(e) ==
    CASE e.ev = "Auth" -> AuthMonitor(e) /\ (Mode = "full" => AuthFull(e))
      [] OTHER -> FALSE

Inv == l > 1 => EventOK(Trace[l - 1])

ASSUME TLCSet(2, 0) /\ TLCSet(3, 0)
InvReport ==
    (l > 1 /\ ~EventOK(Trace[l - 1])) =>
        /\ PrintT(<<"BAD-EVENT", l - 1>>)
        /\ TLCSet(3, IF TLCGet(2) = 0 THEN l - 1 ELSE TLCGet(3))
        /\ TLCSet(2, TLCGet(2) + 1)

HW == HighWaterOf(l)
Accepted == TraceAcceptedAt
AcceptedNoBad ==
    /\ TraceAcceptedAt
    /\ \/ TLCGet(2) = 0
       \/ PrintT(<<"TRACE-REJECTED-AT-LINE", TLCGet(3), "OF", TraceLen>>) /\ FALSE
=============================================================================
