---- MODULE MC_WireTx_TTrace_1790035320 ----
EXTENDS Sequences, TLCExt, MC_WireTx, Toolbox, Naturals, TLC

_expression ==
    LET MC_WireTx_TEExpression == INSTANCE MC_WireTx_TEExpression
    IN MC_WireTx_TEExpression!expression
----

_trace ==
    LET MC_WireTx_TETrace == INSTANCE MC_WireTx_TETrace
    IN MC_WireTx_TETrace!trace
----

_inv ==
    ~(
        TLCGet("level") = Len(_TETrace)
        /\
        c = ([kind |-> "pair", f |-> "inindex", shape |-> [ver |-> 2004287493, asset |-> 1, ins |-> <<[hash |-> 1021, index |-> 1024, gen |-> [v |-> 0, n |-> 0], dep |-> [has |-> FALSE, chain |-> 0, ak |-> [v |-> 0, n |-> 0], th |-> [v |-> 0, n |-> 0], idx |-> 0, amt |-> 0], mint |-> [has |-> FALSE, amt |-> 0, group |-> [v |-> 0, n |-> 0], batch |-> 0]]>>, outs |-> <<[amt |-> 5, type |-> 0, keys |-> <<1061>>, mask |-> 1062, script |-> [v |-> 1063, n |-> 3], w |-> [has |-> FALSE, addr |-> [v |-> 0, n |-> 0], tag |-> [v |-> 0, n |-> 0]]]>>, refs |-> <<>>, extra |-> [v |-> 0, n |-> 0], sigs |-> [kind |-> "maps", maps |-> <<>>, asig |-> 0, signers |-> <<>>]], mut |-> [i |-> 0, k |-> 0, j |-> 0, op |-> "None", val |-> 0, new |-> <<>>], mut2 |-> [i |-> 0, k |-> 0, j |-> 0, op |-> "None", val |-> 0, new |-> <<>>], shape2 |-> [ver |-> 2004287493, asset |-> 1, ins |-> <<[hash |-> 1021, index |-> 1025, gen |-> [v |-> 0, n |-> 0], dep |-> [has |-> FALSE, chain |-> 0, ak |-> [v |-> 0, n |-> 0], th |-> [v |-> 0, n |-> 0], idx |-> 0, amt |-> 0], mint |-> [has |-> FALSE, amt |-> 0, group |-> [v |-> 0, n |-> 0], batch |-> 0]]>>, outs |-> <<[amt |-> 5, type |-> 0, keys |-> <<1061>>, mask |-> 1062, script |-> [v |-> 1063, n |-> 3], w |-> [has |-> FALSE, addr |-> [v |-> 0, n |-> 0], tag |-> [v |-> 0, n |-> 0]]]>>, refs |-> <<>>, extra |-> [v |-> 0, n |-> 0], sigs |-> [kind |-> "maps", maps |-> <<>>, asig |-> 0, signers |-> <<>>]]])
    )
----

_init ==
    /\ c = _TETrace[1].c
----

_next ==
    /\ \E i,j \in DOMAIN _TETrace:
        /\ \/ /\ j = i + 1
              /\ i = TLCGet("level")
        /\ c  = _TETrace[i].c
        /\ c' = _TETrace[j].c

\* Uncomment the ASSUME below to write the states of the error trace
\* to the given file in Json format. Note that you can pass any tuple
\* to `JsonSerialize`. For example, a sub-sequence of _TETrace.
    \* ASSUME
    \*     LET J == INSTANCE Json
    \*         IN J!JsonSerialize("MC_WireTx_TTrace_1790035320.json", _TETrace)

=============================================================================

 Note that you can extract this module `MC_WireTx_TEExpression`
  to a dedicated file to reuse `expression` (the module in the 
  dedicated `MC_WireTx_TEExpression.tla` file takes precedence 
  over the module `MC_WireTx_TEExpression` below).

---- MODULE MC_WireTx_TEExpression ----
EXTENDS Sequences, TLCExt, MC_WireTx, Toolbox, Naturals, TLC

expression == 
    [
        \* To hide variables of the `MC_WireTx` spec from the error trace,
        \* remove the variables below.  The trace will be written in the order
        \* of the fields of this record.
        c |-> c
        
        \* Put additional constant-, state-, and action-level expressions here:
        \* ,_stateNumber |-> _TEPosition
        \* ,_cUnchanged |-> c = c'
        
        \* Format the `c` variable as Json value.
        \* ,_cJson |->
        \*     LET J == INSTANCE Json
        \*     IN J!ToJson(c)
        
        \* Lastly, you may build expressions over arbitrary sets of states by
        \* leveraging the _TETrace operator.  For example, this is how to
        \* count the number of times a spec variable changed up to the current
        \* state in the trace.
        \* ,_cModCount |->
        \*     LET F[s \in DOMAIN _TETrace] ==
        \*         IF s = 1 THEN 0
        \*         ELSE IF _TETrace[s].c # _TETrace[s-1].c
        \*             THEN 1 + F[s-1] ELSE F[s-1]
        \*     IN F[_TEPosition - 1]
    ]

=============================================================================



Parsing and semantic processing can take forever if the trace below is long.
 In this case, it is advised to uncomment the module below to deserialize the
 trace from a generated binary file.

\*
\*---- MODULE MC_WireTx_TETrace ----
\*EXTENDS IOUtils, MC_WireTx, TLC
\*
\*trace == IODeserialize("MC_WireTx_TTrace_1790035320.bin", TRUE)
\*
\*=============================================================================
\*

---- MODULE MC_WireTx_TETrace ----
EXTENDS MC_WireTx, TLC

trace == 
    <<
    ([c |-> [kind |-> "shape", f |-> "-", shape |-> [ver |-> 2004287493, asset |-> 1, ins |-> <<[hash |-> 1021, index |-> 1024, gen |-> [v |-> 0, n |-> 0], dep |-> [has |-> FALSE, chain |-> 0, ak |-> [v |-> 0, n |-> 0], th |-> [v |-> 0, n |-> 0], idx |-> 0, amt |-> 0], mint |-> [has |-> FALSE, amt |-> 0, group |-> [v |-> 0, n |-> 0], batch |-> 0]]>>, outs |-> <<[amt |-> 5, type |-> 0, keys |-> <<1061>>, mask |-> 1062, script |-> [v |-> 1063, n |-> 3], w |-> [has |-> FALSE, addr |-> [v |-> 0, n |-> 0], tag |-> [v |-> 0, n |-> 0]]]>>, refs |-> <<>>, extra |-> [v |-> 0, n |-> 0], sigs |-> [kind |-> "maps", maps |-> <<>>, asig |-> 0, signers |-> <<>>]], mut |-> [i |-> 0, k |-> 0, j |-> 0, op |-> "None", val |-> 0, new |-> <<>>], mut2 |-> [i |-> 0, k |-> 0, j |-> 0, op |-> "None", val |-> 0, new |-> <<>>], shape2 |-> 0]]),
    ([c |-> [kind |-> "pair", f |-> "inindex", shape |-> [ver |-> 2004287493, asset |-> 1, ins |-> <<[hash |-> 1021, index |-> 1024, gen |-> [v |-> 0, n |-> 0], dep |-> [has |-> FALSE, chain |-> 0, ak |-> [v |-> 0, n |-> 0], th |-> [v |-> 0, n |-> 0], idx |-> 0, amt |-> 0], mint |-> [has |-> FALSE, amt |-> 0, group |-> [v |-> 0, n |-> 0], batch |-> 0]]>>, outs |-> <<[amt |-> 5, type |-> 0, keys |-> <<1061>>, mask |-> 1062, script |-> [v |-> 1063, n |-> 3], w |-> [has |-> FALSE, addr |-> [v |-> 0, n |-> 0], tag |-> [v |-> 0, n |-> 0]]]>>, refs |-> <<>>, extra |-> [v |-> 0, n |-> 0], sigs |-> [kind |-> "maps", maps |-> <<>>, asig |-> 0, signers |-> <<>>]], mut |-> [i |-> 0, k |-> 0, j |-> 0, op |-> "None", val |-> 0, new |-> <<>>], mut2 |-> [i |-> 0, k |-> 0, j |-> 0, op |-> "None", val |-> 0, new |-> <<>>], shape2 |-> [ver |-> 2004287493, asset |-> 1, ins |-> <<[hash |-> 1021, index |-> 1025, gen |-> [v |-> 0, n |-> 0], dep |-> [has |-> FALSE, chain |-> 0, ak |-> [v |-> 0, n |-> 0], th |-> [v |-> 0, n |-> 0], idx |-> 0, amt |-> 0], mint |-> [has |-> FALSE, amt |-> 0, group |-> [v |-> 0, n |-> 0], batch |-> 0]]>>, outs |-> <<[amt |-> 5, type |-> 0, keys |-> <<1061>>, mask |-> 1062, script |-> [v |-> 1063, n |-> 3], w |-> [has |-> FALSE, addr |-> [v |-> 0, n |-> 0], tag |-> [v |-> 0, n |-> 0]]]>>, refs |-> <<>>, extra |-> [v |-> 0, n |-> 0], sigs |-> [kind |-> "maps", maps |-> <<>>, asig |-> 0, signers |-> <<>>]]]])
    >>
----


=============================================================================

---- CONFIG MC_WireTx_TTrace_1790035320 ----
CONSTANTS
    Full = FALSE
    Around = FALSE

INVARIANT
    _inv

CHECK_DEADLOCK
    \* CHECK_DEADLOCK off because of PROPERTY or INVARIANT above.
    FALSE

INIT
    _init

NEXT
    _next

CONSTANT
    _TETrace <- _trace

ALIAS
    _expression
=============================================================================
\* Generated on Tue Sep 22 00:02:38 UTC 2026