SPECIFICATION Spec
CONSTANTS
  Mode = "full"
  KnownIds = {}
CONSTRAINT HW
INVARIANT Inv
POSTCONDITION Accepted
CHECK_DEADLOCK FALSE
