SPECIFICATION Spec
CONSTANTS
  T = 10
  Skews <- SkewsWit
  Timeouts = {0, 10}
INVARIANT NoStaleReject
CHECK_DEADLOCK FALSE
