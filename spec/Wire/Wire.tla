-------------------------------- MODULE Wire --------------------------------
(***************************************************************************)
(* Wire formats of Mixin Kernel as token grammars (properties C06 C07 C08  *)
(* C30).                                                                   *)
(*                                                                         *)
(* A wire object is a sequence of TOKENS.  A token stands for  len  bytes  *)
(* of the real byte string:                                                *)
(*     [f |-> field name, len |-> byte length, v |-> abstract value,       *)
(*      k |-> "ok" | "part" | "unk", nm |-> BOOLEAN]                       *)
(*   k = "ok"    the bytes are the big-endian / verbatim encoding of the   *)
(*               abstract value v (an integer: a number for counts,        *)
(*               lengths, masks, versions; an identity for opaque values;  *)
(*               for hashes the identity is the byte-order rank)           *)
(*   k = "part"  the token was cut short by a truncation                   *)
(*   k = "unk"   the content is not predictable (bit flip)                 *)
(*   nm          the value is encoded non-minimally (leading zero byte)    *)
(*                                                                         *)
(* The real decoders read bytes, not tokens.  The abstract decoders of the *)
(* format modules (WireSnapshot, WireTx, ...) therefore work on a BYTE     *)
(* CURSOR over the token sequence: Rd(t, offs, i, n) reads n bytes at      *)
(* token i and yields "short" when fewer than n bytes remain (every real   *)
(* read then fails), the abstract value when token i is whole, known and   *)
(* n bytes long, "unk" when its content is unpredictable and "mis" when    *)
(* the read is not aligned with the token.  A decoder whose control flow   *)
(* would depend on an "unk"/"mis" read answers "any": the grammar does not *)
(* predict the real outcome and only the property's implications are       *)
(* enforced on it.                                                         *)
(*                                                                         *)
(* The mutation operators below are the structured byte-string mutations   *)
(* of DESIGN.md 3.3.  The Go harnesses implement each of them on the real  *)
(* bytes of the real encoders' output (tokens located by the lengths this  *)
(* specification computes).                                                *)
(***************************************************************************)
EXTENDS Naturals, Integers, Sequences, FiniteSets, TLC

Tok(f, n, v) == [f |-> f, len |-> n, v |-> v, k |-> "ok", nm |-> FALSE]

\* start offset of every token as an explicit sequence of length Len(t)+1
\* (the last entry is the total length).  Parallel prefix sum: logarithmic recursion
\* depth (TLC computes initial states on the JVM main thread, whose stack is small) and
\* n log n work; SubSeq forces each round into an explicit tuple.
RECURSIVE Scan(_, _)
Scan(p, d) ==
    IF d >= Len(p) THEN p
    ELSE Scan(SubSeq([i \in 1..Len(p) |-> p[i] + (IF i > d THEN p[i - d] ELSE 0)], 1, Len(p)), 2 * d)
Offsets(t) ==
    IF t = <<>> THEN <<0>>
    ELSE <<0>> \o Scan(SubSeq([i \in 1..Len(t) |-> t[i].len], 1, Len(t)), 1)

TotalLen(t) == Offsets(t)[Len(t) + 1]

Lens(t) == [i \in 1..Len(t) |-> t[i].len]

\* what a byte-level comparison sees: lengths, values, kinds (not field names)
Strip(t) == [i \in 1..Len(t) |-> <<t[i].len, t[i].v, t[i].k, t[i].nm>>]

AllKnown(t) == \A i \in 1..Len(t) : t[i].k = "ok"

(* ------------------------------ byte cursor ----------------------------- *)
\* The cursor is a token index i (the decoder has consumed tokens 1..i-1 whole).
\* Rem = bytes left from the cursor.
Rem(t, offs, i) == offs[Len(t) + 1] - offs[IF i > Len(t) THEN Len(t) + 1 ELSE i]

RdShort == [st |-> "short", v |-> 0 - 1, nm |-> FALSE]
RdUnk   == [st |-> "unk",   v |-> 0 - 1, nm |-> FALSE]     \* content not predictable, cursor still aligned
RdMis   == [st |-> "mis",   v |-> 0 - 1, nm |-> FALSE]     \* read not aligned with a token: cursor lost

\* read n > 0 bytes at token i; on "ok"/"unk" the next cursor is i + 1
Rd(t, offs, i, n) ==
    IF Rem(t, offs, i) < n THEN RdShort
    ELSE IF t[i].len # n THEN RdMis
    ELSE IF t[i].k # "ok" THEN RdUnk
    ELSE [st |-> "ok", v |-> t[i].v, nm |-> t[i].nm]

(* ------------------------------ mutations ------------------------------- *)
\* A mutation is a record [op, i, j, k, val, new] (unused components are 0 / <<>>).
M(op, i, j, k, val, new) == [op |-> op, i |-> i, j |-> j, k |-> k, val |-> val, new |-> new]
NoMut == M("None", 0, 0, 0, 0, <<>>)
MTrunc(k)        == M("Trunc",  0, 0, k, 0, <<>>)       \* drop the last k bytes
MExt(k, fill)    == M("Ext",    0, 0, k, fill, <<>>)    \* append k bytes of value fill
MSwap(i, j)      == M("Swap",   i, j, 0, 0, <<>>)       \* exchange tokens i and j
MCopy(i, j)      == M("Copy",   i, j, 0, 0, <<>>)       \* t[j] := t[i]
MSet(i, val)     == M("Set",    i, 0, 0, val, <<>>)     \* numeric field := val (big endian, same width)
MFlip(i)         == M("Flip",   i, 0, 0, 0, <<>>)       \* one seeded bit of token i
MNonMin(i, j)    == M("NonMin", i, j, 0, 0, <<>>)       \* length token i + 1, value token j gets a leading zero byte
MDrop(i)         == M("Drop",   i, 0, 0, 0, <<>>)       \* remove token i
MIns(i, j)       == M("Ins",    i, j, 0, 0, <<>>)       \* insert a copy of token i before token j
MInsNew(j, n, v) == M("InsNew", 0, j, n, v, <<>>)       \* insert n bytes 0xff (abstract value v) before token j
MInsVal(j, n, v) == M("InsVal", 0, j, n, v, <<>>)       \* insert the n-byte big-endian number v before token j
MPoint(i, cls)   == M("Point",  i, 0, 0, cls, <<>>)     \* 32-byte token i := an invalid curve point (10 off curve, 11 small order, 12 mixed order)
MRepl(i, j, new) == M("Repl",   i, j, 0, 0, new)        \* replace tokens i..j by numeric tokens new = <<<<len, val>>, ...>>

\* drop the last k bytes: whole tokens disappear, the token the cut lands in becomes partial
\* (offs is passed as an argument: TLC evaluates an operator argument once, whereas a
\* LET definition used under a quantifier is re-evaluated at every use)
TruncO(t, k, offs) ==
    LET L == offs[Len(t) + 1] - k
        nfull == Cardinality({ i \in 1..Len(t) : offs[i + 1] <= L })
        base == SubSeq(t, 1, nfull)
    IN  IF k = 0 THEN t
        ELSE IF L <= 0 THEN <<>>
        ELSE IF offs[nfull + 1] = L THEN base
        ELSE Append(base, [t[nfull + 1] EXCEPT !.len = L - offs[nfull + 1], !.k = "part"])

Truncate(t, k) == TruncO(t, k, Offsets(t))

Extend(t, k, fill) == Append(t, Tok("extra", k, fill))

Mutate(t, m) ==
    CASE m.op = "None"   -> t
      [] m.op = "Trunc"  -> Truncate(t, m.k)
      [] m.op = "Ext"    -> Extend(t, m.k, m.val)
      [] m.op = "Swap"   -> [t EXCEPT ![m.i] = t[m.j], ![m.j] = t[m.i]]
      [] m.op = "Copy"   -> [t EXCEPT ![m.j] = t[m.i]]
      [] m.op = "Set"    -> [t EXCEPT ![m.i].v = m.val]
      [] m.op = "Flip"   -> [t EXCEPT ![m.i].k = "unk"]
      [] m.op = "NonMin" -> [t EXCEPT ![m.i].v = @ + 1, ![m.j].len = @ + 1, ![m.j].nm = TRUE]
      [] m.op = "Drop"   -> SubSeq(t, 1, m.i - 1) \o SubSeq(t, m.i + 1, Len(t))
      [] m.op = "Ins"    -> SubSeq(t, 1, m.j - 1) \o <<t[m.i]>> \o SubSeq(t, m.j, Len(t))
      [] m.op = "InsNew" -> SubSeq(t, 1, m.j - 1) \o <<Tok("new", m.k, m.val)>> \o SubSeq(t, m.j, Len(t))
      [] m.op = "InsVal" -> SubSeq(t, 1, m.j - 1) \o <<Tok("new", m.k, m.val)>> \o SubSeq(t, m.j, Len(t))
      [] m.op = "Point"  -> [t EXCEPT ![m.i].v = 0 - m.val]
      [] m.op = "Repl"   -> SubSeq(t, 1, m.i - 1)
                            \o [x \in 1..Len(m.new) |-> Tok("new", m.new[x][1], m.new[x][2])]
                            \o SubSeq(t, m.j + 1, Len(t))

\* a case applies at most two mutations, one after the other
Mutate2(t, m1, m2) == Mutate(Mutate(t, m1), m2)

\* indices of the tokens of field f
Idx(t, f) == { i \in 1..Len(t) : t[i].f = f }
First(t, f) == CHOOSE i \in Idx(t, f) : \A j \in Idx(t, f) : i <= j
=============================================================================
