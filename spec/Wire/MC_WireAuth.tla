------------------------------ MODULE MC_WireAuth ------------------------------
(* Decision table of peer authentication (engine E3) and case emitter (E1).     *)
EXTENDS WireAuth, Json

CONSTANTS T,            \* handshake timeout in seconds (code: 10)
          Skews,        \* clock differences explored
          Timeouts      \* timeout arguments explored (0 = no freshness check)

VARIABLE c

\* (negative numbers cannot be written in a cfg file)
SkewsQuick == {0 - 100000, 0 - 11, 0 - 10, 0 - 9, 0, 9, 10, 11, 100000}
SkewsThorough == {0 - 100000, 0 - 12, 0 - 11, 0 - 10, 0 - 9, 0 - 2, 0 - 1, 0, 1, 2, 9, 10, 11, 12, 100000}
SkewsWit == {0 - 11, 0 - 10, 0, 10, 11}

Keys == {"K1", "K2", "KR", "KBAD"}

\* properly signed messages (as the real builder writes them, or hand-built with another flag)
Signed(k, rcpt, flag, skew) ==
    LET f == [skew |-> skew, rcpt |-> rcpt, key |-> k, flag |-> flag] IN
    [len |-> 137, skew |-> skew, rcpt |-> rcpt, key |-> k, flag |-> flag, sig |-> [by |-> k, over |-> Fields(f)]]

\* deviations: [dev, m] with m the message on the wire
Deviations(skew) ==
    LET base == Signed("K1", "R", 1, skew) IN
       { [dev |-> "builder", m |-> Signed("K1", "R", fl, skew)] : fl \in {0, 1} }           \* real BuildAuthenticationMessage
    \cup { [dev |-> "flag", m |-> Signed("K1", "R", fl, skew)] : fl \in {0, 1, 2, 255} }     \* hand-built, properly signed
    \cup { [dev |-> "otherrcpt", m |-> Signed("K1", "X", 1, skew)] }
    \cup { [dev |-> "self", m |-> Signed("KR", "R", 1, skew)] }
    \cup { [dev |-> "badpoint", m |-> Signed("KBAD", "R", 1, skew)] }
    \cup { [dev |-> "wrongkey", m |-> [base EXCEPT !.sig.by = "K2"]] }
    \cup { [dev |-> "garbage", m |-> [base EXCEPT !.sig.by = "nobody"]] }
    \cup { [dev |-> "flipsig", m |-> [base EXCEPT !.sig.by = "flipped"]] }
    \cup { [dev |-> "tamper_ts", m |-> [base EXCEPT !.sig.over = <<skew + 1, "R", "K1", 1>>]] }
    \cup { [dev |-> "tamper_rcpt", m |-> [base EXCEPT !.sig.over = <<skew, "X", "K1", 1>>]] }
    \cup { [dev |-> "tamper_key", m |-> [base EXCEPT !.key = "K2"]] }
    \cup { [dev |-> "tamper_flag", m |-> [base EXCEPT !.flag = fl]] : fl \in {0, 2} }
    \cup { [dev |-> "tamper_flag", m |-> [Signed("K1", "R", 0, skew) EXCEPT !.flag = 1]] }
    \cup { [dev |-> "len", m |-> [base EXCEPT !.len = n]] : n \in {0, 73, 136, 138} }

Cases == { [dev |-> d.dev, m |-> d.m, timeout |-> to] : d \in UNION { Deviations(s) : s \in Skews }, to \in Timeouts }

Init == c \in Cases
Next == UNCHANGED c
Spec == Init /\ [][Next]_c

InvBinding == Binding(c.m, c.timeout)
InvTamper ==
    \A f \in {"skew", "rcpt", "key", "flag"} :
        \A v \in (CASE f = "skew" -> Skews [] f = "rcpt" -> {"R", "X"} [] f = "key" -> Keys [] f = "flag" -> {0, 1, 2}) :
            TamperRejected(c.m, f, v, c.timeout)
InvBuilt == c.dev = "builder" => BuiltAccepted(c.m.key, c.m.flag = 1, c.m.skew, c.timeout)
InvToken == AuthOK(c.m, c.timeout) => Token(c.m).id = c.m.key /\ (Token(c.m).relayer <=> c.m.flag = 1)

\* non-vacuity witnesses
NoAccept == ~AuthOK(c.m, c.timeout)
NoBoundaryAccept == ~(AuthOK(c.m, c.timeout) /\ c.timeout > 0 /\ Abs(c.m.skew) = c.timeout)
NoStaleReject == ~(c.dev = "builder" /\ c.timeout > 0 /\ Abs(c.m.skew) = c.timeout + 1 /\ ~AuthOK(c.m, c.timeout))

EmitCase == PrintT("CASE " \o ToJson([dev |-> c.dev, m |-> c.m, timeout |-> c.timeout,
                                     exp |-> AuthOK(c.m, c.timeout)]))
=============================================================================
