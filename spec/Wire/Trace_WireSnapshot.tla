-------------------------- MODULE Trace_WireSnapshot --------------------------
(***************************************************************************)
(* Trace specification for the snapshot codec (engine E2, property C07).   *)
(* Stateless: every recorded event is judged on its own.                   *)
(*                                                                         *)
(* Event lines (NDJSON) written by harness/inpkg/common/zz_verif_wire_test *)
(*  {"ev":"Dec","src":"case"|"blind","idx":n,"case":{"shape":..,"mut":..,"mut2":..}, *)
(*   "layout_ok":b,"base_len":n,"in_len":n,                                *)
(*   "res":"ok"|"err"|"panic",          UnmarshalVersionedSnapshot(input)  *)
(*   "enc":"ok"|"panic"|"-",            VersionedMarshal(decoded)          *)
(*   "enc_len":n,"eq_full":b,"eq_short":b,"pre_eq":b,                      *)
(*   "ntx":n,"ranks":[..],"round0":b,"refs":b,"sig":b,"topo0":b,           *)
(*   "rt_eq":b}                          decoded = the structure encoded   *)
(*  {"ev":"Pair","idx":n,"shape":..,"f":field,"mode":"fresh"|"stale"|       *)
(*   "inplace" (stale/inplace: the Hash field of the struct was set to its *)
(*   PayloadHash before field f was changed on a copy / in place; f =      *)
(*   "hashfield": only the Hash field differs),"res":"ok"|"panic",         *)
(*   "hash_eq":b,"payload_eq":b}   PayloadHash of a snapshot and of the    *)
(*                                  same snapshot with field f changed     *)
(*                                                                         *)
(* Mode "full":    the real decoder must answer exactly what SnapParse     *)
(*                 predicts for the case (where the grammar predicts), the *)
(*                 real layout must be the token layout, and the monitor.  *)
(* Mode "monitor": only the implications C07 states.                       *)
(***************************************************************************)
EXTENDS TraceLib, WireSnapshot

CONSTANTS Mode, KnownIds

VARIABLE l

Init == l = 1
Next == l <= TraceLen /\ l' = l + 1
Spec == Init /\ [][Next]_l

(* ------------------------- the property (monitor) ------------------------ *)
StrictlyIncreasing(r) == \A j \in 1..(Len(r) - 1) : r[j] < r[j + 1]

\* an accepted string is the encoding of the decoded snapshot, full suffix or none
CanonicalOK(e) ==
    /\ e.enc = "ok"
    /\ \/ e.eq_full /\ e.in_len = e.enc_len
       \/ e.eq_short /\ e.in_len = e.enc_len - 8

StructureOK(e) ==
    /\ e.ntx \in 1..255
    /\ Len(e.ranks) = e.ntx
    /\ StrictlyIncreasing(e.ranks)
    /\ (e.round0 => e.ntx = 1 /\ ~e.refs)
    /\ (~e.round0 => e.refs)

DecMonitor(e) ==
    /\ e.res # "panic"
    /\ (e.res = "ok" => CanonicalOK(e) /\ StructureOK(e))

PairMonitor(e) ==
    /\ e.res = "ok"
    /\ (e.f \notin AuthFields \cup {"hashfield"} => e.f \in PayloadFields /\ ~e.hash_eq /\ ~e.payload_eq)
    \* never with the signature, the local topology or the remembered Hash field of the struct
    /\ (e.f \in AuthFields \cup {"hashfield"} => e.hash_eq /\ e.payload_eq)

(* --------------------------- full conformance ---------------------------- *)
DecFullP(e, t, bt, p) ==
    /\ e.layout_ok
    /\ e.base_len = TotalLen(bt)
    /\ e.in_len = TotalLen(t)
    /\ (p.verdict = "accept" => e.res = "ok")
    /\ (p.verdict = "reject" => e.res = "err")
    /\ (p.verdict = "accept" /\ e.res = "ok" =>
            /\ e.ntx = Len(p.d.hashes)
            /\ (p.d.round >= 0 => e.round0 = (p.d.round = 0))
            /\ e.refs = p.d.refs
            /\ e.sig = (p.d.mask # 0)
            /\ (p.d.topo = NoTopo => e.eq_short /\ e.topo0)
            /\ (p.d.topo # NoTopo => e.eq_full)
            /\ (p.d.topo >= 0 => e.topo0 = (p.d.topo = 0))
            /\ (e.case.mut.op = "None" /\ e.case.mut2.op = "None" => e.rt_eq))

DecFull(e) ==
    e.src = "case" =>
        LET bt == ShapeTokens(e.case.shape)
            t == Mutate2(bt, e.case.mut, e.case.mut2)
        IN  DecFullP(e, t, bt, SnapParse(t))

EventOK(e) ==
    CASE e.ev = "Dec"  -> DecMonitor(e) /\ (Mode = "full" => DecFull(e))
      [] e.ev = "Pair" -> PairMonitor(e)
      [] OTHER -> FALSE

Inv == l > 1 => EventOK(Trace[l - 1])

\* monitor pass: every violating event is reported (register 2 counts them, register 3 keeps
\* the first one); the post-condition rejects the trace when there is any
ASSUME TLCSet(2, 0) /\ TLCSet(3, 0)
InvReport ==
    (l > 1 /\ ~EventOK(Trace[l - 1])) =>
        /\ PrintT(<<"BAD-EVENT", l - 1>>)
        /\ TLCSet(3, IF TLCGet(2) = 0 THEN l - 1 ELSE TLCGet(3))
        /\ TLCSet(2, TLCGet(2) + 1)

HW == HighWaterOf(l)
Accepted == TraceAcceptedAt
AcceptedNoBad ==
    /\ TraceAcceptedAt
    /\ \/ TLCGet(2) = 0
       \/ PrintT(<<"TRACE-REJECTED-AT-LINE", TLCGet(3), "OF", TraceLen>>) /\ FALSE
=============================================================================
