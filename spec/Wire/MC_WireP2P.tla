------------------------------ MODULE MC_WireP2P ------------------------------
(* Decision table of the peer message grammar (engine E3) and case emitter     *)
(* (E1): one initial state per builder input class, its successors are the     *)
(* structured mutations of the built message.                                  *)
EXTENDS WireP2P, Json

CONSTANTS Big          \* TRUE: also the maximal lists (255 transactions, 1024 commitments)

VARIABLE c

SnapShapes == { [round |-> r, refs |-> r # 0, cnt |-> IF r = 0 THEN 1 ELSE k, sig |-> sg, topo |-> 1, ts |-> 1] :
                  r \in {0, 1}, k \in {1, 2}, sg \in BOOLEAN }
NoSnapShape == [round |-> 0, refs |-> FALSE, cnt |-> 1, sig |-> FALSE, topo |-> 1, ts |-> 1]

Sh(typ, n, m, snap) == [typ |-> typ, n |-> n, m |-> m, snap |-> snap]

TxCounts == {0, 1, 2}
\* the longest lists the builders emit (a full snapshot holds 255 transactions) and one less
FullCounts == {254, 255}
FullSnap == [round |-> 1, refs |-> TRUE, cnt |-> 2, sig |-> TRUE, topo |-> 1, ts |-> 1]

Shapes ==
       { Sh(ty, 0, 0, NoSnapShape) : ty \in {"ping", "unknown", "auth", "confirm", "txreq", "response"} }
  \cup { Sh("graph", n, 0, NoSnapShape) : n \in {0, 1, 3} }
  \cup { Sh("tx", 0, m, NoSnapShape) : m \in {0, 1} }
  \cup { Sh(ty, n, m, NoSnapShape) : ty \in {"bundle", "fbundle", "txchallenge"}, n \in TxCounts, m \in {0, 1} }
  \cup { Sh("commitments", n, 0, NoSnapShape) : n \in {0, 1, 2, 3} \cup (IF Big THEN {1024} ELSE {}) }
  \cup { Sh("announce", 0, 0, s) : s \in SnapShapes }
  \cup { Sh("final", 0, 0, s) : s \in SnapShapes }
  \* m = 1: the commitment point's encoding ends in a zero byte (a message cut one byte short
  \* still shows a valid point to a parser that copies into a zeroed field)
  \cup { Sh("commitment", n, m, NoSnapShape) : n \in {0, 1, 3}, m \in {0, 1} }
  \cup { Sh("fullchallenge", n, m, s) : n \in {0, 1, 2}, m \in {0, 1}, s \in SnapShapes }
  \* every message kind that carries a transaction list, at the list limit (quick tier: the
  \* small transaction class only)
  \cup { Sh(ty, n, m, NoSnapShape) : ty \in {"bundle", "fbundle", "txchallenge"}, n \in FullCounts,
                                     m \in (IF Big THEN {0, 1} ELSE {0}) }
  \cup { Sh("fullchallenge", n, m, FullSnap) : n \in FullCounts, m \in (IF Big THEN {0, 1} ELSE {0}) }
  \cup { Sh("relay", n, 0, NoSnapShape) : n \in {0, 33, 100} }
  \cup { Sh("consumers", n, 0, NoSnapShape) : n \in {0, 1, 2} }

MutsO(t, offs) ==
    LET n == Len(t)
        total == offs[n + 1]
        small == n <= 24
        huge == n > 200           \* lists at their limit: a few representative mutations only
        F(f) == Idx(t, f)
        cuts == ((IF small THEN { total - (offs[i] + e) : i \in 1..(n + 1), e \in {0 - 1, 0, 1} }
                  ELSE { total - (offs[i] + e) : i \in {1, 2, 3, n - 1, n, n + 1} \cap (1..(n + 1)), e \in {0 - 1, 0, 1} })
                 \cup (1..9)) \cap (IF huge THEN {1, 2, 8} ELSE 1..total)
    IN  {NoMut}
        \cup { MTrunc(k) : k \in cuts }
        \cup { MExt(k, 0) : k \in (IF huge THEN {1} ELSE {1, 8, 32}) }
        \cup { MPoint(i, cls) : i \in F("point") \cap (1..40), cls \in {10, 11, 12} }
        \cup (IF n >= 1000 THEN { MPoint(n, 10), MPoint(n, 12) } ELSE {})
        \cup { MSet(i, t[i].v + 1) : i \in F("gcnt") \cup F("ccnt") \cup F("cnt") \cup F("size") \cup (F("txlen") \cap (1..12)) }
        \cup { MSet(i, t[i].v - 1) : i \in { j \in F("gcnt") \cup F("ccnt") \cup F("cnt") \cup F("size") \cup (F("txlen") \cap (1..12)) : t[j].v > 0 } }
        \cup { MSet(i, t[i].v - 8) : i \in F("size") }
        \cup { MSet(i, 1025) : i \in F("ccnt") }
        \cup { MSet(i, 255) : i \in F("cnt") }
        \cup { MSet(i, GMagic + 1) : i \in F("gmagic") }
        \cup { MSet(1, v) : v \in {1, 23, 99, 201} \ {t[1].v} }
        \cup { MFlip(i) : i \in (IF small THEN 1..n ELSE IF huge THEN {} ELSE {1, 2, 3, n}) }

Muts(s) == MutsO(MsgTokens(s), Offsets(MsgTokens(s)))

CaseTokens(x) == Mutate(MsgTokens(x.shape), x.mut)
Expected(x) == MsgVerdict(CaseTokens(x), x.shape)

Init == c \in { [kind |-> "shape", shape |-> s, mut |-> NoMut] : s \in Shapes }
Next == c.kind = "shape" /\ c' \in { [kind |-> "msg", shape |-> c.shape, mut |-> m] : m \in Muts(c.shape) }
Spec == Init /\ [][Next]_c

InvBuilt == c.kind = "shape" => BuiltParses(c.shape)
InvPoint == c.kind = "msg" => PointSafe(CaseTokens(c), c.shape)
\* non-vacuity witnesses (each must be violated = reachable)
NoPointReject == ~(c.kind = "msg" /\ c.mut.op = "Point" /\ Expected(c) = "reject")
NoMutatedAccept == ~(c.kind = "msg" /\ c.mut.op \notin {"None", "Flip"} /\ Expected(c) = "accept")
\* the smallest built messages are in the table
NoSmallest == ~(c.kind = "shape" /\ Buildable(c.shape) /\ c.shape.typ \in {"commitments", "fullchallenge"} /\ c.shape.n = 0
                 /\ c.shape.snap.round = 0)

EmitCase ==
    IF c.kind = "shape"
    THEN PrintT("CASE " \o ToJson([kind |-> "shape", shape |-> c.shape, lens |-> Lens(MsgTokens(c.shape)),
                                   buildable |-> Buildable(c.shape)]))
    ELSE PrintT("CASE " \o ToJson([kind |-> "msg", shape |-> c.shape, mut |-> c.mut]))
=============================================================================
