SPECIFICATION Spec
CONSTANTS
  Mode = "monitor"
  KnownIds = {}
CONSTRAINT HW
INVARIANT InvReport
POSTCONDITION AcceptedNoBad
CHECK_DEADLOCK FALSE
