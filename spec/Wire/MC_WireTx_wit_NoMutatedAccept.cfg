SPECIFICATION Spec
CONSTANTS
  Full = FALSE
  Around = FALSE
INVARIANT NoMutatedAccept
CHECK_DEADLOCK FALSE
