---------------------------- MODULE WireSnapshot ----------------------------
(***************************************************************************)
(* Snapshot version 2 wire grammar (property C07).                         *)
(*                                                                         *)
(* Code: common/encoding.go  EncodeSnapshotWithTopo / encodeSnapshotPayload*)
(*       common/decoding.go  DecodeSnapshotWithTopo                        *)
(*       common/snapshot.go  UnmarshalVersionedSnapshot, PayloadHash       *)
(*                                                                         *)
(*   ver(4) node(32) round(8) refcnt(2) [self(32) ext(32)] cnt(2)          *)
(*   hash(32)^cnt ts(8) mask(8) [sig(64)] [topo(8)]                        *)
(*                                                                         *)
(* A snapshot STRUCTURE is the record                                      *)
(*   [ver, node, round, refs, self, ext, hashes, ts, mask, sigv, topo]     *)
(* with integer components (identities; hashes are byte-order ranks;       *)
(* round = 0 means round zero; mask = 0 means "no signature"; topo = -2    *)
(* means "no topology suffix on the wire").                                *)
(***************************************************************************)
EXTENDS Wire

VerOK == 2004287490          \* 0x77 0x77 0x00 0x02

NoTopo == 0 - 2

NoSnap == [ver |-> 0, node |-> 0, round |-> 0, refs |-> FALSE, self |-> 0, ext |-> 0,
           hashes |-> <<>>, ts |-> 0, mask |-> 0, sigv |-> 0, topo |-> NoTopo]

(* ------------------------------- encoder -------------------------------- *)
\* encodeSnapshotPayload(s, withSig): the encoder SORTS the transaction hashes
\* and aborts on duplicates, on round 0 with a count other than one and on
\* counts outside 1..255 (EncOK); it does not relate references to the round.
IsSorted(h) == \A i \in 1..(Len(h) - 1) : h[i] <= h[i + 1]
Sorted(h) == IF IsSorted(h) THEN h ELSE SortSeq(h, LAMBDA a, b : a < b)
NoDup(h) == Cardinality({ h[i] : i \in 1..Len(h) }) = Len(h)

EncOK(d) ==
    /\ Len(d.hashes) \in 1..255
    /\ (d.round = 0 => Len(d.hashes) = 1)
    /\ NoDup(d.hashes)

\* (expensive values are passed as operator arguments: TLC evaluates an argument once but
\* re-evaluates a LET definition at every use under a quantifier or function constructor)
BodyTokensH(d, withSig, hs) ==
       <<Tok("ver", 4, d.ver), Tok("node", 32, d.node), Tok("round", 8, d.round),
         Tok("refcnt", 2, IF d.refs THEN 2 ELSE 0)>>
    \o (IF d.refs THEN <<Tok("self", 32, d.self), Tok("ext", 32, d.ext)>> ELSE <<>>)
    \o <<Tok("cnt", 2, Len(hs))>>
    \o [i \in 1..Len(hs) |-> Tok("hash", 32, hs[i])]
    \o <<Tok("ts", 8, d.ts)>>
    \o (IF withSig /\ d.mask # 0
        THEN <<Tok("mask", 8, d.mask), Tok("sig", 64, d.sigv)>>
        ELSE <<Tok("mask", 8, 0)>>)

BodyTokens(d, withSig) == BodyTokensH(d, withSig, Sorted(d.hashes))

\* SnapshotWithTopologicalOrder.VersionedMarshal: always writes the 8-byte suffix
FullTokens(d) == BodyTokens(d, TRUE) \o <<Tok("topo", 8, IF d.topo = NoTopo THEN 0 ELSE d.topo)>>
\* the same without the suffix
ShortTokens(d) == BodyTokens(d, TRUE)
\* Snapshot.versionedPayload: version, node, round, references, transactions, timestamp; no signature
PayloadTokens(d) == BodyTokens(d, FALSE)

\* what is put on the wire for structure d (d.topo = NoTopo: the suffix is cut off)
WireTokens(d) == IF d.topo = NoTopo THEN ShortTokens(d) ELSE FullTokens(d)

(* ------------------------------- decoder -------------------------------- *)
\* DecodeSnapshotWithTopo as specified: returns [verdict, d]
\*   verdict \in {"accept", "reject", "any"}
Rej == [verdict |-> "reject", d |-> NoSnap]
Unk == [verdict |-> "any", d |-> NoSnap]

SnapParseO(t, offs) ==
    LET R(i, n) == Rd(t, offs, i, n)
        rVer == R(1, 4)
    IN
    IF rVer.st = "short" THEN Rej ELSE IF rVer.st # "ok" THEN Unk ELSE
    IF rVer.v # VerOK THEN Rej ELSE
    LET rNode == R(2, 32) IN
    IF rNode.st = "short" THEN Rej ELSE IF rNode.st = "mis" THEN Unk ELSE
    LET rRound == R(3, 8) IN
    IF rRound.st = "short" THEN Rej ELSE IF rRound.st # "ok" THEN Unk ELSE
    LET rRc == R(4, 2) IN
    IF rRc.st = "short" THEN Rej ELSE IF rRc.st # "ok" THEN Unk ELSE
    IF rRc.v \notin {0, 2} THEN Rej ELSE
    LET hasRefs == rRc.v = 2
        rSelf == IF hasRefs THEN R(5, 32) ELSE [st |-> "ok", v |-> 0, nm |-> FALSE]
        rExt  == IF hasRefs THEN R(6, 32) ELSE [st |-> "ok", v |-> 0, nm |-> FALSE]
        iCnt  == IF hasRefs THEN 7 ELSE 5
    IN
    IF rSelf.st = "short" \/ rExt.st = "short" THEN Rej ELSE
    IF rSelf.st = "mis" \/ rExt.st = "mis" THEN Unk ELSE
    LET rCnt == R(iCnt, 2) IN
    IF rCnt.st = "short" THEN Rej ELSE IF rCnt.st # "ok" THEN Unk ELSE
    IF rCnt.v < 1 \/ rCnt.v > 255 THEN Rej ELSE
    LET n  == rCnt.v
        iH == iCnt + 1
    IN
    IF Rem(t, offs, iH) < 32 * n THEN Rej ELSE
    IF \E j \in 0..(n - 1) : (iH + j > Len(t)) \/ t[iH + j].len # 32 THEN Unk ELSE
    LET hk == \A j \in 0..(n - 1) : t[iH + j].k = "ok"
        hs == [j \in 1..n |-> IF t[iH + j - 1].k = "ok" THEN t[iH + j - 1].v ELSE 0 - 1]
    IN
    IF n > 1 /\ ~hk THEN Unk ELSE
    IF \E j \in 1..(n - 1) : hs[j] >= hs[j + 1] THEN Rej ELSE
    IF rRound.v = 0 /\ (n # 1 \/ hasRefs) THEN Rej ELSE
    IF rRound.v # 0 /\ ~hasRefs THEN Rej ELSE
    LET iTs == iH + n
        rTs == R(iTs, 8)
    IN
    IF rTs.st = "short" THEN Rej ELSE IF rTs.st = "mis" THEN Unk ELSE
    LET rMask == R(iTs + 1, 8) IN
    IF rMask.st = "short" THEN Rej ELSE IF rMask.st # "ok" THEN Unk ELSE
    LET hasSig == rMask.v # 0
        rSig == IF hasSig THEN R(iTs + 2, 64) ELSE [st |-> "ok", v |-> 0, nm |-> FALSE]
        iTail == IF hasSig THEN iTs + 3 ELSE iTs + 2
    IN
    IF rSig.st = "short" THEN Rej ELSE IF rSig.st = "mis" THEN Unk ELSE
    LET r == Rem(t, offs, iTail) IN
    \* the topology suffix is all or nothing
    IF r # 0 /\ r # 8 THEN Rej ELSE
    LET rTopo == IF r = 8 THEN R(iTail, 8) ELSE [st |-> "ok", v |-> NoTopo, nm |-> FALSE] IN
    [verdict |-> "accept",
     d |-> [ver |-> rVer.v, node |-> rNode.v, round |-> rRound.v, refs |-> hasRefs,
            self |-> rSelf.v, ext |-> rExt.v, hashes |-> hs, ts |-> rTs.v,
            mask |-> rMask.v, sigv |-> rSig.v, topo |-> rTopo.v]]

SnapParse(t) == SnapParseO(t, Offsets(t))

Accept(t) == SnapParse(t).verdict = "accept"

(* ------------------------- design-level theorems ------------------------ *)
\* C07 sentence 1: an accepted string is exactly the encoding of the decoded snapshot,
\* with the full suffix or with none.
CanonicalP(t, p) ==
    (p.verdict = "accept" /\ AllKnown(t)) =>
        /\ EncOK(p.d)
        /\ LET st == Strip(t) IN
           \/ st = Strip(FullTokens(p.d))
           \/ st = Strip(ShortTokens(p.d))
Canonical(t) == CanonicalP(t, SnapParse(t))

\* C07 sentence 2
StructuralP(p, h) ==
    (p.verdict = "accept") =>
        /\ Len(h) \in 1..255
        /\ (Len(h) > 1 => \A j \in 1..(Len(h) - 1) : h[j] < h[j + 1])
        /\ (p.d.round = 0 => Len(h) = 1 /\ ~p.d.refs)
        /\ (p.d.round # 0 => p.d.refs)
Structural(t) == LET p == SnapParse(t) IN StructuralP(p, p.d.hashes)

DecTheorems(t) == LET p == SnapParse(t) IN CanonicalP(t, p) /\ StructuralP(p, p.d.hashes)

\* round trip: what the encoder writes for an encodable structure that satisfies the
\* round/reference relation decodes to that structure
RoundTrip(d) ==
    (EncOK(d) /\ (d.round = 0 <=> ~d.refs) /\ d.ver = VerOK) =>
        LET p == SnapParse(WireTokens(d)) IN
        /\ p.verdict = "accept"
        /\ p.d = [d EXCEPT !.hashes = Sorted(d.hashes),
                           !.sigv = IF d.mask = 0 THEN 0 ELSE d.sigv,
                           !.self = IF d.refs THEN d.self ELSE 0,
                           !.ext = IF d.refs THEN d.ext ELSE 0]

\* C07 sentence 3: the hash is (an injective function of) the payload encoding
PayloadFields == {"ver", "node", "round", "refs", "self", "ext", "hash", "addhash", "ts"}
AuthFields == {"mask", "sigv", "topo"}

Perturb(d, f) ==
    CASE f = "ver"     -> [d EXCEPT !.ver = @ + 1]
      [] f = "node"    -> [d EXCEPT !.node = @ + 1]
      [] f = "round"   -> [d EXCEPT !.round = @ + 1]
      [] f = "refs"    -> [d EXCEPT !.refs = ~@]
      [] f = "self"    -> [d EXCEPT !.self = @ + 100]
      [] f = "ext"     -> [d EXCEPT !.ext = @ + 100]
      [] f = "hash"    -> [d EXCEPT !.hashes[1] = @ + 1000]
      [] f = "addhash" -> [d EXCEPT !.hashes = Append(@, 2000)]
      [] f = "ts"      -> [d EXCEPT !.ts = @ + 1]
      [] f = "mask"    -> [d EXCEPT !.mask = @ + 1, !.sigv = 9]
      [] f = "sigv"    -> [d EXCEPT !.sigv = @ + 1]
      [] f = "topo"    -> [d EXCEPT !.topo = IF @ = NoTopo THEN 5 ELSE @ + 1]

\* perturbations that leave the structure meaningful (self/ext only exist with references,
\* a signature body only with a mask, a second hash only after round zero)
PerturbOK(d, f) ==
    /\ (f \in {"self", "ext"} => d.refs)
    /\ (f = "sigv" => d.mask # 0)
    /\ (f = "addhash" => d.round # 0 /\ Len(d.hashes) < 255)
    /\ (f = "round" => d.round # 0)

HashCommits(d, f) ==
    PerturbOK(d, f) =>
        LET e == Perturb(d, f) IN
        /\ (f \in PayloadFields => Strip(PayloadTokens(d)) # Strip(PayloadTokens(e)))
        /\ (f \in AuthFields => Strip(PayloadTokens(d)) = Strip(PayloadTokens(e)))

(* ----------------------- shapes (structure classes) --------------------- *)
\* A SHAPE is what the harness concretizes into a real common.Snapshot:
\*   round \in 0..2 (0, 1, 2^64-1), refs, cnt, sig, topo \in 0..3 (none, 0, 5, 2^64-1), ts \in 0..1
ShapeStruct(s) ==
    [ver |-> VerOK, node |-> 1, round |-> s.round, refs |-> s.refs, self |-> 11, ext |-> 12,
     hashes |-> [i \in 1..s.cnt |-> i], ts |-> 7 * s.ts,
     mask |-> IF s.sig THEN 5 ELSE 0, sigv |-> IF s.sig THEN 9 ELSE 0,
     topo |-> CASE s.topo = 0 -> NoTopo [] s.topo = 1 -> 0 [] s.topo = 2 -> 5 [] OTHER -> 99]

ShapeTokens(s) == WireTokens(ShapeStruct(s))

CaseTokens(c) == Mutate2(ShapeTokens(c.shape), c.mut, c.mut2)

Expected(c) == SnapParse(CaseTokens(c)).verdict

(* mutations enumerated for a shape *)
MutsO(s, t, offs, TruncMax, Boundaries) ==
    LET total == offs[Len(t) + 1]
        hI == Idx(t, "hash")
        h1 == First(t, "hash")
        iRc == First(t, "refcnt")
        iCnt == First(t, "cnt")
        iMask == First(t, "mask")
        bcuts == IF Boundaries
                 THEN { total - (offs[i] + e) : i \in 1..(Len(t) + 1), e \in {0 - 1, 0, 1} }
                 ELSE {}
        cuts == ((1..TruncMax) \cup bcuts) \cap (1..total)
    IN  {NoMut}
        \cup { MTrunc(k) : k \in cuts }
        \cup { MExt(k, f) : k \in 1..9, f \in {0, 255} }
        \cup (IF s.cnt >= 2 THEN {MSwap(h1, h1 + 1), MCopy(h1, h1 + 1),
                                  MSwap(h1 + s.cnt - 2, h1 + s.cnt - 1),
                                  MCopy(h1 + s.cnt - 2, h1 + s.cnt - 1),
                                  MSwap(h1, h1 + s.cnt - 1)} ELSE {})
        \cup (IF s.refs THEN {MSwap(iRc + 1, iRc + 2)} ELSE {})
        \cup { MSet(1, v) : v \in {2004287489, 2004287491, 2004221954, 2004287746} }
        \cup { MSet(3, v) : v \in {0, 1} \ {s.round} }
        \cup { MSet(iRc, v) : v \in {0, 1, 2, 3} \ {IF s.refs THEN 2 ELSE 0} }
        \cup { MSet(iCnt, v) : v \in {0, 256, 65535, s.cnt + 1, s.cnt - 1} \ {s.cnt} }
        \cup { MSet(iMask, v) : v \in {0, 5} \ {IF s.sig THEN 5 ELSE 0} }
        \cup { MFlip(i) : i \in (1..Len(t)) \ (hI \ {h1, h1 + s.cnt - 1}) }
        \cup { MDrop(h1), MIns(h1, h1) }

Muts(s, TruncMax, Boundaries) ==
    MutsO(s, ShapeTokens(s), Offsets(ShapeTokens(s)), TruncMax, Boundaries)

\* consistent encodings of structures the real encoder refuses to write: a count field and
\* exactly that many hashes for counts 0 and 256 (pairs <<first mutation, second mutation>>)
MaxHash == 100000
Muts2(s) ==
    LET t == ShapeTokens(s)
        h1 == First(t, "hash")
        iCnt == First(t, "cnt")
    IN  (IF s.cnt = 1 THEN {<<MDrop(h1), MSet(iCnt, 0)>>} ELSE {})
        \cup (IF s.cnt = 255 THEN {<<MInsNew(h1 + 255, 32, MaxHash), MSet(iCnt, 256)>>} ELSE {})
        \cup (IF s.cnt = 254 THEN {<<MInsNew(h1 + 254, 32, MaxHash), MSet(iCnt, 255)>>} ELSE {})
        \cup (IF s.cnt = 2 THEN {<<MDrop(h1), MSet(iCnt, 1)>>} ELSE {})
=============================================================================
