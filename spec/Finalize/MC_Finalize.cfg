SPECIFICATION Spec
CONSTANTS
  Tx <- TxU
  TxDef <- TxDefU
  Node <- NodeU
  None <- NoneV
  MaxSnaps = 4
  PairSet = {"A1", "A2", "DP", "PL", "AC", "MB"}
  TripleSet = {}
VIEW View
CONSTRAINT Bound
PROPERTY StepProp
CHECK_DEADLOCK FALSE
