--------------------------- MODULE Trace_Finalize ---------------------------
(***************************************************************************)
(* Trace specification for WriteSnapshot histories (C15).                  *)
(*  {"ev":"Reset"}                                                         *)
(*  {"ev":"Write","node":n,"txs":[..],"id":sid,"res":ok|err|panic,         *)
(*   "delta":[[class,id..(,"mod"|"del")]..]}  = difference of the full     *)
(*   key-value dump of the real store before and after the call.           *)
(* Mode "full": result and key delta equal the specification's.            *)
(* Mode "C15":  all-or-nothing, every effect of a successful write present, *)
(*   nothing re-applied for an already finalized transaction, nothing else  *)
(*   touched - judged on the observed deltas only.                          *)
(***************************************************************************)
EXTENDS TraceLib, FinalizeTable, Integers, FiniteSets

CONSTANTS Mode

VARIABLES l, S, npos, finObs, infoObs

F == INSTANCE Finalize WITH Tx <- TxU, TxDef <- TxDefU, Node <- NodeU, None <- "None"

Genesis == << [signer |-> "G1", state |-> "ACCEPTED"] >>
S0 == F!InitState({"A"}, Genesis)

Ev == Trace[l]
IsEvent(n) == l <= TraceLen /\ Ev.ev = n /\ l' = l + 1

\* normalise: positions and work ids are not comparable between model and store
NormModel(x) == CASE x[1] = "TOPOLOGY" -> <<"TOPOLOGY", "new">>
                  [] x[1] = "WORK"     -> <<"WORK", "@">>
                  [] OTHER             -> x
ModelDelta(d) == { NormModel(x) : x \in d }
\* observed entries: sequences of strings; "mod" only legitimate on ASSETTOTAL
ObsEntry(e) == IF e[Len(e)] = "mod" /\ e[1] = "ASSETTOTAL" THEN SubSeq(e, 1, Len(e) - 1) ELSE e
ObsDelta(ev) == { ObsEntry(ev.delta[i]) : i \in 1..Len(ev.delta) }

Init == l = 1 /\ S = S0 /\ npos = 1 /\ finObs = {} /\ infoObs = {"A"}

Reset ==
    /\ IsEvent("Reset")
    /\ S' = S0 /\ npos' = 1 /\ finObs' = {} /\ infoObs' = {"A"}

Batch(ev) == SeqToSet(ev.txs)
StoredIdx(t) == IF TxDefU[t].kind = "submit" THEN 2..TxDefU[t].nouts ELSE 1..TxDefU[t].nouts

C15OK(ev) ==
    LET d == ObsDelta(ev)  b == Batch(ev)  n == ev.node
        newf == b \ finObs
    IN
    IF ev.res # "ok" THEN d = {}
    ELSE
      /\ \A t \in b : <<"UNIQUE", n, t>> \in d
      /\ {<<"SNAPSHOT", ev.id>>, <<"WORK", "@">>, <<"TOPOLOGY", "new">>, <<"SNAPTOPO", ev.id>>} \subseteq d
      /\ \A t \in newf :
            /\ <<"FIN", t>> \in d
            /\ \A i \in StoredIdx(t) : <<"UTXO", t, ToString(i)>> \in d
            /\ (TxDefU[t].kind \in {"deposit", "submit"} => <<"ASSETTOTAL", TxDefU[t].asset>> \in d)
            /\ (TxDefU[t].kind \in {"pledge", "accept"} => <<"NODE", TxDefU[t].signer>> \in d)
            /\ (TxDefU[t].kind = "deposit" /\ TxDefU[t].asset \notin infoObs => <<"ASSETINFO", TxDefU[t].asset>> \in d)
      \* nothing is applied again for an already finalized transaction, nothing outside the batch
      /\ \A x \in d :
            /\ (x[1] \in {"FIN", "UTXO"} => x[2] \in newf)
            /\ (x[1] = "UNIQUE" => x[2] = n /\ x[3] \in b)
            /\ (x[1] = "ASSETTOTAL" => \E t \in newf : TxDefU[t].kind \in {"deposit", "submit"} /\ TxDefU[t].asset = x[2])
            /\ (x[1] = "ASSETINFO" => \E t \in newf : TxDefU[t].kind = "deposit" /\ TxDefU[t].asset = x[2] /\ x[2] \notin infoObs)
            /\ (x[1] = "NODE" => \E t \in newf : TxDefU[t].kind \in {"pledge", "accept"} /\ TxDefU[t].signer = x[2])
            /\ (x[1] = "GHOST" => \E t \in newf : \E i \in DOMAIN TxDefU[t].keys : TxDefU[t].keys[i] = x[2])
            /\ x[1] \in {"FIN", "UTXO", "UNIQUE", "ASSETTOTAL", "ASSETINFO", "NODE", "GHOST", "SNAPSHOT", "WORK", "TOPOLOGY", "SNAPTOPO"}
            /\ x[Len(x)] \notin {"mod", "del"}

Write ==
    /\ IsEvent("Write")
    /\ LET snap == [id |-> Ev.id, node |-> Ev.node, txs |-> SortedSeq(SeqToSet(Ev.txs)), pos |-> npos]
           r == F!WriteSnapshot(S, snap) IN
        /\ IF Mode = "full"
           THEN /\ r.res = Ev.res
                /\ ModelDelta(r.delta) = ObsDelta(Ev)
                /\ S' = r.S
                /\ npos' = IF r.res = "ok" THEN npos + 1 ELSE npos
           ELSE UNCHANGED <<S, npos>>
        /\ C15OK(Ev)
    /\ finObs' = finObs \cup { x[2] : x \in { y \in ObsDelta(Ev) : y[1] = "FIN" } }
    /\ infoObs' = infoObs \cup { x[2] : x \in { y \in ObsDelta(Ev) : y[1] = "ASSETINFO" } }

Next == Reset \/ Write
Spec == Init /\ [][Next]_<<l, S, npos, finObs, infoObs>>
HW == HighWaterOf(l)
Accepted == TraceAcceptedAt
=============================================================================
