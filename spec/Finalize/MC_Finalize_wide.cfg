SPECIFICATION Spec
CONSTANTS
  Tx <- TxU
  TxDef <- TxDefU
  Node <- NodeU
  None <- NoneV
  MaxSnaps = 3
  PairSet = {"A1", "A2", "A3", "DP", "DQ", "WS", "PL", "PM", "AC", "MB"}
  TripleSet = {"A1", "A2", "DP"}
VIEW View
CONSTRAINT Bound
PROPERTY StepProp
CHECK_DEADLOCK FALSE
