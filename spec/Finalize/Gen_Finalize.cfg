SPECIFICATION Spec
CONSTANTS
  Tx <- TxU
  TxDef <- TxDefU
  Node <- NodeU
  None <- NoneV
  MaxSnaps = 6
  PairSet = {"A1", "A2", "A3", "DP", "DQ", "WS", "PL", "PM", "AC", "MB"}
  TripleSet = {"A1", "A2", "DP"}
VIEW View
CONSTRAINT Bound
PROPERTY StepProp
ACTION_CONSTRAINT Emit
CHECK_DEADLOCK FALSE
