SPECIFICATION Spec
CONSTANTS
  Mode = "C15"
CONSTRAINT HW
POSTCONDITION Accepted
CHECK_DEADLOCK FALSE
