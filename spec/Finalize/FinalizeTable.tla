--------------------------- MODULE FinalizeTable ---------------------------
(* Template universe shared by MC_Finalize, Trace_Finalize and the Go harness *)
(* harness/inpkg/storage/zz_verif_finalize_test.go (vfTemplates).             *)
LOCAL INSTANCE Naturals
LOCAL INSTANCE Sequences
LOCAL INSTANCE FiniteSets
T(kind, asset, amt, nouts, keys, signer, nobody) ==
    [kind |-> kind, asset |-> asset, amt |-> amt, nouts |-> nouts, keys |-> keys, signer |-> signer, nobody |-> nobody,
     needs |-> IF kind = "accept" THEN "PL" ELSE "-"]

TxU == {"A1", "A2", "A3", "DP", "DQ", "WS", "PL", "PM", "AC", "MB"}
TxDefU == [t \in TxU |->
   CASE t = "A1" -> T("transfer", "A", 0, 1, <<"k1">>, "-", FALSE)
     [] t = "A2" -> T("transfer", "A", 0, 1, <<"k1">>, "-", FALSE)          \* same one-time key as A1
     [] t = "A3" -> T("transfer", "A", 0, 2, <<"k2", "k3">>, "-", FALSE)
     [] t = "DP" -> T("deposit", "A", 5, 1, <<"k4">>, "-", FALSE)
     [] t = "DQ" -> T("deposit", "B", 7, 1, <<"k5">>, "-", FALSE)           \* first deposit of asset B
     [] t = "WS" -> T("submit", "A", 3, 2, <<"k6">>, "-", FALSE)            \* output 1 leaves, output 2 is change
     [] t = "PL" -> T("pledge", "A", 0, 1, <<>>, "S1", FALSE)
     [] t = "PM" -> T("pledge", "A", 0, 1, <<>>, "S2", FALSE)               \* a second pledge
     [] t = "AC" -> T("accept", "A", 0, 1, <<>>, "S1", FALSE)
     [] t = "MB" -> T("transfer", "A", 0, 1, <<"k7">>, "-", TRUE)]          \* body never stored
NodeU == {"n1", "n2"}
\* the store applies a batch in payload-hash order (the encoder sorts the list in place); the
\* harness grinds the real hashes into this order
OrdU == <<"A1", "A2", "A3", "DP", "DQ", "WS", "PL", "PM", "AC", "MB">>
PosU(t) == CHOOSE i \in 1..Len(OrdU) : OrdU[i] = t
SortedSeq(B) ==
    LET Rank(t) == Cardinality({u \in B : PosU(u) < PosU(t)}) + 1
    IN [i \in 1..Cardinality(B) |-> CHOOSE t \in B : Rank(t) = i]
=============================================================================
