------------------------------ MODULE Finalize ------------------------------
(***************************************************************************)
(* BadgerStore.WriteSnapshot as one atomic step (property C15).            *)
(*                                                                         *)
(* A snapshot names a node, a list of transactions and a topology          *)
(* position. The write first runs the store's assertions (every body       *)
(* present, the (node, transaction) pair and the snapshot not yet written), *)
(* then, in ONE Badger transaction, for each transaction in list order:     *)
(* first finalization only -> finalization record, asset record for a new   *)
(* deposit asset, every stored output with its one-time keys re-locked for  *)
(* this transaction and its type effect (membership record), asset total;   *)
(* always -> the per-node uniqueness record; finally the snapshot record,   *)
(* its work record and the topology entry. Any failing member aborts the    *)
(* whole write.                                                            *)
(*                                                                         *)
(* The specification computes the exact set of key classes the write adds   *)
(* or modifies (Delta) so that the real key-value store can be compared     *)
(* before and after each call.                                             *)
(***************************************************************************)
EXTENDS Integers, Sequences, FiniteSets, TLC

CONSTANTS
    Tx, TxDef,     \* [Tx -> [kind, asset, amt, nouts, keys, signer, nobody, needs]]
    Node,          \* snapshot-producing nodes
    None

(* kinds: "transfer", "deposit" (total + amt, asset record when new), "submit" (total - amt; the
   first output is not stored), "pledge", "accept" (membership effects for TxDef.signer).
   keys  = sequence of one-time keys of the stored outputs (may collide across transactions)
   nobody = TRUE: the body of this transaction is never stored (the write must abort)           *)

InitState(assets, members) ==
    [ fin     |-> [t \in Tx |-> None],          \* first finalizing snapshot
      ghost   |-> [k \in UNION { {TxDef[t].keys[i] : i \in DOMAIN TxDef[t].keys} : t \in Tx } |-> None],
      ainfo   |-> assets,                        \* set of assets with a record
      total   |-> [a \in { TxDef[t].asset : t \in Tx } |-> 0],
      member  |-> members,                       \* sequence of [signer, state]
      unique  |-> {},                            \* set of <<node, tx>>
      snaps   |-> {},                            \* set of snapshot ids
      topo    |-> {} ]                           \* set of positions

KeysOf(t) == { TxDef[t].keys[i] : i \in DOMAIN TxDef[t].keys }

LastMember(S) == S.member[Len(S.member)]
StateOf(S, sg) ==
    LET idx == { i \in 1..Len(S.member) : S.member[i].signer = sg }
    IN IF idx = {} THEN "NONE" ELSE S.member[CHOOSE i \in idx : \A j \in idx : j <= i].state

MemberOK(S, t) ==
    LET d == TxDef[t] IN
    CASE d.kind = "pledge" -> /\ \A i \in 1..Len(S.member) : StateOf(S, S.member[i].signer) \in {"ACCEPTED", "REMOVED", "CANCELLED"}
                              /\ StateOf(S, d.signer) = "NONE"
      [] d.kind = "accept" -> /\ Len(S.member) > 0
                              /\ LastMember(S).state = "PLEDGING" /\ LastMember(S).signer = d.signer
      [] OTHER -> TRUE

(* one member of the batch applied to the running state R = [S, delta] *)
ApplyTx(R, t, sid, n) ==
    LET S == R.S  d == TxDef[t] IN
    IF S.fin[t] # None
    THEN [ok |-> TRUE,
          S |-> [S EXCEPT !.unique = @ \cup {<<n, t>>}],
          delta |-> R.delta \cup {<<"UNIQUE", n, t>>}]
    ELSE IF \E k \in KeysOf(t) : S.ghost[k] \notin {None, t} THEN [ok |-> FALSE, S |-> S, delta |-> R.delta]
    ELSE IF ~MemberOK(S, t) THEN [ok |-> FALSE, S |-> S, delta |-> R.delta]
    ELSE LET newTotal == CASE d.kind = "deposit" -> S.total[d.asset] + d.amt
                           [] d.kind = "submit"  -> S.total[d.asset] - d.amt
                           [] OTHER -> S.total[d.asset]
             stored == IF d.kind = "submit" THEN 2..d.nouts ELSE 1..d.nouts
             S2 == [S EXCEPT !.fin[t] = sid,
                             !.ghost = [k \in DOMAIN S.ghost |-> IF k \in KeysOf(t) THEN t ELSE S.ghost[k]],
                             !.ainfo = @ \cup {d.asset},
                             !.total[d.asset] = newTotal,
                             !.member = IF d.kind = "pledge" THEN Append(@, [signer |-> d.signer, state |-> "PLEDGING"])
                                        ELSE IF d.kind = "accept" THEN Append(@, [signer |-> d.signer, state |-> "ACCEPTED"])
                                        ELSE @,
                             !.unique = @ \cup {<<n, t>>}]
             dl == {<<"FIN", t>>, <<"UNIQUE", n, t>>}
                   \cup { <<"UTXO", t, ToString(i)>> : i \in stored }
                   \cup { <<"GHOST", k>> : k \in { x \in KeysOf(t) : S.ghost[x] = None } }
                   \cup (IF d.asset \notin S.ainfo THEN {<<"ASSETINFO", d.asset>>} ELSE {})
                   \cup (IF d.kind \in {"deposit", "submit"} THEN {<<"ASSETTOTAL", d.asset>>} ELSE {})
                   \cup (IF d.kind \in {"pledge", "accept"} THEN {<<"NODE", d.signer>>} ELSE {})
         IN [ok |-> TRUE, S |-> S2, delta |-> R.delta \cup dl]

RECURSIVE ApplyAll(_, _, _, _, _)
ApplyAll(R, seq, i, sid, n) ==
    IF i > Len(seq) \/ ~R.ok THEN R
    ELSE ApplyAll(ApplyTx(R, seq[i], sid, n), seq, i + 1, sid, n)

(* A body is stored at admission; a transaction spending the output of another one (needs) can
   only be admitted once that one is finalized.                                                 *)
HasBody(S, t) == ~TxDef[t].nobody /\ (TxDef[t].needs # "-" => S.fin[TxDef[t].needs] # None)

(* snap = [id, node, txs (sequence), pos] *)
Asserts(S, snap) ==
    /\ snap.id \notin S.snaps
    /\ \A i \in 1..Len(snap.txs) : HasBody(S, snap.txs[i]) /\ <<snap.node, snap.txs[i]>> \notin S.unique
    /\ \A i, j \in 1..Len(snap.txs) : i # j => snap.txs[i] # snap.txs[j]
    /\ snap.pos \notin S.topo

WriteSnapshot(S, snap) ==
    IF ~Asserts(S, snap) THEN [res |-> "panic", S |-> S, delta |-> {}]
    ELSE LET R == ApplyAll([ok |-> TRUE, S |-> S, delta |-> {}], snap.txs, 1, snap.id, snap.node) IN
         IF ~R.ok THEN [res |-> "err", S |-> S, delta |-> {}]
         ELSE [res |-> "ok",
               S |-> [R.S EXCEPT !.snaps = @ \cup {snap.id}, !.topo = @ \cup {snap.pos}],
               delta |-> R.delta \cup {<<"SNAPSHOT", snap.id>>, <<"WORK", snap.id>>, <<"TOPOLOGY", ToString(snap.pos)>>, <<"SNAPTOPO", snap.id>>}]

(* ---------------------------------------------------------------------- *)
(* C15 as step predicates over (S, snap, res, S2, delta)                    *)
Atomic(S, res, S2, delta) == res # "ok" => (S2 = S /\ delta = {})
Idempotent(S, S2, delta) ==
    /\ \A t \in Tx : S.fin[t] # None => S2.fin[t] = S.fin[t]
    /\ \A t \in Tx : S.fin[t] # None => \A x \in delta : ~(x[1] \in {"FIN", "UTXO"} /\ x[2] = t)
AllEffects(S, snap, res, delta) ==
    res = "ok" => delta = WriteSnapshot(S, snap).delta
=============================================================================
