SPECIFICATION Spec
CONSTANTS
  Mode = "full"
CONSTRAINT HW
POSTCONDITION Accepted
CHECK_DEADLOCK FALSE
