----------------------------- MODULE MC_Finalize -----------------------------
EXTENDS Finalize, FinalizeTable, Json, TLC

CONSTANTS MaxSnaps, PairSet, TripleSet
VARIABLES S, npos, nsnap, last
vars == <<S, npos, nsnap, last>>
NoneV == "None"

Genesis == << [signer |-> "G1", state |-> "ACCEPTED"] >>

Batches == { SortedSeq(B) : B \in ({ {a} : a \in Tx } \cup { {a, b} : a, b \in PairSet } \cup { {a, b, c} : a, b, c \in TripleSet }) }

Init == /\ S = InitState({"A"}, Genesis) /\ npos = 1 /\ nsnap = 1
        /\ last = [op |-> "Init"]

Write(n, b) ==
    LET snap == [id |-> ToString(nsnap), node |-> n, txs |-> b, pos |-> npos]
        r == WriteSnapshot(S, snap) IN
    /\ S' = r.S
    /\ last' = [op |-> "Write", node |-> n, txs |-> b, res |-> r.res, delta |-> r.delta]
    /\ nsnap' = nsnap + 1
    /\ npos' = IF r.res = "ok" THEN npos + 1 ELSE npos

Next == \E n \in Node, b \in Batches : Write(n, b)
Spec == Init /\ [][Next]_vars

Bound == nsnap <= MaxSnaps
View == <<S, npos>>

StepProp == [][ /\ Atomic(S, last'.res, S', last'.delta)
                /\ Idempotent(S, S', last'.delta) ]_vars

\* non-vacuity witnesses (must be violated)
NoFailAfterProgress == ~(last.op = "Write" /\ last.res = "err" /\ Len(last.txs) >= 2)
NoSharedTx == ~(\E t \in Tx : <<"n1", t>> \in S.unique /\ <<"n2", t>> \in S.unique)

Emit == PrintT("EDGE " \o ToJson([from |-> [S |-> S, npos |-> npos, nsnap |-> nsnap], o |-> last', to |-> [S |-> S', npos |-> npos', nsnap |-> nsnap']]))
=============================================================================
