----------------------------- MODULE TraceLib -----------------------------
(***************************************************************************)
(* Shared machinery of every trace specification (engine E2).              *)
(*                                                                         *)
(* A trace is an NDJSON file recorded from the real implementation. Many   *)
(* recorded executions are concatenated in one file; each starts with an   *)
(* event "Reset".  A trace specification EXTENDS this module, declares its *)
(* own variables plus the cursor  l  and conjoins  Consume(ev)  into each  *)
(* of its actions.                                                         *)
(*                                                                         *)
(* Acceptance is by a high-water register (TLCSet/TLCGet register 1): the  *)
(* constraint HighWater records the largest cursor reached by any state;   *)
(* the post-condition TraceAccepted demands it equals Len(Trace)+1, i.e.   *)
(* every recorded line was explained by some action of the specification.  *)
(* Needs  -workers 1.                                                      *)
(***************************************************************************)
EXTENDS Naturals, Sequences, TLC, Json, IOUtils

TraceFile ==
    IF "VERIF_TRACE" \in DOMAIN IOEnv THEN IOEnv.VERIF_TRACE ELSE "trace.ndjson"

Trace == ndJsonDeserialize(TraceFile)

TraceLen == Len(Trace)

ASSUME TLCSet(1, 0)

\* Has(r, f): record r has field f (JSON objects with optional fields).
Has(r, f) == f \in DOMAIN r

\* Field with default.
Get(r, f, d) == IF f \in DOMAIN r THEN r[f] ELSE d

\* JSON arrays are 1..n functions (sequences); the empty JSON array is <<>>.
SeqToSet(s) == { s[i] : i \in DOMAIN s }

HighWaterOf(l) ==
    TLCSet(1, IF l > TLCGet(1) THEN l ELSE TLCGet(1))

TraceAcceptedAt ==
    IF TLCGet(1) = TraceLen + 1
    THEN TRUE
    ELSE /\ PrintT(<<"TRACE-REJECTED-AT-LINE", TLCGet(1), "OF", TraceLen>>)
         /\ IF TLCGet(1) <= TraceLen /\ TLCGet(1) >= 1
            THEN PrintT(<<"UNEXPLAINED-EVENT", Trace[TLCGet(1)]>>)
            ELSE TRUE
         /\ FALSE
=============================================================================
