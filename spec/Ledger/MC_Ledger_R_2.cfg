SPECIFICATION Spec
CONSTANTS
  Tx <- TxR
  TxDef <- TxDefR
  Ord <- OrdU
  Asset <- AssetU
  Cap <- CapU
  Genesis <- GenesisU
  Info0 <- InfoU
  None <- NoneV
  Known <- Known2
VIEW View
CONSTRAINT BoundR
INVARIANT C17Holds
INVARIANT Consistent
PROPERTY C16Prop
CHECK_DEADLOCK FALSE
