SPECIFICATION Spec
CONSTANTS
  Mode = "full"
  KnownC <- KnownAll
CONSTRAINT HW
INVARIANT Inv
POSTCONDITION Accepted
CHECK_DEADLOCK FALSE
