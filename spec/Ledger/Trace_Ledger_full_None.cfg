SPECIFICATION Spec
CONSTANTS
  Mode = "full"
  KnownC <- KnownNone
CONSTRAINT HW
INVARIANT Inv
POSTCONDITION Accepted
CHECK_DEADLOCK FALSE
