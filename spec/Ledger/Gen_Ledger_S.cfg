SPECIFICATION Spec
CONSTANTS
  Tx <- TxS
  TxDef <- TxDefS
  Ord <- OrdU
  Asset <- AssetU
  Cap <- CapU
  Genesis <- GenesisU
  Info0 <- InfoU
  None <- NoneV
  Known <- KnownAll
VIEW View
CONSTRAINT Bound
INVARIANT C17Holds
INVARIANT Consistent
PROPERTY C16Prop
ACTION_CONSTRAINT Emit
CHECK_DEADLOCK FALSE
