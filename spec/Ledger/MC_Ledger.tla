------------------------------ MODULE MC_Ledger ------------------------------
EXTENDS Ledger, LedgerTable, Json

NoneV == "None"
KnownAll == {"C16-1", "C16-2"}
Known1 == {"C16-1"}
Known2 == {"C16-2"}
KnownNone == {}

\* family S (supply and capacity): deposits near the capacity, a transfer chain, a withdrawal
TxS == {"D1", "D2", "D3", "D5", "D6", "T1", "TD", "W1", "WX"}
\* family R (references, competing spenders, second and third asset)
TxR == {"D1", "D3", "D4", "T1", "T2", "T3", "TI", "W1", "WY", "X1", "K1", "K2"}
DefOf(S) == [t \in S |-> TxDefU[t]]
TxDefS == DefOf(TxS)
TxDefR == DefOf(TxR)

MaxOps == 6
Ops == Len(topo) + Cardinality(validated)
Bound == Len(topo) <= 4 /\ Cardinality(validated) <= 2
BoundQ == Len(topo) <= 3 /\ Cardinality(validated) <= 2
BoundR == Len(topo) <= 3 /\ Cardinality(validated) <= 1

View == <<body, final, lock, dlock, total, ainfo, topo, validated>>

St(b, f, lk, dl, tot, tp, v) ==
    [body |-> b, final |-> f, total |-> tot, topo |-> tp, validated |-> v, ai |-> ainfo,
     lock |-> { <<o[1], o[2], lk[o]>> : o \in {x \in AllOuts : lk[x] # NoneV} },
     dlock |-> dl]
Emit == PrintT("EDGE " \o ToJson([from |-> St(body, final, lock, dlock, total, topo, validated),
                                  o |-> last',
                                  to |-> St(body', final', lock', dlock', total', topo', validated')]))
=============================================================================
