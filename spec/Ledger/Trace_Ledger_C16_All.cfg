SPECIFICATION Spec
CONSTANTS
  Mode = "C16"
  KnownC <- KnownAll
CONSTRAINT HW
INVARIANT Inv
POSTCONDITION Accepted
CHECK_DEADLOCK FALSE
