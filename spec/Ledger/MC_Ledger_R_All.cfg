SPECIFICATION Spec
CONSTANTS
  Tx <- TxR
  TxDef <- TxDefR
  Ord <- OrdU
  Asset <- AssetU
  Cap <- CapU
  Genesis <- GenesisU
  None <- NoneV
  Known <- KnownAll
VIEW View
CONSTRAINT BoundR
INVARIANT C17Holds
INVARIANT Consistent
PROPERTY C16Prop
CHECK_DEADLOCK FALSE
