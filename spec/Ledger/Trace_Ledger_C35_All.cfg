SPECIFICATION Spec
CONSTANTS
  Mode = "C35"
  KnownC <- KnownAll
CONSTRAINT HW
INVARIANT Inv
POSTCONDITION Accepted
CHECK_DEADLOCK FALSE
