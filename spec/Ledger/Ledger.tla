------------------------------- MODULE Ledger -------------------------------
(***************************************************************************)
(* The ledger as one node applies it: snapshot batches are first validated *)
(* the way a signer does (Node.validateSnapshotTransaction, finalized =     *)
(* FALSE: per transaction Validate, LockInputs, WriteTransaction, in the    *)
(* snapshot's transaction order) and later applied the way every node does  *)
(* for a certified snapshot (cosiHandleFinalization: the same loop with     *)
(* finalized = TRUE, then BadgerStore.WriteSnapshot).                       *)
(* Properties: C16 (validated together => can be finalized), C17 (asset     *)
(* supply = value in unconsumed outputs), C35 (topology cursor).            *)
(***************************************************************************)
EXTENDS Integers, Sequences, FiniteSets, TLC

CONSTANTS Tx, TxDef, Ord, Asset, Cap, Genesis, Info0, None, Known

Outs(t) == { <<t, i>> : i \in 1..Len(TxDef[t].outs) }
\* a submit transaction's first output leaves the ledger and is not stored
Stored(o) == ~(TxDef[o[1]].kind = "submit" /\ o[2] = 1)
AllOuts == UNION { Outs(t) : t \in Tx }
OutAmt(o) == TxDef[o[1]].outs[o[2]]
InsOf(t) == { TxDef[t].ins[i] : i \in DOMAIN TxDef[t].ins }

VARIABLES
    body,      \* transactions with a stored body
    final,     \* finalized transactions
    lock,      \* [AllOuts -> Tx \cup {None}] input reservations of stored outputs
    dlock,     \* [deposit Tx -> Tx \cup {None}] (each deposit template has its own external id)
    total,     \* [Asset -> Int] recorded totals
    ainfo,     \* [Asset -> {"none","std","alt"}] registered asset record (written by the first finalized deposit)
    topo,      \* sequence of applied batches
    validated, \* batches that passed signer-side validation and are not applied yet
    last       \* what the last step was and how it ended (for the replayer)
vars == <<body, final, lock, dlock, total, ainfo, topo, validated, last>>

\* position in the batch processing order
Pos(t) == CHOOSE i \in 1..Len(Ord) : Ord[i] = t
SortedSeq(B) == \* the members of B in processing order
    LET n == Cardinality(B)
        Rank(t) == Cardinality({u \in B : Pos(u) < Pos(t)}) + 1
    IN [i \in 1..n |-> CHOOSE t \in B : Rank(t) = i]

Exists(o) == o[1] \in final /\ Stored(o)

(* VersionedTransaction.Validate + type rules, on the current state           *)
TxValid(t, fork) ==
    LET d == TxDef[t] IN
    /\ ~d.bad
    /\ \A r \in d.refs : r \in final
    /\ \A o \in InsOf(t) :
         /\ Exists(o)
         /\ TxDef[o[1]].asset = d.asset
         /\ (lock[o] \in {None, t} \/ fork)
    /\ (d.kind = "deposit" =>
          \* capacity and record are only compared once the asset is registered
          /\ (ainfo[d.asset] = "none" \/ (ainfo[d.asset] = d.info /\ total[d.asset] + d.amt < Cap[d.asset]))
          /\ dlock[t] \in {None, t})

(* lockAndPersistTransaction; with fork a pending holder is displaced and its
   body deleted, a finalized holder makes the lock fail                         *)
CanLock(t, fork) ==
    \A o \in InsOf(t) : lock[o] \in {None, t} \/ (fork /\ lock[o] \notin final)

(* The validation loop over the batch, as a fold over the processing order.
   State threaded: [ok, body, lock, dlock]                                      *)
RECURSIVE VLoop(_, _, _, _)
VLoop(seq, i, st, fork) ==
    IF i > Len(seq) \/ ~st.ok THEN st
    ELSE LET t == seq[i] IN
         IF t \in st.body
         THEN \* found in storage: no Validate; a signer refuses a transaction finalized elsewhere
              VLoop(seq, i + 1, [st EXCEPT !.ok = fork \/ t \notin final], fork)
         ELSE LET d == TxDef[t]
                  valid ==
                    /\ ~d.bad          \* outputs do not add up to the inputs: refused by Validate
                    /\ \A r \in d.refs : r \in final
                    /\ \A o \in InsOf(t) :
                         /\ Exists(o) /\ TxDef[o[1]].asset = d.asset
                         /\ (st.lock[o] \in {None, t} \/ fork)
                    /\ (d.kind = "deposit" =>
                          /\ (ainfo[d.asset] = "none" \/ (ainfo[d.asset] = d.info /\ total[d.asset] + d.amt < Cap[d.asset]))
                          /\ st.dlock[t] \in {None, t})
                    /\ \A o \in InsOf(t) : st.lock[o] \in {None, t} \/ (fork /\ st.lock[o] \notin final)
                  displaced == { st.lock[o] : o \in InsOf(t) } \ {None, t}
              IN IF ~valid THEN [st EXCEPT !.ok = FALSE]
                 ELSE VLoop(seq, i + 1,
                        [ok |-> TRUE,
                         body |-> (st.body \ displaced) \cup {t},
                         lock |-> [o \in AllOuts |-> IF o \in InsOf(t) THEN t ELSE st.lock[o]],
                         dlock |-> IF d.kind = "deposit" THEN [st.dlock EXCEPT ![t] = t] ELSE st.dlock],
                        fork)

RunValidation(B, fork) ==
    VLoop(SortedSeq(B), 1, [ok |-> TRUE, body |-> body, lock |-> lock, dlock |-> dlock], fork)

Batches == { B \in SUBSET Tx : Cardinality(B) \in 1..2 }

Init ==
    /\ body = {} /\ final = {}
    /\ lock = [o \in AllOuts |-> None]
    /\ dlock = [t \in {u \in Tx : TxDef[u].kind = "deposit"} |-> None]
    /\ total = Genesis
    /\ ainfo = Info0
    /\ topo = <<>>
    /\ validated = {}
    /\ last = [op |-> "Init"]

\* signer-side validation of a proposed batch
Validate(B) ==
    /\ B \notin validated
    /\ \A i \in 1..Len(topo) : topo[i] # B
    /\ LET r == RunValidation(B, FALSE) IN
        /\ body' = r.body /\ lock' = r.lock /\ dlock' = r.dlock
        /\ validated' = IF r.ok THEN validated \cup {B} ELSE validated
        /\ last' = [op |-> "Validate", b |-> SortedSeq(B), res |-> IF r.ok THEN "ok" ELSE "err"]
    /\ UNCHANGED <<final, total, ainfo, topo>>

\* WriteSnapshot: totals after applying the not yet finalized members in order
RECURSIVE TotalsAfter(_, _, _, _, _)
TotalsAfter(seq, i, tot, fin, inf) ==
    IF i > Len(seq) THEN [ok |-> TRUE, total |-> tot, info |-> inf]
    ELSE LET t == seq[i]  d == TxDef[t] IN
         IF t \in fin THEN TotalsAfter(seq, i + 1, tot, fin, inf)
         ELSE \* writeAssetInfo: the first finalized deposit registers its record, a different one aborts
              IF d.kind = "deposit" /\ inf[d.asset] \notin {"none", d.info} THEN [ok |-> FALSE, total |-> tot, info |-> inf]
              ELSE
              LET ni == IF d.kind = "deposit" THEN [inf EXCEPT ![d.asset] = d.info] ELSE inf
                  nt == CASE d.kind = "deposit" -> [tot EXCEPT ![d.asset] = @ + d.amt]
                          [] d.kind = "submit"  -> [tot EXCEPT ![d.asset] = @ - d.outs[1]]
                          [] OTHER              -> tot
              IN IF nt[d.asset] > Cap[d.asset] THEN [ok |-> FALSE, total |-> tot, info |-> inf]
                 ELSE TotalsAfter(seq, i + 1, nt, fin \cup {t}, ni)

\* a certified batch (one this node validated as a signer) is applied
Apply(B) ==
    /\ B \in validated
    /\ LET r == RunValidation(B, TRUE) IN
        IF ~r.ok
        THEN \* the finalization path rejects the certified snapshot: it can never be applied
             /\ last' = [op |-> "Apply", b |-> SortedSeq(B), res |-> "rejected"]
             /\ body' = r.body /\ lock' = r.lock /\ dlock' = r.dlock
             /\ validated' = validated \ {B}
             /\ UNCHANGED <<final, total, ainfo, topo>>
        ELSE LET ta == TotalsAfter(SortedSeq(B), 1, total, final, ainfo) IN
             IF ~ta.ok
             THEN \* writeTotalInAsset aborts the whole write (and the process)
                  /\ last' = [op |-> "Apply", b |-> SortedSeq(B), res |-> "panic"]
                  /\ body' = r.body /\ lock' = r.lock /\ dlock' = r.dlock
                  /\ validated' = validated \ {B}
                  /\ UNCHANGED <<final, total, ainfo, topo>>
             ELSE /\ last' = [op |-> "Apply", b |-> SortedSeq(B), res |-> "applied"]
                  /\ body' = r.body /\ lock' = r.lock /\ dlock' = r.dlock
                  /\ final' = final \cup B
                  /\ total' = ta.total
                  /\ ainfo' = ta.info
                  /\ topo' = Append(topo, B)
                  /\ validated' = validated \ {B}

\* A batch certified by the other nodes arrives although this node never validated it (it was not asked,
\* or it refused): the finalization path validates with fork = TRUE, so pending transactions of this node
\* that hold the same inputs are displaced and deleted. Honest signers only certify what is applicable, so
\* the step is enabled only where the batch can be applied; batches of this node that lost a transaction
\* can never be certified any more and leave `validated`.
ApplyF(B) ==
    /\ B \notin validated
    /\ \A i \in 1..Len(topo) : topo[i] # B
    /\ B \cap final = {}
    /\ \A t, u \in B : t # u => InsOf(t) \cap InsOf(u) = {}     \* honest signers refuse a batch that conflicts with itself
    /\ LET r == RunValidation(B, TRUE)
           ta == TotalsAfter(SortedSeq(B), 1, total, final, ainfo)
           gone == body \ r.body
       IN /\ r.ok /\ ta.ok /\ B \subseteq r.body
          /\ last' = [op |-> "ApplyF", b |-> SortedSeq(B), res |-> "applied"]
          /\ body' = r.body /\ lock' = r.lock /\ dlock' = r.dlock
          /\ final' = final \cup B
          /\ total' = ta.total
          /\ ainfo' = ta.info
          /\ topo' = Append(topo, B)
          /\ validated' = { V \in validated : V \cap gone = {} /\ V \cap B = {} }

Next == \E B \in Batches : Validate(B) \/ Apply(B) \/ ApplyF(B)
Spec == Init /\ [][Next]_vars

(* ---------------------------------------------------------------------- *)
Sum(S, f(_)) == LET RECURSIVE s(_)
                    s(X) == IF X = {} THEN 0 ELSE LET x == CHOOSE y \in X : TRUE IN f(x) + s(X \ {x})
                IN s(S)

DepAmt(t) == TxDef[t].amt
SubAmt(t) == TxDef[t].outs[1]

\* C17 on a state: recorded total = genesis + deposits - submissions = unconsumed stored outputs
Unconsumed(a) == { o \in AllOuts : Exists(o) /\ TxDef[o[1]].asset = a /\ lock[o] \notin final }
C17Holds ==
    \A a \in Asset :
      /\ total[a] = Genesis[a]
                    + Sum({t \in final : TxDef[t].kind = "deposit" /\ TxDef[t].asset = a}, DepAmt)
                    - Sum({t \in final : TxDef[t].kind = "submit" /\ TxDef[t].asset = a}, SubAmt)
      /\ total[a] = Genesis[a] + Sum(Unconsumed(a), OutAmt)
      /\ total[a] >= 0 /\ total[a] <= Cap[a]

\* C16: a validated batch is applied when its certificate arrives
\* Known finding C16-1: the batch (or batches validated on the same totals) holds deposits of one
\* asset whose cumulative amount exceeds what its capacity still admits.
DepositOverflow(bseq) ==
    \E a \in Asset :
      LET ds == { bseq[i] : i \in 1..Len(bseq) } IN
      \E t \in ds : TxDef[t].kind = "deposit" /\ TxDef[t].asset = a /\ t \notin final
                    /\ total[a] + TxDef[t].amt >= Cap[a] - Sum({u \in ds \ {t} : TxDef[u].kind = "deposit" /\ TxDef[u].asset = a /\ u \notin final}, DepAmt)
\* Known finding C16-2: the batch holds a not yet finalized deposit of an asset whose registered
\* record differs from the deposit's (it was validated while the asset was unregistered, or another
\* pending deposit of the same unregistered asset in the batch carries a different record).
RecordConflict(bseq) ==
    LET ds == { bseq[i] : i \in 1..Len(bseq) } IN
    \E t \in ds : TxDef[t].kind = "deposit" /\ t \notin final
        /\ \/ ainfo[TxDef[t].asset] \notin {"none", TxDef[t].info}
           \/ \E u \in ds \ {t} : TxDef[u].kind = "deposit" /\ u \notin final
                                  /\ TxDef[u].asset = TxDef[t].asset /\ TxDef[u].info # TxDef[t].info
C16StepOK ==
    last'.op = "Apply" =>
       \/ last'.res = "applied"
       \/ ("C16-1" \in Known /\ DepositOverflow(last'.b))
       \/ ("C16-2" \in Known /\ RecordConflict(last'.b))
C16Prop == [][C16StepOK]_vars

\* structural
Consistent ==
    /\ final \subseteq body
    /\ \A t \in body : \A o \in InsOf(t) : lock[o] = t
    /\ \A i, j \in 1..Len(topo) : i # j => topo[i] # topo[j]
=============================================================================
