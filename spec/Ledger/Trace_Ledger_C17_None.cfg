SPECIFICATION Spec
CONSTANTS
  Mode = "C17"
  KnownC <- KnownNone
CONSTRAINT HW
INVARIANT Inv
POSTCONDITION Accepted
CHECK_DEADLOCK FALSE
