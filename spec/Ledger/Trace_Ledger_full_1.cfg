SPECIFICATION Spec
CONSTANTS
  Mode = "full"
  KnownC <- Known1
CONSTRAINT HW
INVARIANT Inv
POSTCONDITION Accepted
CHECK_DEADLOCK FALSE
