---------------------------- MODULE Trace_Ledger ----------------------------
(***************************************************************************)
(* Trace specification for ledger histories recorded from a real node.     *)
(*  {"ev":"Reset","obs":O}                                                 *)
(*  {"ev":"Validate","b":[..],"res":"ok"|"err"|"panic","obs":O,"queries":Q}*)
(*  {"ev":"Apply","b":[..],"res":"applied"|"rejected"|"panic","obs":O,..}  *)
(* O = body, final, lock (stored outputs with holder and amount), dlock,   *)
(*     total, topo (applied batches in cursor order), pos (all positions). *)
(* Mode "full": the real node behaves exactly like spec/Ledger.            *)
(* Modes "C16", "C17", "C35": only that property's statement, evaluated on *)
(* the observations.                                                       *)
(***************************************************************************)
EXTENDS TraceLib, LedgerTable, Integers, FiniteSets

CONSTANTS Mode, KnownC

VARIABLES l, body, final, lock, dlock, total, ainfo, topo, validated, last, prev, val,
          tin    \* set of <<t, asset records observed when t was validated and stored>> for stored transactions

L == INSTANCE Ledger WITH Tx <- TxU, TxDef <- TxDefU, Ord <- OrdU, Asset <- AssetU, Cap <- CapU,
                          Genesis <- GenesisU, Info0 <- InfoU, None <- "None", Known <- KnownC

KnownAll == {"C16-1", "C16-2"}
Known1 == {"C16-1"}
Known2 == {"C16-2"}
KnownNone == {}

lvars == <<body, final, lock, dlock, total, ainfo, topo, validated, last>>

Ev == Trace[l]
IsEvent(n) == l <= TraceLen /\ Ev.ev = n /\ l' = l + 1
BSet(e) == SeqToSet(e.b)

(* ------------------------------------------------------------------ *)
(* observation helpers                                                  *)
OFinal(o) == SeqToSet(o.final)
OBody(o)  == SeqToSet(o.body)
\* reported stored outputs: <<tx, idx, holder, amount>>
OOuts(o)  == SeqToSet(o.lock)
OTopo(o)  == [i \in 1..Len(o.topo) |-> SeqToSet(o.topo[i])]

Sum(S, f(_)) == LET RECURSIVE s(_)
                    s(X) == IF X = {} THEN 0 ELSE LET x == CHOOSE y \in X : TRUE IN f(x) + s(X \ {x})
                IN s(S)

ObsEqualsModel(o) ==
    /\ OBody(o) = body' /\ OFinal(o) = final'
    /\ \A a \in AssetU : o.total[a] = total'[a] /\ o.ainfo[a] = ainfo'[a]
    /\ \A t \in DOMAIN dlock' : o.dlock[t] = dlock'[t]
    /\ OTopo(o) = topo'
    /\ \A x \in L!AllOuts :
         LET rep == { r \in OOuts(o) : r[1] = x[1] /\ r[2] = x[2] } IN
         IF x[1] \in final' /\ L!Stored(x)
         THEN rep = { <<x[1], x[2], lock'[x], L!OutAmt(x)>> }
         ELSE rep = {}

(* C17 on an observation *)
OAmt(r) == r[4]
OC17(o) ==
    \A a \in AssetU :
      LET deps == { t \in OFinal(o) : TxDefU[t].kind = "deposit" /\ TxDefU[t].asset = a }
          subs == { t \in OFinal(o) : TxDefU[t].kind = "submit" /\ TxDefU[t].asset = a }
          unc  == { r \in OOuts(o) : TxDefU[r[1]].asset = a /\ r[3] \notin OFinal(o) }
      IN /\ o.total[a] = GenesisU[a] + Sum(deps, L!DepAmt) - Sum(subs, L!SubAmt)
         /\ o.total[a] = GenesisU[a] + Sum(unc, OAmt)
         /\ o.total[a] >= 0 /\ o.total[a] <= CapU[a]

(* C35 on an observation and its listing queries *)
StrictlyIncreasing(s) == \A i \in 1..(Len(s) - 1) : s[i] < s[i + 1]
Expected(all, off, cnt) ==
    LET idx == { i \in 1..Len(all) : all[i] >= off }
    IN IF idx = {} \/ cnt = 0 THEN <<>>
       ELSE LET first == CHOOSE i \in idx : \A j \in idx : i <= j
                n == IF Len(all) - first + 1 < cnt THEN Len(all) - first + 1 ELSE cnt
            IN [k \in 1..n |-> all[first + k - 1]]
OC35(o, qs, p) ==
    /\ StrictlyIncreasing(o.pos) /\ o.hashok
    \* positions already assigned never change; new ones are larger than every earlier one
    /\ Len(p.pos) <= Len(o.pos) /\ \A i \in 1..Len(p.pos) : o.pos[i] = p.pos[i]
    /\ \A i \in 1..Len(qs) :
         LET q == qs[i] IN
         IF q.count > 500 THEN q.err
         ELSE ~q.err /\ q.pos = Expected(o.pos, q.offset, q.count) /\ q.lookup /\ q.hashok

(* C16: Known finding C16-1 evaluated on the observation before the step *)
ODepositOverflow(p, b) ==
    \E a \in AssetU :
      \E t \in b : TxDefU[t].kind = "deposit" /\ TxDefU[t].asset = a /\ t \notin OFinal(p)
          /\ p.total[a] + TxDefU[t].amt >=
               CapU[a] - Sum({u \in b \ {t} : TxDefU[u].kind = "deposit" /\ TxDefU[u].asset = a /\ u \notin OFinal(p)}, L!DepAmt)
\* The finding needs the asset to have been unregistered when the deposit itself was validated and stored
\* (possibly as a member of an earlier batch that was refused as a whole): a deposit whose record differs
\* from a REGISTERED one must be refused by validation.
TInfo(t, p) == IF \E x \in tin : x[1] = t THEN (CHOOSE x \in tin : x[1] = t)[2] ELSE p.ainfo
ORecordConflict(p, b) ==
    \E t \in b : TxDefU[t].kind = "deposit" /\ t \notin OFinal(p)
        /\ TInfo(t, p)[TxDefU[t].asset] = "none"
        /\ \/ p.ainfo[TxDefU[t].asset] \notin {"none", TxDefU[t].info}
           \/ \E u \in b \ {t} : TxDefU[u].kind = "deposit" /\ u \notin OFinal(p)
                                 /\ TxDefU[u].asset = TxDefU[t].asset /\ TxDefU[u].info # TxDefU[t].info
OC16(e, p) ==
    (e.ev = "Apply" /\ BSet(e) \in val) =>
        \/ e.res = "applied"
        \/ ("C16-1" \in KnownC /\ ODepositOverflow(p, BSet(e)))
        \/ ("C16-2" \in KnownC /\ ORecordConflict(p, BSet(e)))

(* ------------------------------------------------------------------ *)
Init ==
    /\ l = 1 /\ L!Init
    /\ prev = [pos |-> <<>>] /\ val = {} /\ tin = {}

Reset ==
    /\ IsEvent("Reset")
    /\ body' = {} /\ final' = {} /\ lock' = [o \in L!AllOuts |-> "None"]
    /\ dlock' = [t \in {u \in TxU : TxDefU[u].kind = "deposit"} |-> "None"]
    /\ total' = GenesisU /\ ainfo' = InfoU /\ topo' = <<>> /\ validated' = {} /\ last' = [op |-> "Init"]
    /\ prev' = Ev.obs /\ val' = {} /\ tin' = {}
    /\ (Mode = "full" => ObsEqualsModel(Ev.obs))
    /\ (Mode \in {"full", "C17"} => OC17(Ev.obs))

Monitors(e) ==
    /\ (Mode \in {"full", "C17"} => OC17(e.obs))
    /\ (Mode \in {"full", "C35"} => OC35(e.obs, e.queries, prev))
    /\ (Mode \in {"full", "C16"} => OC16(e, prev))

Step ==
    /\ (IsEvent("Validate") \/ IsEvent("Apply") \/ IsEvent("ApplyF"))
    /\ IF Mode = "full"
       THEN /\ CASE Ev.ev = "Validate" -> L!Validate(BSet(Ev))
                 [] Ev.ev = "Apply"    -> L!Apply(BSet(Ev))
                 [] Ev.ev = "ApplyF"   -> L!ApplyF(BSet(Ev))
            /\ last'.res = Ev.res
            /\ ObsEqualsModel(Ev.obs)
       ELSE UNCHANGED lvars
    /\ Monitors(Ev)
    /\ prev' = Ev.obs
    /\ val' = CASE Ev.ev = "Validate" -> (IF Ev.res = "ok" THEN val \cup {BSet(Ev)} ELSE val)
                 [] Ev.ev = "Apply"    -> val \ {BSet(Ev)}
                 \* a batch certified without this node: batches of this node that lost a transaction to it
                 \* (deleted from the store) or share one with it can never be certified any more
                 [] Ev.ev = "ApplyF"   -> { V \in val : V \cap (SeqToSet(prev.body) \ SeqToSet(Ev.obs.body)) = {}
                                                        /\ V \cap BSet(Ev) = {} }
    /\ tin' = { x \in tin : x[1] \in SeqToSet(Ev.obs.body) }
                \cup { <<t, prev.ainfo>> : t \in SeqToSet(Ev.obs.body) \ SeqToSet(prev.body) }

\* a second, different snapshot aimed at an occupied position is refused and changes nothing
Reuse ==
    /\ IsEvent("Reuse")
    /\ (Mode \in {"full", "C35"} =>
          /\ Ev.res # "ok"
          /\ Ev.posafter = Ev.posbefore
          /\ Ev.lookupsame /\ Ev.hashok)
    /\ UNCHANGED <<lvars, prev, val, tin>>

Next == Reset \/ Step \/ Reuse
Spec == Init /\ [][Next]_<<l, lvars, prev, val, tin>>

HW == HighWaterOf(l)
Accepted == TraceAcceptedAt
Inv == (Mode = "full") => (L!Consistent /\ L!C17Holds)
=============================================================================
