SPECIFICATION Spec
CONSTANTS
  Mode = "full"
  KnownC <- Known2
CONSTRAINT HW
INVARIANT Inv
POSTCONDITION Accepted
CHECK_DEADLOCK FALSE
