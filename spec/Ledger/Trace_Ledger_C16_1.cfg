SPECIFICATION Spec
CONSTANTS
  Mode = "C16"
  KnownC <- Known1
CONSTRAINT HW
INVARIANT Inv
POSTCONDITION Accepted
CHECK_DEADLOCK FALSE
