----------------------------- MODULE LedgerTable -----------------------------
(* Transaction templates shared by MC_Ledger, Trace_Ledger and the Go harness *)
(* harness/inpkg/kernel/zz_verif_ledger_test.go (vgTemplates). Amounts are    *)
(* whole units of the asset; BTC has the real capacity 2500.                  *)
Dep(a, n)        == [kind |-> "deposit", asset |-> a, amt |-> n, ins |-> <<>>, outs |-> <<n>>, refs |-> {}, info |-> "std", bad |-> FALSE]
DepAlt(a, n)     == [kind |-> "deposit", asset |-> a, amt |-> n, ins |-> <<>>, outs |-> <<n>>, refs |-> {}, info |-> "alt", bad |-> FALSE]
Tr(a, ins, outs) == [kind |-> "transfer", asset |-> a, amt |-> 0, ins |-> ins, outs |-> outs, refs |-> {}, info |-> "-", bad |-> FALSE]
Sub(a, ins, outs) == [kind |-> "submit", asset |-> a, amt |-> 0, ins |-> ins, outs |-> outs, refs |-> {}, info |-> "-", bad |-> FALSE]
\* a transfer whose outputs do not add up to its inputs (more: TI, less: TD): never valid
BadTr(a, ins, outs) == [kind |-> "transfer", asset |-> a, amt |-> 0, ins |-> ins, outs |-> outs, refs |-> {}, info |-> "-", bad |-> TRUE]
\* a withdrawal submission with a third output that is not a plain change output (WX: claim-typed, WY:
\* custodian-slash-typed): never valid
BadSub(a, ins, outs) == [kind |-> "submit", asset |-> a, amt |-> 0, ins |-> ins, outs |-> outs, refs |-> {}, info |-> "-", bad |-> TRUE]
Clm(ins, outs, r) == [kind |-> "claim", asset |-> "XIN", amt |-> 0, ins |-> ins, outs |-> outs, refs |-> {r}, info |-> "-", bad |-> FALSE]

TxU == {"D1", "D2", "D3", "D4", "D5", "D6", "T1", "T2", "T3", "TI", "TD", "W1", "WX", "WY", "X1", "K1", "K2"}
\* processing order inside a batch (the harness grinds the real hashes into this order)
OrdU == <<"D1", "D2", "D3", "D4", "D5", "D6", "T1", "T2", "T3", "TI", "TD", "W1", "WX", "WY", "X1", "K1", "K2">>
TxDefU == [t \in TxU |->
   CASE t = "D1" -> Dep("BTC", 2000)
     [] t = "D2" -> Dep("BTC", 1000)
     [] t = "D3" -> Dep("BTC", 400)
     [] t = "D4" -> Dep("DOGE", 7)
     [] t = "D5" -> Dep("BTC", 499)
     [] t = "D6" -> DepAlt("BTC", 3)                                      \* same asset id, asset record differing in letter case
     [] t = "T1" -> Tr("BTC", << <<"D1", 1>> >>, <<1500, 500>>)
     [] t = "T2" -> Tr("BTC", << <<"T1", 1>>, <<"D3", 1>> >>, <<1900>>)
     [] t = "T3" -> Tr("BTC", << <<"T1", 1>> >>, <<1500>>)              \* competes with T2 for T1's first output
     [] t = "TI" -> BadTr("BTC", << <<"D3", 1>> >>, <<500>>)              \* creates 100 out of nothing
     [] t = "TD" -> BadTr("BTC", << <<"D3", 1>> >>, <<300>>)              \* destroys 100
     [] t = "W1" -> Sub("BTC", << <<"T1", 2>> >>, <<300, 200>>)          \* first output leaves the ledger
     [] t = "WX" -> BadSub("BTC", << <<"T1", 2>> >>, <<300, 100, 100>>)
     [] t = "WY" -> BadSub("BTC", << <<"T1", 2>> >>, <<300, 100, 100>>)
     [] t = "X1" -> Dep("XIN", 10)
     [] t = "K1" -> Clm(<< <<"X1", 1>> >>, <<1, 9>>, "W1")
     [] t = "K2" -> Clm(<< <<"K1", 2>> >>, <<1, 8>>, "W1")]               \* a second, different claim for the same submission

AssetU == {"BTC", "DOGE", "XIN"}
CapU == [a \in AssetU |-> CASE a = "BTC" -> 2500 [] a = "DOGE" -> 25000000 [] a = "XIN" -> 750000]
\* genesis supply (7 nodes x 13439 XIN + genesis custodian 700)
\* asset records present after genesis
InfoU == [a \in AssetU |-> IF a = "XIN" THEN "std" ELSE "none"]
GenesisU == [a \in AssetU |-> IF a = "XIN" THEN 94773 ELSE 0]
=============================================================================
