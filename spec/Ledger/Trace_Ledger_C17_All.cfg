SPECIFICATION Spec
CONSTANTS
  Mode = "C17"
  KnownC <- KnownAll
CONSTRAINT HW
INVARIANT Inv
POSTCONDITION Accepted
CHECK_DEADLOCK FALSE
