SPECIFICATION Spec
CONSTANTS
  Mode = "C35"
  KnownC <- KnownNone
CONSTRAINT HW
INVARIANT Inv
POSTCONDITION Accepted
CHECK_DEADLOCK FALSE
