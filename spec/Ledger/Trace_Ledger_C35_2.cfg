SPECIFICATION Spec
CONSTANTS
  Mode = "C35"
  KnownC <- Known2
CONSTRAINT HW
INVARIANT Inv
POSTCONDITION Accepted
CHECK_DEADLOCK FALSE
