SPECIFICATION Spec
CONSTANTS
  Mode = "C16"
  KnownC <- KnownNone
CONSTRAINT HW
INVARIANT Inv
POSTCONDITION Accepted
CHECK_DEADLOCK FALSE
