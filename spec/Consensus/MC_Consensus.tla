---------------------------- MODULE MC_Consensus ----------------------------
(***************************************************************************)
(* E3 for C28.                                                             *)
(*  Family "hist":  all sequences of at most MaxLen accepted operations,   *)
(*    every offered operation (class x reference kind x timestamp kind x   *)
(*    1-2 transactions x repeat) at every history length; invariant: the   *)
(*    recorded history is a single chain, a step appends only an           *)
(*    operation that is alone, consensus-class, references the last one    *)
(*    and is strictly later.  Every edge is emitted for replay (E1).       *)
(*  Family "snap":  all snapshots of 1-3 transactions over all classes     *)
(*    (x local/remote x round 0/later x reference/timestamp kinds for a    *)
(*    single transaction); theorem: the acceptance conditions imply what   *)
(*    C28 states.  Every case is emitted for replay.                       *)
(***************************************************************************)
EXTENDS Consensus, TLC, Json

CONSTANTS MaxLen, Family

VARIABLES chain, c
vars == << chain, c >>

WriteClasses == { "mint", "pledge", "script", "deposit" }
Ops == [cls : WriteClasses, n : {1, 2}, ref : RefKinds, tsk : TsKinds, rep : BOOLEAN]
\* only mint operations can be driven to acceptance on the real store (other classes need the full
\* membership/custodian state to store their snapshot); refusals of every class are driven
Driven(o) == /\ o.cls = "mint" \/ ~WriteOK(o)
             /\ o.rep => (o.cls = "mint" /\ o.ref = "last" /\ Len(chain) >= 2)


SeqsUpTo(S, k) == UNION { [1 .. m -> S] : m \in 1 .. k }
SnapCases ==
    [classes : { s \in SeqsUpTo(Classes, 3) : Len(s) > 1 }, local : {TRUE}, round0 : {FALSE},
     ref : {"last"}, tsk : {"gt"}, rep : {FALSE}]
    \cup
    [classes : SeqsUpTo(Classes, 1), local : BOOLEAN, round0 : BOOLEAN, ref : RefKinds, tsk : TsKinds, rep : BOOLEAN]
NoCase == [classes |-> << >>]

Init == chain = GenesisChain /\ c = NoCase
NextHist == \E o \in Ops : Driven(o) /\ Len(chain) <= MaxLen /\ chain' = WriteEffect(chain, o) /\ c' = [o |-> o, ok |-> WriteOK(o)]
NextSnap == c = NoCase /\ c' \in SnapCases /\ UNCHANGED chain
Next == IF Family = "hist" THEN NextHist ELSE NextSnap
Spec == Init /\ [][Next]_vars

View == << Len(chain), IF Family = "hist" THEN 0 ELSE c >>

\* the model of full acceptance of a snapshot (downstream validators abstracted to TRUE)
KSnapAccept(k) ==
    IF Len(k.classes) > 1 THEN AllBatchable(k.classes)
    ELSE InitialOK(k.classes, k.local, k.round0) /\ ValidateRefOK(k.classes[1], k.ref, k.tsk, k.rep)

VSTStates == { "finalized", "persisted", "cached", "missing" }
VSTInv == \A cl \in { k \in SeqsUpTo({"script", "deposit", "mint", "pledge"}, 3) : Len(k) > 1 } :
            \A st \in [1 .. Len(cl) -> VSTStates] : \A f \in BOOLEAN :
              VSTAccept(cl, st, f) => \A i \in DOMAIN cl : st[i] = "missing" \/ cl[i] \in Batchable

\* what the kernel rule lets through, the store records without aborting
KernelImpliesStore == \A o \in Ops : (o.n = 1 /\ o.cls \in ConsClass /\ ValidateRefOK(o.cls, o.ref, o.tsk, o.rep)) => WriteOK(o)

Inv ==
    /\ IsChain(chain)
    /\ KernelImpliesStore
    /\ VSTInv
    /\ (Family = "snap" /\ c # NoCase /\ KSnapAccept(c)) => KSnapNecessary(c.classes, c.ref, c.tsk, c.rep)

StepProp == [][ \/ chain' = chain
               \/ /\ chain' = Append(chain, Last(chain'))
                  /\ c'.o.n = 1 /\ c'.o.cls \in ConsClass /\ c'.o.ref = "last" /\ c'.o.tsk = "gt"
                  /\ Last(chain').ts > Last(chain).ts ]_vars

Emit == IF Family = "hist"
        THEN PrintT("EDGE " \o ToJson([from |-> Len(chain), o |-> c'.o, ok |-> c'.ok, to |-> Len(chain')]))
        ELSE TRUE
EmitCase == IF Family = "snap" /\ c # NoCase
            THEN PrintT("CASE " \o ToJson([k |-> c, accept |-> KSnapAccept(c)]))
            ELSE TRUE
Witness == Len(chain) < MaxLen + 1
=============================================================================
