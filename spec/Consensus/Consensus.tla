------------------------------ MODULE Consensus ------------------------------
(***************************************************************************)
(* Serialization of consensus operations (C28).                            *)
(*                                                                         *)
(* Code: common/transaction.go IsSnapshotBatchable, kernel/self.go         *)
(* validateKernelSnapshot / validateConsensusTransactionReferences,        *)
(* storage/badger_graph.go WriteConsensusSnapshot.                         *)
(*                                                                         *)
(* A transaction is abstracted to its class, its first reference and, for  *)
(* a snapshot, the relation of the snapshot timestamp to the timestamp of  *)
(* the last recorded consensus operation.  The recorded history is the     *)
(* sequence  chain  of [tx, ts]; position 1 is the genesis operation.      *)
(***************************************************************************)
EXTENDS Integers, Sequences

Batchable == { "script", "deposit", "wsubmit", "wclaim" }
ConsClass == { "mint", "pledge", "cancel", "accept", "remove", "cupdate", "cslash" }
Classes   == Batchable \cup ConsClass \cup { "unknown" }

RefKinds == { "last", "older", "none" }      \* references[0] = last recorded op / an older one / no reference
TsKinds  == { "lt", "eq", "gt" }             \* snapshot timestamp vs. the last recorded operation's

(* -------- batch rule: validateKernelSnapshot for |transactions| > 1 ------ *)
AllBatchable(classes) == \A i \in DOMAIN classes : classes[i] \in Batchable

(* -------- reference rule: validateConsensusTransactionReferences --------- *)
\* rep: the transaction IS the last recorded consensus transaction (idempotent repeat)
RefCond(ref, tsk, rep) == ref # "none" /\ (rep \/ (ref = "last" /\ tsk = "gt"))
ValidateRefOK(cls, ref, tsk, rep) == cls \in ConsClass => RefCond(ref, tsk, rep)

(* -------- snapshot rule: validateKernelSnapshot ------------------------- *)
\* necessary conditions of acceptance (what C28 states)
KSnapNecessary(classes, ref, tsk, rep) ==
    /\ Len(classes) > 1 => AllBatchable(classes)
    /\ (Len(classes) = 1 /\ classes[1] \in ConsClass) => RefCond(ref, tsk, rep)
\* a remote chain's round 0 must start with its node-accept transaction
InitialOK(classes, local, round0) == (~local /\ round0) => classes[1] = "accept"

(* -------- validateSnapshotTransaction: the members as the node resolves them ---- *)
\* states[i]: "finalized" (stored, finalized by an earlier snapshot), "persisted" (stored, not
\* finalized), "cached" (in the cache, validated now), "missing" (unknown, requested later)
VSTNecessary(classes, states) ==
    Len(classes) > 1 => \A i \in DOMAIN classes : states[i] # "missing" => classes[i] \in Batchable
VSTAccept(classes, states, finalized) ==
    /\ VSTNecessary(classes, states)
    /\ finalized \/ \A i \in DOMAIN classes : states[i] # "finalized"      \* a proposal cannot reuse a finalized transaction

(* -------- durable history: WriteConsensusSnapshot ------------------------ *)
Last(chain) == chain[Len(chain)]
GenesisChain == << [tx |-> 0, ts |-> 0] >>
\* an operation offered to the store: class (by its first output / mint input), n transactions in
\* the snapshot, reference and timestamp kinds, repeat of the last recorded transaction
WriteOK(o) ==
    /\ o.n = 1
    /\ o.cls \in ConsClass
    /\ o.rep \/ (o.ref = "last" /\ o.tsk = "gt")
NewTs(chain, tsk) == CASE tsk = "gt" -> Last(chain).ts + 2
                      [] tsk = "eq" -> Last(chain).ts
                      [] OTHER      -> Last(chain).ts - 1
WriteEffect(chain, o) ==
    IF WriteOK(o) /\ ~o.rep
    THEN Append(chain, [tx |-> Len(chain), ts |-> NewTs(chain, "gt")])
    ELSE chain

\* the recorded history is a single chain: strictly increasing timestamps, distinct transactions
IsChain(chain) ==
    /\ Len(chain) >= 1
    /\ \A i \in 1 .. (Len(chain) - 1) : chain[i].ts < chain[i + 1].ts
    /\ \A i, j \in DOMAIN chain : chain[i].tx = chain[j].tx => i = j
=============================================================================
