SPECIFICATION Spec
CONSTANTS
  MaxLen = 4
  Family = "hist"
INVARIANT Witness
CHECK_DEADLOCK FALSE
