SPECIFICATION Spec
CONSTANTS
  MaxLen = 4
  Family = "snap"
INVARIANT Inv
CHECK_DEADLOCK FALSE
