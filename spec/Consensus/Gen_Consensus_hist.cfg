SPECIFICATION Spec
CONSTANTS
  MaxLen = 4
  Family = "hist"
VIEW View
INVARIANT Inv
ACTION_CONSTRAINT Emit
CHECK_DEADLOCK FALSE
