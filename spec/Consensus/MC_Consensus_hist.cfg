SPECIFICATION Spec
CONSTANTS
  MaxLen = 4
  Family = "hist"
VIEW View
INVARIANT Inv
PROPERTY StepProp
CHECK_DEADLOCK FALSE
