--------------------------- MODULE Trace_Consensus ---------------------------
(***************************************************************************)
(* Trace specification for C28 (engine E2).  Events recorded from the real *)
(* code (kernel in-package harness, real Node and BadgerStore):            *)
(*  {"ev":"Reset","last":{tx,ts}}          fresh node: only the genesis op *)
(*  {"ev":"write","o":{cls,n,ref,tsk,rep},"kres":r,"res":r,"last":{tx,ts}} *)
(*        one operation offered to store.WriteConsensusSnapshot and the    *)
(*        last recorded operation read back (ReadLastConsensusSnapshot)    *)
(*  {"ev":"refs","cls","ref","tsk","rep","res"}                            *)
(*        validateConsensusTransactionReferences on a candidate            *)
(*  {"ev":"ksnap","classes":[..],"local","round0","ref","tsk","rep",       *)
(*   "valid","res"}    validateKernelSnapshot on a candidate snapshot      *)
(* tx = position of the operation in the recorded history (0 = genesis),   *)
(* ts = seconds after the genesis operation.                               *)
(*                                                                         *)
(* Mode "full": outcome and recorded history exactly as specified.         *)
(* Mode "monitor": only C28: accepted batch => all batchable; accepted     *)
(*   consensus-class transaction => alone, references the last recorded    *)
(*   operation (or is it), strictly later; the history only grows by such  *)
(*   an operation and stays a single chain; a refusal records nothing.     *)
(***************************************************************************)
EXTENDS TraceLib, Consensus

CONSTANT Mode
Full == Mode = "full"

VARIABLES l, chain
vars == << l, chain >>

Init == l = 1 /\ chain = GenesisChain
Ev == Trace[l]
IsEvent(name) == l <= TraceLen /\ Ev.ev = name /\ l' = l + 1
Okd == Ev.res = "ok"

Reset == IsEvent("Reset") /\ Ev.last = Last(GenesisChain) /\ chain' = GenesisChain

Write ==
    /\ IsEvent("write")
    \* kres: outcome of the kernel rule on the very snapshot that is then offered to the store.
    \* Kernel acceptance of a consensus-class operation implies the rule (reference to the head, strictly
    \* later) and the store must then record it without aborting.
    /\ (Ev.kres = "ok" /\ Ev.o.cls \in ConsClass) => (RefCond(Ev.o.ref, Ev.o.tsk, Ev.o.rep) /\ Okd)
    /\ (Full /\ Ev.o.n = 1) => ((Ev.kres = "ok") = ValidateRefOK(Ev.o.cls, Ev.o.ref, Ev.o.tsk, Ev.o.rep))
    /\ LET o == Ev.o  obs == Ev.last  appended == obs # Last(chain) IN
        IF Full
        THEN /\ Okd = WriteOK(o)
             /\ chain' = WriteEffect(chain, o)
             /\ obs = Last(chain')
        ELSE /\ appended => /\ o.n = 1 /\ o.cls \in ConsClass /\ ~o.rep
                            /\ o.ref = "last" /\ o.tsk = "gt"
                            /\ obs.tx = Len(chain) /\ obs.ts > Last(chain).ts
             /\ ~Okd => ~appended
             /\ chain' = IF appended THEN Append(chain, obs) ELSE chain

Refs ==
    /\ IsEvent("refs")
    /\ IF Full THEN Okd = ValidateRefOK(Ev.cls, Ev.ref, Ev.tsk, Ev.rep)
               ELSE (Okd /\ Ev.cls \in ConsClass) => RefCond(Ev.ref, Ev.tsk, Ev.rep)
    /\ UNCHANGED chain

KSnap ==
    /\ IsEvent("ksnap")
    /\ Okd => KSnapNecessary(Ev.classes, Ev.ref, Ev.tsk, Ev.rep)
    /\ Full =>
         /\ Len(Ev.classes) > 1 => (Okd = AllBatchable(Ev.classes))
         /\ (Len(Ev.classes) = 1 /\ Ev.classes[1] \notin ConsClass) => (Okd = InitialOK(Ev.classes, Ev.local, Ev.round0))
         /\ (Len(Ev.classes) = 1 /\ Ev.valid) =>
                (Okd = (InitialOK(Ev.classes, Ev.local, Ev.round0) /\ RefCond(Ev.ref, Ev.tsk, Ev.rep)))
    /\ UNCHANGED chain

\* {"ev":"vst","classes":[..],"states":[..],"finalized":b,"res":r}: validateSnapshotTransaction on a node whose
\* store already holds the members in the given states (classes in the snapshot's own transaction order)
VST ==
    /\ IsEvent("vst")
    /\ Okd => VSTNecessary(Ev.classes, Ev.states)
    /\ (Full /\ Len(Ev.classes) > 1) => (Okd = VSTAccept(Ev.classes, Ev.states, Ev.finalized))
    /\ UNCHANGED chain

Next == Reset \/ Write \/ Refs \/ KSnap \/ VST
Spec == Init /\ [][Next]_vars

Inv == IsChain(chain)
HW == HighWaterOf(l)
Accepted == TraceAcceptedAt
=============================================================================
