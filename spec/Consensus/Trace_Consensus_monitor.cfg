SPECIFICATION Spec
CONSTANTS
  Mode = "monitor"
CONSTRAINT HW
INVARIANT Inv
POSTCONDITION Accepted
CHECK_DEADLOCK FALSE
