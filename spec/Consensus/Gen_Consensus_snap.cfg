SPECIFICATION Spec
CONSTANTS
  MaxLen = 4
  Family = "snap"
INVARIANT Inv
CONSTRAINT EmitCase
CHECK_DEADLOCK FALSE
