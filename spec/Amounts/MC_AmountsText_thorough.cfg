SPECIFICATION Spec
CONSTANTS
  W = 4
  IntMax = 3
  FracMax = 9
  FracAlphabet = {"0", "5", "9"}
INVARIANT Inv
CHECK_DEADLOCK FALSE
