------------------------------- MODULE Amounts -------------------------------
(***************************************************************************)
(* Fixed-point amounts of Mixin Kernel (common/integer.go, common/ration.go)*)
(* as exact decimal arithmetic over BigNat.                                 *)
(*                                                                         *)
(* An amount is the integer number of 10^-8 units, written                 *)
(*     [neg |-> BOOLEAN, m |-> BigNat magnitude]                            *)
(* (negative amounts cannot be produced by the exported constructors but   *)
(* the operations guard against them; the guards are part of the property).*)
(* Decimal text is a sequence of one-character strings.                    *)
(*                                                                         *)
(* Every operation of the code has a specification operator returning      *)
(*     [ok |-> FALSE]            documented rejection (the code panics)    *)
(*     [ok |-> TRUE, v |-> ...]  the exact result                          *)
(* Floor quotients are not computed but characterised (IsQuotient).        *)
(***************************************************************************)
EXTENDS BigNat

Precision == 8

Amt(n)  == [neg |-> FALSE, m |-> n]
IsNeg(x)  == x.neg /\ ~IsZero(x.m)
IsPos(x)  == ~x.neg /\ ~IsZero(x.m)
IsZeroA(x) == IsZero(x.m)

Reject == [ok |-> FALSE]
Ok(v)  == [ok |-> TRUE, v |-> v]

RECURSIVE Zeros(_)
Zeros(n) == IF n <= 0 THEN << >> ELSE << 0 >> \o Zeros(n - 1)

Unit == FromDigits(<< 1 >> \o Zeros(Precision))               \* 1.00000000

(* ------------------------------ decimal text ---------------------------- *)
DigitChars == << "0", "1", "2", "3", "4", "5", "6", "7", "8", "9" >>
IsDigitChar(c) == \E d \in 1 .. 10 : DigitChars[d] = c
DigitOf(c) == (CHOOSE d \in 1 .. 10 : DigitChars[d] = c) - 1
CharsOf(ds) == [i \in 1 .. Len(ds) |-> DigitChars[ds[i] + 1]]
DigitsOf(cs) == [i \in 1 .. Len(cs) |-> DigitOf(cs[i])]

\* [sign] digit* [ "." digit* ]   with at least one digit
Signed(cs)  == Len(cs) > 0 /\ cs[1] \in {"-", "+"}
Body(cs)    == IF Signed(cs) THEN Tail(cs) ELSE cs
Points(b)   == { i \in 1 .. Len(b) : b[i] = "." }
PointAt(b)  == IF Points(b) = {} THEN Len(b) + 1 ELSE CHOOSE i \in Points(b) : TRUE
WellFormed(cs) ==
    LET b == Body(cs) IN
    /\ \A i \in 1 .. Len(b) : b[i] = "." \/ IsDigitChar(b[i])
    /\ \A i, j \in Points(b) : i = j
    /\ \E i \in 1 .. Len(b) : IsDigitChar(b[i])
IntDigits(cs)  == LET b == Body(cs) IN DigitsOf(SubSeq(b, 1, PointAt(b) - 1))
FracDigits(cs) == LET b == Body(cs) IN DigitsOf(SubSeq(b, PointAt(b) + 1, Len(b)))
Frac8(fd) == IF Len(fd) >= Precision THEN SubSeq(fd, 1, Precision)
             ELSE fd \o Zeros(Precision - Len(fd))
NonZeroText(cs) == \E i \in 1 .. Len(Body(cs)) : Body(cs)[i] \in {"1","2","3","4","5","6","7","8","9"}
NegativeText(cs) == Signed(cs) /\ cs[1] = "-" /\ NonZeroText(cs)

\* NewIntegerFromString: truncation (floor) to eight places; negative and malformed text rejected
Parse(cs) ==
    IF ~WellFormed(cs) \/ NegativeText(cs) THEN Reject
    ELSE Ok(Amt(FromDigits(IntDigits(cs) \o Frac8(FracDigits(cs)))))

\* Integer.String: integer part without leading zeros (at least "0"), point, exactly eight places
PrintA(x) ==
    LET ds == ToDigits(x.m)  n == Len(ds) IN
    IF n > Precision
    THEN CharsOf(SubSeq(ds, 1, n - Precision)) \o << "." >> \o CharsOf(SubSeq(ds, n - Precision + 1, n))
    ELSE << "0", "." >> \o CharsOf(Zeros(Precision - n) \o ds)

\* the normal form of a well-formed non-negative text
Normalized(cs) ==
    LET ip == StripZeros(IntDigits(cs)) IN
    CharsOf(IF Len(ip) = 0 THEN << 0 >> ELSE ip) \o << "." >> \o CharsOf(Frac8(FracDigits(cs)))

(* ------------------------------- operations ----------------------------- *)
NewInt(n) == Ok(Amt(Mul(n, Unit)))                          \* NewInteger(uint64)

AddA(x, y) == IF IsNeg(x) \/ ~IsPos(y) THEN Reject ELSE Ok(Amt(Add(x.m, y.m)))

SubA(x, y) == IF IsNeg(x) \/ ~IsPos(y) \/ Lt(x.m, y.m) THEN Reject ELSE Ok(Amt(Sub(x.m, y.m)))

MulIntA(x, k) == IF IsNeg(x) \/ ~IsPos(k) THEN Reject ELSE Ok(Amt(Mul(x.m, k.m)))

DivIntOk(x, k) == ~IsNeg(x) /\ IsPos(k)
DivIntIs(q, x, k) == ~q.neg /\ IsQuotient(q.m, x.m, k.m)     \* q = floor(x / k)

CmpA(x, y) ==
    IF IsNeg(x) /\ ~IsNeg(y) THEN -1
    ELSE IF ~IsNeg(x) /\ IsNeg(y) THEN 1
    ELSE IF IsNeg(x) THEN Cmp(y.m, x.m) ELSE Cmp(x.m, y.m)

Two64 == FromDigits(<< 1,8,4,4,6,7,4,4,0,7,3,7,0,9,5,5,1,6,1,6 >>)
CountPre(x, y) == IsPos(x) /\ IsPos(y) /\ ~Lt(x.m, y.m)
\* Count(x, y) = floor(x / y) when it fits 64 bits
CountOk(x, y)    == CountPre(x, y) /\ Lt(x.m, Mul(Two64, y.m))      \* floor(x/y) < 2^64
CountIs(c, x, y) == IsQuotient(c, x.m, y.m)

RationOk(x, y) == ~IsNeg(x) /\ IsPos(y)
\* Product(r, x) = floor(x * r.x / r.y)
ProductOk(x) == ~IsNeg(x)
ProductIs(v, rx, ry, x) == ~v.neg /\ IsQuotient(v.m, Mul(x.m, rx), ry)

RatCmp(ax, ay, bx, by) == Cmp(Mul(ax, by), Mul(ay, bx))

=============================================================================
