SPECIFICATION Spec
CONSTANTS
  W = 4
  Mode = "full"
CONSTRAINT HW
INVARIANT Inv
POSTCONDITION Accepted
CHECK_DEADLOCK FALSE
