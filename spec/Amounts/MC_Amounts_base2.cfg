SPECIFICATION Spec
CONSTANTS
  W = 2
  Vals <- RangeMedium
INVARIANT Inv
CHECK_DEADLOCK FALSE
