SPECIFICATION Spec
CONSTANTS
  W = 4
  IntMax = 2
  FracMax = 9
  FracAlphabet = {"0", "7"}
INVARIANT Inv
CHECK_DEADLOCK FALSE
