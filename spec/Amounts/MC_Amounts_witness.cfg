SPECIFICATION Spec
CONSTANTS
  W = 1
  Vals <- RangeSmall
INVARIANT Witness
CHECK_DEADLOCK FALSE
