SPECIFICATION Spec
CONSTANTS
  W = 4
  Vals <- Boundary
INVARIANT Inv
CHECK_DEADLOCK FALSE
