SPECIFICATION Spec
CONSTANTS
  W = 1
  Vals <- RangeMedium
INVARIANT Inv
CHECK_DEADLOCK FALSE
