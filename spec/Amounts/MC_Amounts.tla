----------------------------- MODULE MC_Amounts -----------------------------
(***************************************************************************)
(* E3 for C33: the arithmetic oracle itself is checked exhaustively        *)
(* against TLC's native integers.                                          *)
(*  - W = 1 (base 10): all pairs of a range, so that every carry, borrow,  *)
(*    normalisation and multi-limb path is taken by small operands;        *)
(*  - W = 4 (production base): all pairs of a set of boundary values.      *)
(* and the signed rejection table of Amounts is checked against the        *)
(* documented conditions written directly over native integers.            *)
(***************************************************************************)
EXTENDS Amounts, TLC

CONSTANT Vals

RangeSmall  == 0 .. 100
RangeMedium == 0 .. 400
Boundary == { 0, 1, 2, 9, 10, 11, 99, 100, 9999, 10000, 10001, 19999, 20000, 46340, 46341, 65535, 65536,
              99999, 100000, 9999999, 99999999, 100000000, 100000001, 999999999, 1000000000,
              1073741823, 1073741824, 2147483646, 2147483647 }

VARIABLES a, b, sa, sb
vars == << a, b, sa, sb >>

\* two levels so that TLC's workers share the enumeration: an initial state per a, then all (b, signs)
Init == a \in Vals /\ b = -1 /\ sa = FALSE /\ sb = FALSE
Next == b = -1 /\ a' = a /\ b' \in Vals /\ sa' \in BOOLEAN /\ sb' \in BOOLEAN
Spec == Init /\ [][Next]_vars

MaxInt == 2147483647
F(n) == FromInt(n)
A == [neg |-> sa, m |-> F(a)]
Bb == [neg |-> sb, m |-> F(b)]
va == IF sa THEN -a ELSE a          \* native signed values
vb == IF sb THEN -b ELSE b
Sgn(n) == IF n < 0 THEN -1 ELSE IF n > 0 THEN 1 ELSE 0

RECURSIVE NatDigits(_)
NatDigits(n) == IF n = 0 THEN << >> ELSE Append(NatDigits(n \div 10), n % 10)

\* ---- BigNat against native arithmetic (signs ignored: checked once per (a,b))
NatInv ==
    (~sa /\ ~sb) =>
    /\ IsBigNat(F(a)) /\ ToInt(F(a)) = a
    /\ Cmp(F(a), F(b)) = Sgn(a - b)
    /\ (a <= MaxInt - b => Add(F(a), F(b)) = F(a + b))
    /\ (a >= b => Sub(F(a), F(b)) = F(a - b))
    /\ ((b = 0 \/ a <= MaxInt \div b) => Mul(F(a), F(b)) = F(a * b))
    /\ ((b <= 200000 /\ (b = 0 \/ a <= MaxInt \div b)) => MulSmall(F(a), b) = F(a * b))
    /\ ((b > 0 /\ b <= 200000) => DivSmall(F(a), b) = [q |-> F(a \div b), r |-> a % b])
    /\ (b > 0 => /\ IsQuotient(F(a \div b), F(a), F(b))
                 /\ (a \div b < MaxInt => ~IsQuotient(F((a \div b) + 1), F(a), F(b)))
                 /\ (a \div b > 0 => ~IsQuotient(F((a \div b) - 1), F(a), F(b))))
    /\ ((b > 0 /\ (b <= 15 \/ a % 7 = 0)) => DivMod(F(a), F(b)) = [q |-> F(a \div b), r |-> F(a % b)])
    /\ ToDigits(F(a)) = NatDigits(a)
    /\ FromDigits(NatDigits(a)) = F(a)
    /\ FromDigits(<< 0, 0 >> \o NatDigits(a)) = F(a)
    /\ ShiftLimbs(F(a), 2) = Mul(F(a), F(Base * Base))

\* ---- the documented rejection table and results of Amounts over signed operands
AmtInv ==
    /\ AddA(A, Bb).ok = (va >= 0 /\ vb > 0)
    /\ (AddA(A, Bb).ok /\ a <= MaxInt - b => AddA(A, Bb).v = Amt(F(va + vb)))
    /\ SubA(A, Bb).ok = (va >= 0 /\ vb > 0 /\ va >= vb)
    /\ (SubA(A, Bb).ok => SubA(A, Bb).v = Amt(F(va - vb)))
    /\ MulIntA(A, Bb).ok = (va >= 0 /\ vb > 0)
    /\ (MulIntA(A, Bb).ok /\ a <= MaxInt \div b => MulIntA(A, Bb).v = Amt(F(va * vb)))
    /\ DivIntOk(A, Bb) = (va >= 0 /\ vb > 0)
    /\ (DivIntOk(A, Bb) => DivIntIs(Amt(F(va \div vb)), A, Bb))
    /\ CmpA(A, Bb) = (IF va < vb THEN -1 ELSE IF va > vb THEN 1 ELSE 0)
    /\ CountPre(A, Bb) = (va > 0 /\ vb > 0 /\ va >= vb)
    /\ (CountPre(A, Bb) => CountOk(A, Bb) /\ CountIs(F(va \div vb), A, Bb))
    /\ RationOk(A, Bb) = (va >= 0 /\ vb > 0)
    /\ ProductOk(A) = (va >= 0)
    \* Product with ratio b/(a+1), applied to a: floor(a*b/(a+1))
    /\ ((~sa /\ ~sb /\ (b = 0 \/ a <= MaxInt \div b) /\ a < MaxInt)
            => ProductIs(Amt(F((a * b) \div (a + 1))), F(b), F(a + 1), A))
    \* ratio comparison a/(b+1) ? b/(a+1)  <=>  a*(a+1) ? b*(b+1)
    /\ ((~sa /\ ~sb /\ a < 46340 /\ b < 46340)
            => RatCmp(F(a), F(b + 1), F(b), F(a + 1)) = Sgn(a * (a + 1) - b * (b + 1)))

Inv == b >= 0 => (NatInv /\ AmtInv)

\* non-vacuity: a multi-limb borrow chain is reached
Witness == ~(b >= 0 /\ ~sa /\ ~sb /\ a >= 100 /\ b >= 1 /\ a >= b /\ Len(Sub(F(a), F(b))) < Len(F(a)) - 1)
=============================================================================
