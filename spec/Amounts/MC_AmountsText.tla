--------------------------- MODULE MC_AmountsText ---------------------------
(***************************************************************************)
(* E3 for C33, decimal text: every text  [sign] int [ "." frac ]  with     *)
(* int of 0..IntMax characters over {0,1}, frac of 0..FracMax characters over   *)
(* FracAlphabet, with and without the point, is parsed by the BigNat       *)
(* definition and compared with the value computed with native integers;   *)
(* printing gives the normal form, which parses back to the same amount.   *)
(***************************************************************************)
EXTENDS Amounts, TLC

CONSTANTS IntMax, FracMax, FracAlphabet

VARIABLES sign, ip, pt, fr
vars == << sign, ip, pt, fr >>

SeqsUpTo(S, n) == UNION { [1 .. k -> S] : k \in 0 .. n }

Init == sign \in {"", "-", "+"} /\ ip \in SeqsUpTo({"0", "1"}, IntMax) /\ pt = FALSE /\ fr = << >>
Next == ~pt /\ pt' = TRUE /\ fr' \in SeqsUpTo(FracAlphabet, FracMax) /\ UNCHANGED << sign, ip >>
Spec == Init /\ [][Next]_vars

Text == (IF sign = "" THEN << >> ELSE << sign >>) \o ip \o (IF pt THEN << "." >> ELSE << >>) \o fr

RECURSIVE NatVal(_, _)
NatVal(ds, n) == IF n = 0 THEN 0 ELSE NatVal(ds, n - 1) * 10 + ds[n]

HasDigit == Len(ip) + Len(fr) > 0
NonZero  == (\E i \in DOMAIN ip : ip[i] # "0") \/ (\E j \in DOMAIN fr : fr[j] # "0")
NatFrac8 == LET fd == DigitsOf(fr) IN
            NatVal(Frac8(fd), Precision)
NatParse == NatVal(DigitsOf(ip), Len(ip)) * 100000000 + NatFrac8      \* < 2^31: int part <= 111

Inv ==
    LET p == Parse(Text) IN
    /\ p.ok = (HasDigit /\ ~(sign = "-" /\ NonZero))
    /\ p.ok => /\ IsBigNat(p.v.m) /\ ~p.v.neg
               /\ (NatVal(DigitsOf(ip), Len(ip)) <= 21 => ToInt(p.v.m) = NatParse)
               /\ PrintA(p.v) = Normalized(Text)
               /\ Parse(PrintA(p.v)) = p
               /\ Normalized(PrintA(p.v)) = PrintA(p.v)
               /\ Len(PrintA(p.v)) >= 10 /\ PrintA(p.v)[Len(PrintA(p.v)) - Precision] = "."
=============================================================================
