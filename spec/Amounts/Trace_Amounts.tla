---------------------------- MODULE Trace_Amounts ----------------------------
(***************************************************************************)
(* Trace specification for C33 (engine E2, stateless/relational pattern):  *)
(* every event is one call of a real Integer / RationalNumber method       *)
(* (common/integer.go, common/ration.go) recorded with its operands, its   *)
(* outcome class ("ok" | "panic") and its result; TLC re-computes the      *)
(* event with the operators of Amounts over BigNat.  Floor quotients are   *)
(* verified (q*y <= x < q*y + y), not computed.                            *)
(*                                                                         *)
(* Mode "full":    outcome and value exactly as specified, including the   *)
(*                 treatment of "-0" texts (accepted as zero by the code). *)
(* Mode "monitor": what C33 states: results equal exact arithmetic;        *)
(*                 rejection exactly in the documented cases (negative     *)
(*                 operands; zero/negative second operand of add, sub,     *)
(*                 mul, div, ratio; count of less than one or over 2^64;   *)
(*                 malformed or negative text); signed-zero texts are not  *)
(*                 judged.                                                 *)
(***************************************************************************)
EXTENDS TraceLib, Amounts

CONSTANT Mode

VARIABLE l
Init == l = 1
Next == l <= TraceLen /\ l' = l + 1
Spec == Init /\ [][Next]_l

Okd(e) == e.res = "ok"

\* outcome class and value against a computed specification result
Agrees(e, s, v) == /\ Okd(e) = s.ok
                   /\ s.ok => v = s.v
\* outcome class against a precondition, value characterised by a relation
AgreesRel(e, pre, rel) == /\ Okd(e) = pre
                          /\ pre => rel

SignedZeroText(cs) == Signed(cs) /\ ~NonZeroText(cs)
Quoted(cs) == Len(cs) >= 2 /\ cs[1] = "\"" /\ cs[Len(cs)] = "\""
Unquote(cs) == SubSeq(cs, 2, Len(cs) - 1)

EventOK(e) ==
    CASE e.ev = "add"   -> Agrees(e, AddA(e.x, e.y), e.v)
      [] e.ev = "sub"   -> Agrees(e, SubA(e.x, e.y), e.v)
      [] e.ev = "mul"   -> Agrees(e, MulIntA(e.x, e.k), e.v)
      [] e.ev = "div"   -> AgreesRel(e, DivIntOk(e.x, e.k), DivIntIs(e.v, e.x, e.k))
      [] e.ev = "cmp"   -> Okd(e) /\ e.c = CmpA(e.x, e.y)
      [] e.ev = "count" -> AgreesRel(e, CountOk(e.x, e.y), CountIs(e.c, e.x, e.y))
      [] e.ev = "newint" -> Agrees(e, NewInt(e.n), e.v)
      [] e.ev = "parse" -> (Mode = "monitor" /\ SignedZeroText(e.s)) \/ Agrees(e, Parse(e.s), e.v)
      [] e.ev = "printparsed" ->
            (Mode = "monitor" /\ SignedZeroText(e.s)) \/ (Okd(e) /\ e.p = Normalized(e.s))
      [] e.ev = "print" -> Okd(e) /\ e.s = PrintA(e.x)
      [] e.ev = "json"  -> /\ Okd(e) /\ Quoted(e.s) /\ Unquote(e.s) = PrintA(e.x) /\ e.v = e.x
      [] e.ev = "ration" -> AgreesRel(e, RationOk(e.x, e.y), e.rx = e.x.m /\ e.ry = e.y.m)
      [] e.ev = "product" -> AgreesRel(e, ProductOk(e.x), ProductIs(e.v, e.rx, e.ry, e.x))
      [] e.ev = "ratstring" ->
            \* RationalNumber.String prints floor(10^8 * rx / ry) units
            /\ Okd(e) /\ WellFormed(e.s) /\ ~Signed(e.s)
            /\ PrintA(Parse(e.s).v) = e.s
            /\ ProductIs(Parse(e.s).v, e.rx, e.ry, Amt(Unit))
      [] e.ev = "ratcmp" -> Okd(e) /\ e.c = RatCmp(e.ax, e.ay, e.bx, e.by)
      [] OTHER -> FALSE

Inv == l > 1 => EventOK(Trace[l - 1])

HW == HighWaterOf(l)
Accepted == TraceAcceptedAt
=============================================================================
