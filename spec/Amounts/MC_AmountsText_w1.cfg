SPECIFICATION Spec
CONSTANTS
  W = 1
  IntMax = 3
  FracMax = 9
  FracAlphabet = {"0", "7"}
INVARIANT Inv
CHECK_DEADLOCK FALSE
