SPECIFICATION Spec
CONSTANTS
  W = 4
  Mode = "monitor"
CONSTRAINT HW
INVARIANT Inv
POSTCONDITION Accepted
CHECK_DEADLOCK FALSE
