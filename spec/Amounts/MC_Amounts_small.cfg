SPECIFICATION Spec
CONSTANTS
  W = 1
  Vals <- RangeSmall
INVARIANT Inv
CHECK_DEADLOCK FALSE
