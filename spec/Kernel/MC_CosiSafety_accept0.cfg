SPECIFICATION Spec
CONSTANTS
  N = 8
  Base = 7
  F = 2
INVARIANT NoDoubleSpend
CHECK_DEADLOCK FALSE
