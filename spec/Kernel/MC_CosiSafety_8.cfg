SPECIFICATION Spec
CONSTANTS
  N = 8
  Base = 8
  F = 2
INVARIANT NoDoubleSpend
INVARIANT NoLocalDoubleSpend
INVARIANT QuorumArithmetic
CHECK_DEADLOCK FALSE
