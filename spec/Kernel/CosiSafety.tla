----------------------------- MODULE CosiSafety -----------------------------
(***************************************************************************)
(* Composition of three listed properties at the network level (growth of  *)
(* the specification beyond single-node behaviour):                        *)
(*   C03  an honest node reserves an output for ONE pending transaction,   *)
(*        a finalization-path takeover never displaces a finalized holder; *)
(*   C09  a snapshot is final only with a certificate of at least the      *)
(*        threshold of signers of the key set;                             *)
(*   C10  the threshold guarantees that two certificates share more than   *)
(*        a third of the key set.                                          *)
(* Two conflicting transactions T1, T2 spend the same output. Proposers    *)
(* (honest or not) ask nodes to co-sign snapshots carrying one of them. An *)
(* honest node signs for T only if its reservation of the output is free   *)
(* or already T's (Validate + LockInputs, not fork); a Byzantine node signs *)
(* anything. A transaction is final once Thr nodes of the key set signed.  *)
(* Honest nodes that learn a certificate apply it on the finalization path. *)
(*                                                                         *)
(* Safety: the two conflicting transactions are never both final.          *)
(* Checked for the real threshold formula (kernel/node.go:                 *)
(* ConsensusThreshold = base*2/3+1) and every tolerated number of faults   *)
(* f < |Keys|/3, and for the round-0 acceptance key set where the key set   *)
(* has one more member than the base the threshold is computed from        *)
(* (known finding C10-1): there the model shows the loss of safety.        *)
(***************************************************************************)
EXTENDS Naturals, FiniteSets

CONSTANTS
    N,          \* number of keys in the key set a certificate is checked against
    Base,       \* membership base the threshold is computed from (N, or N - 1 for the C10-1 shape)
    F           \* number of Byzantine key holders

Node == 1..N
Byz == 1..F
Honest == Node \ Byz
Tx == {"T1", "T2"}
Other(t) == IF t = "T1" THEN "T2" ELSE "T1"

Thr == IF Base < 7 THEN 1000 ELSE (Base * 2) \div 3 + 1

VARIABLES
    lock,      \* [Honest -> Tx \cup {"None"}] reservation of the contested output
    cert,      \* [Tx -> SUBSET Node] signers collected so far
    final,     \* [Tx -> BOOLEAN] a certificate of Thr signers exists
    applied    \* [Honest -> SUBSET Tx] certified transactions this node has finalized locally
vars == <<lock, cert, final, applied>>

Init ==
    /\ lock = [n \in Honest |-> "None"]
    /\ cert = [t \in Tx |-> {}]
    /\ final = [t \in Tx |-> FALSE]
    /\ applied = [n \in Honest |-> {}]

\* signer-side validation: not fork, the output must be free or already reserved for t
HonestSign(n, t) ==
    /\ n \in Honest /\ n \notin cert[t]
    /\ lock[n] \in {"None", t}
    /\ Other(t) \notin applied[n]
    /\ lock' = [lock EXCEPT ![n] = t]
    /\ cert' = [cert EXCEPT ![t] = @ \cup {n}]
    /\ UNCHANGED <<final, applied>>

ByzSign(b, t) ==
    /\ b \in Byz /\ b \notin cert[t]
    /\ cert' = [cert EXCEPT ![t] = @ \cup {b}]
    /\ UNCHANGED <<lock, final, applied>>

Certify(t) ==
    /\ ~final[t] /\ Cardinality(cert[t]) >= Thr
    /\ final' = [final EXCEPT ![t] = TRUE]
    /\ UNCHANGED <<lock, cert, applied>>

\* finalization path on an honest node: takes the reservation over unless its holder is finalized there
Apply(n, t) ==
    /\ n \in Honest /\ final[t] /\ t \notin applied[n]
    /\ Other(t) \notin applied[n]
    /\ lock' = [lock EXCEPT ![n] = t]
    /\ applied' = [applied EXCEPT ![n] = @ \cup {t}]
    /\ UNCHANGED <<cert, final>>

Next == \/ \E n \in Honest, t \in Tx : HonestSign(n, t) \/ Apply(n, t)
        \/ \E b \in Byz, t \in Tx : ByzSign(b, t)
        \/ \E t \in Tx : Certify(t)
Spec == Init /\ [][Next]_vars

NoDoubleSpend == ~(final["T1"] /\ final["T2"])
\* what the honest nodes' ledgers can show: no node applied both
NoLocalDoubleSpend == \A n \in Honest : Cardinality(applied[n]) <= 1
\* the arithmetic behind it (C10): two certificates share more than the faulty keys
QuorumArithmetic == Thr > N \/ 2 * Thr - N > F
=============================================================================
