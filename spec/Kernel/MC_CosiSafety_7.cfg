SPECIFICATION Spec
CONSTANTS
  N = 7
  Base = 7
  F = 2
INVARIANT NoDoubleSpend
INVARIANT NoLocalDoubleSpend
INVARIANT QuorumArithmetic
CHECK_DEADLOCK FALSE
