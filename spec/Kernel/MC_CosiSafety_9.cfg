SPECIFICATION Spec
CONSTANTS
  N = 9
  Base = 9
  F = 2
INVARIANT NoDoubleSpend
INVARIANT NoLocalDoubleSpend
INVARIANT QuorumArithmetic
CHECK_DEADLOCK FALSE
