SPECIFICATION Spec
CONSTANTS
  N = 10
  Base = 10
  F = 3
INVARIANT NoDoubleSpend
INVARIANT NoLocalDoubleSpend
INVARIANT QuorumArithmetic
CHECK_DEADLOCK FALSE
