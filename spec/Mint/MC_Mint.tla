------------------------------- MODULE MC_Mint -------------------------------
(***************************************************************************)
(* E3 for C25, schedule: a reduced-scale decay schedule (small pools, years*)
(* of 1..7 batches, several decay ratios) is run batch by batch; TLC checks *)
(* for every reachable state that                                          *)
(*   - the batch amount never increases,                                   *)
(*   - the cumulative amount never exceeds the pool,                       *)
(*   - the closed form SizeOf / Multi used by the trace specification      *)
(*     agrees with the step-by-step schedule and with native integers,     *)
(*   - a multi-batch amount is the sum of its batches.                     *)
(***************************************************************************)
EXTENDS Mint, TLC

CONSTANTS Pools, MaxB

PoolsQuick == (1 .. 12) \cup {365, 99999}
PoolsThorough == (1 .. 90) \cup {3650, 36500, 99999, 500000}
PoolsW4 == {1, 9999, 10000, 36500, 3650000, 99999999, 200000000}

Ratios == { << 1, 10 >>, << 1, 2 >>, << 1, 3 >>, << 9, 10 >>, << 1, 1 >> }
YearLens == { 1, 2, 3, 7 }

VARIABLES p, np, b, pool, npool, size, cum, hist
vars == << p, np, b, pool, npool, size, cum, hist >>
\* np, npool: the same schedule with native integers

NSize(pl) == ((pl * np.num) \div np.den) \div np.days

Init ==
    /\ np \in [pool0 : Pools, days : YearLens, r : Ratios]
    /\ p = [pool0 |-> FromInt(np.pool0), days |-> np.days, num |-> np.r[1], den |-> np.r[2]]
    /\ b = 0 /\ pool = p.pool0 /\ npool = np.pool0
    /\ size = DaySize(p, pool) /\ cum = Zero /\ hist = << Zero >>

NP == [pool0 |-> np.pool0, days |-> np.days, num |-> np.r[1], den |-> np.r[2]]

Next ==
    /\ b < MaxB
    /\ b' = b + 1
    /\ LET turn == (b + 1) % p.days = 0 IN
        /\ pool'  = IF turn THEN NextPool(p, pool) ELSE pool
        /\ npool' = IF turn THEN npool - ((npool * p.num) \div p.den) ELSE npool
    /\ size' = DaySize(p, pool')
    /\ cum'  = Add(cum, size')
    /\ hist' = Append(hist, cum')
    /\ UNCHANGED << p, np >>

Spec == Init /\ [][Next]_vars

Inv ==
    /\ IsBigNat(size) /\ IsBigNat(cum) /\ IsBigNat(pool)
    /\ ToInt(pool) = npool
    /\ ToInt(size) = ((npool * p.num) \div p.den) \div p.days
    /\ size = SizeOf(p, b)                                     \* closed form = incremental schedule
    /\ Le(cum, p.pool0)                                        \* cumulative never exceeds the pool
    /\ \A old \in {0, b - 1, b \div 2, b - p.days} \cap (0 .. (b - 1)) :      \* multi(old, b) = sum of its batches
              Multi(p, old, b) = Sub(cum, hist[old + 1])
    /\ b <= 8 => \A old \in 0 .. (b - 1) :
              Multi(p, old, b) = Sum([i \in 1 .. (b - old) |-> SizeOf(p, old + i)])

NonIncreasing == [][Le(size', size)]_vars

\* non-vacuity: the amount really decreases somewhere, and reaches zero somewhere
WitnessDecrease == ~(b > 0 /\ Lt(size, SizeOf(p, 0)) /\ ~IsZero(size))
WitnessZero     == ~(b > 0 /\ IsZero(size) /\ ~IsZero(SizeOf(p, 0)))
=============================================================================
