----------------------------- MODULE Trace_Mint -----------------------------
(***************************************************************************)
(* Trace specification for C25 (engine E2).  Events recorded from the real *)
(* functions of kernel/mint.go:                                            *)
(*  {"ev":"init","pool":L,"days":365}            constants of the code     *)
(*  {"ev":"batch","b":b,"res":r,"v":L}           mintBatchSize(b), b=1,2,..*)
(*  {"ev":"multi","old":o,"b":b,"res":r,"v":L,"sizes":[L..]}               *)
(*        mintMultiBatchesSize(o,b) and mintBatchSize(o+1..b)              *)
(*  {"ev":"dist","n":n,"thr":t,"leads":[L],"signs":[L],"base":L,"res":r,   *)
(*   "outs":[L]}    distributeKernelMintByWorks over works read from a     *)
(*        real store (written by the real WriteRoundWork)                  *)
(*  {"ev":"build","n":n,"thr":t,"batch":b,"leads","signs","res":r,         *)
(*   "amount":L,"outs":[L]}   buildUniversalMintTransaction outputs         *)
(* (L = little-endian base-10^4 limbs of an amount in 10^-8 units.)        *)
(*                                                                         *)
(* Mode "full": every result equals the specification's (schedule by the   *)
(*   decay rule, distribution by the work rule).                           *)
(* Mode "monitor": only what C25 states - batch amounts never increase,    *)
(*   cumulative <= pool, multi = sum of its batches, outputs sum to the    *)
(*   amount, kernel total <= 5*(A div 10), custodian = 4*(A div 10), all   *)
(*   outputs positive, more work => not less reward.                       *)
(***************************************************************************)
EXTENDS TraceLib, Mint

CONSTANT Mode

VARIABLES l, st
vars == << l, st >>

P == ProdParams
Full == Mode = "full"

St0(lim, days) == [b |-> 0, pool |-> P.pool0, cum |-> Zero, prev |-> Zero, lim |-> lim, days |-> days]

Init == l = 1 /\ st = St0(P.pool0, P.days)

Ev == Trace[l]
IsEvent(name) == l <= TraceLen /\ Ev.ev = name /\ l' = l + 1

InitEv ==
    /\ IsEvent("init")
    /\ Full => (Ev.pool = P.pool0 /\ Ev.days = P.days)
    /\ st' = St0(Ev.pool, Ev.days)

Batch ==
    /\ IsEvent("batch")
    /\ Ev.b = st.b + 1
    /\ Ev.res = "ok"
    /\ LET pool2 == IF Ev.b % P.days = 0 THEN NextPool(P, st.pool) ELSE st.pool
           cum2  == Add(st.cum, Ev.v)
       IN  /\ Full => Ev.v = DaySize(P, pool2)
           /\ st.b >= 1 => Le(Ev.v, st.prev)                 \* never increases
           /\ Le(cum2, st.lim)                               \* cumulative never exceeds the pool
           /\ st' = [st EXCEPT !.b = Ev.b, !.pool = pool2, !.cum = cum2, !.prev = Ev.v]

Multi_ ==
    /\ IsEvent("multi")
    /\ IF Ev.old < Ev.b
       THEN /\ Ev.res = "ok"
            /\ Ev.v = Sum(Ev.sizes)                          \* a multi-batch mint is the sum of its batches
            /\ Len(Ev.sizes) = Ev.b - Ev.old
            /\ Full => Ev.v = Multi(P, Ev.old, Ev.b)
       ELSE Full => Ev.res = "panic"
    /\ UNCHANGED st

DistOK(e) ==
    LET ws == [i \in 1 .. e.n |-> WorkOf(e.leads[i], e.signs[i])] IN
    /\ Len(e.leads) = e.n /\ Len(e.signs) = e.n
    /\ Full => (e.res = "ok") = DistOk(ws, e.thr)
    /\ Full => e.res # "panic"
    /\ e.res = "ok" =>
          /\ Len(e.outs) = e.n
          /\ Le(Sum(e.outs), e.base)
          /\ WorkMonotone(e.outs, e.leads, e.signs)
          /\ Full => DistIs(e.outs, ws, e.base)

BuildOK(e) ==
    LET ws == [i \in 1 .. e.n |-> WorkOf(e.leads[i], e.signs[i])]
        kouts == SubSeq(e.outs, 1, e.n)
    IN
    /\ Full => (e.res = "ok") = DistOk(ws, e.thr)
    /\ Full => e.res # "panic"
    /\ e.res = "ok" =>
          /\ MintOutputsOK(e.outs, e.n, e.amount)
          /\ WorkMonotone(kouts, e.leads, e.signs)
          /\ Full => /\ e.amount = Multi(P, 1706, e.batch)
                     /\ DistIs(kouts, ws, KernelBase(e.amount))

Dist  == IsEvent("dist")  /\ DistOK(Ev)  /\ UNCHANGED st
Build == IsEvent("build") /\ BuildOK(Ev) /\ UNCHANGED st

Next == InitEv \/ Batch \/ Multi_ \/ Dist \/ Build
Spec == Init /\ [][Next]_vars

HW == HighWaterOf(l)
Accepted == TraceAcceptedAt
=============================================================================
