SPECIFICATION Spec
CONSTANTS
  W = 4
  Mode = "full"
CONSTRAINT HW
POSTCONDITION Accepted
CHECK_DEADLOCK FALSE
