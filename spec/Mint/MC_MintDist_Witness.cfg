SPECIFICATION Spec
CONSTANTS
  W = 4
  N = 4
  Leads = {0, 1, 9, 100}
  Signs = {0, 50}
  Amounts_ = {1000000}
INVARIANT Witness
CHECK_DEADLOCK FALSE
