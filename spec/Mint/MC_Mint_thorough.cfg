SPECIFICATION Spec
CONSTANTS
  W = 1
  Pools <- PoolsThorough
  MaxB = 30
INVARIANT Inv
PROPERTY NonIncreasing
CHECK_DEADLOCK FALSE
