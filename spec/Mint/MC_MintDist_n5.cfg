SPECIFICATION Spec
CONSTANTS
  W = 4
  N = 5
  Leads = {0, 1, 100}
  Signs = {0, 50}
  Amounts_ = {150, 1000000}
INVARIANT Inv
CHECK_DEADLOCK FALSE
