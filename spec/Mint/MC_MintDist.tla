----------------------------- MODULE MC_MintDist -----------------------------
(***************************************************************************)
(* E3 for C25, distribution: every work vector of N nodes over a small     *)
(* domain of (lead, sign) counts (zeros, ties, 7x outliers, huge outliers) *)
(* and several bases is distributed by the specification's rule (at reduced *)
(* scale, quotients natively) and TLC checks the design-level theorems:             *)
(*   - the shares sum to at most the base (kernel total <= 5*(A div 10)),  *)
(*   - more work (in both counts, or in combined work) => not less reward, *)
(*   - every share is positive once the base is at least 15*N units,       *)
(*   - the mint outputs (kernel shares, custodian 4*(A div 10), light =    *)
(*     remainder) sum exactly to the amount and are all positive.          *)
(***************************************************************************)
EXTENDS Mint, TLC, FiniteSets

CONSTANTS N, Leads, Signs, Amounts_

Thr == (N * 2) \div 3 + 1

VARIABLES lead, sign, amount, ws, outs
vars == << lead, sign, amount, ws, outs >>

\* reduced scale: one unit of work is 10 (instead of 10^8) so that the quotients can be formed with
\* TLC's native integers; the relation DistIs (used on recorded executions) is checked against them
SmallUnit == FromInt(10)
WsOf(l, s) == [i \in 1 .. N |-> WorkOfU(FromInt(l[i]), FromInt(s[i]), SmallUnit)]
OutsOf(w, a) ==
    LET adj == Adjusted(w)
        tot == ToInt(Sum(adj))
        kb  == ToInt(KernelBase(FromInt(a)))
    IN  [i \in 1 .. N |-> FromInt((ToInt(adj[i]) * kb) \div tot)]

Init == lead = << >> /\ sign = << >> /\ amount = 0 /\ ws = << >> /\ outs = << >>
Next == /\ Len(lead) < N
        /\ \E x \in Leads, y \in Signs : lead' = Append(lead, x) /\ sign' = Append(sign, y)
        /\ IF Len(lead) = N - 1
           THEN /\ amount' \in Amounts_
                /\ ws' = WsOf(lead', sign')
                /\ outs' = IF DistOk(ws', Thr) THEN OutsOf(ws', amount') ELSE << >>
           ELSE amount' = 0 /\ ws' = << >> /\ outs' = << >>
Spec == Init /\ [][Next]_vars

A  == FromInt(amount)
KBase == KernelBase(A)
Leads_ == [i \in 1 .. N |-> FromInt(lead[i])]
Signs_ == [i \in 1 .. N |-> FromInt(sign[i])]

MintOuts == LET c == CustodianShare(A) IN outs \o << c, Sub(A, Add(Sum(outs), c)) >>

Inv ==
    (Len(lead) = N /\ outs # << >>) =>
        /\ DistIs(outs, ws, KBase)
        /\ Le(Sum(outs), KBase)
        /\ WorkMonotone(outs, Leads_, Signs_)
        /\ \A i, j \in 1 .. N : Le(ws[j], ws[i]) => Le(outs[j], outs[i])
        /\ \A i, j \in 1 .. N : Dominates(Leads_, Signs_, i, j) => Le(ws[j], ws[i])
        /\ (amount >= 30 * N /\ ~Lt(Average(ws), FromInt(105))
                => AllPositive(outs) /\ MintOutputsOK(MintOuts, N, A))

\* non-vacuity: some vector with a zero-work node and a 7x outlier is distributable
Witness == ~(Len(lead) = N /\ outs # << >> /\ (\E i \in 1 .. N : IsZero(ws[i]))
             /\ (\E i \in 1 .. N : Le(MulSmall(Average(ws), 7), ws[i])))
\* and some vector is refused
WitnessRefused == ~(Len(lead) = N /\ outs = << >> /\ lead # [i \in 1 .. N |-> 0])
=============================================================================
