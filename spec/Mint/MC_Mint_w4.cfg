SPECIFICATION Spec
CONSTANTS
  W = 4
  Pools <- PoolsW4
  MaxB = 20
INVARIANT Inv
PROPERTY NonIncreasing
CHECK_DEADLOCK FALSE
