------------------------------- MODULE BigNat -------------------------------
(***************************************************************************)
(* Natural numbers of arbitrary size for TLC (whose integers are 32-bit):  *)
(* a number is a little-endian sequence of limbs in 0..Base-1 with         *)
(* Base = 10^W, normalised (no most-significant zero limb; zero is <<>>).  *)
(*                                                                         *)
(* W is a constant so that the very same operators can be checked          *)
(* exhaustively against TLC's native integers with W = 1 (every carry and  *)
(* borrow path is taken by small operands) and used with W = 4 as the      *)
(* arithmetic oracle of the trace specifications (Amounts, Mint).          *)
(*                                                                         *)
(* Bounds that keep every intermediate below 2^31:                         *)
(*   MulSmall(a, k), DivSmall(a, k):  0 <= k <= 200000  (with W = 4)       *)
(* DivMod is schoolbook long division (used by the design-level models;    *)
(* trace specifications verify recorded quotients with IsQuotient).        *)
(* Recursive operators: run TLC with -Xss512m for long operands.           *)
(***************************************************************************)
EXTENDS Integers, Sequences

CONSTANT W                      \* decimal digits per limb (4 in production)

Base == 10 ^ W

Zero == << >>

Limb(a, i) == IF i <= Len(a) THEN a[i] ELSE 0

IsBigNat(a) ==
    /\ \A i \in DOMAIN a : a[i] \in 0 .. (Base - 1)
    /\ Len(a) > 0 => a[Len(a)] # 0

RECURSIVE Norm(_)
Norm(a) == IF Len(a) = 0 \/ a[Len(a)] # 0 THEN a ELSE Norm(SubSeq(a, 1, Len(a) - 1))

IsZero(a) == Len(a) = 0

MaxI(x, y) == IF x >= y THEN x ELSE y

(* ------------------------------ comparison ------------------------------ *)
RECURSIVE CmpFrom(_, _, _)
CmpFrom(a, b, i) ==             \* equal length, compare limbs i, i-1, ..., 1
    IF i = 0 THEN 0
    ELSE IF a[i] < b[i] THEN -1
    ELSE IF a[i] > b[i] THEN 1
    ELSE CmpFrom(a, b, i - 1)

Cmp(a, b) ==
    IF Len(a) < Len(b) THEN -1
    ELSE IF Len(a) > Len(b) THEN 1
    ELSE CmpFrom(a, b, Len(a))

Lt(a, b) == Cmp(a, b) = -1
Le(a, b) == Cmp(a, b) # 1
Eq(a, b) == a = b

(* ------------------------------- addition ------------------------------- *)
RECURSIVE AddFrom(_, _, _, _, _)
AddFrom(a, b, i, n, c) ==
    IF i > n THEN (IF c = 0 THEN << >> ELSE << c >>)
    ELSE LET s == Limb(a, i) + Limb(b, i) + c
         IN  << s % Base >> \o AddFrom(a, b, i + 1, n, s \div Base)

Add(a, b) == AddFrom(a, b, 1, MaxI(Len(a), Len(b)), 0)

(* ------------------------ subtraction (needs a >= b) -------------------- *)
RECURSIVE SubFrom(_, _, _, _)
SubFrom(a, b, i, br) ==
    IF i > Len(a) THEN << >>
    ELSE LET s == a[i] - Limb(b, i) - br
         IN  IF s < 0 THEN << s + Base >> \o SubFrom(a, b, i + 1, 1)
                      ELSE << s >> \o SubFrom(a, b, i + 1, 0)

Sub(a, b) == Norm(SubFrom(a, b, 1, 0))

(* --------------------- multiplication by a small k ---------------------- *)
RECURSIVE MulSmallFrom(_, _, _, _)
MulSmallFrom(a, k, i, c) ==
    IF i > Len(a) THEN (IF c = 0 THEN << >>
                        ELSE << c % Base >> \o MulSmallFrom(a, k, i, c \div Base))
    ELSE LET s == a[i] * k + c
         IN  << s % Base >> \o MulSmallFrom(a, k, i + 1, s \div Base)

MulSmall(a, k) == IF k = 0 THEN Zero ELSE MulSmallFrom(a, k, 1, 0)

(* ------------------- division by a small k > 0: [q, r] ------------------ *)
RECURSIVE DivSmallAcc(_, _, _, _, _)
DivSmallAcc(a, k, i, r, q) ==   \* from the most significant limb down; q accumulates the quotient limbs (LE)
    IF i = 0 THEN [q |-> Norm(q), r |-> r]
    ELSE DivSmallAcc(a, k, i - 1, (r * Base + a[i]) % k, << (r * Base + a[i]) \div k >> \o q)

DivSmall(a, k) == DivSmallAcc(a, k, Len(a), 0, << >>)

(* ---------------------------- multiplication ---------------------------- *)
ShiftLimb(a) == IF Len(a) = 0 THEN a ELSE << 0 >> \o a      \* a * Base

RECURSIVE ShiftLimbs(_, _)
ShiftLimbs(a, n) == IF n = 0 THEN a ELSE ShiftLimbs(ShiftLimb(a), n - 1)

RECURSIVE MulFrom(_, _, _)
MulFrom(a, b, i) ==             \* a * (b[i] + Base * b[i+1] + ...)
    IF i > Len(b) THEN Zero
    ELSE Add(MulSmall(a, b[i]), ShiftLimb(MulFrom(a, b, i + 1)))

Mul(a, b) == IF Len(a) = 0 \/ Len(b) = 0 THEN Zero
             ELSE IF Len(a) >= Len(b) THEN MulFrom(a, b, 1) ELSE MulFrom(b, a, 1)

(* ---------------- long division (y > 0): [q, r], schoolbook ---------------- *)
\* largest d in lo..hi with d * y <= rem   (d * y <= rem holds for d = lo)
RECURSIVE QuotDigit(_, _, _, _)
QuotDigit(rem, y, lo, hi) ==
    IF lo = hi THEN lo
    ELSE LET mid == (lo + hi + 1) \div 2
         IN  IF Le(MulSmall(y, mid), rem) THEN QuotDigit(rem, y, mid, hi)
                                          ELSE QuotDigit(rem, y, lo, mid - 1)

\* one step of schoolbook division: cur = rem * Base + next limb, d = its quotient digit
DivStepRem(cur, y, d) == Sub(cur, MulSmall(y, d))
RECURSIVE DivModAcc(_, _, _, _, _)
DivModStep(x, y, i, cur, d, q) == DivModAcc(x, y, i - 1, DivStepRem(cur, y, d), << d >> \o q)
DivModCur(x, y, i, cur, q) == DivModStep(x, y, i, cur, QuotDigit(cur, y, 0, Base - 1), q)
DivModAcc(x, y, i, rem, q) ==   \* limbs i, i-1, ..., 1 of x; q accumulates the quotient limbs (LE)
    IF i = 0 THEN [q |-> Norm(q), r |-> rem]
    ELSE DivModCur(x, y, i, Norm(<< x[i] >> \o rem), q)

DivMod(x, y) == DivModAcc(x, y, Len(x), Zero, << >>)

(* q = floor(x / y) stated relationally (y > 0): no long division needed.  *)
IsQuotient(q, x, y) ==
    LET p == Mul(q, y) IN Le(p, x) /\ Lt(x, Add(p, y))

(* ------------------------- native integers <-> limbs -------------------- *)
RECURSIVE FromInt(_)
FromInt(n) == IF n = 0 THEN << >> ELSE << n % Base >> \o FromInt(n \div Base)

RECURSIVE ToIntFrom(_, _)
ToIntFrom(a, i) == IF i > Len(a) THEN 0 ELSE a[i] + Base * ToIntFrom(a, i + 1)
ToInt(a) == ToIntFrom(a, 1)                                  \* only for values < 2^31

(* ------------------ decimal digit strings (most significant first) ------ *)
RECURSIVE Pow10(_)
Pow10(n) == IF n = 0 THEN 1 ELSE 10 * Pow10(n - 1)

RECURSIVE DigitsVal(_, _, _)
DigitsVal(ds, lo, hi) ==        \* native value of ds[lo..hi], at most W digits
    IF lo > hi THEN 0 ELSE DigitsVal(ds, lo, hi - 1) * 10 + ds[hi]

RECURSIVE FromDigitsTo(_, _)
FromDigitsTo(ds, hi) ==         \* limbs of the number written ds[1..hi]
    IF hi <= 0 THEN << >>
    ELSE << DigitsVal(ds, MaxI(1, hi - W + 1), hi) >> \o FromDigitsTo(ds, hi - W)

FromDigits(ds) == Norm(FromDigitsTo(ds, Len(ds)))

RECURSIVE LimbDigits(_, _)
LimbDigits(v, n) ==             \* exactly n decimal digits of v, most significant first
    IF n = 0 THEN << >> ELSE Append(LimbDigits(v \div 10, n - 1), v % 10)

RECURSIVE StripZeros(_)
StripZeros(ds) == IF Len(ds) > 0 /\ ds[1] = 0 THEN StripZeros(Tail(ds)) ELSE ds

RECURSIVE ToDigitsFrom(_, _)
ToDigitsFrom(a, i) ==           \* limbs i, i-1, ..., 1, each as W digits
    IF i = 0 THEN << >> ELSE LimbDigits(a[i], W) \o ToDigitsFrom(a, i - 1)

ToDigits(a) == StripZeros(ToDigitsFrom(a, Len(a)))           \* << >> for zero

=============================================================================
