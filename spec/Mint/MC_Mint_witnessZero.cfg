SPECIFICATION Spec
CONSTANTS
  W = 1
  Pools <- PoolsQuick
  MaxB = 16
INVARIANT WitnessZero
CHECK_DEADLOCK FALSE
