SPECIFICATION Spec
CONSTANTS
  W = 4
  Mode = "monitor"
CONSTRAINT HW
POSTCONDITION Accepted
CHECK_DEADLOCK FALSE
