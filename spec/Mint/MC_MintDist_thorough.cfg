SPECIFICATION Spec
CONSTANTS
  W = 4
  N = 4
  Leads = {0, 1, 9, 100}
  Signs = {0, 2, 50}
  Amounts_ = {119, 120, 1000000}
INVARIANT Inv
CHECK_DEADLOCK FALSE
