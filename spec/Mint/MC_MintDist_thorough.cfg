SPECIFICATION Spec
CONSTANTS
  W = 4
  N = 5
  Leads = {0, 1, 8, 100}
  Signs = {0, 3, 60}
  Amounts_ = {149, 150, 1000000}
INVARIANT Inv
CHECK_DEADLOCK FALSE
