SPECIFICATION Spec
CONSTANTS
  W = 1
  Pools <- PoolsQuick
  MaxB = 16
INVARIANT Inv
PROPERTY NonIncreasing
CHECK_DEADLOCK FALSE
