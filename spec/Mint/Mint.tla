-------------------------------- MODULE Mint --------------------------------
(***************************************************************************)
(* Mint schedule and work-based distribution of Mixin Kernel               *)
(* (kernel/mint.go) over BigNat; amounts are integers of 10^-8 units.      *)
(*                                                                         *)
(* Schedule (mintBatchSize / mintMultiBatchesSize). Parameters             *)
(*    p = [pool0, days, num, den]:                                         *)
(*    the pool decays once per year of p.days batches by floor(pool*num/den)*)
(*    and every batch of a year mints floor(floor(pool*num/den) / days).   *)
(*    Production: pool0 = 500000.00000000, days = 365, num/den = 10/100.   *)
(*                                                                         *)
(* Distribution (distributeKernelMintByWorks, buildUniversalMintTransaction)*)
(*    work_i = floor(lead_i * 1.2) + sign_i  (in whole units of 10^8)      *)
(*    a = floor((sum - min - max) / (valid - 2)) over the positive works   *)
(*    x >= 7a -> 2a ; a <= x < 7a -> floor(x/6) + floor(5a/6) ;            *)
(*    x <= floor(a/7) -> floor(a/7) ; otherwise x                          *)
(*    out_i = floor(adj_i * base / sum adj)                                *)
(*    mint amount A: kernel base = 5*(A div 10), custodian = 4*(A div 10), *)
(*    light = A - kernel outputs - custodian.                              *)
(***************************************************************************)
EXTENDS BigNat

(* ------------------------------- schedule ------------------------------- *)
ProdParams == [pool0 |-> FromDigits(<< 5,0,0,0,0,0, 0,0,0,0,0,0,0,0 >>), days |-> 365, num |-> 1, den |-> 10]

YearMint(p, pool) == DivSmall(MulSmall(pool, p.num), p.den).q
NextPool(p, pool) == Sub(pool, YearMint(p, pool))
DaySize(p, pool)  == DivSmall(YearMint(p, pool), p.days).q

RECURSIVE PoolAt(_, _)
PoolAt(p, y) == IF y = 0 THEN p.pool0 ELSE NextPool(p, PoolAt(p, y - 1))     \* pool during year y

SizeOf(p, b) == DaySize(p, PoolAt(p, b \div p.days))                          \* mintBatchSize(b)

\* sum of SizeOf over old+1 .. b by whole years (closed form of mintMultiBatchesSize)
MinI(x, y) == IF x <= y THEN x ELSE y
RECURSIVE MultiFrom(_, _, _, _, _)
MultiFrom(p, lo, hi, y, pool) ==      \* batches lo..hi, lo lies in year y whose pool is given
    IF lo > hi THEN Zero
    ELSE LET last == MinI(hi, (y + 1) * p.days - 1)
         IN  Add(MulSmall(DaySize(p, pool), last - lo + 1),
                 MultiFrom(p, last + 1, hi, y + 1, NextPool(p, pool)))
Multi(p, old, b) == MultiFrom(p, old + 1, b, (old + 1) \div p.days, PoolAt(p, (old + 1) \div p.days))

RECURSIVE SumSeq(_, _)
SumSeq(s, i) == IF i > Len(s) THEN Zero ELSE Add(s[i], SumSeq(s, i + 1))
Sum(s) == SumSeq(s, 1)

(* ----------------------------- distribution ----------------------------- *)
Unit == FromDigits(<< 1, 0,0,0,0,0,0,0,0 >>)

\* combined work of a node from its lead and sign counts (BigNat counts)
WorkOfU(lead, sign, unit) == Add(DivSmall(MulSmall(Mul(lead, unit), 120), 100).q, Mul(sign, unit))
WorkOf(lead, sign) == WorkOfU(lead, sign, Unit)

Positive(ws) == { i \in DOMAIN ws : ~IsZero(ws[i]) }

RECURSIVE MinOver(_, _, _)
MinOver(ws, S, cur) ==
    IF S = {} THEN cur
    ELSE LET i == CHOOSE j \in S : TRUE
         IN  MinOver(ws, S \ {i}, IF IsZero(cur) \/ Lt(ws[i], cur) THEN ws[i] ELSE cur)
RECURSIVE MaxOver(_, _, _)
MaxOver(ws, S, cur) ==
    IF S = {} THEN cur
    ELSE LET i == CHOOSE j \in S : TRUE
         IN  MaxOver(ws, S \ {i}, IF Lt(cur, ws[i]) THEN ws[i] ELSE cur)

Card(S) == LET RECURSIVE C(_)
               C(T) == IF T = {} THEN 0 ELSE 1 + C(T \ {CHOOSE x \in T : TRUE})
           IN C(S)

\* average work without the extremes; Zero when it cannot be formed
Average(ws) ==
    LET P == Positive(ws)  valid == Card(P) IN
    IF valid < 3 THEN Zero
    ELSE DivSmall(Sub(Sub(Sum(ws), MinOver(ws, P, Zero)), MaxOver(ws, P, Zero)), valid - 2).q

Adjust(x, a) ==
    IF Le(MulSmall(a, 7), x) THEN MulSmall(a, 2)
    ELSE IF Le(a, x) THEN Add(DivSmall(x, 6).q, DivSmall(MulSmall(a, 5), 6).q)
    ELSE IF Le(x, DivSmall(a, 7).q) THEN DivSmall(a, 7).q
    ELSE x

\* the distribution is possible when enough nodes worked and the average is positive
DistOk(ws, thr) == Card(Positive(ws)) >= thr /\ ~IsZero(Average(ws))

Adjusted(ws) == LET a == Average(ws) IN [i \in DOMAIN ws |-> Adjust(ws[i], a)]

\* outs is the distribution of base over works ws:  outs[i] = floor(adj[i] * base / sum adj)
DistIs(outs, ws, base) ==
    LET adj == Adjusted(ws)  tot == Sum(adj) IN
    /\ Len(outs) = Len(ws)
    /\ \A i \in DOMAIN ws : IsQuotient(outs[i], Mul(adj[i], base), tot)

KernelBase(amount)     == MulSmall(DivSmall(amount, 10).q, 5)
CustodianShare(amount) == MulSmall(DivSmall(amount, 10).q, 4)

(* ------------------- what C25 states about a distribution --------------- *)
AllPositive(outs) == \A i \in DOMAIN outs : ~IsZero(outs[i])

\* node i did at least as much as node j in both lead and sign counts
Dominates(leads, signs, i, j) == Le(leads[j], leads[i]) /\ Le(signs[j], signs[i])
WorkMonotone(outs, leads, signs) ==
    \A i, j \in DOMAIN leads : Dominates(leads, signs, i, j) => Le(outs[j], outs[i])

\* outputs of a mint transaction: n kernel outputs, the custodian output, the light output
MintOutputsOK(outs, n, amount) ==
    /\ Len(outs) = n + 2
    /\ Sum(outs) = amount
    /\ Le(Sum(SubSeq(outs, 1, n)), KernelBase(amount))
    /\ outs[n + 1] = CustodianShare(amount)
    /\ AllPositive(outs)
=============================================================================
