SPECIFICATION Spec
CONSTANTS
  W = 1
  Pools <- PoolsQuick
  MaxB = 16
INVARIANT WitnessDecrease
CHECK_DEADLOCK FALSE
