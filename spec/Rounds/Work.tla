-------------------------------- MODULE Work --------------------------------
(***************************************************************************)
(* Work accounting of one chain (storage/badger_work.go WriteRoundWork /   *)
(* ListNodeWorks, driven by kernel/mint.go AggregateMintWork), as read     *)
(* from the code.  Property C26.                                            *)
(*                                                                         *)
(* Members are 1..NM, the chain (proposer of every snapshot of the chain)  *)
(* is member Proposer.  Days are 1..ND (real day = base day + d).          *)
(* A snapshot work record is [id, day, signers] (signers a set of members).*)
(* Durable state of the chain:                                             *)
(*   off, seen   the checkpoint: round offset and the snapshot ids that    *)
(*               were in the last submission of that round (absent         *)
(*               checkpoint = (0, {}))                                      *)
(*   lead[m][d]  proposal credits, sign[m][d] signing credits              *)
(***************************************************************************)
EXTENDS Integers, Sequences, FiniteSets

CONSTANTS NM, ND, Proposer

Members == 1..NM
Days == 1..ND

InitStore == [ off  |-> 0, seen |-> {},
               lead |-> [m \in Members |-> [d \in Days |-> 0]],
               sign |-> [m \in Members |-> [d \in Days |-> 0]] ]

IdsOf(q) == { q[i].id : i \in DOMAIN q }

\* WriteRoundWork(chain, round, q, credit), q the submitted slice.  One Badger transaction:
\* an abort leaves the store unchanged.  Result [res, st].
\* (P = the chain, i.e. the proposer of its snapshots; the counters lead/sign are shared by all chains)
WriteRoundWorkP(P, st, round, q, credit) ==
    IF st.off > round THEN [res |-> "ok", st |-> st]                    \* already accounted
    ELSE IF round > st.off + 1 THEN [res |-> "panic", st |-> st]        \* gap in the offsets
    ELSE IF round = st.off /\ ~(st.seen \subseteq IdsOf(q)) THEN [res |-> "panic", st |-> st]   \* shrinking set
    ELSE
      LET fresh == IF round = st.off THEN SelectSeq(q, LAMBDA s : s.id \notin st.seen) ELSE q
          ck    == [st EXCEPT !.off = round, !.seen = IdsOf(q)]
      IN
      IF fresh = <<>> THEN [res |-> "ok", st |-> ck]
      ELSE IF fresh[1].signers = {} \/ ~credit THEN [res |-> "ok", st |-> ck]
      ELSE IF \E i \in DOMAIN fresh : fresh[i].day # fresh[1].day THEN [res |-> "panic", st |-> st]
      ELSE IF \E i \in DOMAIN fresh : P \notin fresh[i].signers THEN [res |-> "panic", st |-> st]
      ELSE
        LET d == fresh[1].day
            cnt(m) == Cardinality({ i \in DOMAIN fresh : m \in fresh[i].signers })
        IN [res |-> "ok",
            st  |-> [ck EXCEPT !.lead[P][d] = @ + Len(fresh),
                               !.sign = [m \in Members |->
                                            IF m = P THEN ck.sign[m]
                                            ELSE [ck.sign[m] EXCEPT ![d] = @ + cnt(m)]]]]

WriteRoundWork(st, round, q, credit) == WriteRoundWorkP(Proposer, st, round, q, credit)

(***************************************************************************)
(* Property C26.  done = the snapshots that were part of a successful      *)
(* submission, each with the credit flag of its round ([id, day, signers,  *)
(* credit]).  Each of them counts exactly once, however often and in       *)
(* whatever growing sets it was (re)submitted.                              *)
(***************************************************************************)
LeadOf(done, m, d) ==
    IF m = Proposer THEN Cardinality({ s \in done : s.credit /\ s.day = d }) ELSE 0
SignOf(done, m, d) ==
    IF m = Proposer THEN 0
    ELSE Cardinality({ s \in done : s.credit /\ s.day = d /\ m \in s.signers })

\* lead / sign given as [member][day] tables (functions or sequences)
WorkInv(done, lead, sign) ==
    \A m \in Members, d \in Days : lead[m][d] = LeadOf(done, m, d) /\ sign[m][d] = SignOf(done, m, d)

(***************************************************************************)
(* Several chains.  Every chain has its own checkpoint; the counters are    *)
(* shared (a chain's proposer is a signer of other chains' snapshots).      *)
(* dones[k] = accounted snapshots of chain k (as above), prop[k] its        *)
(* proposer.  WriteRoundWork is one optimistic Badger transaction: it       *)
(* either commits as a whole or reports a conflict and changes nothing, so  *)
(* concurrent submissions of different chains commute and every accounted   *)
(* snapshot counts once whatever the interleaving and the retries.          *)
(***************************************************************************)
LeadOfAll(dones, prop, m, d) ==
    Cardinality(UNION { { <<k, s.id>> : s \in { y \in dones[k] : y.credit /\ y.day = d } } :
                          k \in { j \in DOMAIN dones : prop[j] = m } })
SignOfAll(dones, prop, m, d) ==
    Cardinality(UNION { { <<k, s.id>> : s \in { y \in dones[k] : y.credit /\ y.day = d /\ m \in y.signers } } :
                          k \in { j \in DOMAIN dones : prop[j] # m } })

WorkInvAll(dones, prop, lead, sign, members) ==
    \A m \in members, d \in Days :
        lead[m][d] = LeadOfAll(dones, prop, m, d) /\ sign[m][d] = SignOfAll(dones, prop, m, d)

\* ghost update on a successful submission
DoneAfter(done, q, credit) ==
    done \cup { [id |-> q[i].id, day |-> q[i].day, signers |-> q[i].signers, credit |-> credit] :
                  i \in { j \in DOMAIN q : q[j].id \notin { s.id : s \in done } } }
=============================================================================
