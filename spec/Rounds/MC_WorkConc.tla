----------------------------- MODULE MC_WorkConc -----------------------------
(* C26, engine E3, concurrent part: two chains run their monotone submission  *)
(* scripts concurrently against shared counters.  A submission is one         *)
(* optimistic transaction: Commit applies Work!WriteRoundWorkP atomically,    *)
(* Conflict makes it fail without effect (the caller retries, like            *)
(* kernel/mint.go writeRoundWork).  All interleavings, up to MaxConflicts     *)
(* conflicts per chain.  Members 1,2 are the chains, 3,4 further signers.     *)
EXTENDS Work, TLC

CONSTANTS MaxConflicts

Chains == {1, 2}
Prop == <<1, 2>>

Snap(id, day, sg) == [id |-> id, day |-> day, signers |-> sg]
\* chain -> sequence of [round, credit, q]
Script == <<
   << [round |-> 0, credit |-> TRUE,  q |-> <<Snap(1, 1, {1, 3})>>],
      [round |-> 0, credit |-> TRUE,  q |-> <<Snap(1, 1, {1, 3}), Snap(2, 1, {1, 2, 3, 4})>>],
      [round |-> 0, credit |-> TRUE,  q |-> <<Snap(1, 1, {1, 3}), Snap(2, 1, {1, 2, 3, 4})>>],
      [round |-> 1, credit |-> TRUE,  q |-> <<Snap(3, 2, {1, 2})>>] >>,
   << [round |-> 0, credit |-> FALSE, q |-> <<Snap(1, 1, {2, 3})>>],
      [round |-> 1, credit |-> TRUE,  q |-> <<Snap(2, 1, {2, 1, 4})>>],
      [round |-> 1, credit |-> TRUE,  q |-> <<Snap(2, 1, {2, 1, 4}), Snap(3, 1, {2, 3})>>] >> >>

VARIABLES pc, ck, lead, sign, dones, nconf
vars == <<pc, ck, lead, sign, dones, nconf>>

Init == /\ pc = [k \in Chains |-> 1]
        /\ ck = [k \in Chains |-> [off |-> 0, seen |-> {}]]
        /\ lead = InitStore.lead /\ sign = InitStore.sign
        /\ dones = [k \in Chains |-> {}]
        /\ nconf = [k \in Chains |-> 0]

Commit(k) ==
    /\ pc[k] <= Len(Script[k])
    /\ LET o == Script[k][pc[k]]
           r == WriteRoundWorkP(Prop[k], [off |-> ck[k].off, seen |-> ck[k].seen, lead |-> lead, sign |-> sign],
                                o.round, o.q, o.credit) IN
        /\ r.res = "ok"
        /\ ck' = [ck EXCEPT ![k] = [off |-> r.st.off, seen |-> r.st.seen]]
        /\ lead' = r.st.lead /\ sign' = r.st.sign
        /\ dones' = [dones EXCEPT ![k] = IF o.round >= ck[k].off THEN DoneAfter(@, o.q, o.credit) ELSE @]
    /\ pc' = [pc EXCEPT ![k] = @ + 1]
    /\ UNCHANGED nconf

Conflict(k) ==
    /\ pc[k] <= Len(Script[k]) /\ nconf[k] < MaxConflicts
    /\ nconf' = [nconf EXCEPT ![k] = @ + 1]
    /\ UNCHANGED <<pc, ck, lead, sign, dones>>

Next == \E k \in Chains : Commit(k) \/ Conflict(k)
Spec == Init /\ [][Next]_vars

Inv == WorkInvAll(dones, Prop, lead, sign, Members)
\* non-vacuity: both chains finished with credits on both days
ReachEnd == ~(\A k \in Chains : pc[k] > Len(Script[k]) /\ nconf[k] = MaxConflicts)
=============================================================================
