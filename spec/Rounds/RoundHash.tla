------------------------------ MODULE RoundHash ------------------------------
(***************************************************************************)
(* The hash of a final round (common.ComputeRoundHash, and its duplicate   *)
(* storage.computeRoundHash used by the startup graph validator).          *)
(*                                                                         *)
(* A snapshot is [h, ts]: h is the RANK of its 32-byte hash among the      *)
(* hashes in play (byte order = integer order), ts its timestamp (time     *)
(* abstraction of Rounds.tla: 4*u + e).  The cryptographic hash is an      *)
(* injective function H of the sequence it is fed: H(x) is modelled by x   *)
(* itself, two results are equal exactly when the tuples are equal.        *)
(***************************************************************************)
EXTENDS Integers, Sequences, FiniteSets

RoundGap == 24

Range(q) == { q[i] : i \in DOMAIN q }

\* the comparator of both implementations: timestamp, then hash bytes
Less(a, b) == a.ts < b.ts \/ (a.ts = b.ts /\ a.h < b.h)

\* the members of S in comparator order (members are pairwise comparable when hashes are distinct)
Sorted(S) ==
    LET pos == [a \in S |-> 1 + Cardinality({ b \in S : Less(b, a) })]
    IN  [i \in 1..Cardinality(S) |-> CHOOSE a \in S : pos[a] = i]

MinTs(S) == CHOOSE t \in { s.ts : s \in S } : \A s \in S : t <= s.ts
MaxTs(S) == CHOOSE t \in { s.ts : s \in S } : \A s \in S : t >= s.ts

Aborts(S) == MaxTs(S) >= MinTs(S) + RoundGap

\* the design: a function of the node, the number and the SET
RoundHash(node, n, S) == <<node, n, Sorted(S)>>
RoundStart(S) == MinTs(S)
RoundEnd(S) == MaxTs(S)

\* what the implementations do with the supplied slice q (any order): sort in place, chain-hash
RoundHashOfSeq(node, n, q) == <<node, n, Sorted(Range(q))>>

\* distinct hashes inside one round (C19 guarantees it for live rounds)
WellFormed(S) == \A a, b \in S : a # b => a.h # b.h
=============================================================================
