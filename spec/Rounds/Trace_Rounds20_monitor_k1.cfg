SPECIFICATION Spec
CONSTANTS
  Mode = "monitor"
  Known = {"C20-1"}
  NC = 7
CONSTRAINT HW
INVARIANT Inv
POSTCONDITION Accepted
CHECK_DEADLOCK FALSE
