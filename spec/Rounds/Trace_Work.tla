----------------------------- MODULE Trace_Work -----------------------------
(***************************************************************************)
(* Trace specification for C26 (engine E2).                                *)
(*                                                                         *)
(* Event lines recorded by harness/inpkg/storage/zz_verif_work:            *)
(*  {"ev":"Reset","obs":O}                      a fresh chain              *)
(*  {"ev":"Submit","round":r,"credit":b,"snaps":[{id,day,signers:[m..]}], *)
(*   "res":ok|err|panic,"obs":O}                one real WriteRoundWork    *)
(*  {"ev":"Restart","obs":O}                    store closed and reopened  *)
(*  O = {"off":o,"seen":[ids],"lead":[[per day] per member],              *)
(*       "sign":[[per day] per member]}  read back through ReadWorkOffset, *)
(*       the stored checkpoint and ListNodeWorks                           *)
(*                                                                         *)
(* Mode "full":    result and read-back state equal Work!WriteRoundWork.   *)
(* Mode "monitor": what C26 states: after every call the counters equal    *)
(*    one proposal credit per accounted snapshot of a credited round for   *)
(*    the proposer and one signing credit for every other signer, on the   *)
(*    snapshot's day - however often it was (re)submitted (WorkInv); a     *)
(*    restart changes nothing.  accounted = part of a successful           *)
(*    submission of a round not below the stored offset.                   *)
(***************************************************************************)
EXTENDS TraceLib, Work

CONSTANT Mode

VARIABLES l, S, done
vars == <<l, S, done>>

Ev == Trace[l]
IsEvent(name) == l <= TraceLen /\ Ev.ev = name /\ l' = l + 1

ObsStore(o) ==
    [ off  |-> o.off, seen |-> SeqToSet(o.seen),
      lead |-> [m \in Members |-> [d \in Days |-> o.lead[m][d]]],
      sign |-> [m \in Members |-> [d \in Days |-> o.sign[m][d]]] ]

Slice(e) == [i \in DOMAIN e.snaps |->
               [id |-> e.snaps[i].id, day |-> e.snaps[i].day, signers |-> SeqToSet(e.snaps[i].signers)]]

Init == l = 1 /\ S = InitStore /\ done = {}

Reset ==
    /\ IsEvent("Reset")
    /\ ObsStore(Ev.obs) = InitStore
    /\ S' = InitStore /\ done' = {}

Submit ==
    /\ IsEvent("Submit")
    /\ LET q   == Slice(Ev)
           obs == ObsStore(Ev.obs)
           r   == WriteRoundWork(S, Ev.round, q, Ev.credit) IN
        /\ done' = IF Ev.res = "ok" /\ Ev.round >= S.off THEN DoneAfter(done, q, Ev.credit) ELSE done
        /\ S' = obs
        /\ IF Mode = "full"
           THEN Ev.res = r.res /\ obs = r.st
           ELSE WorkInv(done', obs.lead, obs.sign)

Restart ==
    /\ IsEvent("Restart")
    /\ IF Mode = "full"
       THEN ObsStore(Ev.obs) = S
       ELSE ObsStore(Ev.obs).lead = S.lead /\ ObsStore(Ev.obs).sign = S.sign
    /\ S' = ObsStore(Ev.obs)
    /\ UNCHANGED done

(***************************************************************************)
(* Concurrent part.  One event per scenario:                                *)
(*  {"ev":"Conc","nm":M,"chains":[{"p":member,"subs":[{round,credit,snaps,  *)
(*    res,tries}..],"off":o,"seen":[ids]}..],"lead":[[..]..],"sign":[[..]..]}*)
(* Each chain (goroutine) ran its monotone script through the real          *)
(* WriteRoundWork, retrying on badger.ErrConflict like kernel/mint.go; the  *)
(* counters of all M members were read back when all had finished.          *)
(* Judged by Work!WorkInvAll: every snapshot of a successful submission of a *)
(* credited round counts exactly once, whatever the interleaving.           *)
(***************************************************************************)
\* TLC evaluates set constructors with dependent bounds through a UNION
ConcDoneOf(ch) ==
    UNION { { [id |-> ch.subs[i].snaps[j].id, day |-> ch.subs[i].snaps[j].day,
               signers |-> SeqToSet(ch.subs[i].snaps[j].signers), credit |-> ch.subs[i].credit] :
                 j \in DOMAIN ch.subs[i].snaps } :
            i \in { x \in DOMAIN ch.subs : ch.subs[x].res = "ok" } }

Conc ==
    /\ IsEvent("Conc")
    /\ LET e     == Ev
           dones == [k \in DOMAIN e.chains |-> ConcDoneOf(e.chains[k])]
           prop  == [k \in DOMAIN e.chains |-> e.chains[k].p] IN
        /\ WorkInvAll(dones, prop, e.lead, e.sign, 1..e.nm)
        /\ Mode = "full" =>
              \A k \in DOMAIN e.chains :
                 LET ch == e.chains[k] IN
                 /\ \A i \in DOMAIN ch.subs : ch.subs[i].res = "ok"
                 /\ ch.subs # <<>> =>
                       /\ ch.off = ch.subs[Len(ch.subs)].round
                       /\ SeqToSet(ch.seen) = { ch.subs[Len(ch.subs)].snaps[j].id : j \in DOMAIN ch.subs[Len(ch.subs)].snaps }
    /\ UNCHANGED <<S, done>>

Next == Reset \/ Submit \/ Restart \/ Conc
Spec == Init /\ [][Next]_vars

HW == HighWaterOf(l)
Accepted == TraceAcceptedAt

Inv == Mode = "full" => WorkInv(done, S.lead, S.sign)
=============================================================================
