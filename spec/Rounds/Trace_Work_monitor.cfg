SPECIFICATION Spec
CONSTANTS
  Mode = "monitor"
  NM = 3
  ND = 2
  Proposer = 1
CONSTRAINT HW
INVARIANT Inv
POSTCONDITION Accepted
CHECK_DEADLOCK FALSE
