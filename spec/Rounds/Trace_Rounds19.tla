--------------------------- MODULE Trace_Rounds19 ---------------------------
(***************************************************************************)
(* Trace specification of the live round (C19, engine E2).                 *)
(*                                                                         *)
(* Event lines (NDJSON) recorded by harness/inpkg/kernel/zz_verif_rounds:  *)
(*  {"ev":"Reset"}                                   a fresh CacheRound    *)
(*  {"ev":"Validate","s":{h,ts,txs},"add":b,"res":r,"obs":[{h,ts,txs}..]} *)
(*        one real validateSnapshot(s, add); r in ok|err|panic; obs = the  *)
(*        real Snapshots slice afterwards                                  *)
(*  {"ev":"AsFinal","res":ok|nil|panic,"start":t,"end":t,"obs":[..]}      *)
(*                                                                         *)
(* Mode "full":    result and state must equal Rounds!ValidateSnapshot /   *)
(*                 AfterValidate / AsFinal.                                *)
(* Mode "monitor": exactly what C19 states: the sequence of accepted        *)
(*                 candidates and the real Snapshots slice satisfy SeqInv   *)
(*                 (distinct hashes, timestamps, transactions; one day;     *)
(*                 span < gap) after every call, and asFinal never aborts.  *)
(***************************************************************************)
EXTENDS TraceLib, Rounds

CONSTANT Mode

VARIABLES l, S, A
vars == <<l, S, A>>

Ev == Trace[l]
IsEvent(name) == l <= TraceLen /\ Ev.ev = name /\ l' = l + 1

Conv(r) == [h |-> r.h, ts |-> r.ts, txs |-> SeqToSet(r.txs)]
ObsSeq(e) == [i \in DOMAIN e.obs |-> Conv(e.obs[i])]
ObsSet(e) == { Conv(e.obs[i]) : i \in DOMAIN e.obs }

Init == l = 1 /\ S = {} /\ A = <<>>

Reset == IsEvent("Reset") /\ S' = {} /\ A' = <<>>

Validate ==
    /\ IsEvent("Validate")
    /\ LET s == Conv(Ev.s) IN
       IF Mode = "full"
       THEN /\ Ev.res = ValidateSnapshot(S, s)
            /\ ObsSet(Ev) = AfterValidate(S, s, Ev.add)
            /\ Len(Ev.obs) = Cardinality(ObsSet(Ev))
            /\ S' = ObsSet(Ev)
            /\ A' = IF Ev.res = "ok" /\ Ev.add THEN Append(A, s) ELSE A
       ELSE /\ S' = ObsSet(Ev)
            /\ A' = IF Ev.res = "ok" /\ Ev.add THEN Append(A, s) ELSE A
            /\ SeqInv(A')
            /\ SeqInv(ObsSeq(Ev))

Close ==
    /\ IsEvent("AsFinal")
    /\ IF Mode = "full"
       THEN /\ ObsSet(Ev) = S
            /\ Ev.res = AsFinal(S).res
            /\ Ev.start = AsFinal(S).start
            /\ Ev.end = AsFinal(S).end
       ELSE Ev.res # "panic"
    /\ UNCHANGED <<S, A>>

Next == Reset \/ Validate \/ Close
Spec == Init /\ [][Next]_vars

HW == HighWaterOf(l)
Accepted == TraceAcceptedAt

Inv == Mode = "full" => RoundInv(S) /\ SeqInv(A) /\ CloseOK(S)
=============================================================================
