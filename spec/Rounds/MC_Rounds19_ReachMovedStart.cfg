SPECIFICATION Spec
CONSTANTS
  IdentSet = {1,2,3}
  Offs <- OffsFull
  MaxCand = 5
  AddFlags <- AddOnly
VIEW View
INVARIANT ReachMovedStart
CHECK_DEADLOCK FALSE
