--------------------------- MODULE Trace_RoundHash ---------------------------
(***************************************************************************)
(* Trace specification for C18 (engine E2).                                *)
(*                                                                         *)
(* Event lines recorded by harness/inpkg/storage/zz_verif_roundhash:       *)
(*  {"ev":"Reset"}            new group (hash classes and ranks are local   *)
(*                            to a group)                                   *)
(*  {"ev":"Hash","impl":"common"|"storage","node":i,"n":k,                 *)
(*   "q":[{"h":rank,"ts":t},..]   the slice in the order it was supplied    *)
(*   "res":"ok"|"panic","start":t,"end":t,"hc":c}                          *)
(*        c = equality class of the real 32-byte result within the group    *)
(*                                                                         *)
(* Mode "monitor" (what C18 states): within a group, over both              *)
(*   implementations and all supplied orders,                               *)
(*     same (node, number, member set)  => same (outcome, start, end, hash) *)
(*     different argument               => different hash.                  *)
(* Mode "full": additionally outcome/start/end are the specification's     *)
(*   (abort exactly on a full gap, start = min, end = max).  With H         *)
(*   injective the hash classes are then in bijection with the tuples       *)
(*   RoundHash(node, n, S) - which is exactly Agree + Differ.               *)
(***************************************************************************)
EXTENDS TraceLib, RoundHash

CONSTANT Mode

VARIABLES l, seen
vars == <<l, seen>>

Ev == Trace[l]
IsEvent(name) == l <= TraceLen /\ Ev.ev = name /\ l' = l + 1

Init == l = 1 /\ seen = {}

Reset == IsEvent("Reset") /\ seen' = {}

Rec(e) ==
    LET q == [i \in DOMAIN e.q |-> [h |-> e.q[i].h, ts |-> e.q[i].ts]] IN
    [ arg |-> <<e.node, e.n, Range(q)>>,
      res |-> e.res, start |-> e.start, end |-> e.end, hc |-> e.hc ]

Same(r, x) == r.arg = x.arg

Agree(r, x) == Same(r, x) => r.res = x.res /\ r.start = x.start /\ r.end = x.end /\ r.hc = x.hc
Differ(r, x) == (~Same(r, x) /\ r.res = "ok" /\ x.res = "ok") => r.hc # x.hc

Predicted(e, x) ==
    LET S == x.arg[3] IN
    (WellFormed(S) /\ Len(e.q) = Cardinality(S)) =>
        /\ x.res = IF Aborts(S) THEN "panic" ELSE "ok"
        /\ x.res = "ok" => x.start = RoundStart(S) /\ x.end = RoundEnd(S)

Hash ==
    /\ IsEvent("Hash")
    /\ LET x == Rec(Ev) IN
        /\ \A r \in seen : Agree(r, x) /\ Differ(r, x)
        /\ Mode = "full" => Predicted(Ev, x)
        /\ seen' = seen \cup {x}

Next == Reset \/ Hash
Spec == Init /\ [][Next]_vars

HW == HighWaterOf(l)
Accepted == TraceAcceptedAt
Inv == TRUE
=============================================================================
