SPECIFICATION Spec
CONSTANTS
  NC = 7
  Driven = {1,2}
  Targets = {1,2,3}
  AliasTargets = {3}
  MaxNum = 3
  MaxOps = 7
  Order <- OrderReal
  Jumps = TRUE
VIEW View
ACTION_CONSTRAINT Emit
CHECK_DEADLOCK FALSE
