------------------------------- MODULE Rounds -------------------------------
(***************************************************************************)
(* Rounds of a chain (kernel/round.go, kernel/graph.go, common/round.go,   *)
(* storage/badger_round.go) as read from the code.                         *)
(*                                                                         *)
(* Part 1 (C19): the live round of a node (kernel.CacheRound): the         *)
(*   candidate check validateSnapshot(s, add), Gap() and asFinal().        *)
(* Part 2 (C20): round transitions of a chain (startNewRoundAndPersist /   *)
(*   updateEmptyHeadRoundAndPersist) - see the second half of the module.  *)
(*                                                                         *)
(* Time abstraction (DESIGN.md 3.3): an integer t = 4*u + e, u counted in  *)
(* half seconds, e in {-1,0,1} nanoseconds; real = Base + u*0.5s + e ns    *)
(* with Base a multiple of 24h.  The map is strictly monotone, adding the  *)
(* round gap (3 s) is adding 24, and real/24h = Base/24h + (t \div 691200),*)
(* so every comparison the code makes is made here on the same side of     *)
(* every boundary (equality with the gap and +-1 ns are representable).    *)
(* Domain: real timestamps < 2^63 (no uint64 wrap of ts + gap).            *)
(***************************************************************************)
EXTENDS Integers, FiniteSets, Sequences

RoundGap == 24          \* config.SnapshotRoundGap = 3 s
OneDay   == 691200      \* kernel.OneDay = 24 h

DayOf(t) == t \div OneDay

(***************************************************************************)
(* A snapshot, as far as the round logic reads it:                          *)
(*   h   the value of the Hash field (identifier)                           *)
(*   ts  Timestamp                                                          *)
(*   txs the set of transaction hashes it carries                           *)
(***************************************************************************)

TsOf(snaps) == { s.ts : s \in snaps }
MinTs(snaps) == CHOOSE t \in TsOf(snaps) : \A u \in TsOf(snaps) : t <= u
MaxTs(snaps) == CHOOSE t \in TsOf(snaps) : \A u \in TsOf(snaps) : t >= u

\* the per-member loop of validateSnapshot (every branch returns an error)
Conflicts(cs, s) ==
    \/ cs.h = s.h
    \/ cs.ts = s.ts
    \/ DayOf(cs.ts) # DayOf(s.ts)
    \/ cs.txs \cap s.txs # {}

\* CacheRound.Gap() and common.ComputeRoundHash abort when the stored set spans a full gap
GapAborts(snaps) == snaps # {} /\ MaxTs(snaps) >= MinTs(snaps) + RoundGap

\* CacheRound.validateSnapshot(s, add): "ok" | "err" | "panic"
\* (member loop first, then Gap() - which can abort -, then the two one-sided gap tests)
ValidateSnapshot(snaps, s) ==
    IF \E cs \in snaps : Conflicts(cs, s) THEN "err"
    ELSE IF snaps = {} THEN "ok"
    ELSE IF GapAborts(snaps) THEN "panic"
    ELSE LET start == MinTs(snaps)
             end   == MaxTs(snaps) IN
         IF s.ts < start /\ s.ts + RoundGap <= end THEN "err"
         ELSE IF s.ts > end /\ start + RoundGap <= s.ts THEN "err"
         ELSE "ok"

\* state after validateSnapshot(s, add)
AfterValidate(snaps, s, add) ==
    IF add /\ ValidateSnapshot(snaps, s) = "ok" THEN snaps \cup {s} ELSE snaps

\* CacheRound.asFinal(): nil for the empty round, aborts on a full gap, else (start, end)
AsFinal(snaps) ==
    IF snaps = {} THEN [res |-> "nil", start |-> 0, end |-> 0]
    ELSE IF GapAborts(snaps) THEN [res |-> "panic", start |-> 0, end |-> 0]
    ELSE [res |-> "ok", start |-> MinTs(snaps), end |-> MaxTs(snaps)]

(***************************************************************************)
(* Property C19                                                             *)
(***************************************************************************)
PairOK(a, b) ==
    /\ a.h # b.h
    /\ a.ts # b.ts
    /\ a.txs \cap b.txs = {}
    /\ DayOf(a.ts) = DayOf(b.ts)
    /\ a.ts - b.ts < RoundGap
    /\ b.ts - a.ts < RoundGap

\* on a set of snapshots
RoundInv(snaps) == \A a, b \in snaps : a # b => PairOK(a, b)

\* on a list (the real CacheRound.Snapshots slice, the sequence of accepted candidates):
\* a repeated element is a duplicate
SeqInv(q) == \A i, j \in DOMAIN q : i # j => PairOK(q[i], q[j])

CloseOK(snaps) == AsFinal(snaps).res # "panic"

(***************************************************************************)
(* Part 2 (C20): round transitions of a chain.                             *)
(*                                                                         *)
(* Chains are 1..NC (the domain of G.num).  A round REFERENCE is a record  *)
(* [k, c, n]:                                                              *)
(*    k = "F": the hash of final round n of chain c (known to the store    *)
(*             exactly when n < num[c]; otherwise an unknown hash),        *)
(*    k = "H": the identifier of chain c itself.  The store keeps the HEAD *)
(*             round of a chain under that key (badger_round.go writeRound *)
(*             (txn, node, ...)), so ReadRound finds a record: NodeId = c, *)
(*             Number = head number, Timestamp = 0, Hash = c,              *)
(*    k = "U": a hash the store has never seen.                            *)
(* Graph state G:                                                          *)
(*    num[c]   number of the head (cache) round, final rounds are 0..num-1 *)
(*    ext[c]   external reference of the head round                        *)
(*    has[c]   the head round holds at least one snapshot                  *)
(*    dl[c][x] durable link LINK/<c,x>, ml[c][x] ChainState.RoundLinks     *)
(*    era[c]   sequence: era[c][n+1] = time era of the start of final      *)
(*             round n of chain c; hera[c] era of the head round's         *)
(*             snapshot (0 when the head is empty)                          *)
(*    late     the clock has jumped to era 1                                *)
(*    order    the chains in the order of NodesListWithoutState             *)
(*                                                                         *)
(* Time for the "too early" rule: the start of round n of a chain is        *)
(* era*EraJump + n ticks of 10 s; era 1 is six hours after era 0.  The      *)
(* reference threshold (SnapshotSyncRoundThreshold*gap*64 = 19200 s) is     *)
(* 1920 ticks, the history threshold (SnapshotReferenceThreshold*gap*64 =   *)
(* 1920 s) is 192 ticks; round numbers stay far below both.                 *)
(***************************************************************************)

EraJump     == 2160
SyncWindow  == 1920
HistWindow  == 192

FRef(c, n) == [k |-> "F", c |-> c, n |-> n]
HRef(c)    == [k |-> "H", c |-> c, n |-> 0]
URef       == [k |-> "U", c |-> 0, n |-> 0]

ChainsOf(G) == DOMAIN G.num

StartOf(G, x, n) == G.era[x][n + 1] * EraJump + n

\* persistStore.ReadRound(reference)
Lookup(G, r) ==
    IF r.k = "F" /\ r.c \in ChainsOf(G) /\ r.n < G.num[r.c]
      THEN [found |-> TRUE, node |-> r.c, number |-> r.n, head |-> FALSE]
    ELSE IF r.k = "H" /\ r.c \in ChainsOf(G)
      THEN [found |-> TRUE, node |-> r.c, number |-> G.num[r.c], head |-> TRUE]
    ELSE [found |-> FALSE, node |-> 0, number |-> 0, head |-> FALSE]

\* ChainState.RoundHistory of chain x after reduceHistory: the final rounds that started less than
\* the history window before the last one (at most ten; round counts stay below that)
History(G, x) == { n \in 0..(G.num[x] - 1) : StartOf(G, x, n) + HistWindow > StartOf(G, x, G.num[x] - 1) }

\* checkReferenceSanity(ec, round n of x, roundTime) for a final round and roundTime = now
\* (all chains are genesis chains, nothing starts in the future)
NoExtraFinal(G, x, n) == ~G.has[x] /\ G.num[x] = n + 1 /\ n > 0

\* determineBestRound(now) of chain c: a fold over the other chains in node order
RECURSIVE BestFold(_, _, _, _)
BestFold(G, c, i, acc) ==
    IF i > Len(G.order) THEN acc
    ELSE LET x     == G.order[i]
             since == { n \in History(G, x) : n >= G.ml[c][x] }
             h0    == CHOOSE n \in since : \A m \in since : n <= m
             rts   == StartOf(G, x, h0)
             rh    == Cardinality(since)
         IN IF x = c \/ since = {} \/ NoExtraFinal(G, x, h0) THEN BestFold(G, c, i + 1, acc)
            ELSE IF rh > acc.height \/ rts > acc.start
                 THEN BestFold(G, c, i + 1, [found |-> TRUE, start |-> rts, height |-> rh])
                 ELSE BestFold(G, c, i + 1, acc)

BestRound(G, c) == BestFold(G, c, 1, [found |-> FALSE, start |-> 0, height |-> 0])

\* Chain.updateExternal(final, external, roundTime, strict) for a FINAL external round e:
\* "ok", or the reason of the refusal ("linkpanic" is an abort, the others are errors).
\* early: roundTime is before the start of the referenced round.
ExtWhy(G, c, e, early, strict) ==
    IF e.node = c THEN "ownchain"
    ELSE IF e.number < G.ml[c][e.node] THEN "backlink"
    ELSE IF G.dl[c][e.node] # G.ml[c][e.node] THEN "linkpanic"
    ELSE IF ~strict THEN "ok"
    ELSE IF early THEN "early"
    ELSE IF NoExtraFinal(G, e.node, e.number) THEN "nofinal"
    ELSE LET b == BestRound(G, c) IN
         IF b.found /\ StartOf(G, e.node, e.number) + SyncWindow < b.start THEN "tooearly"
         ELSE "ok"

ResOf(why) == IF why = "ok" THEN "ok" ELSE IF why = "linkpanic" THEN "panic" ELSE "err"

SetExt(G, c, r, e) ==
    [G EXCEPT !.ext[c] = r, !.dl[c][e.node] = e.number, !.ml[c][e.node] = e.number]

\* startNewRoundAndPersist(cache, references, timestamp, finalized)
\*   o = [c, self, ext, early, fin]; self in {"good" (hash of the closed head round), "stale", "bogus"}
\* result [res, why, dummy, G]
\* A reference that resolves to a HEAD round record (a chain identifier) is refused on both paths
\* ("external round ... is not final").
\* An unknown external on the finalized path starts the round with the PREVIOUS external reference
\* ("dummy"); storage.StartNewRound then rewrites the durable link from the record that reference
\* resolves to (a final round, hence the number the link already has).
StartRound(G, o) ==
    LET c == o.c
        e == Lookup(G, o.ext)
        p == Lookup(G, G.ext[c])
        fail(y) == [res |-> ResOf(y), why |-> y, dummy |-> FALSE, G |-> G]
        adv(H) == [H EXCEPT !.num[c] = @ + 1, !.has[c] = FALSE,
                            !.era[c] = Append(@, G.hera[c]), !.hera[c] = 0]
        y == ExtWhy(G, c, e, o.early, ~o.fin)
    IN
    IF ~G.has[c] THEN fail("nosnap")               \* nothing collected: asFinal() = nil
    ELSE IF o.self # "good" THEN fail("self")
    ELSE IF ~e.found THEN
         IF o.fin THEN [res |-> "ok", why |-> "dummy", dummy |-> TRUE,
                        G |-> adv([G EXCEPT !.dl[c][p.node] = p.number])]
         ELSE fail("unknown")
    ELSE IF e.head THEN fail("head")
    ELSE IF y # "ok" THEN fail(y)
    ELSE [res |-> "ok", why |-> "ok", dummy |-> FALSE, G |-> adv(SetExt(G, c, o.ext, e))]

\* updateEmptyHeadRoundAndPersist(final, cache, references, timestamp, strict)
\*   o = [c, self, ext, early, strict]; self in {"same", "other"}
UpdateHead(G, o) ==
    LET c == o.c
        e == Lookup(G, o.ext)
        fail(y) == [res |-> ResOf(y), why |-> y, dummy |-> FALSE, G |-> G]
        y == ExtWhy(G, c, e, o.early, o.strict)
    IN
    IF G.has[c] THEN fail("notempty")
    ELSE IF o.self # "same" THEN fail("self")
    ELSE IF ~e.found THEN fail("unknown")
    ELSE IF e.head THEN fail("head")
    ELSE IF y # "ok" THEN fail(y)
    ELSE [res |-> "ok", why |-> "ok", dummy |-> FALSE, G |-> SetExt(G, c, o.ext, e)]

\* a snapshot finalized into the head round (Chain.AddSnapshot), stamped with the current era
AddSnap(G, c) == [G EXCEPT !.has[c] = TRUE, !.hera[c] = IF G.late THEN 1 ELSE 0]

\* the clock jumps six hours ahead (nothing happens on any chain meanwhile)
Jump(G) == [G EXCEPT !.late = TRUE]

ApplyOp(G, o) ==
    CASE o.op = "Start"  -> StartRound(G, o)
      [] o.op = "Update" -> UpdateHead(G, o)
      [] o.op = "Add"    -> [res |-> "ok", why |-> "ok", dummy |-> FALSE, G |-> AddSnap(G, o.c)]
      [] o.op = "Jump"   -> [res |-> "ok", why |-> "ok", dummy |-> FALSE, G |-> Jump(G)]

InitGraph(NC, order) ==
    [ num |-> [c \in 1..NC |-> 1],
      ext |-> [c \in 1..NC |-> FRef((c % NC) + 1, 0)],
      has |-> [c \in 1..NC |-> FALSE],
      dl  |-> [c \in 1..NC |-> [x \in 1..NC |-> 0]],
      ml  |-> [c \in 1..NC |-> [x \in 1..NC |-> 0]],
      era |-> [c \in 1..NC |-> <<0>>],
      hera |-> [c \in 1..NC |-> 0],
      late |-> FALSE,
      order |-> order ]

(***************************************************************************)
(* Property C20, as a predicate on one observed step of chain o.c:          *)
(* G before, result, G2 after.                                              *)
(***************************************************************************)
KnownFinalOther(G, c, r) == r.k = "F" /\ r.c \in ChainsOf(G) /\ r.c # c /\ r.n < G.num[r.c]

LinksForward(G, G2, c) ==
    \A x \in ChainsOf(G) : G2.dl[c][x] >= G.dl[c][x] /\ G2.ml[c][x] >= G.ml[c][x]

\* selfOK: the new head's self reference is the hash of the round just closed (observed)
StepOK20(G, o, res, selfOK, G2) ==
    LET c == o.c IN
    CASE o.op = "Start" ->
           IF res = "ok"
           THEN /\ G2.num[c] = G.num[c] + 1
                /\ selfOK
                /\ KnownFinalOther(G, c, G2.ext[c])
                /\ LinksForward(G, G2, c)
           ELSE G2 = G
      [] o.op = "Update" ->
           IF res = "ok"
           THEN /\ G2.num[c] = G.num[c]
                /\ KnownFinalOther(G, c, G2.ext[c])
                /\ LinksForward(G, G2, c)
           ELSE G2 = G
      [] OTHER -> TRUE

(***************************************************************************)
(* History: before commit 1bb41c2 of the repository the finalized path      *)
(* accepted a chain identifier as external reference (it resolved to the    *)
(* head round record); recorded as fixed finding C20-1.  The specification  *)
(* describes the fixed behaviour; reverting the fix violates StepOK20.       *)
(***************************************************************************)
=============================================================================
