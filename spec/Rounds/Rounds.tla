------------------------------- MODULE Rounds -------------------------------
(***************************************************************************)
(* Rounds of a chain (kernel/round.go, kernel/graph.go, common/round.go,   *)
(* storage/badger_round.go) as read from the code.                         *)
(*                                                                         *)
(* Part 1 (C19): the live round of a node (kernel.CacheRound): the         *)
(*   candidate check validateSnapshot(s, add), Gap() and asFinal().        *)
(* Part 2 (C20): round transitions of a chain (startNewRoundAndPersist /   *)
(*   updateEmptyHeadRoundAndPersist) - see the second half of the module.  *)
(*                                                                         *)
(* Time abstraction (DESIGN.md 3.3): an integer t = 4*u + e, u counted in  *)
(* half seconds, e in {-1,0,1} nanoseconds; real = Base + u*0.5s + e ns    *)
(* with Base a multiple of 24h.  The map is strictly monotone, adding the  *)
(* round gap (3 s) is adding 24, and real/24h = Base/24h + (t \div 691200),*)
(* so every comparison the code makes is made here on the same side of     *)
(* every boundary (equality with the gap and +-1 ns are representable).    *)
(* Domain: real timestamps < 2^63 (no uint64 wrap of ts + gap).            *)
(***************************************************************************)
EXTENDS Integers, FiniteSets, Sequences

RoundGap == 24          \* config.SnapshotRoundGap = 3 s
OneDay   == 691200      \* kernel.OneDay = 24 h

DayOf(t) == t \div OneDay

(***************************************************************************)
(* A snapshot, as far as the round logic reads it:                          *)
(*   h   the value of the Hash field (identifier)                           *)
(*   ts  Timestamp                                                          *)
(*   txs the set of transaction hashes it carries                           *)
(***************************************************************************)

TsOf(snaps) == { s.ts : s \in snaps }
MinTs(snaps) == CHOOSE t \in TsOf(snaps) : \A u \in TsOf(snaps) : t <= u
MaxTs(snaps) == CHOOSE t \in TsOf(snaps) : \A u \in TsOf(snaps) : t >= u

\* the per-member loop of validateSnapshot (every branch returns an error)
Conflicts(cs, s) ==
    \/ cs.h = s.h
    \/ cs.ts = s.ts
    \/ DayOf(cs.ts) # DayOf(s.ts)
    \/ cs.txs \cap s.txs # {}

\* CacheRound.Gap() and common.ComputeRoundHash abort when the stored set spans a full gap
GapAborts(snaps) == snaps # {} /\ MaxTs(snaps) >= MinTs(snaps) + RoundGap

\* CacheRound.validateSnapshot(s, add): "ok" | "err" | "panic"
\* (member loop first, then Gap() - which can abort -, then the two one-sided gap tests)
ValidateSnapshot(snaps, s) ==
    IF \E cs \in snaps : Conflicts(cs, s) THEN "err"
    ELSE IF snaps = {} THEN "ok"
    ELSE IF GapAborts(snaps) THEN "panic"
    ELSE LET start == MinTs(snaps)
             end   == MaxTs(snaps) IN
         IF s.ts < start /\ s.ts + RoundGap <= end THEN "err"
         ELSE IF s.ts > end /\ start + RoundGap <= s.ts THEN "err"
         ELSE "ok"

\* state after validateSnapshot(s, add)
AfterValidate(snaps, s, add) ==
    IF add /\ ValidateSnapshot(snaps, s) = "ok" THEN snaps \cup {s} ELSE snaps

\* CacheRound.asFinal(): nil for the empty round, aborts on a full gap, else (start, end)
AsFinal(snaps) ==
    IF snaps = {} THEN [res |-> "nil", start |-> 0, end |-> 0]
    ELSE IF GapAborts(snaps) THEN [res |-> "panic", start |-> 0, end |-> 0]
    ELSE [res |-> "ok", start |-> MinTs(snaps), end |-> MaxTs(snaps)]

(***************************************************************************)
(* Property C19                                                             *)
(***************************************************************************)
PairOK(a, b) ==
    /\ a.h # b.h
    /\ a.ts # b.ts
    /\ a.txs \cap b.txs = {}
    /\ DayOf(a.ts) = DayOf(b.ts)
    /\ a.ts - b.ts < RoundGap
    /\ b.ts - a.ts < RoundGap

\* on a set of snapshots
RoundInv(snaps) == \A a, b \in snaps : a # b => PairOK(a, b)

\* on a list (the real CacheRound.Snapshots slice, the sequence of accepted candidates):
\* a repeated element is a duplicate
SeqInv(q) == \A i, j \in DOMAIN q : i # j => PairOK(q[i], q[j])

CloseOK(snaps) == AsFinal(snaps).res # "panic"

(***************************************************************************)
(* Part 2 (C20): round transitions of a chain.                             *)
(*                                                                         *)
(* Chains are 1..NC (a parameter of the operators).  A round REFERENCE is  *)
(* a record [k, c, n]:                                                     *)
(*    k = "F": the hash of final round n of chain c (known to the store    *)
(*             exactly when n < num[c]; otherwise an unknown hash),        *)
(*    k = "H": the identifier of chain c itself.  The store keeps the HEAD *)
(*             round of a chain under that key (badger_round.go writeRound *)
(*             (txn, node, ...)), so ReadRound finds a record: NodeId = c, *)
(*             Number = head number, Timestamp = 0, Hash = c,              *)
(*    k = "U": a hash the store has never seen.                            *)
(* Graph state G:                                                          *)
(*    num[c]   number of the head (cache) round, final rounds are 0..num-1 *)
(*    ext[c]   external reference of the head round                        *)
(*    has[c]   the head round holds at least one snapshot                  *)
(*    dl[c][x] durable link LINK/<c,x>, ml[c][x] ChainState.RoundLinks     *)
(***************************************************************************)

FRef(c, n) == [k |-> "F", c |-> c, n |-> n]
HRef(c)    == [k |-> "H", c |-> c, n |-> 0]
URef       == [k |-> "U", c |-> 0, n |-> 0]

\* persistStore.ReadRound(reference)
Lookup(G, r) ==
    IF r.k = "F" /\ r.c \in DOMAIN G.num /\ r.n < G.num[r.c]
      THEN [found |-> TRUE, node |-> r.c, number |-> r.n, head |-> FALSE]
    ELSE IF r.k = "H" /\ r.c \in DOMAIN G.num
      THEN [found |-> TRUE, node |-> r.c, number |-> G.num[r.c], head |-> TRUE]
    ELSE [found |-> FALSE, node |-> 0, number |-> 0, head |-> FALSE]

\* Chain.updateExternal(final, external, roundTime, strict): "ok" | "err" | "panic".
\* early: roundTime is before the start of the referenced final round.
\* The "too early against the best round" test needs final rounds more than 5 hours apart and is
\* outside the explored time window.  (Head records never get here: they are refused before.)
\* The code aborts when the durable link and ChainState.RoundLinks disagree.
ExtCheck(G, c, e, early, strict) ==
    IF e.node = c THEN "err"
    ELSE IF e.number < G.ml[c][e.node] THEN "err"
    ELSE IF G.dl[c][e.node] # G.ml[c][e.node] THEN "panic"
    ELSE IF strict /\ ( \/ early
                       \/ (~G.has[e.node] /\ G.num[e.node] = e.number + 1 /\ e.number > 0) ) THEN "err"
    ELSE "ok"

SetExt(G, c, r, e) ==
    [G EXCEPT !.ext[c] = r, !.dl[c][e.node] = e.number, !.ml[c][e.node] = e.number]

\* startNewRoundAndPersist(cache, references, timestamp, finalized)
\*   o = [c, self, ext, early, fin]; self in {"good" (hash of the closed head round), "stale", "bogus"}
\* result [res, dummy, G]
\* A reference that resolves to a HEAD round record (a chain identifier) is refused on both paths
\* ("external round ... is not final").
\* An unknown external on the finalized path starts the round with the PREVIOUS external reference
\* ("dummy"); storage.StartNewRound then rewrites the durable link from the record that reference
\* resolves to (a final round, hence the number the link already has).
StartRound(G, o) ==
    LET c == o.c
        e == Lookup(G, o.ext)
        p == Lookup(G, G.ext[c])
        fail(x) == [res |-> x, dummy |-> FALSE, G |-> G]
        adv(H) == [H EXCEPT !.num[c] = @ + 1, !.has[c] = FALSE]
        x == ExtCheck(G, c, e, o.early, ~o.fin)
    IN
    IF ~G.has[c] THEN fail("err")                  \* nothing collected: asFinal() = nil
    ELSE IF o.self # "good" THEN fail("err")
    ELSE IF ~e.found THEN
         IF o.fin THEN [res |-> "ok", dummy |-> TRUE, G |-> adv([G EXCEPT !.dl[c][p.node] = p.number])]
         ELSE fail("err")
    ELSE IF e.head THEN fail("err")
    ELSE IF x # "ok" THEN fail(x)
    ELSE [res |-> "ok", dummy |-> FALSE, G |-> adv(SetExt(G, c, o.ext, e))]

\* updateEmptyHeadRoundAndPersist(final, cache, references, timestamp, strict)
\*   o = [c, self, ext, early, strict]; self in {"same", "other"}
UpdateHead(G, o) ==
    LET c == o.c
        e == Lookup(G, o.ext)
        fail(x) == [res |-> x, dummy |-> FALSE, G |-> G]
        x == ExtCheck(G, c, e, o.early, o.strict)
    IN
    IF G.has[c] THEN fail("err")
    ELSE IF o.self # "same" THEN fail("err")
    ELSE IF ~e.found THEN fail("err")
    ELSE IF e.head THEN fail("err")
    ELSE IF x # "ok" THEN fail(x)
    ELSE [res |-> "ok", dummy |-> FALSE, G |-> SetExt(G, c, o.ext, e)]

\* a snapshot finalized into the head round (Chain.AddSnapshot)
AddSnap(G, c) == [G EXCEPT !.has[c] = TRUE]

ApplyOp(G, o) ==
    CASE o.op = "Start"  -> StartRound(G, o)
      [] o.op = "Update" -> UpdateHead(G, o)
      [] o.op = "Add"    -> [res |-> "ok", dummy |-> FALSE, G |-> AddSnap(G, o.c)]

(***************************************************************************)
(* Property C20, as a predicate on one observed step of chain o.c:          *)
(* G before, result, G2 after.                                              *)
(***************************************************************************)
KnownFinalOther(G, c, r) == r.k = "F" /\ r.c \in DOMAIN G.num /\ r.c # c /\ r.n < G.num[r.c]

LinksForward(G, G2, c) ==
    \A x \in DOMAIN G.num : G2.dl[c][x] >= G.dl[c][x] /\ G2.ml[c][x] >= G.ml[c][x]

\* selfOK: the new head's self reference is the hash of the round just closed (observed)
StepOK20(G, o, res, selfOK, G2) ==
    LET c == o.c IN
    CASE o.op = "Start" ->
           IF res = "ok"
           THEN /\ G2.num[c] = G.num[c] + 1
                /\ selfOK
                /\ KnownFinalOther(G, c, G2.ext[c])
                /\ LinksForward(G, G2, c)
           ELSE G2 = G
      [] o.op = "Update" ->
           IF res = "ok"
           THEN /\ G2.num[c] = G.num[c]
                /\ KnownFinalOther(G, c, G2.ext[c])
                /\ LinksForward(G, G2, c)
           ELSE G2 = G
      [] OTHER -> TRUE

\* the reference of the head round of every chain other than those never moved:
\* a known final round of another chain, and the links agree with it
StateOK20(G) ==
    \A c \in DOMAIN G.num :
        /\ KnownFinalOther(G, c, G.ext[c])
        /\ \A x \in DOMAIN G.num : G.dl[c][x] = G.ml[c][x]

(***************************************************************************)
(* History: before commit 1bb41c2 of the repository the finalized path      *)
(* accepted a chain identifier as external reference (it resolved to the    *)
(* head round record); recorded as fixed finding C20-1.  The specification  *)
(* describes the fixed behaviour; reverting the fix violates StepOK20.       *)
(***************************************************************************)
=============================================================================
