------------------------------- MODULE Rounds -------------------------------
(***************************************************************************)
(* Rounds of a chain (kernel/round.go, kernel/graph.go, common/round.go,   *)
(* storage/badger_round.go) as read from the code.                         *)
(*                                                                         *)
(* Part 1 (C19): the live round of a node (kernel.CacheRound): the         *)
(*   candidate check validateSnapshot(s, add), Gap() and asFinal().        *)
(* Part 2 (C20): round transitions of a chain (startNewRoundAndPersist /   *)
(*   updateEmptyHeadRoundAndPersist) - see the second half of the module.  *)
(*                                                                         *)
(* Time abstraction (DESIGN.md 3.3): an integer t = 4*u + e, u counted in  *)
(* half seconds, e in {-1,0,1} nanoseconds; real = Base + u*0.5s + e ns    *)
(* with Base a multiple of 24h.  The map is strictly monotone, adding the  *)
(* round gap (3 s) is adding 24, and real/24h = Base/24h + (t \div 691200),*)
(* so every comparison the code makes is made here on the same side of     *)
(* every boundary (equality with the gap and +-1 ns are representable).    *)
(* Domain: real timestamps < 2^63 (no uint64 wrap of ts + gap).            *)
(***************************************************************************)
EXTENDS Integers, FiniteSets, Sequences

RoundGap == 24          \* config.SnapshotRoundGap = 3 s
OneDay   == 691200      \* kernel.OneDay = 24 h

DayOf(t) == t \div OneDay

(***************************************************************************)
(* A snapshot, as far as the round logic reads it:                          *)
(*   h   the value of the Hash field (identifier)                           *)
(*   ts  Timestamp                                                          *)
(*   txs the set of transaction hashes it carries                           *)
(***************************************************************************)

TsOf(snaps) == { s.ts : s \in snaps }
MinTs(snaps) == CHOOSE t \in TsOf(snaps) : \A u \in TsOf(snaps) : t <= u
MaxTs(snaps) == CHOOSE t \in TsOf(snaps) : \A u \in TsOf(snaps) : t >= u

\* the per-member loop of validateSnapshot (every branch returns an error)
Conflicts(cs, s) ==
    \/ cs.h = s.h
    \/ cs.ts = s.ts
    \/ DayOf(cs.ts) # DayOf(s.ts)
    \/ cs.txs \cap s.txs # {}

\* CacheRound.Gap() and common.ComputeRoundHash abort when the stored set spans a full gap
GapAborts(snaps) == snaps # {} /\ MaxTs(snaps) >= MinTs(snaps) + RoundGap

\* CacheRound.validateSnapshot(s, add): "ok" | "err" | "panic"
\* (member loop first, then Gap() - which can abort -, then the two one-sided gap tests)
ValidateSnapshot(snaps, s) ==
    IF \E cs \in snaps : Conflicts(cs, s) THEN "err"
    ELSE IF snaps = {} THEN "ok"
    ELSE IF GapAborts(snaps) THEN "panic"
    ELSE LET start == MinTs(snaps)
             end   == MaxTs(snaps) IN
         IF s.ts < start /\ s.ts + RoundGap <= end THEN "err"
         ELSE IF s.ts > end /\ start + RoundGap <= s.ts THEN "err"
         ELSE "ok"

\* state after validateSnapshot(s, add)
AfterValidate(snaps, s, add) ==
    IF add /\ ValidateSnapshot(snaps, s) = "ok" THEN snaps \cup {s} ELSE snaps

\* CacheRound.asFinal(): nil for the empty round, aborts on a full gap, else (start, end)
AsFinal(snaps) ==
    IF snaps = {} THEN [res |-> "nil", start |-> 0, end |-> 0]
    ELSE IF GapAborts(snaps) THEN [res |-> "panic", start |-> 0, end |-> 0]
    ELSE [res |-> "ok", start |-> MinTs(snaps), end |-> MaxTs(snaps)]

(***************************************************************************)
(* Property C19                                                             *)
(***************************************************************************)
PairOK(a, b) ==
    /\ a.h # b.h
    /\ a.ts # b.ts
    /\ a.txs \cap b.txs = {}
    /\ DayOf(a.ts) = DayOf(b.ts)
    /\ a.ts - b.ts < RoundGap
    /\ b.ts - a.ts < RoundGap

\* on a set of snapshots
RoundInv(snaps) == \A a, b \in snaps : a # b => PairOK(a, b)

\* on a list (the real CacheRound.Snapshots slice, the sequence of accepted candidates):
\* a repeated element is a duplicate
SeqInv(q) == \A i, j \in DOMAIN q : i # j => PairOK(q[i], q[j])

CloseOK(snaps) == AsFinal(snaps).res # "panic"

=============================================================================
