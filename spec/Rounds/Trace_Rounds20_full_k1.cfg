SPECIFICATION Spec
CONSTANTS
  Mode = "full"
  Known = {"C20-1"}
  NC = 7
CONSTRAINT HW
INVARIANT Inv
POSTCONDITION Accepted
CHECK_DEADLOCK FALSE
