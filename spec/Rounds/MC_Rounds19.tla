---------------------------- MODULE MC_Rounds19 ----------------------------
(* C19, engine E3/E1: every sequence of at most MaxCand candidate snapshots  *)
(* offered to one live round.  Candidates = Idents x Offs (x add flag):      *)
(* identities with repeated hash values and overlapping transaction sets,    *)
(* timestamps on a grid around a start S, S +- gap, the day boundary D = S+12*)
(* (1.5 s after S), D + gap, each +- 1 ns.                                   *)
EXTENDS Rounds, Json, TLC

CONSTANTS IdentSet,    \* subset of DOMAIN Ident
          Offs,        \* timestamp offsets relative to S
          MaxCand,     \* candidates offered per round (sequence length)
          AddFlags     \* {TRUE} or {TRUE, FALSE}

S0 == 2 * OneDay - 12

Ident == <<
   [h |-> 1, txs |-> {1}],
   [h |-> 2, txs |-> {2}],
   [h |-> 3, txs |-> {3}],
   [h |-> 4, txs |-> {4}],
   [h |-> 5, txs |-> {5}],
   [h |-> 1, txs |-> {6}],       \* repeated hash, other content
   [h |-> 6, txs |-> {1, 7}],    \* overlaps identity 1
   [h |-> 7, txs |-> {2, 3}] >>  \* overlaps identities 2 and 3

Cands == { [h |-> Ident[i].h, ts |-> S0 + o, txs |-> Ident[i].txs] : i \in IdentSet, o \in Offs }

OffsFull  == {-25,-24,-23,-1,0,1,11,12,13,23,24,25,35,36,37}
OffsSmall == {-24,-1,0,1,11,12,13,23,24,25}
OffsGen   == {-24,-1,0,1,11,12,23,24,25}
AddBoth == {TRUE, FALSE}
AddOnly == {TRUE}

VARIABLES snaps, n, last
vars == <<snaps, n, last>>

Init == snaps = {} /\ n = 0 /\ last = [op |-> "Init"]

Validate ==
    /\ n < MaxCand
    /\ \E c \in Cands, add \in AddFlags :
         /\ snaps' = AfterValidate(snaps, c, add)
         /\ last' = [op |-> "Validate", s |-> c, add |-> add, res |-> ValidateSnapshot(snaps, c)]
    /\ n' = n + 1

Close ==
    /\ last' = [op |-> "AsFinal", res |-> AsFinal(snaps).res, start |-> AsFinal(snaps).start, end |-> AsFinal(snaps).end]
    /\ UNCHANGED <<snaps, n>>

Next == Validate \/ Close
Spec == Init /\ [][Next]_vars

View == snaps

Inv == /\ RoundInv(snaps)
       /\ CloseOK(snaps)
       /\ \A c \in Cands : ValidateSnapshot(snaps, c) # "panic"

\* an accepted candidate is in the round afterwards, a refused one changes nothing
StepProp == [][last'.op = "Validate" =>
                 /\ (last'.res = "ok" /\ last'.add => snaps' = snaps \cup {last'.s})
                 /\ (last'.res # "ok" \/ ~last'.add => snaps' = snaps)]_vars

\* non-vacuity witnesses (each must be violated, i.e. reachable)
ReachFive == Cardinality(snaps) < 5
ReachSpan == ~(snaps # {} /\ MaxTs(snaps) - MinTs(snaps) = RoundGap - 1)
ReachMovedStart == ~(\E a, b, c \in snaps : a.ts < b.ts /\ b.ts < c.ts /\ c.ts - a.ts = RoundGap - 1)

Emit == PrintT("EDGE " \o ToJson([from |-> snaps, o |-> last', to |-> snaps']))
=============================================================================
