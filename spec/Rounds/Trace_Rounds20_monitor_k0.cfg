SPECIFICATION Spec
CONSTANTS
  Mode = "monitor"
  Known = {}
  NC = 7
CONSTRAINT HW
INVARIANT Inv
POSTCONDITION Accepted
CHECK_DEADLOCK FALSE
