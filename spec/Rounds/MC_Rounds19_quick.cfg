SPECIFICATION Spec
CONSTANTS
  IdentSet = {1,2,3,4,5,6,7,8}
  Offs <- OffsSmall
  MaxCand = 5
  AddFlags <- AddBoth
VIEW View
INVARIANT Inv
PROPERTY StepProp
CHECK_DEADLOCK FALSE
