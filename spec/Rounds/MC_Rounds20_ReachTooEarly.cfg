SPECIFICATION Spec
CONSTANTS
  NC = 7
  Driven = {1,2}
  Targets = {1,2,3}
  AliasTargets = {}
  MaxNum = 3
  MaxOps = 8
  Order <- OrderReal
  Jumps = TRUE
VIEW View
PROPERTY ReachTooEarly
CHECK_DEADLOCK FALSE
