SPECIFICATION Spec
CONSTANTS
  NM = 4
  ND = 2
  Proposer = 1
  MaxConflicts = 2
INVARIANT ReachEnd
CHECK_DEADLOCK FALSE
