------------------------------- MODULE MC_Work -------------------------------
(* C26, engine E3/E1: one chain, rounds 0..MaxRound with the snapshots of    *)
(* RoundTable, every monotone submission sequence of at most MaxSub calls:    *)
(*   - the round of the stored offset again, with the same or a larger set    *)
(*     (retry, restart = resubmission from the stored offset),               *)
(*   - the next round with any non-empty set,                                *)
(*   - an older round again with the set it was last submitted with.         *)
(* A world fixes the credit flag and the day of every round and the signer   *)
(* table.  Non-monotone submissions (which the code aborts on) are outside   *)
(* the property's quantifier and are not generated.                          *)
EXTENDS Work, Json, TLC

CONSTANTS MaxRound, MaxSub, Tables, SnapIds

RoundTable == <<0, 0, 0, 1, 1, 1, 2, 2>>          \* snapshot id -> round
SignerTable == <<
   << {1,2,3}, {1,2}, {1}, {1,3}, {1,2,3}, {1,2}, {1,3}, {1} >>,
   << {1}, {1,3}, {1,2,3}, {1,2}, {1}, {1,3}, {1,2}, {1,2,3} >> >>

Rounds == 0..MaxRound
SnapsOfRound(r) == { i \in SnapIds : RoundTable[i] = r }

Worlds == { [credit |-> c, day |-> d, table |-> t] :
              c \in [Rounds -> BOOLEAN],
              d \in { f \in [Rounds -> Days] : \A r \in Rounds : r > 0 => f[r] >= f[r - 1] },
              t \in Tables }

Rec(w, i) == [id |-> i, day |-> w.day[RoundTable[i]], signers |-> SignerTable[w.table][i]]

\* the submitted slice: members in id order (the store returns them in timestamp order)
SliceOf(w, S) ==
    LET n == Cardinality(S)
        nth(k) == CHOOSE i \in S : Cardinality({ j \in S : j < i }) = k - 1
    IN [k \in 1..n |-> Rec(w, nth(k))]

VARIABLES w, st, done, lastSet, nsub, last
vars == <<w, st, done, lastSet, nsub, last>>

Init == /\ w \in Worlds
        /\ st = InitStore
        /\ done = {}
        /\ lastSet = [r \in Rounds |-> {}]
        /\ nsub = 0
        /\ last = [op |-> "Init"]

Choices ==
    { [round |-> st.off, S |-> S] : S \in { X \in SUBSET SnapsOfRound(st.off) : X # {} /\ st.seen \subseteq X } }
    \cup (IF st.off + 1 <= MaxRound
          THEN { [round |-> st.off + 1, S |-> S] : S \in (SUBSET SnapsOfRound(st.off + 1)) \ {{}} }
          ELSE {})
    \cup { [round |-> r, S |-> lastSet[r]] : r \in { x \in Rounds : x < st.off /\ lastSet[x] # {} } }

Submit ==
    /\ nsub < MaxSub
    /\ \E c \in Choices :
         LET q == SliceOf(w, c.S)
             credit == w.credit[c.round]
             r == WriteRoundWork(st, c.round, q, credit) IN
         /\ st' = r.st
         /\ done' = IF r.res = "ok" /\ c.round >= st.off THEN DoneAfter(done, q, credit) ELSE done
         /\ lastSet' = [lastSet EXCEPT ![c.round] = c.S]
         /\ last' = [op |-> "Submit", round |-> c.round, credit |-> credit, snaps |-> q, res |-> r.res,
                     grown |-> c.round = st.off /\ st.seen # {} /\ st.seen # c.S]
    /\ nsub' = nsub + 1
    /\ UNCHANGED w

Next == Submit
Spec == Init /\ [][Next]_vars

View == <<w, st, done, lastSet>>

Inv == WorkInv(done, st.lead, st.sign)

\* monotone submissions never abort (an action property: the VIEW hides `last`)
NoAbort == [][last'.res = "ok"]_vars

\* a repeated or stale submission changes no counter
StepProp == [][(last'.op = "Submit" /\ IdsOf(last'.snaps) \subseteq { s.id : s \in done })
                  => st'.lead = st.lead /\ st'.sign = st.sign]_vars

\* non-vacuity: a resubmission with a strictly larger set that credits only the new members
ReachGrow == [][~(last'.credit /\ last'.grown /\ st'.off = 1 /\ st'.lead[Proposer][w.day[1]] >= 2
                   /\ st'.lead # st.lead)]_vars

Emit == PrintT("EDGE " \o ToJson(
          [from |-> [w |-> w, off |-> st.off, seen |-> st.seen, done |-> { s.id : s \in done }, ls |-> lastSet],
           o    |-> last',
           to   |-> [w |-> w, off |-> st'.off, seen |-> st'.seen, done |-> { s.id : s \in done' }, ls |-> lastSet']]))
=============================================================================
